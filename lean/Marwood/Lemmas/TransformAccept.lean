import Marwood.Lemmas.TransformSelect
/-!
# What `Transform::try_new` accepts has well-formed patterns (`wfPattern`)

`check_pattern_support` gives proper, vector-free lists; `Pattern::build` gives "no list starts with
the ellipsis, at most one ellipsis per list". Together: `okS`.
-/
namespace Marwood.Transform
open Marwood Marwood.Spec.Match

mutual
def properP : Datum → Bool
  | .pair a d => properP a && properS d
  | .vec _ => false
  | _ => true
def properS : Datum → Bool
  | .pair a d => properP a && properS d
  | .nil => true
  | _ => false
end

mutual
/-- ellipsis placement inside an element: no list starts with the ellipsis or has two -/
def plP (es : Text) : Datum → Bool
  | .pair a d => decide (a ≠ .sym es) && plP es a && plS es true d
  | _ => true
def plS (es : Text) : Bool → Datum → Bool
  | allow, .pair q rest =>
    if q = .sym es then allow && plS es false rest else plP es q && plS es allow rest
  | _, _ => true
end

theorem properS_of (d : Datum) (h1 : endsInNil d = true) (h2 : ∀ it ∈ iterList d, properP it = true) :
    properS d = true := by
  induction d with
  | pair a d _ ihd =>
    simp only [endsInNil] at h1
    simp only [properS, Bool.and_eq_true]
    exact ⟨h2 a (by simp [iterList]), ihd h1 (fun it hit => h2 it (by simp [iterList, hit]))⟩
  | nil => rfl
  | _ => simp [endsInNil] at h1

theorem properS_endsInNil : ∀ {d : Datum}, properS d = true → endsInNil d = true := by
  intro d
  induction d with
  | pair a d _ ihd => intro h; simp only [properS, Bool.and_eq_true] at h; simp only [endsInNil]; exact ihd h.2
  | nil => intro _; rfl
  | _ => intro h; simp [properS] at h

theorem isImproper_false_endsInNil {a d : Datum} (h : isImproperList (.pair a d) = false) :
    endsInNil (.pair a d) = true := by
  simpa [isImproperList, endsInNil] using h

theorem cpsLoop_proper (ell : Datum) : ∀ (f : Nat) (inEll : Bool) (items : List Datum),
    cpsLoop ell f inEll items = .ok () → ∀ it ∈ items, properP it = true := by
  intro f
  induction f with
  | zero => intro inEll items h; simp [cpsLoop] at h
  | succ f ih =>
    intro inEll items h
    cases items with
    | nil => intro it hit; cases hit
    | cons x rest =>
      unfold cpsLoop at h
      simp only at h
      split at h
      · cases h
      · split at h
        · rename_i hsub
          have hrest := ih _ _ h
          intro it hit
          simp only [List.mem_cons] at hit
          rcases hit with rfl | hit
          · cases it with
            | vec v => simp at hsub
            | pair a d =>
              simp only at hsub
              split at hsub
              · cases hsub
              · rename_i himp
                have hall := ih _ _ hsub
                have hnil := isImproper_false_endsInNil (by simpa using himp)
                have := properS_of (.pair a d) hnil hall
                simpa [properP, properS] using this
            | _ => rfl
          · exact hrest it hit
        all_goals cases h

theorem checkPatternSupport_proper {f : Nat} {kw body ell : Datum}
    (h : checkPatternSupport f (.pair kw body) ell false = .ok ()) : properS body = true := by
  unfold checkPatternSupport at h
  simp only at h
  split at h
  · cases h
  · rename_i himp
    have hall := cpsLoop_proper ell f false _ h
    have hnil := isImproper_false_endsInNil (by simpa using himp)
    have := properS_of (.pair kw body) hnil hall
    simp only [properS, Bool.and_eq_true] at this
    exact this.2

theorem properP_iter {a d : Datum} (h : properP (.pair a d) = true) :
    Datum.ofList (iterList (.pair a d)) = .pair a d ∧ ∀ it ∈ iterList (.pair a d), properP it = true := by
  have hs : properS (.pair a d) = true := by simpa [properP, properS] using h
  have hnil := properS_endsInNil hs
  refine ⟨(endsInNil_ofList hnil).symm, ?_⟩
  clear h hnil
  generalize Datum.pair a d = x at hs
  induction x with
  | pair a d _ ihd =>
    simp only [properS, Bool.and_eq_true] at hs
    intro it hit
    simp only [iterList, List.mem_cons] at hit
    rcases hit with rfl | hit
    · exact hs.1
    · exact ihd hs.2 it hit
  | nil => intro it hit; simp [iterList] at hit
  | _ => simp [properS] at hs

theorem plS_ofList_cons_ne {es : Text} {allow : Bool} {q : Datum} {rest : List Datum} (hq : q ≠ .sym es) :
    plS es allow (Datum.ofList (q :: rest)) = (plP es q && plS es allow (Datum.ofList rest)) := by
  simp [Datum.ofList, plS, hq]

theorem plS_ofList_cons_ell {es : Text} {allow : Bool} {rest : List Datum} :
    plS es allow (Datum.ofList (Datum.sym es :: rest)) = (allow && plS es false (Datum.ofList rest)) := by
  simp [Datum.ofList, plS]

/-- what `build` accepted has its ellipses in place -/
theorem buildLoop_place (es : Text) : ∀ (f : Nat) (imp : Bool) (len idx : Nat) (items : List Datum)
    (ct : Nat) (p p' : Pattern), p.ellipsis = .sym es → (∀ it ∈ items, properP it = true) →
    buildLoop f imp len idx items ct p = .ok p' →
    plS es (decide (ct = 0)) (Datum.ofList items) = true ∧ (idx = 0 → peekIs (.sym es) items = false) := by
  intro f
  induction f with
  | zero => intro imp len idx items ct p p' _ _ h; simp [buildLoop] at h
  | succ f ih =>
    intro imp len idx items ct p p' hell hprop h
    cases items with
    | nil => exact ⟨by simp [Datum.ofList, plS], fun _ => rfl⟩
    | cons it rest =>
      have hprest : ∀ x ∈ rest, properP x = true := fun x hx => hprop x (List.mem_cons_of_mem _ hx)
      unfold buildLoop at h
      simp only at h
      cases hit : it with
      | sym x =>
        rw [hit] at h
        simp only at h
        by_cases hx : x = es
        · -- the ellipsis itself
          subst hx
          have hisE : p.isEllipsis (.sym x) = true := by simp [Pattern.isEllipsis, hell]
          simp only [hisE, if_true] at h
          split at h
          · cases h
          · rename_i hidx
            split at h
            · cases h
            · split at h
              · cases h
              · split at h
                · cases h
                · rename_i hct
                  have hct0 : ct = 0 := by omega
                  have := ih _ _ _ _ _ _ _ hell hprest h
                  refine ⟨?_, fun h0 => by simp [h0] at hidx⟩
                  rw [plS_ofList_cons_ell]
                  simp only [hct0, decide_true, Bool.true_and]
                  simpa [hct0] using this.1
        · have hisE : p.isEllipsis (.sym x) = false := by
            simp [Pattern.isEllipsis, hell, hx]
          have hne : Datum.sym x ≠ Datum.sym es := by simpa using hx
          simp only [hisE, Bool.false_eq_true, if_false] at h
          have key : ∀ (p1 : Pattern), p1.ellipsis = .sym es →
              buildLoop f imp len (idx + 1) rest ct p1 = .ok p' →
              plS es (decide (ct = 0)) (Datum.ofList (Datum.sym x :: rest)) = true ∧
                (idx = 0 → peekIs (.sym es) (Datum.sym x :: rest) = false) := by
            intro p1 hp1 hb
            have := ih _ _ _ _ _ _ _ hp1 hprest hb
            refine ⟨?_, fun _ => by simp [peekIs, hx]⟩
            rw [plS_ofList_cons_ne hne]
            simp [plP, this.1]
          split at h
          · rename_i p1 hstep
            have hp1 : p1.ellipsis = .sym es := by
              split at hstep
              · split at hstep
                · cases hstep
                · cases hstep; exact hell
              · split at hstep
                · cases hstep
                · cases hstep; exact hell
            split at h
            · split at h
              · rename_i p2 hfe
                exact key p2 (by rw [(findExpanded_pres _ _ _ _ hfe).ell, hp1]) h
              all_goals cases h
            · exact key p1 hp1 h
          all_goals cases h
      | pair a d =>
        rw [hit] at h hprop
        simp only at h
        have hpit : properP (.pair a d) = true := hprop _ (by simp)
        obtain ⟨hiteq, hitel⟩ := properP_iter hpit
        split at h
        · rename_i p1 hp1
          have hp1e : p1.ellipsis = .sym es := by
            split at hp1
            · rw [(findExpanded_pres _ _ _ _ hp1).ell, hell]
            · cases hp1; exact hell
          split at h
          · rename_i p2 hp2
            have hnest := ih _ _ _ _ _ _ _ hp1e hitel hp2
            have hp2e : p2.ellipsis = .sym es := by rw [(buildLoop_pres _ _ _ _ _ _ _ _ hp2).ell, hp1e]
            have hcont := ih _ _ _ _ _ _ _ hp2e hprest h
            have hane : a ≠ .sym es := by
              have := hnest.2 rfl
              intro ha
              simp [iterList, peekIs, ha] at this
            refine ⟨?_, fun _ => by simp [peekIs]⟩
            have hne : Datum.pair a d ≠ Datum.sym es := by simp
            rw [plS_ofList_cons_ne hne]
            simp only [hcont.1, Bool.and_true]
            have h1 := hnest.1
            simp only [decide_true] at h1
            rw [hiteq] at h1
            simp only [plS, hane, if_false] at h1
            simp only [plP, hane, ne_eq, not_false_eq_true, decide_true, Bool.true_and]
            exact h1
          all_goals cases h
        all_goals cases h
      | _ =>
        rw [hit] at h
        simp only at h
        have := ih _ _ _ _ _ _ _ hell hprest h
        refine ⟨?_, fun _ => by simp [peekIs]⟩
        rw [plS_ofList_cons_ne (by simp)]
        simp [plP, this.1]

theorem ok_of_proper_place (es : Text) : ∀ d : Datum,
    (properP d = true → plP es d = true → d ≠ .sym es → okP es d = true) ∧
    (∀ allow, properS d = true → plS es allow d = true → okS es allow d = true) := by
  intro d
  induction d with
  | pair a d iha ihd =>
    constructor
    · intro hp hl _
      simp only [properP, Bool.and_eq_true] at hp
      simp only [plP, Bool.and_eq_true, decide_eq_true_eq] at hl
      simp only [okP, Bool.and_eq_true]
      exact ⟨iha.1 hp.1 hl.1.2 hl.1.1, ihd.2 true hp.2 hl.2⟩
    · intro allow hp hl
      simp only [properS, Bool.and_eq_true] at hp
      simp only [plS] at hl
      simp only [okS]
      split
      · rename_i hq
        simp only [hq, if_true, Bool.and_eq_true] at hl
        simp only [Bool.and_eq_true]
        exact ⟨hl.1, ihd.2 false hp.2 hl.2⟩
      · rename_i hq
        simp only [hq, if_false, Bool.and_eq_true] at hl
        simp only [Bool.and_eq_true]
        exact ⟨iha.1 hp.1 hl.1 hq, ihd.2 allow hp.2 hl.2⟩
  | sym x => exact ⟨fun _ _ h => by simpa [okP] using h, fun _ h => by simp [properS] at h⟩
  | nil => exact ⟨fun _ _ _ => rfl, fun _ _ _ => by simp [okS]⟩
  | vec v _ => exact ⟨fun h => by simp [properP] at h, fun _ h => by simp [properS] at h⟩
  | _ => exact ⟨fun _ _ _ => rfl, fun _ h => by simp [properS] at h⟩

/-- every rule of an accepted transformer has a well-formed pattern -/
theorem ruleOK_wfPattern (s : Setup) {f : Nat} {r : Pattern × Datum} (h : RuleOK f s.ell s.lits r) :
    wfPattern s.es r.1.expr = true := by
  obtain ⟨hexpr, hpell, hplits, kw, body, hpb, hbuild⟩ := Pattern.tryNew_ok h.pat
  have hsup := h.support
  rw [hpb] at hsup
  have hprop := checkPatternSupport_proper hsup
  have hnil := properS_endsInNil hprop
  have hbeq := endsInNil_ofList hnil
  have hel : ∀ it ∈ iterList body, properP it = true := by
    cases body with
    | pair a d => exact (properP_iter (by simpa [properP, properS] using hprop)).2
    | nil => intro it hit; simp [iterList] at hit
    | _ => simp [properS] at hprop
  have hplace := buildLoop_place s.es f _ _ 0 (iterList body) 0
    { expr := r.1.expr, variables := [], expanded := [], ellipsis := s.ell, literals := s.lits } r.1
    (by rfl) hel (by simpa [build] using hbuild)
  rw [hpb]
  simp only [wfPattern, Bool.and_eq_true]
  have h1 := hplace.1
  simp only [decide_true] at h1
  rw [← hbeq] at h1
  refine ⟨(ok_of_proper_place s.es body).2 true hprop h1, ?_⟩
  have h2 := hplace.2 rfl
  cases body with
  | pair q R => simp [iterList, peekIs] at h2; simpa using h2
  | _ => rfl

end Marwood.Transform
