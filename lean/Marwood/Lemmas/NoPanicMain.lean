import Marwood.Lemmas.NoPanicFacts
/-!
# T06.6 on the concrete machine: `run_one` never panics on reachable states

* `step_apply_guard_only` — one state: under the bundled invariant `VmOkP` (heap-simulation invariant, WF-stack over
  the value-typed verifier, "no value leads to entry code"), the two further clauses `NPInv` (VARARG / `Argument`
  indices of every lambda object; every continuation object fits the current stack) and the slot clause `EnvSlots`
  of the current instruction, and the law `ExtNoPanic` of the unmodelled operations, the only `panic` outcome of the
  MODEL's `step` is the fuel guard of `apply`'s list walk — which is not a panic site of `run_one` (the Rust loop is
  unbounded: on a cyclic list it does not return, C06's hang clause).
* `VmOkNP = VmOkP ∧ NPInv` is an invariant of the real concrete machine (`vmOkNP_reaches`); `EnvSlots` is the one
  clause asked of the state the instruction is executed in (`EnvSlotsAlong` for whole runs): it relates `ep` to the
  code object `ip.0` through the frame chain (the saved `EnvironmentPointer` of every frame and continuation fits the
  frame's code), which neither WF-stack nor the heap invariants record. It is evaluated on every real state by the
  stream `safe-side-conditions` (`np-env-slots`).
* `apply_guard_only_on_long_lists` — the guard fires only if the cdr chain from `apply`'s last argument runs through
  at least 100000 pairs of the heap (a list of 100000 or more elements, or a cyclic one).
* `runLoop_never_panics_machine`, `runEval_never_panics_machine`, `history_never_panics_machine` — no evaluation,
  and no history of evaluations (the stack's capacity survives `Stack::clear` and the error reset, so `NPInv` is
  carried from one evaluation to the next), of the concrete machine ends in a panic other than that guard.
-/
namespace Marwood.Lemmas.Good
open Marwood Marwood.Vm Marwood.Vm.Verify Marwood.Vm.Concrete Marwood.Lemmas.Sim
open Marwood.Heap (GcState)

variable {ext : ExtOps} {ecl : ExtCodeLawsV ext}

/-- the name of the guard -/
abbrev applyGuard : String := "apply: list longer than fuel (cyclic list)"

/-- a halted machine's next `run_one` is an `InvalidBytecode` error, not a panic -/
theorem halted_step_np {s : St CHeap} (h : HaltedAt s) : Outcome.NoPanic (step (concreteOps ext) s) := by
  obtain ⟨_, bc, hc, hl⟩ := h
  obtain ⟨lam, hcell, hbc⟩ := codeC_some hc
  have h1 : (concreteOps ext).isLambda s.heap s.ipL = true := by
    show (lambdaAt s.heap s.ipL).isSome = true
    rw [lambdaAt_iff.mpr hcell]; rfl
  have h2 : (concreteOps ext).fetch s.heap s.ipL s.ipO = none := by
    show (match lambdaAt s.heap s.ipL with | some lam => lam.bc[s.ipO]? | none => none) = none
    rw [lambdaAt_iff.mpr hcell]
    show lam.bc[s.ipO]? = none
    rw [hbc]
    exact List.getElem?_eq_none hl
  unfold step
  refine pin_bind ?_ (fun a hr => ?_)
  · exact readOpcode_np h1
  · exfalso
    obtain ⟨op, s1⟩ := a
    have := (readOpcode_ok hr).1
    rw [h2] at this; cases this

/-- **T06.6, one state of the concrete machine.** -/
theorem step_apply_guard_only (en : ExtNoPanic ext) {s : St CHeap} (h : VmOkP ext ecl s) (np : NPInv s)
    (es : EnvSlots s) (m : String) (hp : step (concreteOps ext) s = .panic m) : m = applyGuard := by
  rcases h.1.2 with ⟨K, hw⟩ | hh
  · exact step_pin_local hw (readOpcode_vops s) (panicFacts_concrete en h.1.1 hw np es) m hp
  · exact (halted_step_np hh m hp).elim

/-! ## the invariant along runs -/

/-- the bundled invariant with the two further clauses -/
def VmOkNP (ext : ExtOps) (ecl : ExtCodeLawsV ext) (s : St CHeap) : Prop := VmOkP ext ecl s ∧ NPInv s

/-- the slot clause in every reachable state -/
def EnvSlotsAlong (m : Machine (St CHeap) Fault) (s0 : St CHeap) : Prop := ∀ s', Reaches m s0 s' → EnvSlots s'

theorem npinv_reaches (force : Bool) (en : ExtNoPanic ext) {s0 : St CHeap} (n0 : NPInv s0) :
    ∀ s', Reaches (machine ext force) s0 s' → NPInv s' := by
  intro s' hr
  induction hr with
  | refl => exact n0
  | @next s1 s2 hr1 e ih =>
    have e' : vmStep (concreteOps ext) s1 = .next s2 := e
    unfold vmStep at e'
    cases hst : step (concreteOps ext) s1 with
    | ok r =>
      obtain ⟨s3, b⟩ := r
      rw [hst] at e'
      cases b <;> simp only at e'
      · cases e'; exact npinv_step en hst ih
      · cases e'
    | err x => rw [hst] at e'; cases e'
    | panic x => rw [hst] at e'; cases e'
  | @halt s1 s2 hr1 e ih =>
    have e' : vmStep (concreteOps ext) s1 = .halt s2 := e
    unfold vmStep at e'
    cases hst : step (concreteOps ext) s1 with
    | ok r =>
      obtain ⟨s3, b⟩ := r
      rw [hst] at e'
      cases b <;> simp only at e'
      · cases e'
      · cases e'; exact npinv_step en hst ih
    | err x => rw [hst] at e'; cases e'
    | panic x => rw [hst] at e'; cases e'
  | @gc s1 hr1 ih => exact npinv_gc force ih

/-- **`VmOkP ∧ NPInv` is an invariant of the REAL concrete machine** -/
theorem vmOkNP_reaches (force : Bool) (el : ExtLaws ext) (eg : ExtGood ext) (ep : ExtProc ext) (en : ExtNoPanic ext)
    {s0 : St CHeap} (h0 : VmOkNP ext ecl s0) (sb : SizeBounded (machine ext force) s0) :
    ∀ s', Reaches (machine ext force) s0 s' → VmOkNP ext ecl s' :=
  fun s' hr => ⟨vmOkP_reaches force el eg ep h0.1 sb s' hr, npinv_reaches force en h0.2 s' hr⟩

/-- **T06.6: `step` never panics on a reachable state of the concrete machine**, except at the model's own fuel
    guard in `apply` -/
theorem step_never_panics_reachable (force : Bool) (el : ExtLaws ext) (eg : ExtGood ext) (ep : ExtProc ext)
    (en : ExtNoPanic ext) {s0 : St CHeap} (h0 : VmOkNP ext ecl s0) (sb : SizeBounded (machine ext force) s0)
    {s' : St CHeap} (hr : Reaches (machine ext force) s0 s') (es : EnvSlots s') (m : String)
    (hp : step (concreteOps ext) s' = .panic m) : m = applyGuard := by
  obtain ⟨h1, h2⟩ := vmOkNP_reaches force el eg ep en h0 sb s' hr
  exact step_apply_guard_only en h1 h2 es m hp

/-! ## the guard of `apply` -/

/-- the cdr chain from `v` runs through at least `k` pair cells of `h` -/
inductive LongChain (h : CHeap) : Nat → VCell → Prop
  | zero (v : VCell) : LongChain h 0 v
  | pair {k : Nat} (car cdr : Nat) : LongChain h k (deref h (.ptr cdr)) → LongChain h (k + 1) (.pair car cdr)

/-- a chain that ends in `()` after fewer than `k` pairs is not long -/
inductive EndsWithin (h : CHeap) : Nat → VCell → Prop
  | nil (k : Nat) : EndsWithin h (k + 1) .nil
  | pair {k : Nat} (car cdr : Nat) : EndsWithin h k (deref h (.ptr cdr)) → EndsWithin h (k + 1) (.pair car cdr)

theorem pushList_panic_long (s : St CHeap) : ∀ (fuel : Nat) (rest : VCell) (n : Nat) (st : Stack) (m : String),
    builtinApply.pushList (concreteOps ext) s fuel rest n st = .panic m → LongChain s.heap fuel rest
  | 0, rest, _, _, _, _ => .zero rest
  | fuel+1, rest, n, st, m, h => by
    unfold builtinApply.pushList at h
    split at h
    · rename_i car cdr
      exact .pair car cdr (pushList_panic_long s fuel _ _ _ m h)
    · cases h
    · cases h

/-- a proper list shorter than the fuel does not trip the guard -/
theorem pushList_ends_np (s : St CHeap) : ∀ (fuel : Nat) (rest : VCell) (n : Nat) (st : Stack),
    EndsWithin s.heap fuel rest → Outcome.NoPanic (builtinApply.pushList (concreteOps ext) s fuel rest n st)
  | 0, _, _, _, h => by cases h
  | fuel+1, rest, n, st, h => by
    unfold builtinApply.pushList
    cases h with
    | nil => exact pin_ok _
    | pair car cdr hc => exact pushList_ends_np s fuel _ _ _ hc

theorem bind_panic_inv {α β : Type} {x : Outcome α} {f : α → Outcome β} {m : String}
    (h : (x >>= f) = .panic m) : x = .panic m ∨ ∃ a, x = .ok a ∧ f a = .panic m := by
  cases x with
  | ok a => exact .inr ⟨a, rfl, h⟩
  | err e => cases h
  | panic m' => left; rw [outcome_bind_panic] at h; cases h; rfl

theorem ite_err_panic {α : Type} {c : Prop} [Decidable c] {e : Err} {x : Outcome α} {m : String}
    (h : (if c then Outcome.err e else x) = .panic m) : x = .panic m := by
  split at h
  · cases h
  · exact h

/-- **the guard fires only on a long (or cyclic) list**: if `apply` trips the model's fuel guard, the cdr chain
    from its last argument (the cell under the argument count) runs through at least 100000 pair cells -/
theorem builtinApply_panic_long {s : St CHeap}
    (hp : builtinApply (concreteOps ext) s = .panic applyGuard) :
    LongChain s.heap 100000 (deref s.heap (s.stack.cellAt (s.stack.sp - 1))) := by
  unfold builtinApply at hp
  rcases bind_panic_inv hp with h | ⟨⟨a, st⟩, hp1, hp⟩
  · exact (pop_np _ _ h).elim
  dsimp only at hp
  rcases bind_panic_inv hp with h | ⟨argc, ha, hp⟩
  · exact (asArgc_np _ _ h).elim
  split at hp
  · cases hp
  rcases bind_panic_inv hp with h | ⟨⟨top, st2⟩, hp2, hp⟩
  · exact (pop_np _ _ h).elim
  dsimp only at hp
  have htop : top = s.stack.cellAt (s.stack.sp - 1) := by
    obtain ⟨p1, p2, _⟩ := pop_ok hp1
    obtain ⟨_, _, q3⟩ := pop_ok hp2
    rw [q3]
    unfold Stack.cellAt
    rw [p2]
    congr 2
    omega
  rw [← htop]
  replace hp := ite_err_panic hp
  rcases bind_panic_inv hp with h | ⟨proc, _, hp⟩
  · exact (getOffset_np _ _ _ h).elim
  rcases bind_panic_inv hp with h | ⟨st3, _, hp⟩
  · exact (shift_np _ _ _ h).elim
  rcases bind_panic_inv hp with h | ⟨⟨x4, st4⟩, _, hp⟩
  · exact (pop_np _ _ h).elim
  dsimp only at hp
  rcases bind_panic_inv hp with h | ⟨⟨n5, st5⟩, _, hp⟩
  · exact pushList_panic_long s _ _ _ _ _ h
  dsimp only at hp
  rcases bind_panic_inv hp with h | ⟨o, _, hp⟩
  · unfold usub at h
    split at h
    · cases h
    · exact absurd (Outcome.panic.inj h) (by decide)
  · cases hp

/-- **T06.6 with the guard characterised**: the only panic of the model's `step` in a good state of the concrete
    machine is `apply`'s fuel guard, and it fires only if the cdr chain from `apply`'s list argument (the stack cell
    under the argument count) runs through at least 100000 pair cells -/
theorem step_apply_guard_long (en : ExtNoPanic ext) {s : St CHeap} (h : VmOkP ext ecl s) (np : NPInv s)
    (es : EnvSlots s) (m : String) (hp : step (concreteOps ext) s = .panic m) :
    m = applyGuard ∧ LongChain s.heap 100000 (deref s.heap (s.stack.cellAt (s.stack.sp - 1))) := by
  rcases h.1.2 with ⟨K, hw⟩ | hh
  · refine step_pin_localR (R := fun m => m = applyGuard ∧
        LongChain s.heap 100000 (deref s.heap (s.stack.cellAt (s.stack.sp - 1))))
      hw (readOpcode_vops s) (panicFacts_concrete en h.1.1 hw np es) ?_ m hp
    intro m' hm'
    have e : m' = applyGuard := builtinApply_pinA (nxt s) (Nat.le_add_left 1 s.ipO) m' hm'
    subst e
    exact ⟨rfl, builtinApply_panic_long (s := nxt s) hm'⟩
  · exact (halted_step_np hh m hp).elim

/-! ## whole runs -/

/-- where a run of the concrete machine ends: reachable states; a run that ends in an error ends at the failing
    instruction -/
theorem runLoop_ends (force : Bool) (count : Option Nat) :
    ∀ (fuel c : Nat) (s : St CHeap),
      (∀ e sf, runLoop (machine ext force) count fuel c s = .error e sf →
        Reaches (machine ext force) s sf ∧ vmStep (concreteOps ext) sf = .fail e sf) ∧
      (∀ sd, runLoop (machine ext force) count fuel c s = .done sd → Reaches (machine ext force) s sd) ∧
      (∀ sp, runLoop (machine ext force) count fuel c s = .paused sp → Reaches (machine ext force) s sp) := by
  intro fuel
  induction fuel with
  | zero => intro c s; simp [runLoop]
  | succ n ih =>
    intro c s
    simp only [runLoop]
    have hr0 : Reaches (machine ext force) s (if (c + 1) % 8192 = 0 then (machine ext force).gc s else s) := by
      split
      · exact .gc (.refl s)
      · exact .refl s
    generalize (if (c + 1) % 8192 = 0 then (machine ext force).gc s else s) = s1 at hr0
    cases hst : (machine ext force).step s1 with
    | halt s' =>
      refine ⟨fun e sf h => (by cases h), fun sd h => ?_, fun sp h => (by cases h)⟩
      cases h
      exact .halt hr0 hst
    | fail e s' =>
      refine ⟨fun e' sf h => ?_, fun sd h => (by cases h), fun sp h => (by cases h)⟩
      cases h
      have hst' : vmStep (concreteOps ext) s1 = .fail e s' := hst
      have : s' = s1 := by
        unfold vmStep at hst'
        split at hst' <;> cases hst' <;> rfl
      subst this
      exact ⟨hr0, hst'⟩
    | next s' =>
      simp only
      have hr1 : Reaches (machine ext force) s s' := .next hr0 hst
      split
      · refine ⟨fun e sf h => (by cases h), fun sd h => (by cases h), fun sp h => ?_⟩
        cases h
        exact .gc hr1
      · obtain ⟨a, b, d⟩ := ih (c + 1) s'
        exact ⟨fun e sf h => ⟨hr1.trans (a e sf h).1, (a e sf h).2⟩, fun sd h => hr1.trans (b sd h),
          fun sp h => hr1.trans (d sp h)⟩

theorem vmStep_panic {s sf : St CHeap} {m : String} (h : vmStep (concreteOps ext) s = .fail (.panic m) sf) :
    step (concreteOps ext) s = .panic m := by
  unfold vmStep at h
  split at h <;> first | (cases h; done) | skip
  rename_i site hs
  cases h
  exact hs

/-- **`run_count` never ends in a panic** (other than the model's guard in `apply`): from a state satisfying the
    bundled invariant, any budget, any number of instructions, any placement of the loop's collections -/
theorem runLoop_never_panics_machine (force : Bool) (el : ExtLaws ext) (eg : ExtGood ext) (ep : ExtProc ext)
    (en : ExtNoPanic ext) {s0 : St CHeap} (h0 : VmOkNP ext ecl s0) (sb : SizeBounded (machine ext force) s0)
    (esl : EnvSlotsAlong (machine ext force) s0) (count : Option Nat) (fuel c : Nat) {m : String} {sf : St CHeap}
    (hr : runLoop (machine ext force) count fuel c s0 = .error (.panic m) sf) : m = applyGuard := by
  obtain ⟨hreach, hst⟩ := (runLoop_ends force count fuel c s0).1 _ _ hr
  exact step_never_panics_reachable force el eg ep en h0 sb hreach (esl sf hreach) m (vmStep_panic hst)

/-- **one evaluation never panics** -/
theorem runEval_never_panics_machine (force : Bool) (el : ExtLaws ext) (eg : ExtGood ext) (ep : ExtProc ext)
    (en : ExtNoPanic ext) {s0 : St CHeap} (h0 : VmOkNP ext ecl s0) (sb : SizeBounded (machine ext force) s0)
    (esl : EnvSlotsAlong (machine ext force) s0) (count : Option Nat) (fuel : Nat) {m : String} {s1 : St CHeap}
    (hr : runEval (concreteOps ext) (cgc force) count fuel s0 = .failed (.panic m) s1) : m = applyGuard := by
  unfold runEval at hr
  split at hr <;> first | (cases hr; done) | skip
  rename_i f sf hl
  cases hr
  exact runLoop_never_panics_machine force el eg ep en h0 sb esl count fuel 0 hl

/-- the two further clauses survive an evaluation with its epilogues: the state the next evaluation starts from
    satisfies them again (`Stack::clear` and the error reset keep the capacity) -/
theorem npinv_runEval (force : Bool) (en : ExtNoPanic ext) {s0 : St CHeap} (n0 : NPInv s0) (count : Option Nat)
    (fuel : Nat) :
    (∀ s', runEval (concreteOps ext) (cgc force) count fuel s0 = .value s' → NPInv s') ∧
    (∀ f s', runEval (concreteOps ext) (cgc force) count fuel s0 = .failed f s' → NPInv s') ∧
    (∀ s', runEval (concreteOps ext) (cgc force) count fuel s0 = .paused s' → NPInv s') := by
  obtain ⟨a, b, d⟩ := runLoop_ends (ext := ext) force count fuel 0 s0
  refine ⟨?_, ?_, ?_⟩
  · intro s' h
    unfold runEval at h
    split at h <;> first | (cases h; done) | skip
    rename_i sd hl
    cases h
    exact npinv_gc force (npinv_onDone (npinv_reaches force en n0 sd (b sd hl)))
  · intro f s' h
    unfold runEval at h
    split at h <;> first | (cases h; done) | skip
    rename_i f' sf hl
    cases h
    exact npinv_gc force (npinv_onError (npinv_reaches force en n0 sf (a _ sf hl).1))
  · intro s' h
    unfold runEval at h
    split at h <;> first | (cases h; done) | skip
    rename_i sp hl
    cases h
    exact npinv_reaches force en n0 _ (d _ hl)

/-! ## non-vacuity: the demo state of `Lemmas/VmOkDemo.lean` -/

namespace Demo

theorem sHalt_npinv (o : Nat) : NPInv (sHalt o) := by
  refine npinv_of_check (s := sHalt o) ?_ ?_
  · show heapNPB hHalt = true
    decide +kernel
  · show contBoundB (sHalt 0).stack.cells.length hHalt = true
    decide +kernel

theorem sHalt_envSlots (o : Nat) (ho : o = 0 ∨ o = 1) : EnvSlots (sHalt o) := by
  rcases ho with rfl | rfl <;> exact envSlotsB_sound (by decide +kernel)

theorem sHalt_vmOkNP (ext : ExtOps) (ecl : ExtCodeLawsV ext) : VmOkNP ext ecl (sHalt 0) :=
  ⟨sHalt_vmOkP ext ecl, sHalt_npinv 0⟩

theorem sHalt_envSlotsAlong (ext : ExtOps) : EnvSlotsAlong (machine ext false) (sHalt 0) := by
  intro s' hr
  rcases sHalt_reaches ext hr with h | h <;> subst h
  · exact sHalt_envSlots 0 (.inl rfl)
  · exact sHalt_envSlots 1 (.inr rfl)

/-- the clauses are not trivially true: a continuation object longer than the stack, a variadic code object
    without a formal and an `Argument` index beyond the formals are rejected by the executable check -/
example : contBoundB 2 { hHalt with cells := (hHalt.cells.setIfInBounds 1
    (CCell.cont ⟨⟨[.undefined, .undefined, .undefined], 2⟩, 0, 0, 0, 0⟩)) } = false := by decide +kernel

example : lamNPB ⟨[.opcode .varArg, .opcode .enter, .opcode .ret], [], []⟩ = false := by decide

example : lamNPB ⟨[.opcode .enter, .opcode .ret], [.opaque "yx"], [(.opaque "yx", .arg 2)]⟩ = false := by decide

end Demo

end Marwood.Lemmas.Good
