import Marwood.Vm.ListExt
import Marwood.Lemmas.ListExtSim
import Marwood.Lemmas.GoodBuiltin
/-!
# `ExtGood (listExtWith eqTag)`: the real builtins keep the heap invariant `HG`

One lemma per builtin: `HG` of the returned heap, `Mono` (allocated cells stay allocated), the result is a plain
value mentioning allocated cells only. `cons` is two `putV_hg`; `set-car!` / `set-cdr!` is `putV_hg` followed by
`pairSet_hg` (overwriting an allocated pair cell with a pair of allocated addresses keeps `WFHeap`, `Plain`, the
code and environment disciplines — the analogue of `envSet_hg` for a `val` cell).
-/
namespace Marwood.Lemmas.Good
open Marwood Marwood.Vm Marwood.Vm.Concrete Marwood.Vm.Concrete.ListExt Marwood.Lemmas.Sim
open Marwood.Heap (GcState WFHeap RootsOk vrefs vrefsList crefs)

/-! ## overwriting a pair cell -/

theorem pairSet_hg {h : CHeap} (g : HG h) {p a d a1 d1 : Nat}
    (he : h.cells[p]? = some (CCell.val (.pair a d))) (ha : NF h a1) (hd : NF h d1) :
    HG (cwrite h p (.val (.pair a1 d1))) ∧ Mono h (cwrite h p (.val (.pair a1 d1))) := by
  have hlt : p < h.cells.size := lt_of_get_some he
  have hget := cwrite_get h p (.val (.pair a1 d1))
  have hne : ∀ i, i ≠ p → (cwrite h p (.val (.pair a1 d1))).cells[i]? = h.cells[i]? := by
    intro i hi; rw [hget]; simp [hi]
  have hat : (cwrite h p (.val (.pair a1 d1))).cells[p]? = some (.val (.pair a1 d1)) := by
    rw [hget]; simp [hlt]
  have wf := g.wf
  have egc : (toHeap (cwrite h p (.val (.pair a1 d1)))).gc = (toHeap h).gc := rfl
  have efree : (toHeap (cwrite h p (.val (.pair a1 d1)))).free = (toHeap h).free := rfl
  have esym : (toHeap (cwrite h p (.val (.pair a1 d1)))).symtab = (toHeap h).symtab := rfl
  have ecells : ∀ i, i ≠ p → (toHeap (cwrite h p (.val (.pair a1 d1)))).cells[i]? = (toHeap h).cells[i]? := by
    intro i hi; rw [toHeap_cells_get, toHeap_cells_get, hne i hi]
  have ecell : (toHeap (cwrite h p (.val (.pair a1 d1)))).cells[p]? = some (.pair a1 d1) := by
    rw [toHeap_cells_get, hat]; rfl
  have eold : (toHeap h).cells[p]? = some (.pair a d) := by
    rw [toHeap_cells_get, he]; rfl
  have enf : ∀ y, (toHeap (cwrite h p (.val (.pair a1 d1)))).NonFree y ↔ (toHeap h).NonFree y := by
    intro y; unfold Heap.Heap.NonFree; rw [egc]
  -- the overwritten cell is allocated
  have hnotfree : (toHeap h).gc[p]? ≠ some GcState.free := by
    intro hf
    have := wf.free_undef p hf
    rw [eold] at this; cases this
  refine ⟨⟨⟨⟨?_, ?_, ?_, ?_, ?_, ?_, ?_, ?_⟩, ?_⟩, ⟨?_, ?_, ?_⟩, ?_, ?_⟩, ⟨by simp [cwrite], fun y hy => (enf y).mpr hy⟩⟩
  · have := wf.sizes; simpa [toHeap, cwrite] using this
  · have := wf.shape; simpa [toHeap, cwrite] using this
  · have := wf.bound; simpa [toHeap, cwrite] using this
  · intro i; rw [efree, egc]; exact wf.free_iff i
  · rw [efree]; exact wf.nodup
  · intro i hi
    rw [egc] at hi
    have hie : i ≠ p := by rintro rfl; exact hnotfree hi
    rw [ecells i hie]; exact wf.free_undef i hi
  · intro name i
    have e1 : (toHeap (cwrite h p (.val (.pair a1 d1)))).symLookup name = (toHeap h).symLookup name := by
      simp [Heap.Heap.symLookup, esym]
    rw [e1, wf.interned name i]
    unfold Heap.Heap.AllocSym
    rw [enf]
    by_cases hie : i = p
    · subst hie
      rw [ecell, eold]
      constructor <;> rintro ⟨h1, _⟩ <;> cases h1
    · rw [ecells i hie]
  · intro i hi y hy
    rw [enf] at hi
    have key : NF h y := by
      by_cases hie : i = p
      · subst hie
        unfold Heap.Heap.children at hy
        rw [ecell] at hy
        simp only [crefs, List.mem_cons, List.not_mem_nil, or_false] at hy
        rcases hy with rfl | rfl
        · exact ha
        · exact hd
      · unfold Heap.Heap.children at hy
        rw [ecells i hie] at hy
        exact wf.closed i hi y hy
    rcases key with key | key
    · exact .inl ((enf y).mpr key)
    · exact .inr key
  · intro i; rw [egc]; exact wf.no_used i
  · intro i w hw
    by_cases hie : i = p
    · subst hie; rw [hat] at hw; cases hw; rfl
    · rw [hne i hie] at hw; exact g.plain.cells i w hw
  · exact g.plain.globals
  · intro i c hc
    by_cases hie : i = p
    · subst hie; rw [hat] at hc; cases hc
    · rw [hne i hie] at hc; exact g.plain.conts i c hc
  · intro i l hl
    by_cases hie : i = p
    · subst hie; rw [hat] at hl; cases hl
    · rw [hne i hie] at hl; exact g.lam i l hl
  · -- environments are other cells: their slots keep their kind
    have tr : ∀ w, SlotOk h w → SlotOk (cwrite h p (.val (.pair a1 d1))) w := by
      intro w hw
      rcases hw with hw | ⟨e', k', ss', w', rfl, h1, h2, h3⟩
      · exact .inl hw
      · have hee : e' ≠ p := by rintro rfl; rw [he] at h1; cases h1
        exact .inr ⟨_, _, _, w', rfl, by rw [hne e' hee]; exact h1, h2, h3⟩
    intro i ss1 hs1 w hw
    by_cases hie : i = p
    · subst hie; rw [hat] at hs1; cases hs1
    · rw [hne i hie] at hs1
      exact tr w (g.env i ss1 hs1 w hw)

/-! ## reading a pair -/

/-- the two addresses of a pair read through an allocated pointer (or an inline value) are allocated -/
theorem deref_pair_nf {h : CHeap} (g : HG h) {x : VCell} (hx : VOk h x) {a d : Nat} (e : deref h x = .pair a d) :
    NF h a ∧ NF h d := by
  have := (deref_ok g hx.2 (plainGlob_plainVal hx.1)).1
  rw [e] at this
  exact ⟨this a (by simp [eraseV, vrefs]), this d (by simp [eraseV, vrefs])⟩

/-- … and the dereferenced operand is the content of a `val` cell -/
theorem deref_pair_cell {h : CHeap} {x : VCell} (hx : plainGlob x = true) {a d : Nat} (e : deref h x = .pair a d) :
    ∃ p, x = .ptr p ∧ h.cells[p]? = some (CCell.val (.pair a d)) := by
  rcases plainGlob_cases hx with ⟨p, rfl⟩ | hf
  · refine ⟨p, rfl, ?_⟩
    simp only [deref, getAt] at e
    cases hc : h.cells[p]? with
    | none => rw [hc] at e; cases e
    | some c =>
      rw [hc] at e
      cases c with
      | val v => simp only [Concrete.repr] at e; rw [e]
      | _ => simp [Concrete.repr] at e
  · rw [deref_atom hf] at e
    subst e
    simp [addrFree] at hf

/-! ## the order of reads in `set-car!` / `set-cdr!` -/

/-- Rust's `set-car!` / `set-cdr!` read the pair cell AFTER `heap.put(obj)`, the model (`ListExt.evalSetPair`) reads
    it before. On a heap satisfying the invariant the two reads agree, for every first-class operand: an allocated
    cell survives the allocation, a sentinel address is outside both heaps. -/
theorem setPair_read_order {h : CHeap} (g : HG h) {obj pair : VCell} (hp : VOk h pair)
    (sm : Small (putV h obj).1) : deref (putV h obj).1 pair = deref h pair := by
  rcases plainGlob_cases hp.1 with ⟨p, rfl⟩ | hf
  · have hn : NF h p := VRefsOk.ptr.mp hp.2
    show getAt (putV h obj).1 p = getAt h p
    unfold getAt
    cases hc : h.cells[p]? with
    | some c =>
      have hnf := hn.nonFree g.wf hc
      have hfree : p ∉ h.free := by
        intro hm
        have hf := (g.wf.free_iff p).mp hm
        have hf' : h.gc[p]? = some GcState.free := hf
        rcases hnf with e | e <;> (have e' : h.gc[p]? = _ := e; rw [hf'] at e'; cases e')
      rw [putV_keeps (HInv.of_wf g.wf) hc hfree]
    | none =>
      have hge : h.cells.size ≤ p := by
        false_or_by_contra
        rename_i hlt
        rw [Array.getElem?_eq_getElem (by omega)] at hc; cases hc
      have hs : 2 ^ 63 ≤ p := by
        rcases hn with e | e
        · exfalso
          have e' : h.gc[p]? = some GcState.allocated ∨ h.gc[p]? = some GcState.used := e
          have hlt : p < h.gc.size := by
            rcases e' with x | x <;> exact lt_of_get_some x
          have := (HInv.of_wf g.wf).sizes
          omega
        · exact e
      have : (putV h obj).1.cells[p]? = none := by
        unfold Small at sm
        exact Array.getElem?_eq_none (by omega)
      rw [this]
  · rw [deref_atom hf, deref_atom hf]

/-- the model's `set-car!` / `set-cdr!` IS the Rust-order one wherever the invariant holds -/
theorem evalSetPair_eq_rust (first : Bool) {h : CHeap} (g : HG h) {obj pair : VCell} (hp : VOk h pair)
    (sm : Small (putV h obj).1) : evalSetPairRust first h obj pair = evalSetPair first h obj pair := by
  simp only [evalSetPairRust, evalSetPair, setPair_read_order g hp sm]

section
variable (eqTag : String → String → Bool) {h h' : CHeap} {v : VCell}

/-! ## `car` / `cdr` -/

theorem evalCar_good (first : Bool) (g : HG h) {x : VCell} (hx : VOk h x)
    (he : evalCar first h x = .ok (h', v)) : HG h' ∧ Mono h h' ∧ plainVal v = true ∧ VRefsOk h' v := by
  unfold evalCar at he
  cases hd : deref h x with
  | pair a d =>
    rw [hd] at he
    cases he
    obtain ⟨na, nd⟩ := deref_pair_nf g hx hd
    refine ⟨g, .refl h, rfl, VRefsOk.ptr.mpr ?_⟩
    cases first
    · exact nd
    · exact na
  | _ => rw [hd] at he; cases he

/-! ## `cons` -/

theorem evalCons_good (g : HG h) {d a : VCell} (hd : VOk h d) (ha : VOk h a)
    (he : evalCons h d a = .ok (h', v)) (sm : Small h') :
    HG h' ∧ Mono h h' ∧ plainVal v = true ∧ VRefsOk h' v := by
  simp only [evalCons] at he
  obtain ⟨dp, h1, he⟩ := bind_ok he
  obtain ⟨ap, h2, he⟩ := bind_ok he
  cases he
  have sm1 : Small (putV h d).1 := sm.of_le (putV_size _ _)
  obtain ⟨r1, _⟩ := putV_hg g hd.2 (plainGlob_plainVal hd.1) sm1
  obtain ⟨r2, _⟩ := putV_hg r1.hg (ha.mono r1.mono).2 (plainGlob_plainVal ha.1) sm
  have e1 : (putV h d).2 = .ptr dp := by
    cases hv : (putV h d).2 <;> rw [hv] at h1 <;> simp only [asPtr] at h1 <;> cases h1; rfl
  have e2 : (putV (putV h d).1 a).2 = .ptr ap := by
    cases hv : (putV (putV h d).1 a).2 <;> rw [hv] at h2 <;> simp only [asPtr] at h2 <;> cases h2; rfl
  have nd : NF (putV (putV h d).1 a).1 dp := by
    have := r1.res.2; rw [e1] at this
    exact (VRefsOk.ptr.mp this).mono r2.mono
  have na : NF (putV (putV h d).1 a).1 ap := by
    have := r2.res.2; rw [e2] at this
    exact VRefsOk.ptr.mp this
  refine ⟨r2.hg, r1.mono.trans r2.mono, rfl, ?_⟩
  intro y hy
  simp only [eraseV, vrefs, List.mem_cons, List.not_mem_nil, or_false] at hy
  rcases hy with rfl | rfl
  · exact na
  · exact nd

/-! ## `set-car!` / `set-cdr!` -/

theorem evalSetPair_good (first : Bool) (g : HG h) {obj pair : VCell} (ho : VOk h obj) (hp : VOk h pair)
    (he : evalSetPair first h obj pair = .ok (h', v)) (sm : Small h') :
    HG h' ∧ Mono h h' ∧ plainVal v = true ∧ VRefsOk h' v := by
  simp only [evalSetPair] at he
  cases hd : deref h pair with
  | pair a d =>
    rw [hd] at he
    simp only at he
    obtain ⟨o, h1, he⟩ := bind_ok he
    obtain ⟨p, h2, he⟩ := bind_ok he
    cases he
    obtain ⟨p0, rfl, hcell⟩ := deref_pair_cell hp.1 hd
    simp only [asPtr] at h2
    cases h2
    have sm1 : Small (putV h obj).1 := by
      refine sm.of_le ?_
      simp [cwrite]
    obtain ⟨r1, _⟩ := putV_hg g ho.2 (plainGlob_plainVal ho.1) sm1
    have e1 : (putV h obj).2 = .ptr o := by
      cases hv : (putV h obj).2 <;> rw [hv] at h1 <;> simp only [asPtr] at h1 <;> cases h1; rfl
    have no : NF (putV h obj).1 o := by
      have := r1.res.2; rw [e1] at this; exact VRefsOk.ptr.mp this
    obtain ⟨na, nd⟩ := deref_pair_nf g hp hd
    have inv := HInv.of_wf g.wf
    -- the pair cell is allocated, hence survives the allocation
    have hnf : p ∉ h.free := by
      intro hm
      have hf := (g.wf.free_iff p).mp hm
      have := g.wf.free_undef p hf
      rw [toHeap_cells_get, hcell] at this
      cases this
    have k1 : (putV h obj).1.cells[p]? = some (CCell.val (.pair a d)) := putV_keeps inv hcell hnf
    cases first
    · obtain ⟨g2, m2⟩ := pairSet_hg r1.hg k1 (na.mono r1.mono) no
      exact ⟨g2, r1.mono.trans m2, rfl, .of_addrFree _ rfl⟩
    · obtain ⟨g2, m2⟩ := pairSet_hg r1.hg k1 no (nd.mono r1.mono)
      exact ⟨g2, r1.mono.trans m2, rfl, .of_addrFree _ rfl⟩
  | _ => rw [hd] at he; cases he

/-! ## the table -/

theorem evalPrim_good (p : Prim) (g : HG h) {args : List VCell} (hargs : ∀ a ∈ args, VOk h a)
    (he : evalPrim eqTag p h args = .ok (h', v)) (sm : Small h') :
    HG h' ∧ Mono h h' ∧ plainVal v = true ∧ VRefsOk h' v := by
  have pure : ∀ b : Bool, (Outcome.ok (h, VCell.bool b) : Outcome (CHeap × VCell)) = .ok (h', v) →
      HG h' ∧ Mono h h' ∧ plainVal v = true ∧ VRefsOk h' v := by
    intro b e; cases e; exact ⟨g, .refl h, rfl, .of_addrFree _ rfl⟩
  match args, hargs with
  | [], _ => cases p <;> cases he
  | [x], hargs =>
    have hx := hargs x (by simp)
    cases p with
    | car => exact evalCar_good true g hx he
    | cdr => exact evalCar_good false g hx he
    | pred q => exact pure _ he
    | _ => cases he
  | [x, y], hargs =>
    have hx := hargs x (by simp)
    have hy := hargs y (by simp)
    cases p with
    | cons => exact evalCons_good g hx hy he sm
    | setCar => exact evalSetPair_good true g hx hy he sm
    | setCdr => exact evalSetPair_good false g hx hy he sm
    | eq => exact pure _ he
    | _ => cases he
  | _ :: _ :: _ :: _, _ => cases p <;> cases he

/-- **`ExtGood` for the table of real builtins** -/
theorem listExtWith_good : ExtGood (listExtWith eqTag) where
  eval := by
    intro h id args h' v g hargs he sm
    have he' : ListExt.builtinEval eqTag h id args = .ok (h', v) := he
    unfold ListExt.builtinEval at he'
    cases hp : primOf id with
    | none => rw [hp] at he'; cases he'
    | some p => rw [hp] at he'; exact evalPrim_good eqTag p g hargs he' sm
  compile := fun _ _ _ _ _ _ h => (by cases h)
  vpush := fun _ _ _ _ _ _ _ h => (by cases h)

theorem listExt_good : ExtGood listExt := listExtWith_good _

end

end Marwood.Lemmas.Good
