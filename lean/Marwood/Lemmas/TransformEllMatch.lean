import Marwood.Lemmas.TransformEllKeys
/-!
# The matcher on patterns with ellipses: the bindings it pushes are R7RS's bindings, flattened

When `pattern_match` answers `true` on a well-formed pattern (`okS`: proper, vector-free lists that do
not start with the ellipsis and contain it at most once — any ellipsis depth) with distinct variables,
R7RS matches too, and the flat binding list the matcher pushed is, variable by variable, the
left-to-right sequence of leaves of R7RS's tree of matches (`Flat`).
-/
namespace Marwood.Transform
open Marwood Marwood.Spec.Match

/-- the flat binding list `D` carries, for every variable, the leaves of the spec's bindings -/
def Flat (D : Bindings) (bs : Binds) : Prop := ∀ x : Text, proj (.sym x) D = projS x bs

theorem Flat.nil : Flat [] [] := fun _ => rfl

theorem Flat.append {D1 D2 : Bindings} {b1 b2 : Binds} (h1 : Flat D1 b1) (h2 : Flat D2 b2) :
    Flat (D1 ++ D2) (b1 ++ b2) := by
  intro x; rw [proj_append, projS_append, h1 x, h2 x]

/-- the matcher's `true`: R7RS matches and the environment grew by the flattened bindings -/
def MB (s : Setup) (P E : Datum) (env B' : Bindings) : Prop :=
  ∃ bs D, specMatch s.ctx P E = some bs ∧ B' = env ++ D ∧ Flat D bs

/-- the in-ellipsis phase ended with `true` -/
def SegB (s : Setup) (p : Datum) (rest xs : List Datum) (env B' : Bindings) : Prop :=
  rest.length ≤ xs.length ∧ ∃ bsl tb D,
    (xs.take (xs.length - rest.length)).mapM (fun x => specMatch s.ctx p x) = some bsl ∧
    specMatch s.ctx (Datum.ofList rest) (Datum.ofList (xs.drop (xs.length - rest.length))) = some tb ∧
    B' = env ++ D ∧ ∀ x : Text, proj (.sym x) D = bsl.flatMap (projS x) ++ projS x tb

section pure
variable (s : Setup)

theorem projS_collect_nil (x : Text) (vars : List Text) : projS x (collect vars []) = [] := by
  simp only [collect]
  induction vars with
  | nil => rfl
  | cons v vs ih =>
    simp only [List.filterMap_nil] at ih
    simp only [List.map_cons, projS, List.filterMap_nil]
    rw [ih]; split <;> rfl

theorem mb_nil (env : Bindings) : MB s (Datum.ofList []) (Datum.ofList []) env env :=
  ⟨[], [], by simp [Datum.ofList, specMatch_nil], by simp, Flat.nil⟩

theorem mb_cons {p e : Datum} {ps xs : List Datum} {env B' D1 : Bindings} {b1 : Binds}
    (hh : headNotEll s.ctx (Datum.ofList ps) = true)
    (h1 : specMatch s.ctx p e = some b1) (hf : Flat D1 b1)
    (h2 : MB s (Datum.ofList ps) (Datum.ofList xs) (env ++ D1) B') :
    MB s (Datum.ofList (p :: ps)) (Datum.ofList (e :: xs)) env B' := by
  obtain ⟨bs, D, hbs, hB, hfl⟩ := h2
  refine ⟨b1 ++ bs, D1 ++ D, ?_, by rw [hB, List.append_assoc], hf.append hfl⟩
  simp only [Datum.ofList]
  rw [specMatch_pair _ _ _ _ hh]
  simp [consMatch, h1, hbs]

theorem specMatch_whole (p : Datum) (rest xs : List Datum) :
    specMatch s.ctx (Datum.ofList (p :: s.ell :: rest)) (Datum.ofList xs) =
      (if xs.length < rest.length then none
       else
        match (xs.take (xs.length - rest.length)).mapM (fun x => specMatch s.ctx p x) with
        | none => none
        | some bs =>
          match specMatch s.ctx (Datum.ofList rest) (Datum.ofList (xs.drop (xs.length - rest.length))) with
          | none => none
          | some tb => some (collect (patVars s.ctx p) bs ++ tb)) := by
  simp only [Datum.ofList]
  rw [specMatch_ell_eq _ _ _ _ _ (isEllD_ell s)]
  rw [spineLen_ofList, spineLen_ofList, takeSpine_ofList, dropSpine_ofList]
  rfl

theorem mb_zero (p : Datum) (env : Bindings) :
    MB s (Datum.ofList [p, s.ell]) (Datum.ofList []) env env := by
  refine ⟨collect (patVars s.ctx p) [] ++ [], [], ?_, by simp, ?_⟩
  · rw [specMatch_whole]
    simp [Datum.ofList, specMatch_nil]
  · intro x
    rw [projS_append, projS_collect_nil]; rfl

theorem mb_enter {p e : Datum} {rest xs : List Datum} {env B' D1 : Bindings} {b1 : Binds}
    (hn : (patVars s.ctx p).Nodup)
    (h1 : specMatch s.ctx p e = some b1) (hf : Flat D1 b1)
    (h2 : SegB s p rest xs (env ++ D1) B') :
    MB s (Datum.ofList (p :: s.ell :: rest)) (Datum.ofList (e :: xs)) env B' := by
  obtain ⟨hle, bsl, tb, D, hbsl, htb, hB, hfl⟩ := h2
  have e1 : (e :: xs).length - rest.length = (xs.length - rest.length) + 1 := by simp; omega
  refine ⟨collect (patVars s.ctx p) (b1 :: bsl) ++ tb, D1 ++ D, ?_, by rw [hB, List.append_assoc], ?_⟩
  · rw [specMatch_whole]
    have : ¬ ((e :: xs).length < rest.length) := by simp; omega
    simp only [this, if_false]
    rw [e1, List.take_succ_cons, List.drop_succ_cons, mapM_cons_some _ _ _ _ _ h1 hbsl, htb]
  · intro x
    have hk : ∀ b ∈ b1 :: bsl, b.map Prod.fst = patVars s.ctx p := by
      intro b hb
      simp only [List.mem_cons] at hb
      rcases hb with rfl | hb
      · exact specMatch_keys _ _ _ _ h1
      · obtain ⟨x', _, hx'⟩ := mapM_some_mem _ _ _ hbsl b hb
        exact specMatch_keys _ _ _ _ hx'
    rw [proj_append, projS_append, projS_collect x _ _ hn hk, hf x, hfl x]
    simp

theorem seg_nil (p : Datum) (env : Bindings) : SegB s p [] [] env env :=
  ⟨by simp, [], [], [], by simp, by simp [Datum.ofList, specMatch_nil], by simp, fun _ => rfl⟩

theorem seg_handoff {p q e : Datum} {rest' xs : List Datum} {env B' D1 : Bindings} {b1 : Binds}
    (hlen : rest'.length = xs.length)
    (hh : headNotEll s.ctx (Datum.ofList rest') = true)
    (h1 : specMatch s.ctx q e = some b1) (hf : Flat D1 b1)
    (h2 : MB s (Datum.ofList rest') (Datum.ofList xs) (env ++ D1) B') :
    SegB s p (q :: rest') (e :: xs) env B' := by
  obtain ⟨bs, D, hbs, hB, hfl⟩ := h2
  have e0 : (e :: xs).length - (q :: rest').length = 0 := by simp [hlen]
  refine ⟨by simp [hlen], [], b1 ++ bs, D1 ++ D, by rw [e0]; simp, ?_, by rw [hB, List.append_assoc], ?_⟩
  · rw [e0, List.drop_zero]
    simp only [Datum.ofList]
    rw [specMatch_pair _ _ _ _ hh]
    simp [consMatch, h1, hbs]
  · intro x
    rw [proj_append, projS_append, hf x, hfl x]; simp

theorem seg_reuse {p e : Datum} {rest xs : List Datum} {env B' D1 : Bindings} {b1 : Binds}
    (h1 : specMatch s.ctx p e = some b1) (hf : Flat D1 b1)
    (h2 : SegB s p rest xs (env ++ D1) B') :
    SegB s p rest (e :: xs) env B' := by
  obtain ⟨hle, bsl, tb, D, hbsl, htb, hB, hfl⟩ := h2
  have e1 : (e :: xs).length - rest.length = (xs.length - rest.length) + 1 := by simp; omega
  refine ⟨by simp; omega, b1 :: bsl, tb, D1 ++ D, ?_, ?_, by rw [hB, List.append_assoc], ?_⟩
  · rw [e1, List.take_succ_cons]; exact mapM_cons_some _ _ _ _ _ h1 hbsl
  · rw [e1, List.drop_succ_cons]; exact htb
  · intro x
    rw [proj_append, hf x, hfl x]; simp

end pure

theorem patVars_pair_nodup {c : Ctx} {a d : Datum} (h : (patVars c (.pair a d)).Nodup) :
    (patVars c a).Nodup ∧ (patVars c d).Nodup := by
  simp only [patVars] at h
  exact ⟨(List.nodup_append.mp h).1, (List.nodup_append.mp h).2.1⟩

theorem patVars_ofList_nodup {c : Ctx} {p : Datum} {ps : List Datum}
    (h : (patVars c (Datum.ofList (p :: ps))).Nodup) :
    (patVars c p).Nodup ∧ (patVars c (Datum.ofList ps)).Nodup := by
  simp only [Datum.ofList] at h
  exact patVars_pair_nodup h

theorem patVars_ell_cons (s : Setup) (rest : List Datum) :
    patVars s.ctx (Datum.ofList (s.ell :: rest)) = patVars s.ctx (Datum.ofList rest) := by
  simp only [Datum.ofList, patVars]
  rw [patVars_ellD s.ctx s.ell (isEllD_ell s)]; rfl

/-- one element of the pattern matched one item, and the loop went on to `true` -/
theorem elemStep_binds (s : Setup) (f : Nat) (cur e : Datum) (env B' : Bindings)
    (k : Bindings → Res (Bool × Bindings))
    (hA : ∀ P E env B', okS s.es true P = true → headNotEll s.ctx P = true →
        (patVars s.ctx P).Nodup →
        patternMatch s.ell s.lits f P E env = .ok (true, B') → MB s P E env B')
    (hcur : okP s.es cur = true) (hn : (patVars s.ctx cur).Nodup)
    (h : elemStep s.ell s.lits f cur e env k = .ok (true, B')) :
    ∃ b1 D1, specMatch s.ctx cur e = some b1 ∧ Flat D1 b1 ∧ k (env ++ D1) = .ok (true, B') := by
  cases hc : cur with
  | sym x =>
    rw [hc] at h hcur
    have hx : x ≠ s.es := by simpa [okP] using hcur
    have hsp := specMatch_sym s x e hx
    simp only [elemStep, s.lits_any] at h
    by_cases hl : s.ctx.isLit x = true
    · simp only [hl, if_true] at h hsp
      by_cases he : e = .sym x
      · simp only [cellEq_sym_left, he, decide_true, Bool.not_true, Bool.false_eq_true, if_false] at h
        exact ⟨[], [], by rw [hsp]; simp [he], Flat.nil, by simpa using h⟩
      · simp only [cellEq_sym_left, he, decide_false, Bool.not_false, if_true] at h
        cases h
    · simp only [hl, Bool.false_eq_true, if_false] at h hsp
      by_cases hu : x = ['_']
      · simp only [hu, underscore, cellEq_sym_left, decide_true, Bool.not_true, Bool.false_eq_true,
          if_false, if_true] at h hsp
        exact ⟨[], [], by rw [hu]; exact hsp, Flat.nil, by simpa using h⟩
      · have hu' : (Datum.sym ['_'] = Datum.sym x) = False := by
          simp; exact fun e => hu e.symm
        simp only [underscore, cellEq_sym_left, hu', decide_false, Bool.not_false, if_true] at h
        simp only [hu, if_false] at hsp
        refine ⟨[(x, .one e)], [(.sym x, e)], hsp, ?_, h⟩
        intro y
        simp only [proj, projS, cellEq_sym_left, leaves]
        by_cases hxy : x = y
        · subst hxy; simp
        · have : ¬ (Datum.sym y = Datum.sym x) := by simp; exact fun e => hxy e.symm
          simp [hxy, this]
  | pair a d =>
    rw [hc] at h hcur hn
    simp only [elemStep] at h
    have hsp := okP_pair_spine hcur
    have hhd : headNotEll s.ctx (.pair a d) = true := by
      simp only [okP, Bool.and_eq_true] at hcur
      simp only [headNotEll, s.isEllD_eq, Setup.ell, cellEq_sym_right]
      simp [okP_ne_ell hcur.1]
    cases hm : patternMatch s.ell s.lits f (.pair a d) e env with
    | ok r1 =>
      obtain ⟨b, env1⟩ := r1
      rw [hm] at h
      cases b with
      | true =>
        simp only at h
        obtain ⟨bs, D, hbs, hB, hfl⟩ := hA _ _ _ _ hsp hhd hn hm
        exact ⟨bs, D, hbs, hfl, by rw [← hB]; exact h⟩
      | false => simp only at h; cases h
    | err x => rw [hm] at h; cases h
    | panic m => rw [hm] at h; cases h
    | fuel => rw [hm] at h; cases h
  | vec v => rw [hc] at hcur; simp [okP] at hcur
  | _ =>
    have hd : isDatumPat cur = true := by rw [hc]; rfl
    have hsp := specMatch_datum s.ctx e hd
    rw [hc] at h hsp
    simp only [elemStep] at h
    split at h
    · cases h
    · rename_i hce
      simp only [Bool.not_eq_true', Bool.not_eq_false] at hce
      exact ⟨[], [], by simp [hsp, hce], Flat.nil, by simpa using h⟩

end Marwood.Transform
