import Marwood.Lemmas.EvalConverseForms
import Marwood.Lemmas.EvalConversePrims
import Marwood.Lemmas.EvalConverseFuelPrims
import Marwood.Lemmas.EvalConverseCut
import Marwood.Lemmas.EvalConverseGuard
/-! Converse simulation (`SimR`): mirror of `EvalExtraMain.lean` (see `EvalConverse.lean`). -/
namespace Marwood.Spec.Eval.Conv
open Marwood Marwood.Spec.Eval Marwood.Spec.Eval.Extra

variable {f : LMap} {r r' : Rec}

theorem simR_evalTopForm (_hf : Inj f) (hr : RecSimR f r r') (d : Datum) :
    SimR f (VRel f) (evalTopForm r d) (evalTopForm r' d) := by
  unfold evalTopForm
  split
  · refine SimR.bind (simR_defineValue hr (envRel_nil []) d (cleanB_nil d)) (fun p p' hp => ?_)
    obtain ⟨x, v⟩ := p
    obtain ⟨x', v'⟩ := p'
    obtain ⟨h1, _, h3⟩ := hp
    simp only at h1 h3 ⊢
    subst h1
    refine SimR.bind (simR_putGlobal x' h3) (fun _ _ _ => ?_)
    exact SimR.pure _ _ .void
  · exact hr.eval d [] [] [] (envRel_nil []) (cleanB_nil d)

theorem simR_evalTopForms (hf : Inj f) (hr : RecSimR f r r') : ∀ (ds : List Datum),
    SimR f (VRel f) (evalTopForms r ds) (evalTopForms r' ds)
  | [] => SimR.throw _
  | [d] => by simpa [evalTopForms] using simR_evalTopForm hf hr d
  | d :: d' :: ds => by
    simp only [evalTopForms]
    refine SimR.bind (simR_evalTopForm hf hr d) (fun _ _ _ => ?_)
    exact simR_evalTopForms hf hr (d' :: ds)

theorem simR_evalTop (hf : Inj f) (hr : RecSimR f r r') (d : Datum) : SimR f (VRel f) (evalTop r d) (evalTop r' d) := by
  unfold evalTop
  split
  · split
    · split
      · exact simR_evalTopForms hf hr _
      · exact SimR.throw _
    · exact simR_evalTopForm hf hr _
  · exact simR_evalTopForm hf hr _

theorem simR_application (hr : RecSimR f r r') {B : List Text} {ρ ρ' : Env} (he : EnvRel f B ρ ρ') (g rest : Datum)
    (hg : CleanB B g) (hrest : CleanB B rest) :
    SimR f (VRel f)
      (match properList rest with
        | some es => do
          let vs ← evalArgs r ρ es
          let fv ← r.eval g ρ
          r.apply fv vs
        | none => throw .syntax)
      (match properList rest with
        | some es => do
          let vs ← evalArgs r' ρ' es
          let fv ← r'.eval g ρ'
          r'.apply fv vs
        | none => throw .syntax) := by
  split
  · rename_i es hp
    refine SimR.bind (simR_evalArgs hr he es (cleanBs_properList hp hrest)) (fun vs vs' hvs => ?_)
    refine SimR.bind (hr.eval g ρ ρ' B he hg) (fun fv fv' hfv => ?_)
    exact hr.apply fv fv' vs vs' hfv hvs
  · exact SimR.throw _

theorem simR_evalStep (hf : Inj f) (hr : RecSimR f r r') {B : List Text} {ρ ρ' : Env} (he : EnvRel f B ρ ρ')
    (e : Datum) (hc : CleanB B e) : SimR f (VRel f) (evalStep r e ρ) (evalStep r' e ρ') := by
  cases e with
  | sym s => simpa [evalStep] using simR_evalVar he s (cleanB_sym.1 hc)
  | pair g rest =>
    rw [cleanB_pair] at hc
    cases g with
    | sym s =>
      simp only [evalStep]
      cases hk : kwOf s with
      | some k => exact simR_evalKw hf hr he k rest hc.2
      | none => exact simR_application hr he _ rest hc.1 hc.2
    | _ =>
      simp only [evalStep]
      exact simR_application hr he _ rest hc.1 hc.2
  | nil => exact SimR.throw _
  | procedure _ => exact SimR.throw _
  | macro_ => exact SimR.throw _
  | continuation => exact SimR.throw _
  | void => exact SimR.throw _
  | undefined => exact SimR.throw _
  | bool b => simpa [evalStep] using simR_quoteVal (f := f) (.bool b)
  | char c => simpa [evalStep] using simR_quoteVal (f := f) (.char c)
  | num n => simpa [evalStep] using simR_quoteVal (f := f) (.num n)
  | str t => simpa [evalStep] using simR_quoteVal (f := f) (.str t)
  | vec v => simpa [evalStep] using simR_quoteVal (f := f) (.vec v)

theorem simRAt_applyPrim1 (hf : Inj f) (p : Prim) {args args' : List Val} (ha : VsRel f args args') {st st' : St}
    (r : StRel f st st') (hc : helperCut (.prim p) args st.store = false) :
    ResRelR f (VRel f) (applyPrim1 p args st) (applyPrim1 p args' st') := by
  cases hg : primGroup p with
  | num => simp only [applyPrim1, hg]; exact simR_primNum p ha st st' r
  | pair =>
    simp only [applyPrim1, hg]
    by_cases hp : pairNoFuel p = true
    · exact simR_primPair hf p hp ha st st' r
    · cases p <;> simp [pairNoFuel] at hp
      case length =>
        rcases ha with _ | ⟨h1, _ | ⟨h2, _⟩⟩
        · exact ⟨rfl, r⟩
        · exact simRAt_length r h1 (by simpa using hc)
        · exact ⟨rfl, r⟩
      case reverse =>
        rcases ha with _ | ⟨h1, _ | ⟨h2, _⟩⟩
        · exact ⟨rfl, r⟩
        · exact simRAt_reverse r h1 (by simpa using hc)
        · exact ⟨rfl, r⟩
      case listP =>
        rcases ha with _ | ⟨h1, _ | ⟨h2, _⟩⟩
        · exact ⟨rfl, r⟩
        · exact simRAt_listP r h1 (by simpa using hc)
        · exact ⟨rfl, r⟩
      case append =>
        rcases ha with _ | ⟨h1, _ | ⟨h2, _ | ⟨h3, _ | ⟨h4, _⟩⟩⟩⟩
        · exact ⟨.nil, r⟩
        · exact ⟨h1, r⟩
        · exact simRAt_append2 r h1 h2 (by simpa using hc)
        · have hc' := hc
          rw [helperCut_append3, Bool.or_eq_false_iff] at hc'
          exact simRAt_append3 r h1 h2 h3 hc'.1 hc'.2
        · exact ⟨rfl, r⟩
      case memv =>
        rcases ha with _ | ⟨h1, _ | ⟨h2, _ | ⟨h3, _⟩⟩⟩
        · exact ⟨rfl, r⟩
        · exact ⟨rfl, r⟩
        · exact simRAt_mem hf r .memv false primPair_memv h1 h2 (by simpa using hc)
        · exact ⟨rfl, r⟩
      case memq =>
        rcases ha with _ | ⟨h1, _ | ⟨h2, _ | ⟨h3, _⟩⟩⟩
        · exact ⟨rfl, r⟩
        · exact ⟨rfl, r⟩
        · exact simRAt_mem hf r .memq false primPair_memq h1 h2 (by simpa using hc)
        · exact ⟨rfl, r⟩
      case assv =>
        rcases ha with _ | ⟨h1, _ | ⟨h2, _ | ⟨h3, _⟩⟩⟩
        · exact ⟨rfl, r⟩
        · exact ⟨rfl, r⟩
        · exact simRAt_mem hf r .assv true primPair_assv h1 h2 (by simpa using hc)
        · exact ⟨rfl, r⟩
      case assq =>
        rcases ha with _ | ⟨h1, _ | ⟨h2, _ | ⟨h3, _⟩⟩⟩
        · exact ⟨rfl, r⟩
        · exact ⟨rfl, r⟩
        · exact simRAt_mem hf r .assq true primPair_assq h1 h2 (by simpa using hc)
        · exact ⟨rfl, r⟩
  | vec =>
    simp only [applyPrim1, hg]
    by_cases hp : p = .listToVector
    · subst hp
      rcases ha with _ | ⟨h1, _ | ⟨h2, _⟩⟩
      · exact ⟨rfl, r⟩
      · exact simRAt_listToVector r h1 (by simpa using hc)
      · exact ⟨rfl, r⟩
    · exact simR_primVec hf p hp ha st st' r
  | pred =>
    simp only [applyPrim1, hg]
    by_cases hp : p = .equalP
    · subst hp
      rcases ha with _ | ⟨h1, _ | ⟨h2, _ | ⟨h3, _⟩⟩⟩
      · exact ⟨rfl, r⟩
      · exact ⟨rfl, r⟩
      · exact simRAt_equalP hf r h1 h2 (by simpa using hc)
      · exact ⟨rfl, r⟩
    · exact simR_primPred hf p hp ha st st' r
  | misc =>
    simp only [applyPrim1, hg]
    cases p <;> simp [primGroup] at hg
    case display =>
      rcases ha with _ | ⟨h1, _ | ⟨h2, _⟩⟩
      · exact ⟨rfl, r⟩
      · exact simRAt_display r h1 (by simpa using hc)
      · exact ⟨rfl, r⟩
    case write =>
      rcases ha with _ | ⟨h1, _ | ⟨h2, _⟩⟩
      · exact ⟨rfl, r⟩
      · exact simRAt_write r h1 (by simpa using hc)
      · exact ⟨rfl, r⟩
    case error => exact simR_primMisc_error st st' r

theorem simRAt_applyStep (hf : Inj f) (hr : RecSimR f r r') {g g' : Val} (hg : VRel f g g') {args args' : List Val}
    (ha : VsRel f args args') {st st' : St} (rs : StRel f st st') (hc : helperCut g args st.store = false) :
    ResRelR f (VRel f) (applyStep r g args st) (applyStep r' g' args' st') := by
  cases hg with
  | closure ps rest body ρ ρ' B hρ hb =>
    simp only [applyStep]
    exact SimR.bind (simR_bindArgs ps rest ha hρ) (fun ρ1 ρ1' h1 => simR_evalBody hf hr h1 body hb) st st' rs
  | prim p =>
    by_cases h1 : p = .apply
    · subst h1
      rcases ha with _ | ⟨hg1, _ | ⟨h2, h3⟩⟩
      · exact ⟨rfl, rs⟩
      · exact ⟨rfl, rs⟩
      · simp only [applyStep]
        have hlast := (VsRel.cons h2 h3).getLastD
        refine ResRelR.bind (simRAt_getList rs hlast (by simpa using hc)) (fun xs xs' s s' _ hx rs2 => ?_)
        exact hr.apply _ _ _ _ hg1 ((VsRel.cons h2 h3).dropLast.append hx) s s' rs2
    by_cases h2 : p = .eval
    · subst h2
      rcases ha with _ | ⟨hv, _ | ⟨h2, h3⟩⟩
      · exact ⟨rfl, rs⟩
      · simp only [applyStep]
        refine ResRelR.bind (simRAt_externalise rs hv (by simpa using hc)) (fun d d' s s' _ hd rs2 => ?_)
        subst hd
        exact simR_evalTop hf hr _ s s' rs2
      · exact ⟨rfl, rs⟩
    by_cases h3 : p = .force
    · subst h3
      rcases ha with _ | ⟨hv, _ | ⟨h2, h3⟩⟩
      · exact ⟨rfl, rs⟩
      · cases hv with
        | promise l =>
          simp only [applyStep]
          refine SimR.bind (simR_readCell rfl) (fun c c' hcell => ?_) st st' rs
          cases hcell with
          | promise b hw =>
            cases b with
            | true => exact SimR.pure _ _ hw
            | false =>
              simp only
              refine SimR.bind (hr.apply _ _ _ _ hw .nil) (fun v v' hv => ?_)
              refine SimR.bind (simR_readCell rfl) (fun c2 c2' hc2 => ?_)
              cases hc2 with
              | promise b2 hw2 =>
                cases b2 with
                | true => exact SimR.pure _ _ hw2
                | false =>
                  simp only
                  exact SimR.bind (simR_writeCell hf rfl (.promise true hv)) (fun _ _ _ => SimR.pure _ _ hv)
              | var _ => exact SimR.bind (simR_writeCell hf rfl (.promise true hv)) (fun _ _ _ => SimR.pure _ _ hv)
              | pair _ _ => exact SimR.bind (simR_writeCell hf rfl (.promise true hv)) (fun _ _ _ => SimR.pure _ _ hv)
              | vec _ => exact SimR.bind (simR_writeCell hf rfl (.promise true hv)) (fun _ _ _ => SimR.pure _ _ hv)
          | var _ => exact SimR.throw _
          | pair _ _ => exact SimR.throw _
          | vec _ => exact SimR.throw _
        | _ => exact ⟨rfl, rs⟩
      · cases hv <;> exact ⟨rfl, rs⟩
    by_cases h4 : p = .map
    · subst h4
      rcases ha with _ | ⟨hg1, _ | ⟨h2, h3⟩⟩
      · exact ⟨rfl, rs⟩
      · exact ⟨rfl, rs⟩
      · simp only [applyStep]
        have hc' := hc
        rw [helperCut_map] at hc'
        refine ResRelR.bind (simRAt_getLists rs (.cons h2 h3)
          (fun v hv => by simpa using List.any_eq_false.1 hc' v hv)) (fun lists lists' s s' hm hl rs2 => ?_)
        have hs := getLists_ok_state hm
        subst hs
        exact SimR.bind (simR_mapApply hr hg1 (simAt_zipRows rs2 hm hl)) (fun vs vs' hvs => simR_allocList hvs) s s' rs2
    by_cases h5 : p = .forEach
    · subst h5
      rcases ha with _ | ⟨hg1, _ | ⟨h2, h3⟩⟩
      · exact ⟨rfl, rs⟩
      · exact ⟨rfl, rs⟩
      · simp only [applyStep]
        have hc' := hc
        rw [helperCut_forEach] at hc'
        refine ResRelR.bind (simRAt_getLists rs (.cons h2 h3)
          (fun v hv => by simpa using List.any_eq_false.1 hc' v hv)) (fun lists lists' s s' hm hl rs2 => ?_)
        have hs := getLists_ok_state hm
        subst hs
        exact SimR.bind (simR_mapApply hr hg1 (simAt_zipRows rs2 hm hl)) (fun vs vs' hvs => SimR.pure _ _ .void) s s' rs2
    have e1 : ∀ (rr : Rec) (as : List Val), applyStep rr (.prim p) as = applyPrim1 p as := by
      intro rr as
      cases p <;> first | rfl | exact absurd rfl h1 | exact absurd rfl h2 | exact absurd rfl h3 | exact absurd rfl h4 | exact absurd rfl h5
    rw [e1, e1]
    exact simRAt_applyPrim1 hf p ha rs hc
  | _ => exact ⟨rfl, rs⟩

/-! ## from "the run in the larger store stays `k` short of the helpers' bound" to "the run in the
smaller store stays within its own" -/

theorem helperCutAt_rel (F : Nat) {st st' : St} (rs : StRel f st st') {g g' : Val} (hg : VRel f g g')
    {args args' : List Val} (ha : VsRel f args args') :
    helperCutAt F g' args' st'.store = helperCutAt F g args st.store := by
  cases hg with
  | prim p =>
    by_cases hA : p = .apply
    · subst hA
      rcases ha with _ | ⟨h1, _ | ⟨h2, h3⟩⟩
      · rfl
      · rfl
      · exact listCut_rel rs F (VsRel.cons h2 h3).getLastD
    by_cases hM : p = .map
    · subst hM
      rcases ha with _ | ⟨h1, _ | ⟨h2, h3⟩⟩
      · rfl
      · rfl
      · exact any_congr_rel (VsRel.cons h2 h3) (fun v v' hv => listCut_rel rs F hv)
    by_cases hE : p = .forEach
    · subst hE
      rcases ha with _ | ⟨h1, _ | ⟨h2, h3⟩⟩
      · rfl
      · rfl
      · exact any_congr_rel (VsRel.cons h2 h3) (fun v v' hv => listCut_rel rs F hv)
    rcases ha with _ | ⟨h1, _ | ⟨h2, _ | ⟨h3, _ | ⟨h4, ht⟩⟩⟩⟩ <;> cases p <;>
      first
      | rfl
      | exact absurd rfl hA
      | exact absurd rfl hM
      | exact absurd rfl hE
      | exact valCut_rel rs F h1
      | exact listCut_rel rs F h1
      | exact eqCut_rel rs F h1 h2
      | exact spineCut_rel rs F h2
      | (show (listCut F _ _ || listCut F _ _) = (listCut F _ _ || listCut F _ _)
         rw [listCut_rel rs F h1, listCut_rel rs F h2])
  | _ => simp [helperCutAt]

theorem any_false_mono {xs : List Val} {g g' : Val → Bool} (h : ∀ v, g v = false → g' v = false)
    (hx : xs.any g = false) : xs.any g' = false := by
  rw [List.any_eq_false] at hx ⊢
  intro v hv
  have := h v (by simpa using hx v hv)
  simp [this]

theorem helperCutAt_mono (F j : Nat) (g : Val) (args : List Val) (σ : Array Cell)
    (h : helperCutAt F g args σ = false) : helperCutAt (F + j) g args σ = false := by
  cases g with
  | prim p =>
    by_cases hA : p = .apply
    · subst hA
      rcases args with _ | ⟨a, _ | ⟨b, t⟩⟩
      · rfl
      · rfl
      · exact listCut_mono σ F j _ h
    by_cases hM : p = .map
    · subst hM
      rcases args with _ | ⟨a, _ | ⟨b, t⟩⟩
      · rfl
      · rfl
      · exact any_false_mono (fun v hv => listCut_mono σ F j v hv) h
    by_cases hE : p = .forEach
    · subst hE
      rcases args with _ | ⟨a, _ | ⟨b, t⟩⟩
      · rfl
      · rfl
      · exact any_false_mono (fun v hv => listCut_mono σ F j v hv) h
    rcases args with _ | ⟨a, _ | ⟨b, _ | ⟨c, _ | ⟨d, t⟩⟩⟩⟩ <;> cases p <;>
      first
      | rfl
      | exact absurd rfl hA
      | exact absurd rfl hM
      | exact absurd rfl hE
      | exact valCut_mono σ F j _ h
      | exact listCut_mono σ F j _ h
      | exact eqCut_mono σ F j _ _ h
      | exact spineCut_mono σ F j _ h
      | (have h' : (listCut F σ a || listCut F σ b) = false := h
         rw [Bool.or_eq_false_iff] at h'
         show (listCut (F + j) σ a || listCut (F + j) σ b) = false
         rw [listCut_mono σ F j _ h'.1, listCut_mono σ F j _ h'.2]; rfl)
  | _ => simp [helperCutAt]

/-- `k` bounds the number of extra cells: the larger store has at most `k` more cells -/
theorem stRel_size_le_add {k : Nat} (hfk : ∀ l, f l ≤ l + k) {st st' : St} (rs : StRel f st st') :
    st'.store.size ≤ st.store.size + k := by
  have h := rs.front 0
  have := hfk st.store.size
  simp only [Nat.add_zero] at h
  omega

theorem cut_transfer {k : Nat} (hfk : ∀ l, f l ≤ l + k) {st st' : St} (rs : StRel f st st')
    {g g' : Val} (hg : VRel f g g') {args args' : List Val} (ha : VsRel f args args')
    (h : helperCutAt (st'.store.size + 1 - k) g' args' st'.store = false) : helperCut g args st.store = false := by
  rw [helperCutAt_rel _ rs hg ha] at h
  rw [helperCut_eq_at]
  have hle := stRel_size_le_add hfk rs
  obtain ⟨j, hj⟩ : ∃ j, st.store.size + 1 = (st'.store.size + 1 - k) + j := ⟨st.store.size + 1 - (st'.store.size + 1 - k), by omega⟩
  rw [hj]
  exact helperCutAt_mono _ j g args st.store h

/-- the evaluator at fuel `n` in the smaller store is simulated, conversely, by the slack-guarded
    evaluator at fuel `n` in the larger store -/
theorem recSimR (hf : Inj f) {k : Nat} (hfk : ∀ l, f l ≤ l + k) : ∀ (n : Nat), RecSimR f (evalN n) (sguardN k n)
  | 0 => ⟨fun _ _ _ _ _ _ => SimR.timeout _, fun _ _ _ _ _ _ => SimR.timeout _⟩
  | n+1 => ⟨fun e ρ ρ' B he hc => simR_evalStep hf (recSimR hf hfk n) he e hc,
            fun g g' args args' hg ha st st' rs => by
              show ResRelR f (VRel f) (applyStep (evalN n) g args st) (sguardApply k (sguardN k n) g' args' st')
              unfold sguardApply
              split
              · exact ResRelR.timeout_right _
              · rename_i hcut
                exact simRAt_applyStep hf (recSimR hf hfk n) hg ha rs (cut_transfer hfk rs hg ha (by simpa using hcut))⟩

/-- … and the run in the smaller store does not hit ITS guard either: the simulated evaluator can be
    taken to be the guarded one -/
theorem recSimR_guard (hf : Inj f) {k : Nat} (hfk : ∀ l, f l ≤ l + k) : ∀ (n : Nat), RecSimR f (guardN n) (sguardN k n)
  | 0 => ⟨fun _ _ _ _ _ _ => SimR.timeout _, fun _ _ _ _ _ _ => SimR.timeout _⟩
  | n+1 => ⟨fun e ρ ρ' B he hc => simR_evalStep hf (recSimR_guard hf hfk n) he e hc,
            fun g g' args args' hg ha st st' rs => by
              show ResRelR f (VRel f) (guardApply (guardN n) g args st) (sguardApply k (sguardN k n) g' args' st')
              unfold sguardApply
              split
              · exact ResRelR.timeout_right _
              · rename_i hcut
                have hc := cut_transfer hfk rs hg ha (by simpa using hcut)
                rw [guardApply_of_not_cut _ _ _ _ hc]
                exact simRAt_applyStep hf (recSimR_guard hf hfk n) hg ha rs hc⟩

theorem extra_cell_invariance_conv_guard (hf : Inj f) {k : Nat} (hfk : ∀ l, f l ≤ l + k) (n : Nat) (e : Datum)
    {B : List Text} {ρ ρ' : Env} (he : EnvRel f B ρ ρ') (hc : CleanB B e) {st st' : St} (rs : StRel f st st') :
    ResRelR f (VRel f) ((guardN n).eval e ρ st) ((sguardN k n).eval e ρ' st') :=
  (recSimR_guard hf hfk n).eval e ρ ρ' B he hc st st' rs

/-- **Extra-cell invariance, converse.** `f` injective with `f l ≤ l + k` (at most `k` extra cells).
    If the evaluation of `e` in the LARGER store `st'` (environment `ρ'`, fuel `n`) ends definitely and
    no store-size-fuelled helper comes within `k` of its bound (`sguardN k`), then the evaluation in the
    smaller store `st`, environment `ρ`, with the same fuel ends with the same kind of outcome: related
    values, the same error class, the same output log, related globals and stores. -/
theorem extra_cell_invariance_conv (hf : Inj f) {k : Nat} (hfk : ∀ l, f l ≤ l + k) (n : Nat) (e : Datum) {B : List Text}
    {ρ ρ' : Env} (he : EnvRel f B ρ ρ') (hc : CleanB B e) {st st' : St} (rs : StRel f st st') :
    ResRelR f (VRel f) ((evalN n).eval e ρ st) ((sguardN k n).eval e ρ' st') :=
  (recSimR hf hfk n).eval e ρ ρ' B he hc st st' rs

theorem extra_cell_invariance_conv_apply (hf : Inj f) {k : Nat} (hfk : ∀ l, f l ≤ l + k) (n : Nat) {g g' : Val}
    (hg : VRel f g g') {args args' : List Val} (ha : VsRel f args args') {st st' : St} (rs : StRel f st st') :
    ResRelR f (VRel f) ((evalN n).apply g args st) ((sguardN k n).apply g' args' st') :=
  (recSimR hf hfk n).apply g g' args args' hg ha st st' rs

theorem extra_cell_invariance_conv_top (hf : Inj f) {k : Nat} (hfk : ∀ l, f l ≤ l + k) (n : Nat) (d : Datum)
    {st st' : St} (rs : StRel f st st') :
    ResRelR f (VRel f) (evalTop (evalN n) d st) (evalTop (sguardN k n) d st') :=
  simR_evalTop hf (recSimR hf hfk n) d st st' rs

end Marwood.Spec.Eval.Conv
