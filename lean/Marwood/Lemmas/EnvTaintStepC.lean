import Marwood.Lemmas.EnvTaintStepA
/-!
# "No value leads to a capturing lambda" across `run_one`, opcode by opcode: CALL

The shape of `Lemmas/ProcInvStepC.lean`. The `eval` builtin's compiler creates capturing lambdas at fresh addresses
(`EKeep`): `acc` and the live stack cells refer to allocated cells (`GoodI`: they are roots), so they still do not
point to one.
-/
namespace Marwood.Lemmas.Taint
open Marwood.Lemmas.Good Marwood Marwood.Vm Marwood.Vm.Verify Marwood.Vm.Concrete Marwood.Lemmas.Sim
open Marwood.Heap (GcState)
open StepC

/-! ## invoking a continuation -/

section
variable {ext : ExtOps}

/-- invoking a continuation object found through `acc` -/
theorem invokeCont_pv {s s' : St CHeap} {c : Cont} (g : GoodI s) (p : PInv s)
    (hc : callee s.heap s.acc = .continuation c) (h : invokeCont s c = .ok s') : PInv s' := by
  obtain ⟨q, _, hcell⟩ := callee_cont_cell hc
  have hcn := cont_cells_ne p.hp hcell
  have hlen := g.hg.plain.conts q c hcell
  unfold invokeCont at h
  obtain ⟨⟨a, st1⟩, h1, h⟩ := bind_ok h
  obtain ⟨n, h2, h⟩ := bind_ok h
  simp only at h
  split at h
  · cases h
  · obtain ⟨⟨r, st2⟩, h3, h⟩ := bind_ok h
    obtain ⟨s2, h4, h⟩ := bind_ok h
    cases h
    unfold restoreCont at h4
    obtain ⟨st3, h5, h4⟩ := bind_ok h4
    cases h4
    obtain ⟨_, sm1, _, _⟩ := p.sm.pop h1
    obtain ⟨hr, _, _, _⟩ := sm1.pop h3
    unfold Stack.restore at h5
    split at h5
    · cases h5
      refine ⟨p.hp, hr, ?_⟩
      intro i v hi hv
      simp only at hi hv
      rw [List.getElem?_append_left (by omega)] at hv
      exact hcn v (List.mem_of_getElem? hv)
    · cases h5

end

/-! ## the two loops of `apply` -/

/-- `get_offset(-k)` reads a live cell -/
theorem sm_getOffset_neg {h : CHeap} {st : Stack} {B : Nat} (x : SM h st B) {k : Nat} {v : VCell}
    (hg : st.getOffset (-(k : Int)) = .ok v) : neE h v = true := by
  obtain ⟨_, r2⟩ := getOffset_inv hg
  exact x _ _ (.inr (by omega)) r2

/-- the shift loop of `apply` moves live cells around -/
theorem applyShift_sm {h : CHeap} {B : Nat} :
    ∀ (k : Nat) (st st' : Stack), builtinApply.shift k st = .ok st' → SM h st B → SM h st' B := by
  intro k
  induction k with
  | zero =>
    intro st st' hs x
    simp only [builtinApply.shift] at hs
    cases hs
    exact x
  | succ k ih =>
    intro st st' hs x
    simp only [builtinApply.shift] at hs
    obtain ⟨v, hv, hs⟩ := bind_ok hs
    obtain ⟨st1, hs1, hs⟩ := bind_ok hs
    exact ih st1 st' hs (x.setOffset (sm_getOffset_neg x hv) hs1)

/-- the push loop of `apply` pushes the cars of pair cells of the heap -/
theorem applyPushList_sm {ext : ExtOps} {s : St CHeap} (hp : HP s.heap) {B : Nat} :
    ∀ (fuel : Nat) (rest : VCell) (n : Nat) (st : Stack) (n' : Nat) (st' : Stack),
      builtinApply.pushList (concreteOps ext) s fuel rest n st = .ok (n', st') → valEB s.heap rest = true →
      SM s.heap st B → SM s.heap st' B := by
  intro fuel
  induction fuel with
  | zero => intro rest n st n' st' h; simp only [builtinApply.pushList] at h; cases h
  | succ fuel ih =>
    intro rest n st n' st' h hv x
    simp only [builtinApply.pushList] at h
    split at h
    · rename_i car cdr
      have hv' : (!capAt s.heap car && !capAt s.heap cdr) = true := hv
      simp only [Bool.and_eq_true] at hv'
      have hcar : neE s.heap (.ptr car) = true := hv'.1
      have hcdr : neE s.heap (.ptr cdr) = true := hv'.2
      exact ih _ _ _ _ _ h (deref_valEB hp rfl hcdr) (x.push hcar)
    · cases h
      exact x
    · cases h

/-! ## the builtins -/

section
variable {ext : ExtOps} {s s2 : St CHeap} {v : VCell}

/-- what each of the four builtin kinds delivers to the tail of `runBuiltin` -/
def BRes (s2 : St CHeap) (v : VCell) : Prop :=
  HP s2.heap ∧ LF s2.heap ∧ neE s2.heap s2.acc = true ∧
    SM s2.heap s2.stack s2.stack.sp ∧ valEB s2.heap v = true

theorem builtinApply_pv (lf : LF s.heap) (hblk : ArgBlock s.stack s.stack.sp) (p : PInv s)
    (h : builtinApply (concreteOps ext) s = .ok (s2, v)) : BRes s2 v := by
  unfold builtinApply at h
  obtain ⟨⟨a, st1⟩, h1, h⟩ := bind_ok h
  obtain ⟨argc, h2, h⟩ := bind_ok h
  obtain ⟨hge, h⟩ := ite_err_ok h
  obtain ⟨⟨top, st2⟩, h3, h⟩ := bind_ok h
  obtain ⟨_, h⟩ := ite_err_ok h
  obtain ⟨proc, h4, h⟩ := bind_ok h
  obtain ⟨st3, h5, h⟩ := bind_ok h
  obtain ⟨⟨x0, st4⟩, h6, h⟩ := bind_ok h
  obtain ⟨⟨n, st5⟩, h7, h⟩ := bind_ok h
  obtain ⟨ipO, _, h⟩ := bind_ok h
  cases h
  obtain ⟨p1, p2, p3, p4⟩ := pop_inv h1
  obtain ⟨q1, q2, q3, q4⟩ := pop_inv h3
  cases a <;> simp only [asArgc] at h2 <;> cases h2
  obtain ⟨_, sm1, _, _⟩ := p.sm.pop h1
  obtain ⟨htop, sm2, _, _⟩ := sm1.pop h3
  -- the list argument
  have htopv : plainGlob top = true := by
    rw [p3, p4] at q2
    exact hblk argc p2 _ _ (by omega) (by omega) q2
  have hrest : valEB s.heap (deref s.heap top) = true := deref_valEB p.hp htopv htop
  -- the procedure
  have e : -((argc : Int) - 2) = -(((argc - 2 : Nat)) : Int) := by omega
  rw [e] at h4
  obtain ⟨r1, r2⟩ := getOffset_inv h4
  have hne : neE s.heap v = true := sm2 _ _ (.inr (by omega)) r2
  rw [q4, p4] at r2
  have hi : st2.sp - (argc - 2) < s.stack.sp := by omega
  have hpg : plainGlob v = true := hblk argc p2 _ _ hi (by omega) r2
  -- the loops
  have sm3 := applyShift_sm _ _ _ h5 sm2
  obtain ⟨_, sm4, _, _⟩ := sm3.pop h6
  have sm5 := applyPushList_sm (ext := ext) p.hp _ _ _ _ _ _ h7 hrest sm4
  have sm6 : SM s.heap (st5.push (.argc n)) s.stack.sp := sm5.push rfl
  exact ⟨p.hp, lf, p.acc, SM.of_stk sm6.stk, valEB_of_value hpg hne⟩

theorem builtinCallcc_pv (lf : LF s.heap) (hblk : ArgBlock s.stack s.stack.sp) (p : PInv s)
    (h : builtinCallcc (concreteOps ext) s = .ok (s2, v)) : BRes s2 v := by
  unfold builtinCallcc at h
  obtain ⟨⟨a, st1⟩, h1, h⟩ := bind_ok h
  obtain ⟨argc, h2, h⟩ := bind_ok h
  obtain ⟨hge, h⟩ := ite_err_ok h
  obtain ⟨⟨proc, st2⟩, h3, h⟩ := bind_ok h
  obtain ⟨_, h⟩ := ite_err_ok h
  obtain ⟨cst, h4, h⟩ := bind_ok h
  simp only [concreteOps] at h
  obtain ⟨ipO, _, h⟩ := bind_ok h
  cases h
  obtain ⟨p1, p2, p3, p4⟩ := pop_inv h1
  obtain ⟨q1, q2, q3, q4⟩ := pop_inv h3
  cases a <;> simp only [asArgc] at h2 <;> cases h2
  have hargc : argc = 1 := by omega
  subst hargc
  obtain ⟨_, sm1, _, _⟩ := p.sm.pop h1
  obtain ⟨hne, sm2, _, _⟩ := sm1.pop h3
  rw [p3, p4] at q2
  have hpg : plainGlob v = true := hblk 1 p2 _ _ (by omega) (by omega) q2
  unfold Stack.capture at h4
  split at h4
  · cases h4
    have hcells : ∀ w ∈ (st2.cells.take (st2.sp + 1)), neE s.heap w = true := by
      intro w hw
      obtain ⟨i, hi⟩ := List.mem_iff_getElem?.mp hw
      rw [List.getElem?_take] at hi
      split at hi
      · exact sm2 i w (.inr (by omega)) hi
      · cases hi
    obtain ⟨r, he⟩ := newCont_res lf p.hp
      (k := ⟨⟨st2.cells.take (st2.sp + 1), st2.sp⟩, s.ep, s.ipL, s.ipO, s.bp⟩) hcells
    have hk : neE (cput s.heap (.cont ⟨⟨st2.cells.take (st2.sp + 1), st2.sp⟩, s.ep, s.ipL, s.ipO, s.bp⟩)).1
        (.ptr (cput s.heap (.cont ⟨⟨st2.cells.take (st2.sp + 1), st2.sp⟩, s.ep, s.ipL, s.ipO, s.bp⟩)).2) = true := by
      simp only [neE_ptr, he]; rfl
    have sm3 := ((sm2.heap r.eshr).push hk).push (v := .argc 1) rfl
    exact ⟨r.hp, r.lf, r.neE p.acc, SM.of_stk sm3.stk, r.valEB (valEB_of_value hpg hne)⟩
  · cases h4

/-- the cells of a stack that refer to allocated cells only survive `EKeep` -/
theorem SM.keep {h h' : CHeap} {st : Stack} {B : Nat} (x : SM h st B) (ek : EKeep h h')
    (hr : ∀ (i : Nat) (v : VCell), (i ≤ B ∨ i ≤ st.sp) → st.cells[i]? = some v → VRefsOk h v) : SM h' st B :=
  fun i v hi hv => ek v (hr i v hi hv) (x i v hi hv)

theorem builtinEvalProc_pv (ep : ExtTaint ext) (ecl : ExtCodeLawsV ext) (g : GoodI s) (ci : CInvG IsValue s.heap)
    (hblk : ArgBlock s.stack s.stack.sp) (p : PInv s)
    (h : builtinEvalProc (concreteOps ext) s = .ok (s2, v)) : BRes s2 v := by
  unfold builtinEvalProc at h
  obtain ⟨⟨a, st1⟩, h1, h⟩ := bind_ok h
  obtain ⟨argc, h2, h⟩ := bind_ok h
  obtain ⟨hge, h⟩ := ite_err_ok h
  obtain ⟨⟨e, st2⟩, h3, h⟩ := bind_ok h
  obtain ⟨⟨h', lam⟩, h4, h⟩ := bind_ok h
  obtain ⟨ipO, _, h⟩ := bind_ok h
  cases h
  obtain ⟨p1, p2, p3, p4⟩ := pop_inv h1
  obtain ⟨q1, q2, q3, q4⟩ := pop_inv h3
  cases a <;> simp only [asArgc] at h2 <;> cases h2
  have hargc : argc = 1 := by omega
  subst hargc
  obtain ⟨_, sm1, c1, e1⟩ := p.sm.pop h1
  obtain ⟨hne, sm2, c2, e2⟩ := sm1.pop h3
  rw [p3, p4] at q2
  have hpg : plainGlob e = true := hblk 1 p2 _ _ (by omega) (by omega) q2
  simp only [concreteOps] at h4
  obtain ⟨r1, r2, r3⟩ := ep.compile _ _ _ _ p.hp (LF.of_cinv ci) (deref_valEB p.hp hpg hne) h4
  have lf' : LF h' := LF.of_cinv (ecl.compileEval ci h4).1
  have hrefs : ∀ (i : Nat) (w : VCell), (i ≤ s.stack.sp ∨ i ≤ st2.sp) → st2.cells[i]? = some w → VRefsOk s.heap w := by
    intro i w hi hw
    rw [c2, c1] at hw
    exact roots_stack g.roots (by omega) hw
  have sm3 : SM h' (st2.push (.argc 0)) s.stack.sp := (sm2.keep r2 hrefs).push rfl
  exact ⟨r1, lf', r2 _ (roots_acc g.roots) p.acc, SM.of_stk sm3.stk, r3⟩

theorem builtinGeneric_pv {id : Nat} (ep : ExtTaint ext) (ecl : ExtCodeLawsV ext) (ci : CInvG IsValue s.heap)
    (hblk : ArgBlock s.stack s.stack.sp) (p : PInv s)
    (h : builtinGeneric (concreteOps ext) id s = .ok (s2, v)) : BRes s2 v := by
  unfold builtinGeneric at h
  obtain ⟨⟨a, st1⟩, h1, h⟩ := bind_ok h
  obtain ⟨argc, h2, h⟩ := bind_ok h
  obtain ⟨⟨args, st2⟩, h3, h⟩ := bind_ok h
  obtain ⟨⟨h', w⟩, h4, h⟩ := bind_ok h
  cases h
  obtain ⟨p1, p2, p3, p4⟩ := pop_inv h1
  obtain ⟨q1, q2, q3⟩ := popN_inv argc h3
  cases a <;> simp only [asArgc] at h2 <;> cases h2
  obtain ⟨_, sm1, _, _⟩ := p.sm.pop h1
  obtain ⟨hnes, sm2, _, _⟩ := sm1.popN h3
  have hargs : ∀ x ∈ args, plainGlob x = true ∧ neE s.heap x = true := by
    intro x hx
    obtain ⟨i, i1, i2, i3⟩ := q3 x hx
    rw [p4] at i3
    exact ⟨hblk argc p2 i x (by omega) (by omega) i3, hnes x hx⟩
  simp only [concreteOps] at h4
  obtain ⟨r1, r2, r3⟩ := ep.eval _ _ _ _ _ p.hp (LF.of_cinv ci) hargs h4
  have lf' : LF h' := LF.of_cinv (ecl.builtinEval ci h4).1
  have sm3 : SM h' st2 s.stack.sp := sm2.heap r2
  exact ⟨r1, lf', r2.neE p.acc, SM.of_stk sm3.stk, r3⟩

theorem runBuiltin_pv {id : Nat} {s s' : St CHeap} (ep : ExtTaint ext) (ecl : ExtCodeLawsV ext) (g : GoodI s)
    (ci : CInvG IsValue s.heap) (hblk : ArgBlock s.stack s.stack.sp) (p : PInv s)
    (hr : runBuiltin (concreteOps ext) id s = .ok s') : PInv s' := by
  rw [StepC.runBuiltin_eq] at hr
  obtain ⟨⟨s2, v⟩, h1, hr⟩ := bind_ok hr
  have lf : LF s.heap := LF.of_cinv ci
  have key : BRes s2 v := by
    cases hk : (concreteOps ext).builtinKind s.heap id <;> rw [hk] at h1 <;> simp only at h1
    · exact builtinApply_pv lf hblk p h1
    · exact builtinEvalProc_pv ep ecl g ci hblk p h1
    · exact builtinCallcc_pv lf hblk p h1
    · exact builtinGeneric_pv ep ecl ci hblk p h1
  obtain ⟨k1, k2, _, k5, k6⟩ := key
  unfold StepC.builtinTail at hr
  simp only at hr
  by_cases hp : ∃ q, v = .ptr q
  · obtain ⟨q, rfl⟩ := hp
    simp only at hr
    cases hr
    exact ⟨k1, neE_of_valEB k6, k5.stk⟩
  · have e : s' = { s2 with heap := (maybePutV s2.heap v).1, acc := (maybePutV s2.heap v).2 } := by
      cases v <;> first | (exact absurd ⟨_, rfl⟩ hp) | (simp only [concreteOps] at hr; cases hr; rfl)
    subst e
    obtain ⟨r, hne⟩ := maybePutV_res k2 k1 k6
    exact ⟨r.hp, hne, (k5.heap r.eshr).stk⟩

theorem pv_call {s0 s' : St CHeap} {b : Bool} (ep : ExtTaint ext) (ecl : ExtCodeLawsV ext) (g : GoodI s0)
    (ci : CInvG IsValue s0.heap) (sd : StackDisc s0) (p : PInv s0) (hop : opAt s0 .callAcc)
    (hx : exec (concreteOps ext) .callAcc (nx s0) = .ok (s', b)) : PInv s' := by
  unfold exec at hx
  obtain ⟨s1, h1, hx⟩ := bind_ok hx
  cases hx
  have hblk : ArgBlock (nx s0).stack (nx s0).stack.sp := sd.call (.inl hop)
  unfold stepCall at h1
  cases hc : (concreteOps ext).callee (nx s0).heap (nx s0).acc with
  | builtin id => rw [hc] at h1; exact runBuiltin_pv ep ecl g.nx ci hblk p.nx h1
  | continuation c => rw [hc] at h1; exact invokeCont_pv g.nx p.nx hc h1
  | other => rw [hc] at h1; cases h1
  | closure lam env =>
    rw [hc] at h1
    cases h1
    exact p.mk' rfl p.acc ((p.sm.push (v := .envPtr s0.ep) rfl).push (v := .instrPtr s0.ipL (s0.ipO + 1)) rfl)
  | lambda =>
    rw [hc] at h1
    obtain ⟨lam, _, h1⟩ := bind_ok h1
    cases h1
    exact p.mk' rfl p.acc ((p.sm.push (v := .envPtr s0.ep) rfl).push (v := .instrPtr s0.ipL (s0.ipO + 1)) rfl)

end

end Marwood.Lemmas.Taint
