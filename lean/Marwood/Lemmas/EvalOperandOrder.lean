import Marwood.Vm.Compile
/-!
# T01.4 — operand order in the compiler model (`compile_runtime_procedure_application`)

`OperandCodes fuel st c base rest st' segs`: compiling the operand list `rest` from code offset
`base` in compiler state `st` yields, operand by operand from left to right, the code segments
`segs` (each compiled with `tail = false` at the offset that follows the previous segment and its
`PUSH`), ending in state `st'`.
-/
namespace Marwood.Vm
open Marwood

inductive OperandCodes : Nat → CState → Ctx → Nat → Datum → CState → List (List BC) → Prop
  | done (fuel st c base rest) (h : ∀ a d, rest ≠ .pair a d) : OperandCodes (fuel + 1) st c base rest st []
  | cons (fuel st c base a d st1 code1 st' segs)
      (h1 : compileExpr fuel st c base false a = .ok (st1, code1))
      (h2 : OperandCodes fuel st1 c (base + code1.length + 1) d st' segs) :
      OperandCodes (fuel + 1) st c base (.pair a d) st' (code1 :: segs)

/-- the operand codes in order, each followed by `PUSH` -/
def pushed (segs : List (List BC)) : List BC := (segs.map (· ++ [BC.op .pushAcc])).flatten

theorem compileArgs_operandCodes (fuel : Nat) : ∀ st c base rest st' code n,
    compileArgs fuel st c base rest = .ok (st', code, n) →
    ∃ segs, OperandCodes fuel st c base rest st' segs ∧ code = pushed segs ∧ n = segs.length := by
  induction fuel with
  | zero => intro st c base rest st' code n h; simp [compileArgs] at h
  | succ fuel ih =>
    intro st c base rest st' code n h
    cases rest with
    | pair a d =>
      simp only [compileArgs] at h
      cases h1 : compileExpr fuel st c base false a with
      | error e => simp [h1] at h
      | ok r1 =>
        obtain ⟨st1, code1⟩ := r1
        simp only [h1] at h
        cases h2 : compileArgs fuel st1 c (base + code1.length + 1) d with
        | error e => simp [h2] at h
        | ok r2 =>
          obtain ⟨st2, code2, n2⟩ := r2
          simp only [h2] at h
          obtain ⟨segs, hs, hc, hn⟩ := ih _ _ _ _ _ _ _ h2
          injection h with h
          injection h with h3 h4
          injection h4 with h4 h5
          subst h3 h4 h5
          exact ⟨code1 :: segs, .cons _ _ _ _ _ _ _ _ _ _ h1 hs, by simp [pushed, hc], by simp [hn]⟩
    | _ =>
      simp only [compileArgs] at h
      injection h with h
      injection h with h3 h4
      injection h4 with h4 h5
      subst h3 h4 h5
      exact ⟨[], .done _ _ _ _ _ (by intro a d hh; cases hh), by simp [pushed], rfl⟩

end Marwood.Vm
