import Marwood.Lemmas.CompileCorrect3Rec
/-!
# T01.3 stage 3 — blocks of `lambda`-initialised internal definitions: the whole block
-/
namespace Marwood.Lemmas.CompileCorrect3
open Marwood Marwood.Vm Marwood.Lemmas.CompileCorrect Marwood.Lemmas.CompileCorrect2
open Marwood.Spec.Eval (Val Prim Cell Env evalN evalStep applyStep evalArgs properList quoteVal kwOf insertG
  k_quote k_if_ k_setBang k_define k_lambda)

variable {H : Type} {ops : HeapOps H} {D : RepData2 ops}

/-- behind the last definition of the block `Inv3` holds again, and the names of the block are readable -/
theorem blk_finish {W : World} {c : Ctx} {ρ : Env} {us : Text → Prop} {Bs : List Text} {s0 s : MSt H} {σ0 σ : SSt}
    (hi0 : Inv3 D W s0.heap σ0) (her0 : EnvRep3 ops W s0.heap c s0.ep ρ us)
    (b : BlkInv D W c ρ Bs s0 σ0 (· ∈ Bs) s σ) :
    Inv3 D W s.heap σ ∧ EnvRep3 ops W s.heap c s.ep ρ (fun z => us z ∧ z ∉ Bs) := by
  classical
  have hBI : ∀ e n, BLoc ops c s0.heap s0.ep (· ∈ Bs) e n → InitM ops s.heap e n := by
    intro e n hq
    obtain ⟨x, hx, j, hj, hd⟩ := hq
    obtain ⟨e', n', l, hd', _, hW, _⟩ := her0 x j hj
    obtain ⟨rfl, rfl⟩ := Denotes.func hd hd'
    obtain ⟨v, _, _, _, _, _, g1, g2, g3, _⟩ := b.dnOK e n l hW ⟨x, hx, j, hj, hd⟩
    exact ⟨v, g1, g2, g3⟩
  have hP : ∀ e n, (InitM ops s.heap e n ∨ BLoc ops c s0.heap s0.ep (· ∈ Bs) e n) → InitM ops s.heap e n :=
    fun e n y => y.elim id (hBI e n)
  constructor
  · refine ⟨fun y u hn hy => ?_, fun y hn hy => ?_, b.srx, fun y hy => ?_, hi0.loaded.ext b.ext.toExt2, hi0.wfun,
      hi0.winj, fun e n l hW => ?_, fun e n l hW ok => ?_⟩
    · rw [b.glob]; exact (hi0.bound y u hn (b.globals ▸ hy)).mono b.ext (World.le_refl _)
    · rw [b.glob]; exact hi0.unbound y hn (b.globals ▸ hy)
    · rw [b.globals]; exact hi0.gset y hy
    · by_cases hq : BLoc ops c s0.heap s0.ep (· ∈ Bs) e n
      · obtain ⟨v, lam, cenv, ps, rest, bl, g1, g2, g3, g4, g5, g6⟩ := b.dnOK e n l hW hq
        exact ⟨v, _, g1, g2, g4, fun _ => .clos g5
          (ClosOK3g.mono (P' := InitM ops s.heap) g6 (Ext3.refl s.heap σ.store) (World.le_refl _) hP)⟩
      · obtain ⟨g1, g2⟩ := b.frame e n l hW hq
        obtain ⟨v, w, k1, k2, k3, k4⟩ := hi0.vars e n l hW
        exact ⟨v, w, by rw [g1]; exact k1, k2, by rw [g2]; exact k3,
          fun hv => (k4 hv).mono b.ext (World.le_refl _)⟩
    · obtain ⟨v, _, k1, _⟩ := hi0.vars e n l hW
      exact hi0.wact e n l hW (b.ext.okBack e n v k1 ok)
  · intro y j hj
    obtain ⟨e, n, l, hd, hl, hW, hini⟩ := her0 y j hj
    refine ⟨e, n, l, by rw [b.ep]; exact hd.ext b.ext.toExt2, hl, hW, fun hnu => ?_⟩
    by_cases hy : y ∈ Bs
    · exact hBI e n ⟨y, hy, j, hj, hd⟩
    · exact b.ext.init _ _ (hini (fun hu => hnu ⟨hu, hy⟩))

/-- the definitions of a block, one after the other (recursion on the derivation) -/
theorem blockK_ok (L : Laws3 D) {n : Nat} {W : World} {c : Ctx} {ρ : Env} {us : Text → Prop} {Bs : List Text}
    {s0 : MSt H} {σ0 : SSt} (hi0 : Inv3 D W s0.heap σ0) (her0 : EnvRep3 ops W s0.heap c s0.ep ρ us) :
    ∀ {g : Nat} {todo ints : List Text} {bodyD : Datum}, F3K D.setG g c (bound ρ) us Bs todo ints bodyD →
    ∀ (dn : Text → Prop) (s : MSt H) (σ : SSt) (body : List Datum) (cst : CState) (base : Nat) (cst' : CState)
      (code : List BC) (w : Val) (σ' : SSt),
    BlkInv D W c ρ Bs s0 σ0 dn s σ → (∀ y ∈ Bs, dn y ∨ y ∈ todo) → (∀ y, dn y → y ∈ Bs) → (∀ y ∈ todo, y ∈ Bs) →
    (todo = [] → s.acc = .void) →
    compileBody g cst c base bodyD = .ok (cst', code) → cst'.lambdas <+: D.final → properList bodyD = some body →
    Spec.Eval.evalBodyForms (evalN n) ρ true body σ = .ok w σ' →
    (∀ dn' s' σ', BlkInv D W c ρ Bs s0 σ0 dn' s' σ' → CodeAt2 D c.envmap s'.heap σ'.store s'.ipL base code) →
    s.ipO = base →
    ∃ (s1 : MSt H) (σ1 : SSt) (f1 : Nat) (cst1 : CState) (restD : Datum) (rest : List Datum) (code1 code2 : List BC)
      (ints1 : List Text),
      Steps ops s s1 ∧ s1.ipO = s.ipO + code1.length ∧ s1.acc = .void ∧ BlkInv D W c ρ Bs s0 σ0 (· ∈ Bs) s1 σ1 ∧
      code = code1 ++ code2 ∧ compileBody f1 cst1 c (base + code1.length) restD = .ok (cst', code2) ∧
      F3B D.setG f1 c (bound ρ) (fun z => us z ∧ z ∉ Bs) ints1 restD ∧ properList restD = some rest ∧
      rest.length + todo.length = body.length ∧ Spec.Eval.evalBodyForms (evalN n) ρ true rest σ1 = .ok w σ'
  | _, _, _, _, @F3K.defl _ f0 _ _ _ _ todo' x formals lbody y rest0 ints' hin hns hres hf hk, dn, s, σ, body, cst,
      base, cst', code, w, σ', b, hcov, hdn, htodo, hacc, hcomp, hpre, hpl, hev, hcA, hip => by
    obtain ⟨es', hpl', hes⟩ := properList_pair_inv hpl
    subst hes
    obtain ⟨es'', hpl'', hes'⟩ := properList_pair_inv hpl'
    subst hes'
    obtain ⟨l, hl⟩ : ∃ l, ρ.lookup x = some l := by
      have : (ρ.lookup x).isSome = true := hns
      cases hq : ρ.lookup x with
      | none => rw [hq] at this; cases this
      | some l => exact ⟨l, rfl⟩
    obtain ⟨v, σ1, he1, hlt, he2⟩ := evalBodyForms_def_inv hl hev
    obtain ⟨cst1, code1, code2, c1, c2, hcode⟩ := compileBody_pair_inv hcomp
    subst hcode
    obtain ⟨codeE, cE, hcode1⟩ := compile_define_inv c1
    subst hcode1
    have hpre1 : cst1.lambdas <+: D.final :=
      (monoK hk (f0 + 1) (fun g' _ => monoOK3 _ g') (.inl (Nat.le_refl _)) _ _ _ _ c2).trans hpre
    obtain ⟨s', hst, hipo, hacc', b'⟩ := block_step L hi0 her0 b hin hf cE hpre1 (hcA dn s σ b).left hip hl he1 hlt
    obtain ⟨s1, σ1', f1, cstr, restD, rest, k1, k2, ints1, r1, r2, r3, r4, r5, r6, r7, r8, r9, r10⟩ :=
      blockK_ok L hi0 her0 hk (fun y => dn y ∨ y = x) s' _ _ cst1 _ cst' code2 w σ' b'
        (fun y hy => by
          rcases hcov y hy with h | h
          · exact .inl (.inl h)
          · rcases List.mem_cons.mp h with h | h
            · exact .inl (.inr h)
            · exact .inr h)
        (fun y hy => hy.elim (hdn y) (fun e => e ▸ htodo x (List.mem_cons_self ..)))
        (fun y hy => htodo y (List.mem_cons_of_mem _ hy)) (fun _ => hacc') c2 hpre hpl' he2
        (fun dn' s'' σ'' b'' => (hcA dn' s'' σ'' b'').right)
        (by rw [hipo, hip]; simp only [List.length_append, List.length_cons, List.length_nil])
    refine ⟨s1, σ1', f1, cstr, restD, rest,
      (codeE ++ [BC.op .mov, BC.acc, emitLoc c x, BC.op .movImm, BC.void, BC.acc]) ++ k1, k2, ints1, hst.trans r1, ?_, r3,
      r4, by rw [r5]; simp only [List.append_assoc], ?_, r7, r8, ?_, r10⟩
    · rw [r2, hipo]; simp only [List.length_append, List.length_cons, List.length_nil]; omega
    · have : base + ((codeE ++ [BC.op .mov, BC.acc, emitLoc c x, BC.op .movImm, BC.void, BC.acc]) ++ k1).length =
          base + (codeE ++ [BC.op .mov, BC.acc, emitLoc c x, BC.op .movImm, BC.void, BC.acc]).length + k1.length := by
        simp only [List.length_append]; omega
      rw [this]; exact r6
    · simp only [List.length_cons] at r9 ⊢; omega
  | _, _, _, _, @F3K.defc _ f0 _ _ _ _ todo' x formals lbody y rest0 ints' p ps rst lints caps hin hns hres hp h2 h3 h4
      h5 h6 h7 h8 hk, dn, s, σ, body, cst, base, cst', code, w, σ', b, hcov, hdn, htodo, hacc, hcomp, hpre, hpl, hev,
      hcA, hip => by
    obtain ⟨es', hpl', hes⟩ := properList_pair_inv hpl
    subst hes
    obtain ⟨es'', hpl'', hes'⟩ := properList_pair_inv hpl'
    subst hes'
    obtain ⟨l, hl⟩ : ∃ l, ρ.lookup x = some l := by
      have : (ρ.lookup x).isSome = true := hns
      cases hq : ρ.lookup x with
      | none => rw [hq] at this; cases this
      | some l => exact ⟨l, rfl⟩
    obtain ⟨ps', rst', b0, bs0, hpf, hbl, hlt, he2⟩ := evalBodyForms_cur_inv hl hev
    rw [h2] at hpf; cases hpf
    obtain ⟨cst1, code1, code2, c1, c2, hcode⟩ := compileBody_pair_inv hcomp
    subst hcode
    have hpre1 : cst1.lambdas <+: D.final :=
      (monoK hk (f0 + 1) (fun g' _ => monoOK3 _ g') (.inl (Nat.le_refl _)) _ _ _ _ c2).trans hpre
    obtain ⟨s', hst, hipo, hacc', b'⟩ := block_step_cur L hi0 her0 b hin hp h3 h4 h5 h6 h7 h8 hbl c1 hpre1
      (hcA dn s σ b).left hip hl hlt
    obtain ⟨s1, σ1', f1, cstr, restD, rest, k1, k2, ints1, r1, r2, r3, r4, r5, r6, r7, r8, r9, r10⟩ :=
      blockK_ok L hi0 her0 hk (fun y => dn y ∨ y = x) s' _ _ cst1 _ cst' code2 w σ' b'
        (fun y hy => by
          rcases hcov y hy with h | h
          · exact .inl (.inl h)
          · rcases List.mem_cons.mp h with h | h
            · exact .inl (.inr h)
            · exact .inr h)
        (fun y hy => hy.elim (hdn y) (fun e => e ▸ htodo x (List.mem_cons_self ..)))
        (fun y hy => htodo y (List.mem_cons_of_mem _ hy)) (fun _ => hacc') c2 hpre hpl' he2
        (fun dn' s'' σ'' b'' => (hcA dn' s'' σ'' b'').right) (by rw [hipo, hip])
    refine ⟨s1, σ1', f1, cstr, restD, rest, code1 ++ k1, k2, ints1, hst.trans r1, ?_, r3,
      r4, by rw [r5]; simp only [List.append_assoc], ?_, r7, r8, ?_, r10⟩
    · rw [r2, hipo]; simp only [List.length_append]; omega
    · have : base + (code1 ++ k1).length = base + code1.length + k1.length := by
        simp only [List.length_append]; omega
      rw [this]; exact r6
    · simp only [List.length_cons] at r9 ⊢; omega
  | _, _, _, _, .done ints bodyD hb, dn, s, σ, body, cst, base, cst', code, w, σ', b, hcov, hdn, htodo, hacc, hcomp,
      hpre, hpl, hev, hcA, hip => by
    refine ⟨s, σ, _, cst, bodyD, body, [], code, ints, .refl _, by simp, hacc rfl,
      b.congr (fun y => ⟨hdn y, fun hy => (hcov y hy).resolve_right (by simp)⟩), by simp, by simpa using hcomp, hb, hpl,
      by simp, hev⟩

theorem block3_ok (L : Laws3 D) {n : Nat} {f : Nat} {cst cst' : CState} {c : Ctx} {base : Nat} {bodyD : Datum}
    {code : List BC} {ρ : Env} {us : Text → Prop} {ints Bs : List Text} {body : List Datum}
    (hne : Bs ≠ []) (hK : F3K D.setG f c (bound ρ) us Bs Bs ints bodyD) (hcx : CtxOK c)
    (hcomp : compileBody f cst c base bodyD = .ok (cst', code)) (hpre : cst'.lambdas <+: D.final)
    (hpl : properList bodyD = some body) {σ σ' : SSt} {w : Val}
    (hev : Spec.Eval.evalBodyForms (evalN n) ρ true body σ = .ok w σ')
    {W : World} {s : MSt H} (hc : CodeAt2 D c.envmap s.heap σ.store s.ipL base code) (hip : s.ipO = base)
    (hi : Inv3 D W s.heap σ) (her : EnvRep3 ops W s.heap c s.ep ρ us) (hw : SWF s.stack) :
    ∃ (s1 : MSt H) (σ1 : SSt) (f1 : Nat) (cst1 : CState) (restD : Datum) (rest : List Datum) (code1 code2 : List BC)
      (ints1 : List Text),
      Run3 D W s code1.length σ σ1 .void s1 ∧ EnvRep3 ops W s1.heap c s1.ep ρ (fun z => us z ∧ z ∉ Bs) ∧
      code = code1 ++ code2 ∧ compileBody f1 cst1 c (base + code1.length) restD = .ok (cst', code2) ∧
      F3B D.setG f1 c (bound ρ) (fun z => us z ∧ z ∉ Bs) ints1 restD ∧ properList restD = some rest ∧
      rest.length < body.length ∧ Spec.Eval.evalBodyForms (evalN n) ρ true rest σ1 = .ok w σ' := by
  have _ := hcx
  obtain ⟨s1, σ1, f1, cst1, restD, rest, code1, code2, ints1, r1, r2, r3, r4, r5, r6, r7, r8, r9, r10⟩ :=
    blockK_ok L hi her hK (fun _ => False) s σ body cst base cst' code w σ' (BlkInv.start s hi.extra)
      (fun y hy => .inr hy) (fun y h => h.elim) (fun y hy => hy) (fun h => absurd h hne) hcomp hpre hpl hev
      (fun dn' s' σ' b' => by rw [b'.ipL]; exact hc.ext b'.ext.toExt2) hip
  obtain ⟨hinv, her1⟩ := blk_finish hi her r4
  refine ⟨s1, σ1, f1, cst1, restD, rest, code1, code2, ints1,
    ⟨r1, r4.ipL, r2, r4.bp, r4.ep, by rw [r4.stack]; exact LiveEq.refl _, by rw [r4.stack]; exact hw,
      by rw [r3]; exact VR3.void L _ _ _, hinv, r4.ext⟩, her1, r5, r6, r7, r8, ?_, r10⟩
  have : 0 < Bs.length := List.length_pos_iff.mpr hne
  omega

end Marwood.Lemmas.CompileCorrect3
