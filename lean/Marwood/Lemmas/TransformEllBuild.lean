import Marwood.Lemmas.TransformEllBuildB
/-!
# What `Pattern::build` computes on every pattern `Transform::try_new` accepts

For a rule of an accepted transformer with pattern `(kw . body)` (`ruleOK_build`):

* `variables` is the list of pattern variables of `body` in order (`patVars`), without duplicates;
* `expanded` contains exactly the symbols `x` with `x ∈ ellVars body` (the variables occurring in a
  sub-pattern followed by the ellipsis), stated through `isExpandedVariable`;
* every expanded variable is a variable.

Parts: `TransformEllBuildA.lean` (pure lemmas, `find_expanded_variables`),
`TransformEllBuildB.lean` (the induction over `buildLoop`), this file (the statement for a rule of an
accepted transformer and a concrete instance).
-/
namespace Marwood.Transform
open Marwood Marwood.Spec.Match

/-- `Pattern::build` run from the empty record on a proper, vector-free body -/
theorem build_spec (s : Setup) {f : Nat} {body : Datum} {p0 p : Pattern}
    (he : p0.ellipsis = s.ell) (hl : p0.literals = s.lits) (hv0 : p0.variables = [])
    (hx0 : p0.expanded = []) (hprop : properS body = true) (h : build f body p0 = .ok p) :
    p.variables = (patVars s.ctx body).map Datum.sym ∧
      (patVars s.ctx body).Nodup ∧
      (∀ c : Datum, c ∈ p.expanded ↔ ∃ x, x ∈ ellVars s.ctx body ∧ c = Datum.sym x) := by
  have hnil := properS_endsInNil hprop
  have hbeq := endsInNil_ofList hnil
  have hel : ∀ it ∈ iterList body, properP it = true := by
    cases body with
    | pair a d => exact (properP_iter (by simpa [properP, properS] using hprop)).2
    | nil => intro it hit; simp [iterList] at hit
    | _ => simp [properS] at hprop
  obtain ⟨hv, hn, hx⟩ := buildLoop_spec s f _ _ 0 (iterList body) 0 p0 p [] he hl hel
    (by simp [hv0]) List.nodup_nil (by simpa [build] using h)
  rw [← hbeq] at hv hn hx
  simp only [List.nil_append] at hv hn
  refine ⟨hv, hn, ?_⟩
  intro c
  have := hx c
  simpa [hx0] using this

/-- **What `Pattern::build` computed for a rule of an accepted transformer.** -/
theorem ruleOK_build (s : Setup) {f : Nat} {r : Pattern × Datum} (h : RuleOK f s.ell s.lits r) :
    ∃ kw body, r.1.expr = .pair kw body ∧
      r.1.variables = (patVars s.ctx body).map Datum.sym ∧
      (patVars s.ctx body).Nodup ∧
      (∀ x : Text, r.1.isExpandedVariable (.sym x) = decide (x ∈ ellVars s.ctx body)) ∧
      (∀ c : Datum, r.1.isExpandedVariable c = true → r.1.isVariable c = true) := by
  obtain ⟨_, _, _, kw, body, hpb, hbuild⟩ := Pattern.tryNew_ok h.pat
  have hsup := h.support
  rw [hpb] at hsup
  have hprop := checkPatternSupport_proper hsup
  obtain ⟨hv, hn, hexp⟩ := build_spec s (p0 := ⟨r.1.expr, [], [], s.ell, s.lits⟩) rfl rfl rfl rfl hprop hbuild
  refine ⟨kw, body, hpb, hv, hn, ?_, ?_⟩
  · intro x
    unfold Pattern.isExpandedVariable
    rw [Bool.eq_iff_iff]
    simp only [List.any_eq_true, decide_eq_true_eq, cellEq_sym_right]
    constructor
    · rintro ⟨it, hit, heq⟩
      subst heq
      obtain ⟨y, hy, hyx⟩ := (hexp _).1 hit
      cases hyx
      exact hy
    · intro hx
      exact ⟨.sym x, (hexp _).2 ⟨x, hx, rfl⟩, rfl⟩
  · intro c hc
    unfold Pattern.isExpandedVariable at hc
    obtain ⟨it, hit, heq⟩ := List.any_eq_true.1 hc
    obtain ⟨y, hy, rfl⟩ := (hexp it).1 hit
    simp only [cellEq_sym_left, decide_eq_true_eq] at heq
    subst heq
    unfold Pattern.isVariable
    rw [hv, anySym_mem]
    simpa using ellVars_sub _ _ _ hy

/-- every rule of every accepted definition -/
theorem accepted_build {f : Nat} {d : Datum} {t : Transform} (hdef : Transform.tryNew f d = .ok t) :
    ∃ s : Setup, t.ellipsis = s.ell ∧ t.literals = s.lits ∧ ∀ r ∈ t.rules,
      ∃ kw body, r.1.expr = .pair kw body ∧
        r.1.variables = (patVars s.ctx body).map Datum.sym ∧
        (patVars s.ctx body).Nodup ∧
        (∀ x : Text, r.1.isExpandedVariable (.sym x) = decide (x ∈ ellVars s.ctx body)) ∧
        (∀ c : Datum, r.1.isExpandedVariable c = true → r.1.isVariable c = true) := by
  obtain ⟨s, hte, htl, hrules⟩ := Transform.tryNew_ok hdef
  exact ⟨s, hte, htl, fun r hr => ruleOK_build s (hrules r hr)⟩

/-! ## A concrete instance (the hypotheses are satisfiable and the characterisation says something) -/

/-- `(d m (syntax-rules (else) ((_ x (a b) ... else) ((a ...) x))))` -/
def ellBuildDef : Datum :=
  Datum.ofList [.sym ['d'], .sym ['m'],
    Datum.ofList [.sym ['s','y','n','t','a','x','-','r','u','l','e','s'], Datum.ofList [.sym ['e','l','s','e']],
      Datum.ofList [
        Datum.ofList [.sym ['_'], .sym ['x'], Datum.ofList [.sym ['a'], .sym ['b']], .sym ['.','.','.'],
          .sym ['e','l','s','e']],
        Datum.ofList [Datum.ofList [.sym ['a'], .sym ['.','.','.']], .sym ['x']]]]]

/-- `(x (a b) ... else)` -/
def ellBuildBody : Datum :=
  Datum.ofList [.sym ['x'], Datum.ofList [.sym ['a'], .sym ['b']], .sym ['.','.','.'], .sym ['e','l','s','e']]

def ellBuildSetup : Setup := ⟨['.','.','.'], [['e','l','s','e']], by decide⟩

/-- the definition is accepted, with one rule whose pattern is `(_ . ellBuildBody)` -/
theorem ellBuildDef_accepted : ∃ t r, Transform.tryNew 100 ellBuildDef = .ok t ∧ t.rules = [r] ∧
    t.ellipsis = ellBuildSetup.ell ∧ t.literals = ellBuildSetup.lits ∧
    r.1.expr = .pair (.sym ['_']) ellBuildBody :=
  ⟨_, _, rfl, rfl, rfl, rfl, rfl⟩

/-- through `Transform.tryNew_ok` and `ruleOK_build`: `variables = [x, a, b]`, `a` and `b` are
    expanded variables, `x` is not -/
example : ∃ t r, Transform.tryNew 100 ellBuildDef = .ok t ∧ t.rules = [r] ∧
    r.1.variables = [.sym ['x'], .sym ['a'], .sym ['b']] ∧
    r.1.isExpandedVariable (.sym ['a']) = true ∧ r.1.isExpandedVariable (.sym ['b']) = true ∧
    r.1.isExpandedVariable (.sym ['x']) = false := by
  obtain ⟨t, r, ht, hr, hte, htl, hexpr⟩ := ellBuildDef_accepted
  obtain ⟨s, hte', htl', hrules⟩ := Transform.tryNew_ok ht
  -- the setup `try_new` read off is the expected one
  have hs : s.ctx = ellBuildSetup.ctx := by
    rw [hte] at hte'
    rw [htl] at htl'
    obtain ⟨es, names, hne⟩ := s
    simp only [Setup.ell, Setup.lits, Datum.sym.injEq] at hte' htl'
    have hnames : ellBuildSetup.litNames = names :=
      (List.map_inj_right (fun a b hab => by simpa using hab)).1 htl'
    simp only [Setup.ctx, ← hte', ← hnames]
  obtain ⟨kw, body, hpb, hv, _, hx, _⟩ := ruleOK_build s (hrules r (by rw [hr]; simp))
  rw [hexpr] at hpb
  cases hpb
  rw [hs] at hv hx
  have hpv : patVars ellBuildSetup.ctx ellBuildBody = [['x'], ['a'], ['b']] := by decide
  have hev : ellVars ellBuildSetup.ctx ellBuildBody = [['a'], ['b']] := by decide
  rw [hpv] at hv
  refine ⟨t, r, ht, hr, hv, ?_, ?_, ?_⟩
  · rw [hx, hev]; decide
  · rw [hx, hev]; decide
  · rw [hx, hev]; decide

end Marwood.Transform
