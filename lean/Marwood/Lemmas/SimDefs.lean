import Marwood.Vm.ConcreteHeap
/-!
# Heap simulation: the relation (DESIGN §3.6, T03.5 / T13.3 / T07.4)

`Sim φ s t`: two states of the concrete machine are equal up to the partial injection `φ` on heap
addresses. `φ` is defined on every address either side can reach from its registers — this is not a
separate clause: every address-carrying value must be `AddrRel φ`-related, so whatever a related
cell mentions is again in the domain — and says nothing about other cells (garbage, free cells).
Address `≥ 2^63` (`usize::MAX` in `ep` / saved `EnvironmentPointer`s before the first call) is a
sentinel related only to itself; heaps are assumed to stay below that size where it matters (`SizeOk`).

Bytecode is related cell by cell **except** the cell that follows a `JMP`/`JNT` opcode, which must be
equal (it is an offset, and the repaired marker does not follow it).
-/
namespace Marwood.Lemmas.Sim
open Marwood Marwood.Vm Marwood.Vm.Concrete
open Marwood.Heap (GcState)

abbrev Inj := Nat → Option Nat

/-- pointwise relation of two lists (core Lean has no `All2`) -/
inductive All2 {α β : Type} (R : α → β → Prop) : List α → List β → Prop
  | nil : All2 R [] []
  | cons {a b l l'} : R a b → All2 R l l' → All2 R (a :: l) (b :: l')

theorem All2.length_eq {α β : Type} {R : α → β → Prop} {l l'} (h : All2 R l l') : l.length = l'.length := by
  induction h with
  | nil => rfl
  | cons _ _ ih => simp [ih]

def Inj.le (φ ψ : Inj) : Prop := ∀ a b, φ a = some b → ψ a = some b

def AddrRel (φ : Inj) (a b : Nat) : Prop := φ a = some b ∨ (a = b ∧ 2 ^ 63 ≤ a)

/-- values that mention no heap address -/
def addrFree : VCell → Bool
  | .pair _ _ | .closure _ _ | .lexEnvPtr _ _ | .envPtr _ | .instrPtr _ _ | .ptr _ => false
  | _ => true

inductive VRel (φ : Inj) : VCell → VCell → Prop
  | pair {a d a' d'} : AddrRel φ a a' → AddrRel φ d d' → VRel φ (.pair a d) (.pair a' d')
  | closure {l e l' e'} : AddrRel φ l l' → AddrRel φ e e' → VRel φ (.closure l e) (.closure l' e')
  | lexEnvPtr {e e' n} : AddrRel φ e e' → VRel φ (.lexEnvPtr e n) (.lexEnvPtr e' n)
  | envPtr {e e'} : AddrRel φ e e' → VRel φ (.envPtr e) (.envPtr e')
  | instrPtr {l l' o} : AddrRel φ l l' → VRel φ (.instrPtr l o) (.instrPtr l' o)
  | ptr {a a'} : AddrRel φ a a' → VRel φ (.ptr a) (.ptr a')
  | atom {v} : addrFree v = true → VRel φ v v

abbrev VsRel (φ : Inj) := All2 (VRel φ)

def isJumpOp : VCell → Bool
  | .opcode .jmp | .opcode .jnt => true
  | _ => false

/-- is the cell before position `i` a `JMP`/`JNT` opcode -/
def prevIsJump (bc : List VCell) : Nat → Bool
  | 0 => false
  | j+1 => match bc[j]? with
    | some c => isJumpOp c
    | none => false

def BcRel (φ : Inj) (bc bc' : List VCell) : Prop :=
  bc.length = bc'.length ∧
  ∀ i c c', bc[i]? = some c → bc'[i]? = some c' →
    (prevIsJump bc i = true → c = c') ∧ (prevIsJump bc i = false → VRel φ c c')

def StackRelK (φ : Inj) (K : Nat) (st st' : Stack) : Prop :=
  st.sp = st'.sp ∧ st.cells.length = st'.cells.length ∧
  ∀ i, i ≤ K → ∀ v v', st.cells[i]? = some v → st'.cells[i]? = some v' → VRel φ v v'

/-- live part of the stack: `stack[0..=sp]` (what `run_gc` marks) -/
def StackRel (φ : Inj) (st st' : Stack) : Prop := StackRelK φ st.sp st st'

structure ContRel (φ : Inj) (c c' : Cont) : Prop where
  stack : StackRel φ c.stack c'.stack
  full : c.stack.sp < c.stack.cells.length
  ep : AddrRel φ c.ep c'.ep
  ipL : AddrRel φ c.ipL c'.ipL
  ipO : c.ipO = c'.ipO
  bp : c.bp = c'.bp

def EnvmapRel (φ : Inj) : List (VCell × Source) → List (VCell × Source) → Prop :=
  All2 fun p q => VRel φ p.1 q.1 ∧ p.2 = q.2

inductive CellRel (φ : Inj) : CCell → CCell → Prop
  | val {v v'} : VRel φ v v' → CellRel φ (.val v) (.val v')
  | lexEnv {ss ss'} : VsRel φ ss ss' → CellRel φ (.lexEnv ss) (.lexEnv ss')
  | vector {es es'} : VsRel φ es es' → CellRel φ (.vector es) (.vector es')
  | lambda {l l'} : BcRel φ l.bc l'.bc → VsRel φ l.args l'.args → EnvmapRel φ l.envmap l'.envmap →
      CellRel φ (.lambda l) (.lambda l')
  | cont {c c'} : ContRel φ c c' → CellRel φ (.cont c) (.cont c')

/-- the part of `WFHeap` (Heap/Invariant.lean) the simulation needs of each heap -/
structure HInv (h : CHeap) : Prop where
  sizes : h.gc.size = h.cells.size
  shape : 0 < h.chunk ∧ h.chunk % 4 = 0 ∧ ∃ k, 0 < k ∧ h.cells.size = k * h.chunk
  free_iff : ∀ i : Nat, i ∈ h.free ↔ h.gc[i]? = some GcState.free
  nodup : h.free.Nodup
  no_used : ∀ i : Nat, h.gc[i]? ≠ some GcState.used

structure HeapSim (φ : Inj) (h h' : CHeap) : Prop where
  inj : ∀ a a' b, φ a = some b → φ a' = some b → a = a'
  cells : ∀ a b, φ a = some b → ∃ c c', h.cells[a]? = some c ∧ h'.cells[b]? = some c' ∧ CellRel φ c c' ∧
    a ∉ h.free ∧ b ∉ h'.free
  globals : VsRel φ h.globals.toList h'.globals.toList
  globSyms : All2 (AddrRel φ) h.globSyms h'.globSyms
  inv : HInv h
  inv' : HInv h'

structure Sim (φ : Inj) (s t : St CHeap) : Prop where
  heap : HeapSim φ s.heap t.heap
  stack : StackRel φ s.stack t.stack
  acc : VRel φ s.acc t.acc
  ep : AddrRel φ s.ep t.ep
  ipL : AddrRel φ s.ipL t.ipL
  ipO : s.ipO = t.ipO
  bp : s.bp = t.bp

/-- "memory is not exhausted": the heap is smaller than the sentinel addresses -/
def SizeOk (h : CHeap) : Prop := h.cells.size ≤ 2 ^ 63

/-! ## monotonicity in `φ` -/

theorem AddrRel.mono {φ ψ : Inj} (hle : φ.le ψ) {a b} (h : AddrRel φ a b) : AddrRel ψ a b := by
  rcases h with h | h
  · exact .inl (hle _ _ h)
  · exact .inr h

theorem VRel.mono {φ ψ : Inj} (hle : φ.le ψ) {v v'} (h : VRel φ v v') : VRel ψ v v' := by
  cases h with
  | pair h1 h2 => exact .pair (h1.mono hle) (h2.mono hle)
  | closure h1 h2 => exact .closure (h1.mono hle) (h2.mono hle)
  | lexEnvPtr h1 => exact .lexEnvPtr (h1.mono hle)
  | envPtr h1 => exact .envPtr (h1.mono hle)
  | instrPtr h1 => exact .instrPtr (h1.mono hle)
  | ptr h1 => exact .ptr (h1.mono hle)
  | atom h1 => exact .atom h1

theorem VsRel.mono {φ ψ : Inj} (hle : φ.le ψ) {l l'} (h : VsRel φ l l') : VsRel ψ l l' := by
  induction h with
  | nil => exact .nil
  | cons h1 _ ih => exact .cons (h1.mono hle) ih

theorem BcRel.mono {φ ψ : Inj} (hle : φ.le ψ) {l l'} (h : BcRel φ l l') : BcRel ψ l l' := by
  refine ⟨h.1, ?_⟩
  intro i c c' h1 h2
  obtain ⟨a, b⟩ := h.2 i c c' h1 h2
  exact ⟨a, fun hp => (b hp).mono hle⟩

theorem StackRelK.mono {φ ψ : Inj} (hle : φ.le ψ) {K st st'} (h : StackRelK φ K st st') :
    StackRelK ψ K st st' :=
  ⟨h.1, h.2.1, fun i hi v v' h1 h2 => (h.2.2 i hi v v' h1 h2).mono hle⟩

theorem StackRelK.weaken {φ : Inj} {K K' st st'} (h : StackRelK φ K st st') (hk : K' ≤ K) :
    StackRelK φ K' st st' :=
  ⟨h.1, h.2.1, fun i hi v v' h1 h2 => h.2.2 i (Nat.le_trans hi hk) v v' h1 h2⟩

theorem ContRel.mono {φ ψ : Inj} (hle : φ.le ψ) {c c'} (h : ContRel φ c c') : ContRel ψ c c' :=
  ⟨StackRelK.mono hle h.stack, h.full, h.ep.mono hle, h.ipL.mono hle, h.ipO, h.bp⟩

theorem EnvmapRel.mono {φ ψ : Inj} (hle : φ.le ψ) {l l'} (h : EnvmapRel φ l l') : EnvmapRel ψ l l' := by
  induction h with
  | nil => exact .nil
  | cons h1 _ ih => exact .cons ⟨h1.1.mono hle, h1.2⟩ ih

theorem CellRel.mono {φ ψ : Inj} (hle : φ.le ψ) {c c'} (h : CellRel φ c c') : CellRel ψ c c' := by
  cases h with
  | val h1 => exact .val (h1.mono hle)
  | lexEnv h1 => exact .lexEnv (VsRel.mono hle h1)
  | vector h1 => exact .vector (VsRel.mono hle h1)
  | lambda h1 h2 h3 => exact .lambda (h1.mono hle) (VsRel.mono hle h2) (EnvmapRel.mono hle h3)
  | cont h1 => exact .cont (h1.mono hle)

theorem Inj.le_refl (φ : Inj) : φ.le φ := fun _ _ h => h

theorem Inj.le_trans {φ ψ χ : Inj} (h1 : φ.le ψ) (h2 : ψ.le χ) : φ.le χ :=
  fun a b h => h2 a b (h1 a b h)

/-! ## basic facts -/

theorem VRel.addrFree_eq {φ : Inj} {v v'} (h : VRel φ v v') (hf : addrFree v = true) : v = v' := by
  cases h <;> first | rfl | simp [addrFree] at hf

theorem VRel.addrFree_eq' {φ : Inj} {v v'} (h : VRel φ v v') (hf : addrFree v' = true) : v = v' := by
  cases h <;> first | rfl | simp [addrFree] at hf

theorem VRel.refl_atom (φ : Inj) {v} (h : addrFree v = true) : VRel φ v v := .atom h

theorem VRel.isJumpOp_eq {φ : Inj} {v v'} (h : VRel φ v v') : isJumpOp v = isJumpOp v' := by
  cases h <;> rfl

theorem VsRel.length_eq {φ : Inj} {l l'} (h : VsRel φ l l') : l.length = l'.length :=
  All2.length_eq h

theorem VsRel.get {φ : Inj} {l l'} (h : VsRel φ l l') (i : Nat) :
    (l[i]? = none ∧ l'[i]? = none) ∨ ∃ v v', l[i]? = some v ∧ l'[i]? = some v' ∧ VRel φ v v' := by
  induction h generalizing i with
  | nil => left; simp
  | cons h1 _ ih =>
    cases i with
    | zero => right; exact ⟨_, _, rfl, rfl, h1⟩
    | succ i => simpa using ih i

theorem VsRel.set {φ : Inj} {l l'} (h : VsRel φ l l') (i : Nat) {v v'} (hv : VRel φ v v') :
    VsRel φ (l.set i v) (l'.set i v') := by
  induction h generalizing i with
  | nil => exact .nil
  | cons h1 h2 ih =>
    cases i with
    | zero => exact .cons hv h2
    | succ i => exact .cons h1 (ih i)

/-- the sentinel is outside both heaps -/
theorem AddrRel.lookup {φ : Inj} {h h' : CHeap} (hs : HeapSim φ h h') (ok : SizeOk h) (ok' : SizeOk h')
    {a b} (hab : AddrRel φ a b) :
    (h.cells[a]? = none ∧ h'.cells[b]? = none) ∨
    (φ a = some b ∧ ∃ c c', h.cells[a]? = some c ∧ h'.cells[b]? = some c' ∧ CellRel φ c c') := by
  rcases hab with h1 | ⟨rfl, h2⟩
  · obtain ⟨c, c', e1, e2, r, _⟩ := hs.cells a b h1
    exact .inr ⟨h1, c, c', e1, e2, r⟩
  · left
    unfold SizeOk at ok ok'
    exact ⟨Array.getElem?_eq_none (by omega), Array.getElem?_eq_none (by omega)⟩

end Marwood.Lemmas.Sim
