import Marwood.Lemmas.ConcreteLawsOps
import Marwood.Lemmas.SimGc
/-!
# `GcLaws` for the real collector

`cgc force` (`Vm/ConcreteHeap.lean`) runs the C03 model of `run_gc` (`Heap.runGc`, repaired marker) on the
erasure of the concrete heap and copies the result back. `cgc_gcLaws`: it satisfies `GcLaws` for the
concrete instance of `CodeLaws` — a theorem, from T03.2 (`runGc_spec`: every cell reachable from the roots
is allocated afterwards and keeps its content; every other cell in range is freed) and the description of
the free list the sweep and the growth leave (`collect_spec`, `grow_spec`):

* `frame` — registers and stack untouched (`cgc_regs`);
* `roots` — the lambda `ip.0` refers to and the lambdas of the saved `InstructionPointer`s on the live
  stack are roots (`run_gc` marks `ip.0` and `stack[0..=sp]`), hence kept with their bytecode;
* `inv` — a lambda cell that survives is unchanged and not on the new free list (which consists of freed
  cells, old free cells and fresh cells); a continuation cell that survives was reachable, and so were —
  one marking step further — the lambdas its saved `ip` and its stack copy refer to, so it is still the
  snapshot of a WF state.
-/
namespace Marwood.Vm.Concrete
open Marwood Marwood.Vm Marwood.Vm.Verify Marwood.Spec
open Marwood.Heap (GcState vrefs vrefsList crefs contRefs Roots)
open Marwood.Lemmas.GcSafety Marwood.Lemmas.GcMark Marwood.Lemmas.HeapOps Marwood.Lemmas.Sim
open Classical

variable {V : VCell → Prop}

/-- what is known about the heap a collection returns -/
structure Collected (h : CHeap) (refs : List Nat) (h' : Heap.Heap) : Prop where
  gs : GcSpec true (toHeap h) refs h'
  shape : Shape h'
  free : ∀ p, p ∈ h'.free →
    (h.gc[p]? = some GcState.allocated ∧ ¬ Reachable true (toHeap h) refs p) ∨ p ∈ h.free ∨ h.cells.size ≤ p

theorem toHeap_shape {h : CHeap} (inv : CInvG V h) : Shape (toHeap h) := by
  have := inv.shape
  simpa [toHeap, Shape] using this

theorem collected_of_run {h : CHeap} (inv : CInvG V h) {force : Bool} {r : Roots} {h' : Heap.Heap}
    (hrun : Heap.Heap.runGc true force (toHeap h) r = .ok (.collected h')) : Collected h (r.refs true) h' := by
  have hsz : (toHeap h).gc.size = (toHeap h).cells.size := by simp [toHeap, inv.sizes]
  have hnu : ∀ i : Nat, (toHeap h).gc[i]? ≠ some GcState.used := inv.noUsed
  have hs := toHeap_shape inv
  have gs := runGc_spec true force _ r h' hsz hnu hs hrun
  have hcs : (toHeap h).cells.size = h.cells.size := by simp [toHeap]
  rcases runGc_inv true force _ r _ hrun with h1 | ⟨h1, _⟩ | ⟨h1, h2, h'', he, hm, hsw, hg⟩
  · cases h1
  · cases h1
  · cases he
    obtain ⟨k1, k2, hm', hsw', cs⟩ := collect_spec true (toHeap h) (r.refs true) hsz hnu
    rw [hm] at hm'; cases hm'
    rw [hsw] at hsw'; cases hsw'
    have hfree2 : ∀ p, p ∈ h2.free →
        (h.gc[p]? = some GcState.allocated ∧ ¬ Reachable true (toHeap h) (r.refs true) p) ∨ p ∈ h.free := by
      intro p hp
      rw [cs.free, List.mem_append, List.mem_reverse, List.mem_filter] at hp
      rcases hp with ⟨_, hq⟩ | hq
      · left
        have := of_decide_eq_true hq
        exact this
      · exact .inr hq
    have hs2 : Shape h2 := by
      obtain ⟨a, b, k, hk, hk2⟩ := hs
      exact ⟨by rw [cs.chunk]; exact a, by rw [cs.chunk]; exact b, k, hk, by rw [cs.csize, cs.chunk]; exact hk2⟩
    rcases hg with hg | hg
    · subst hg
      refine ⟨gs, hs2, ?_⟩
      intro p hp
      rcases hfree2 p hp with q | q
      · exact .inl q
      · exact .inr (.inl q)
    · have hsz2 : h2.gc.size = h2.cells.size := by rw [cs.gcsize, cs.csize, hsz]
      obtain ⟨h3, hg3, gsp, hs3⟩ := grow_spec h2 hsz2 hs2
      rw [hg] at hg3; cases hg3
      refine ⟨gs, hs3, ?_⟩
      intro p hp
      rw [gsp.free, List.mem_append, List.mem_reverse, List.mem_range'_1] at hp
      rcases hp with q | q
      · right; right; rw [← hcs, ← cs.csize]; exact q.1
      · rcases hfree2 p q with q' | q'
        · exact .inl q'
        · exact .inr (.inl q')

theorem liftGc_cell (h : CHeap) (h' : Heap.Heap) (i : Nat) :
    (liftGc h h').cells[i]? =
      if i < h'.cells.size then
        some (if h'.gc[i]? = some GcState.free then CCell.val .undefined
              else (h.cells[i]?).getD (CCell.val .undefined))
      else none := by
  simp only [liftGc]
  rw [Array.getElem?_ofFn]
  split <;> rfl

/-- a code cell (lambda / continuation) of the collected heap was there before, and is not freed -/
theorem liftGc_code {h : CHeap} {h' : Heap.Heap} {i : Nat} {c : CCell}
    (hc : (liftGc h h').cells[i]? = some c) (hne : c ≠ CCell.val .undefined) :
    h.cells[i]? = some c ∧ h'.gc[i]? ≠ some GcState.free ∧ i < h'.cells.size := by
  rw [liftGc_cell] at hc
  split at hc
  · rename_i hlt
    split at hc
    · cases hc; exact absurd rfl hne
    · rename_i hnf
      cases hci : h.cells[i]? with
      | none => rw [hci] at hc; simp at hc; exact absurd hc.symm hne
      | some c0 => rw [hci] at hc; simp at hc; subst hc; exact ⟨rfl, hnf, hlt⟩
  · cases hc

/-- a reachable cell of the old heap is the same cell of the collected heap -/
theorem liftGc_reach {h : CHeap} (inv : CInvG V h) {refs : List Nat} {h' : Heap.Heap} (co : Collected h refs h')
    {x : Nat} (hx : Reachable true (toHeap h) refs x) : (liftGc h h').cells[x]? = h.cells[x]? := by
  have hga := co.gs.gc_reach x hx
  have hlt : x < h.cells.size := by
    have h1 : x < (toHeap h).gc.size := reach_lt _ hx
    have e : (toHeap h).gc.size = h.gc.size := rfl
    rw [e, inv.sizes] at h1; exact h1
  have hlt' : x < h'.cells.size := by
    have := co.gs.size_le
    have e2 : (toHeap h).cells.size = h.cells.size := by simp [toHeap]
    omega
  rw [liftGc_cell]
  simp only [hlt', if_true, hga]
  have : h.cells[x]? = some h.cells[x] := Array.getElem?_eq_getElem hlt
  rw [this]
  simp

theorem reachable_of_kept {h : CHeap} {refs : List Nat} {h' : Heap.Heap} (co : Collected h refs h') {x : Nat}
    (hlt : x < h'.cells.size) (hnf : h'.gc[x]? ≠ some GcState.free) : Reachable true (toHeap h) refs x := by
  exact Classical.byContradiction fun hn => hnf (co.gs.gc_unreach x hlt hn)

/-- a lambda that is reachable keeps its bytecode -/
theorem codeC_reach {h : CHeap} (inv : CInvG V h) {refs : List Nat} {h' : Heap.Heap} (co : Collected h refs h')
    {l : Nat} {bc : List VCell} (hc : codeC h l = some bc) (hx : Reachable true (toHeap h) refs l) :
    codeC (liftGc h h') l = some bc := by
  obtain ⟨lam, h1, h2⟩ := codeC_some hc
  have := liftGc_reach inv co hx
  rw [h1] at this
  rw [codeC_of_cell this, h2]

/-- the invariant survives a collection -/
theorem liftGc_inv {h : CHeap} (inv : CInvG V h) {refs : List Nat} {h' : Heap.Heap} (co : Collected h refs h') :
    CInvG V (liftGc h h') := by
  have hsize : (liftGc h h').cells.size = h'.cells.size := by simp [liftGc]
  have hcs : (toHeap h).cells.size = h.cells.size := by simp [toHeap]
  refine ⟨?_, ?_, ?_, ?_, ?_, ?_, ?_, ?_⟩
  · rw [hsize]; exact co.gs.sizes
  · obtain ⟨a, b, k, hk, hk2⟩ := co.shape
    have hc : h'.chunk = h.chunk := co.gs.chunk
    refine ⟨by show 0 < h.chunk; rw [← hc]; exact a, by show h.chunk % 4 = 0; rw [← hc]; exact b, k, hk, ?_⟩
    rw [hsize, hk2, hc]; rfl
  · intro i
    show h'.gc[i]? ≠ some GcState.used
    by_cases hlt : i < h'.cells.size
    · by_cases hr : Reachable true (toHeap h) refs i
      · rw [co.gs.gc_reach i hr]; simp
      · rw [co.gs.gc_unreach i hlt hr]; simp
    · rw [Array.getElem?_eq_none (by rw [co.gs.sizes]; omega)]; simp
  · intro l lam hl hm
    obtain ⟨hold, hnf, hlt⟩ := liftGc_code hl (by intro hh; cases hh)
    have hm' : l ∈ h'.free := hm
    rcases co.free l hm' with ⟨_, hnr⟩ | hq | hq
    · exact hnf (co.gs.gc_unreach l hlt hnr)
    · exact inv.lamFree l lam hold hq
    · have := lt_of_getElem? hold; omega
  · intro l lam hl
    obtain ⟨hold, _, _⟩ := liftGc_code hl (by intro hh; cases hh)
    exact inv.lamVer l lam hold
  · intro l lam hl
    obtain ⟨hold, _, _⟩ := liftGc_code hl (by intro hh; cases hh)
    exact inv.noIofArg l lam hold
  · intro l lam hl
    obtain ⟨hold, _, _⟩ := liftGc_code hl (by intro hh; cases hh)
    exact inv.lamArgs l lam hold
  · intro p c hc
    obtain ⟨hold, hnf, hlt⟩ := liftGc_code hc (by intro hh; cases hh)
    have hp : Reachable true (toHeap h) refs p := reachable_of_kept co hlt hnf
    obtain ⟨K, hk⟩ := inv.cont p c hold
    have hmono : ∀ l1 t, tyOf (codeC h) l1 = some t →
        (l1 = c.ipL ∨ ∃ i o1, i ≤ c.stack.sp ∧ c.stack.cellAt i = .instrPtr l1 o1) →
        tyOf (codeC (liftGc h h')) l1 = some t := ?_
    · refine ⟨K, hk.cap, hk.frames.mono_on hmono, ?_⟩
      intro t ht
      obtain ⟨t0, _, ht0, _⟩ := hk.frames.has_ty
      have := hmono _ _ ht0 (.inl rfl)
      rw [ht] at this
      have e : t = t0 := Option.some.inj this
      rw [e]
      exact hk.body t0 ht0
    intro l1 t ht hor
    -- `l1` is a child of the continuation cell `p`
    have hcode : ∃ bc, codeC h l1 = some bc := by
      unfold tyOf at ht
      cases hcd : codeC h l1 with
      | none => rw [hcd] at ht; cases ht
      | some bc => exact ⟨bc, rfl⟩
    obtain ⟨bc, hbc⟩ := hcode
    obtain ⟨lam, hcell, _⟩ := codeC_some hbc
    have hl1 : l1 < (toHeap h).gc.size := by
      have := lt_of_getElem? hcell
      show l1 < h.gc.size
      rw [inv.sizes]; exact this
    have hchild : l1 ∈ (toHeap h).children true p := by
      rw [toHeap_children, hold]
      show l1 ∈ contRefs true (c.stack.cells.map eraseV) c.ipL c.ep
      unfold contRefs
      rcases hor with rfl | ⟨i, o1, _, hf⟩
      · simp
      · refine List.mem_append_left _ (vrefsList_mem (c := .instrPtr l1 o1) ?_ (by simp [eraseV, vrefs]))
        unfold Stack.cellAt at hf
        cases hci : c.stack.cells[i]? with
        | none => rw [hci] at hf; cases hf
        | some v =>
          rw [hci] at hf
          simp at hf
          subst hf
          exact List.mem_of_getElem? hci
    have hr1 : Reachable true (toHeap h) refs l1 := Reach.step hp hchild hl1
    unfold tyOf at ht ⊢
    rw [hbc] at ht
    rw [codeC_reach inv co hbc hr1]
    exact ht

theorem cgc_cases (force : Bool) (s : St CHeap) :
    cgc force s = s ∨ ∃ h', Heap.Heap.runGc true force (toHeap s.heap) (rootsOf s) = .ok (.collected h') ∧
      cgc force s = { s with heap := liftGc s.heap h' } := by
  unfold cgc
  split
  · rename_i h' heq
    exact .inr ⟨h', heq, rfl⟩
  · exact .inl rfl

/-- the collector keeps a lambda that `ip.0` or a saved `InstructionPointer` on the live stack refers to -/
theorem cgc_roots (force : Bool) (s : St CHeap) (l : Nat) (bc : List VCell) (hi : CInvG V s.heap)
    (hc : codeC s.heap l = some bc)
    (hor : l = s.ipL ∨ ∃ i o, i ≤ s.stack.sp ∧ s.stack.cellAt i = .instrPtr l o) :
    codeC (cgc force s).heap l = some bc := by
    rcases cgc_cases force s with e | ⟨h', hrun, e⟩
    · rw [e]; exact hc
    · rw [e]
      have inv : CInvG V s.heap := hi
      have co := collected_of_run inv hrun
      refine codeC_reach inv co hc ?_
      obtain ⟨lam, hcell, _⟩ := codeC_some hc
      have hl : l < (toHeap s.heap).gc.size := by
        have := lt_of_getElem? hcell
        show l < s.heap.gc.size
        rw [inv.sizes]; exact this
      refine Reach.root ?_ hl
      rcases hor with rfl | ⟨i, o, hi', hf⟩
      · simp [Roots.refs, rootsOf]
      · refine mem_refs_stack ?_
        show l ∈ vrefsList true ((s.stack.cells.take (s.stack.sp + 1)).map eraseV)
        refine vrefsList_mem (c := .instrPtr l o) ?_ (by simp [eraseV, vrefs])
        unfold Stack.cellAt at hf
        cases hci : s.stack.cells[i]? with
        | none => rw [hci] at hf; cases hf
        | some v =>
          rw [hci] at hf
          simp at hf
          subst hf
          refine List.mem_of_getElem? (i := i) ?_
          rw [List.getElem?_take]
          simp [show i < s.stack.sp + 1 by omega, hci]

theorem cgc_inv (force : Bool) (s : St CHeap) (hi : CInvG V s.heap) : CInvG V (cgc force s).heap := by
  rcases cgc_cases force s with e | ⟨h', hrun, e⟩
  · rw [e]; exact hi
  · rw [e]; exact liftGc_inv hi (collected_of_run hi hrun)

/-- the collector keeps the callee object in `acc` when it designates the code `ip.0` points to: both are
    roots (`acc`, `ip.0`), marked cells survive with their content -/
theorem cgc_enterLam (force : Bool) (s : St CHeap) (hi : CInvG V s.heap) {ops : HeapOps CHeap}
    (hcal : ops.callee = gcallee) (h : enterLam ops s.heap s.acc = some s.ipL) :
    enterLam ops (cgc force s).heap s.acc = some s.ipL := by
  rcases cgc_cases force s with e | ⟨h', hrun, e⟩
  · rw [e]; exact h
  · rw [e]
    have co := collected_of_run hi hrun
    show enterLam ops (liftGc s.heap h') s.acc = some s.ipL
    unfold enterLam at h ⊢
    rw [hcal] at h ⊢
    -- a reachable cell is the same cell afterwards
    have hroot : ∀ p c, s.heap.cells[p]? = some c → p ∈ (rootsOf s).refs true →
        (liftGc s.heap h').cells[p]? = some c := by
      intro p c hc hm
      have hl : p < (toHeap s.heap).gc.size := by
        have := lt_of_getElem? hc
        show p < s.heap.gc.size
        rw [hi.sizes]; exact this
      rw [liftGc_reach hi co (Reach.root hm hl)]; exact hc
    have hproc : ∀ l, procAt s.heap l = true → l = s.ipL → procAt (liftGc s.heap h') l = true := by
      intro l hp hl
      unfold procAt at hp ⊢
      cases hla : lambdaAt s.heap l with
      | none => rw [hla] at hp; cases hp
      | some lam =>
        rw [hla] at hp
        have := hroot l _ (lambdaAt_iff.mp hla) (by subst hl; simp [Roots.refs, rootsOf])
        rw [lambdaAt_iff.mpr this]; exact hp
    cases hacc : s.acc with
    | ptr p =>
      rw [hacc] at h
      cases hcell : s.heap.cells[p]? with
      | none => simp [gcallee, callee, hcell] at h
      | some c =>
        have hm : p ∈ (rootsOf s).refs true := mem_refs_acc (by simp [rootsOf, hacc, eraseV, vrefs])
        have hc2 := hroot p c hcell hm
        have hcal2 : callee (liftGc s.heap h') (.ptr p) = callee s.heap (.ptr p) := by
          simp only [callee, hcell, hc2]
        unfold gcallee at h ⊢
        rw [hcal2]
        cases hcc : callee s.heap (.ptr p) with
        | closure lam env =>
          rw [hcc] at h
          simp only at h ⊢
          by_cases hp : procAt s.heap lam = true
          · simp only [hp, if_true] at h
            have hl : lam = s.ipL := by simpa using h
            simp only [hproc lam hp hl, if_true]
            exact h
          · simp [hp] at h
        | lambda =>
          rw [hcc] at h
          simp only at h ⊢
          by_cases hp : procAt s.heap p = true
          · simp only [hp, if_true] at h
            have hl : p = s.ipL := by simpa using h
            simp only [hproc p hp hl, if_true]
            exact h
          · simp [hp] at h
        | builtin id => rw [hcc] at h; simp at h
        | continuation c' => rw [hcc] at h; simp at h
        | other => rw [hcc] at h; simp at h
    | closure lam env =>
      rw [hacc] at h
      have hcal2 : ∀ hh : CHeap, callee hh (.closure lam env) = .closure lam env := fun _ => rfl
      unfold gcallee at h ⊢
      rw [hcal2] at h ⊢
      simp only at h ⊢
      by_cases hp : procAt s.heap lam = true
      · simp only [hp, if_true] at h
        have hl : lam = s.ipL := by simpa using h
        simp only [hproc lam hp hl, if_true]
        exact h
      · simp [hp] at h
    | builtin id => rw [hacc] at h; simp [gcallee, callee] at h
    | _ => rw [hacc] at h; simp [gcallee, callee] at h

/-- **`GcLaws` for the real collector, as a theorem.** -/
theorem cgc_gcLaws (ext : ExtOps) (ecl : ExtCodeLaws ext) (force : Bool) :
    GcLaws (concreteLaws ext ecl) (cgc force) where
  frame := fun s => by
    obtain ⟨g1, _, _, g4, g5, g6⟩ := cgc_regs force s
    exact ⟨g1, g4, g5, g6⟩
  acc := fun s => (cgc_regs force s).2.1
  callee := fun s hi h => cgc_enterLam force s (V := fun _ => True) hi rfl h
  inv := fun s hi => by
    rcases cgc_cases force s with e | ⟨h', hrun, e⟩
    · rw [e]; exact hi
    · rw [e]; exact liftGc_inv hi (collected_of_run hi hrun)
  roots := fun s l bc hi hc hor => by
    rcases cgc_cases force s with e | ⟨h', hrun, e⟩
    · rw [e]; exact hc
    · rw [e]
      have inv : CInv s.heap := hi
      have co := collected_of_run inv hrun
      refine codeC_reach inv co hc ?_
      obtain ⟨lam, hcell, _⟩ := codeC_some hc
      have hl : l < (toHeap s.heap).gc.size := by
        have := lt_of_getElem? hcell
        show l < s.heap.gc.size
        rw [inv.sizes]; exact this
      refine Reach.root ?_ hl
      rcases hor with rfl | ⟨i, o, hi', hf⟩
      · simp [Roots.refs, rootsOf]
      · refine mem_refs_stack ?_
        show l ∈ vrefsList true ((s.stack.cells.take (s.stack.sp + 1)).map eraseV)
        refine vrefsList_mem (c := .instrPtr l o) ?_ (by simp [eraseV, vrefs])
        unfold Stack.cellAt at hf
        cases hci : s.stack.cells[i]? with
        | none => rw [hci] at hf; cases hf
        | some v =>
          rw [hci] at hf
          simp at hf
          subst hf
          refine List.mem_of_getElem? (i := i) ?_
          rw [List.getElem?_take]
          simp [show i < s.stack.sp + 1 by omega, hci]

end Marwood.Vm.Concrete
