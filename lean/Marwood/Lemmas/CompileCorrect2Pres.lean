import Marwood.Lemmas.CompileCorrect2Defs
/-!
# T01.3 stage 2 — what the representation keeps while heap, store and world grow
-/
namespace Marwood.Lemmas.CompileCorrect2
open Marwood Marwood.Vm Marwood.Lemmas.CompileCorrect
open Marwood.Spec.Eval (Val Prim Cell Env)

variable {H : Type} {ops : HeapOps H} {D : RepData2 ops}

theorem World.le_refl (W : World) : W.le W := fun _ _ _ h => h
theorem World.le_trans {a b c : World} (h1 : a.le b) (h2 : b.le c) : a.le c := fun e n l h => h2 e n l (h1 e n l h)

theorem StoreExt.refl (S : Array Cell) : StoreExt S S :=
  ⟨Nat.le_refl _, fun _ _ h _ => h, fun _ v h => ⟨v, h⟩⟩

theorem StoreExt.trans {a b c : Array Cell} (h1 : StoreExt a b) (h2 : StoreExt b c) : StoreExt a c := by
  refine ⟨Nat.le_trans h1.size h2.size, fun l x hx hn => h2.keep l x (h1.keep l x hx hn) hn, fun l v hv => ?_⟩
  obtain ⟨v', hv'⟩ := h1.var l v hv
  exact h2.var l v' hv'

/-- overwriting a variable -/
theorem StoreExt.setVar (S : Array Cell) (l : Nat) (v : Val) (old : Val) (h : S[l]? = some (.var old)) :
    StoreExt S (S.setIfInBounds l (.var v)) := by
  have hlt : l < S.size := by
    rcases Nat.lt_or_ge l S.size with h1 | h1
    · exact h1
    · simp [Array.getElem?_eq_none h1] at h
  refine ⟨by simp, fun m c hc hn => ?_, fun m u hu => ?_⟩
  · by_cases hm : l = m
    · subst hm; rw [h] at hc; cases hc; exact absurd rfl (hn old)
    · simp [Array.getElem?_setIfInBounds, hm, hc]
  · by_cases hm : l = m
    · subst hm; exact ⟨v, by simp [Array.getElem?_setIfInBounds, hlt]⟩
    · exact ⟨u, by simp [Array.getElem?_setIfInBounds, hm, hu]⟩

/-- a store that agrees with `S` on the old cells -/
theorem StoreExt.ofPrefix {S S' : Array Cell} (hs : S.size ≤ S'.size)
    (h : ∀ l, l < S.size → S'[l]? = S[l]?) : StoreExt S S' := by
  have lt : ∀ (l : Nat) (c : Cell), S[l]? = some c → l < S.size := by
    intro l c hc
    rcases Nat.lt_or_ge l S.size with h1 | h1
    · exact h1
    · simp [Array.getElem?_eq_none h1] at hc
  exact ⟨hs, fun l c hc _ => by rw [h l (lt l c hc)]; exact hc, fun l v hv => ⟨v, by rw [h l (lt l _ hv)]; exact hv⟩⟩

theorem Ext2.refl (L : Laws2 D) (h : H) (S : Array Cell) : Ext2 D h S h S :=
  have _ := L
  ⟨StoreExt.refl _, fun _ _ x => x, fun _ _ x => x, fun _ x => ⟨x, fun _ => rfl, rfl, rfl⟩, fun _ _ _ x => x,
   fun _ x => x, fun _ _ _ _ x => x, fun _ _ v x y => ⟨v, x, y⟩⟩

theorem Ext2.trans {h1 h2 h3 : H} {S1 S2 S3 : Array Cell} (a : Ext2 D h1 S1 h2 S2) (b : Ext2 D h2 S2 h3 S3) :
    Ext2 D h1 S1 h3 S3 := by
  refine ⟨a.store.trans b.store, fun v w x => b.vr v w (a.vr v w x), fun v d x => b.datum v d (a.datum v d x),
    fun l hl => ?_,
    fun v l e x => b.clos v l e (a.clos v l e x), fun e x => b.envOK e (a.envOK e x),
    fun e k p q x => b.envPtr e k p q (a.envPtr e k p q x),
    fun e k v x y => ?_⟩
  · obtain ⟨a1, a2, a3, a4⟩ := a.code l hl
    obtain ⟨b1, b2, b3, b4⟩ := b.code l a1
    exact ⟨b1, fun o => (b2 o).trans (a2 o), b3.trans a3, b4.trans a4⟩
  · obtain ⟨v', x', y'⟩ := a.envVal e k v x y
    exact b.envVal e k v' x' y'

/-- a slot that exists still exists -/
theorem Ext2.envSome {h h' : H} {S S' : Array Cell} (x : Ext2 D h S h' S') {e k : Nat} {g : VCell}
    (hg : ops.envGet h e k = some g) : ∃ g', ops.envGet h' e k = some g' := by
  cases hp : isEnvPtr g with
  | true =>
    cases g <;> simp [isEnvPtr] at hp
    exact ⟨_, x.envPtr _ _ _ _ hg⟩
  | false =>
    obtain ⟨v', h1, _⟩ := x.envVal e k g hg hp
    exact ⟨v', h1⟩

theorem Denotes.ext {h h' : H} {S S' : Array Cell} (x : Ext2 D h S h' S') {ep j e n : Nat}
    (hd : Denotes ops h ep j e n) : Denotes ops h' ep j e n := by
  rcases hd with hp | ⟨rfl, rfl, v, hv, hnp⟩
  · exact .inl (x.envPtr _ _ _ _ hp)
  · obtain ⟨v', h1, h2⟩ := x.envVal _ _ v hv hnp
    exact .inr ⟨rfl, rfl, v', h1, h2⟩

theorem EnvRep.ext {W W' : World} {h h' : H} {S S' : Array Cell} {c : Ctx} {ep : Nat} {ρ : Env}
    (r : EnvRep ops W h c ep ρ) (x : Ext2 D h S h' S') (hw : W.le W') : EnvRep ops W' h' c ep ρ := by
  intro y j hj
  obtain ⟨e, n, l, hd, hl, hW⟩ := r y j hj
  exact ⟨e, n, l, hd.ext x, hl, hw _ _ _ hW⟩

theorem ClosOK.mono {W W' : World} {h h' : H} {S S' : Array Cell} {lam cenv : Nat} {ps : List Text}
    {body : List Datum} {ρc : Env} (c : ClosOK D W h lam cenv ps body ρc) (x : Ext2 D h S h' S')
    (hw : W.le W') : ClosOK D W' h' lam cenv ps body ρc := by
  obtain ⟨f, cst, cst1, co, formals, bodyD, p, bcode, caps, a1, a2, a3, a4, a5, a6, a7, a8, a9, a10, a11, a12, a13,
    a14, a15, a16, a17, a18⟩ := c
  obtain ⟨b1, _, _, b4⟩ := x.code lam a11
  refine ⟨f, cst, cst1, co, formals, bodyD, p, bcode, caps, a1, a2, a3, a4, a5, a6, a7, a8, a9, a10, b1, a12,
    b4.trans a13, a14, a15, ?_, ?_, x.envOK _ a18⟩
  · intro j hj
    obtain ⟨g, hg⟩ := a16 j hj
    exact x.envSome hg
  · intro j y hj hy
    obtain ⟨e, n, l, h1, h2, h3⟩ := a17 j y hj hy
    exact ⟨e, n, l, x.envPtr _ _ _ _ h1, h2, hw _ _ _ h3⟩

theorem VR2.mono {W W' : World} {h h' : H} {S S' : Array Cell} {v : VCell} {w : Val}
    (r : VR2 D W h S v w) (x : Ext2 D h S h' S') (hw : W.le W') : VR2 D W' h' S' v w := by
  cases w with
  | closure ps rest body ρc =>
    obtain ⟨hr, lam, cenv, hc, hok⟩ := r
    exact ⟨hr, lam, cenv, x.clos _ _ _ hc, hok.mono x hw⟩
  | _ => exact x.vr _ _ r

theorem All2.vr2_mono {W W' : World} {h h' : H} {S S' : Array Cell} {vs : List VCell} {ws : List Val}
    (r : All2 (VR2 D W h S) vs ws) (x : Ext2 D h S h' S') (hw : W.le W') : All2 (VR2 D W' h' S') vs ws :=
  All2.mono (fun _ _ y => VR2.mono y x hw) r

theorem Loads2.ext {em : List (Text × Source)} {h h' : H} {S S' : Array Cell} (x : Ext2 D h S h' S')
    {bc : BC} {v : VCell} (l : Loads2 D em h S bc v) : Loads2 D em h' S' bc v := by
  cases bc with
  | datum d => exact ⟨l.1, x.datum _ _ l.2⟩
  | lambda id =>
    refine ⟨l.1, fun lamM hl => ?_⟩
    obtain ⟨a1, a2⟩ := l.2 lamM hl
    obtain ⟨b1, _, _, b4⟩ := x.code _ a1
    exact ⟨b1, b4.trans a2⟩
  | _ => exact l

theorem CodeAt2.ext {em : List (Text × Source)} {h h' : H} {S S' : Array Cell} {l base : Nat} {code : List BC}
    (hc : CodeAt2 D em h S l base code) (x : Ext2 D h S h' S') : CodeAt2 D em h' S' l base code := by
  obtain ⟨b1, b2, _, _⟩ := x.code l hc.1
  refine ⟨b1, fun i bc hi => ?_⟩
  obtain ⟨v, hf, hl⟩ := hc.2 i bc hi
  exact ⟨v, by rw [b2]; exact hf, hl.ext x⟩

theorem AllLoaded.ext {h h' : H} {S S' : Array Cell} (a : AllLoaded D h S) (x : Ext2 D h S h' S') :
    AllLoaded D h' S' := by
  intro id lamM hid
  obtain ⟨hc, hi⟩ := a id lamM hid
  obtain ⟨_, _, b3, _⟩ := x.code _ hc.1
  exact ⟨hc.ext x, b3.trans hi⟩

/-- the invariant after a step that touches neither the globals nor any related location -/
theorem Inv2.frame {W : World} {h h' : H} {σ σ' : SSt} (i : Inv2 D W h σ)
    (x : Ext2 D h σ.store h' σ'.store) (hx : D.SRx h' σ'.store) (hg : σ'.globals = σ.globals)
    (hgg : ∀ m, ops.globGet h' m = ops.globGet h m)
    (hloc : ∀ e n l, W e n l → ops.envGet h' e n = ops.envGet h e n ∧ σ'.store[l]? = σ.store[l]?) :
    Inv2 D W h' σ' := by
  refine ⟨fun y w hn hl => ?_, fun y hn hl => ?_, hx, fun y hy => hg ▸ i.gset y hy, i.loaded.ext x, i.wfun, i.winj,
    fun e n l hW => ?_⟩
  · rw [hgg]; exact (i.bound y w hn (hg ▸ hl)).mono x (World.le_refl _)
  · rw [hgg]; exact i.unbound y hn (hg ▸ hl)
  · obtain ⟨v, w, h1, h2, h3, h4⟩ := i.vars e n l hW
    obtain ⟨e1, e2⟩ := hloc e n l hW
    exact ⟨v, w, e1 ▸ h1, h2, e2 ▸ h3, h4.mono x (World.le_refl _)⟩

/-! ## pieces of loaded code -/

theorem CodeAt2.left {em : List (Text × Source)} {l base : Nat} {h : H} {S : Array Cell} {a b : List BC}
    (hc : CodeAt2 D em h S l base (a ++ b)) : CodeAt2 D em h S l base a := by
  refine ⟨hc.1, fun i bc hi => hc.2 i bc ?_⟩
  have hlt : i < a.length := by
    rcases Nat.lt_or_ge i a.length with h1 | h1
    · exact h1
    · rw [List.getElem?_eq_none h1] at hi; cases hi
  rw [List.getElem?_append_left hlt]; exact hi

theorem CodeAt2.right {em : List (Text × Source)} {l base : Nat} {h : H} {S : Array Cell} {a b : List BC}
    (hc : CodeAt2 D em h S l base (a ++ b)) : CodeAt2 D em h S l (base + a.length) b := by
  refine ⟨hc.1, fun i bc hi => ?_⟩
  have := hc.2 (a.length + i) bc (by rw [List.getElem?_append_right (by omega)]; simpa using hi)
  rwa [← Nat.add_assoc] at this

theorem CodeAt2.cast {em : List (Text × Source)} {l base base' : Nat} {h : H} {S : Array Cell} {code : List BC}
    (hc : CodeAt2 D em h S l base code) (e : base = base') : CodeAt2 D em h S l base' code := e ▸ hc

theorem CodeAt2.op {em : List (Text × Source)} {l base : Nat} {h : H} {S : Array Cell} {code : List BC}
    (hc : CodeAt2 D em h S l base code) (i : Nat) {o : Op} (hi : code[i]? = some (.op o)) :
    ops.fetch h l (base + i) = some (.opcode o) := by
  obtain ⟨v, hf, hl⟩ := hc.2 i _ hi
  cases (show v = .opcode o from hl); exact hf

theorem CodeAt2.accCell {em : List (Text × Source)} {l base : Nat} {h : H} {S : Array Cell} {code : List BC}
    (hc : CodeAt2 D em h S l base code) (i : Nat) (hi : code[i]? = some .acc) :
    ops.fetch h l (base + i) = some .acc := by
  obtain ⟨v, hf, hl⟩ := hc.2 i _ hi
  cases (show v = .acc from hl); exact hf

theorem CodeAt2.globalCell {em : List (Text × Source)} {l base : Nat} {h : H} {S : Array Cell} {code : List BC}
    (hc : CodeAt2 D em h S l base code) (i : Nat) {x : Text} (hi : code[i]? = some (.global x)) :
    D.named x ∧ ops.fetch h l (base + i) = some (.globSlot (D.slot x)) := by
  obtain ⟨v, hf, hl⟩ := hc.2 i _ hi
  obtain ⟨hn, hv⟩ := (show D.named x ∧ v = .globSlot (D.slot x) from hl)
  cases hv; exact ⟨hn, hf⟩

theorem CodeAt2.envCell {em : List (Text × Source)} {l base : Nat} {h : H} {S : Array Cell} {code : List BC}
    (hc : CodeAt2 D em h S l base code) (i : Nat) {x : Text} (hi : code[i]? = some (.envSlot x)) :
    ∃ j, slotIdx em x = some j ∧ ops.fetch h l (base + i) = some (.lexEnvSlot j) := by
  obtain ⟨v, hf, hl⟩ := hc.2 i _ hi
  obtain ⟨j, hj, hv⟩ := (show ∃ j, slotIdx em x = some j ∧ v = .lexEnvSlot j from hl)
  cases hv; exact ⟨j, hj, hf⟩

theorem CodeAt2.argcCell {em : List (Text × Source)} {l base : Nat} {h : H} {S : Array Cell} {code : List BC}
    (hc : CodeAt2 D em h S l base code) (i : Nat) {n : Nat} (hi : code[i]? = some (.argc n)) :
    ops.fetch h l (base + i) = some (.argc n) := by
  obtain ⟨v, hf, hl⟩ := hc.2 i _ hi
  cases (show v = .argc n from hl); exact hf

theorem CodeAt2.targetCell {em : List (Text × Source)} {l base : Nat} {h : H} {S : Array Cell} {code : List BC}
    (hc : CodeAt2 D em h S l base code) (i : Nat) {n : Nat} (hi : code[i]? = some (.target n)) :
    ops.fetch h l (base + i) = some (.ptr n) := by
  obtain ⟨v, hf, hl⟩ := hc.2 i _ hi
  cases (show v = .ptr n from hl); exact hf

theorem CodeAt2.voidCell {em : List (Text × Source)} {l base : Nat} {h : H} {S : Array Cell} {code : List BC}
    (hc : CodeAt2 D em h S l base code) (i : Nat) (hi : code[i]? = some .void) :
    ops.fetch h l (base + i) = some .void := by
  obtain ⟨v, hf, hl⟩ := hc.2 i _ hi
  cases (show v = .void from hl); exact hf

theorem CodeAt2.lambdaCell {em : List (Text × Source)} {l base : Nat} {h : H} {S : Array Cell} {code : List BC}
    (hc : CodeAt2 D em h S l base code) (i : Nat) {id : Nat} (hi : code[i]? = some (.lambda id)) :
    ops.fetch h l (base + i) = some (.ptr (D.LM id)) ∧ ∀ lamM, D.final[id]? = some lamM →
      ops.isLambda h (D.LM id) = true ∧ D.lamSrcs h (D.LM id) = some (lamM.envmap.map (rsrc em)) := by
  obtain ⟨v, hf, hl⟩ := hc.2 i _ hi
  obtain ⟨hv, h2⟩ := (show v = .ptr (D.LM id) ∧ _ from hl)
  cases hv; exact ⟨hf, h2⟩

end Marwood.Lemmas.CompileCorrect2
