import Marwood.Lemmas.EnvRefineTop
/-!
# T02.2, second half: a pointer leads to the activation environment of the binder

In the simulation relation every frame of a scope chain is the image of one activation environment
(`ChainOK`; established by `sim_enter` at the ENTER that creates frame and environment together and
never changed afterwards). Hence the slot a compiled reference uses — directly or through a
`LexicalEnvPtr` — denotes slot `i` of the environment ENTER created for the activation whose frame
`resolve` stops at, `i` being the position of the binding in that frame.
-/
namespace Marwood.Vm.EnvRefine
open Marwood Marwood.Scope Marwood.Vm.Env Marwood.Spec.Scope

theorem find?_position (x : Name) (fr : Frame) (l : Loc) (h : fr.find? x = some l) :
    ∃ i : Nat, fr[i]? = some (x, l) := by
  induction fr with
  | nil => simp [Frame.find?] at h
  | cons p fr ih =>
    obtain ⟨y, l'⟩ := p
    simp only [Frame.find?] at h
    split at h
    · next hy => cases h; subst hy; exact ⟨0, rfl⟩
    · obtain ⟨i, hi⟩ := ih h
      exact ⟨i + 1, by simpa using hi⟩

/-- `resolve` stops at frame number `resolveLevel`, at some position of that frame -/
theorem resolve_position (x : Name) (ρ : Chain) (l : Loc) (h : resolve x ρ = some l) :
    ∃ (j : Nat) (fr : Frame) (i : Nat), resolveLevel x ρ = some j ∧ ρ[j]? = some fr ∧ fr[i]? = some (x, l) ∧
      fr.find? x = some l := by
  induction ρ with
  | nil => simp [resolve] at h
  | cons fr ρ ih =>
    simp only [resolve] at h
    cases hf : fr.find? x with
    | some l' =>
      simp only [hf, Option.some.injEq] at h
      subst h
      obtain ⟨i, hi⟩ := find?_position x fr l' hf
      exact ⟨0, fr, i, by simp [resolveLevel, hf], rfl, hi, hf⟩
    | none =>
      simp only [hf] at h
      obtain ⟨j, fr', i, h1, h2, h3, h4⟩ := ih h
      exact ⟨j + 1, fr', i, by simp [resolveLevel, hf, h1], by simpa using h2, h3, h4⟩

theorem ChainOK.get {β : LocMap} : ∀ (ρ : Chain) (acts : List Nat), ChainOK β ρ acts → ∀ (j : Nat) (fr : Frame),
    ρ[j]? = some fr → ∃ a, acts[j]? = some a ∧ ∀ i x l, fr[i]? = some (x, l) → β l = some (a, i)
  | [], _, _, j, fr, h => by simp at h
  | _ :: _, [], c, _, _, _ => c.elim
  | fr0 :: ρ, a :: acts, c, j, fr, h => by
    cases j with
    | zero => simp at h; subst h; exact ⟨a, rfl, c.1⟩
    | succ j =>
      obtain ⟨a', h1, h2⟩ := ChainOK.get ρ acts c.2 j fr (by simpa using h)
      exact ⟨a', by simpa using h1, h2⟩

/-- **T02.2, second half, for a running activation.** The operand the compiler model emits for `x`
    (slot `s` of the current environment `ae`) denotes slot `i` of environment `e`, where `e` is the
    environment ENTER created for the activation whose frame is the one `resolve` stops at
    (`acts[j]`, `j = resolveLevel x ρ`) and `i` is the position of the binding of `x` in that frame. -/
theorem ActRel.binder_activation {β : LocMap} {h : Envs MVal} {N ctx ep ρ acts}
    (a : ActRel β h N ctx ep ρ acts) (x : Name) (s : Nat) (hs : slotOf ctx.envmap x = some s) :
    ∃ (ae j : Nat) (fr : Frame) (i : Nat) (l : Loc) (e : Nat), ep = some ae ∧ resolveLevel x ρ = some j ∧ ρ[j]? = some fr ∧ fr[i]? = some (x, l) ∧
      fr.find? x = some l ∧ acts[j]? = some e ∧ target h ae s = .ok (e, i) := by
  obtain ⟨ae, l, e, i, h1, h2, h3, h4⟩ := a.res x s hs
  obtain ⟨j, fr, i', k1, k2, k3, k4⟩ := resolve_position x ρ l h2
  obtain ⟨e', k5, k6⟩ := a.chain.get ρ acts j fr k2
  have := k6 i' x l k3
  rw [h4] at this
  cases this
  exact ⟨ae, j, fr, i, l, e, h1, k1, k2, k3, k4, k5, h3⟩

/-- **T02.2, second half, for a closure.** Every captured entry of a closure environment is a
    `LexicalEnvPtr(e, i)` whose `e` is the activation environment of the frame that binds the name. -/
theorem CloFacts.binder_activation {β : LocMap} {h : Envs MVal} {fvs octx ctx cenv ρ acts carr}
    (c : CloFacts β h fvs octx ctx cenv ρ acts carr) (s : Nat) (x : Name) (k : Nat)
    (he : ctx.envmap[s]? = some (x, Source.iofEnv k)) :
    ∃ (j : Nat) (fr : Frame) (i : Nat) (l : Loc) (e : Nat), resolveLevel x ρ = some j ∧ ρ[j]? = some fr ∧
      fr[i]? = some (x, l) ∧ fr.find? x = some l ∧
      acts[j]? = some e ∧ carr[s]? = some (Slot.ptr e i) := by
  obtain ⟨l, e, i, h1, h2, h3⟩ := c.ptrs s x k he
  obtain ⟨j, fr, i', k1, k2, k3, k4⟩ := resolve_position x ρ l h1
  obtain ⟨e', k5, k6⟩ := c.chain.get ρ acts j fr k2
  have := k6 i' x l k3
  rw [h2] at this
  cases this
  exact ⟨j, fr, i, l, e, k1, k2, k3, k4, k5, h3⟩

end Marwood.Vm.EnvRefine
