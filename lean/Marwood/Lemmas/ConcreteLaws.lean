import Marwood.Vm.ConcreteHeap
import Marwood.Lemmas.StackWFRun
/-!
# `CodeLaws` for the concrete heap: the invariant, and what the allocator does to code objects

`concreteOps ext : HeapOps CHeap` (`Vm/ConcreteHeap.lean`) instantiates the machine's heap interface over
the C03 heap model; lambdas are heap cells holding their bytecode. This file defines

* `codeC h l` — the ghost `code` of `CodeLaws`: the bytecode stored in lambda cell `l`;
* `CInv h` — the ghost invariant `HInv`: **every lambda cell of `h` passes the bytecode verifier**
  (`lamVer`) and is not on the free list (`lamFree`: an allocation cannot overwrite it), every
  continuation cell holds the snapshot of a WF-stack state (`cont`), plus the three size facts about the
  2-bit map the collector's specification needs (`sizes`, `shape`, `noUsed`);
* `Grows P h h'` — "`h'` is a later heap": same lambda cells with the same content, no new ones, new
  continuation cells only from `P`, the free list only shrinks or gets fresh addresses;

and proves `Grows` for the allocator primitives (`takeFree`, `cgrow`, `calloc`, `cwrite` of a non-code
cell, `cput`). `Lemmas/ConcreteLawsOps.lean` lifts this to the heap operations of `run_one`.
-/
namespace Marwood.Vm.Concrete
open Marwood Marwood.Vm Marwood.Vm.Verify
open Marwood.Heap (GcState)

/-- the bytecode stored in lambda cell `l` -/
def codeC (h : CHeap) (l : Nat) : Option (List VCell) := (lambdaAt h l).map (·.bc)

theorem lambdaAt_iff {h : CHeap} {l : Nat} {lam : CLambda} :
    lambdaAt h l = some lam ↔ h.cells[l]? = some (CCell.lambda lam) := by
  unfold lambdaAt
  constructor
  · intro hh
    split at hh
    · rename_i lam' heq; cases hh; exact heq
    · cases hh
  · intro hh; rw [hh]

theorem codeC_some {h : CHeap} {l : Nat} {bc : List VCell} (hc : codeC h l = some bc) :
    ∃ lam, h.cells[l]? = some (CCell.lambda lam) ∧ lam.bc = bc := by
  unfold codeC at hc
  cases hl : lambdaAt h l with
  | none => rw [hl] at hc; cases hc
  | some lam =>
    rw [hl] at hc
    exact ⟨lam, lambdaAt_iff.mp hl, by simpa using hc⟩

theorem codeC_of_cell {h : CHeap} {l : Nat} {lam : CLambda} (hc : h.cells[l]? = some (CCell.lambda lam)) :
    codeC h l = some lam.bc := by
  unfold codeC; rw [lambdaAt_iff.mpr hc]; rfl

/-- **The invariant of concrete heaps** (`CodeLaws.HInv`). The semantic content is `lamVer`: every lambda
    cell passes `verifyLam` — what the `bytecode-verifier` stream checks on every lambda object of the
    real heap on every run. -/
structure CInvG (V : VCell → Prop) (h : CHeap) : Prop where
  sizes : h.gc.size = h.cells.size
  shape : 0 < h.chunk ∧ h.chunk % 4 = 0 ∧ ∃ k, 0 < k ∧ h.cells.size = k * h.chunk
  noUsed : ∀ i : Nat, h.gc[i]? ≠ some GcState.used
  lamFree : ∀ (l : Nat) (lam : CLambda), h.cells[l]? = some (CCell.lambda lam) → l ∉ h.free
  lamVer : ∀ (l : Nat) (lam : CLambda), h.cells[l]? = some (CCell.lambda lam) → (verifyLam lam.bc).isSome = true
  /-- no environment map has an `IofArgument` source: `EnvironmentMap::new_from_iof` looks a free symbol up in
      the enclosing lambda's environment map first, which contains every formal, so the `IofArgument` arm is
      never taken (checked on every real lambda by the `bytecode-verifier` stream). CLOSURE's
      `build_closure_environment` therefore never reads the stack. -/
  noIofArg : ∀ (l : Nat) (lam : CLambda), h.cells[l]? = some (CCell.lambda lam) →
    ∀ x ∈ lam.envmap, ∀ n, x.2 ≠ Source.iofArg n
  /-- a lambda's formals cover the argument cells its code addresses (`compile.rs` emits
      `BasePointerOffset(bp - argc + i + 1)` for formal `i` only; compared on every real lambda by the
      `bytecode-verifier` stream) -/
  lamArgs : ∀ (l : Nat) (lam : CLambda), h.cells[l]? = some (CCell.lambda lam) → argNeed lam.bc ≤ lam.args.length
  cont : ∀ (p : Nat) (c : Cont), h.cells[p]? = some (CCell.cont c) → ∃ K, ContWF V (tyOf (codeC h)) 0 c K

/-- the invariant with the shape of the frame chains alone (values unconstrained) -/
abbrev CInv := CInvG (fun _ => True)

variable {V : VCell → Prop}

/-- the value-typed invariant implies the untyped one -/
theorem CInvG.weaken {V' : VCell → Prop} (hV : ∀ v, V v → V' v) {h : CHeap} (inv : CInvG V h) : CInvG V' h :=
  ⟨inv.sizes, inv.shape, inv.noUsed, inv.lamFree, inv.lamVer, inv.noIofArg, inv.lamArgs, fun p c hc => by
    obtain ⟨K, hk⟩ := inv.cont p c hc
    exact ⟨K, hk.cap, hk.frames.weaken hV, hk.body⟩⟩

/-- `h'` is a later heap, as far as code objects are concerned -/
structure Grows (P : Cont → Prop) (h h' : CHeap) : Prop where
  sizes : h'.gc.size = h'.cells.size
  shape : 0 < h'.chunk ∧ h'.chunk % 4 = 0 ∧ ∃ k, 0 < k ∧ h'.cells.size = k * h'.chunk
  noUsed : ∀ i : Nat, h'.gc[i]? ≠ some GcState.used
  size_le : h.cells.size ≤ h'.cells.size
  keep : ∀ (l : Nat) (lam : CLambda), h.cells[l]? = some (CCell.lambda lam) → h'.cells[l]? = some (CCell.lambda lam)
  newLam : ∀ (l : Nat) (lam : CLambda), h'.cells[l]? = some (CCell.lambda lam) → h.cells[l]? = some (CCell.lambda lam)
  newCont : ∀ (p : Nat) (c : Cont), h'.cells[p]? = some (CCell.cont c) → h.cells[p]? = some (CCell.cont c) ∨ P c
  free : ∀ p : Nat, p ∈ h'.free → p ∈ h.free ∨ h.cells.size ≤ p

abbrev NoCont : Cont → Prop := fun _ => False

theorem lt_of_getElem? {α : Type} {a : Array α} {i : Nat} {v : α} (h : a[i]? = some v) : i < a.size := by
  by_cases hl : i < a.size
  · exact hl
  · rw [Array.getElem?_eq_none (by omega)] at h; cases h

theorem Grows.refl {P : Cont → Prop} {h : CHeap} (inv : CInvG V h) : Grows P h h :=
  ⟨inv.sizes, inv.shape, inv.noUsed, Nat.le_refl _, fun _ _ x => x, fun _ _ x => x, fun _ _ x => .inl x,
    fun _ x => .inl x⟩

theorem Grows.trans {P : Cont → Prop} {h1 h2 h3 : CHeap} (a : Grows P h1 h2) (b : Grows P h2 h3) :
    Grows P h1 h3 := by
  refine ⟨b.sizes, b.shape, b.noUsed, Nat.le_trans a.size_le b.size_le, fun l lam x => b.keep l lam (a.keep l lam x),
    fun l lam x => a.newLam l lam (b.newLam l lam x), ?_, ?_⟩
  · intro p c hc
    rcases b.newCont p c hc with h | h
    · exact a.newCont p c h
    · exact .inr h
  · intro p hp
    rcases b.free p hp with h | h
    · exact a.free p h
    · right; have := a.size_le; omega

theorem Grows.weaken {P Q : Cont → Prop} {h h' : CHeap} (g : Grows P h h') (hpq : ∀ c, P c → Q c) : Grows Q h h' :=
  ⟨g.sizes, g.shape, g.noUsed, g.size_le, g.keep, g.newLam,
    fun p c hc => (g.newCont p c hc).imp id (hpq c), g.free⟩

theorem Grows.code {P : Cont → Prop} {h h' : CHeap} (g : Grows P h h') {l : Nat} {bc : List VCell}
    (hc : codeC h l = some bc) : codeC h' l = some bc := by
  obtain ⟨lam, h1, h2⟩ := codeC_some hc
  rw [codeC_of_cell (g.keep l lam h1), h2]

theorem Grows.inv {P : Cont → Prop} {h h' : CHeap} (inv : CInvG V h) (g : Grows P h h')
    (hP : ∀ c, P c → ∃ K, ContWF V (tyOf (codeC h)) 0 c K) : CInvG V h' := by
  have hty : ∀ l t, tyOf (codeC h) l = some t → tyOf (codeC h') l = some t :=
    tyOf_mono (fun l bc hc => g.code hc)
  refine ⟨g.sizes, g.shape, g.noUsed, ?_, ?_, ?_, ?_, ?_⟩
  · intro l lam hl hm
    have hold := g.newLam l lam hl
    rcases g.free l hm with h1 | h1
    · exact inv.lamFree l lam hold h1
    · have := lt_of_getElem? hold; omega
  · intro l lam hl
    exact inv.lamVer l lam (g.newLam l lam hl)
  · intro l lam hl
    exact inv.noIofArg l lam (g.newLam l lam hl)
  · intro l lam hl
    exact inv.lamArgs l lam (g.newLam l lam hl)
  · intro p c hc
    have : ∃ K, ContWF V (tyOf (codeC h)) 0 c K := by
      rcases g.newCont p c hc with h1 | h1
      · exact inv.cont p c h1
      · exact hP c h1
    obtain ⟨K, hk⟩ := this
    refine ⟨K, hk.cap, hk.frames.mono hty, ?_⟩
    intro t ht
    obtain ⟨t0, _, ht0, _⟩ := hk.frames.has_ty
    have := hty _ _ ht0
    rw [ht] at this
    have e : t = t0 := Option.some.inj this
    rw [e]
    exact hk.body t0 ht0

/-! ## heaps that differ outside cells / map / free list -/

theorem Grows.of_eq {P : Cont → Prop} {h h' : CHeap} (inv : CInvG V h) (hc : h'.cells = h.cells) (hg : h'.gc = h.gc)
    (hf : h'.free = h.free) (hk : h'.chunk = h.chunk) : Grows P h h' := by
  refine ⟨by rw [hg, hc]; exact inv.sizes, by rw [hk, hc]; exact inv.shape, by rw [hg]; exact inv.noUsed,
    by rw [hc]; exact Nat.le_refl _, ?_, ?_, ?_, ?_⟩
  · intro l lam x; rw [hc]; exact x
  · intro l lam x; rw [hc] at x; exact x
  · intro p c x; rw [hc] at x; exact .inl x
  · intro p x; rw [hf] at x; exact .inl x

/-! ## the allocator -/

theorem takeFree_grows {P : Cont → Prop} {h : CHeap} (inv : CInvG V h) {p : Nat} {rest : List Nat}
    (hf : h.free = p :: rest) : Grows P h (takeFree h p rest).1 := by
  refine ⟨by simp [takeFree, inv.sizes], inv.shape, ?_, Nat.le_refl _, fun _ _ x => x, fun _ _ x => x,
    fun _ _ x => .inl x, ?_⟩
  · intro i
    simp only [takeFree]
    by_cases hip : p = i
    · subst hip
      by_cases hl : p < h.gc.size
      · simp [hl]
      · simp [Array.getElem?_eq_none (show (h.gc.setIfInBounds p GcState.allocated).size ≤ p by simp; omega)]
    · rw [Array.getElem?_setIfInBounds_ne hip]; exact inv.noUsed i
  · intro q hq
    left; rw [hf]; exact List.mem_cons_of_mem _ hq

theorem cgrow_cells_old (h : CHeap) {i : Nat} (hi : i < h.cells.size) : (cgrow h).cells[i]? = h.cells[i]? := by
  simp only [cgrow]
  exact Array.getElem?_append_left hi

theorem cgrow_cells_new (h : CHeap) {i : Nat} {c : CCell} (hi : h.cells.size ≤ i) (hc : (cgrow h).cells[i]? = some c) :
    c = CCell.val .undefined := by
  simp only [cgrow] at hc
  rw [Array.getElem?_append_right hi, Array.getElem?_replicate] at hc
  split at hc
  · cases hc; rfl
  · cases hc

theorem cgrow_grows {P : Cont → Prop} {h : CHeap} (inv : CInvG V h) : Grows P h (cgrow h) := by
  obtain ⟨hc, h4, k, hk, hsize⟩ := inv.shape
  have hsz : (cgrow h).cells.size = h.cells.size + (Heap.Heap.grownSize h.chunk h.cells.size - h.cells.size) := by
    simp [cgrow]
  have hle : h.cells.size ≤ Heap.Heap.grownSize h.chunk h.cells.size := by
    rw [hsize]
    unfold Heap.Heap.grownSize
    rw [Nat.mul_div_cancel _ hc]
    exact Nat.mul_le_mul_right _ (by omega)
  have hsz' : (cgrow h).cells.size = Heap.Heap.grownSize h.chunk h.cells.size := by omega
  refine ⟨by simp [cgrow, inv.sizes], ⟨hc, h4, (3 * k + 1) / 2, by omega, ?_⟩, ?_, by omega, ?_, ?_, ?_, ?_⟩
  · show (cgrow h).cells.size = (3 * k + 1) / 2 * h.chunk
    rw [hsz']
    unfold Heap.Heap.grownSize
    rw [hsize, Nat.mul_div_cancel _ hc]
  · intro i
    simp only [cgrow]
    by_cases hx : i < h.gc.size
    · rw [Array.getElem?_append_left hx]; exact inv.noUsed i
    · rw [Array.getElem?_append_right (by omega), Array.getElem?_replicate]
      split <;> simp
  · intro l lam x
    rw [cgrow_cells_old h (lt_of_getElem? x)]; exact x
  · intro l lam x
    by_cases hl : l < h.cells.size
    · rw [cgrow_cells_old h hl] at x; exact x
    · have := cgrow_cells_new h (by omega) x; cases this
  · intro p c x
    by_cases hl : p < h.cells.size
    · rw [cgrow_cells_old h hl] at x; exact .inl x
    · have := cgrow_cells_new h (by omega) x; cases this
  · intro p hp
    simp only [cgrow] at hp
    rw [List.mem_append, List.mem_reverse, List.mem_range'_1] at hp
    rcases hp with h1 | h1
    · right; exact h1.1
    · exact .inl h1

/-- the address an allocation returns does not hold a lambda (it was on the free list, or it is fresh) -/
theorem calloc_grows {h : CHeap} (inv : CInvG V h) :
    Grows NoCont h (calloc h).1 ∧ ∀ lam, (calloc h).1.cells[(calloc h).2]? ≠ some (CCell.lambda lam) := by
  unfold calloc
  cases hf : h.free with
  | cons p rest =>
    refine ⟨takeFree_grows inv hf, ?_⟩
    intro lam hl
    exact inv.lamFree p lam hl (by rw [hf]; simp)
  | nil =>
    have g : Grows NoCont h (cgrow h) := cgrow_grows inv
    have ginv := g.inv inv (fun c hc => hc.elim)
    simp only
    cases hg : (cgrow h).free with
    | cons p rest =>
      refine ⟨g.trans (takeFree_grows ginv hg), ?_⟩
      intro lam hl
      exact ginv.lamFree p lam hl (by rw [hg]; simp)
    | nil =>
      refine ⟨g, ?_⟩
      intro lam hl
      have := lt_of_getElem? hl
      simp at this

theorem cwrite_cells (h : CHeap) (p : Nat) (c : CCell) (i : Nat) :
    (cwrite h p c).cells[i]? = if p = i ∧ p < h.cells.size then some c else h.cells[i]? := by
  simp only [cwrite]
  by_cases hpi : p = i
  · subst hpi
    by_cases hl : p < h.cells.size
    · simp [hl]
    · simp [hl, Array.getElem?_eq_none (show h.cells.size ≤ p by omega)]
  · rw [Array.getElem?_setIfInBounds_ne hpi]; simp [hpi]

/-- overwriting a cell that holds no lambda, with a cell that is neither a lambda nor (outside `P`) a
    continuation -/
theorem cwrite_grows {P : Cont → Prop} {h : CHeap} (inv : CInvG V h) {p : Nat} {c : CCell}
    (hp : ∀ lam, h.cells[p]? ≠ some (CCell.lambda lam)) (hc : ∀ lam, c ≠ CCell.lambda lam)
    (hcc : ∀ k, c = CCell.cont k → P k) : Grows P h (cwrite h p c) := by
  refine ⟨by simp [cwrite, inv.sizes], by simpa [cwrite] using inv.shape, inv.noUsed, by simp [cwrite], ?_, ?_, ?_,
    fun _ x => .inl x⟩
  · intro l lam x
    rw [cwrite_cells]
    split
    · rename_i hh; obtain ⟨rfl, _⟩ := hh; exact absurd x (hp lam)
    · exact x
  · intro l lam x
    rw [cwrite_cells] at x
    split at x
    · cases x; exact absurd rfl (hc lam)
    · exact x
  · intro q k x
    rw [cwrite_cells] at x
    split at x
    · cases x; exact .inr (hcc k rfl)
    · exact .inl x

/-- allocate a cell and store a non-code cell in it -/
theorem cput_grows {P : Cont → Prop} {h : CHeap} (inv : CInvG V h) {c : CCell} (hc : ∀ lam, c ≠ CCell.lambda lam)
    (hcc : ∀ k, c = CCell.cont k → P k) : Grows P h (cput h c).1 := by
  obtain ⟨g, hfresh⟩ := calloc_grows inv
  have ginv := g.inv inv (fun c hc => hc.elim)
  exact (g.weaken (fun c hc => hc.elim)).trans (cwrite_grows ginv hfresh hc hcc)

end Marwood.Vm.Concrete
