import Marwood.Lemmas.EvalPromiseJ
/-! Forward simulation with a frame (`SimJ`): mirror of `EvalExtraSteps.lean` (see `EvalPromiseJ.lean`). -/
namespace Marwood.Spec.Eval.ExtraJ
open Marwood Marwood.Spec.Eval Marwood.Spec.Eval.Extra

variable {f : LMap} {J : Junk}

/-- what one level of evaluation may assume about the levels below -/
structure RecSimJ (f : LMap) (J : Junk) (r r' : Rec) : Prop where
  eval : ∀ e ρ ρ' B, EnvRel f B ρ ρ' → CleanB B e → SimJ f J (VRel f) (r.eval e ρ) (r'.eval e ρ')
  apply : ∀ g g' args args', VRel f g g' → VsRel f args args' → SimJ f J (VRel f) (r.apply g args) (r'.apply g' args')

variable {r r' : Rec} {B : List Text} {ρ ρ' : Env}

theorem simJ_evalArgs (hr : RecSimJ f J r r') (he : EnvRel f B ρ ρ') : ∀ es, CleanBs B es →
    SimJ f J (VsRel f) (evalArgs r ρ es) (evalArgs r' ρ' es)
  | [], _ => SimJ.pure _ _ .nil
  | e :: es, h => by
    rw [cleanBs_cons] at h
    simp only [evalArgs]
    refine SimJ.bind (hr.eval e ρ ρ' B he h.1) (fun v v' hv => ?_)
    refine SimJ.bind (simJ_evalArgs hr he es h.2) (fun vs vs' hvs => ?_)
    exact SimJ.pure _ _ (.cons hv hvs)

theorem simJ_evalExprs (hr : RecSimJ f J r r') (he : EnvRel f B ρ ρ') : ∀ es, CleanBs B es →
    SimJ f J (VRel f) (evalExprs r ρ es) (evalExprs r' ρ' es)
  | [], _ => SimJ.throw _
  | [e], h => by rw [cleanBs_cons] at h; simpa [evalExprs] using hr.eval e ρ ρ' B he h.1
  | e :: e' :: es, h => by
    rw [cleanBs_cons] at h
    simp only [evalExprs]
    refine SimJ.bind (hr.eval e ρ ρ' B he h.1) (fun _ _ _ => ?_)
    exact simJ_evalExprs hr he (e' :: es) h.2

theorem simJ_evalAnd (hr : RecSimJ f J r r') (he : EnvRel f B ρ ρ') : ∀ es, CleanBs B es →
    SimJ f J (VRel f) (evalAnd r ρ es) (evalAnd r' ρ' es)
  | [], _ => SimJ.pure _ _ (.bool true)
  | [e], h => by rw [cleanBs_cons] at h; simpa [evalAnd] using hr.eval e ρ ρ' B he h.1
  | e :: e' :: es, h => by
    rw [cleanBs_cons] at h
    simp only [evalAnd]
    refine SimJ.bind (hr.eval e ρ ρ' B he h.1) (fun v v' hv => ?_)
    rw [hv.truthy]
    split
    · exact simJ_evalAnd hr he (e' :: es) h.2
    · exact SimJ.pure _ _ hv

theorem simJ_evalOr (hr : RecSimJ f J r r') (he : EnvRel f B ρ ρ') : ∀ es, CleanBs B es →
    SimJ f J (VRel f) (evalOr r ρ es) (evalOr r' ρ' es)
  | [], _ => SimJ.pure _ _ (.bool false)
  | [e], h => by rw [cleanBs_cons] at h; simpa [evalOr] using hr.eval e ρ ρ' B he h.1
  | e :: e' :: es, h => by
    rw [cleanBs_cons] at h
    simp only [evalOr]
    refine SimJ.bind (hr.eval e ρ ρ' B he h.1) (fun v v' hv => ?_)
    rw [hv.truthy]
    split
    · exact SimJ.pure _ _ hv
    · exact simJ_evalOr hr he (e' :: es) h.2

theorem simJ_readVar {l l' : Loc} (hl : f l = l') : SimJ f J (VRel f) (readVar l) (readVar l') := by
  unfold readVar
  refine SimJ.bind (simJ_readCell hl) (fun c c' hc => ?_)
  cases hc with
  | var hv => exact SimJ.pure _ _ hv
  | _ => exact SimJ.throw _

theorem simJ_readPair {v v' : Val} (hv : VRel f v v') :
    SimJ f J (fun p p' => VRel f p.1 p'.1 ∧ VRel f p.2 p'.2) (readPair v) (readPair v') := by
  cases hv with
  | pair l =>
    unfold readPair
    refine SimJ.bind (simJ_readCell rfl) (fun c c' hc => ?_)
    cases hc with
    | pair ha hd => exact SimJ.pure _ _ ⟨ha, hd⟩
    | _ => exact SimJ.throw _
  | _ => exact SimJ.throw _

theorem simJ_readVec {v v' : Val} (hv : VRel f v v') :
    SimJ f J (fun p p' => f p.1 = p'.1 ∧ VsRel f p.2 p'.2) (readVec v) (readVec v') := by
  cases hv with
  | vec l =>
    unfold readVec
    refine SimJ.bind (simJ_readCell rfl) (fun c c' hc => ?_)
    cases hc with
    | vec hx => exact SimJ.pure _ _ ⟨rfl, hx⟩
    | _ => exact SimJ.throw _
  | _ => exact SimJ.throw _

theorem simJ_cons {a a' d d' : Val} (ha : VRel f a a') (hd : VRel f d d') : SimJ f J (VRel f) (cons a d) (cons a' d') := by
  unfold cons
  refine SimJ.bind (simJ_allocCell (.pair ha hd)) (fun l l' hl => ?_)
  subst hl
  exact SimJ.pure _ _ (.pair l)

theorem simJ_allocVec {xs xs' : List Val} (h : VsRel f xs xs') : SimJ f J (VRel f) (allocVec xs) (allocVec xs') := by
  unfold allocVec
  refine SimJ.bind (simJ_allocCell (.vec h)) (fun l l' hl => ?_)
  subst hl
  exact SimJ.pure _ _ (.vec l)

theorem simJ_allocListTail {vs vs' : List Val} (h : VsRel f vs vs') {t t' : Val} (ht : VRel f t t') :
    SimJ f J (VRel f) (allocListTail vs t) (allocListTail vs' t') := by
  induction h with
  | nil => exact SimJ.pure _ _ ht
  | cons hv _ ih =>
    simp only [allocListTail]
    exact SimJ.bind ih (fun r r' hr => simJ_cons hv hr)

theorem simJ_allocList {vs vs' : List Val} (h : VsRel f vs vs') : SimJ f J (VRel f) (allocList vs) (allocList vs') := by
  induction h with
  | nil => exact SimJ.pure _ _ .nil
  | cons hv _ ih =>
    simp only [allocList]
    exact SimJ.bind ih (fun r r' hr => simJ_cons hv hr)

theorem simJ_quote : ∀ (d : Datum), SimJ f J (VRel f) (quoteVal d) (quoteVal d) ∧ SimJ f J (VsRel f) (quoteElems d) (quoteElems d) := by
  intro d
  induction d with
  | bool b => exact ⟨SimJ.pure _ _ (.bool b), SimJ.pure _ _ .nil⟩
  | char c => exact ⟨SimJ.pure _ _ (.char c), SimJ.pure _ _ .nil⟩
  | nil => exact ⟨SimJ.pure _ _ .nil, SimJ.pure _ _ .nil⟩
  | num n =>
    refine ⟨?_, SimJ.pure _ _ .nil⟩
    simp only [quoteVal]
    cases intOfNum n with
    | none => exact SimJ.throw _
    | some i => exact SimJ.pure _ _ (.int i)
  | str s => exact ⟨SimJ.pure _ _ (.str s), SimJ.pure _ _ .nil⟩
  | sym s => exact ⟨SimJ.pure _ _ (.sym s), SimJ.pure _ _ .nil⟩
  | pair a d iha ihd =>
    refine ⟨?_, ?_⟩
    · simp only [quoteVal]
      refine SimJ.bind iha.1 (fun a' a'' ha => ?_)
      refine SimJ.bind ihd.1 (fun d' d'' hd => ?_)
      exact simJ_cons ha hd
    · simp only [quoteElems]
      refine SimJ.bind iha.1 (fun a' a'' ha => ?_)
      refine SimJ.bind ihd.2 (fun d' d'' hd => ?_)
      exact SimJ.pure _ _ (.cons ha hd)
  | vec e ih =>
    refine ⟨?_, SimJ.pure _ _ .nil⟩
    simp only [quoteVal]
    exact SimJ.bind ih.2 (fun xs xs' hx => simJ_allocVec hx)
  | continuation => exact ⟨SimJ.throw _, SimJ.pure _ _ .nil⟩
  | macro_ => exact ⟨SimJ.throw _, SimJ.pure _ _ .nil⟩
  | procedure d => exact ⟨SimJ.throw _, SimJ.pure _ _ .nil⟩
  | undefined => exact ⟨SimJ.pure _ _ .undef, SimJ.pure _ _ .nil⟩
  | void => exact ⟨SimJ.pure _ _ .void, SimJ.pure _ _ .nil⟩

theorem simJ_quoteVal (d : Datum) : SimJ f J (VRel f) (quoteVal d) (quoteVal d) := (simJ_quote d).1

end Marwood.Spec.Eval.ExtraJ
