import Marwood.Lemmas.EvalConverseGuard
/-!
# When the helper guards never fire: acyclic (ranked) data

The guards of `guardN` / `sguardN k` (`helperCut`, `helperCutAt F`) fire where a store-size-fuelled helper
(`valToDatum`, `listOfVal`, `equalVal`, `memWalk`) reaches fuel 0 where it would have gone on. On ACYCLIC
data whose depth is below the fuel they never do. Acyclicity is formalised by a rank function on locations
that strictly decreases along the edges of the store (`Ranked`).

* `valCut_of_ranked`, `listCut_of_ranked` (rank `≤` fuel), `eqCut_of_ranked`, `spineCut_of_ranked` (rank `<` fuel);
* `helperCutAt_of_ranked`: all arguments of rank `<` the helper fuel: no guard fires;
* `OlderOnly` (every cell only points to older cells: ranked by the location itself),
  `helperCut_of_olderOnly`: in such a store the guard of `guardN` never fires on in-bounds arguments.
-/
namespace Marwood.Spec.Eval
open Marwood

/-- rank of a value: one more than the rank of the cell it points to; atoms and procedures 0 -/
def valRank (rk : Loc → Nat) : Val → Nat
  | .pair l | .vec l | .promise l => rk l + 1
  | _ => 0

/-- `rk` strictly decreases along every edge of the store: the data in `σ` is acyclic and `rk l` bounds
    the depth of the structure rooted at `l` -/
def Ranked (σ : Array Cell) (rk : Loc → Nat) : Prop :=
  ∀ l : Loc, match σ[l]? with
    | some (.pair a d) => valRank rk a ≤ rk l ∧ valRank rk d ≤ rk l
    | some (.vec xs) => ∀ x ∈ xs, valRank rk x ≤ rk l
    | some (.promise _ v) => valRank rk v ≤ rk l
    | _ => True

section
variable {σ : Array Cell} {rk : Loc → Nat}

theorem Ranked.pair (h : Ranked σ rk) {l : Loc} {a d : Val} (hc : σ[l]? = some (.pair a d)) :
    valRank rk a ≤ rk l ∧ valRank rk d ≤ rk l := by
  have := h l
  simp only [hc] at this
  exact this

theorem Ranked.vec (h : Ranked σ rk) {l : Loc} {xs : List Val} (hc : σ[l]? = some (.vec xs)) :
    ∀ x ∈ xs, valRank rk x ≤ rk l := by
  have := h l
  simp only [hc] at this
  exact this

theorem Ranked.promise (h : Ranked σ rk) {l : Loc} {dn : Bool} {v : Val} (hc : σ[l]? = some (.promise dn v)) :
    valRank rk v ≤ rk l := by
  have := h l
  simp only [hc] at this
  exact this

/-! ## the four cut predicates -/

theorem valCut_of_ranked (h : Ranked σ rk) : ∀ (F : Nat) (v : Val), valRank rk v ≤ F → valCut F σ v = false := by
  intro F
  induction F with
  | zero =>
    intro v hv
    cases v <;> first | (simp [valRank] at hv; done) | simp [valCut]
  | succ F ih =>
    intro v hv
    cases v with
    | pair l =>
      simp only [valRank] at hv
      simp only [valCut]
      cases hc : σ[l]? with
      | none => rfl
      | some c =>
        cases c with
        | pair a d =>
          have hr := h.pair hc
          simp only [Bool.or_eq_false_iff]
          exact ⟨ih a (by omega), ih d (by omega)⟩
        | _ => rfl
    | vec l =>
      simp only [valRank] at hv
      simp only [valCut]
      cases hc : σ[l]? with
      | none => rfl
      | some c =>
        cases c with
        | vec xs =>
          have hr := h.vec hc
          simp only [List.any_eq_false]
          intro x hx
          have := hr x hx
          simp [ih x (by omega)]
        | _ => rfl
    | promise l =>
      simp only [valRank] at hv
      simp only [valCut]
      cases hc : σ[l]? with
      | none => rfl
      | some c =>
        cases c with
        | promise dn v =>
          have hr := h.promise hc
          exact ih v (by omega)
        | _ => rfl
    | _ => simp [valCut]

theorem listCut_of_ranked (h : Ranked σ rk) : ∀ (F : Nat) (v : Val), valRank rk v ≤ F → listCut F σ v = false := by
  intro F
  induction F with
  | zero =>
    intro v hv
    cases v <;> first | (simp [valRank] at hv; done) | simp [listCut]
  | succ F ih =>
    intro v hv
    cases v with
    | pair l =>
      simp only [valRank] at hv
      simp only [listCut]
      cases hc : σ[l]? with
      | none => rfl
      | some c =>
        cases c with
        | pair a d =>
          have hr := h.pair hc
          exact ih d (by omega)
        | _ => rfl
    | _ => simp [listCut]

/-- `eqCut 0` is true on two strings and `spineCut 0` on everything, hence `<` -/
theorem eqCut_of_ranked (h : Ranked σ rk) : ∀ (F : Nat) (a b : Val), valRank rk a < F → eqCut F σ a b = false := by
  intro F
  induction F with
  | zero => intro a b hv; omega
  | succ F ih =>
    intro a b hv
    cases a with
    | pair x =>
      cases b with
      | pair y =>
        simp only [valRank] at hv
        simp only [eqCut]
        cases hx : σ[x]? with
        | none => rfl
        | some cx =>
          cases hy : σ[y]? with
          | none => cases cx <;> rfl
          | some cy =>
            cases cx <;> cases cy <;> try rfl
            rename_i a1 d1 a2 d2
            have hr := h.pair hx
            simp only [Bool.or_eq_false_iff]
            exact ⟨ih a1 a2 (by omega), ih d1 d2 (by omega)⟩
      | _ => simp [eqCut]
    | vec x =>
      cases b with
      | vec y =>
        simp only [valRank] at hv
        simp only [eqCut]
        cases hx : σ[x]? with
        | none => rfl
        | some cx =>
          cases hy : σ[y]? with
          | none => cases cx <;> rfl
          | some cy =>
            cases cx <;> cases cy <;> try rfl
            rename_i xs ys
            have hr := h.vec hx
            simp only [List.any_eq_false]
            intro p hp
            have := hr p.1 (List.of_mem_zip hp).1
            simp [ih p.1 p.2 (by omega)]
      | _ => simp [eqCut]
    | _ => simp [eqCut]

theorem spineCut_of_ranked (h : Ranked σ rk) : ∀ (F : Nat) (v : Val), valRank rk v < F → spineCut F σ v = false := by
  intro F
  induction F with
  | zero => intro v hv; omega
  | succ F ih =>
    intro v hv
    cases v with
    | pair l =>
      simp only [valRank] at hv
      simp only [spineCut]
      cases hc : σ[l]? with
      | none => rfl
      | some c =>
        cases c with
        | pair a d =>
          have hr := h.pair hc
          exact ih d (by omega)
        | _ => rfl
    | _ => simp [spineCut]

/-! ## the guard -/

/-- the last element (default `.nil`) of a non-empty list is one of its elements -/
theorem getLastD_mem_cons : ∀ (a : Val) (as : List Val), (a :: as).getLast?.getD .nil ∈ a :: as := by
  intro a as
  induction as generalizing a with
  | nil => simp
  | cons b bs ih =>
    rw [List.getLast?_cons_cons]
    exact List.mem_cons_of_mem _ (ih b)

/-- all arguments shallower than the helper fuel: no guard fires -/
theorem helperCutAt_of_ranked (h : Ranked σ rk) (F : Nat) (f : Val) (args : List Val)
    (ha : ∀ a ∈ args, valRank rk a < F) : helperCutAt F f args σ = false := by
  cases f with
  | prim p =>
    cases p with
    | apply =>
      rcases args with _ | ⟨g, _ | ⟨a, as⟩⟩
      · rfl
      · rfl
      · show listCut F σ ((a :: as).getLast?.getD .nil) = false
        exact listCut_of_ranked h F _
          (Nat.le_of_lt (ha _ (List.mem_cons_of_mem _ (getLastD_mem_cons a as))))
    | map =>
      rcases args with _ | ⟨g, _ | ⟨a, as⟩⟩
      · rfl
      · rfl
      · show (a :: as).any (listCut F σ) = false
        rw [List.any_eq_false]
        intro x hx
        simp [listCut_of_ranked h F x (Nat.le_of_lt (ha x (List.mem_cons_of_mem _ hx)))]
    | forEach =>
      rcases args with _ | ⟨g, _ | ⟨a, as⟩⟩
      · rfl
      · rfl
      · show (a :: as).any (listCut F σ) = false
        rw [List.any_eq_false]
        intro x hx
        simp [listCut_of_ranked h F x (Nat.le_of_lt (ha x (List.mem_cons_of_mem _ hx)))]
    | _ =>
      rcases args with _ | ⟨a, _ | ⟨b, _ | ⟨c, _ | ⟨d, t⟩⟩⟩⟩ <;> first
        | rfl
        | exact valCut_of_ranked h F a (Nat.le_of_lt (ha a (by simp)))
        | exact listCut_of_ranked h F a (Nat.le_of_lt (ha a (by simp)))
        | exact eqCut_of_ranked h F a b (ha a (by simp))
        | exact spineCut_of_ranked h F b (ha b (by simp))
        | (show (listCut F σ a || listCut F σ b) = false
           rw [listCut_of_ranked h F a (Nat.le_of_lt (ha a (by simp))),
             listCut_of_ranked h F b (Nat.le_of_lt (ha b (by simp)))]
           rfl)
  | _ => first | rfl | simp [helperCutAt]

end

/-! ## the allocation-order rank -/

/-- the allocation-order rank: a store in which every cell only points to OLDER cells (what `cons`, `list`,
    `vector`, `quote` build; `set-car!`/`set-cdr!`/`vector-set!` can break it) is ranked by the location itself -/
def OlderOnly (σ : Array Cell) : Prop := Ranked σ (fun l => l)

/-- in an allocation-ordered store the guard of `guardN` never fires on in-bounds arguments: with `rk l = l`
    a value in bounds has rank `≤ σ.size <` the helper fuel `σ.size + 1` -/
theorem helperCut_of_olderOnly {σ : Array Cell} (h : OlderOnly σ) (f : Val) (args : List Val)
    (ha : ∀ a ∈ args, valRank (fun l => l) a ≤ σ.size) : helperCut f args σ = false := by
  rw [helperCut_eq_at]
  exact helperCutAt_of_ranked h (σ.size + 1) f args (fun a hm => Nat.lt_succ_of_le (ha a hm))

/-! ## sanity -/

/-- `(1)` at location 0 has rank 1: fuel 1 suffices for `valToDatum` / `listOfVal` … -/
example : helperCutAt 2 (.prim .display) [.pair 0] properStore = false := by decide
example : helperCutAt 1 (.prim .display) [.pair 0] properStore = false := by decide
example : helperCutAt 0 (.prim .display) [.pair 0] properStore = true := by decide
/-- … but not for `memWalk` (`spineCut 0` is true even on `.nil`): the `<` of `spineCut_of_ranked` is sharp -/
example : helperCutAt 1 (.prim .memv) [.int 2, .pair 0] properStore = true := by decide
example : helperCutAt 2 (.prim .memv) [.int 2, .pair 0] properStore = false := by decide

end Marwood.Spec.Eval
