import Marwood.Lemmas.EnvFitStepA
import Marwood.Lemmas.EnvFitStepB2
import Marwood.Lemmas.EnvFitStepC
import Marwood.Lemmas.EnvFitGc
import Marwood.Lemmas.EnvTaintMain
/-!
# The slot clause of T06.6 as an invariant (5): `FInv` across `run_one`, all 16 opcodes

`finv_step`: from the bundled invariant `VmOkP s` (heap simulation invariant, WF-stack over the value-typed verifier, "no
value leads to entry code"), `TInv s` ("no value leads to a capturing lambda") and `FInv s`, one successful instruction
of `run_one` over `concreteOps ext` leads to a state satisfying `FInv`. The verifier's typing of the current code object
(`WFS.instr`) says which successor offsets are prologue offsets (`InPre`): none, except after CALL / TCALL of a procedure
and after VARARG.
-/
namespace Marwood.Lemmas.Good
open Marwood Marwood.Vm Marwood.Vm.Verify Marwood.Vm.Concrete Marwood.Lemmas.Sim
open Marwood.Heap (GcState)
open StepC

/-! ## reading the verifier's typing -/

theorem tyOf_codeC {h : CHeap} {l : Nat} {t : LamTy} :
    tyOf (codeC h) l = some t ↔ ∃ lam, lambdaAt h l = some lam ∧ verifyLam lam.bc = some t := by
  unfold tyOf codeC
  cases hl : lambdaAt h l with
  | none => simp
  | some lam => simp

theorem inPre_of_ty {h : CHeap} {l o : Nat} {t : LamTy} (ht : tyOf (codeC h) l = some t) :
    InPre h l o ↔ (t.entry = false ∧ stateAt t.tm o = some .pre) := by
  obtain ⟨lam, hl, hv⟩ := tyOf_codeC.mp ht
  constructor
  · rintro ⟨lam', t', h1, h2, h3, h4⟩
    rw [hl] at h1; cases h1
    rw [hv] at h2; cases h2
    exact ⟨h3, h4⟩
  · rintro ⟨h3, h4⟩
    exact ⟨lam, t, hl, hv, h3, h4⟩

theorem not_inPre_of_st {h : CHeap} {l o : Nat} {t : LamTy} (ht : tyOf (codeC h) l = some t) {st : AState}
    (hst : stateAt t.tm o = some st) (hne : st ≠ .pre) : ¬ InPre h l o := by
  intro hp
  have := ((inPre_of_ty ht).mp hp).2
  rw [hst] at this
  exact hne (Option.some.inj this)

theorem not_inPre_of_flows {h : CHeap} {l k : Nat} {t : LamTy} (ht : tyOf (codeC h) l = some t) {x : List ACell}
    (hf : flowsTo x (stateAt t.tm k) = true) : ¬ InPre h l k := by
  intro hp
  have := ((inPre_of_ty ht).mp hp).2
  rw [this] at hf
  simp [flowsTo] at hf

theorem not_inPre_of_entry {h : CHeap} {l k : Nat} {t : LamTy} (ht : tyOf (codeC h) l = some t)
    (he : t.entry = true) : ¬ InPre h l k := by
  intro hp
  have := ((inPre_of_ty ht).mp hp).1
  rw [he] at this; cases this

/-- a continuation object's saved `ip` is not a prologue offset -/
theorem cont_not_inPre {h : CHeap} (ci : CInvG IsValue h) {p : Nat} {c : Cont} (hc : h.cells[p]? = some (.cont c)) :
    ¬ InPre h c.ipL c.ipO := by
  obtain ⟨K, hk⟩ := ci.cont p c hc
  rintro ⟨lam, t, h1, h2, h3, h4⟩
  exact hk.body t (tyOf_codeC.mpr ⟨lam, h1, h2⟩) h4

/-- the cell a continuation callee comes from -/
theorem callee_cont_cell {h : CHeap} {v : VCell} {c : Cont} (hc : callee h v = .continuation c) :
    ∃ p, v = .ptr p ∧ h.cells[p]? = some (.cont c) := by
  unfold callee at hc
  cases v with
  | ptr p =>
    simp only at hc
    cases hcell : h.cells[p]? with
    | none => rw [hcell] at hc; cases hc
    | some cc =>
      rw [hcell] at hc
      cases cc with
      | cont k => simp only [calleeOfCell] at hc; cases hc; exact ⟨p, rfl, hcell⟩
      | val w => cases w <;> simp [calleeOfCell] at hc
      | lambda _ => simp [calleeOfCell] at hc
      | lexEnv _ => simp [calleeOfCell] at hc
      | vector _ => simp [calleeOfCell] at hc
  | closure _ _ => cases hc
  | builtin _ => cases hc
  | _ => cases hc

section
variable {ext : ExtOps} {ecl : ExtCodeLawsV ext}

/-- **`FInv` is preserved by `run_one`** (real concrete machine; all 16 opcodes) -/
theorem finv_step (eg : ExtGood ext) (ef : ExtFit ext) {s s' : St CHeap} {b : Bool} (h : VmOkP ext ecl s)
    (tv : Taint.TInv s) (f : FInv s) (hs : step (concreteOps ext) s = .ok (s', b)) (sm' : Small s'.heap) :
    FInv s' := by
  have hwfs : ∃ K, WFS (concreteLawsV ext ecl) s K := by
    rcases h.1.2 with hw | hh
    · exact hw
    · exact absurd hs (haltedAt_no_step hh _)
  obtain ⟨K, hw⟩ := hwfs
  have g : GoodI s := h.1.1
  have ci : CInvG IsValue s.heap := h.1.cinv
  have sd : StackDisc s := h.1.stackDisc
  have lf : LF s.heap := LF.of_cinv ci
  have ok : CalleeOk s := h.calleeOk
  rw [step_eq] at hs
  obtain ⟨⟨op, s1⟩, hro, hx⟩ := bind_ok hs
  have hro' : readOpcode (vops ext) s = .ok (op, s1) := by rw [← readOpcode_vops]; exact hro
  obtain ⟨rfl, hop⟩ := readOpcode_inv hro
  obtain ⟨ty, st, ai, _⟩ := hw.instr hro'
  have hty : tyOf (codeC s.heap) s.ipL = some ty := ai.ht
  have hst := ai.hst
  have chk := ai.chk
  simp only at hx
  cases op with
  | cons =>
    cases st <;> simp only [checkOp] at chk <;> try (exact absurd chk Bool.false_ne_true)
    rename_i x
    have hfit := f.fit (not_inPre_of_st hty hst (by simp))
    rcases x with _ | ⟨c1, _ | ⟨c2, x⟩⟩ <;> simp only [checkOp, Bool.and_eq_true] at chk <;>
      try (exact absurd chk Bool.false_ne_true)
    exact fv_cons g lf sd sm' f hfit (not_inPre_of_flows hty chk.2) hop hx
  | jmp =>
    cases st <;> simp only [checkOp] at chk <;> try (exact absurd chk Bool.false_ne_true)
    have hfit := f.fit (not_inPre_of_st hty hst (by simp))
    refine fv_jmp g lf sm' f hfit ?_ hx
    intro l t hl hb
    obtain ⟨lam, hl', hv⟩ := tyOf_codeC.mp hty
    rw [hl] at hl'; cases hl'
    have hbc : ty.bc = l.bc := (verifyLam_spec hv).1
    rw [hbc, hb] at chk
    exact not_inPre_of_flows hty chk
  | jnt =>
    cases st <;> simp only [checkOp] at chk <;> try (exact absurd chk Bool.false_ne_true)
    have hfit := f.fit (not_inPre_of_st hty hst (by simp))
    obtain ⟨lam, hl', hv⟩ := tyOf_codeC.mp hty
    have hbc : ty.bc = lam.bc := (verifyLam_spec hv).1
    cases hb : lam.bc[s.ipO + 1]? with
    | none => rw [hbc, hb] at chk; exact absurd chk Bool.false_ne_true
    | some w =>
      rw [hbc, hb] at chk
      cases w <;> simp only [Bool.and_eq_true] at chk <;> try (exact absurd chk Bool.false_ne_true)
      rename_i tgt
      refine fv_jnt g lf sm' f hfit ?_ (not_inPre_of_flows hty chk.2) hx
      intro l t hl hb2
      rw [hl] at hl'; cases hl'
      rw [hb] at hb2; cases hb2
      exact not_inPre_of_flows hty chk.1
  | mov =>
    cases st <;> simp only [checkOp, Bool.and_eq_true] at chk <;> try (exact absurd chk Bool.false_ne_true)
    have hfit := f.fit (not_inPre_of_st hty hst (by simp))
    exact fv_mov g lf sd sm' f hfit (not_inPre_of_flows hty chk.2) hop hx
  | movImm =>
    cases st <;> simp only [checkOp, Bool.and_eq_true] at chk <;> try (exact absurd chk Bool.false_ne_true)
    have hfit := f.fit (not_inPre_of_st hty hst (by simp))
    exact fv_movImm g lf sd sm' f hfit (not_inPre_of_flows hty chk.2) hop hx
  | push =>
    cases st <;> simp only [checkOp] at chk <;> try (exact absurd chk Bool.false_ne_true)
    have hfit := f.fit (not_inPre_of_st hty hst (by simp))
    refine fv_push g lf sd sm' f hfit (not_inPre_of_flows hty chk) hop ?_ hx
    intro l off v hl hb h0 hv
    obtain ⟨lam, hl', hvf⟩ := tyOf_codeC.mp hty
    rw [hl] at hl'; cases hl'
    have hbc : ty.bc = l.bc := (verifyLam_spec hvf).1
    have := ai.bp_val (off := off) (by rw [hbc]; exact hb) h0
    have e : s.stack.cellAt ((s.bp : Int) + off).toNat = v := by unfold Stack.cellAt; rw [hv]; rfl
    rw [e] at this
    exact this
  | pushImm =>
    cases st <;> simp only [checkOp] at chk <;> try (exact absurd chk Bool.false_ne_true)
    have hfit := f.fit (not_inPre_of_st hty hst (by simp))
    cases hb : ty.bc[s.ipO + 1]? with
    | none => rw [hb] at chk; exact absurd chk Bool.false_ne_true
    | some w =>
      rw [hb] at chk
      exact fv_pushImm g lf sm' f hfit (not_inPre_of_flows hty chk) hop hx
  | pushAcc =>
    cases st <;> simp only [checkOp] at chk <;> try (exact absurd chk Bool.false_ne_true)
    have hfit := f.fit (not_inPre_of_st hty hst (by simp))
    exact fv_pushAcc g lf sm' f hfit (not_inPre_of_flows hty chk) hx
  | halt =>
    cases st <;> simp only [checkOp, Bool.and_eq_true] at chk <;> try (exact absurd chk Bool.false_ne_true)
    have hfit := f.fit (not_inPre_of_st hty hst (by simp))
    exact fv_halt g lf sm' f hfit (not_inPre_of_entry hty chk.1.1) hx
  | vpushAcc =>
    cases st <;> simp only [checkOp] at chk <;> try (exact absurd chk Bool.false_ne_true)
    rename_i x
    have hfit := f.fit (not_inPre_of_st hty hst (by simp))
    cases x <;> simp only [checkOp] at chk <;> try (exact absurd chk Bool.false_ne_true)
    exact fv_vpush eg ef g lf sm' f hfit (not_inPre_of_flows hty chk) hop hx
  | closureAcc =>
    cases st <;> simp only [checkOp] at chk <;> try (exact absurd chk Bool.false_ne_true)
    have hfit := f.fit (not_inPre_of_st hty hst (by simp))
    exact fv_closure g lf sm' f hfit (not_inPre_of_flows hty chk) hx
  | callAcc =>
    cases st <;> simp only [checkOp] at chk <;> try (exact absurd chk Bool.false_ne_true)
    have hnpR := not_inPre_of_st hty hst (by simp)
    have hfit := f.fit hnpR
    refine fv_call eg ef g ci sd ok sm' f hfit hop hnpR (not_inPre_of_flows hty chk) ?_ hx
    intro c hc
    obtain ⟨p, _, hcell⟩ := callee_cont_cell hc
    exact cont_not_inPre ci hcell
  | tcallAcc =>
    cases st <;> simp only [checkOp, Bool.and_eq_true] at chk <;> try (exact absurd chk Bool.false_ne_true)
    have hnpR := not_inPre_of_st hty hst (by simp)
    have hfit := f.fit hnpR
    refine fv_tcall eg ef g ci sd ok sm' f hfit hop hnpR (not_inPre_of_flows hty chk.2) ?_ hx
    intro c hc
    obtain ⟨p, _, hcell⟩ := callee_cont_cell hc
    exact cont_not_inPre ci hcell
  | enter =>
    cases st <;> simp only [checkOp, Bool.and_eq_true] at chk <;> try (exact absurd chk Bool.false_ne_true)
    have hent : ty.entry = false := by simpa using chk.1
    have hpre : InPre s.heap s.ipL s.ipO := (inPre_of_ty hty).mpr ⟨hent, hst⟩
    refine fv_enter g lf sd sm' f hpre (not_inPre_of_flows hty chk.2) ?_ hx
    intro p lam hacc _ hl
    -- the instruction is ENTER, not CLOSURE: `acc` does not point to a capturing lambda
    rcases tv.acc_cases with hne | hsite
    · rw [hacc] at hne
      simp only [Taint.neE_ptr, Bool.not_eq_true'] at hne
      exact Taint.capAt_false_iff.mp hne lam hl
    · obtain ⟨l0, j, h1, h2, _, _, _, h6⟩ := Taint.atSiteB_inv hsite
      obtain ⟨l1, k1, k2⟩ := hop
      rw [h1] at k1; cases k1
      rw [h2] at k2
      rw [h6] at k2; cases k2
  | ret =>
    cases st <;> simp only [checkOp] at chk <;> try (exact absurd chk Bool.false_ne_true)
    have hent : ty.entry = false := by simpa using chk
    refine fv_ret g sd f hop ?_ hx
    intro e l o he hl
    have hfr := hw.wf.frames
    cases hfr with
    | @entry _ _ _ _ t1 st1 h1 h2 h3 h4 =>
      have e1 : t1 = ty := by
        have : tyOf (codeC s.heap) s.ipL = some t1 := h1
        rw [hty] at this; exact (Option.some.inj this).symm
      subst e1
      rw [h2] at hent; cases hent
    | @frame _ _ _ _ t1 st1 n ep' l' o' bp' K h1 h2 h3 h4 h5 h6 h7 h8 h9 hnd hav hnp h10 =>
      have k6 : s.stack.cellAt (s.bp + 2) = .envPtr ep' := h6
      have k7 : s.stack.cellAt (s.bp + 3) = .instrPtr l' o' := h7
      unfold Stack.cellAt at k6 k7
      rw [he] at k6; rw [hl] at k7
      simp only [Option.getD_some] at k6 k7
      cases k6; cases k7
      rintro ⟨lam, t, q1, q2, _, q4⟩
      exact hnp t (tyOf_codeC.mpr ⟨lam, q1, q2⟩) q4
    | @pre _ _ _ _ t1 n ep' l' o' K h1 h2 h3 h4 h5 h6 h7 hav hnp h8 =>
      have e1 : t1 = ty := by
        have : tyOf (codeC s.heap) s.ipL = some t1 := h1
        rw [hty] at this; exact (Option.some.inj this).symm
      subst e1
      rw [hst] at h3; cases h3
  | varArg =>
    cases st <;> simp only [checkOp, Bool.and_eq_true, decide_eq_true_eq] at chk <;>
      try (exact absurd chk Bool.false_ne_true)
    have hent : ty.entry = false := by simpa using chk.1
    have hpre : InPre s.heap s.ipL s.ipO := (inPre_of_ty hty).mpr ⟨hent, hst⟩
    have hpre' : InPre s.heap s.ipL (s.ipO + 1) := (inPre_of_ty hty).mpr ⟨hent, chk.2⟩
    exact fv_varArg g lf sd sm' f hpre hpre' hop hx

end

end Marwood.Lemmas.Good
