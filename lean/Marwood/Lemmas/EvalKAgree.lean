import Marwood.Spec.EvalK
/-!
# `Spec.EvalK` without `call/cc` is `Spec.Eval` — framework

`step false` (the machine that does not recognise `call/cc` / continuation values) simulates the fuel-indexed
big-step evaluator `Spec.Eval.evalN`: whatever `evalN n` returns for an expression (a value and a store, or an
error class and a store), the machine started on that expression in ANY continuation `κ` reaches — returning that
value to `κ` in that store, resp. halting with that error in that store. This file: reachability, the simulation
predicate and the combinators every per-form lemma is built from.
-/
namespace Marwood.Lemmas.EvalKAgree
open Marwood Marwood.Spec.Eval Marwood.Spec.EvalK

/-- `n` steps of the machine without `call/cc`; `halt` and `stuck` are absorbing -/
def iter : Nat → Next → Next
  | 0, x => x
  | n+1, .run s => iter n (step false s)
  | _+1, x => x

/-- `b` is reached from `a` -/
def Reach (a b : Next) : Prop := ∃ n, iter n a = b

theorem Reach.refl (a : Next) : Reach a a := ⟨0, rfl⟩

theorem iter_add (m n : Nat) (a : Next) : iter (m + n) a = iter n (iter m a) := by
  induction m generalizing a with
  | zero => simp [iter]
  | succ m ih =>
    cases a with
    | run s => rw [Nat.add_right_comm]; simp only [iter]; exact ih _
    | halt o σ ks =>
      have h : ∀ k, iter k (.halt o σ ks) = .halt o σ ks := by intro k; cases k <;> rfl
      rw [h, h, h]
    | stuck =>
      have h : ∀ k, iter k .stuck = .stuck := by intro k; cases k <;> rfl
      rw [h, h, h]

theorem Reach.trans {a b c : Next} (h1 : Reach a b) (h2 : Reach b c) : Reach a c := by
  obtain ⟨m, hm⟩ := h1
  obtain ⟨n, hn⟩ := h2
  exact ⟨m + n, by rw [iter_add, hm, hn]⟩

/-- one machine step -/
theorem Reach.step {s : State} {b : Next} (h : Reach (step false s) b) : Reach (.run s) b := by
  obtain ⟨n, hn⟩ := h
  exact ⟨n + 1, by simpa [iter] using hn⟩

/-- the machine counterpart of a result of `Spec.Eval` delivered to continuation `κ` -/
def Sim (x : Next) (r : Res Val) (κ : Kont) (ks : Array Kont) : Prop :=
  match r with
  | .ok v σ' => Reach x (retTo v κ σ' ks)
  | .err e σ' => Reach x (.halt (.err e) σ' ks)
  | .timeout => True

/-- the sub-evaluator `r` is simulated by the machine -/
structure SimRec (r : Rec) : Prop where
  eval : ∀ e ρ σ κ ks, Sim (evalIn e ρ κ σ ks) (r.eval e ρ σ) κ ks
  apply : ∀ f args σ κ ks, Sim (appTo f args κ σ ks) (r.apply f args σ) κ ks

theorem Sim.of_reach {x y : Next} {r : Res Val} {κ : Kont} {ks : Array Kont}
    (h : Reach x y) (hy : Sim y r κ ks) : Sim x r κ ks := by
  unfold Sim at *
  cases r with
  | ok v σ' => exact h.trans hy
  | err e σ' => exact h.trans hy
  | timeout => trivial

theorem Sim.step {s : State} {r : Res Val} {κ : Kont} {ks : Array Kont}
    (h : Sim (step false s) r κ ks) : Sim (.run s) r κ ks := by
  unfold Sim at *
  cases r with
  | ok v σ' => exact Reach.step h
  | err e σ' => exact Reach.step h
  | timeout => trivial

theorem Sim.pure (v : Val) (κ : Kont) (σ : St) (ks : Array Kont) :
    Sim (retTo v κ σ ks) ((pure v : M Val) σ) κ ks := Reach.refl _

theorem Sim.throw (e : ErrClass) (κ : Kont) (σ : St) (ks : Array Kont) :
    Sim (failWith e σ ks) ((throw e : M Val) σ) κ ks := Reach.refl _

theorem bind_apply {α β : Type} (x : M α) (f : α → M β) (σ : St) :
    (x >>= f) σ = match x σ with
      | .ok a σ' => f a σ'
      | .err e σ' => .err e σ'
      | .timeout => .timeout := rfl

/-- a first-order computation of `Spec.Eval` followed by … -/
theorem Sim.withM {α : Type} (x : M α) (k : α → St → Next) (f : α → M Val) (σ : St) (κ : Kont)
    (ks : Array Kont) (h : ∀ a σ', x σ = .ok a σ' → Sim (k a σ') (f a σ') κ ks) :
    Sim (withM x σ ks k) ((x >>= f) σ) κ ks := by
  rw [bind_apply]
  unfold Marwood.Spec.EvalK.withM
  cases hx : x σ with
  | ok a σ' => exact h a σ' hx
  | err e σ' => exact Reach.refl _
  | timeout => trivial

/-- evaluate `e` with frame `F` pushed, then … -/
theorem Sim.evalBind {r : Rec} (hr : SimRec r) (e : Datum) (ρ : Env) (F : Frame) (f : Val → M Val)
    (σ : St) (κ : Kont) (ks : Array Kont)
    (h : ∀ v σ', r.eval e ρ σ = .ok v σ' → Sim (retGo F v κ σ' ks) (f v σ') κ ks) :
    Sim (evalIn e ρ (F :: κ) σ ks) ((r.eval e ρ >>= f) σ) κ ks := by
  rw [bind_apply]
  have h0 := hr.eval e ρ σ (F :: κ) ks
  cases hx : r.eval e ρ σ with
  | ok v σ' =>
    rw [hx] at h0
    exact Sim.of_reach h0 (Sim.step (h v σ' hx))
  | err e' σ' => rw [hx] at h0; exact h0
  | timeout => trivial

/-- apply with frame `F` pushed, then … -/
theorem Sim.applyBind {r : Rec} (hr : SimRec r) (g : Val) (args : List Val) (F : Frame) (f : Val → M Val)
    (σ : St) (κ : Kont) (ks : Array Kont)
    (h : ∀ v σ', r.apply g args σ = .ok v σ' → Sim (retGo F v κ σ' ks) (f v σ') κ ks) :
    Sim (appTo g args (F :: κ) σ ks) ((r.apply g args >>= f) σ) κ ks := by
  rw [bind_apply]
  have h0 := hr.apply g args σ (F :: κ) ks
  cases hx : r.apply g args σ with
  | ok v σ' =>
    rw [hx] at h0
    exact Sim.of_reach h0 (Sim.step (h v σ' hx))
  | err e' σ' => rw [hx] at h0; exact h0
  | timeout => trivial


/-- general form: `e` is evaluated in ANY continuation `κ'`; `f` describes (in `Spec.Eval`'s terms) what the machine
    does once the value has been returned to `κ'`, the final result going to `κ` -/
theorem Sim.evalThen {r : Rec} (hr : SimRec r) (e : Datum) (ρ : Env) (κ' : Kont) (f : Val → M Val)
    (σ : St) (κ : Kont) (ks : Array Kont)
    (h : ∀ v σ', r.eval e ρ σ = .ok v σ' → Sim (retTo v κ' σ' ks) (f v σ') κ ks) :
    Sim (evalIn e ρ κ' σ ks) ((r.eval e ρ >>= f) σ) κ ks := by
  rw [bind_apply]
  have h0 := hr.eval e ρ σ κ' ks
  cases hx : r.eval e ρ σ with
  | ok v σ' =>
    rw [hx] at h0
    exact Sim.of_reach h0 (h v σ' hx)
  | err e' σ' => rw [hx] at h0; exact h0
  | timeout => trivial

theorem Sim.applyThen {r : Rec} (hr : SimRec r) (g : Val) (args : List Val) (κ' : Kont) (f : Val → M Val)
    (σ : St) (κ : Kont) (ks : Array Kont)
    (h : ∀ v σ', r.apply g args σ = .ok v σ' → Sim (retTo v κ' σ' ks) (f v σ') κ ks) :
    Sim (appTo g args κ' σ ks) ((r.apply g args >>= f) σ) κ ks := by
  rw [bind_apply]
  have h0 := hr.apply g args σ κ' ks
  cases hx : r.apply g args σ with
  | ok v σ' =>
    rw [hx] at h0
    exact Sim.of_reach h0 (h v σ' hx)
  | err e' σ' => rw [hx] at h0; exact h0
  | timeout => trivial

/-- `ret v` to a non-empty continuation is one step of `retGo` -/
theorem Sim.ret {F : Frame} {v : Val} {κ' : Kont} {σ : St} {res : Res Val} {κ : Kont} {ks : Array Kont}
    (h : Sim (retGo F v κ' σ ks) res κ ks) : Sim (retTo v (F :: κ') σ ks) res κ ks := Sim.step h

theorem Sim.ev {e : Datum} {ρ : Env} {κ' : Kont} {σ : St} {res : Res Val} {κ : Kont} {ks : Array Kont}
    (h : Sim (evGo e ρ κ' σ ks) res κ ks) : Sim (evalIn e ρ κ' σ ks) res κ ks := Sim.step h

theorem Sim.app {f : Val} {args : List Val} {κ' : Kont} {σ : St} {res : Res Val} {κ : Kont} {ks : Array Kont}
    (h : Sim (appGo false f args κ' σ ks) res κ ks) : Sim (appTo f args κ' σ ks) res κ ks := Sim.step h

/-- `x >>= pure = x` for the state monad of `Spec.Eval` -/
theorem bind_pure_M {α : Type} (x : M α) : (x >>= fun a => (pure a : M α)) = x := by
  funext σ
  rw [bind_apply]
  cases x σ <;> rfl

theorem bind_assoc_M {α β γ : Type} (x : M α) (f : α → M β) (g : β → M γ) :
    ((x >>= f) >>= g) = (x >>= fun a => f a >>= g) := by
  funext σ
  simp only [bind_apply]
  cases x σ <;> rfl

theorem pure_bind_M {α β : Type} (a : α) (f : α → M β) : ((pure a : M α) >>= f) = f a := rfl

theorem throw_bind_M {α β : Type} (e : ErrClass) (f : α → M β) : ((throw e : M α) >>= f) = throw e := rfl

end Marwood.Lemmas.EvalKAgree
