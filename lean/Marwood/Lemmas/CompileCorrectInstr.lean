import Marwood.Lemmas.CompileCorrectStack
/-!
# T01.3 stage 1 — single instructions of the fragment's code (`Vm.step` computed on given cells)
-/
namespace Marwood.Lemmas.CompileCorrect
open Marwood Marwood.Vm

variable {H : Type} {ops : HeapOps H}

theorem readOpcode_eq {s : MSt H} {op : Op} (hl : ops.isLambda s.heap s.ipL = true)
    (h0 : ops.fetch s.heap s.ipL s.ipO = some (.opcode op)) :
    readOpcode ops s = .ok (op, { s with ipO := s.ipO + 1 }) := by
  simp [readOpcode, hl, h0]

theorem readOperand_eq {s : MSt H} {v : VCell} (hl : ops.isLambda s.heap s.ipL = true)
    (h0 : ops.fetch s.heap s.ipL s.ipO = some v) (hv : ∀ o, v ≠ .opcode o) :
    readOperand ops s = .ok (v, { s with ipO := s.ipO + 1 }) := by
  unfold readOperand
  simp only [hl, h0]
  cases v <;> first | rfl | exact absurd rfl (hv _)

/-- `MOV-IMMEDIATE v %acc` -/
theorem step_movImm_acc {s : MSt H} {v : VCell} (hl : ops.isLambda s.heap s.ipL = true)
    (h0 : ops.fetch s.heap s.ipL s.ipO = some (.opcode .movImm))
    (h1 : ops.fetch s.heap s.ipL (s.ipO + 1) = some v) (hv : ∀ o, v ≠ .opcode o)
    (h2 : ops.fetch s.heap s.ipL (s.ipO + 2) = some .acc) :
    step ops s = .ok ({ s with acc := v, ipO := s.ipO + 3 }, false) := by
  unfold step
  rw [readOpcode_eq hl h0]
  simp only [ok_bind]
  rw [readOperand_eq (s := { s with ipO := s.ipO + 1 }) hl h1 hv]
  simp only [ok_bind, storeOperand]
  rw [readOperand_eq (s := { s with ipO := s.ipO + 1 + 1 }) hl h2 (by intro o h; cases h)]
  rfl

/-- `MOV <global n> %acc` of a bound global -/
theorem step_mov_glob_acc {s : MSt H} {n : Nat} (hl : ops.isLambda s.heap s.ipL = true)
    (h0 : ops.fetch s.heap s.ipL s.ipO = some (.opcode .mov))
    (h1 : ops.fetch s.heap s.ipL (s.ipO + 1) = some (.globSlot n))
    (hb : ops.globGet s.heap n ≠ .undefined)
    (h2 : ops.fetch s.heap s.ipL (s.ipO + 2) = some .acc) :
    step ops s = .ok ({ s with acc := ops.globGet s.heap n, ipO := s.ipO + 3 }, false) := by
  unfold step
  rw [readOpcode_eq hl h0]
  simp only [ok_bind, loadOperand]
  rw [readOperand_eq (s := { s with ipO := s.ipO + 1 }) hl h1 (by intro o h; cases h)]
  simp only [ok_bind]
  simp only [storeOperand]
  rw [readOperand_eq (s := { s with ipO := s.ipO + 1 + 1 }) hl h2 (by intro o h; cases h)]
  rfl

/-- `MOV %acc <global n>` -/
theorem step_mov_acc_glob {s : MSt H} {n : Nat} (hl : ops.isLambda s.heap s.ipL = true)
    (h0 : ops.fetch s.heap s.ipL s.ipO = some (.opcode .mov))
    (h1 : ops.fetch s.heap s.ipL (s.ipO + 1) = some .acc)
    (h2 : ops.fetch s.heap s.ipL (s.ipO + 2) = some (.globSlot n)) :
    step ops s = .ok ({ s with heap := ops.globPut s.heap n s.acc, ipO := s.ipO + 3 }, false) := by
  unfold step
  rw [readOpcode_eq hl h0]
  simp only [ok_bind, loadOperand]
  rw [readOperand_eq (s := { s with ipO := s.ipO + 1 }) hl h1 (by intro o h; cases h)]
  simp only [ok_bind, storeOperand]
  rw [readOperand_eq (s := { s with ipO := s.ipO + 1 + 1 }) hl h2 (by intro o h; cases h)]
  rfl

/-- `PUSH %acc` -/
theorem step_pushAcc {s : MSt H} (hl : ops.isLambda s.heap s.ipL = true)
    (h0 : ops.fetch s.heap s.ipL s.ipO = some (.opcode .pushAcc)) :
    step ops s = .ok ({ s with stack := s.stack.push s.acc, ipO := s.ipO + 1 }, false) := by
  unfold step
  rw [readOpcode_eq hl h0]
  rfl

/-- `PUSH-IMMEDIATE v` -/
theorem step_pushImm {s : MSt H} {v : VCell} (hl : ops.isLambda s.heap s.ipL = true)
    (h0 : ops.fetch s.heap s.ipL s.ipO = some (.opcode .pushImm))
    (h1 : ops.fetch s.heap s.ipL (s.ipO + 1) = some v) (hv : ∀ o, v ≠ .opcode o) :
    step ops s = .ok ({ s with stack := s.stack.push v, ipO := s.ipO + 2 }, false) := by
  unfold step
  rw [readOpcode_eq hl h0]
  simp only [ok_bind]
  rw [readOperand_eq (s := { s with ipO := s.ipO + 1 }) hl h1 hv]
  rfl

/-- `JMP o` -/
theorem step_jmp {s : MSt H} {o : Nat} (hl : ops.isLambda s.heap s.ipL = true)
    (h0 : ops.fetch s.heap s.ipL s.ipO = some (.opcode .jmp))
    (h1 : ops.fetch s.heap s.ipL (s.ipO + 1) = some (.ptr o)) :
    step ops s = .ok ({ s with ipO := o }, false) := by
  unfold step
  rw [readOpcode_eq hl h0]
  simp only [ok_bind]
  rw [readOperand_eq (s := { s with ipO := s.ipO + 1 }) hl h1 (by intro o h; cases h)]
  rfl

/-- `JNT o`, `acc` is `#f` -/
theorem step_jnt_false {s : MSt H} {o : Nat} (hl : ops.isLambda s.heap s.ipL = true)
    (h0 : ops.fetch s.heap s.ipL s.ipO = some (.opcode .jnt))
    (h1 : ops.fetch s.heap s.ipL (s.ipO + 1) = some (.ptr o))
    (hf : ops.deref s.heap s.acc = .bool false) :
    step ops s = .ok ({ s with ipO := o }, false) := by
  unfold step
  rw [readOpcode_eq hl h0]
  simp only [ok_bind]
  rw [readOperand_eq (s := { s with ipO := s.ipO + 1 }) hl h1 (by intro o h; cases h)]
  simp only [ok_bind, asPtr, hf]

/-- `JNT o`, `acc` is not `#f` -/
theorem step_jnt_true {s : MSt H} {o : Nat} (hl : ops.isLambda s.heap s.ipL = true)
    (h0 : ops.fetch s.heap s.ipL s.ipO = some (.opcode .jnt))
    (h1 : ops.fetch s.heap s.ipL (s.ipO + 1) = some (.ptr o))
    (hf : ops.deref s.heap s.acc ≠ .bool false) :
    step ops s = .ok ({ s with ipO := s.ipO + 2 }, false) := by
  unfold step
  rw [readOpcode_eq hl h0]
  simp only [ok_bind]
  rw [readOperand_eq (s := { s with ipO := s.ipO + 1 }) hl h1 (by intro o h; cases h)]
  simp only [ok_bind, asPtr]

/-- `runBuiltin` on a generic builtin whose arguments are the `vs` pushed on `st0` -/
theorem runBuiltin_generic {s : MSt H} {id : Nat} {st0 : Stack} {vs : List VCell} {h' : H} {r : VCell}
    (hk : ops.builtinKind s.heap id = .generic)
    (hst : LiveEq ((pushAll st0 vs).push (.argc vs.length)) s.stack) (hw0 : SWF st0) (hw : SWF s.stack)
    (hr : builtinResult ops s.heap id vs.reverse = .ok (h', r)) :
    ∃ st', runBuiltin ops id s = .ok { s with heap := h', stack := st', acc := r } ∧
      LiveEq st0 st' ∧ SWF st' := by
  obtain ⟨hpop, hl1⟩ := pop_of_push hst (pushAll_swf st0 vs hw0)
  obtain ⟨st', hpn, hl2, hw2⟩ := popN_pushAll vs hl1 hw0 (pop_swf hw)
  refine ⟨st', ?_, hl2, hw2⟩
  unfold runBuiltin
  simp only [hk, builtinGeneric, hpop, ok_bind, asArgc, hpn]
  unfold builtinResult at hr
  cases hb : ops.builtinEval s.heap id vs.reverse with
  | err e => rw [hb] at hr; cases hr
  | panic m => rw [hb] at hr; cases hr
  | ok p =>
    obtain ⟨h1, v⟩ := p
    rw [hb] at hr
    simp only [ok_bind]
    cases v <;> simp only at hr ⊢ <;>
      first
      | (cases hr; rfl)
      | (injection hr with hr
         have e : ∀ p : H × VCell, p = (h', r) →
             (Outcome.ok { s with heap := p.1, stack := st', acc := p.2 } : Outcome (MSt H)) =
               .ok { s with heap := h', stack := st', acc := r } := by
           intro p hp; subst hp; rfl
         exact e _ hr)

/-- `CALL %acc` on a generic builtin -/
theorem step_call_builtin {s : MSt H} {id : Nat} {st0 : Stack} {vs : List VCell} {h' : H} {r : VCell}
    (hl : ops.isLambda s.heap s.ipL = true)
    (h0 : ops.fetch s.heap s.ipL s.ipO = some (.opcode .callAcc))
    (hc : ops.callee s.heap s.acc = .builtin id)
    (hk : ops.builtinKind s.heap id = .generic)
    (hst : LiveEq ((pushAll st0 vs).push (.argc vs.length)) s.stack) (hw0 : SWF st0) (hw : SWF s.stack)
    (hr : builtinResult ops s.heap id vs.reverse = .ok (h', r)) :
    ∃ st', step ops s = .ok ({ s with heap := h', stack := st', acc := r, ipO := s.ipO + 1 }, false) ∧
      LiveEq st0 st' ∧ SWF st' := by
  obtain ⟨st', hrb, hl2, hw2⟩ := runBuiltin_generic (s := { s with ipO := s.ipO + 1 }) hk hst hw0 hw hr
  refine ⟨st', ?_, hl2, hw2⟩
  unfold step
  rw [readOpcode_eq hl h0]
  simp only [ok_bind, stepCall, hc, hrb]

/-- `TCALL %acc` on a generic builtin -/
theorem step_tcall_builtin {s : MSt H} {id : Nat} {st0 : Stack} {vs : List VCell} {h' : H} {r : VCell}
    (hl : ops.isLambda s.heap s.ipL = true)
    (h0 : ops.fetch s.heap s.ipL s.ipO = some (.opcode .tcallAcc))
    (hc : ops.callee s.heap s.acc = .builtin id)
    (hk : ops.builtinKind s.heap id = .generic)
    (hst : LiveEq ((pushAll st0 vs).push (.argc vs.length)) s.stack) (hw0 : SWF st0) (hw : SWF s.stack)
    (hr : builtinResult ops s.heap id vs.reverse = .ok (h', r)) :
    ∃ st', step ops s = .ok ({ s with heap := h', stack := st', acc := r, ipO := s.ipO + 1 }, false) ∧
      LiveEq st0 st' ∧ SWF st' := by
  obtain ⟨st', hrb, hl2, hw2⟩ := runBuiltin_generic (s := { s with ipO := s.ipO + 1 }) hk hst hw0 hw hr
  refine ⟨st', ?_, hl2, hw2⟩
  unfold step
  rw [readOpcode_eq hl h0]
  simp only [ok_bind, stepTCall, hc, hrb]

end Marwood.Lemmas.CompileCorrect
