import Marwood.Lemmas.CompileCorrect2FailTop
import Marwood.Lemmas.CompileCorrect2Demo
/-!
# T01.3 stage 2, ERROR case — the laws are satisfiable, and a worked failure inside a closure

`ErrLaws2` holds on the heap of `CompileCorrect2Toy.lean` (`Toy.errLaws`: there is no primitive, and the immediate
values are no procedures for the dispatch). Every hypothesis of `compileExpr_correct2_err` is discharged for
`((lambda (x) (x)) #t)`: CLOSURE, CALL, ENTER, the lexical load of `x`, then `TCALL` on `#t` fails with
`InvalidProcedure` inside the activation; the heap at the failure represents the specification's failure state
(the variable cell of `x` exists and holds `#t`), the top-level stack is intact below the frame.
-/
namespace Marwood.Lemmas.CompileCorrect2.Toy
open Marwood Marwood.Vm Marwood.Lemmas.CompileCorrect Marwood.Lemmas.CompileCorrect2
open Marwood.Spec.Eval (Val Cell evalN k_lambda k_if_)

theorem errLaws (final : List LambdaM) : ErrLaws2 (tD final) where
  call_err := by
    intro n W h σ vf p vs ws c σ' _ hvf
    cases hvf with
    | base hb => cases hb
  callee_other := by
    intro h S v w hv _
    cases hv with
    | base hb =>
      cases w <;> simp only [tVR] at hb <;> first
        | (subst hb; rfl)
        | cases hb
    | pair hs hd _ _ =>
      have : v = .pair _ _ := hd
      subst this
      rfl
    | vec hs hv' _ => cases hv'

def lamA : Datum := Datum.ofList [.sym k_lambda, Datum.ofList [.sym kx], Datum.ofList [.sym kx]]

def progA : Datum := Datum.ofList [lamA, .bool true]

def bodyCodeA : List BC := [.op .pushImm, .argc 0, .op .mov, .envSlot kx, .acc, .op .tcallAcc]

def demoPartsA : LambdaParts :=
  { formals := [kx], isVararg := false, ctx := lamCtx, prologue := [.op .enter],
    body := Datum.ofList [Datum.ofList [.sym kx]] }

def demoLamA : LambdaM := lamOf demoPartsA bodyCodeA

theorem demo_partsA : lambdaParts 18 c0 lamA false = .ok demoPartsA := by rfl

theorem demo_compileA : compileExpr 20 {} c0 0 false progA = .ok ({ lambdas := [demoLamA] }, progCode) :=
  okIs_eq (by decide +kernel)

def demoCellsA : List VCell :=
  [.opcode .enter, .opcode .pushImm, .argc 0, .opcode .mov, .lexEnvSlot 0, .acc, .opcode .tcallAcc, .opcode .ret]

def demoHeapA : THeap :=
  { lams := [⟨demoCellsA, 1, [.arg 0]⟩, ⟨demoCells1, 0, []⟩], envs := #[], clos := #[], globals := #[] }

def demoStateA : MSt THeap :=
  { heap := demoHeapA, stack := ⟨List.replicate 8 .undefined, 0⟩, acc := .undefined, ep := 0, ipL := 1, ipO := 0,
    bp := 0 }

theorem demo_evalA : (evalN 6).eval progA [] demoSt = .err .notProcedure demoSt' := by rfl

abbrev demoDA : RepData2 tops := tD [demoLamA]

theorem demo_fragA : F2 (fun _ => False) 20 c0 (bound []) false progA := by
  have hx : inEnv lamCtx kx = true := by decide
  refine F2.app lamA _ ⟨by decide, by intro x h; cases h⟩ ?_ (F2L.cons _ _ (F2.bool true) F2L.nil)
  refine F2.lambda (Datum.ofList [.sym kx]) _ demoPartsA [kx] _ [] [] demo_partsA (by rfl) rfl rfl (by decide) (by rfl)
    (by intro e he; simp at he; subst he; rfl) rfl (by intro q hq; cases hq) ?_
  exact F2B.last _ (F2.app _ _ ⟨by decide, by intro x h; cases h; decide⟩
    (F2.sym kx ⟨fun _ => .inl (by simp), fun _ => hx⟩) F2L.nil)

theorem demoA_code0 (S : Array Cell) : CodeAt2 demoDA lamCtx.envmap demoHeapA S 0 0 demoLamA.bc := by
  refine CodeAt2.ofAll2 demoCellsA rfl (fun i _ => by rw [Nat.zero_add]; rfl) ?_
  have hslot : Loads2 demoDA lamCtx.envmap demoHeapA S (.envSlot kx) (.lexEnvSlot 0) := ⟨0, by decide, rfl⟩
  exact .cons rfl (.cons rfl (.cons rfl (.cons rfl (.cons hslot (.cons rfl (.cons rfl (.cons rfl .nil)))))))

theorem demoA_code1 (S : Array Cell) : CodeAt2 demoDA c0.envmap demoHeapA S 1 0 progCode := by
  refine CodeAt2.ofAll2 demoCells1 rfl (fun i _ => by rw [Nat.zero_add]; rfl) ?_
  have hb : Loads2 demoDA c0.envmap demoHeapA S (.datum (.bool true)) (.bool true) :=
    ⟨(by intro o e; cases e), .atom rfl (.base rfl)⟩
  have hlam : Loads2 demoDA c0.envmap demoHeapA S (.lambda 0) (.ptr 0) := by
    refine ⟨rfl, fun lamM hl => ?_⟩
    have : lamM = demoLamA := by
      have h0 : ([demoLamA] : List LambdaM)[0]? = some demoLamA := rfl
      have hl' : ([demoLamA] : List LambdaM)[0]? = some lamM := hl
      rw [h0] at hl'; injection hl' with e; exact e.symm
    subst this
    exact ⟨rfl, rfl⟩
  exact .cons rfl (.cons hb (.cons rfl (.cons rfl (.cons rfl (.cons rfl (.cons rfl (.cons hlam (.cons rfl
    (.cons rfl (.cons rfl .nil))))))))))

theorem demoA_inv : Inv2 demoDA W0 demoHeapA demoSt := by
  refine ⟨(by intro x w h; cases h), (by intro x h; cases h), trivial, (by intro x h; cases h), ?_,
    (by intro e n l l' h; cases h), (by intro e n e' n' l h; cases h), (by intro e n l h; cases h)⟩
  intro id lamM hid
  have hid' : ([demoLamA] : List LambdaM)[id]? = some lamM := hid
  cases id with
  | zero =>
    have h0 : ([demoLamA] : List LambdaM)[0]? = some demoLamA := rfl
    rw [h0] at hid'; injection hid' with e; subst e
    exact ⟨demoA_code0 _, rfl⟩
  | succ k => simp at hid'

/-- **Non-vacuity of the error case of stage 2**: `((lambda (x) (x)) #t)` fails with `InvalidProcedure` inside the
    activation; the heap at the failure represents the specification's failure state. -/
theorem demo_closure_fails :
    ∃ W' sf e', ErrRun2 demoDA W' demoStateA demoStateA.stack demoSt demoSt' .notProcedure sf e' ∧
      e' = .invalidProcedure := by
  obtain ⟨W', sf, e', _, r⟩ := compileExpr_correct2_err (laws [demoLamA]) (errLaws [demoLamA]) 20 {} c0 0 false progA _
    progCode [] demo_fragA ctxOK_top demo_compileA (List.prefix_refl _) 6 demoSt .notProcedure demoSt' demo_evalA
    (by decide) W0 demoStateA ⟨0, 0, 0, 0, 0, demoStateA.stack⟩ (demoA_code1 _) rfl demoA_inv (envRep_top _ _ _)
    (by show 0 < 8; omega) (by intro h; cases h)
  refine ⟨W', sf, e', r, ?_⟩
  have hc := r.cls
  cases e' <;> simp [machClass, specClass] at hc ⊢
  split at hc <;> cases hc

end Marwood.Lemmas.CompileCorrect2.Toy
