import Marwood.Lemmas.CompileCorrect3Aux
/-!
# T01.3 stage 3 — statement of the simulation; constants, variables (lexical and global), `set!`, `if`, `lambda`
-/
namespace Marwood.Lemmas.CompileCorrect3
open Marwood Marwood.Vm Marwood.Lemmas.CompileCorrect Marwood.Lemmas.CompileCorrect2
open Marwood.Spec.Eval (Val Prim Cell Env evalN evalStep applyStep evalArgs properList quoteVal kwOf insertG
  k_quote k_if_ k_setBang k_define k_lambda)

variable {H : Type} {ops : HeapOps H} {D : RepData2 ops}

/-- a tail call returned to the caller of the current activation: the state `RET` would have left -/
structure Ret3 (D : RepData2 ops) (W' : World) (s : MSt H) (σ σ' : SSt) (w : Val) (fr : Frame) (s' : MSt H) :
    Prop where
  steps : Steps ops s s'
  ipL : s'.ipL = fr.lc
  ipO : s'.ipO = fr.oc
  ep : s'.ep = fr.epc
  bp : s'.bp = fr.bpc
  stack : LiveEq fr.st0 s'.stack
  swf : SWF s'.stack
  acc : VR3 D W' s'.heap σ'.store s'.acc w
  inv : Inv3 D W' s'.heap σ'
  ext : Ext3 D s.heap σ.store s'.heap σ'.store

/-- the outcome of running code compiled with tail flag `tail`: control falls through behind the code, or
    (tail position only) a tail call has replaced the frame and control is back in the caller -/
def Out3 (D : RepData2 ops) (W' : World) (s : MSt H) (len : Nat) (σ σ' : SSt) (w : Val) (tail : Bool) (fr : Frame)
    (s' : MSt H) : Prop :=
  Run3 D W' s len σ σ' w s' ∨ (tail = true ∧ Ret3 D W' s σ σ' w fr s')

/-- expressions in any position, at specification fuel `n`; in tail position `bp` must point at a frame -/
def ExprOKT3 (D : RepData2 ops) (n : Nat) : Prop :=
  ∀ f cst c base tail e cst' code (ρ : Env) (us : Text → Prop), F3 D.setG f c (bound ρ) us tail e → CtxOK c →
  compileExpr f cst c base tail e = .ok (cst', code) → cst'.lambdas <+: D.final →
  ∀ (σ : SSt) w (σ' : SSt), (evalN n).eval e ρ σ = .ok w σ' →
  ∀ (W : World) (s : MSt H) (fr : Frame), CodeAt2 D c.envmap s.heap σ.store s.ipL base code → s.ipO = base →
    Inv3 D W s.heap σ → EnvRep3 ops W s.heap c s.ep ρ us → SWF s.stack →
    (tail = true → FrameAt s.stack s.bp fr) →
  ∃ W' s', W.le W' ∧ Out3 D W' s code.length σ σ' w tail fr s'

/-- expressions in non-tail position -/
def ExprOK3 (D : RepData2 ops) (n : Nat) : Prop :=
  ∀ f cst c base e cst' code (ρ : Env) (us : Text → Prop), F3 D.setG f c (bound ρ) us false e → CtxOK c →
  compileExpr f cst c base false e = .ok (cst', code) → cst'.lambdas <+: D.final →
  ∀ (σ : SSt) w (σ' : SSt), (evalN n).eval e ρ σ = .ok w σ' →
  ∀ (W : World) (s : MSt H), CodeAt2 D c.envmap s.heap σ.store s.ipL base code → s.ipO = base →
    Inv3 D W s.heap σ → EnvRep3 ops W s.heap c s.ep ρ us → SWF s.stack →
  ∃ W' s', W.le W' ∧ Run3 D W' s code.length σ σ' w s'

theorem ExprOKT3.nontail {n : Nat} (h : ExprOKT3 D n) : ExprOK3 D n := by
  intro f cst c base e cst' code ρ us hf hcx hcomp hpre σ w σ' hev W s hc hip hi her hw
  obtain ⟨W', s', hw', o⟩ := h f cst c base false e cst' code ρ us hf hcx hcomp hpre σ w σ' hev W s
    ⟨0, 0, 0, 0, 0, s.stack⟩ hc hip hi her hw (by intro h; cases h)
  rcases o with r | ⟨ht, _⟩
  · exact ⟨W', s', hw', r⟩
  · cases ht

/-- application of a closure: from the state `CALL` leaves (operands, count, `%ep`, return address pushed;
    `ip` at the start of the closure's lambda) to the state `RET` leaves -/
def CallOK3 (D : RepData2 ops) (n : Nat) : Prop :=
  ∀ ps rest body ρc ws (σ : SSt) w (σ' : SSt), (evalN n).apply (.closure ps rest body ρc) ws σ = .ok w σ' →
  ∀ (W : World) (s : MSt H) lam cenv vs st0 epc lc oc, ops.callee s.heap s.acc = .closure lam cenv →
    ClosOK3 D W s.heap lam cenv ps rest body ρc → Inv3 D W s.heap σ → All2 (VR3 D W s.heap σ.store) vs ws →
    s.ipL = lam → s.ipO = 0 → LiveEq (callFrame st0 vs epc lc oc) s.stack → SWF st0 → SWF s.stack →
  ∃ W' s', W.le W' ∧ Steps ops s s' ∧ s'.ipL = lc ∧ s'.ipO = oc ∧ s'.ep = epc ∧ s'.bp = s.bp ∧
    LiveEq st0 s'.stack ∧ SWF s'.stack ∧ VR3 D W' s'.heap σ'.store s'.acc w ∧ Inv3 D W' s'.heap σ' ∧
    Ext3 D s.heap σ.store s'.heap σ'.store

/-! ## composing runs -/

theorem Run3.append {W1 W2 : World} {s s1 s2 : MSt H} {len1 len2 : Nat} {σ σ1 σ2 : SSt} {v w : Val}
    (r1 : Run3 D W1 s len1 σ σ1 v s1) (r2 : Run3 D W2 s1 len2 σ1 σ2 w s2) :
    Run3 D W2 s (len1 + len2) σ σ2 w s2 :=
  ⟨r1.steps.trans r2.steps, r2.ipL.trans r1.ipL, by rw [r2.ipO, r1.ipO, Nat.add_assoc],
   r2.bp.trans r1.bp, r2.ep.trans r1.ep, r1.stack.trans r2.stack, r2.swf, r2.acc, r2.inv, r1.ext.trans r2.ext⟩

theorem Run3.step_before {W : World} {s s' : MSt H} {o len len' : Nat} {σ σ' : SSt} {w : Val}
    (hs : step ops s = .ok ({ s with ipO := o }, false))
    (r : Run3 D W { s with ipO := o } len σ σ' w s') (ho : o + len = s.ipO + len') :
    Run3 D W s len' σ σ' w s' :=
  ⟨.cons hs r.steps, r.ipL, by rw [r.ipO]; exact ho, r.bp, r.ep, r.stack, r.swf, r.acc, r.inv, r.ext⟩

theorem Run3.step_after {W : World} {s s' : MSt H} {o len len' : Nat} {σ σ' : SSt} {w : Val}
    (r : Run3 D W s len σ σ' w s')
    (hs : step ops s' = .ok ({ s' with ipO := o }, false)) (ho : o = s.ipO + len') :
    Run3 D W s len' σ σ' w { s' with ipO := o } :=
  ⟨r.steps.trans (Steps.one hs), r.ipL, ho, r.bp, r.ep, r.stack, r.swf, r.acc, r.inv, r.ext⟩

/-- a successful prefix in front of a returning run -/
theorem Ret3.prepend {W : World} {s s1 s' : MSt H} {σ σ1 σ' : SSt} {w : Val} {fr : Frame}
    (hst : Steps ops s s1) (hx : Ext3 D s.heap σ.store s1.heap σ1.store) (q : Ret3 D W s1 σ1 σ' w fr s') :
    Ret3 D W s σ σ' w fr s' :=
  ⟨hst.trans q.steps, q.ipL, q.ipO, q.ep, q.bp, q.stack, q.swf, q.acc, q.inv, hx.trans q.ext⟩

theorem Run3.codeAfter {W : World} {s s' : MSt H} {len : Nat} {σ σ' : SSt} {w : Val}
    (r : Run3 D W s len σ σ' w s') {em : List (Text × Source)} {base : Nat} {code : List BC}
    (hc : CodeAt2 D em s.heap σ.store s.ipL base code) : CodeAt2 D em s'.heap σ'.store s'.ipL base code := by
  rw [r.ipL]; exact hc.ext r.ext.toExt2

/-! ## instructions on loaded code -/

theorem run3_movImm_void {em : List (Text × Source)} {s : MSt H} {S : Array Cell}
    (hc : CodeAt2 D em s.heap S s.ipL s.ipO [.op .movImm, .void, .acc]) :
    step ops s = .ok ({ s with acc := .void, ipO := s.ipO + 3 }, false) :=
  step_movImm_acc hc.1 (hc.op 0 rfl) (hc.voidCell 1 rfl) (by intro o h; cases h) (hc.accCell 2 rfl)

theorem run3_void (L : Laws3 D) {em : List (Text × Source)} {W : World} {s : MSt H} {σ : SSt}
    (hc : CodeAt2 D em s.heap σ.store s.ipL s.ipO [.op .movImm, .void, .acc])
    (hi : Inv3 D W s.heap σ) (hw : SWF s.stack) : ∃ s', Run3 D W s 3 σ σ .void s' :=
  ⟨_, ⟨Steps.one (run3_movImm_void hc), rfl, rfl, rfl, rfl, LiveEq.refl _, hw, VR3.void L _ _ _, hi,
    Ext3.refl _ _⟩⟩

/-- constants and quoted data (atoms, pairs, vectors): the compile-time constant represents the value
    `quoteVal` builds; the store grows by the copies `quoteVal` allocates, nothing else changes -/
theorem run3_quote (L : Laws3 D) {em : List (Text × Source)} {W : World} {s : MSt H} {σ σ' : SSt} {w : Val}
    {d : Datum} (hq : quoteVal d σ = .ok w σ')
    (hc : CodeAt2 D em s.heap σ.store s.ipL s.ipO [.op .movImm, .datum d, .acc])
    (hi : Inv3 D W s.heap σ) (hw : SWF s.stack) :
    ∃ s', Run3 D W s 3 σ σ' w s' := by
  obtain ⟨v, hf, hl⟩ := hc.2 1 (.datum d) rfl
  have hs := step_movImm_acc hc.1 (hc.op 0 rfl) hf hl.1 (hc.accCell 2 rfl)
  obtain ⟨hvr, eff⟩ := quote_rep (quoteLaws_of3 L) hl.2 hq
  have hse := StoreExt.ofStorePrefix eff.store
  have hx := Ext3.storeOnly L s.heap hse
  have hinv : Inv3 D W s.heap σ' :=
    hi.frame hx (L.srx_store _ _ _ hse hi.extra) eff.globals (fun _ => rfl) (fun e n l hW => ⟨rfl, by
      obtain ⟨_, u, _, _, h3, _⟩ := hi.vars e n l hW
      rw [eff.store l _ h3, h3]⟩)
  exact ⟨_, ⟨Steps.one hs, rfl, rfl, rfl, rfl, LiveEq.refl _, hw, .base hvr, hinv, hx⟩⟩

/-- variable reference -/
theorem case3_sym (L : Laws3 D) {f : Nat} {cst cst' : CState} {c : Ctx} {base : Nat} {tail : Bool} {x : Text}
    {code : List BC} {ρ : Env} {us : Text → Prop} (hsc : inEnv c x = true ↔ bound ρ x) (hus : ¬ us x) (hcx : CtxOK c)
    (hcomp : compileExpr (f + 1) cst c base tail (.sym x) = .ok (cst', code))
    {r : Spec.Eval.Rec} {σ σ' : SSt} {w : Val} (hev : evalStep r (.sym x) ρ σ = .ok w σ')
    {W : World} {s : MSt H} (hc : CodeAt2 D c.envmap s.heap σ.store s.ipL base code) (hip : s.ipO = base)
    (hi : Inv3 D W s.heap σ) (her : EnvRep3 ops W s.heap c s.ep ρ us) (hw : SWF s.stack) :
    ∃ W' s', W.le W' ∧ Run3 D W' s code.length σ σ' w s' := by
  obtain ⟨rfl, _⟩ := compile_sym_inv2 hcomp
  subst hip
  obtain ⟨rfl, hcase⟩ := evalStep_sym_inv2 hev
  refine ⟨W, ?_⟩
  rcases hcase with ⟨l, hl, hst⟩ | ⟨hl, hg⟩
  · have hin : inEnv c x = true := hsc.mpr (by simp [bound, hl])
    rw [emitLoc_env hin] at hc
    obtain ⟨j, hj, hf1⟩ := hc.envCell 1 rfl
    obtain ⟨e, n, l', hd, hl', hW, hin⟩ := her x j hj
    rw [hl] at hl'; cases hl'
    obtain ⟨v, w', h1, h2, h3, h4⟩ := hi.vars e n l hW
    rw [hst] at h3; cases h3
    obtain ⟨v', g1, _, g3⟩ := hin hus
    rw [h1] at g1; cases g1
    have hs := step_mov_env_acc hc.1 (hc.op 0 rfl) hf1 (hc.accCell 2 rfl) hd h1 h2
    exact ⟨_, World.le_refl _, ⟨Steps.one hs, rfl, rfl, rfl, rfl, LiveEq.refl _, hw, h4 g3, hi, Ext3.refl _ _⟩⟩
  · have hin : inEnv c x = false := by
      cases hb : inEnv c x with
      | false => rfl
      | true => have := hsc.mp hb; simp [bound, hl] at this
    rw [emitLoc_glob hcx hin] at hc
    have hv := hi.bound x w (hc.globalCell 1 rfl).1 hg
    have hs := step_mov_glob_acc hc.1 (hc.op 0 rfl) (hc.globalCell 1 rfl).2 (VR3.ne_undefined L hv)
      (hc.accCell 2 rfl)
    exact ⟨_, World.le_refl _, ⟨Steps.one hs, rfl, rfl, rfl, rfl, LiveEq.refl _, hw, hv, hi, Ext3.refl _ _⟩⟩

/-! ## `set!` -/

/-- a slot denotes one location -/
theorem Denotes.func {h : H} {ep j e n e' n' : Nat} (h1 : Denotes ops h ep j e n) (h2 : Denotes ops h ep j e' n') :
    e = e' ∧ n = n' := by
  rcases h1 with p1 | ⟨rfl, rfl, v1, g1, q1⟩ <;> rcases h2 with p2 | ⟨rfl, rfl, v2, g2, q2⟩
  · rw [p1] at p2; cases p2; exact ⟨rfl, rfl⟩
  · rw [p1] at g2; cases g2; cases q2
  · rw [p2] at g1; cases g1; cases q1
  · exact ⟨rfl, rfl⟩

/-- the store half: `MOV %acc <loc x>; MOV-IMMEDIATE <void> %acc`, lexical variable -/
theorem run3_store_lex (L : Laws3 D) {c : Ctx} {W : World} {s : MSt H} {σ : SSt} {w : Val} {x : Text} {ρ : Env}
    {l : Nat} (hin : inEnv c x = true) (hl : ρ.lookup x = some l) (hlt : l < σ.store.size)
    (hc : CodeAt2 D c.envmap s.heap σ.store s.ipL s.ipO [.op .mov, .acc, emitLoc c x, .op .movImm, .void, .acc])
    (hacc : VR3 D W s.heap σ.store s.acc w) (hi : Inv3 D W s.heap σ) (her : EnvRep3 ops W s.heap c s.ep ρ us)
    (hw : SWF s.stack) :
    ∃ s', Run3 D W s 6 σ { σ with store := σ.store.setIfInBounds l (.var w) } .void s' ∧
      ∀ j e n, slotIdx c.envmap x = some j → Denotes ops s.heap s.ep j e n → InitM ops s'.heap e n := by
  rw [emitLoc_env hin] at hc
  obtain ⟨j, hj, hf2⟩ := hc.envCell 2 rfl
  obtain ⟨e, n, l', hd, hl', hW, _⟩ := her x j hj
  rw [hl] at hl'; cases hl'
  obtain ⟨old, wold, h1, h2, h3, _⟩ := hi.vars e n l hW
  obtain ⟨h', hput, hext, hsrx, hget, hglob⟩ :=
    L.envPut_ok s.heap σ.store e n old s.acc hi.extra (hi.wact e n l hW) h1 h2 (VR3.not_envptr L hacc) (VR3.ne_undefined L hacc)
  have hs1 := step_mov_acc_env hc.1 (hc.op 0 rfl) (hc.accCell 1 rfl) hf2 hd hput
  have hse : StoreExt σ.store (σ.store.setIfInBounds l (.var w)) := StoreExt.setVar _ _ _ _ h3
  have hx2 : Ext3 D s.heap σ.store h' (σ.store.setIfInBounds l (.var w)) := hext.trans (Ext3.storeOnly L h' hse)
  have hc2 : CodeAt2 D c.envmap h' (σ.store.setIfInBounds l (.var w)) s.ipL (s.ipO + 3) [.op .movImm, .void, .acc] :=
    (CodeAt2.right (a := [.op .mov, .acc, .envSlot x]) hc).ext hx2.toExt2
  have hs2 := run3_movImm_void (s := { s with heap := h', ipO := s.ipO + 3 }) hc2
  refine ⟨_, ⟨.cons hs1 (Steps.one hs2), rfl, rfl, rfl, rfl, LiveEq.refl _, hw, VR3.void L _ _ _, ?_, hx2⟩, ?_⟩
  rotate_left
  · intro j' e' n' hj' hd'
    rw [hj] at hj'; cases hj'
    obtain ⟨rfl, rfl⟩ := Denotes.func hd hd'
    exact ⟨s.acc, by show ops.envGet h' _ _ = _; rw [hget]; simp, VR3.not_envptr L hacc, VR3.ne_undefined L hacc⟩
  refine ⟨fun y u hn hy => ?_, fun y hn hy => ?_, L.srx_store _ _ _ hse hsrx, hi.gset, hi.loaded.ext hx2.toExt2, hi.wfun,
    hi.winj, fun e' n' l' hW' => ?_, fun e' n' l' hW' ok => ?_⟩
  rotate_right
  · obtain ⟨v, _, g1, _⟩ := hi.vars e' n' l' hW'
    exact hi.wact e' n' l' hW' (hx2.okBack e' n' v g1 ok)
  · show VR3 D W h' _ (ops.globGet h' _) u
    rw [hglob]; exact (hi.bound y u hn hy).mono hx2 (World.le_refl _)
  · show ops.globGet h' _ = _
    rw [hglob]; exact hi.unbound y hn hy
  · show ∃ v u, ops.envGet h' e' n' = some v ∧ _ ∧ (σ.store.setIfInBounds l (.var w))[l']? = _ ∧ _
    by_cases hsame : e' = e ∧ n' = n
    · obtain ⟨rfl, rfl⟩ := hsame
      have : l' = l := hi.wfun _ _ _ _ hW' hW
      subst this
      refine ⟨s.acc, w, by rw [hget]; simp, VR3.not_envptr L hacc, by simp [hlt],
        fun _ => hacc.mono hx2 (World.le_refl _)⟩
    · obtain ⟨v, u, g1, g2, g3, g4⟩ := hi.vars e' n' l' hW'
      have hne : l ≠ l' := by
        intro e0; subst e0
        exact hsame (hi.winj _ _ _ _ _ hW' hW)
      refine ⟨v, u, by rw [hget]; simp [hsame, g1], g2, by simp [hne, g3],
        fun hv => (g4 hv).mono hx2 (World.le_refl _)⟩

/-- the store half, global variable -/
theorem run3_store_glob (L : Laws3 D) {c : Ctx} {W : World} {s : MSt H} {σ : SSt} {w : Val} {x : Text}
    (hcx : CtxOK c) (hin : inEnv c x = false)
    (hc : CodeAt2 D c.envmap s.heap σ.store s.ipL s.ipO [.op .mov, .acc, emitLoc c x, .op .movImm, .void, .acc])
    (hacc : VR3 D W s.heap σ.store s.acc w) (hi : Inv3 D W s.heap σ) (hw : SWF s.stack) :
    ∃ s', Run3 D W s 6 σ { σ with globals := insertG x w σ.globals } .void s' := by
  rw [emitLoc_glob hcx hin] at hc
  obtain ⟨hnx, hf2⟩ := hc.globalCell 2 rfl
  have hs1 := step_mov_acc_glob hc.1 (hc.op 0 rfl) (hc.accCell 1 rfl) hf2
  obtain ⟨hext, hsrx, henv⟩ := L.globPut_ext s.heap σ.store (D.slot x) s.acc hi.extra
  have hc2 : CodeAt2 D c.envmap (ops.globPut s.heap (D.slot x) s.acc) σ.store s.ipL (s.ipO + 3)
      [.op .movImm, .void, .acc] :=
    (CodeAt2.right (a := [.op .mov, .acc, .global x]) hc).ext hext.toExt2
  have hs2 := run3_movImm_void (s := { s with heap := ops.globPut s.heap (D.slot x) s.acc, ipO := s.ipO + 3 }) hc2
  refine ⟨_, ⟨.cons hs1 (Steps.one hs2), rfl, rfl, rfl, rfl, LiveEq.refl _, hw, VR3.void L _ _ _, ?_, hext⟩⟩
  refine ⟨fun y u hny hy => ?_, fun y hny hy => ?_, hsrx, fun y hy => ?_, hi.loaded.ext hext.toExt2, hi.wfun, hi.winj,
    fun e' n' l' hW' => ?_, fun e' n' l' hW' ok => ?_⟩
  rotate_right
  · obtain ⟨v, _, g1, _⟩ := hi.vars e' n' l' hW'
    exact hi.wact e' n' l' hW' (hext.okBack e' n' v g1 ok)
  · show VR3 D W (ops.globPut s.heap (D.slot x) s.acc) σ.store (ops.globGet _ _) u
    have hy' : (insertG x w σ.globals).lookup y = some u := hy
    rw [Spec.Eval.lookup_insertG] at hy'
    rw [L.glob_get_put _ _ _ _ _ hi.extra hnx]
    by_cases hyx : y = x
    · subst hyx
      simp only [BEq.rfl, if_true] at hy'
      cases hy'
      simp only [if_true]
      exact hacc.mono hext (World.le_refl _)
    · have hne : D.slot y ≠ D.slot x := fun e => hyx (L.slot_inj _ _ hny hnx e)
      have hb : (y == x) = false := by simpa using hyx
      simp only [hb, Bool.false_eq_true, if_false] at hy'
      simp only [hne, if_false]
      exact (hi.bound y u hny hy').mono hext (World.le_refl _)
  · show ops.globGet (ops.globPut s.heap (D.slot x) s.acc) _ = _
    have hy' : (insertG x w σ.globals).lookup y = none := hy
    rw [Spec.Eval.lookup_insertG] at hy'
    by_cases hyx : y = x
    · subst hyx; simp at hy'
    · have hne : D.slot y ≠ D.slot x := fun e => hyx (L.slot_inj _ _ hny hnx e)
      have hb : (y == x) = false := by simpa using hyx
      simp only [hb, Bool.false_eq_true, if_false] at hy'
      rw [L.glob_get_put _ _ _ _ _ hi.extra hnx]
      simp only [hne, if_false]
      exact hi.unbound y hny hy'
  · show (insertG x w σ.globals).lookup y ≠ none
    rw [Spec.Eval.lookup_insertG]
    have := hi.gset y hy
    by_cases hyx : (y == x) = true
    · simp [hyx]
    · simp only [hyx, Bool.false_eq_true, if_false]; exact this
  · obtain ⟨v, u, g1, g2, g3, g4⟩ := hi.vars e' n' l' hW'
    exact ⟨v, u, by rw [henv]; exact g1, g2, g3, fun hv => (g4 hv).mono hext (World.le_refl _)⟩

theorem case3_setBang (L : Laws3 D) {n : Nat} (ih : ExprOK3 D n)
    {f : Nat} {cst cst' : CState} {c : Ctx} {base : Nat} {tail : Bool} {x : Text} {e : Datum} {code : List BC}
    {ρ : Env} {us : Text → Prop} (hsc : inEnv c x = true ↔ bound ρ x) (hfe : F3 D.setG f c (bound ρ) us false e) (hcx : CtxOK c)
    (hcomp : compileExpr (f + 1) cst c base tail
      (.pair (.sym k_setBang) (.pair (.sym x) (.pair e .nil))) = .ok (cst', code))
    (hpre : cst'.lambdas <+: D.final) {σ σ' : SSt} {w : Val}
    (hev : evalStep (evalN n) (.pair (.sym k_setBang) (.pair (.sym x) (.pair e .nil))) ρ σ = .ok w σ')
    {W : World} {s : MSt H} (hc : CodeAt2 D c.envmap s.heap σ.store s.ipL base code) (hip : s.ipO = base)
    (hi : Inv3 D W s.heap σ) (her : EnvRep3 ops W s.heap c s.ep ρ us) (hw : SWF s.stack) :
    ∃ W' s', W.le W' ∧ Run3 D W' s code.length σ σ' w s' := by
  obtain ⟨code1, hc1, rfl⟩ := compile_setBang_inv2 hcomp
  obtain ⟨v, σ1, he, rfl, hcase⟩ := evalStep_setBang_inv2 hev
  subst hip
  obtain ⟨W1, s1, hw1, r1⟩ := ih _ _ _ _ _ _ _ _ _ hfe hcx hc1 hpre σ v σ1 he W s hc.left rfl hi her hw
  have hc2 := (r1.codeAfter hc.right).cast r1.ipO.symm
  have her1 : EnvRep3 ops W1 s1.heap c s1.ep ρ us := by rw [r1.ep]; exact her.ext r1.ext hw1
  rcases hcase with ⟨l, hl, hlt, rfl⟩ | ⟨hl, _, rfl⟩
  · have hin : inEnv c x = true := hsc.mpr (by simp [bound, hl])
    obtain ⟨s2, r2, _⟩ := run3_store_lex L hin hl hlt hc2 r1.acc r1.inv her1 r1.swf
    exact ⟨W1, s2, hw1, by simpa using r1.append r2⟩
  · have hin : inEnv c x = false := by
      cases hb : inEnv c x with
      | false => rfl
      | true => have := hsc.mp hb; simp [bound, hl] at this
    obtain ⟨s2, r2⟩ := run3_store_glob L hcx hin hc2 r1.acc r1.inv r1.swf
    exact ⟨W1, s2, hw1, by simpa using r1.append r2⟩

/-! ## `if` -/

theorem case3_if2 (L : Laws3 D) {n : Nat} (ih : ExprOK3 D n) (iht : ExprOKT3 D n)
    {f : Nat} {cst cst' : CState} {c : Ctx} {base : Nat} {tail : Bool} {t cn : Datum} {code : List BC} {ρ : Env} {us : Text → Prop}
    (hft : F3 D.setG f c (bound ρ) us false t) (hfc : F3 D.setG f c (bound ρ) us tail cn) (hcx : CtxOK c)
    (hcomp : compileExpr (f + 1) cst c base tail (.pair (.sym k_if_) (.pair t (.pair cn .nil))) = .ok (cst', code))
    (hpre : cst'.lambdas <+: D.final) {σ σ' : SSt} {w : Val}
    (hev : evalStep (evalN n) (.pair (.sym k_if_) (.pair t (.pair cn .nil))) ρ σ = .ok w σ')
    {W : World} {s : MSt H} {fr : Frame}
    (hc : CodeAt2 D c.envmap s.heap σ.store s.ipL base code) (hip : s.ipO = base)
    (hi : Inv3 D W s.heap σ) (her : EnvRep3 ops W s.heap c s.ep ρ us) (hw : SWF s.stack)
    (hfr : tail = true → FrameAt s.stack s.bp fr) :
    ∃ W' s', W.le W' ∧ Out3 D W' s code.length σ σ' w tail fr s' := by
  obtain ⟨cst1, tcode, ccode, hct, hcc, rfl⟩ := compile_if2_inv2 hcomp
  obtain ⟨v, σ1, het, hbr⟩ := evalStep_if2_inv hev
  subst hip
  have hcT := hc.left.left.left.left
  have hcJ := hc.left.left.left.right
  have hcC := hc.left.left.right
  have hcK := hc.left.right
  have hcV := hc.right
  have hpre1 : cst1.lambdas <+: D.final := ((monoOK3 _ f).1 _ _ _ _ _ _ _ _ _ hfc hcc).trans hpre
  obtain ⟨W1, s1, hw1, r1⟩ := ih _ _ _ _ _ _ _ _ _ hft hcx hct hpre1 σ v σ1 het W s hcT rfl hi her hw
  have hcJ1 := (r1.codeAfter hcJ).cast r1.ipO.symm
  have her1 : EnvRep3 ops W1 s1.heap c s1.ep ρ us := by rw [r1.ep]; exact her.ext r1.ext hw1
  have hfr1 : tail = true → FrameAt s1.stack s1.bp fr := by
    intro ht; rw [r1.bp]; exact (hfr ht).of_liveEq r1.stack
  have hlen : (tcode ++ [BC.op .jnt, BC.target (s.ipO + tcode.length + 2 + ccode.length + 2)] ++ ccode
      ++ [BC.op .jmp, BC.target (s.ipO + tcode.length + 2 + ccode.length + 2 + 3)]
      ++ [BC.op .movImm, BC.void, BC.acc]).length = tcode.length + 2 + ccode.length + 2 + 3 := by
    simp only [List.length_append, List.length_cons, List.length_nil]
  rw [hlen]
  have ipo1 := r1.ipO
  rcases hbr with ⟨htr, hec⟩ | ⟨rfl, rfl, rfl⟩
  · have hne : ops.deref s1.heap s1.acc ≠ .bool false := fun e =>
      not_false_of_truthy htr ((VR3.truth L r1.acc).mp e)
    have hj := step_jnt_true hcJ1.1 (hcJ1.op 0 rfl) (hcJ1.targetCell 1 rfl) hne
    have hcC1 : CodeAt2 D c.envmap s1.heap σ1.store s1.ipL (s.ipO + tcode.length + 2) ccode :=
      (r1.codeAfter hcC).cast (by simp only [List.length_append, List.length_cons, List.length_nil]; omega)
    obtain ⟨W3, s3, hw3, o3⟩ := iht _ _ _ _ _ _ _ _ _ _ hfc hcx hcc hpre σ1 w σ' hec W1 { s1 with ipO := s1.ipO + 2 } fr
      hcC1 (by show s1.ipO + 2 = _; omega) r1.inv her1 r1.swf hfr1
    rcases o3 with r3 | ⟨ht, q3⟩
    · have r13 := r1.append (Run3.step_before (len' := 2 + ccode.length) hj r3 (by show _ = s1.ipO + _; omega))
      have hcK3 : CodeAt2 D c.envmap s3.heap σ'.store s3.ipL s3.ipO
          [BC.op .jmp, BC.target (s.ipO + tcode.length + 2 + ccode.length + 2 + 3)] :=
        (r13.codeAfter hcK).cast (by
          rw [r13.ipO]; simp only [List.length_append, List.length_cons, List.length_nil]; omega)
      have hk := step_jmp hcK3.1 (hcK3.op 0 rfl) (hcK3.targetCell 1 rfl)
      exact ⟨W3, _, World.le_trans hw1 hw3, .inl (r13.step_after hk (by omega))⟩
    · exact ⟨W3, s3, World.le_trans hw1 hw3, .inr ⟨ht, Ret3.prepend (r1.steps.trans (Steps.one hj)) r1.ext q3⟩⟩
  · have hf : ops.deref s1.heap s1.acc = .bool false := (VR3.truth L r1.acc).mpr rfl
    have hj := step_jnt_false hcJ1.1 (hcJ1.op 0 rfl) (hcJ1.targetCell 1 rfl) hf
    have hcV1 : CodeAt2 D c.envmap s1.heap σ'.store s1.ipL (s.ipO + tcode.length + 2 + ccode.length + 2)
        [BC.op .movImm, BC.void, BC.acc] :=
      (r1.codeAfter hcV).cast (by simp only [List.length_append, List.length_cons, List.length_nil]; omega)
    obtain ⟨s3, r3⟩ := run3_void L
      (s := { s1 with ipO := s.ipO + tcode.length + 2 + ccode.length + 2 }) hcV1 r1.inv r1.swf
    have := r1.append (Run3.step_before (len' := 2 + ccode.length + 2 + 3) hj r3
      (by show _ = s1.ipO + _; omega))
    exact ⟨W1, s3, hw1, .inl (by
      have e : tcode.length + (2 + ccode.length + 2 + 3) = tcode.length + 2 + ccode.length + 2 + 3 := by omega
      rw [e] at this; exact this)⟩

theorem case3_if3 (L : Laws3 D) {n : Nat} (ih : ExprOK3 D n) (iht : ExprOKT3 D n)
    {f : Nat} {cst cst' : CState} {c : Ctx} {base : Nat} {tail : Bool} {t cn a : Datum} {code : List BC} {ρ : Env} {us : Text → Prop}
    (hft : F3 D.setG f c (bound ρ) us false t) (hfc : F3 D.setG f c (bound ρ) us tail cn) (hfa : F3 D.setG f c (bound ρ) us tail a)
    (hcx : CtxOK c)
    (hcomp : compileExpr (f + 1) cst c base tail
      (.pair (.sym k_if_) (.pair t (.pair cn (.pair a .nil)))) = .ok (cst', code))
    (hpre : cst'.lambdas <+: D.final) {σ σ' : SSt} {w : Val}
    (hev : evalStep (evalN n) (.pair (.sym k_if_) (.pair t (.pair cn (.pair a .nil)))) ρ σ = .ok w σ')
    {W : World} {s : MSt H} {fr : Frame}
    (hc : CodeAt2 D c.envmap s.heap σ.store s.ipL base code) (hip : s.ipO = base)
    (hi : Inv3 D W s.heap σ) (her : EnvRep3 ops W s.heap c s.ep ρ us) (hw : SWF s.stack)
    (hfr : tail = true → FrameAt s.stack s.bp fr) :
    ∃ W' s', W.le W' ∧ Out3 D W' s code.length σ σ' w tail fr s' := by
  obtain ⟨cst1, cst2, tcode, ccode, acode, hct, hcc, hca, rfl⟩ := compile_if3_inv2 hcomp
  obtain ⟨v, σ1, het, hbr⟩ := evalStep_if3_inv hev
  subst hip
  have hcT := hc.left.left.left.left
  have hcJ := hc.left.left.left.right
  have hcC := hc.left.left.right
  have hcK := hc.left.right
  have hcA := hc.right
  have hpre2 : cst2.lambdas <+: D.final := ((monoOK3 _ f).1 _ _ _ _ _ _ _ _ _ hfa hca).trans hpre
  have hpre1 : cst1.lambdas <+: D.final := ((monoOK3 _ f).1 _ _ _ _ _ _ _ _ _ hfc hcc).trans hpre2
  obtain ⟨W1, s1, hw1, r1⟩ := ih _ _ _ _ _ _ _ _ _ hft hcx hct hpre1 σ v σ1 het W s hcT rfl hi her hw
  have hcJ1 := (r1.codeAfter hcJ).cast r1.ipO.symm
  have her1 : EnvRep3 ops W1 s1.heap c s1.ep ρ us := by rw [r1.ep]; exact her.ext r1.ext hw1
  have hfr1 : tail = true → FrameAt s1.stack s1.bp fr := by
    intro ht; rw [r1.bp]; exact (hfr ht).of_liveEq r1.stack
  have hlen : (tcode ++ [BC.op .jnt, BC.target (s.ipO + tcode.length + 2 + ccode.length + 2)] ++ ccode
      ++ [BC.op .jmp, BC.target (s.ipO + tcode.length + 2 + ccode.length + 2 + acode.length)]
      ++ acode).length = tcode.length + 2 + ccode.length + 2 + acode.length := by
    simp only [List.length_append, List.length_cons, List.length_nil]
  rw [hlen]
  have ipo1 := r1.ipO
  rcases hbr with ⟨htr, hec⟩ | ⟨rfl, hea⟩
  · have hne : ops.deref s1.heap s1.acc ≠ .bool false := fun e =>
      not_false_of_truthy htr ((VR3.truth L r1.acc).mp e)
    have hj := step_jnt_true hcJ1.1 (hcJ1.op 0 rfl) (hcJ1.targetCell 1 rfl) hne
    have hcC1 : CodeAt2 D c.envmap s1.heap σ1.store s1.ipL (s.ipO + tcode.length + 2) ccode :=
      (r1.codeAfter hcC).cast (by simp only [List.length_append, List.length_cons, List.length_nil]; omega)
    obtain ⟨W3, s3, hw3, o3⟩ := iht _ _ _ _ _ _ _ _ _ _ hfc hcx hcc hpre2 σ1 w σ' hec W1 { s1 with ipO := s1.ipO + 2 } fr
      hcC1 (by show s1.ipO + 2 = _; omega) r1.inv her1 r1.swf hfr1
    rcases o3 with r3 | ⟨ht, q3⟩
    · have r13 := r1.append (Run3.step_before (len' := 2 + ccode.length) hj r3 (by show _ = s1.ipO + _; omega))
      have hcK3 : CodeAt2 D c.envmap s3.heap σ'.store s3.ipL s3.ipO
          [BC.op .jmp, BC.target (s.ipO + tcode.length + 2 + ccode.length + 2 + acode.length)] :=
        (r13.codeAfter hcK).cast (by
          rw [r13.ipO]; simp only [List.length_append, List.length_cons, List.length_nil]; omega)
      have hk := step_jmp hcK3.1 (hcK3.op 0 rfl) (hcK3.targetCell 1 rfl)
      exact ⟨W3, _, World.le_trans hw1 hw3, .inl (r13.step_after hk (by omega))⟩
    · exact ⟨W3, s3, World.le_trans hw1 hw3, .inr ⟨ht, Ret3.prepend (r1.steps.trans (Steps.one hj)) r1.ext q3⟩⟩
  · have hf : ops.deref s1.heap s1.acc = .bool false := (VR3.truth L r1.acc).mpr rfl
    have hj := step_jnt_false hcJ1.1 (hcJ1.op 0 rfl) (hcJ1.targetCell 1 rfl) hf
    have hcA1 : CodeAt2 D c.envmap s1.heap σ1.store s1.ipL (s.ipO + tcode.length + 2 + ccode.length + 2) acode :=
      (r1.codeAfter hcA).cast (by simp only [List.length_append, List.length_cons, List.length_nil]; omega)
    obtain ⟨W3, s3, hw3, o3⟩ := iht _ _ _ _ _ _ _ _ _ _ hfa hcx hca hpre σ1 w σ' hea W1
      { s1 with ipO := s.ipO + tcode.length + 2 + ccode.length + 2 } fr hcA1 rfl r1.inv her1 r1.swf hfr1
    rcases o3 with r3 | ⟨ht, q3⟩
    · have := r1.append (Run3.step_before (len' := 2 + ccode.length + 2 + acode.length) hj r3
        (by show _ = s1.ipO + _; omega))
      exact ⟨W3, s3, World.le_trans hw1 hw3, .inl (by
        have e : tcode.length + (2 + ccode.length + 2 + acode.length)
            = tcode.length + 2 + ccode.length + 2 + acode.length := by omega
        rw [e] at this; exact this)⟩
    · exact ⟨W3, s3, World.le_trans hw1 hw3, .inr ⟨ht, Ret3.prepend (r1.steps.trans (Steps.one hj)) r1.ext q3⟩⟩

end Marwood.Lemmas.CompileCorrect3
