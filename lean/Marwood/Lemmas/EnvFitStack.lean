import Marwood.Lemmas.EnvFitOps
/-!
# The slot clause of T06.6 as an invariant (3): the stack, and rebuilding `FInv` after an instruction

`PairsOk` under push / pop / set; `FInv.next` — the successor of an instruction that stays in the same code object and
environment; facts read off `FInv`.
-/
namespace Marwood.Lemmas.Good
open Marwood Marwood.Vm Marwood.Vm.Verify Marwood.Vm.Concrete Marwood.Lemmas.Sim
open Marwood.Heap (GcState)
open StepC

/-! ## the stack -/

/-- the cell a push writes -/
theorem push_top (st : Stack) (v : VCell) : (st.push v).cells[st.sp + 1]? = some v := by
  unfold Stack.push
  split
  · simp only; rw [List.getElem?_set_self (by omega)]
  · simp only; rw [List.getElem?_set_self (by simp; omega)]

/-- pushing a cell that is not an `InstructionPointer` -/
theorem PairsOk.push {h : CHeap} {st : Stack} {v : VCell} (x : PairsOk h st.cells st.sp) (hv : NIP v) :
    PairsOk h (st.push v).cells (st.push v).sp := by
  intro i e l o hi he hl
  rw [push_sp] at hi
  by_cases htop : i + 1 = st.sp + 1
  · rw [htop, push_top] at hl
    cases hl; exact absurd rfl (hv l o)
  · rcases push_get (show i ≤ st.sp by omega) he with he' | he' <;> try (cases he'; done)
    rcases push_get (show i + 1 ≤ st.sp by omega) hl with hl' | hl' <;> try (cases hl'; done)
    exact x i e l o (by omega) he' hl'

/-- pushing an `InstructionPointer`: the cell under it, if an `EnvironmentPointer`, has to fit -/
theorem PairsOk.push_ip {h : CHeap} {st : Stack} {l o : Nat} (x : PairsOk h st.cells st.sp)
    (htop : ∀ e, st.cells[st.sp]? = some (.envPtr e) → Fit h e l) :
    PairsOk h (st.push (.instrPtr l o)).cells (st.push (.instrPtr l o)).sp := by
  intro i e l' o' hi he hl
  rw [push_sp] at hi
  by_cases hi2 : i + 1 = st.sp + 1
  · rw [hi2, push_top] at hl
    cases hl
    have hi3 : i = st.sp := by omega
    subst hi3
    rcases push_get (Nat.le_refl _) he with he' | he'
    · exact htop e he'
    · cases he'
  · rcases push_get (show i ≤ st.sp by omega) he with he' | he' <;> try (cases he'; done)
    rcases push_get (show i + 1 ≤ st.sp by omega) hl with hl' | hl' <;> try (cases hl'; done)
    exact x i e l' o' (by omega) he' hl'

/-- CALL's two pushes -/
theorem PairsOk.push_frame {h : CHeap} {st : Stack} {e l o : Nat} (x : PairsOk h st.cells st.sp) (hf : Fit h e l) :
    PairsOk h ((st.push (.envPtr e)).push (.instrPtr l o)).cells ((st.push (.envPtr e)).push (.instrPtr l o)).sp := by
  refine PairsOk.push_ip (x.push (fun _ _ hh => by cases hh)) ?_
  intro e' he'
  rw [push_sp, push_top] at he'
  cases he'; exact hf

/-- same cells, smaller or equal stack pointer -/
theorem PairsOk.resp {h : CHeap} {st st' : Stack} (x : PairsOk h st.cells st.sp) (hc : st'.cells = st.cells)
    (hsp : st'.sp ≤ st.sp) : PairsOk h st'.cells st'.sp := by
  rw [hc]; exact x.mono hsp

theorem PairsOk.pop {h : CHeap} {st st' : Stack} {v : VCell} (x : PairsOk h st.cells st.sp)
    (hp : st.pop = .ok (v, st')) : PairsOk h st'.cells st'.sp := by
  obtain ⟨_, _, p3, p4⟩ := pop_inv hp
  exact x.resp p4 (by omega)

theorem PairsOk.popN {h : CHeap} {st st' : Stack} {n : Nat} {vs : List VCell} (x : PairsOk h st.cells st.sp)
    (hp : Marwood.Vm.popN n st = .ok (vs, st')) : PairsOk h st'.cells st'.sp := by
  obtain ⟨q1, q2, _⟩ := popN_inv n hp
  exact x.resp q1 (by omega)

/-- overwriting a cell with one that is neither header cell, whatever the bound -/
theorem PairsOk.set {h : CHeap} {st st' : Stack} {B : Nat} {v : VCell} {k : Nat} (x : PairsOk h st.cells B) (hv : NHdr v)
    (hs : st.set k v = .ok st') : PairsOk h st'.cells B ∧ st'.sp = st.sp ∧ st'.cells.length = st.cells.length := by
  unfold Stack.set at hs
  split at hs
  · cases hs
    refine ⟨?_, rfl, by simp⟩
    intro i e l o hi he hl
    simp only at he hl
    by_cases h1 : i = k
    · subst h1
      rw [List.getElem?_set_self (by assumption)] at he
      cases he; exact absurd rfl (hv.1 e)
    · by_cases h2 : i + 1 = k
      · subst h2
        rw [List.getElem?_set_self (by assumption)] at hl
        cases hl; exact absurd rfl (hv.2 l o)
      · rw [List.getElem?_set_ne (by omega)] at he hl
        exact x i e l o hi he hl
  · cases hs

theorem PairsOk.setOffset {h : CHeap} {st st' : Stack} {B : Nat} {v : VCell} {off : Int} (x : PairsOk h st.cells B)
    (hv : NHdr v) (hs : st.setOffset off v = .ok st') :
    PairsOk h st'.cells B ∧ st'.sp = st.sp ∧ st'.cells.length = st.cells.length := by
  unfold Stack.setOffset at hs
  simp only at hs
  split at hs
  · exact x.set hv hs
  · cases hs

/-! ## header cells of the live stack refer to allocated cells -/

theorem hdr_nf_env {s : St CHeap} (g : GoodI s) {i e : Nat} (hi : i ≤ s.stack.sp)
    (hv : s.stack.cells[i]? = some (.envPtr e)) : NF s.heap e := nf_envPtr (roots_stack g.roots hi hv)

theorem hdr_nf_ip {s : St CHeap} (g : GoodI s) {i l o : Nat} (hi : i ≤ s.stack.sp)
    (hv : s.stack.cells[i]? = some (.instrPtr l o)) : NF s.heap l := nf_instrPtr (roots_stack g.roots hi hv)

/-- `PairsOk` in a later heap: the header cells have to refer to allocated cells of the earlier one -/
theorem PairsOk.keep' {h h' : CHeap} {cells : List VCell} {sp : Nat} (k : FitKeep h h')
    (nfe : ∀ i e, i ≤ sp → cells[i]? = some (.envPtr e) → NF h e)
    (nfl : ∀ i l o, i ≤ sp → cells[i]? = some (.instrPtr l o) → NF h l) (x : PairsOk h cells sp) :
    PairsOk h' cells sp := by
  intro i e l o hi he hl
  exact k e l (nfe i e (by omega) he) (nfl (i + 1) l o hi hl) (x i e l o hi he hl)

/-! ## typing facts -/

theorem InPre.ls {h h' : CHeap} (ls : LamSame h h') {l o : Nat} : InPre h' l o ↔ InPre h l o := by
  unfold InPre; rw [ls l]

theorem calleeLam_keep {N : CCell → Prop} {h h' : CHeap} (g : HG h) (x : FStep N h h') {acc : VCell}
    (ha : VRefsOk h acc) {lam : Nat} (hc : calleeLam h acc = some lam) : calleeLam h' acc = some lam := by
  unfold calleeLam callee at hc ⊢
  cases acc with
  | ptr p =>
    simp only at hc ⊢
    cases hcell : h.cells[p]? with
    | none => rw [hcell] at hc; cases hc
    | some c =>
      rw [hcell] at hc
      have hnf : NF h p := VRefsOk.ptr.mp ha
      have hk : h'.cells[p]? = some c := by
        refine x.keep p c hcell ?_ ?_
        · rcases hnf.cases g with ⟨k1, _⟩ | k1
          · exact k1
          · have := lt_of_get_some hcell; have := hg_bound g; omega
        · intro ss hh; subst hh; simp [calleeOfCell] at hc
      rw [hk]; exact hc
  | closure l e => exact hc
  | builtin id => exact hc
  | _ => cases hc

/-! ## rebuilding the invariant -/

/-- **the successor of an instruction that stays in the same code object and environment** (`ip.0`, `ep` unchanged):
    the heap changed by an `FStep` whose new cells satisfy their clause, the current `(ep, ip.0)` fitted, the new offset
    is not a prologue offset, the new stack's pairs fit (in the OLD heap) and its header cells refer to allocated cells -/
theorem FInv.next {N : CCell → Prop} {s s' : St CHeap} (g : GoodI s) (b' : s'.heap.cells.size ≤ 2 ^ 63) (f : FInv s)
    (x : FStep N s.heap s'.heap)
    (hN : ∀ (i : Nat) (c : CCell), s'.heap.cells[i]? = some c → N c → CellF s'.heap c)
    (hfit : Fit s.heap s.ep s.ipL) (hep : s'.ep = s.ep) (hl : s'.ipL = s.ipL)
    (hnp : ¬ InPre s.heap s.ipL s'.ipO)
    (hstk : PairsOk s.heap s'.stack.cells s'.stack.sp)
    (nfe : ∀ i e, i ≤ s'.stack.sp → s'.stack.cells[i]? = some (.envPtr e) → NF s.heap e)
    (nfl : ∀ i l o, i ≤ s'.stack.sp → s'.stack.cells[i]? = some (.instrPtr l o) → NF s.heap l) : FInv s' := by
  have k := x.fitKeep g.hg b'
  refine ⟨HF.step g.hg b' f.hf x hN, hstk.keep' k nfe nfl, ?_, ?_⟩
  · intro hp
    rw [hl, InPre.ls x.ls] at hp
    exact absurd hp hnp
  · intro _
    rw [hep, hl]
    exact k _ _ (roots_ep g.roots) (roots_ipL g.roots) hfit

/-- the same when the stack cells at or below the new `sp` are cells of the old live stack -/
theorem FInv.next_old {N : CCell → Prop} {s s' : St CHeap} (g : GoodI s) (b' : s'.heap.cells.size ≤ 2 ^ 63) (f : FInv s)
    (x : FStep N s.heap s'.heap)
    (hN : ∀ (i : Nat) (c : CCell), s'.heap.cells[i]? = some c → N c → CellF s'.heap c)
    (hfit : Fit s.heap s.ep s.ipL) (hep : s'.ep = s.ep) (hl : s'.ipL = s.ipL)
    (hnp : ¬ InPre s.heap s.ipL s'.ipO)
    (hc : s'.stack.cells = s.stack.cells) (hsp : s'.stack.sp ≤ s.stack.sp) : FInv s' := by
  refine FInv.next g b' f x hN hfit hep hl hnp (f.stk.resp hc hsp) ?_ ?_
  · intro i e hi hv; rw [hc] at hv; exact hdr_nf_env g (by omega) hv
  · intro i l o hi hv; rw [hc] at hv; exact hdr_nf_ip g (by omega) hv

/-! ## the callee's code starts in a prologue -/

/-- a verified procedure-code lambda is in the verifier state `pre` at offset 0 -/
theorem inPre_zero {h : CHeap} (ci : CInvG IsValue h) {lam : Nat} (hp : procAt h lam = true) : InPre h lam 0 := by
  unfold procAt at hp
  cases hl : lambdaAt h lam with
  | none => rw [hl] at hp; cases hp
  | some l =>
    rw [hl] at hp
    have hv := ci.lamVer lam l (lambdaAt_iff.mp hl)
    cases ht : verifyLam l.bc with
    | none => rw [ht] at hv; cases hv
    | some t =>
      have he : t.entry = false := by rw [verifyLam_entry ht]; simpa using hp
      obtain ⟨_, hchk⟩ := verifyLam_spec ht
      have h0 := checkAll_init hchk
      rw [he] at h0
      exact ⟨l, t, hl, ht, he, h0⟩

/-- what CALL / TCALL / ENTER dispatch on is procedure code (from the callee guard being invisible) -/
theorem procAt_of_calleeOk {s : St CHeap} (ok : CalleeOk s) {lam : Nat} (hc : calleeLam s.heap s.acc = some lam) :
    procAt s.heap lam = true := by
  unfold CalleeOk gcallee at ok
  unfold calleeLam at hc
  cases hcal : callee s.heap s.acc with
  | closure l e =>
    rw [hcal] at hc ok
    simp only at hc ok
    cases hc
    by_cases hp : procAt s.heap lam = true
    · exact hp
    · simp [hp] at ok
  | lambda =>
    rw [hcal] at hc ok
    simp only at hc ok
    cases hacc : s.acc with
    | ptr p =>
      rw [hacc] at hc ok
      simp only at hc ok
      cases hc
      by_cases hp : procAt s.heap lam = true
      · exact hp
      · simp [hp] at ok
    | _ => rw [hacc] at hc; simp at hc
  | builtin id => rw [hcal] at hc; cases hc
  | continuation c => rw [hcal] at hc; cases hc
  | other => rw [hcal] at hc; cases hc

/-! ## the law of the unmodelled operations -/

/-- allocated lambda cells are kept -/
def LamKeep (h h' : CHeap) : Prop := ∀ l lam, lambdaAt h l = some lam → lambdaAt h' l = some lam

/-- **What `FInv` needs from the operations that are parameters of the concrete model** (a parameter, not an axiom):
    between two heaps satisfying the heap-simulation invariant, the generic builtins, `eval`'s compiler and VPUSH's push
    keep `HF` (every closure cell they create fits, every code object `eval` creates has fitting children), do not
    change the length of an allocated environment or an allocated lambda (`FitKeep`, `LamKeep`), and a closure a builtin
    returns inline (`car` of a pair holding a procedure: `maybe_put` then stores a copy) fits. -/
structure ExtFit (ext : ExtOps) : Prop where
  eval : ∀ (h : CHeap) (id : Nat) (args : List VCell) (h' : CHeap) (v : VCell), HG h → HG h' → HF h → LF h →
    (∀ a ∈ args, VOk h a) → ext.builtinEval h id args = .ok (h', v) →
    HF h' ∧ FitKeep h h' ∧ LamKeep h h' ∧ ∀ l e, v = .closure l e → Fit h' e l
  compile : ∀ (h : CHeap) (d : VCell) (h' : CHeap) (v : VCell), HG h → HG h' → HF h → LF h → VRefsOk h d →
    ext.compileEval h d = .ok (h', v) → HF h' ∧ FitKeep h h' ∧ LamKeep h h' ∧ ∀ l e, v = .closure l e → Fit h' e l
  vpush : ∀ (h : CHeap) (vec a : VCell) (h' : CHeap), HG h → HG h' → HF h → LF h → VRefsOk h vec → VOk h a →
    ext.vectorPush h vec a = .ok h' → HF h' ∧ FitKeep h h' ∧ LamKeep h h'

theorem InPre.lamKeep {h h' : CHeap} (lk : LamKeep h h') {l o : Nat} {lam : CLambda} (hl : lambdaAt h l = some lam)
    (x : InPre h' l o) : InPre h l o := by
  obtain ⟨lam', t, h1, h2, h3, h4⟩ := x
  rw [lk l lam hl] at h1
  cases h1
  exact ⟨lam, t, hl, h2, h3, h4⟩

end Marwood.Lemmas.Good
