import Marwood.Lemmas.EnvRefineRel
/-!
# T02.4, part 3: the simulation relation is kept by reads, assignments and definitions
-/
namespace Marwood.Vm.EnvRefine
open Marwood Marwood.Scope Marwood.Vm.Env Marwood.Spec.Scope

/-! ## small facts -/

theorem getElem?_lt {α : Type} {a : Array α} {i : Nat} {v : α} (h : a[i]? = some v) : i < a.size := by
  rcases Nat.lt_or_ge i a.size with h1 | h1
  · exact h1
  · simp [Array.getElem?_eq_none h1] at h

theorem find?_setGlobal_ne (gl : List (Name × MVal)) (x y : Name) (v : MVal) (hne : y ≠ x) :
    ((x, v) :: gl.filter (·.1 != x)).find? (·.1 == y) = gl.find? (·.1 == y) := by
  have hxy : (x == y) = false := by simp [Ne.symm hne]
  simp only [List.find?_cons, hxy]
  induction gl with
  | nil => rfl
  | cons p gl ih =>
    by_cases hp : p.1 = x
    · have h1 : (p.1 != x) = false := by simp [hp]
      have h2 : (p.1 == y) = false := by simp [hp, Ne.symm hne]
      simp [List.filter_cons, h1, List.find?_cons, h2, ih]
    · have h1 : (p.1 != x) = true := by simp [hp]
      simp only [List.filter_cons, h1, if_true, List.find?_cons, ih]

theorem find?_setGlobal_eq (gl : List (Name × MVal)) (x : Name) (v : MVal) :
    ((x, v) :: gl.filter (·.1 != x)).find? (·.1 == x) = some (x, v) := by
  simp [List.find?_cons]

/-! ## the relation survives heap changes that leave the mapped slots alone -/

theorem StRel.evolve {β : LocMap} {s : SSt} {t : MSt} (r : StRel β s t) (h' : Envs MVal)
    (hev : Evolves t.envs h') (hone : OneLevel h')
    (hkeep : ∀ l e i, β l = some (e, i) → ∀ arr g, t.envs.envs[e]? = some arr → arr[i]? = some g →
      ∃ arr', h'.envs[e]? = some arr' ∧ arr'[i]? = some g) :
    StRel β s { t with envs := h' } := by
  have e : Ext β t.envs β h' := ⟨fun _ _ hp => hp, hev⟩
  refine ⟨r.counter, r.log.mono e, ⟨?_, r.glob.free, r.glob.inj⟩, ⟨?_, r.heap.inj⟩, hone⟩
  · intro x l hl
    obtain ⟨h1, sv, mv, h2, h3, h4⟩ := r.glob.bound x l hl
    exact ⟨h1, sv, mv, h2, h3, h4.mono e⟩
  · intro l e' i hb
    obtain ⟨sv, arr, g, h1, h2, h3, h4⟩ := r.heap.slot l e' i hb
    obtain ⟨arr', h5, h6⟩ := hkeep l e' i hb arr g h2 h3
    exact ⟨sv, arr', g, h1, h5, h6, h4.mono e⟩

/-- CLOSURE: a new environment, nothing else touched -/
theorem StRel.push {β : LocMap} {s : SSt} {t : MSt} (r : StRel β s t) (arr : Array (Slot MVal))
    (hone : OneLevel (t.envs.push arr).1) : StRel β s { t with envs := (t.envs.push arr).1 } :=
  r.evolve _ (Evolves.push _ _) hone fun _ _ _ _ a g ha hg => ⟨a, push_get_old _ _ _ _ ha, hg⟩

/-- orphan locations (allocated by a failing `bindParams`) are harmless -/
theorem StRel.orphans {β : LocMap} {s : SSt} {t : MSt} (r : StRel β s t) (extra : Array SVal) :
    StRel β { s with store := s.store ++ extra } t := by
  have old : ∀ (l : Nat) (sv : SVal), s.store[l]? = some sv → (s.store ++ extra)[l]? = some sv := by
    intro l sv hl
    have := getElem?_lt hl
    rw [Array.getElem?_append_left this]; exact hl
  refine ⟨r.counter, r.log, ⟨?_, r.glob.free, r.glob.inj⟩, ⟨?_, r.heap.inj⟩, r.one⟩
  · intro x l hl
    obtain ⟨h1, sv, mv, h2, h3, h4⟩ := r.glob.bound x l hl
    exact ⟨h1, sv, mv, old _ _ h2, h3, h4⟩
  · intro l e i hb
    obtain ⟨sv, arr, g, h1, h2, h3, h4⟩ := r.heap.slot l e i hb
    exact ⟨sv, arr, g, old _ _ h1, h2, h3, h4⟩

theorem StRel.logCons {β : LocMap} {s : SSt} {t : MSt} (r : StRel β s t) (ev : Event) (v' : MVal)
    (hv : VRel β t.envs ev.val v') :
    StRel β { s with log := ev :: s.log } { t with log := (ev.site, v') :: t.log } :=
  ⟨r.counter, .cons ⟨rfl, hv⟩ r.log, ⟨r.glob.bound, r.glob.free, r.glob.inj⟩, r.heap, r.one⟩

theorem StRel.tick {β : LocMap} {s : SSt} {t : MSt} (r : StRel β s t) :
    StRel β { s with counter := s.counter + 1 } { t with counter := t.counter + 1 } :=
  ⟨by simp [r.counter], r.log, ⟨r.glob.bound, r.glob.free, r.glob.inj⟩, r.heap, r.one⟩

/-! ## reading a variable -/

open Marwood.Vm.EnvRun in
/-- a reference: if the specification finds the location and it is initialised, the compiled
    operand loads a related value and the state is unchanged -/
theorem sim_read {β : LocMap} {s : SSt} {t : MSt} {N ctx ep ρ acts} (r : StRel β s t)
    (a : ActRel β t.envs N ctx ep ρ acts) (x : Name) (hN : N x) (l : Loc) (sv : SVal)
    (hl : resolve x ρ = some l ∨ (resolve x ρ = none ∧ s.globals.find? x = some l))
    (hs : s.store[l]? = some sv) (hv : sv ≠ .undef) :
    ∃ mv, exec (readVar ctx ep x) t = (.ok mv, t) ∧ VRel β t.envs sv mv := by
  rcases a.bindingLocation x hN with ⟨l', sl, ae, e, i, hr, hb, hep, ht, hβ⟩ | ⟨hr, hb⟩
  · have hll : l = l' := by
      rcases hl with h | ⟨h, _⟩ <;> rw [hr] at h <;> cases h
      rfl
    subst hll
    obtain ⟨sv', arr, g, h1, h2, h3, h4⟩ := r.heap.slot l e i hβ
    rw [hs] at h1
    cases h1
    rcases h4.2 with h5 | ⟨mv, rfl, hrel⟩
    · exact absurd h5 hv
    · refine ⟨mv, ?_, hrel⟩
      subst hep
      have hload := load_of_target t.envs ae sl e i arr _ ht h2 h3
      simp [readVar, hb, exec_bind, hload, liftFault]
  · have hg : s.globals.find? x = some l := by
      rcases hl with h | ⟨_, h⟩
      · rw [hr] at h; cases h
      · exact h
    · obtain ⟨_, sv', mv, h2, h3, h4⟩ := r.glob.bound x l hg
      rw [hs] at h2
      cases h2
      refine ⟨mv, ?_, h4⟩
      have hne := h4.ne_undef'
      simp only [readVar, hb, exec_bind, exec_get, h3]
      cases mv <;> simp_all

/-! ## assigning a variable -/

theorem store_ok (h : Envs MVal) (a sl e i : Nat) (arr : Array (Slot MVal)) (v : MVal)
    (ht : target h a sl = .ok (e, i)) (ha : h.envs[e]? = some arr) (hi : i < arr.size) :
    store h a sl v = .ok ⟨h.envs.setIfInBounds e (arr.setIfInBounds i (.val v))⟩ := by
  simp [store, ht, bind, Except.bind, Envs.getEnv, ha, putSlot, hi, pure, Except.pure]

open Marwood.Vm.EnvRun in
/-- an assignment (or internal definition): both sides write the related values into
    corresponding places -/
theorem sim_write {β : LocMap} {s : SSt} {t : MSt} {N ctx ep ρ acts} (r : StRel β s t)
    (a : ActRel β t.envs N ctx ep ρ acts) (x : Name) (hN : N x) (l : Loc) (sv : SVal) (mv : MVal)
    (hl : resolve x ρ = some l ∨ (resolve x ρ = none ∧ s.globals.find? x = some l))
    (hv : VRel β t.envs sv mv) :
    ∃ t', exec (writeVar ctx ep x mv) t = (.ok ⟨⟩, t') ∧ Ext β t.envs β t'.envs ∧
      StRel β { s with store := s.store.setIfInBounds l sv } t' := by
  rcases a.bindingLocation x hN with ⟨l', sl, ae, e, i, hr, hb, hep, ht, hβ⟩ | ⟨hr, hb⟩
  · have hll : l = l' := by
      rcases hl with h | ⟨h, _⟩ <;> rw [hr] at h <;> cases h
      rfl
    subst hll
    subst hep
    obtain ⟨sv0, arr, g, h1, h2, h3, h4⟩ := r.heap.slot l e i hβ
    have hi := getElem?_lt h3
    have hst := store_ok t.envs ae sl e i arr mv ht h2 hi
    have hev := store_evolves_of_oneLevel _ _ r.one ae sl mv hst
    have hone := store_oneLevel _ _ r.one ae sl mv hst
    have ext : Ext β t.envs β ⟨t.envs.envs.setIfInBounds e (arr.setIfInBounds i (.val mv))⟩ :=
      ⟨fun _ _ hp => hp, hev⟩
    have helt := getElem?_lt h2
    have hllt := getElem?_lt h1
    refine ⟨{ t with envs := ⟨t.envs.envs.setIfInBounds e (arr.setIfInBounds i (.val mv))⟩ }, ?_, ext, ?_⟩
    · simp [writeVar, hb, exec_bind, hst, liftFault]
    · refine ⟨r.counter, r.log.mono ext, ⟨?_, r.glob.free, r.glob.inj⟩, ⟨?_, r.heap.inj⟩, hone⟩
      · intro y ly hy
        obtain ⟨g1, svy, mvy, g2, g3, g4⟩ := r.glob.bound y ly hy
        have hne : l ≠ ly := fun hh => by subst hh; rw [hβ] at g1; cases g1
        exact ⟨g1, svy, mvy, by simp [Array.getElem?_setIfInBounds, hne, g2], g3, g4.mono ext⟩
      · intro l2 e2 i2 hb2
        by_cases hll : l2 = l
        · subst hll
          rw [hβ] at hb2
          cases hb2
          exact ⟨sv, arr.setIfInBounds i (.val mv), .val mv,
            by simp [Array.getElem?_setIfInBounds, hllt],
            by simp [Array.getElem?_setIfInBounds, helt],
            by simp [Array.getElem?_setIfInBounds, hi],
            rfl, Or.inr ⟨mv, rfl, hv.mono ext⟩⟩
        · obtain ⟨sv2, arr2, g2, k1, k2, k3, k4⟩ := r.heap.slot l2 e2 i2 hb2
          have hpne : (e2, i2) ≠ (e, i) := fun hh => hll (r.heap.inj l2 l (e, i) (hh ▸ hb2) hβ)
          have hl2 : l ≠ l2 := fun hh => hll hh.symm
          refine ⟨sv2, ?_⟩
          by_cases hee : e = e2
          · subst hee
            rw [h2] at k2
            cases k2
            have hii : i ≠ i2 := fun hh => hpne (by rw [hh])
            exact ⟨arr.setIfInBounds i (.val mv), g2,
              by simp [Array.getElem?_setIfInBounds, hl2, k1],
              by simp [Array.getElem?_setIfInBounds, helt],
              by simp [Array.getElem?_setIfInBounds, hii, k3], k4.mono ext⟩
          · exact ⟨arr2, g2, by simp [Array.getElem?_setIfInBounds, hl2, k1],
              by simp [Array.getElem?_setIfInBounds, hee, k2], k3, k4.mono ext⟩
  · have hg : s.globals.find? x = some l := by
      rcases hl with h | ⟨_, h⟩
      · rw [hr] at h; cases h
      · exact h
    · obtain ⟨g1, sv0, mv0, g2, g3, g4⟩ := r.glob.bound x l hg
      have hllt := getElem?_lt g2
      refine ⟨{ t with globals := (x, mv) :: t.globals.filter (·.1 != x) }, ?_, Ext.refl _ _, ?_⟩
      · simp [writeVar, hb, exec_setGlobal]
      · refine ⟨r.counter, r.log, ⟨?_, ?_, r.glob.inj⟩, ⟨?_, r.heap.inj⟩, r.one⟩
        · intro y ly hy
          by_cases hyx : y = x
          · subst hyx
            rw [hg] at hy
            cases hy
            exact ⟨g1, sv, mv, by simp [Array.getElem?_setIfInBounds, hllt], find?_setGlobal_eq _ _ _, hv⟩
          · obtain ⟨k1, svy, mvy, k2, k3, k4⟩ := r.glob.bound y ly hy
            have hne : l ≠ ly := fun hh => hyx (r.glob.inj y x l (hh ▸ hy) hg)
            exact ⟨k1, svy, mvy, by simp [Array.getElem?_setIfInBounds, hne, k2],
              by rw [find?_setGlobal_ne _ _ _ _ hyx]; exact k3, k4⟩
        · intro y hy
          have hyx : y ≠ x := fun hh => by subst hh; rw [hg] at hy; cases hy
          show List.find? _ ((x, mv) :: t.globals.filter (·.1 != x)) = none
          rw [find?_setGlobal_ne _ _ _ _ hyx]
          exact r.glob.free y hy
        · intro l2 e2 i2 hb2
          obtain ⟨sv2, arr2, g2', k1, k2, k3, k4⟩ := r.heap.slot l2 e2 i2 hb2
          have hne : l ≠ l2 := fun hh => by subst hh; rw [g1] at hb2; cases hb2
          exact ⟨sv2, arr2, g2', by simp [Array.getElem?_setIfInBounds, hne, k1], k2, k3, k4⟩

/-! ## a top-level definition -/

theorem Frame.find?_cons_ne (x y : Name) (l : Loc) (fr : Frame) (h : y ≠ x) :
    Frame.find? y ((x, l) :: fr) = Frame.find? y fr := by
  simp [Frame.find?, Ne.symm h]

/-- `(define x e)` at top level when `x` is not yet defined: a fresh location on one side, a new
    entry of the global table on the other -/
theorem sim_define_fresh {β : LocMap} {s : SSt} {t : MSt} (r : StRel β s t) (x : Name) (sv : SVal) (mv : MVal)
    (hg : s.globals.find? x = none) (hv : VRel β t.envs sv mv) :
    StRel β { s with store := s.store.push sv, globals := (x, s.store.size) :: s.globals }
      { t with globals := (x, mv) :: t.globals.filter (·.1 != x) } := by
  have old : ∀ (l : Nat) (v : SVal), s.store[l]? = some v → (s.store.push sv)[l]? = some v := by
    intro l v hl
    have := getElem?_lt hl
    simp [Array.getElem?_push, Nat.ne_of_lt this, hl]
  have hβ : β s.store.size = none := by
    cases hb : β s.store.size with
    | none => rfl
    | some p =>
      obtain ⟨sv', _, _, h1, _⟩ := r.heap.slot _ p.1 p.2 hb
      have := getElem?_lt h1
      omega
  refine ⟨r.counter, r.log, ⟨?_, ?_, ?_⟩, ⟨?_, r.heap.inj⟩, r.one⟩
  · intro y ly hy
    by_cases hyx : y = x
    · subst hyx
      simp only [Frame.find?, if_true, Option.some.injEq] at hy
      subst hy
      exact ⟨hβ, sv, mv, by simp, find?_setGlobal_eq _ _ _, hv⟩
    · rw [Frame.find?_cons_ne _ _ _ _ hyx] at hy
      obtain ⟨k1, svy, mvy, k2, k3, k4⟩ := r.glob.bound y ly hy
      exact ⟨k1, svy, mvy, old _ _ k2, by rw [find?_setGlobal_ne _ _ _ _ hyx]; exact k3, k4⟩
  · intro y hy
    have hyx : y ≠ x := fun hh => by subst hh; simp [Frame.find?] at hy
    rw [Frame.find?_cons_ne _ _ _ _ hyx] at hy
    show List.find? _ ((x, mv) :: t.globals.filter (·.1 != x)) = none
    rw [find?_setGlobal_ne _ _ _ _ hyx]
    exact r.glob.free y hy
  · intro y z l hy hz
    have key : ∀ w lw, Frame.find? w s.globals = some lw → lw < s.store.size := by
      intro w lw hw
      obtain ⟨_, svw, _, k2, _⟩ := r.glob.bound w lw hw
      exact getElem?_lt k2
    by_cases hyx : y = x <;> by_cases hzx : z = x
    · rw [hyx, hzx]
    · subst hyx
      simp only [Frame.find?, if_true, Option.some.injEq] at hy
      rw [Frame.find?_cons_ne _ _ _ _ hzx] at hz
      have := key z l hz
      subst hy
      exact absurd this (Nat.lt_irrefl _)
    · subst hzx
      simp only [Frame.find?, if_true, Option.some.injEq] at hz
      rw [Frame.find?_cons_ne _ _ _ _ hyx] at hy
      have := key y l hy
      subst hz
      exact absurd this (Nat.lt_irrefl _)
    · rw [Frame.find?_cons_ne _ _ _ _ hyx] at hy
      rw [Frame.find?_cons_ne _ _ _ _ hzx] at hz
      exact r.glob.inj y z l hy hz
  · intro l2 e2 i2 hb2
    obtain ⟨sv2, arr2, g2, k1, k2, k3, k4⟩ := r.heap.slot l2 e2 i2 hb2
    exact ⟨sv2, arr2, g2, old _ _ k1, k2, k3, k4⟩

end Marwood.Vm.EnvRefine
