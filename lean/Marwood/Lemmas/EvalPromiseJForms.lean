import Marwood.Lemmas.EvalPromiseJSteps
/-! Forward simulation with a frame (`SimJ`): mirror of `EvalExtraForms.lean` (see `EvalPromiseJ.lean`). -/
namespace Marwood.Spec.Eval.ExtraJ
open Marwood Marwood.Spec.Eval Marwood.Spec.Eval.Extra

variable {f : LMap} {J : Junk} {r r' : Rec} {B : List Text} {ρ ρ' : Env}

theorem simJ_allocVars {xs xs'} (h : BindsRel f xs xs') : ∀ {ρ ρ'}, EnvRel f B ρ ρ' →
    SimJ f J (EnvRel f B) (allocVars xs ρ) (allocVars xs' ρ') := by
  induction h with
  | nil => intro ρ ρ' he; exact SimJ.pure _ _ he
  | cons x hv _ ih =>
    intro ρ ρ' he
    simp only [allocVars]
    refine SimJ.bind (simJ_allocCell (.var hv)) (fun l l' hl => ?_)
    exact ih (he.cons x hl)

theorem simJ_makeClosure (formals body : Datum) (he : EnvRel f B ρ ρ') (hb : CleanB B body) :
    SimJ f J (VRel f) (makeClosure formals body ρ) (makeClosure formals body ρ') := by
  unfold makeClosure
  split
  · rename_i ps rest b bs _ h2
    exact SimJ.pure _ _ (.closure ps rest (b :: bs) ρ ρ' B he (cleanBs_properList h2 hb))
  · exact SimJ.throw _

theorem simJ_defineValue (hr : RecSimJ f J r r') (he : EnvRel f B ρ ρ') (d : Datum) (hd : CleanB B d) :
    SimJ f J (fun p p' => p'.1 = p.1 ∧ p.1 ∉ B ∧ VRel f p.2 p'.2) (defineValue r ρ d) (defineValue r' ρ' d) := by
  unfold defineValue
  split
  · rename_i y e
    simp only [cleanB_pair, cleanB_sym] at hd
    split
    · exact SimJ.throw _
    · refine SimJ.bind (hr.eval e ρ ρ' B he hd.2.2.1) (fun v v' hv => ?_)
      exact SimJ.pure _ _ ⟨rfl, hd.2.1, hv⟩
  · rename_i g formals body
    simp only [cleanB_pair, cleanB_sym] at hd
    split
    · exact SimJ.throw _
    · refine SimJ.bind (simJ_makeClosure formals body he hd.2.2) (fun v v' hv => ?_)
      exact SimJ.pure _ _ ⟨rfl, hd.2.1.1, hv⟩
  · exact SimJ.throw _

theorem simJ_assignVar (hf : Inj f) (he : EnvRel f B ρ ρ') (y : Text) (hy : y ∉ B) {v v' : Val} (hv : VRel f v v') :
    SimJ f J (fun _ _ => True) (assignVar ρ y v) (assignVar ρ' y v') := by
  unfold assignVar
  have := he y hy
  revert this
  generalize List.lookup y ρ = o
  generalize List.lookup y ρ' = o'
  intro h
  cases h with
  | none => exact simJ_setGlobal y hv
  | some l => exact simJ_writeCell hf rfl (.var hv)

theorem simJ_evalBodyForms (hf : Inj f) (hr : RecSimJ f J r r') (he : EnvRel f B ρ ρ') : ∀ (es : List Datum) (defs : Bool), CleanBs B es →
    SimJ f J (VRel f) (evalBodyForms r ρ defs es) (evalBodyForms r' ρ' defs es)
  | [], _, _ => by simp only [evalBodyForms]; exact SimJ.throw _
  | [e], defs, h => by
    rw [cleanBs_cons] at h
    simp only [evalBodyForms]
    split
    · refine SimJ.bind (simJ_defineValue hr he e h.1) (fun p p' hp => ?_)
      obtain ⟨x, v⟩ := p
      obtain ⟨x', v'⟩ := p'
      simp only at hp
      obtain ⟨rfl, hx, hv⟩ := hp
      refine SimJ.bind (simJ_assignVar hf he x' hx hv) (fun _ _ _ => ?_)
      exact SimJ.pure _ _ .void
    · exact hr.eval e ρ ρ' B he h.1
  | e :: e' :: es, defs, h => by
    rw [cleanBs_cons] at h
    simp only [evalBodyForms]
    split
    · refine SimJ.bind (simJ_defineValue hr he e h.1) (fun p p' hp => ?_)
      obtain ⟨x, v⟩ := p
      obtain ⟨x', v'⟩ := p'
      simp only at hp
      obtain ⟨rfl, hx, hv⟩ := hp
      refine SimJ.bind (simJ_assignVar hf he x' hx hv) (fun _ _ _ => ?_)
      exact simJ_evalBodyForms hf hr he (e' :: es) true h.2
    · refine SimJ.bind (hr.eval e ρ ρ' B he h.1) (fun _ _ _ => ?_)
      exact simJ_evalBodyForms hf hr he (e' :: es) false h.2

theorem simJ_evalBody (hf : Inj f) (hr : RecSimJ f J r r') (he : EnvRel f B ρ ρ') (body : List Datum) (h : CleanBs B body) :
    SimJ f J (VRel f) (evalBody r ρ body) (evalBody r' ρ' body) := by
  unfold evalBody
  refine SimJ.bind (simJ_allocVars (bindsRel_const (fun x => x) .undef _) he) (fun ρ1 ρ1' he1 => ?_)
  exact simJ_evalBodyForms hf hr he1 body true h

theorem simJ_bindArgs : ∀ (ps : List Text) (rest : Option Text) {args args' : List Val}, VsRel f args args' → ∀ {ρ ρ'}, EnvRel f B ρ ρ' →
    SimJ f J (EnvRel f B) (bindArgs ps rest args ρ) (bindArgs ps rest args' ρ') := by
  intro ps
  induction ps with
  | nil =>
    intro rest args args' ha ρ ρ' he
    cases rest with
    | none =>
      cases ha with
      | nil => simp only [bindArgs]; exact SimJ.pure _ _ he
      | cons _ _ => simp only [bindArgs]; exact SimJ.throw _
    | some rr =>
      simp only [bindArgs]
      refine SimJ.bind (simJ_allocList ha) (fun lst lst' hl => ?_)
      refine SimJ.bind (simJ_allocCell (.var hl)) (fun l l' hl' => ?_)
      exact SimJ.pure _ _ (he.cons rr hl')
  | cons p ps ih =>
    intro rest args args' ha ρ ρ' he
    cases ha with
    | nil => simp only [bindArgs]; exact SimJ.throw _
    | cons hv hvs =>
      simp only [bindArgs]
      refine SimJ.bind (simJ_allocCell (.var hv)) (fun l l' hl => ?_)
      exact ih rest hvs (he.cons p hl)

theorem simJ_qq (hr : RecSimJ f J r r') (he : EnvRel f B ρ ρ') : ∀ (n : Nat) (d : Datum) (depth : Nat), dsz d ≤ n → CleanB B d →
    SimJ f J (VRel f) (qq r ρ d depth) (qq r' ρ' d depth) ∧ SimJ f J (VsRel f) (qqElems r ρ d depth) (qqElems r' ρ' d depth) := by
  intro n
  induction n with
  | zero => intro d depth hn; cases d <;> simp [dsz] at hn
  | succ n ih =>
    intro d depth hn hc
    refine ⟨?_, ?_⟩
    · unfold qq
      split
      · rename_i s y
        simp only [cleanB_pair, cleanB_sym] at hc
        simp only [dsz] at hn
        have hy : ∀ k, SimJ f J (VRel f) (qq r ρ y k) (qq r' ρ' y k) := fun k => (ih y k (by omega) hc.2.1).1
        have hl : ∀ {w w' : Val}, VRel f w w' → SimJ f J (VRel f) (allocList [.sym s, w]) (allocList [.sym s, w']) :=
          fun h => simJ_allocList (.cons (.sym s) (.cons h .nil))
        split
        · split
          · exact hr.eval y ρ ρ' B he hc.2.1
          · exact SimJ.bind (hy _) (fun w w' hw => hl hw)
        · split
          · exact SimJ.bind (hy _) (fun w w' hw => hl hw)
          · exact SimJ.bind (hy _) (fun w w' hw => hl hw)
      · rename_i a d2 _
        simp only [cleanB_pair] at hc
        simp only [dsz] at hn
        refine SimJ.bind (ih a _ (by omega) hc.1).1 (fun a1 a2 ha => ?_)
        refine SimJ.bind (ih d2 _ (by omega) hc.2).1 (fun t1 t2 ht => ?_)
        exact simJ_cons ha ht
      · rename_i e
        simp only [cleanB_vec] at hc
        simp only [dsz] at hn
        refine SimJ.bind (ih e _ (by omega) hc).2 (fun xs xs' hxs => ?_)
        exact simJ_allocVec hxs
      · exact simJ_quoteVal _
    · unfold qqElems
      split
      · rename_i a d2
        simp only [cleanB_pair] at hc
        simp only [dsz] at hn
        refine SimJ.bind (ih a _ (by omega) hc.1).1 (fun a1 a2 ha => ?_)
        refine SimJ.bind (ih d2 _ (by omega) hc.2).2 (fun t1 t2 ht => ?_)
        exact SimJ.pure _ _ (.cons ha ht)
      · exact SimJ.pure _ _ .nil

theorem simJ_evalCond (hr : RecSimJ f J r r') (he : EnvRel f B ρ ρ') : ∀ (cs : List Datum), CleanBs B cs →
    SimJ f J (VRel f) (evalCond r ρ cs) (evalCond r' ρ' cs)
  | [], _ => SimJ.pure _ _ .void
  | c :: cs, h => by
    rw [cleanBs_cons] at h
    simp only [evalCond]
    split
    · rename_i t body hp
      have hcl := cleanBs_properList hp h.1
      rw [cleanBs_cons] at hcl
      split
      · split
        · exact simJ_evalExprs hr he body hcl.2
        · exact SimJ.throw _
      · refine SimJ.bind (hr.eval t ρ ρ' B he hcl.1) (fun v v' hv => ?_)
        rw [hv.truthy]
        split
        · split
          · exact SimJ.pure _ _ hv
          · rename_i arrow g
            have hb := hcl.2
            simp only [cleanBs_cons] at hb
            split
            · refine SimJ.bind (hr.eval g ρ ρ' B he hb.2.1) (fun fv fv' hfv => ?_)
              exact hr.apply _ _ _ _ hfv (.cons hv .nil)
            · exact simJ_evalExprs hr he _ hcl.2
          · exact simJ_evalExprs hr he body hcl.2
        · exact simJ_evalCond hr he cs h.2
    · exact SimJ.throw _

theorem simJ_evalCase (hr : RecSimJ f J r r') (he : EnvRel f B ρ ρ') {key key' : Val} (hk : VRel f key key') : ∀ (cs : List Datum), CleanBs B cs →
    SimJ f J (VRel f) (evalCase r ρ key cs) (evalCase r' ρ' key' cs)
  | [], _ => SimJ.pure _ _ .void
  | c :: cs, h => by
    rw [cleanBs_cons] at h
    have ek : eqvDatum key' = eqvDatum key := funext (fun d => hk.eqvDatum d)
    simp only [evalCase, ek]
    split
    · rename_i sel bodyD
      have hc := h.1
      simp only [cleanB_pair] at hc
      split
      · rename_i body hp
        have hb : CleanBs B body := cleanBs_properList hp hc.2
        split
        · exact SimJ.throw _
        · exact simJ_evalCase hr he hk cs h.2
        · split
          · rename_i arrow g
            have hb' := hb
            simp only [cleanBs_cons] at hb'
            split
            · refine SimJ.bind (hr.eval g ρ ρ' B he hb'.2.1) (fun fv fv' hfv => ?_)
              exact hr.apply _ _ _ _ hfv (.cons hk .nil)
            · exact simJ_evalExprs hr he _ hb
          · exact simJ_evalExprs hr he body hb
      · exact SimJ.throw _
    · exact SimJ.throw _

theorem simJ_evalLetStar (hf : Inj f) (hr : RecSimJ f J r r') (body : List Datum) (hb : CleanBs B body) : ∀ (bs : List (Text × Datum)) {ρ ρ'}, EnvRel f B ρ ρ' →
    (∀ b ∈ bs, CleanB B b.2) → SimJ f J (VRel f) (evalLetStar r body bs ρ) (evalLetStar r' body bs ρ')
  | [], ρ, ρ', he, _ => by simp only [evalLetStar]; exact simJ_evalBody hf hr he body hb
  | (y, e) :: bs, ρ, ρ', he, h => by
    simp only [evalLetStar]
    refine SimJ.bind (hr.eval e ρ ρ' B he (h (y, e) (by simp))) (fun v v' hv => ?_)
    refine SimJ.bind (simJ_allocCell (.var hv)) (fun l l' hl => ?_)
    exact simJ_evalLetStar hf hr body hb bs (he.cons y hl) (fun b hb' => h b (by simp [hb']))

theorem simJ_evalVar (he : EnvRel f B ρ ρ') (s : Text) (hs : s ∉ B) : SimJ f J (VRel f) (evalVar s ρ) (evalVar s ρ') := by
  unfold evalVar
  split
  · exact SimJ.throw _
  · have := he s hs
    revert this
    generalize List.lookup s ρ = o
    generalize List.lookup s ρ' = o'
    intro h
    cases h with
    | none => exact simJ_getGlobal s
    | some l => exact simJ_readVar rfl

theorem simJ_evalLetrecInits (hf : Inj f) (hr : RecSimJ f J r r') (he : EnvRel f B ρ ρ') : ∀ (bs : List (Text × Datum)),
    (∀ b ∈ bs, b.1 ∉ B ∧ CleanB B b.2) → SimJ f J (fun _ _ => True) (evalLetrecInits r ρ bs) (evalLetrecInits r' ρ' bs)
  | [], _ => SimJ.pure _ _ trivial
  | (y, e) :: bs, h => by
    simp only [evalLetrecInits]
    have h1 := h (y, e) (by simp)
    refine SimJ.bind (hr.eval e ρ ρ' B he h1.2) (fun v v' hv => ?_)
    refine SimJ.bind (simJ_assignVar hf he y h1.1 hv) (fun _ _ _ => ?_)
    exact simJ_evalLetrecInits hf hr he bs (fun b hb => h b (by simp [hb]))

theorem simJ_evalKw (hf : Inj f) (hr : RecSimJ f J r r') (he : EnvRel f B ρ ρ') (k : Kw) (rest : Datum) (hc : CleanB B rest) :
    SimJ f J (VRel f) (evalKw r ρ k rest) (evalKw r' ρ' k rest) := by
  cases k with
  | quote =>
    simp only [evalKw]
    split
    · exact simJ_quoteVal _
    · exact SimJ.throw _
  | quasiquote =>
    simp only [evalKw]
    split
    · simp only [cleanB_pair] at hc; exact (simJ_qq hr he _ _ _ (Nat.le_refl _) hc.1).1
    · exact SimJ.throw _
  | unquote => exact SimJ.throw _
  | define => exact SimJ.throw _
  | lambda =>
    simp only [evalKw]
    split
    · simp only [cleanB_pair] at hc; exact simJ_makeClosure _ _ he hc.2
    · exact SimJ.throw _
  | setBang =>
    simp only [evalKw]
    split
    · rename_i y e hp
      have hd := cleanBs_properList hp hc
      simp only [cleanBs_cons, cleanB_sym] at hd
      split
      · exact SimJ.throw _
      · refine SimJ.bind (hr.eval e ρ ρ' B he hd.2.1) (fun v v' hv => ?_)
        refine SimJ.bind (simJ_assignVar hf he y hd.1 hv) (fun _ _ _ => ?_)
        exact SimJ.pure _ _ .void
    · exact SimJ.throw _
  | if_ =>
    simp only [evalKw]
    split
    · rename_i t c hp
      have hd := cleanBs_properList hp hc
      simp only [cleanBs_cons] at hd
      refine SimJ.bind (hr.eval t ρ ρ' B he hd.1) (fun v v' hv => ?_)
      rw [hv.truthy]
      split
      · exact hr.eval c ρ ρ' B he hd.2.1
      · exact SimJ.pure _ _ .void
    · rename_i t c a hp
      have hd := cleanBs_properList hp hc
      simp only [cleanBs_cons] at hd
      refine SimJ.bind (hr.eval t ρ ρ' B he hd.1) (fun v v' hv => ?_)
      rw [hv.truthy]
      split
      · exact hr.eval c ρ ρ' B he hd.2.1
      · exact hr.eval a ρ ρ' B he hd.2.2.1
    · exact SimJ.throw _
  | let_ =>
    simp only [evalKw]
    split
    · rename_i name bindings bodyD
      simp only [cleanB_pair, cleanB_sym] at hc
      split
      · rename_i bs b body hb hp
        have hbs := cleanB_parseBindings hb hc.2.1
        have hbody := cleanBs_properList hp hc.2.2
        split
        · exact SimJ.throw _
        · refine SimJ.bind (simJ_evalArgs hr he _ (cleanBs_map_snd hbs)) (fun vs vs' hvs => ?_)
          refine SimJ.bind (simJ_allocCell (.var .undef)) (fun l l' hl => ?_)
          have hclo : VRel f (Val.closure (bs.map (·.1)) none (b :: body) ((name, l) :: ρ))
              (Val.closure (bs.map (·.1)) none (b :: body) ((name, l') :: ρ')) :=
            .closure _ _ _ _ _ B (he.cons name hl) hbody
          refine SimJ.bind (simJ_writeCell hf hl (.var hclo)) (fun _ _ _ => ?_)
          exact hr.apply _ _ _ _ hclo hvs
      · exact SimJ.throw _
    · rename_i bindings bodyD _
      simp only [cleanB_pair] at hc
      split
      · rename_i bs b body hb hp
        have hbs := cleanB_parseBindings hb hc.1
        have hbody := cleanBs_properList hp hc.2
        refine SimJ.bind (simJ_evalArgs hr he _ (cleanBs_map_snd hbs)) (fun vs vs' hvs => ?_)
        refine SimJ.bind (simJ_allocVars (bindsRel_zip _ hvs) he) (fun ρ1 ρ1' he1 => ?_)
        exact simJ_evalBody hf hr he1 _ hbody
      · exact SimJ.throw _
    · exact SimJ.throw _
  | letStar =>
    simp only [evalKw]
    split
    · rename_i bindings bodyD
      simp only [cleanB_pair] at hc
      split
      · rename_i bs b body hb hp
        have hbs := cleanB_parseBindings hb hc.1
        have hbody := cleanBs_properList hp hc.2
        exact simJ_evalLetStar hf hr _ hbody bs he (fun b' hb' => (hbs b' hb').2)
      · exact SimJ.throw _
    · exact SimJ.throw _
  | letrec =>
    simp only [evalKw]
    split
    · rename_i bindings bodyD
      simp only [cleanB_pair] at hc
      split
      · rename_i bs b body hb hp
        have hbs := cleanB_parseBindings hb hc.1
        have hbody := cleanBs_properList hp hc.2
        refine SimJ.bind (simJ_allocVars (bindsRel_undef_pairs bs) he) (fun ρ1 ρ1' he1 => ?_)
        refine SimJ.bind (simJ_evalLetrecInits hf hr he1 bs hbs) (fun _ _ _ => ?_)
        exact simJ_evalBody hf hr he1 _ hbody
      · exact SimJ.throw _
    · exact SimJ.throw _
  | begin_ =>
    simp only [evalKw]
    split
    · rename_i es hp
      exact simJ_evalExprs hr he es (cleanBs_properList hp hc)
    · exact SimJ.throw _
  | cond =>
    simp only [evalKw]
    split
    · rename_i c cs hp
      exact simJ_evalCond hr he _ (cleanBs_properList hp hc)
    · exact SimJ.throw _
  | case_ =>
    simp only [evalKw]
    split
    · rename_i keyE clauses
      simp only [cleanB_pair] at hc
      split
      · rename_i c cs hp
        refine SimJ.bind (hr.eval keyE ρ ρ' B he hc.1) (fun key key' hk => ?_)
        exact simJ_evalCase hr he hk _ (cleanBs_properList hp hc.2)
      · exact SimJ.throw _
    · exact SimJ.throw _
  | and_ =>
    simp only [evalKw]
    split
    · rename_i es hp
      exact simJ_evalAnd hr he es (cleanBs_properList hp hc)
    · exact SimJ.throw _
  | or_ =>
    simp only [evalKw]
    split
    · rename_i es hp
      exact simJ_evalOr hr he es (cleanBs_properList hp hc)
    · exact SimJ.throw _
  | when_ =>
    simp only [evalKw]
    split
    · rename_i t b body hp
      have hd := cleanBs_properList hp hc
      rw [cleanBs_cons] at hd
      refine SimJ.bind (hr.eval t ρ ρ' B he hd.1) (fun v v' hv => ?_)
      rw [hv.truthy]
      split
      · exact simJ_evalExprs hr he _ hd.2
      · exact SimJ.pure _ _ .void
    · exact SimJ.throw _
  | unless_ =>
    simp only [evalKw]
    split
    · rename_i t b body hp
      have hd := cleanBs_properList hp hc
      rw [cleanBs_cons] at hd
      refine SimJ.bind (hr.eval t ρ ρ' B he hd.1) (fun v v' hv => ?_)
      rw [hv.truthy]
      split
      · exact SimJ.pure _ _ .void
      · exact simJ_evalExprs hr he _ hd.2
    · exact SimJ.throw _
  | delay =>
    simp only [evalKw]
    split
    · rename_i e hp
      have hd := cleanBs_properList hp hc
      refine SimJ.bind (simJ_allocCell (.promise false (.closure [] none [e] ρ ρ' B he hd))) (fun l l' hl => ?_)
      subst hl
      exact SimJ.pure _ _ (.promise l)
    · exact SimJ.throw _

end Marwood.Spec.Eval.ExtraJ
