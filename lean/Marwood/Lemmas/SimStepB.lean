import Marwood.Lemmas.SimStepA
/-!
# Heap simulation, lemma (b) part 2: `store_operand` and JMP JNT MOV MOVIMM PUSH PUSHIMM PUSHACC HALT
-/
namespace Marwood.Lemmas.Sim
open Marwood Marwood.Vm Marwood.Vm.Concrete
open Marwood.Heap (GcState)

theorem ORel.refl_eq {α : Type} (x : Outcome α) : ORel Eq x x := by
  cases x with
  | ok a => exact .ok rfl
  | err e => exact .err
  | panic m => exact .panic

section
variable (ext : ExtOps) {φ : Inj} {s t : St CHeap}

theorem Sim.setHeap (h : Sim φ s t) {hp hp' : CHeap} (hh : HeapSim φ hp hp') :
    Sim φ { s with heap := hp } { t with heap := hp' } :=
  ⟨hh, h.stack, h.acc, h.ep, h.ipL, h.ipO, h.bp⟩

theorem Sim.setAcc (h : Sim φ s t) {v v'} (hv : VRel φ v v') :
    Sim φ { s with acc := v } { t with acc := v' } :=
  ⟨h.heap, h.stack, hv, h.ep, h.ipL, h.ipO, h.bp⟩

theorem Sim.push (h : Sim φ s t) {v v'} (hv : VRel φ v v') : Sim φ (s.push v) (t.push v') := by
  obtain ⟨h1, h2⟩ := h.stack.push (Nat.le_refl _) hv
  refine ⟨h.heap, ?_, h.acc, h.ep, h.ipL, h.ipO, h.bp⟩
  show StackRelK φ (s.stack.push v).sp _ _
  rw [h2]
  exact h1.weaken (by omega)

theorem Sim.next (h : Sim φ s t) : Sim φ { s with ipO := s.ipO + 1 } { t with ipO := t.ipO + 1 } := by
  have := h.setIpO (s.ipO + 1); rw [h.ipO] at this ⊢; exact this

set_option hygiene false in
/-- the `some _ => envPut ep n v` arm of `store_operand` -/
local macro "store_direct" : tactic => `(tactic|
  (dsimp only
   have hp := envPut_rel h.heap ok ok' h.ep n hv
   generalize envPut s.heap s.ep n v = r at hp
   generalize envPut t.heap t.ep n v' = r' at hp
   cases hp with
   | none => exact .err
   | some hh => exact .ok (hs1.setHeap hh)))

theorem storeOperand_rel (h : Sim φ s t) (ok : SizeOk s.heap) (ok' : SizeOk t.heap) {c0 : VCell}
    (hc : CodeAt s c0) (hj : isJumpOp c0 = false) {v v'} (hv : VRel φ v v') :
    ORel (Sim φ) (storeOperand (concreteOps ext) s v) (storeOperand (concreteOps ext) t v') := by
  unfold storeOperand
  refine (readOperand_rel ext h ok ok' hc).bind ?_
  rintro ⟨d, s1⟩ ⟨d', t1⟩ ⟨_, hd, e1, e2, _, _⟩
  simp only at hd e1 e2 ⊢
  have hd := hd hj
  subst e1 e2
  have hs1 := h.next
  cases hd with
  | ptr h1 => exact .ok (hs1.setHeap (setAt_sim h.heap ok ok' h1 hv))
  | pair _ _ => exact .err
  | closure _ _ => exact .err
  | lexEnvPtr _ => exact .err
  | envPtr _ => exact .err
  | instrPtr _ => exact .err
  | atom hf =>
    cases d with
    | acc => exact .ok (hs1.setAcc hv)
    | bpOffset off =>
      have ebp : (t.bp : Int) + off = (s.bp : Int) + off := by rw [h.bp]
      simp only [ebp]
      refine (h.stack.setOffset ((s.bp : Int) + off) hv).bind ?_
      intro st st' ⟨hst, hsp⟩
      refine .ok ⟨h.heap, ?_, h.acc, h.ep, h.ipL, by simp [h.ipO], h.bp⟩
      show StackRelK φ st.sp st st'
      rw [hsp]; exact hst
    | globSlot n => exact .ok (hs1.setHeap (globPut_sim h.heap n hv))
    | lexEnvSlot n =>
      simp only [concreteOps]
      have he := envGet_rel h.heap ok ok' h.ep n
      generalize envGet s.heap s.ep n = g at he
      generalize envGet t.heap t.ep n = g' at he
      cases he with
      | none => exact .err
      | some r =>
        cases r with
        | lexEnvPtr a =>
          rename_i e e' k
          dsimp only
          have hp := envPut_rel h.heap ok ok' a k hv
          generalize envPut s.heap e k v = r at hp
          generalize envPut t.heap e' k v' = r' at hp
          cases hp with
          | none => exact .err
          | some hh => exact .ok (hs1.setHeap hh)
        | atom hf => rename_i w; cases w <;> first | store_direct | simp [addrFree] at hf
        | pair a b => store_direct
        | closure a b => store_direct
        | envPtr a => store_direct
        | instrPtr a => store_direct
        | ptr a => store_direct
    | _ => first | exact .err | simp [addrFree] at hf

/-! ## one lemma per opcode -/

theorem exec_jmp (h : Sim φ s t) (ok : SizeOk s.heap) (ok' : SizeOk t.heap) (hc : CodeAt s (.opcode .jmp)) :
    ORel (PostB φ) (exec (concreteOps ext) .jmp s) (exec (concreteOps ext) .jmp t) := by
  unfold exec
  refine (readOperand_rel ext h ok ok' hc).bind ?_
  rintro ⟨v, s1⟩ ⟨v', t1⟩ ⟨hv, _, e1, e2, _, _⟩
  simp only at hv e1 e2 ⊢
  have hv : v = v' := hv rfl
  subst hv e1 e2
  refine (ORel.refl_eq (asPtr v)).bind ?_
  intro o o' ho
  subst ho
  exact .ok ⟨rfl, .of_sim (h.setIpO o)⟩

theorem exec_jnt (h : Sim φ s t) (ok : SizeOk s.heap) (ok' : SizeOk t.heap) (hc : CodeAt s (.opcode .jnt)) :
    ORel (PostB φ) (exec (concreteOps ext) .jnt s) (exec (concreteOps ext) .jnt t) := by
  unfold exec
  refine (readOperand_rel ext h ok ok' hc).bind ?_
  rintro ⟨v, s1⟩ ⟨v', t1⟩ ⟨hv, _, e1, e2, _, _⟩
  simp only at hv e1 e2 ⊢
  have hv : v = v' := hv rfl
  subst hv e1 e2
  refine (ORel.refl_eq (asPtr v)).bind ?_
  intro o o' ho
  subst ho
  simp only [concreteOps]
  have hd := deref_rel h.heap ok ok' h.acc
  generalize deref s.heap s.acc = d at hd
  generalize deref t.heap t.acc = d' at hd
  cases hd with
  | atom hf =>
    split
    · exact .ok ⟨rfl, .of_sim (h.setIpO o)⟩
    · exact .ok ⟨rfl, .of_sim h.next⟩
  | _ => exact .ok ⟨rfl, .of_sim h.next⟩

theorem exec_mov (h : Sim φ s t) (ok : SizeOk s.heap) (ok' : SizeOk t.heap) (hc : CodeAt s (.opcode .mov))
    (live : BpLive s) :
    ORel (PostB φ) (exec (concreteOps ext) .mov s) (exec (concreteOps ext) .mov t) := by
  unfold exec
  refine (loadOperand_rel ext h ok ok' hc rfl live).bind ?_
  rintro ⟨v, s1⟩ ⟨v', t1⟩ ⟨hv, e1, e2, c1, hc1, hop⟩
  simp only at hv e1 e2 hc1 ⊢
  subst e1 e2
  refine (storeOperand_rel ext h.next ok ok' hc1 (isJumpOp_opcode c1 hop) hv).bind ?_
  intro s2 t2 h2
  exact .ok ⟨rfl, .of_sim h2⟩

theorem exec_movImm (h : Sim φ s t) (ok : SizeOk s.heap) (ok' : SizeOk t.heap) (hc : CodeAt s (.opcode .movImm)) :
    ORel (PostB φ) (exec (concreteOps ext) .movImm s) (exec (concreteOps ext) .movImm t) := by
  unfold exec
  refine (readOperand_rel ext h ok ok' hc).bind ?_
  rintro ⟨v, s1⟩ ⟨v', t1⟩ ⟨_, hv, e1, e2, hc1, hop⟩
  simp only at hv e1 e2 hc1 hop ⊢
  have hv := hv rfl
  subst e1 e2
  refine (storeOperand_rel ext h.next ok ok' hc1 (isJumpOp_opcode v hop) hv).bind ?_
  intro s2 t2 h2
  exact .ok ⟨rfl, .of_sim h2⟩

theorem exec_push (h : Sim φ s t) (ok : SizeOk s.heap) (ok' : SizeOk t.heap) (hc : CodeAt s (.opcode .push))
    (live : BpLive s) :
    ORel (PostB φ) (exec (concreteOps ext) .push s) (exec (concreteOps ext) .push t) := by
  unfold exec
  refine (loadOperand_rel ext h ok ok' hc rfl live).bind ?_
  rintro ⟨v, s1⟩ ⟨v', t1⟩ ⟨hv, e1, e2, _⟩
  simp only at hv e1 e2 ⊢
  subst e1 e2
  exact .ok ⟨rfl, .of_sim (h.next.push hv)⟩

theorem exec_pushImm (h : Sim φ s t) (ok : SizeOk s.heap) (ok' : SizeOk t.heap) (hc : CodeAt s (.opcode .pushImm)) :
    ORel (PostB φ) (exec (concreteOps ext) .pushImm s) (exec (concreteOps ext) .pushImm t) := by
  unfold exec
  refine (readOperand_rel ext h ok ok' hc).bind ?_
  rintro ⟨v, s1⟩ ⟨v', t1⟩ ⟨_, hv, e1, e2, _⟩
  simp only at hv e1 e2 ⊢
  have hv := hv rfl
  subst e1 e2
  exact .ok ⟨rfl, .of_sim (h.next.push hv)⟩

theorem exec_pushAcc (h : Sim φ s t) :
    ORel (PostB φ) (exec (concreteOps ext) .pushAcc s) (exec (concreteOps ext) .pushAcc t) :=
  .ok ⟨rfl, .of_sim (h.push h.acc)⟩

theorem exec_halt (h : Sim φ s t) :
    ORel (PostB φ) (exec (concreteOps ext) .halt s) (exec (concreteOps ext) .halt t) :=
  .ok ⟨rfl, .of_sim h⟩

end

end Marwood.Lemmas.Sim
