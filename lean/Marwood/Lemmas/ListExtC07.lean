import Marwood.Lemmas.ListExtSim
import Marwood.Lemmas.ListExtGood
import Marwood.Lemmas.ListExtCode
import Marwood.Lemmas.ListExtProc
import Marwood.Lemmas.ListExtDemo
import Marwood.Proofs.C03
import Marwood.Proofs.C07
import Marwood.Proofs.C13

/-! Corollaries of `Proofs/C07.lean` at the real builtins `listExtWith` (see Lemmas/ListExtProps.lean for the overview). -/

namespace Marwood.Proofs.C07
open Marwood Marwood.Vm Marwood.Vm.Concrete Marwood.Lemmas.Sim Marwood.Lemmas.Good Marwood.Proofs.C13
  Marwood.Proofs.C03

/-- **T07.4 at the real builtins**: a failed evaluation (an error raised by `car` of a non-pair, say) leaves a VM
    that is `Sim`-equivalent to its error-reset twin, and every later evaluation on both gives the same value /
    the same failure. Hypotheses: the bundled invariant of the initial states, the laws of the COMPILER inside
    `prepare_eval` (`CompLaws`, `CompGood`: not part of `ExtOps`), the size bound. -/
theorem failed_eval_equivalent_later_listExt (eqTag : String → String → Bool) (force : Bool)
    (comp : CHeap → VCell → Outcome (CHeap × VCell)) (cl : CompLaws comp) (cg : CompGood comp)
    (count : Option Nat) (fuel : Nat) (s : St CHeap) (f : Fault) (s1 : St CHeap)
    (hfail : runEval (concreteOps (listExtWith eqTag)) (cgc force) count fuel s = .failed f s1)
    (h0 : VmOk (listExtWith eqTag) (listExtWith_codeLawsV eqTag) s) (p0 : PInv s)
    (sb : SizeBounded (machine (listExtWith eqTag) force) s) (sm1 : Small s1.heap) :
    ∃ sf, runLoop (machine (listExtWith eqTag) force) count fuel 0 s = .error f sf ∧ s1 = cgc force (onError sf) ∧
      (∃ ψ, Sim ψ s1 (onError sf)) ∧
      ∀ (d : VCell) (s2 t2 : St CHeap), addrFree d = true →
        prepareEval comp s1 d = .ok s2 → prepareEval comp (onError sf) d = .ok t2 →
        SizeBounded (machine (listExtWith eqTag) force) s2 →
        VmOk (listExtWith eqTag) (listExtWith_codeLawsV eqTag) s2 → PInv s2 →
        SizeBounded (machine (listExtWith eqTag) force) t2 →
        VmOk (listExtWith eqTag) (listExtWith_codeLawsV eqTag) t2 → PInv t2 →
        ∀ k : Nat,
          (∀ t', pureN (machine (listExtWith eqTag) force) k t2 = .done t' →
            ∃ s' t'', run (machine (listExtWith eqTag) force) k s2 = .done s' ∧
              run (machine (listExtWith eqTag) force) k t2 = .done t'' ∧
              ∀ fl, resultObs fl s' = resultObs fl t'') ∧
          (∀ e t', pureN (machine (listExtWith eqTag) force) k t2 = .error e t' →
            ∃ s' t'', run (machine (listExtWith eqTag) force) k s2 = .error e s' ∧
              run (machine (listExtWith eqTag) force) k t2 = .error e t'' ∧
              (∃ ψ, Sim ψ s' t' ∧ All2 (AddrRel ψ) (traceFrames s') (traceFrames t')) ∧
              (∃ ψ, Sim ψ t'' t' ∧ All2 (AddrRel ψ) (traceFrames t'') (traceFrames t'))) := by
  exact failed_eval_equivalent_later_closed _ force (listExtWith_laws eqTag) (listExtWith_good eqTag)
    (listExtWith_codeLawsV eqTag) (listExtWith_proc eqTag) comp cl cg count fuel s f s1 hfail h0 p0 sb sm1

/-- **T07.4 at the real builtins, with `prepare_eval` made explicit** (`failed_eval_equivalent_later_installs`,
    Proofs/C07.lean section `InstallsT074`): from the idle invariant `IdleOk` of the machine BEFORE the failing job and
    the loader relation `Installs` for the three `prepare_eval` steps (the failing job's, and the later job's on the
    failed VM and on its error-reset twin). No `ExtLaws` / `ExtGood` / `ExtCodeLawsV` / `ExtProc` hypothesis, no
    per-state invariant hypothesis, no `CompGood`; `CompLaws comp` (the compiler inside `prepare_eval` acts alike on
    `Sim`-related heaps) stays: it is inherent to a statement relating two heaps. -/
theorem failed_eval_equivalent_later_installs_listExt (eqTag : String → String → Bool) (force : Bool)
    (comp : CHeap → VCell → Outcome (CHeap × VCell)) (cl : CompLaws comp)
    (count : Option Nat) (fuel : Nat) (s0 s0' : St CHeap) (e0 : Datum) (cf0 entry0 : Nat) (f : Fault) (s1 : St CHeap)
    (i0 : IdleOk s0) (inst0 : Installs e0 cf0 s0 s0' entry0)
    (hfail : runEval (concreteOps (listExtWith eqTag)) (cgc force) count fuel (prepare s0' entry0) = .failed f s1)
    (sb : SizeBounded (machine (listExtWith eqTag) force) (prepare s0' entry0)) (sm1 : Small s1.heap) :
    ∃ sf, runLoop (machine (listExtWith eqTag) force) count fuel 0 (prepare s0' entry0) = .error f sf ∧
      s1 = cgc force (onError sf) ∧
      (∃ ψ, Sim ψ s1 (onError sf)) ∧ IdleOk s1 ∧ IdleOk (onError sf) ∧
      ∀ (d : VCell) (s2 t2 : St CHeap) (e : Datum) (cf : Nat), addrFree d = true →
        prepareEval comp s1 d = .ok s2 → prepareEval comp (onError sf) d = .ok t2 →
        Installs e cf s1 { s1 with heap := s2.heap } s2.ipL →
        Installs e cf (onError sf) { onError sf with heap := t2.heap } t2.ipL →
        SizeBounded (machine (listExtWith eqTag) force) s2 → SizeBounded (machine (listExtWith eqTag) force) t2 →
        ∀ k : Nat,
          (∀ t', pureN (machine (listExtWith eqTag) force) k t2 = .done t' →
            ∃ s' t'', run (machine (listExtWith eqTag) force) k s2 = .done s' ∧
              run (machine (listExtWith eqTag) force) k t2 = .done t'' ∧
              ∀ fl, resultObs fl s' = resultObs fl t'') ∧
          (∀ e' t', pureN (machine (listExtWith eqTag) force) k t2 = .error e' t' →
            ∃ s' t'', run (machine (listExtWith eqTag) force) k s2 = .error e' s' ∧
              run (machine (listExtWith eqTag) force) k t2 = .error e' t'' ∧
              (∃ ψ, Sim ψ s' t' ∧ All2 (AddrRel ψ) (traceFrames s') (traceFrames t')) ∧
              (∃ ψ, Sim ψ t'' t' ∧ All2 (AddrRel ψ) (traceFrames t'') (traceFrames t'))) :=
  failed_eval_equivalent_later_installs _ force (listExtWith_laws eqTag) (listExtWith_good eqTag)
    (listExtWith_codeLawsV eqTag) (listExtWith_proc eqTag) comp cl count fuel s0 s0' e0 cf0 entry0 f s1 i0 inst0 hfail
    sb sm1

end Marwood.Proofs.C07
