import Marwood.Lemmas.NumRnd
import Marwood.Lemmas.NumEqv
/-!
# "The same bits" is "numerically equal and the same sign" (doubles that are not NaN)

R7RS 6.1 words `eqv?` on two inexact numbers as "numerically equal (`=`) and indistinguishable by
arithmetic"; `Vm::eqv` and `NumSpec.eqvSpec` compare bit patterns.  For doubles that are not NaN the
two agree: `bits_eq_iff` — the decoder `Fl.classify` (sign, biased exponent, significand) is
injective, the only two patterns with the same value are `0.0` and `-0.0`, which `/` tells apart.
-/
namespace Marwood.Fl
open Marwood

/-- the significand/exponent pair of a double determines its exponent and mantissa fields -/
theorem sig_ex_inj (x y : F64) (h : sig x * 2 ^ ex x = sig y * 2 ^ ex y) :
    expField x = expField y ∧ mantField x = mantField y := by
  have hmx : mantField x < twoP52 := Nat.mod_lt _ (by decide)
  have hmy : mantField y < twoP52 := Nat.mod_lt _ (by decide)
  have hsx := sig_lt x
  have hsy := sig_lt y
  have key : ∀ (a b : F64), ex a < ex b → sig a * 2 ^ ex a = sig b * 2 ^ ex b → sig a < twoP53 → False := by
    intro a b hlt he hsa
    obtain ⟨k, hk⟩ : ∃ k, ex b = ex a + (k + 1) := ⟨ex b - ex a - 1, by omega⟩
    rw [hk, Nat.pow_add, ← Nat.mul_assoc, Nat.mul_right_comm] at he
    have hpos : 0 < 2 ^ ex a := Nat.pow_pos (by decide)
    have he' : sig a = sig b * 2 ^ (k + 1) := Nat.eq_of_mul_eq_mul_right hpos he
    have hb2 : twoP52 ≤ sig b := by
      unfold ex at hk
      unfold sig
      split at hk
      · omega
      · rename_i hne
        rw [if_neg hne]; omega
    have h2k : 1 ≤ 2 ^ k := Nat.one_le_two_pow
    have : sig b * 2 ^ (k + 1) = 2 * (sig b * 2 ^ k) := by rw [Nat.pow_succ]; ring
    have hge : sig b ≤ sig b * 2 ^ k := Nat.le_mul_of_pos_right _ h2k
    unfold twoP52 at hb2
    unfold twoP53 at hsa
    omega
  rcases Nat.lt_trichotomy (ex x) (ex y) with hlt | heq | hgt
  · exact (key x y hlt h hsx).elim
  · rw [heq] at h
    have hs : sig x = sig y := Nat.eq_of_mul_eq_mul_right (Nat.pow_pos (by decide)) h
    unfold sig at hs
    unfold ex at heq
    unfold twoP52 at hmx hmy hs
    split at hs <;> split at hs <;> simp_all <;> omega
  · exact (key y x hgt h.symm hsy).elim

/-- the three fields determine the pattern -/
theorem bits_of_fields (x y : F64) (hx : x.bits < 2 ^ 64) (hy : y.bits < 2 ^ 64)
    (hs : signBit x = signBit y) (he : expField x = expField y) (hm : mantField x = mantField y) :
    x.bits = y.bits := by
  unfold signBit at hs
  unfold expField at he
  unfold mantField at hm
  unfold twoP63 at hs
  unfold twoP52 at he hm
  have hs' : x.bits / 9223372036854775808 % 2 = y.bits / 9223372036854775808 % 2 := by
    have h1 : x.bits / 9223372036854775808 % 2 < 2 := Nat.mod_lt _ (by decide)
    have h2 : y.bits / 9223372036854775808 % 2 < 2 := Nat.mod_lt _ (by decide)
    by_cases hx1 : x.bits / 9223372036854775808 % 2 = 1 <;>
      by_cases hy1 : y.bits / 9223372036854775808 % 2 = 1 <;> simp_all
  omega

theorem magRat_inj (x y : F64) (h : magRat x = magRat y) :
    expField x = expField y ∧ mantField x = mantField y := by
  rw [magRat_eq, magRat_eq] at h
  have hpos : ((2 : ℚ) ^ (1074 : ℕ)) ≠ 0 := by positivity
  have h2 : ((sig x * 2 ^ ex x : ℕ) : ℚ) = ((sig y * 2 ^ ex y : ℕ) : ℚ) := by
    field_simp at h
    exact_mod_cast h
  exact sig_ex_inj x y (by exact_mod_cast h2)

/-- for doubles that are not NaN: the same bit pattern iff numerically equal (IEEE `==`, the model of
    `=` on two doubles) and the same sign bit -/
theorem bits_eq_iff (x y : F64) (hx : x.bits < 2 ^ 64) (hy : y.bits < 2 ^ 64)
    (nx : isNaN x = false) (ny : isNaN y = false) :
    x.bits = y.bits ↔ partialCmp x y = some .eq ∧ signBit x = signBit y := by
  constructor
  · intro h
    have hxy : x = y := by cases x; cases y; simp_all
    subst hxy
    refine ⟨?_, rfl⟩
    unfold partialCmp classify
    rw [nx]
    by_cases hi : isInf x = true
    · simp [hi]
    · simp [hi, cmpRat]
  · rintro ⟨hc, hs⟩
    unfold partialCmp classify at hc
    rw [nx, ny] at hc
    by_cases hix : isInf x = true <;> by_cases hiy : isInf y = true
    · -- both infinite
      unfold isInf at hix hiy
      simp only [Bool.and_eq_true, beq_iff_eq] at hix hiy
      exact bits_of_fields x y hx hy hs (hix.1.trans hiy.1.symm) (hix.2.trans hiy.2.symm)
    · simp [hix, hiy] at hc
      split at hc <;> cases hc
    · simp [hix, hiy] at hc
      split at hc <;> cases hc
    · simp only [hix, hiy, Bool.false_eq_true, if_false, Option.some.injEq] at hc
      have hv : sgn (signBit x) (magRat x) = sgn (signBit y) (magRat y) := by
        unfold cmpRat at hc
        split at hc
        · cases hc
        · split at hc
          · assumption
          · cases hc
      rw [hs] at hv
      have hm : magRat x = magRat y := by
        unfold sgn at hv
        split at hv
        · exact neg_injective hv
        · exact hv
      obtain ⟨he, hmm⟩ := magRat_inj x y hm
      exact bits_of_fields x y hx hy hs he hmm

end Marwood.Fl
