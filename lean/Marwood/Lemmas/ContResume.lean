import Marwood.Lemmas.ContResumeRun
/-!
# `Resume`: "the call/cc expression at `s0` has just returned `v`", and what `call/cc` stores

`s0` is a machine state whose `ip` is ON a CALL/TCALL instruction that dispatches to `call/cc`
(receiver and `argc 1` on top of the stack).
* `capturedCont s0` — the continuation object `call/cc` creates there (`callcc_step`).
* `Resume s0 v h` — `s0` after that CALL returned `v`: `ip` behind the CALL, the two operands popped,
  `acc = v`, heap `h`; stack cells, `ep`, `bp` those of `s0`.
-/
namespace Marwood.Vm
open Verify Stack

variable {H : Type} {ops : HeapOps H}

/-- the continuation `call/cc` creates when the CALL/TCALL at `s0` dispatches to it:
    `stack[0 ..= sp-2]`, `ep`, `bp`, `ip` = the instruction after the call -/
def capturedCont (s0 : St H) : Cont :=
  { stack := { cells := s0.stack.cells.take (s0.stack.sp - 2 + 1), sp := s0.stack.sp - 2 },
    ep := s0.ep, ipL := s0.ipL, ipO := s0.ipO + 1, bp := s0.bp }

/-- "the `call/cc` expression at `s0` has just returned `v`, the heap being `h`" -/
def Resume (s0 : St H) (v : VCell) (h : H) : St H :=
  { heap := h, stack := { cells := s0.stack.cells, sp := s0.stack.sp - 2 }, acc := v,
    ep := s0.ep, ipL := s0.ipL, ipO := s0.ipO + 1, bp := s0.bp }

theorem accTail_ok {s s' : St H} {v : VCell} (h : accTail ops s v = .ok s') :
    s'.stack = s.stack ∧ s'.ep = s.ep ∧ s'.ipL = s.ipL ∧ s'.ipO = s.ipO ∧ s'.bp = s.bp ∧
      (s'.heap = s.heap ∨ s'.heap = (ops.maybePut s.heap v).1) := by
  unfold accTail at h
  cases v <;> dsimp only at h <;> cases h <;> first
    | exact ⟨rfl, rfl, rfl, rfl, rfl, .inl rfl⟩
    | exact ⟨rfl, rfl, rfl, rfl, rfl, .inr rfl⟩

/-- what `call/cc` does, read off `builtinCallcc` without any assumption on the stack -/
theorem builtinCallcc_inv {s s' : St H} {proc : VCell} (h : builtinCallcc ops s = .ok (s', proc))
    (hcap : s.stack.sp < s.stack.cells.length) :
    2 ≤ s.stack.sp ∧ s.stack.cellAt s.stack.sp = .argc 1 ∧ proc = s.stack.cellAt (s.stack.sp - 1) ∧
      1 ≤ s.ipO ∧
      ∃ hk : H × VCell,
        hk = ops.newCont s.heap
          ⟨{ cells := s.stack.cells.take (s.stack.sp - 2 + 1), sp := s.stack.sp - 2 }, s.ep, s.ipL, s.ipO, s.bp⟩ ∧
        s'.heap = hk.1 ∧ s'.stack.sp = s.stack.sp ∧ s'.stack.cellAt (s.stack.sp - 1) = hk.2 ∧
        s'.stack.cellAt s.stack.sp = .argc 1 ∧
        (∀ i, i + 2 ≤ s.stack.sp → s'.stack.cellAt i = s.stack.cellAt i) ∧
        s'.stack.sp < s'.stack.cells.length ∧
        s'.ipL = s.ipL ∧ s'.ipO + 1 = s.ipO ∧ s'.ep = s.ep ∧ s'.bp = s.bp ∧ s'.acc = s.acc := by
  unfold builtinCallcc at h
  obtain ⟨⟨a, st1⟩, hp1, h⟩ := bind_inv h
  dsimp only at h
  obtain ⟨argc, ha, h⟩ := bind_inv h
  split at h
  · cases h
  · rename_i hne
    have hargc : argc = 1 := by simpa using hne
    subst hargc
    obtain ⟨⟨pr, st2⟩, hp2, h⟩ := bind_inv h
    dsimp only at h
    split at h
    · cases h
    · obtain ⟨cst, hcp, h⟩ := bind_inv h
      obtain ⟨ipO, hu, h⟩ := bind_inv h
      cases h
      obtain ⟨u1, u2⟩ := usub_ok hu
      have p1 := pop_ok hp1
      have p2 := pop_ok hp2
      have ea := asArgc_ok ha
      have hsp2 : st2.sp = s.stack.sp - 2 := by omega
      have hc2 : st2.cells = s.stack.cells := by rw [p2.2.1, p1.2.1]
      have hcst : cst = { cells := s.stack.cells.take (s.stack.sp - 2 + 1), sp := s.stack.sp - 2 } := by
        unfold Stack.capture at hcp
        split at hcp
        · cases hcp
          rw [hsp2, hc2]
        · cases hcp
      subst hcst
      have hcell2 : ∀ i, st2.cellAt i = s.stack.cellAt i := fun i => cells_eq_cellAt hc2 i
      refine ⟨by omega, by rw [← p1.2.2]; exact ea, ?_, u1, _, rfl, rfl, ?_, ?_, ?_, ?_, push_sp_lt _ _,
        rfl, by show ipO + 1 = s.ipO; omega, rfl, rfl, rfl⟩
      · rw [p2.2.2]
        have : st1.sp = s.stack.sp - 1 := by omega
        rw [this]
        exact cells_eq_cellAt p1.2.1 _
      · simp only [push_sp]; omega
      · show ((st2.push _).push _).cellAt _ = _
        have n2 : s.stack.sp - 1 = st2.sp + 1 := by omega
        rw [n2, push_cellAt, push_cellAt, push_sp]
        have n1 : ¬ st2.sp + 1 = st2.sp + 1 + 1 := by omega
        simp only [n1, if_false, if_true]
      · show ((st2.push _).push _).cellAt _ = _
        rw [push_cellAt, push_sp]
        have n1 : s.stack.sp = st2.sp + 1 + 1 := by omega
        simp only [← n1, if_true]
      · intro i hi
        show ((st2.push _).push _).cellAt _ = _
        rw [push_below _ _ i (by simp only [push_sp]; omega), push_below _ _ i (by omega)]
        exact hcell2 i

/-- **T05.1 on `step`**: the CALL/TCALL at `s0` whose callee is the builtin `call/cc` stores the
    continuation object `capturedCont s0` — `k` below is the cell `newCont` returns for it — puts `k`
    and `argc 1` where the receiver and `argc 1` were, leaves everything below and all registers
    alone, and stays on the same instruction (which then calls the receiver with `k`). -/
theorem callcc_step {s0 s01 sc : St H} {op : Op} {id : Nat} {bl : Bool}
    (hr : readOpcode ops s0 = .ok (op, s01)) (hop : op = .callAcc ∨ op = .tcallAcc)
    (hc : ops.callee s0.heap s0.acc = .builtin id) (hk : ops.builtinKind s0.heap id = .callcc)
    (hcap : s0.stack.sp < s0.stack.cells.length) (hs : step ops s0 = .ok (sc, bl)) :
    bl = false ∧ 2 ≤ s0.stack.sp ∧ s0.stack.cellAt s0.stack.sp = .argc 1 ∧
      ∃ hk : H × VCell, hk = ops.newCont s0.heap (capturedCont s0) ∧
        (sc.heap = hk.1 ∨ sc.heap = (ops.maybePut hk.1 (s0.stack.cellAt (s0.stack.sp - 1))).1) ∧
        sc.stack.sp = s0.stack.sp ∧ sc.stack.cellAt (s0.stack.sp - 1) = hk.2 ∧
        sc.stack.cellAt s0.stack.sp = .argc 1 ∧
        (∀ i, i + 2 ≤ s0.stack.sp → sc.stack.cellAt i = s0.stack.cellAt i) ∧
        sc.stack.sp < sc.stack.cells.length ∧
        sc.ipL = s0.ipL ∧ sc.ipO = s0.ipO ∧ sc.ep = s0.ep ∧ sc.bp = s0.bp := by
  have e1 := (readOpcode_ok hr).2
  unfold step at hs
  rw [hr] at hs
  simp only [outcome_bind_ok] at hs
  have hrb : bl = false ∧ runBuiltin ops id s01 = .ok sc := by
    have hcal : ops.callee s01.heap s01.acc = .builtin id := by subst e1; exact hc
    rcases hop with rfl | rfl <;> dsimp only at hs
    · obtain ⟨s2, he, hs⟩ := bind_inv hs
      cases hs
      unfold stepCall at he
      rw [hcal] at he
      exact ⟨rfl, he⟩
    · obtain ⟨s2, he, hs⟩ := bind_inv hs
      cases hs
      unfold stepTCall at he
      rw [hcal] at he
      exact ⟨rfl, he⟩
  obtain ⟨hbl, hrb⟩ := hrb
  rw [runBuiltin_eq] at hrb
  obtain ⟨⟨s2, v⟩, hb, ht⟩ := bind_inv hrb
  dsimp only at ht
  have hk1 : ops.builtinKind s01.heap id = .callcc := by subst e1; exact hk
  rw [hk1] at hb
  dsimp only at hb
  subst e1
  obtain ⟨i1, i2, i3, i4, hkp, i5, i6, i7, i8, i9, i10, i11, i12, i13, i14, i15, i16⟩ := builtinCallcc_inv hb hcap
  obtain ⟨a1, a2, a3, a4, a5, a6⟩ := accTail_ok ht
  simp only at i1 i2 i3 i5 i6 i7 i8 i9 i10 i12 i13 i14 i15
  refine ⟨hbl, i1, i2, hkp, i5, ?_, by rw [a1]; exact i7, by rw [a1]; exact i8, by rw [a1]; exact i9,
    fun i hi => by rw [a1]; exact i10 i hi, by rw [a1]; exact i11, by rw [a3]; exact i12,
    by rw [a4]; omega, by rw [a2]; exact i14, by rw [a5]; exact i15⟩
  rcases a6 with a6 | a6
  · exact .inl (by rw [a6]; exact i6)
  · exact .inr (by rw [a6, i6, i3])

end Marwood.Vm
