import Marwood.Lemmas.MachineSym
import Marwood.Datum
/-!
# C10 heap round trip on the concrete heap (`CHeap`: real free list, symbol interning)

`Print/Store.lean` models `put_cell` / `get_as_cell` over an abstract store with fresh allocation. Here the same
conversion runs on the concrete heap of `Vm/ConcreteHeap.lean`, whose allocator reuses freed cells and interns
symbols through the symbol table.

* A concrete cell does **not** erase scalar payloads: a number / character / string / symbol is an `opaque` tag
  whose first character is the kind. `atomV` fixes the coding of a datum atom as a tag (`numTag` — the coding of
  a number as text — is a parameter with a left inverse `numOf`); `atomD` decodes.
* `putDatum` — `Heap::put_cell` for atoms and pairs (lists, improper lists, nested): car, then cdr, then the pair cell,
  each through `putV` (`Heap::put`). Vectors are not covered (their `Rc` payload is stored by value in `CCell.vector`,
  see ConcreteHeap.lean decision 3); procedures / macros / continuations have no heap form (`none`).
* `Rep h v d` — reading `v` in `h` yields the datum `d` (`get_as_cell` as a relation: structural, no fuel);
  `Rep.unique`: a value reads as at most one datum.
* `putNew_cell`, `Keeps` — read-after-put and the frame property of the real allocator.
* `putDatum_rep` — **round trip**: on a well-formed heap, `putDatum` returns a pointer that reads back as the datum,
  keeps every allocated cell and keeps the heap well-formed.
-/
namespace Marwood.Lemmas.MachineDatum
open Marwood Marwood.Vm Marwood.Vm.Concrete Marwood.Lemmas.Sim Marwood.Lemmas.Good Marwood.Lemmas.MachineSym
open Marwood.Heap (GcState WFHeap RootsOk vrefs vrefsList crefs Interned)
open Marwood.Lemmas.HeapWFOps (putNew_wf PutFacts)

/-! ## the allocator: read after put, and the frame property -/

/-- allocated cells keep their content and stay allocated -/
def Keeps (h h' : CHeap) : Prop :=
  ∀ (q : Nat) (c : CCell), q ∉ h.free → h.cells[q]? = some c → h'.cells[q]? = some c ∧ q ∉ h'.free

theorem Keeps.refl (h : CHeap) : Keeps h h := fun _ _ a b => ⟨b, a⟩

theorem Keeps.trans {a b c : CHeap} (x : Keeps a b) (y : Keeps b c) : Keeps a c := by
  intro q cc hf hc
  obtain ⟨h1, h2⟩ := x q cc hf hc
  exact y q cc h2 h1

theorem cput_keeps {h : CHeap} (inv : HInv h) (c : CCell) : Keeps h (cput h c).1 := by
  intro q c0 hf hc
  obtain ⟨a, b, _⟩ := cput_old inv c hc hf
  exact ⟨a, b⟩

theorem cput_cell {h : CHeap} (inv : HInv h) (c : CCell) :
    (cput h c).1.cells[(cput h c).2]? = some c ∧ (cput h c).2 ∉ (cput h c).1.free := by
  have a := calloc_spec h inv
  refine ⟨?_, ?_⟩
  · simp only [cput, cwrite]
    simp [a.p_lt]
  · simp only [cput, cwrite]; exact a.p_notfree

/-- **read after put, real allocator**: `put` of a non-pointer value returns a pointer to an allocated cell
holding exactly that value (payload included) — whether the cell came from the free list, from growth, or is
the interned cell of a symbol — and every allocated cell keeps its content -/
theorem putNew_cell {h : CHeap} (wf : WFHeap true (toHeap h)) (v : VCell) :
    ∃ p, (putNew h v).2 = .ptr p ∧ (putNew h v).1.cells[p]? = some (CCell.val v) ∧ p ∉ (putNew h v).1.free ∧
      Keeps h (putNew h v).1 := by
  have inv := HInv.of_wf wf
  cases hs : symOf v with
  | none =>
    have e : putNew h v = ((cput h (.val v)).1, .ptr (cput h (.val v)).2) := by simp only [putNew, hs]
    rw [e]
    obtain ⟨a, b⟩ := cput_cell inv (.val v)
    exact ⟨_, rfl, a, b, cput_keeps inv _⟩
  | some n =>
    cases hk : symLookup h n with
    | some p =>
      have e : putNew h v = (h, .ptr p) := by simp only [putNew, hs, hk]
      rw [e]
      have hal := (wf.interned n p).mp hk
      obtain ⟨tag', hc', ht'⟩ := symCell_iff.mpr hal.1
      obtain ⟨tag, rfl, ht⟩ := symOf_some hs
      have : tag' = tag := symName_tag_inj ht' ht
      subst this
      refine ⟨p, rfl, hc', ?_, .refl h⟩
      intro hm
      have hfree := (wf.free_iff p).mp hm
      rcases hal.2 with x | x <;> rw [hfree] at x <;> cases x
    | none =>
      have e : putNew h v = ({ (cput h (.val v)).1 with
          symtab := Heap.Heap.symInsert (cput h (.val v)).1.symtab n (cput h (.val v)).2 },
          .ptr (cput h (.val v)).2) := by simp only [putNew, hs, hk]
      rw [e]
      obtain ⟨a, b⟩ := cput_cell inv (.val v)
      exact ⟨_, rfl, a, b, cput_keeps inv _⟩

theorem putV_cell {h : CHeap} (wf : WFHeap true (toHeap h)) {v : VCell} (hnp : isPtr v = false) :
    ∃ p, (putV h v).2 = .ptr p ∧ (putV h v).1.cells[p]? = some (CCell.val v) ∧ p ∉ (putV h v).1.free ∧
      Keeps h (putV h v).1 := by
  have e : putV h v = putNew h v := by simp [putV, hnp]
  rw [e]; exact putNew_cell wf v

/-- `put` keeps the heap well-formed when what the new cell refers to is allocated -/
theorem putV_wf {h : CHeap} (wf : WFHeap true (toHeap h)) (sm : Small h) {v : VCell} (hnp : isPtr v = false)
    (hr : ∀ y ∈ crefs true (eraseV v), (toHeap h).NonFree y ∨ Heap.Sentinel y) :
    WFHeap true (toHeap (putV h v).1) := by
  have inv := HInv.of_wf wf
  have e : putV h v = putNew h v := by simp [putV, hnp]
  rw [e]
  exact (putNew_wf true _ _ _ _ wf hr (sm.grown inv) (toHeap_putNew inv v)).1

/-! ## datum atoms as tagged cells -/

/-- the coding of number payloads as text (a modelling parameter: Machine.lean's scalar payloads are opaque tags) -/
structure NumCode where
  numTag : Num → List Char
  numOf : List Char → Option Num
  inv : ∀ n, numOf (numTag n) = some n

/-- a datum atom as a flat machine value -/
def atomV (nc : NumCode) : Datum → Option VCell
  | .bool b => some (.bool b)
  | .nil => some .nil
  | .undefined => some .undefined
  | .void => some .void
  | .char c => some (.opaque (String.ofList ['c', c]))
  | .str s => some (.opaque (String.ofList ('s' :: s)))
  | .sym s => some (.opaque (String.ofList ('y' :: s)))
  | .num n => some (.opaque (String.ofList ('n' :: nc.numTag n)))
  | _ => none

/-- reading a flat machine value as a datum atom -/
def atomD (nc : NumCode) : VCell → Option Datum
  | .bool b => some (.bool b)
  | .nil => some .nil
  | .undefined => some .undefined
  | .void => some .void
  | .opaque tag =>
    match tag.toList with
    | ['c', c] => some (.char c)
    | 's' :: s => some (.str s)
    | 'y' :: s => some (.sym s)
    | 'n' :: t => (nc.numOf t).map Datum.num
    | _ => none
  | _ => none

theorem atomD_atomV (nc : NumCode) {d : Datum} {v : VCell} (h : atomV nc d = some v) : atomD nc v = some d := by
  cases d <;> simp only [atomV, Option.some.injEq] at h <;> first | (cases h; done) | skip
  all_goals subst h
  all_goals simp [atomD, String.toList_ofList, nc.inv]

theorem atomV_notPtr (nc : NumCode) {d : Datum} {v : VCell} (h : atomV nc d = some v) :
    isPtr v = false ∧ addrFree v = true := by
  cases d <;> simp only [atomV, Option.some.injEq] at h <;> first | (cases h; done) | skip
  all_goals subst h
  all_goals exact ⟨rfl, rfl⟩

/-- a symbol datum is stored as a symbol value: it goes through the symbol table -/
theorem atomV_sym (nc : NumCode) (s : Text) : ∃ v, atomV nc (.sym s) = some v ∧ symOf v = some s :=
  ⟨_, rfl, by simp [symOf, symName?, String.toList_ofList]⟩

/-! ## `put_cell` and `get_as_cell` -/

/-- `Heap::put_cell` on the concrete heap: atoms and pairs -/
def putDatum (nc : NumCode) (h : CHeap) : Datum → Option (CHeap × Nat)
  | .pair a d =>
    match putDatum nc h a with
    | none => none
    | some (h1, pa) =>
      match putDatum nc h1 d with
      | none => none
      | some (h2, pd) =>
        match putV h2 (.pair pa pd) with
        | (h3, .ptr p) => some (h3, p)
        | _ => none
  | d =>
    match atomV nc d with
    | none => none
    | some v =>
      match putV h v with
      | (h1, .ptr p) => some (h1, p)
      | _ => none

/-- `get_as_cell` as a relation: the allocated cell `p` reads as the datum `d` -/
inductive Rep (nc : NumCode) (h : CHeap) : Nat → Datum → Prop
  | atom {p : Nat} {v : VCell} {d : Datum} : h.cells[p]? = some (CCell.val v) → p ∉ h.free →
      atomD nc v = some d → Rep nc h p d
  | pair {p a b : Nat} {x y : Datum} : h.cells[p]? = some (CCell.val (.pair a b)) → p ∉ h.free →
      Rep nc h a x → Rep nc h b y → Rep nc h p (.pair x y)

theorem Rep.keeps {nc : NumCode} {h h' : CHeap} (k : Keeps h h') {p : Nat} {d : Datum} (r : Rep nc h p d) :
    Rep nc h' p d := by
  induction r with
  | atom hc hf ha => obtain ⟨a, b⟩ := k _ _ hf hc; exact .atom a b ha
  | pair hc hf _ _ ih1 ih2 => obtain ⟨a, b⟩ := k _ _ hf hc; exact .pair a b ih1 ih2

/-- reading is a function: a cell reads as at most one datum -/
theorem Rep.unique {nc : NumCode} {h : CHeap} {p : Nat} {d d' : Datum} (r : Rep nc h p d) (r' : Rep nc h p d') :
    d = d' := by
  induction r generalizing d' with
  | atom hc _ ha =>
    cases r' with
    | atom hc' _ ha' =>
      rw [hc] at hc'; cases hc'
      rw [ha] at ha'; cases ha'; rfl
    | pair hc' _ _ _ =>
      rw [hc] at hc'; cases hc'
      simp [atomD] at ha
  | pair hc _ _ _ ih1 ih2 =>
    cases r' with
    | atom hc' _ ha' =>
      rw [hc] at hc'; cases hc'
      simp [atomD] at ha'
    | pair hc' _ r1 r2 =>
      rw [hc] at hc'; cases hc'
      rw [ih1 r1, ih2 r2]

theorem Rep.notFree {nc : NumCode} {h : CHeap} {p : Nat} {d : Datum} (r : Rep nc h p d) :
    p ∉ h.free ∧ p < h.cells.size := by
  cases r with
  | atom hc hf _ => exact ⟨hf, lt_of_get_some hc⟩
  | pair hc hf _ _ => exact ⟨hf, lt_of_get_some hc⟩

theorem nonFree_of_notFree {h : CHeap} (wf : WFHeap true (toHeap h)) {p : Nat} (hf : p ∉ h.free)
    (hl : p < h.cells.size) : (toHeap h).NonFree p := by
  have hsz : (toHeap h).gc.size = h.cells.size := by rw [wf.sizes]; simp [toHeap]
  have hlt : p < (toHeap h).gc.size := by omega
  have hne : (toHeap h).gc[p]? ≠ some GcState.free := fun x => hf ((wf.free_iff p).mpr x)
  unfold Heap.Heap.NonFree
  rw [Array.getElem?_eq_getElem hlt] at hne ⊢
  cases hg : (toHeap h).gc[p] with
  | free => rw [hg] at hne; exact absurd rfl hne
  | allocated => exact .inl rfl
  | used => exact .inr rfl

/-- the result of a successful `putDatum` -/
structure PutD (nc : NumCode) (h h' : CHeap) (p : Nat) (d : Datum) : Prop where
  wf : WFHeap true (toHeap h')
  keeps : Keeps h h'
  rep : Rep nc h' p d

/-- sizes never shrink along `putDatum` -/
theorem putDatum_size (nc : NumCode) : ∀ (d : Datum) {h h' : CHeap} {p : Nat},
    putDatum nc h d = some (h', p) → h.cells.size ≤ h'.cells.size := by
  intro d
  induction d with
  | pair a d iha ihd =>
    intro h h' p hp
    simp only [putDatum] at hp
    split at hp
    · cases hp
    · rename_i h1 pa e1
      split at hp
      · cases hp
      · rename_i h2 pd e2
        split at hp
        · rename_i h3 q e3
          cases hp
          have := putV_size h2 (.pair pa pd)
          rw [e3] at this
          exact Nat.le_trans (iha e1) (Nat.le_trans (ihd e2) this)
        · cases hp
  | _ =>
    intro h h' p hp
    simp only [putDatum] at hp
    split at hp
    · cases hp
    · rename_i v _
      split at hp
      · rename_i h1 q e1
        cases hp
        have := putV_size h v
        rw [e1] at this
        exact this
      · cases hp

theorem putDatum_atom {nc : NumCode} {h h' : CHeap} {p : Nat} {d : Datum} {v : VCell}
    (wf : WFHeap true (toHeap h)) (sm : Small h) (ha : atomV nc d = some v)
    (e : putV h v = (h', .ptr p)) : PutD nc h h' p d := by
  obtain ⟨hnp, haf⟩ := atomV_notPtr nc ha
  obtain ⟨q, hq, hc, hf, hk⟩ := putV_cell wf hnp
  have wf' := putV_wf wf sm hnp (by
    intro y hy
    have := crefs_sub_vrefs v y hy
    rw [vrefs_addrFree haf] at this; cases this)
  rw [e] at hq hc hf hk wf'
  cases hq
  exact ⟨wf', hk, .atom hc hf (atomD_atomV nc ha)⟩

/-- **T10.2 on the concrete heap.** On a well-formed heap, whenever `putDatum` succeeds (the datum is built from
atoms and pairs) the pointer it returns reads back as the datum, every allocated cell keeps its content, and the
heap stays well-formed — with the real allocator (free-list reuse, growth) and symbol interning. `Small` of the
final heap is the physical size bound. -/
theorem putDatum_rep (nc : NumCode) : ∀ (d : Datum) {h h' : CHeap} {p : Nat}, WFHeap true (toHeap h) →
    putDatum nc h d = some (h', p) → Small h' → PutD nc h h' p d := by
  intro d
  induction d with
  | pair a d iha ihd =>
    intro h h' p wf hp sm
    simp only [putDatum] at hp
    split at hp
    · cases hp
    · rename_i h1 pa e1
      split at hp
      · cases hp
      · rename_i h2 pd e2
        split at hp
        · rename_i h3 q e3
          cases hp
          have s3 := putV_size h2 (.pair pa pd)
          rw [e3] at s3
          have sm2 : Small h2 := sm.of_le s3
          have sm1 : Small h1 := sm2.of_le (putDatum_size nc d e2)
          have r1 := iha wf e1 sm1
          have r2 := ihd r1.wf e2 sm2
          have ra : Rep nc h2 pa a := r1.rep.keeps r2.keeps
          have hnp : isPtr (VCell.pair pa pd) = false := rfl
          obtain ⟨q', hq, hc, hf, hk⟩ := putV_cell r2.wf (v := .pair pa pd) hnp
          have wf3 := putV_wf r2.wf sm2 (v := .pair pa pd) hnp (by
            intro y hy
            simp only [eraseV, crefs, List.mem_cons, List.not_mem_nil, or_false] at hy
            rcases hy with rfl | rfl
            · exact .inl (nonFree_of_notFree r2.wf ra.notFree.1 ra.notFree.2)
            · exact .inl (nonFree_of_notFree r2.wf r2.rep.notFree.1 r2.rep.notFree.2))
          rw [e3] at hq hc hf hk wf3
          cases hq
          exact ⟨wf3, (r1.keeps.trans r2.keeps).trans hk, .pair hc hf (ra.keeps hk) (r2.rep.keeps hk)⟩
        · cases hp
  | _ =>
    intro h h' p wf hp sm
    simp only [putDatum] at hp
    split at hp
    · cases hp
    · rename_i v ha
      split at hp
      · rename_i h1 q e1
        cases hp
        have s1 := putV_size h v
        rw [e1] at s1
        exact putDatum_atom wf (sm.of_le s1) ha e1
      · cases hp

/-! ## `NumCode` is inhabited (a unary coding; any injective coding will do) -/

def sgnC (i : Int) : Char := if i < 0 then 'm' else 'p'

def unaryTag : Num → List Char
  | .fix n => 'f' :: sgnC n :: List.replicate n.natAbs 'a'
  | .big n => 'b' :: sgnC n :: List.replicate n.natAbs 'a'
  | .rat n d => 'r' :: sgnC n :: sgnC d :: (List.replicate n.natAbs 'a' ++ List.replicate d.natAbs 'b')
  | .flo f => 'd' :: List.replicate f.bits 'a'

theorem int_of_sgn_abs {a b : Int} (hs : sgnC a = sgnC b) (hn : a.natAbs = b.natAbs) : a = b := by
  unfold sgnC at hs
  split at hs <;> split at hs <;> first | omega | (exfalso; revert hs; decide)

theorem unaryTag_inj {a b : Num} (h : unaryTag a = unaryTag b) : a = b := by
  cases a <;> cases b <;> simp only [unaryTag, List.cons.injEq] at h <;>
    first | (exfalso; revert h; simp; done) | skip
  · obtain ⟨_, hs, hr⟩ := h
    have := congrArg List.length hr
    simp only [List.length_replicate] at this
    rw [int_of_sgn_abs hs this]
  · obtain ⟨_, hs, hr⟩ := h
    have := congrArg List.length hr
    simp only [List.length_replicate] at this
    rw [int_of_sgn_abs hs this]
  · obtain ⟨_, hs1, hs2, hr⟩ := h
    have h1 := congrArg (List.count 'a') hr
    have h2 := congrArg (List.count 'b') hr
    simp [List.count_replicate] at h1 h2
    rw [int_of_sgn_abs hs1 h1, int_of_sgn_abs hs2 h2]
  · obtain ⟨_, hr⟩ := h
    have := congrArg List.length hr
    simp only [List.length_replicate] at this
    rename_i f g
    cases f; cases g
    simp only at this
    subst this
    rfl

open Classical in
noncomputable def unaryNumCode : NumCode where
  numTag := unaryTag
  numOf t := if h : ∃ n, unaryTag n = t then some (Classical.choose h) else none
  inv n := by
    have h : ∃ m, unaryTag m = unaryTag n := ⟨n, rfl⟩
    rw [dif_pos h]
    exact congrArg some (unaryTag_inj (Classical.choose_spec h))

end Marwood.Lemmas.MachineDatum
