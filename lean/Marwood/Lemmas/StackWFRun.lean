import Marwood.Lemmas.StackWFStep
import Marwood.Vm.Eval
/-!
# WF-stack along executions: the run loop with collections, and the stability of a frame's
description while the frame is live
-/
namespace Marwood.Vm
open Verify Stack

variable {H : Type} {ops : HeapOps H}

/-- `Frames` only consults the typing of the lambdas the chain mentions: the current one and those
    of the saved `InstructionPointer`s at or below `top` -/
theorem Frames.mono_on {V : VCell → Prop} {T T' : Typing} {e : Nat} {f : Nat → VCell} {top bp l o : Nat}
    {K : List FDesc} (h : Frames V T e f top bp l o K) :
    (∀ l1 t, T l1 = some t → (l1 = l ∨ ∃ i o1, i ≤ top ∧ f i = .instrPtr l1 o1) → T' l1 = some t) →
    Frames V T' e f top bp l o K := by
  induction h with
  | entry h1 h2 h3 h4 => intro hT; exact .entry (hT _ _ h1 (.inl rfl)) h2 h3 h4
  | @frame top bp l o t st n ep' l' o' bp' K h1 h2 h3 h4 h5 h6 h7 h8 h9 hnd hav hnp hc ih =>
    intro hT
    have hle := h4.lo_le
    have hT' : ∀ l1 t1, T l1 = some t1 → (l1 = l' ∨ ∃ i o1, i ≤ bp - n ∧ f i = .instrPtr l1 o1) → T' l1 = some t1 := by
      intro l1 t1 ht1 hor
      refine hT l1 t1 ht1 (.inr ?_)
      rcases hor with rfl | ⟨i, o1, hi, hf⟩
      · exact ⟨bp + 3, o', by omega, h7⟩
      · exact ⟨i, o1, by omega, hf⟩
    exact .frame (hT _ _ h1 (.inl rfl)) h2 h3 h4 h5 h6 h7 h8 h9 hnd hav
      (hc.np_mono (fun t1 ht1 => hT' _ t1 ht1 (.inl rfl)) hnp) (ih hT')
  | @pre top bp l o t n ep' l' o' K h1 h2 h3 h4 h5 h6 h7 hav hnp hc ih =>
    intro hT
    have hT' : ∀ l1 t1, T l1 = some t1 → (l1 = l' ∨ ∃ i o1, i ≤ top - 3 - n ∧ f i = .instrPtr l1 o1) → T' l1 = some t1 := by
      intro l1 t1 ht1 hor
      refine hT l1 t1 ht1 (.inr ?_)
      rcases hor with rfl | ⟨i, o1, hi, hf⟩
      · exact ⟨top, o', Nat.le_refl _, h5⟩
      · exact ⟨i, o1, by omega, hf⟩
    exact .pre (hT _ _ h1 (.inl rfl)) h2 h3 h4 h5 h6 h7 hav
      (hc.np_mono (fun t1 ht1 => hT' _ t1 ht1 (.inl rfl)) hnp) (ih hT')

/-- **What the stack discipline needs from the collector** (`run_gc`; a parameter, not an axiom):
    it changes nothing but the heap (`frame`, `acc`), keeps the heap invariant (`inv`), and neither frees
    nor alters a lambda that `ip.0` or a saved `InstructionPointer` on the live stack refers to
    (`roots`: `run_gc` marks `ip.0` and `stack[0..=sp]`; that marked cells survive unchanged is C03), nor
    the callee object in `acc` when that is the closure / lambda of the code `ip.0` is about to ENTER
    (`callee`: `acc` is a root too). -/
structure GcLaws (cl : CodeLaws ops) (gc : St H → St H) : Prop where
  frame : ∀ s, (gc s).stack = s.stack ∧ (gc s).bp = s.bp ∧ (gc s).ipL = s.ipL ∧ (gc s).ipO = s.ipO
  acc : ∀ s, (gc s).acc = s.acc
  callee : ∀ s, cl.HInv s.heap → enterLam ops s.heap s.acc = some s.ipL →
    enterLam ops (gc s).heap s.acc = some s.ipL
  inv : ∀ s, cl.HInv s.heap → cl.HInv (gc s).heap
  roots : ∀ s l bc, cl.HInv s.heap → cl.code s.heap l = some bc →
    (l = s.ipL ∨ ∃ i o, i ≤ s.stack.sp ∧ s.stack.cellAt i = .instrPtr l o) →
    cl.code (gc s).heap l = some bc

theorem WFS.gc {cl : CodeLaws ops} {gc : St H → St H} (gl : GcLaws cl gc) {s : St H} {K : List FDesc}
    (hw : WFS cl s K) : WFS cl (gc s) K := by
  obtain ⟨g1, g2, g3, g4⟩ := gl.frame s
  have hty : ∀ l1 t, tyOf (cl.code s.heap) l1 = some t →
      (l1 = s.ipL ∨ ∃ i o1, i ≤ s.stack.sp ∧ s.stack.cellAt i = .instrPtr l1 o1) →
      tyOf (cl.code (gc s).heap) l1 = some t := by
    intro l1 t ht hor
    unfold tyOf at ht ⊢
    cases hc : cl.code s.heap l1 with
    | none => rw [hc] at ht; cases ht
    | some bc =>
      rw [hc] at ht
      rw [gl.roots s l1 bc hw.inv hc hor]
      exact ht
  refine ⟨gl.inv s hw.inv, ⟨by rw [g1]; exact hw.wf.cap, ?_⟩, by rw [gl.acc]; exact hw.acc, ?_⟩
  · rw [g1, g2, g3, g4]
    exact hw.wf.frames.mono_on hty
  · intro t2 n ht2 hpre hA
    rw [g3] at ht2
    rw [g4] at hpre
    rw [g1] at hA
    obtain ⟨t, _, ht, _⟩ := hw.wf.frames.has_ty
    have := hty _ t ht (.inl rfl)
    rw [ht2] at this
    have e : t2 = t := Option.some.inj this
    subst e
    rcases hw.pre t2 n ht hpre hA with h | h
    · exact .inl h
    · right
      rw [g3, gl.acc]
      exact gl.callee s hw.inv h

/-- the state an evaluation starts in: `prepare_eval` has pointed `ip` at verified entry code, the
    stack pointer is the entry stack pointer -/
theorem WFS.initial {cl : CodeLaws ops} {s : St H} {entry : Nat} {t : LamTy} (hi : cl.HInv s.heap)
    (ht : tyOf (cl.code s.heap) entry = some t) (hent : t.entry = true)
    (hsp : s.stack.sp = cl.e) (hcap : s.stack.sp < s.stack.cells.length) (hacc : cl.Val s.acc) :
    WFS cl (prepare s entry) [] := by
  have h0 : stateAt t.tm 0 = some (.body []) := by
    have := checkAll_init (tyOf_spec ht).2
    rw [hent] at this
    simpa [initState] using this
  refine ⟨hi, ⟨hcap, ?_⟩, hacc, ?_⟩
  · exact Frames.entry (st := .body []) ht hent h0 (by show s.stack.sp = cl.e; exact hsp)
  · intro t2 n ht2 hpre _
    have ht2' : tyOf (cl.code s.heap) entry = some t2 := ht2
    rw [ht] at ht2'
    have e : t = t2 := Option.some.inj ht2'
    subst e
    have hpre' : stateAt t.tm 0 = some .pre := hpre
    rw [h0] at hpre'
    cases hpre'

/-- what the run loop can end in, from a WF state -/
theorem runLoop_wf {cl : CodeLaws ops} {gc : St H → St H} (gl : GcLaws cl gc) (count : Option Nat) :
    ∀ (fuel cycles : Nat) (s : St H) (K : List FDesc), WFS cl s K →
      match runLoop ⟨vmStep ops, gc⟩ count fuel cycles s with
      | .done s' => s'.stack.sp = cl.e ∧ cl.HInv s'.heap ∧ s'.stack.sp < s'.stack.cells.length ∧ cl.Val s'.acc
      | .error _ s' => cl.HInv s'.heap ∧ s'.stack.sp < s'.stack.cells.length ∧ cl.Val s'.acc
      | .paused s' => ∃ K', WFS cl s' K'
      | .fuel => True := by
  intro fuel
  induction fuel with
  | zero => intro cycles s K _; simp [runLoop]
  | succ fuel ih =>
    intro cycles s K hw
    simp only [runLoop]
    have hw1 : WFS cl (if (cycles + 1) % 8192 = 0 then gc s else s) K := by
      split
      · exact hw.gc gl
      · exact hw
    generalize (if (cycles + 1) % 8192 = 0 then gc s else s) = s1 at hw1
    cases hst : step ops s1 with
    | ok r =>
      obtain ⟨s2, b⟩ := r
      cases b with
      | true =>
        simp only [vmStep, hst]
        obtain ⟨h1, h2⟩ := step_halt hw1 hst
        obtain ⟨_, hr⟩ := step_true_is_halt hst
        have e1 := (readOpcode_ok hr).2
        have hh : s2.heap = s1.heap := by
          unfold step at hst
          rw [hr] at hst
          simp only [outcome_bind_ok] at hst
          cases hst
          subst e1
          rfl
        have ha : s2.acc = s1.acc := by
          unfold step at hst
          rw [hr] at hst
          simp only [outcome_bind_ok] at hst
          cases hst
          subst e1
          rfl
        exact ⟨by rw [h1]; exact h2, by rw [hh]; exact hw1.inv, by rw [h1]; exact hw1.wf.cap,
          by rw [ha]; exact hw1.acc⟩
      | false =>
        simp only [vmStep, hst]
        obtain ⟨K', hw2, _⟩ := step_preserves hw1 hst
        by_cases hcnt : count = some (cycles + 1)
        · simp only [hcnt, if_true]
          exact ⟨K', hw2.gc gl⟩
        · simp only [hcnt, if_false]
          exact ih _ s2 K' hw2
    | err e =>
      simp only [vmStep, hst]
      exact ⟨hw1.inv, hw1.wf.cap, hw1.acc⟩
    | panic m =>
      simp only [vmStep, hst]
      exact ⟨hw1.inv, hw1.wf.cap, hw1.acc⟩

/-! ## a live frame keeps its description -/

/-- the frames of a chain start at strictly decreasing indices, all above the entry `sp` -/
theorem Frames.bases {V : VCell → Prop} {T : Typing} {e : Nat} {f : Nat → VCell} {top bp l o : Nat}
    {K : List FDesc} (h : Frames V T e f top bp l o K) :
    (∀ d ∈ K, e < d.base ∧ d.base ≤ top) ∧ K.Pairwise (fun a b => b.base < a.base) := by
  induction h with
  | entry => exact ⟨by simp, List.Pairwise.nil⟩
  | @frame top bp l o t st n ep' l' o' bp' K h1 h2 h3 h4 h5 h6 h7 h8 h9 _ _ _ hc ih =>
    have hle := h4.lo_le
    have hel := hc.e_le
    refine ⟨?_, List.Pairwise.cons ?_ ih.2⟩
    · intro d hd
      rcases List.mem_cons.mp hd with rfl | hd
      · exact ⟨by show e < bp + 1 - n; omega, by show bp + 1 - n ≤ top; omega⟩
      · have := ih.1 d hd
        exact ⟨this.1, by omega⟩
    · intro d hd
      have := ih.1 d hd
      show d.base < bp + 1 - n
      omega
  | @pre top bp l o t n ep' l' o' K h1 h2 h3 h4 h5 h6 h7 _ _ hc ih =>
    have hel := hc.e_le
    refine ⟨?_, List.Pairwise.cons ?_ ih.2⟩
    · intro d hd
      rcases List.mem_cons.mp hd with rfl | hd
      · exact ⟨by show e < top - 2 - n; omega, by show top - 2 - n ≤ top; omega⟩
      · have := ih.1 d hd
        exact ⟨this.1, by omega⟩
    · intro d hd
      have := ih.1 d hd
      show d.base < top - 2 - n
      omega

/-- `Trace ops base s s'`: `s` reaches `s'` by executing instructions (none of them HALT, none of
    them invoking a continuation) such that the stack pointer never drops below `base` — i.e. the
    frame that starts at `base` is not returned from -/
inductive Trace (ops : HeapOps H) (base : Nat) : St H → St H → Prop
  | nil (s : St H) : Trace ops base s s
  | cons {s s1 s' : St H} : (∀ c, ops.callee s.heap s.acc ≠ .continuation c) →
      step ops s = .ok (s1, false) → base ≤ s1.stack.sp → Trace ops base s1 s' → Trace ops base s s'

theorem Trace.trans {base : Nat} {s s1 s2 : St H} (a : Trace ops base s s1) (b : Trace ops base s1 s2) :
    Trace ops base s s2 := by
  induction a with
  | nil => exact b
  | cons h1 h2 h3 _ ih => exact .cons h1 h2 h3 (ih b)

/-- **Stability**: along such a trace the frame `D` that starts at `base`, and everything below it,
    stay in the ghost list unchanged — whatever the code in between does (nested calls and returns,
    tail calls, builtins, `apply` / `eval` / `call/cc` re-dispatch) -/
theorem Trace.stable {cl : CodeLaws ops} {base : Nat} {s s' : St H} (htr : Trace ops base s s') :
    ∀ (P : List FDesc) (D : FDesc) (R : List FDesc), D.base = base → WFS cl s (P ++ D :: R) →
      ∃ P', WFS cl s' (P' ++ D :: R) := by
  induction htr with
  | nil s => intro P D R _ hw; exact ⟨P, hw⟩
  | @cons s s1 s' hnc hst hsp _ ih =>
    intro P D R hD hw
    obtain ⟨K1, hw1, hk⟩ := step_preserves hw hst
    rcases hk with rfl | ⟨d, rfl⟩ | ⟨d, hpop, hspd⟩ | ⟨c, hc⟩
    · exact ih P D R hD hw1
    · exact ih (d :: P) D R hD hw1
    · cases P with
      | nil =>
        simp only [List.nil_append, List.cons.injEq] at hpop
        obtain ⟨rfl, rfl⟩ := hpop
        omega
      | cons p P0 =>
        simp only [List.cons_append, List.cons.injEq] at hpop
        obtain ⟨rfl, rfl⟩ := hpop
        exact ih P0 D R hD hw1
    · exact absurd hc (hnc c)

/-- the current frame is the one that starts at `base` -/
def FrameBase (s : St H) (base : Nat) : Prop :=
  ∃ n, s.stack.cellAt (s.bp + 1) = .argc n ∧ n ≤ s.bp ∧ s.bp + 1 - n = base

/-- in a complete frame of procedure code whose base is `D.base`, where `D` is known to be in the
    ghost list, `D` is the innermost entry and the header cells are `D`'s -/
theorem header_of_base {cl : CodeLaws ops} {s s1 : St H} {P R : List FDesc} {D : FDesc} {op : Op}
    (hw : WFS cl s (P ++ D :: R)) (hr : readOpcode ops s = .ok (op, s1))
    (hop : op = .ret ∨ op = .tcallAcc) (hb : FrameBase s D.base) :
    P = [] ∧ s.stack.cellAt (s.bp + 2) = D.sep ∧ s.stack.cellAt (s.bp + 3) = D.sip ∧
      s.stack.cellAt (s.bp + 4) = .basePtr D.sbp := by
  obtain ⟨t, st, ai, _⟩ := hw.instr hr
  have chk := ai.chk
  have hent : t.entry = false ∧ st ≠ .pre := by
    rcases hop with rfl | rfl
    · cases st <;> simp only [checkOp] at chk <;> first | exact absurd chk Bool.false_ne_true | skip
      exact ⟨by simpa using chk, by simp⟩
    · cases st <;> simp only [checkOp, Bool.and_eq_true] at chk <;>
        first | exact absurd chk Bool.false_ne_true | skip
      exact ⟨by simpa using chk.1, by simp⟩
  obtain ⟨n, ep', l', o', bp', K', hm, hA, hE, hI, hB, hn, hfr, hK⟩ :=
    hw.wf.frames.inv_frame ai.ht hent.1 ai.hst hent.2
  obtain ⟨n2, hA2, hn2, hbase⟩ := hb
  rw [hA] at hA2; cases hA2
  have hpw := hw.wf.frames.bases.2
  cases P with
  | nil =>
    simp only [List.nil_append, List.cons.injEq] at hK
    obtain ⟨rfl, _⟩ := hK
    exact ⟨rfl, hE, hI, hB⟩
  | cons p P0 =>
    exfalso
    simp only [List.cons_append, List.cons.injEq] at hK
    obtain ⟨rfl, _⟩ := hK
    rw [List.cons_append, List.pairwise_cons] at hpw
    have := hpw.1 D (by simp)
    simp only at this
    omega

end Marwood.Vm
