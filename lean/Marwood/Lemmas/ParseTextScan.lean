import Marwood.Lemmas.LexSpans
/-!
# The scanner at a token boundary (used by C11, T11.4 and panic freedom of the parser's slicing)

* `scanFuel_shift`: the byte offset the scanner starts counting from only shifts the spans.
* `scanFuel_suffix` / `scan_suffix`: cutting the text at the start of a token of the scanner's
  answer and scanning the suffix yields that token and all later ones, with spans shifted by the
  offset of the cut.
* `scan_bodies`: every token of the scanner's answer is the slice of a non-empty body whose spelling
  has the shape the parser relies on for its token type (`BodyOK`).
-/
namespace Marwood

/-- a token whose span is moved `k` bytes to the right -/
def Token.shift (k : Nat) (t : Token) : Token := ⟨t.lo + k, t.hi + k, t.ty⟩

@[simp] theorem Token.shift_ty (k : Nat) (t : Token) : (t.shift k).ty = t.ty := rfl
@[simp] theorem Token.shift_lo (k : Nat) (t : Token) : (t.shift k).lo = t.lo + k := rfl
@[simp] theorem Token.shift_hi (k : Nat) (t : Token) : (t.shift k).hi = t.hi + k := rfl

theorem Token.shift_zero (t : Token) : t.shift 0 = t := rfl

theorem Token.map_shift_zero (ts : List Token) : ts.map (Token.shift 0) = ts := by
  induction ts with
  | nil => rfl
  | cons t ts ih => simp [ih, Token.shift_zero]

namespace ParseText

/-! ## fuel -/

theorem scanFuel_succ : ∀ (f pos : Nat) (cs : Text) (r : Except LexErr (List Token)),
    scanFuel f pos cs = some r → scanFuel (f + 1) pos cs = some r := by
  intro f
  induction f with
  | zero => intro pos cs r h; simp [scanFuel] at h
  | succ f ih =>
    intro pos cs r h
    cases cs with
    | nil => simpa [scanFuel] using h
    | cons c cs =>
      rw [scanFuel] at h ⊢
      split
      · rename_i e he; simp only [he] at h; exact h
      · rename_i a r' he
        simp only [he] at h
        exact ih _ _ _ h
      · rename_i a ty r' he
        simp only [he] at h
        cases hr : scanFuel f (pos + byteLen a) r' with
        | none => simp [hr] at h
        | some x =>
          rw [ih _ _ _ hr]
          simp only [hr] at h
          exact h

theorem scanFuel_mono {f f' pos : Nat} {cs : Text} {r : Except LexErr (List Token)} (hle : f ≤ f')
    (h : scanFuel f pos cs = some r) : scanFuel f' pos cs = some r := by
  induction hle with
  | refl => exact h
  | step _ ih => exact scanFuel_succ _ _ _ _ ih

/-- `lex::scan` agrees with any fuel that produced an answer -/
theorem scan_of_fuel {cs : Text} {f : Nat} {r : Except LexErr (List Token)}
    (hf : scanFuel f 0 cs = some r) : scan cs = r := by
  unfold scan scanFrom
  have htot := scanFuel_total (cs.length + 1) 0 cs (by omega)
  cases hp : scanFuel (cs.length + 1) 0 cs with
  | none => exact absurd hp htot
  | some r' =>
    simp only
    have h1 := scanFuel_mono (Nat.le_max_left f (cs.length + 1)) hf
    have h2 := scanFuel_mono (Nat.le_max_right f (cs.length + 1)) hp
    rw [h1] at h2
    exact (Option.some.inj h2).symm

theorem scan_fuel {cs : Text} {ts : List Token} (h : scan cs = .ok ts) :
    scanFuel (cs.length + 1) 0 cs = some (.ok ts) := by
  unfold scan scanFrom at h
  split at h
  · rename_i r hr; rw [hr, h]
  · cases h

/-! ## the start offset only shifts the spans -/

def shiftRes (k : Nat) :
    Option (Except LexErr (List Token)) → Option (Except LexErr (List Token))
  | none => none
  | some (.error e) => some (.error e)
  | some (.ok ts) => some (.ok (ts.map (Token.shift k)))

theorem scanFuel_shift (k : Nat) : ∀ (f pos : Nat) (cs : Text),
    scanFuel f (pos + k) cs = shiftRes k (scanFuel f pos cs) := by
  intro f
  induction f with
  | zero => intro pos cs; simp [scanFuel, shiftRes]
  | succ f ih =>
    intro pos cs
    cases cs with
    | nil => simp [scanFuel, shiftRes]
    | cons c cs =>
      simp only [scanFuel]
      cases hp : scanPiece c cs with
      | fail e => simp [shiftRes]
      | skip a r =>
        simp only
        have e : pos + k + byteLen a = pos + byteLen a + k := by omega
        rw [e]; exact ih _ _
      | tok a ty r =>
        simp only
        have e : pos + k + byteLen a = pos + byteLen a + k := by omega
        rw [e, ih]
        cases hr : scanFuel f (pos + byteLen a) r with
        | none => simp [shiftRes]
        | some x =>
          cases x with
          | error e => simp [shiftRes]
          | ok ts => simp [shiftRes, Token.shift]

/-- scanning from offset `k` succeeded: scanning from offset 0 succeeds with the same tokens
    `k` bytes to the left -/
theorem scanFuel_unshift {f k : Nat} {cs : Text} {ts : List Token}
    (h : scanFuel f k cs = some (.ok ts)) :
    ∃ ts0, scanFuel f 0 cs = some (.ok ts0) ∧ ts = ts0.map (Token.shift k) := by
  have := scanFuel_shift k f 0 cs
  rw [Nat.zero_add, h] at this
  cases h0 : scanFuel f 0 cs with
  | none => rw [h0] at this; simp [shiftRes] at this
  | some x =>
    cases x with
    | error e => rw [h0] at this; simp [shiftRes] at this
    | ok ts0 =>
      rw [h0] at this
      simp only [shiftRes, Option.some.injEq, Except.ok.injEq] at this
      exact ⟨ts0, rfl, this⟩

/-! ## cutting at the start of a token -/

/-- the scanner's state when it reaches a token of its answer: the text from there on, scanned
    from that token's offset, yields that token and everything after it -/
theorem scanFuel_suffix : ∀ (f pos : Nat) (cs : Text) (ts : List Token),
    scanFuel f pos cs = some (.ok ts) →
    ∀ (pre : List Token) (t : Token) (rest : List Token), ts = pre ++ t :: rest →
      ∃ (f' : Nat) (p sfx : Text), cs = p ++ sfx ∧ t.lo = pos + byteLen p ∧
        scanFuel f' t.lo sfx = some (.ok (t :: rest)) := by
  intro f
  induction f with
  | zero => intro pos cs ts h; simp [scanFuel] at h
  | succ f ih =>
    intro pos cs ts h pre t rest hts
    cases cs with
    | nil =>
      simp [scanFuel] at h
      subst h
      simp at hts
    | cons c cs =>
      simp only [scanFuel] at h
      cases hp : scanPiece c cs with
      | fail e => simp [hp] at h
      | skip a r =>
        simp only [hp] at h
        have ⟨hs, _⟩ := scanPiece_skip hp
        obtain ⟨f', p, sfx, he, hlo, hsc⟩ := ih _ _ _ h pre t rest hts
        refine ⟨f', a ++ p, sfx, by rw [← hs, he]; simp, ?_, hsc⟩
        rw [hlo, byteLen_append]; omega
      | tok a ty r =>
        simp only [hp] at h
        have ⟨hs, _⟩ := scanPiece_tok hp
        cases hr : scanFuel f (pos + byteLen a) r with
        | none => simp [hr] at h
        | some x =>
          cases x with
          | error e => simp [hr] at h
          | ok ts' =>
            simp only [hr, Option.some.injEq, Except.ok.injEq] at h
            cases pre with
            | nil =>
              simp only [List.nil_append] at hts
              have ht : t = ⟨pos, pos + byteLen a, ty⟩ := by
                rw [hts] at h; exact (List.cons.inj h).1.symm
              have hlo : t.lo = pos := by rw [ht]
              refine ⟨f + 1, [], c :: cs, rfl, by simp [hlo], ?_⟩
              rw [hlo]
              simp only [scanFuel, hp, hr]
              rw [← hts, h]
            | cons x pre' =>
              rw [hts] at h
              simp only [List.cons_append, List.cons.injEq] at h
              obtain ⟨f', p, sfx, he, hlo, hsc⟩ := ih _ _ _ hr pre' t rest h.2
              refine ⟨f', a ++ p, sfx, by rw [← hs, he]; simp, ?_, hsc⟩
              rw [hlo, byteLen_append]; omega

/-- **scan of a suffix at a token boundary = shifted tail of the token list** -/
theorem scan_suffix {text : Text} {ts pre : List Token} {t : Token} {rest : List Token}
    (h : scan text = .ok ts) (hts : ts = pre ++ t :: rest) :
    ∃ (p sfx : Text) (ts0 : List Token), text = p ++ sfx ∧ t.lo = byteLen p ∧
      scan sfx = .ok ts0 ∧ t :: rest = ts0.map (Token.shift t.lo) := by
  obtain ⟨f', p, sfx, he, hlo, hsc⟩ := scanFuel_suffix _ _ _ _ (scan_fuel h) pre t rest hts
  obtain ⟨ts0, h0, hmap⟩ := scanFuel_unshift hsc
  exact ⟨p, sfx, ts0, he, by simpa using hlo, scan_of_fuel h0, hmap⟩

/-! ## the spelling of a token, by type -/

def isPrefixLetter (d : Char) : Prop :=
  d = 'e' ∨ d = 'i' ∨ d = 'b' ∨ d = 'o' ∨ d = 'd' ∨ d = 'x'

/-- what the parser's slicing and unwrapping relies on, by token type: a character token is
    spelled `#\…`, a string token `"…"` (two distinct quote characters), a number prefix `#` and one
    of the six letters -/
def BodyOK (ty : TokType) (b : Text) : Prop :=
  (ty = .char → ∃ r, b = '#' :: '\\' :: r) ∧
  (ty = .string → ∃ inner, b = '"' :: (inner ++ ['"'])) ∧
  (ty = .numberPrefix → ∃ d, b = ['#', d] ∧ isPrefixLetter d)

theorem stringTail_closing : ∀ (cs : Text) (esc : Bool) (a r : Text),
    stringTail esc cs = some (a, r) → ∃ inner, a = inner ++ ['"'] := by
  intro cs
  induction cs with
  | nil => intro esc a r h; simp [stringTail] at h
  | cons c cs ih =>
    intro esc a r h
    simp only [stringTail] at h
    split at h
    · rename_i hc
      cases h
      have : c = '"' := by
        simp only [Bool.and_eq_true, beq_iff_eq] at hc; exact hc.1
      exact ⟨[], by simp [this]⟩
    · split at h
      · rename_i a' r' hr
        cases h
        obtain ⟨inner, hi⟩ := ih _ _ _ hr
        exact ⟨c :: inner, by simp [hi]⟩
      · cases h

theorem scanHash_body {c : Char} {cs a r : Text} {ty : TokType} (hc : c = '#')
    (h : scanHash c cs = .tok a ty r) : BodyOK ty a := by
  subst hc
  unfold scanHash at h
  cases cs with
  | nil => simp at h
  | cons d ds =>
    simp only at h
    repeat' split at h
    all_goals cases h
    all_goals simp_all [BodyOK, isPrefixLetter]
    rename_i h
    rcases h with ((((h | h) | h) | h) | h) | h <;> simp [h]

theorem scanDot_body {c : Char} {cs a r : Text} {ty : TokType}
    (h : scanDot c cs = .tok a ty r) : BodyOK ty a := by
  have hty : ty = .dot ∨ ty = .symbol ∨ ty = .number := by
    unfold scanDot at h
    repeat' split at h
    all_goals cases h
    all_goals first
      | (simp; done)
      | (split <;> simp)
  rcases hty with rfl | rfl | rfl <;> simp [BodyOK]

theorem scanString_body {c : Char} {cs a r : Text} {ty : TokType} (hc : c = '"')
    (h : scanString c cs = .tok a ty r) : BodyOK ty a := by
  subst hc
  unfold scanString at h
  split at h
  · cases h
  · rename_i a' r' hr
    simp only [Piece.tok.injEq] at h
    obtain ⟨rfl, rfl, rfl⟩ := h
    obtain ⟨inner, hi⟩ := stringTail_closing _ _ _ _ hr
    simp [BodyOK, hi]

theorem scanOther_body {c : Char} {cs a r : Text} {ty : TokType}
    (h : scanOther c cs = .tok a ty r) : BodyOK ty a := by
  have hty : ty = .symbol ∨ ty = .number := by
    unfold scanOther at h
    repeat' split at h
    all_goals cases h
    all_goals first
      | (simp; done)
      | (split <;> simp)
  rcases hty with rfl | rfl <;> simp [BodyOK]

theorem scanPiece_body {c : Char} {cs a r : Text} {ty : TokType}
    (h : scanPiece c cs = .tok a ty r) : BodyOK ty a := by
  unfold scanPiece at h
  repeat' split at h
  all_goals first
    | (simp only [Piece.tok.injEq] at h
       obtain ⟨_, rfl, _⟩ := h
       simp [BodyOK]
       done)
    | skip
  · rename_i hc; exact scanHash_body (by simpa using hc) h
  · exact scanDot_body h
  · rename_i hc; exact scanString_body (by simpa using hc) h
  · exact scanOther_body h

/-- every token of the scanner's answer: where it lies and how it is spelled -/
theorem scanFuel_bodies : ∀ (f pos : Nat) (cs : Text) (ts : List Token),
    scanFuel f pos cs = some (.ok ts) →
    ∀ t ∈ ts, ∃ pre body post, cs = pre ++ body ++ post ∧ t.lo = pos + byteLen pre ∧
      t.hi = t.lo + byteLen body ∧ body ≠ [] ∧ BodyOK t.ty body := by
  intro f
  induction f with
  | zero => intro pos cs ts h; simp [scanFuel] at h
  | succ f ih =>
    intro pos cs ts h t ht
    cases cs with
    | nil => simp [scanFuel] at h; subst h; simp at ht
    | cons c cs =>
      simp only [scanFuel] at h
      cases hp : scanPiece c cs with
      | fail e => simp [hp] at h
      | skip a r =>
        simp only [hp] at h
        have ⟨hs, _⟩ := scanPiece_skip hp
        obtain ⟨pre, body, post, he, hlo, hhi, hne, hb⟩ := ih _ _ _ h t ht
        refine ⟨a ++ pre, body, post, by rw [← hs, he]; simp, ?_, hhi, hne, hb⟩
        rw [hlo, byteLen_append]; omega
      | tok a ty r =>
        simp only [hp] at h
        have ⟨hs, hane⟩ := scanPiece_tok hp
        cases hr : scanFuel f (pos + byteLen a) r with
        | none => simp [hr] at h
        | some x =>
          cases x with
          | error e => simp [hr] at h
          | ok ts' =>
            simp only [hr, Option.some.injEq, Except.ok.injEq] at h
            subst h
            rcases List.mem_cons.mp ht with rfl | ht'
            · exact ⟨[], a, r, by simp [hs], by simp, rfl, hane, scanPiece_body hp⟩
            · obtain ⟨pre, body, post, he, hlo, hhi, hne, hb⟩ := ih _ _ _ hr t ht'
              refine ⟨a ++ pre, body, post, by rw [← hs, he]; simp, ?_, hhi, hne, hb⟩
              rw [hlo, byteLen_append]; omega

/-- a token the parser can slice out of `text`: in bounds, on character boundaries, non-empty,
    spelled as its type promises -/
def TokOK (text : Text) (t : Token) : Prop :=
  ∃ body, sliceBytes t.lo t.hi text = some body ∧ body ≠ [] ∧ BodyOK t.ty body

theorem scan_bodies {text : Text} {ts : List Token} (h : scan text = .ok ts) :
    ∀ t ∈ ts, TokOK text t := by
  intro t ht
  obtain ⟨pre, body, post, he, hlo, hhi, hne, hb⟩ := scanFuel_bodies _ _ _ _ (scan_fuel h) t ht
  refine ⟨body, ?_, hne, hb⟩
  rw [he, hhi, hlo, Nat.zero_add]
  exact sliceBytes_append _ _ _

end ParseText
end Marwood
