import Marwood.Lemmas.EqualView
/-!
# `equal?` is structural equality of the abstract tree views: the induction (C14)

`pinned_view`: by induction on the fuel, the three pinned loops on viewed arguments return `Tree.equiv` of the
views; fuel `2 * size` of the left view suffices (a pair spine costs one level per cdr, a vector one per slot).
`equal_view` transfers it to the repaired `equal` (`equal_agrees`); `equal_view_total` replaces the size bound
by `equalFuel s` (`equal_total` + monotonicity of the repaired loops in the fuel, `seen_step`).
Core Lean only.
-/
namespace Marwood.Store
open Outcome

theorem View.isPair_cell {s : Store} {c : VCell} {t : Tree} (hc : c.isPtr = false) (h : View s c t) :
    c.isPair = t.isPair := by
  rcases h.cell_cases hc with ⟨a, rfl, rfl⟩ | ⟨i, ta, rfl, _, rfl⟩ | ⟨a, d, ta, td, rfl, _, _, rfl⟩ |
      ⟨i, xs, ts, rfl, _, _, rfl⟩
  · cases a <;> rfl
  · rfl
  · rfl
  · rfl

/-- a pair cell against a viewed cell that is not a pair: `#f`, with one unit of fuel -/
theorem pinned_equal_pair_nonpair {s : Store} {a d : Nat} {cr : VCell} {tr : Tree} (hcr : cr.isPtr = false)
    (hr : View s cr tr) (hp : tr.isPair = false) (g : Nat) : Pinned.equal (g+1) s (.pair a d) cr = .ok false := by
  rcases hr.cell_cases hcr with ⟨b, rfl, rfl⟩ | ⟨j, tb, rfl, _, rfl⟩ | ⟨a', d', ta', td', rfl, _, _, rfl⟩ |
      ⟨j, ys, us, rfl, _, _, rfl⟩
  · cases b <;> rfl
  · rfl
  · cases hp
  · rfl

theorem pinned_view (s : Store) : ∀ f : Nat,
    (∀ l r tl tr, View s l tl → View s r tr → 2 * tl.size ≤ f → Pinned.equal f s l r = .ok (tl.equiv tr)) ∧
    (∀ l r tl tr, l.isPtr = false → r.isPtr = false → View s l tl → View s r tr →
      (tl.isPair = true → 2 * tl.size ≤ f + 1) → (tl.isPair = false → 2 * tl.size + 1 ≤ f) →
      Pinned.comparePair f s l r = .ok (tl.equiv tr)) ∧
    (∀ xs ys ts us, ViewAll s xs ts → ViewAll s ys us → xs.length = ys.length → 2 * Tree.sizeAll ts + 1 ≤ f →
      Pinned.compareVector f s xs ys = .ok (Tree.equivAll ts us)) := by
  intro f
  induction f with
  | zero =>
    refine ⟨?_, ?_, ?_⟩
    · intro l r tl tr _ _ h; have := tl.size_pos; omega
    · intro l r tl tr _ _ _ _ h1 h2
      have := tl.size_pos
      cases hp : tl.isPair
      · have := h2 hp; omega
      · have := h1 hp; omega
    · intro _ _ _ _ _ _ _ h; omega
  | succ f ih =>
    obtain ⟨ihE, ihP, ihV⟩ := ih
    refine ⟨?_, ?_, ?_⟩
    · -- `equal`
      intro l r tl tr hl hr hf
      obtain ⟨b, hb, hbt⟩ := eqv_view hl hr
      obtain ⟨cl, hgl, hcl, hl'⟩ := hl.deref
      obtain ⟨cr, hgr, hcr, hr'⟩ := hr.deref
      cases b with
      | true =>
        simp only [Pinned.equal, hb, bind_ok, if_true]
        rw [hbt rfl, Tree.equiv_refl]
      | false =>
        simp only [Pinned.equal, hb, bind_ok, Bool.false_eq_true, if_false, derefArg, hgl, hgr]
        rcases hl'.cell_cases hcl with ⟨a, rfl, rfl⟩ | ⟨i, ta, rfl, hsa, rfl⟩ | ⟨a, d, ta, td, rfl, ha, hd, rfl⟩ |
            ⟨i, xs, ts, rfl, hv, hx, rfl⟩
        · rcases hr'.cell_cases hcr with ⟨b, rfl, rfl⟩ | ⟨j, tb, rfl, hsb, rfl⟩ |
              ⟨a', d', ta', td', rfl, ha', hd', rfl⟩ | ⟨j, ys, us, rfl, hv', hx', rfl⟩
          · cases a <;> cases b <;> rfl
          · cases a <;> rfl
          · cases a <;> rfl
          · cases a <;> rfl
        · rcases hr'.cell_cases hcr with ⟨b, rfl, rfl⟩ | ⟨j, tb, rfl, hsb, rfl⟩ |
              ⟨a', d', ta', td', rfl, ha', hd', rfl⟩ | ⟨j, ys, us, rfl, hv', hx', rfl⟩
          · cases b <;> rfl
          · simp only [strGet_of hsa, strGet_of hsb, bind_ok, Tree.equiv]
          · rfl
          · rfl
        · rcases hr'.cell_cases hcr with ⟨b, rfl, rfl⟩ | ⟨j, tb, rfl, hsb, rfl⟩ |
              ⟨a', d', ta', td', rfl, ha', hd', rfl⟩ | ⟨j, ys, us, rfl, hv', hx', rfl⟩
          · cases b <;> rfl
          · rfl
          · exact ihP _ _ _ _ rfl rfl hl' hr' (fun _ => hf) (fun h => by cases h)
          · rfl
        · rcases hr'.cell_cases hcr with ⟨b, rfl, rfl⟩ | ⟨j, tb, rfl, hsb, rfl⟩ |
              ⟨a', d', ta', td', rfl, ha', hd', rfl⟩ | ⟨j, ys, us, rfl, hv', hx', rfl⟩
          · cases b <;> rfl
          · rfl
          · rfl
          · simp only [vecGet_of hv, vecGet_of hv', bind_ok, Tree.equiv]
            by_cases hlen : (xs.length != ys.length) = true
            · rw [if_pos hlen]
              have : ts.length ≠ us.length := by
                rw [← hx.length, ← hx'.length]; simpa using hlen
              rw [Tree.equivAll_length this]
            · rw [if_neg hlen]
              simp only [Tree.size] at hf
              exact ihV _ _ _ _ hx hx' (by simpa using hlen) (by omega)
    · -- `compare_pair`
      intro l r tl tr hcl hcr hl hr h1 h2
      have hlp := View.isPair_cell hcl hl
      have hrp := View.isPair_cell hcr hr
      cases htp : tl.isPair with
      | false =>
        have : (!l.isPair || !r.isPair) = true := by rw [hlp, htp]; rfl
        simp only [Pinned.comparePair, this, if_true]
        exact ihE _ _ _ _ hl hr (by have := h2 htp; omega)
      | true =>
        have hsz := h1 htp
        rcases hl.cell_cases hcl with ⟨a, rfl, rfl⟩ | ⟨i, ta, rfl, hsa, rfl⟩ | ⟨a, d, ta, td, rfl, ha, hd, rfl⟩ |
            ⟨i, xs, ts, rfl, hv, hx, rfl⟩
        · cases htp
        · cases htp
        · simp only [Tree.size] at hsz
          have hpa := ta.size_pos
          have hpd := td.size_pos
          cases htrp : tr.isPair with
          | false =>
            have : (!(VCell.pair a d).isPair || !r.isPair) = true := by rw [hrp, htrp]; rfl
            simp only [Pinned.comparePair, this, if_true]
            obtain ⟨g, rfl⟩ : ∃ g, f = g + 1 := ⟨f - 1, by omega⟩
            rw [pinned_equal_pair_nonpair hcr hr htrp g]
            cases tr <;> first | rfl | cases htrp
          | true =>
            rcases hr.cell_cases hcr with ⟨b, rfl, rfl⟩ | ⟨j, tb, rfl, hsb, rfl⟩ |
                ⟨a', d', ta', td', rfl, ha', hd', rfl⟩ | ⟨j, ys, us, rfl, hv', hx', rfl⟩
            · cases htrp
            · cases htrp
            · obtain ⟨cd, hgd, hcd, hd1⟩ := hd.deref
              obtain ⟨cd', hgd', hcd', hd1'⟩ := hd'.deref
              have e1 := ihE _ _ _ _ ha ha' (by omega)
              simp only [Pinned.comparePair, VCell.isPair, Bool.not_true, Bool.or_self, Bool.false_eq_true, if_false,
                VCell.asCar_pair, VCell.asCdr_pair, bind_ok, e1, hgd, hgd', Tree.equiv]
              cases hb : ta.equiv ta' with
              | false => simp
              | true =>
                simp only [Bool.not_true, Bool.false_eq_true, if_false, Bool.true_and]
                exact ihP _ _ _ _ hcd hcd' hd1 hd1' (fun _ => by omega) (fun _ => by omega)
            · cases htrp
        · cases htp
    · -- `compare_vector`
      intro xs ys ts us hx hy hlen hf
      cases hx with
      | nil =>
        cases hy with
        | nil => rfl
        | cons _ _ => simp at hlen
      | cons h1 h2 =>
        cases hy with
        | nil => simp at hlen
        | cons h1' h2' =>
          simp only [Tree.sizeAll] at hf
          have e1 := ihE _ _ _ _ h1 h1' (by omega)
          simp only [Pinned.compareVector, e1, bind_ok, Tree.equivAll]
          rename_i x xs t ts y ys u us
          cases hb : t.equiv u with
          | false => simp
          | true =>
            simp only [Bool.not_true, Bool.false_eq_true, if_false, Bool.true_and]
            exact ihV _ _ _ _ h2 h2' (by simpa using hlen) (by omega)


/-! ## transfer to the repaired `equal` -/

/-- **`equal?` on two viewed values is `equal?` of R7RS on their views**, with fuel `2 * size` of the left view -/
theorem equal_view {s : Store} {l r : VCell} {tl tr : Tree} (hl : View s l tl) (hr : View s r tr) {fuel : Nat}
    (hf : 2 * tl.size ≤ fuel) : equal fuel s l r = .ok (tl.equiv tr) := by
  have hp := (pinned_view s (2 * tl.size)).1 l r tl tr hl hr (Nat.le_refl _)
  rw [equal_agrees (by rw [hp]; simp) hf, hp]

/-! ## the repaired loops are monotone in the fuel -/

theorem seen_step (s : Store) : ∀ f : Nat,
    (∀ seen l r, Le (equalSeen f s seen l r) (equalSeen (f+1) s seen l r)) ∧
    (∀ seen l r, Le (comparePairSeen f s seen l r) (comparePairSeen (f+1) s seen l r)) ∧
    (∀ seen xs ys, Le (compareVectorSeen f s seen xs ys) (compareVectorSeen (f+1) s seen xs ys)) := by
  intro f
  induction f with
  | zero => exact ⟨fun _ _ _ => .inl rfl, fun _ _ _ => .inl rfl, fun _ _ _ => .inl rfl⟩
  | succ f ih =>
    obtain ⟨ihE, ihP, ihV⟩ := ih
    refine ⟨?_, ?_, ?_⟩
    · intro seen l r
      unfold equalSeen
      refine Le.bind (Le.refl _) (fun b => ?_)
      cases b
      · simp only [Bool.false_eq_true, if_false]
        refine Le.bind (Le.refl _) (fun l' => Le.bind (Le.refl _) (fun r' => ?_))
        split
        · split
          · exact Le.refl _
          · exact ihP _ _ _
        · split
          · exact Le.refl _
          · refine Le.bind (Le.refl _) (fun xs => Le.bind (Le.refl _) (fun ys => ?_))
            by_cases h : (xs.length != ys.length) = true
            · rw [if_pos h, if_pos h]; exact Le.refl _
            · rw [if_neg h, if_neg h]; exact ihV _ _ _
        · exact Le.refl _
        · exact Le.refl _
      · simp only [if_true]; exact Le.refl _
    · intro seen l r
      unfold comparePairSeen
      by_cases h : (!l.isPair || !r.isPair) = true
      · rw [if_pos h, if_pos h]; exact ihE _ _ _
      · rw [if_neg h, if_neg h]
        cases l with
        | pair a d =>
          cases r with
          | pair a' d' =>
            simp only [VCell.asCar_pair, VCell.asCdr_pair, bind_ok, VCell.asPtr_ptr]
            refine Le.bind (ihE _ _ _) (fun p => ?_)
            obtain ⟨b, seen1⟩ := p
            cases b
            · simp only [Bool.not_false, if_true]; exact Le.refl _
            · simp only [Bool.not_true, Bool.false_eq_true, if_false]
              refine Le.bind (Le.refl _) (fun l' => Le.bind (Le.refl _) (fun r' => ?_))
              by_cases hb : (l'.isPair && r'.isPair) = true
              · rw [if_pos hb, if_pos hb]
                split
                · exact Le.refl _
                · exact ihP _ _ _
              · rw [if_neg hb, if_neg hb]; exact ihP _ _ _
          | _ => simp [VCell.isPair] at h
        | _ => simp [VCell.isPair] at h
    · intro seen xs ys
      cases xs with
      | nil => simp only [compareVectorSeen]; exact Le.refl _
      | cons x xs' =>
        cases ys with
        | nil => simp only [compareVectorSeen]; exact Le.refl _
        | cons y ys' =>
          simp only [compareVectorSeen]
          refine Le.bind (ihE _ _ _) (fun p => ?_)
          obtain ⟨b, seen1⟩ := p
          cases b
          · simp only [Bool.not_false, if_true]; exact Le.refl _
          · simp only [Bool.not_true, Bool.false_eq_true, if_false]; exact ihV _ _ _

theorem equal_step (s : Store) (f : Nat) (l r : VCell) : Le (equal f s l r) (equal (f+1) s l r) := by
  unfold equal
  exact Le.bind ((seen_step s f).1 [] l r) (fun _ => Le.refl _)

/-- once `equal` has returned, more fuel does not change the answer -/
theorem equal_mono (s : Store) (l r : VCell) {f g : Nat} (h : f ≤ g) : Le (equal f s l r) (equal g s l r) := by
  induction h with
  | refl => exact Le.refl _
  | step _ ih => exact ih.trans (equal_step s _ l r)

/-- the same with the fuel that never runs out (`equalFuel s`, `equal_total`): on a store of the shape of a real
    heap the tree may be as large as it likes (a DAG unfolds into a tree exponentially larger than the store) -/
theorem equal_view_total {s : Store} (hsh : s.Shaped) {l r : VCell} {tl tr : Tree} (hlv : l.isValue = true)
    (hrv : r.isValue = true) (hl : View s l tl) (hr : View s r tr) {fuel : Nat} (hf : equalFuel s ≤ fuel) :
    equal fuel s l r = .ok (tl.equiv tr) := by
  have ht := equal_total hsh hlv hrv hf
  have hbig := equal_view hl hr (fuel := max fuel (2 * tl.size)) (Nat.le_max_right _ _)
  rw [(equal_mono s l r (Nat.le_max_left fuel (2 * tl.size))).eq_of_ne ht, hbig]

end Marwood.Store
