import Marwood.Lemmas.EnvFitStack
/-!
# The slot clause of T06.6 as an invariant: ENTER and VARARG (the two prologue instructions)

ENTER: `acc` holds the callee whose code `ip.0` points to (`FInv.pre`); for a closure the activation environment is as
long as the closure's environment, which fits the code (`HF`); for a bare lambda the map is empty (hypothesis).
VARARG: still in the prologue afterwards; the heap changes by `put`s of values / `Nil` / pairs, the stack is rebuilt from
live cells with the two header cells `(ep, ip)` CALL pushed staying adjacent.
-/
namespace Marwood.Lemmas.Good
open Marwood Marwood.Vm Marwood.Vm.Verify Marwood.Vm.Concrete Marwood.Lemmas.Sim
open Marwood.Heap (GcState)
open StepC

/-! ## header cells that refer to allocated cells -/

/-- if `w` is a header cell, what it points to is allocated -/
def HOk (h : CHeap) (w : VCell) : Prop := (∀ e, w = .envPtr e → NF h e) ∧ (∀ l o, w = .instrPtr l o → NF h l)

theorem HOk.of_nhdr {h : CHeap} {w : VCell} (x : NHdr w) : HOk h w :=
  ⟨fun e he => absurd he (x.1 e), fun l o he => absurd he (x.2 l o)⟩

theorem nhdr_ptr (a : Nat) : NHdr (.ptr a) := by
  refine ⟨fun _ hh => ?_, fun _ _ hh => ?_⟩ <;> cases hh

theorem nhdr_argc (n : Nat) : NHdr (.argc n) := by
  refine ⟨fun _ hh => ?_, fun _ _ hh => ?_⟩ <;> cases hh

theorem nhdr_basePtr (n : Nat) : NHdr (.basePtr n) := by
  refine ⟨fun _ hh => ?_, fun _ _ hh => ?_⟩ <;> cases hh

theorem nhdr_undefined : NHdr .undefined := by
  refine ⟨fun _ hh => ?_, fun _ _ hh => ?_⟩ <;> cases hh

/-- every cell at or below `sp` -/
def AllHOk (h : CHeap) (st : Stack) : Prop := ∀ i w, i ≤ st.sp → st.cells[i]? = some w → HOk h w

theorem allHOk_live {s : St CHeap} (g : GoodI s) : AllHOk s.heap s.stack := by
  intro i w hi hw
  refine ⟨?_, ?_⟩
  · intro e he; subst he; exact hdr_nf_env g hi hw
  · intro l o he; subst he; exact hdr_nf_ip g hi hw

theorem AllHOk.resp {h : CHeap} {st st' : Stack} (x : AllHOk h st) (hc : st'.cells = st.cells) (hsp : st'.sp ≤ st.sp) :
    AllHOk h st' := by
  intro i w hi hw
  rw [hc] at hw
  exact x i w (by omega) hw

theorem AllHOk.push {h : CHeap} {st : Stack} {v : VCell} (x : AllHOk h st) (hv : HOk h v) : AllHOk h (st.push v) := by
  intro i w hi hw
  rw [push_sp] at hi
  by_cases htop : i = st.sp + 1
  · subst htop
    rw [push_top] at hw
    cases hw; exact hv
  · rcases push_get (show i ≤ st.sp by omega) hw with hw' | hw'
    · exact x i w (by omega) hw'
    · subst hw'
      exact .of_nhdr nhdr_undefined

theorem PairsOk.keepH {h h' : CHeap} {st : Stack} (k : FitKeep h h') (a : AllHOk h st) (x : PairsOk h st.cells st.sp) :
    PairsOk h' st.cells st.sp :=
  x.keep' k (fun i e hi hv => (a i _ hi hv).1 e rfl) (fun i l o hi hv => (a i _ hi hv).2 l o rfl)

/-- pushing any cell: an `InstructionPointer` on top of an `EnvironmentPointer` has to fit -/
theorem PairsOk.push_any {h : CHeap} {st : Stack} {v : VCell} (x : PairsOk h st.cells st.sp)
    (htop : ∀ e l o, v = .instrPtr l o → st.cells[st.sp]? = some (.envPtr e) → Fit h e l) :
    PairsOk h (st.push v).cells (st.push v).sp := by
  by_cases hv : ∃ l o, v = .instrPtr l o
  · obtain ⟨l, o, rfl⟩ := hv
    exact x.push_ip (fun e he => htop e l o rfl he)
  · exact x.push (fun l o hh => hv ⟨l, o, hh⟩)

/-- the cells of a stack after `set` -/
theorem set_getC {st st' : Stack} {k i : Nat} {v w : VCell} (hs : st.set k v = .ok st') (hw : st'.cells[i]? = some w) :
    st.cells[i]? = some w ∨ w = v := by
  unfold Stack.set at hs
  split at hs
  · cases hs
    simp only at hw
    by_cases h1 : k = i
    · subst h1
      rw [List.getElem?_set_self (by assumption)] at hw
      cases hw; exact .inr rfl
    · rw [List.getElem?_set_ne h1] at hw
      exact .inl hw
  · cases hs

theorem AllHOk.setOffset {h : CHeap} {st st' : Stack} {off : Int} {v : VCell} (x : AllHOk h st) (hv : HOk h v)
    (hsp : st'.sp = st.sp) (hs : st.setOffset off v = .ok st') : AllHOk h st' := by
  unfold Stack.setOffset at hs
  simp only at hs
  split at hs
  · intro i w hi hw
    rcases set_getC hs hw with hw' | hw'
    · exact x i w (by omega) hw'
    · subst hw'; exact hv
  · cases hs

/-! ## `put` -/

theorem putV_fs {h h' : CHeap} (lf : LF h) {v r : VCell} (hv : ∀ l e, v ≠ .closure l e) (e : putV h v = (h', r)) :
    FStep NoClaim h h' := by
  have := (putV_fstep lf v).weaken (N' := NoClaim) (fun c hc => by subst hc; exact NoClaim.val hv)
  rw [e] at this
  exact this

theorem putV_isPtr {h h' : CHeap} {v r : VCell} (e : putV h v = (h', r)) : ∃ a, r = .ptr a := by
  unfold putV at e
  split at e
  · cases e
    rename_i hp
    cases v <;> first | exact ⟨_, rfl⟩ | (simp [isPtr] at hp)
  · unfold putNew at e
    split at e
    · split at e
      · cases e; exact ⟨_, rfl⟩
      · cases e; exact ⟨_, rfl⟩
    · cases e; exact ⟨_, rfl⟩

theorem not_closure_of_plainGlob {v : VCell} (hp : plainGlob v = true) : ∀ l e, v ≠ .closure l e := by
  intro l e hh; subst hh; simp [plainGlob, isPtr, addrFree] at hp

/-! ## ENTER -/

/-- the closure ENTER dispatches on fits -/
theorem callee_closure_fit {s : St CHeap} (g : GoodI s) (f : FInv s) {lam env : Nat}
    (hc : callee s.heap s.acc = .closure lam env) : Fit s.heap env lam := by
  unfold callee at hc
  split at hc
  · rename_i p heq
    split at hc
    · rename_i c hcell
      cases c with
      | val v =>
        cases v <;> simp only [calleeOfCell] at hc <;> cases hc
        exact f.hf p _ hcell lam env rfl
      | _ => simp only [calleeOfCell] at hc <;> cases hc
    · cases hc
  · rename_i l e heq
    have := g.accv
    rw [heq] at this
    simp [plainGlob, isPtr, addrFree] at this
  · cases hc
  · cases hc

section
variable {ext : ExtOps} {s0 s' : St CHeap} {b : Bool}

theorem fv_enter (g : GoodI s0) (lf : LF s0.heap) (sd : StackDisc s0) (sm' : Small s'.heap) (f : FInv s0)
    (hpre : InPre s0.heap s0.ipL s0.ipO) (hnp : ¬ InPre s0.heap s0.ipL (s0.ipO + 1))
    (hbare : ∀ p lam, s0.acc = .ptr p → callee s0.heap s0.acc = .lambda → lambdaAt s0.heap p = some lam →
      lam.envmap = [])
    (hx : exec (concreteOps ext) .enter (nx s0) = .ok (s', b)) : FInv s' := by
  have _ := sd
  have b' : s'.heap.cells.size ≤ 2 ^ 63 := by unfold Small at sm'; omega
  unfold exec at hx
  obtain ⟨s1, h1, hx⟩ := bind_ok hx
  have hcl : calleeLam s0.heap s0.acc = some s0.ipL := by
    rcases f.pre hpre with hu | hc
    · exfalso
      have e : (concreteOps ext).callee (nx s0).heap (nx s0).acc = .other := by
        show callee s0.heap s0.acc = .other
        rw [hu]; rfl
      unfold stepEnter at h1
      rw [e] at h1
      obtain ⟨_, h2, _⟩ := bind_ok h1
      cases h2
    · exact hc
  cases hx
  rw [StepC.stepEnter_eq] at h1
  obtain ⟨⟨lam, cenv⟩, hce, h1⟩ := bind_ok h1
  unfold enterBody at h1
  simp only [concreteOps] at h1
  cases hla : lambdaAt s0.heap lam with
  | none => rw [hla] at h1; cases h1
  | some l =>
    rw [hla] at h1
    simp only [Option.map_some] at h1
    obtain ⟨a, _, h1⟩ := bind_ok h1
    obtain ⟨n, _, h1⟩ := bind_ok h1
    obtain ⟨_, h1⟩ := ite_err_ok h1
    obtain ⟨bp', hbp, h1⟩ := bind_ok h1
    have hstk : PairsOk s0.heap (s0.stack.push (.basePtr s0.bp)).cells (s0.stack.push (.basePtr s0.bp)).sp :=
      f.stk.push (nhdr_basePtr _).2
    have hall : AllHOk s0.heap (s0.stack.push (.basePtr s0.bp)) :=
      (allHOk_live g).push (.of_nhdr (nhdr_basePtr _))
    cases cenv with
    | none =>
      simp only at h1
      cases h1
      -- the callee is a bare lambda
      have hcal : callee s0.heap s0.acc = .lambda ∧ s0.acc = .ptr lam := by
        cases hc : (concreteOps ext).callee (nx s0).heap (nx s0).acc with
        | closure l2 e2 => rw [hc] at hce; cases hce
        | lambda =>
          rw [hc] at hce
          obtain ⟨p, hp, hce⟩ := bind_ok hce
          cases hce
          exact ⟨hc, StepB.asPtr_inv hp⟩
        | builtin id => rw [hc] at hce; cases hce
        | continuation c => rw [hc] at hce; cases hce
        | other => rw [hc] at hce; cases hce
      have hlam : lam = s0.ipL := by
        unfold calleeLam at hcl
        rw [hcal.1, hcal.2] at hcl
        simpa using hcl
      refine ⟨f.hf, hstk, fun hp => absurd hp hnp, fun _ => ?_⟩
      refine Fit.of_empty (fun lam' hl' => hbare lam lam' hcal.2 hcal.1 ?_)
      rw [hlam]; exact hl'
    | some env =>
      simp only at h1
      obtain ⟨⟨h', e⟩, hma, h1⟩ := bind_ok h1
      cases h1
      have hcal : callee s0.heap s0.acc = .closure lam env := by
        cases hc : (concreteOps ext).callee (nx s0).heap (nx s0).acc with
        | closure l2 e2 => rw [hc] at hce; cases hce; exact hc
        | lambda => rw [hc] at hce; obtain ⟨p, _, hce⟩ := bind_ok hce; cases hce
        | builtin id => rw [hc] at hce; cases hce
        | continuation c => rw [hc] at hce; cases hce
        | other => rw [hc] at hce; cases hce
      have hlam : lam = s0.ipL := by
        unfold calleeLam at hcl
        rw [hcal] at hcl
        simpa using hcl
      have hfit : Fit s0.heap env lam := callee_closure_fit g f hcal
      have hma' : makeActivation s0.heap lam env bp' (s0.stack.push (.basePtr s0.bp)) = .ok (h', e) := hma
      obtain ⟨fs, hact⟩ := makeActivation_fstep lf hma'
      have b'' : h'.cells.size ≤ 2 ^ 63 := b'
      have k := fs.fitKeep g.hg b''
      refine ⟨HF.step_noClaim g.hg b'' f.hf fs, hstk.keepH k hall, ?_, fun _ => ?_⟩
      · intro hp
        have hp' : InPre h' s0.ipL (s0.ipO + 1) := hp
        rw [InPre.ls fs.ls] at hp'
        exact absurd hp' hnp
      · show Fit h' e s0.ipL
        intro lam' ss' hl he
        rw [fs.ls] at hl
        obtain ⟨olds, ho, hlen⟩ := hact ss' he
        have := hfit lam' olds (by rw [hlam]; exact hl) ho
        omega

end

/-! ## VARARG -/

section
variable {ext : ExtOps}

/-- the list-building loop of VARARG -/
theorem varargCollect_fs : ∀ (k : Nat) {h h' : CHeap} {acc l : Nat} {st st' : Stack},
    varargCollect (concreteOps ext) k h acc st = .ok (h', l, st') → LF h →
    (∀ i v, i ≤ st.sp → st.sp < i + k → st.cells[i]? = some v → plainGlob v = true) →
    FStep NoClaim h h' ∧ st'.cells = st.cells ∧ st'.sp ≤ st.sp := by
  intro k
  induction k with
  | zero =>
    intro h h' acc l st st' hr lf _
    simp only [varargCollect] at hr
    cases hr
    exact ⟨.refl lf, rfl, Nat.le_refl _⟩
  | succ k ih =>
    intro h h' acc l st st' hr lf hc
    simp only [varargCollect, concreteOps] at hr
    obtain ⟨⟨v, st1⟩, hpop, hr⟩ := bind_ok hr
    simp only at hr
    generalize e1 : putV h v = r1 at hr
    obtain ⟨h1, a1⟩ := r1
    simp only at hr
    obtain ⟨a, ha, hr⟩ := bind_ok hr
    generalize e2 : putV h1 (.pair a acc) = r2 at hr
    obtain ⟨h2, p2⟩ := r2
    simp only at hr
    obtain ⟨p, hp2, hr⟩ := bind_ok hr
    obtain ⟨hpos, hcell, rfl⟩ := StepB.pop_inv hpop
    have hv := hc st.sp v (Nat.le_refl _) (by omega) hcell
    have r1 := putV_fs lf (not_closure_of_plainGlob hv) e1
    have r2 := putV_fs r1.lf (v := .pair a acc) (fun _ _ hh => by cases hh) e2
    obtain ⟨r3, k3, k4⟩ := ih hr r2.lf
      (fun i w hi hlt hw => hc i w (by simp only at hi; omega) (by simp only at hlt; omega) hw)
    exact ⟨(r1.trans NoClaim.lexEnv r2).trans NoClaim.lexEnv r3, k3, by simp only at k4; omega⟩

variable {s0 s' : St CHeap} {b : Bool}

theorem fv_varArg (g : GoodI s0) (lf : LF s0.heap) (sd : StackDisc s0) (sm' : Small s'.heap) (f : FInv s0)
    (hpre : InPre s0.heap s0.ipL s0.ipO) (hpre' : InPre s0.heap s0.ipL (s0.ipO + 1)) (hop : opAt s0 .varArg)
    (hx : exec (concreteOps ext) .varArg (nx s0) = .ok (s', b)) : FInv s' := by
  have b' : s'.heap.cells.size ≤ 2 ^ 63 := by unfold Small at sm'; omega
  -- rebuilding the invariant from the heap step and the new stack
  have fin : ∀ (hN : CHeap) (stN : Stack), FStep NoClaim s0.heap hN → hN.cells.size ≤ 2 ^ 63 →
      PairsOk s0.heap stN.cells stN.sp → AllHOk s0.heap stN →
      FInv { nx s0 with heap := hN, stack := stN } := by
    intro hN stN fs bN hp ha
    refine ⟨HF.step_noClaim g.hg bN f.hf fs, hp.keepH (fs.fitKeep g.hg bN) ha, fun _ => ?_, fun hn => ?_⟩
    · exact (f.pre hpre).imp id (calleeLam_keep g.hg fs (roots_acc g.roots))
    · exfalso
      apply hn
      show InPre hN s0.ipL (s0.ipO + 1)
      rw [InPre.ls fs.ls]
      exact hpre'
  unfold exec at hx
  obtain ⟨s1, h1, hx⟩ := bind_ok hx
  cases hx
  unfold stepVarArg at h1
  simp only [concreteOps] at h1
  cases hl : lambdaAt s0.heap s0.ipL with
  | none => simp [hl] at h1
  | some lam =>
    simp only [hl, Option.map_some] at h1
    obtain ⟨req, hreq, h1⟩ := bind_ok h1
    obtain ⟨argc, hargc, h1⟩ := bind_ok h1
    obtain ⟨va, hva, hargc⟩ := bind_ok hargc
    cases StepB.asArgc_inv hargc
    obtain ⟨nn2, hcA⟩ := StepB.getOffset_inv hva
    have e2 : ((s0.stack.sp : Int) + -2).toNat = s0.stack.sp - 2 := by omega
    have hcA' : s0.stack.cells[s0.stack.sp - 2]? = some (.argc argc) := by rw [← e2]; exact hcA
    have ab := sd.enter (.inr hop) argc hcA'
    split at h1
    · cases h1
    · rename_i hge
      split at h1
      · rename_i heq
        obtain ⟨v, hv, h1⟩ := bind_ok h1
        generalize e1 : putV s0.heap v = r1 at h1
        obtain ⟨hp1, a1⟩ := r1
        simp only at h1
        generalize e2' : putV hp1 .nil = r2 at h1
        obtain ⟨hp2, n1⟩ := r2
        simp only at h1
        obtain ⟨a', ha, h1⟩ := bind_ok h1
        obtain ⟨n', hn, h1⟩ := bind_ok h1
        generalize e3 : putV hp2 (.pair a' n') = r3 at h1
        obtain ⟨hp3, pp⟩ := r3
        simp only at h1
        obtain ⟨st, hst, h1⟩ := bind_ok h1
        cases h1
        obtain ⟨nn3, hcV⟩ := StepB.getOffset_inv hv
        have e3' : ((s0.stack.sp : Int) + -3).toNat = s0.stack.sp - 3 := by omega
        have hcV' : s0.stack.cells[s0.stack.sp - 3]? = some v := by rw [← e3']; exact hcV
        have pv := ab _ v (by omega) (by omega) hcV'
        have r1 := putV_fs lf (not_closure_of_plainGlob pv) e1
        have r2 := putV_fs r1.lf (v := .nil) (fun _ _ hh => by cases hh) e2'
        have r3 := putV_fs r2.lf (v := .pair a' n') (fun _ _ hh => by cases hh) e3
        have rr := (r1.trans NoClaim.lexEnv r2).trans NoClaim.lexEnv r3
        obtain ⟨q, rfl⟩ := putV_isPtr e3
        obtain ⟨x1, x2, _⟩ := f.stk.setOffset (nhdr_ptr q) hst
        rw [← x2] at x1
        exact fin hp3 st rr b' x1 ((allHOk_live g).setOffset (.of_nhdr (nhdr_ptr q)) x2 hst)
      · rename_i hne
        obtain ⟨⟨c1, st1⟩, hq1, h1⟩ := bind_ok h1
        obtain ⟨⟨c2, st2⟩, hq2, h1⟩ := bind_ok h1
        obtain ⟨⟨c3, st3⟩, hq3, h1⟩ := bind_ok h1
        simp only at h1
        generalize e1 : putV s0.heap .nil = r1 at h1
        obtain ⟨hp1, n1⟩ := r1
        simp only at h1
        obtain ⟨n', hn, h1⟩ := bind_ok h1
        obtain ⟨⟨hp2, lst, st4⟩, hcol, h1⟩ := bind_ok h1
        cases h1
        obtain ⟨pos1, hc1, rfl⟩ := StepB.pop_inv hq1
        obtain ⟨pos2, hc2, rfl⟩ := StepB.pop_inv hq2
        obtain ⟨pos3, _, rfl⟩ := StepB.pop_inv hq3
        have pos1' : 0 < s0.stack.sp := pos1
        have pos2' : 0 < s0.stack.sp - 1 := pos2
        have pos3' : 0 < s0.stack.sp - 1 - 1 := pos3
        have hc1' : s0.stack.cells[s0.stack.sp]? = some c1 := hc1
        have hc2' : s0.stack.cells[s0.stack.sp - 1]? = some c2 := hc2
        have r1 := putV_fs lf (v := .nil) (fun _ _ hh => by cases hh) e1
        obtain ⟨r2, k3, k4⟩ := varargCollect_fs _ hcol r1.lf
          (fun i w hi hlt hw => by
            have hi' : i ≤ s0.stack.sp - 1 - 1 - 1 := hi
            have hlt' : s0.stack.sp - 1 - 1 - 1 < i + (argc - req) := hlt
            have hw' : s0.stack.cells[i]? = some w := hw
            exact ab i w (by omega) (by omega) hw')
        have rr := r1.trans NoClaim.lexEnv r2
        have k3' : st4.cells = s0.stack.cells := k3
        have k4' : st4.sp ≤ s0.stack.sp - 1 - 1 - 1 := k4
        have live := allHOk_live g
        have hk1 : HOk s0.heap c1 := live _ _ (Nat.le_refl _) hc1'
        have hk2 : HOk s0.heap c2 := live _ _ (by omega) hc2'
        -- the new stack
        have p0 : PairsOk s0.heap st4.cells st4.sp := f.stk.resp k3' (by omega)
        have a0 : AllHOk s0.heap st4 := live.resp k3' (by omega)
        have p1 := p0.push (v := .ptr lst) (nhdr_ptr lst).2
        have a1 := a0.push (v := .ptr lst) (.of_nhdr (nhdr_ptr lst))
        have p2 := p1.push (v := .argc (req + 1)) (nhdr_argc _).2
        have a2 := a1.push (v := .argc (req + 1)) (.of_nhdr (nhdr_argc _))
        have p3 := p2.push_any (v := c2) (by
          intro e l o _ he
          rw [push_sp, push_top] at he
          cases he)
        have a3 := a2.push hk2
        have p4 := p3.push_any (v := c1) (by
          intro e l o hc he
          rw [push_sp, push_top] at he
          cases he
          subst hc
          refine f.stk (s0.stack.sp - 1) e l o (by omega) hc2' ?_
          have : s0.stack.sp - 1 + 1 = s0.stack.sp := by omega
          rw [this]; exact hc1')
        have a4 := a3.push hk1
        exact fin hp2 _ rr b' p4 a4

end

end Marwood.Lemmas.Good
