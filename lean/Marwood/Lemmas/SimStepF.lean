import Marwood.Lemmas.SimStepE
/-!
# Heap simulation, lemma (b) part 6: VARARG and CLOSURE (both allocating)

CLOSURE's `IofArgument` binding source reads the frame through `load_arg`; it is reachable only from the
argument-less top-level lambda (DESIGN §1: effectively dead) and is excluded by the side condition
`NoIofArg` (no lambda in the heap has such an entry).
-/
namespace Marwood.Lemmas.Sim
open Marwood Marwood.Vm Marwood.Vm.Concrete

theorem ORel.bind_eq {α β γ δ : Type} {R : α → β → Prop} {Q : γ → δ → Prop} {x : Outcome α} {y : Outcome β}
    {f : α → Outcome γ} {g : β → Outcome δ} (h : ORel R x y)
    (hf : ∀ a b, x = .ok a → y = .ok b → R a b → ORel Q (f a) (g b)) : ORel Q (x >>= f) (y >>= g) := by
  cases h with
  | ok r => exact hf _ _ rfl rfl r
  | err => exact .err
  | panic => exact .panic

theorem getOffset_cell {st : Stack} {off : Int} {v : VCell} (ho : off ≤ 0) (h : st.getOffset off = .ok v) :
    ∃ i, i ≤ st.sp ∧ st.cells[i]? = some v := by
  unfold Stack.getOffset at h
  simp only at h
  split at h
  · unfold Stack.get at h
    refine ⟨((st.sp : Int) + off).toNat, by omega, ?_⟩
    split at h
    · rename_i w hw; cases h; exact hw
    · cases h
  · cases h

section
variable (ext : ExtOps) {φ : Inj} {s t : St CHeap}

/-! ## VARARG -/

theorem varargCollect_rel {K : Nat} :
    ∀ (k : Nat) {ψ : Inj} {h h' : CHeap} {acc acc' : Nat} {st st' : Stack}, HeapSim ψ h h' → SymOk h → SymOk h' →
      AddrRel ψ acc acc' → StackRelK ψ K st st' → st.sp ≤ K →
      ORel (fun a b => ∃ χ, ψ.le χ ∧ HeapSim χ a.1 b.1 ∧ AddrRel χ a.2.1 b.2.1 ∧ StackRelK χ K a.2.2 b.2.2 ∧
          a.2.2.sp ≤ st.sp)
        (varargCollect (concreteOps ext) k h acc st) (varargCollect (concreteOps ext) k h' acc' st') := by
  intro k
  induction k with
  | zero => intro ψ h h' acc acc' st st' hh _ _ ha hst _; exact .ok ⟨ψ, ψ.le_refl, hh, ha, hst, Nat.le_refl _⟩
  | succ k ih =>
    intro ψ h h' acc acc' st st' hh so so' ha hst hk
    simp only [varargCollect, concreteOps]
    refine (hst.pop hk).bind ?_
    rintro ⟨v, st1⟩ ⟨v', st1'⟩ ⟨hv, hst1, hsp1, _, _⟩
    simp only at hv hst1 hsp1 ⊢
    obtain ⟨ψ1, le1, hh1, hv1, so1, so1'⟩ := putV_sim hh so so' hv
    generalize putV h v = r1 at hh1 hv1 so1
    generalize putV h' v' = r1' at hh1 hv1 so1'
    obtain ⟨h1, a1⟩ := r1
    obtain ⟨h1', a1'⟩ := r1'
    simp only at hh1 hv1 so1 so1' ⊢
    refine (asPtr_rel hv1).bind ?_
    intro pa pa' hpa
    obtain ⟨ψ2, le2, hh2, hp2, so2, so2'⟩ := putV_sim hh1 so1 so1' (v := .pair pa acc) (v' := .pair pa' acc')
      (.pair hpa (ha.mono le1))
    generalize putV h1 (.pair pa acc) = r2 at hh2 hp2 so2
    generalize putV h1' (.pair pa' acc') = r2' at hh2 hp2 so2'
    obtain ⟨h2, p2⟩ := r2
    obtain ⟨h2', p2'⟩ := r2'
    simp only at hh2 hp2 so2 so2' ⊢
    refine (asPtr_rel hp2).bind ?_
    intro pp pp' hpp
    have le12 := Inj.le_trans le1 le2
    refine (ih hh2 so2 so2' hpp (hst1.mono le12) (by omega)).imp ?_
    rintro ⟨x1, x2, x3⟩ ⟨y1, y2, y3⟩ ⟨χ, le3, c1, c2, c3, c4⟩
    exact ⟨χ, Inj.le_trans le12 le3, c1, c2, c3, by simp only at c4 ⊢; omega⟩

theorem stepVarArg_rel (h : Sim φ s t) (ok : SizeOk s.heap) (ok' : SizeOk t.heap) (so : SymOk s.heap)
    (so' : SymOk t.heap) :
    ORel (Post φ) (stepVarArg (concreteOps ext) s) (stepVarArg (concreteOps ext) t) := by
  unfold stepVarArg
  rcases lambdaAt_rel h.heap ok ok' h.ipL with ⟨e1, e2⟩ | ⟨l, l', e1, e2, _, hargs, _⟩
  · simp only [concreteOps, e1, e2, Option.map_none]; exact .panic
  · simp only [concreteOps, e1, e2, Option.map_some]
    rw [← hargs.length_eq]
    refine (usub_rel _ 1 _).bind ?_
    intro req req' e
    subst e
    refine ((h.stack.getOffset (Nat.le_refl _) (by omega)).bind (fun _ _ hv => asArgc_rel hv)).bind ?_
    intro argc argc' e
    subst e
    split
    · exact .err
    · split
      · -- exactly one optional argument: converted in place
        refine (h.stack.getOffset (Nat.le_refl _) (off := -3) (by omega)).bind ?_
        intro v v' hv
        obtain ⟨ψ1, le1, hh1, hv1, so1, so1'⟩ := putV_sim h.heap so so' hv
        generalize putV s.heap v = r1 at hh1 hv1 so1
        generalize putV t.heap v' = r1' at hh1 hv1 so1'
        obtain ⟨h1, a1⟩ := r1
        obtain ⟨h1', a1'⟩ := r1'
        simp only at hh1 hv1 so1 so1' ⊢
        obtain ⟨ψ2, le2, hh2, hn2, so2, so2'⟩ := putV_sim hh1 so1 so1' (v := .nil) (v' := .nil) (.atom rfl)
        generalize putV h1 .nil = r2 at hh2 hn2 so2
        generalize putV h1' .nil = r2' at hh2 hn2 so2'
        obtain ⟨h2, n2⟩ := r2
        obtain ⟨h2', n2'⟩ := r2'
        simp only at hh2 hn2 so2 so2' ⊢
        refine (asPtr_rel (hv1.mono le2)).bind ?_
        intro pa pa' hpa
        refine (asPtr_rel hn2).bind ?_
        intro pn pn' hpn
        obtain ⟨ψ3, le3, hh3, hp3, _, _⟩ := putV_sim hh2 so2 so2' (v := .pair pa pn) (v' := .pair pa' pn')
          (.pair hpa hpn)
        generalize putV h2 (.pair pa pn) = r3 at hh3 hp3
        generalize putV h2' (.pair pa' pn') = r3' at hh3 hp3
        obtain ⟨h3, p3⟩ := r3
        obtain ⟨h3', p3'⟩ := r3'
        simp only at hh3 hp3 ⊢
        have le : φ.le ψ3 := Inj.le_trans le1 (Inj.le_trans le2 le3)
        refine ((StackRelK.mono le h.stack).setOffset (-3) hp3).bind ?_
        rintro st1 st1' ⟨hst1, hsp1⟩
        refine .ok ⟨ψ3, le, hh3, ?_, h.acc.mono le, h.ep.mono le, h.ipL.mono le, h.ipO, h.bp⟩
        show StackRelK ψ3 st1.sp st1 st1'
        rw [hsp1]; exact hst1
      · -- several (or no) optional arguments: popped into a fresh list
        refine (h.stack.pop (Nat.le_refl _)).bind ?_
        rintro ⟨c1, st1⟩ ⟨c1', st1'⟩ ⟨hc1, hst1, hsp1, _, _⟩
        simp only at hc1 hst1 hsp1 ⊢
        refine (hst1.pop (by omega)).bind ?_
        rintro ⟨c2, st2⟩ ⟨c2', st2'⟩ ⟨hc2, hst2, hsp2, _, _⟩
        simp only at hc2 hst2 hsp2 ⊢
        refine (hst2.pop (by omega)).bind ?_
        rintro ⟨c3, st3⟩ ⟨c3', st3'⟩ ⟨_, hst3, hsp3, _, _⟩
        simp only at hst3 hsp3 ⊢
        obtain ⟨ψ1, le1, hh1, hn1, so1, so1'⟩ := putV_sim h.heap so so' (v := .nil) (v' := .nil) (.atom rfl)
        generalize putV s.heap .nil = r1 at hh1 hn1 so1
        generalize putV t.heap .nil = r1' at hh1 hn1 so1'
        obtain ⟨h1, n1⟩ := r1
        obtain ⟨h1', n1'⟩ := r1'
        simp only at hh1 hn1 so1 so1' ⊢
        refine (asPtr_rel hn1).bind ?_
        intro pn pn' hpn
        refine (varargCollect_rel ext _ hh1 so1 so1' hpn (hst3.mono le1) (by omega)).bind ?_
        rintro ⟨h2, lst, st4⟩ ⟨h2', lst', st4'⟩ ⟨χ, le2, hh2, hl2, hst4, hsp4⟩
        simp only at hh2 hl2 hst4 hsp4 ⊢
        have le : φ.le χ := Inj.le_trans le1 le2
        obtain ⟨K1, k1, kk1, _⟩ := pushK hst4 (by omega) (v := .ptr lst) (v' := .ptr lst') (.ptr hl2)
        obtain ⟨K2, k2, kk2, _⟩ := pushK k1 kk1 (v := .argc (req + 1)) (v' := .argc (req + 1)) (.atom rfl)
        obtain ⟨K3, k3, kk3, _⟩ := pushK k2 kk2 (hc2.mono le)
        obtain ⟨K4, k4, kk4, _⟩ := pushK k3 kk3 (hc1.mono le)
        exact .ok ⟨χ, le, hh2, k4.weaken kk4, h.acc.mono le, h.ep.mono le, h.ipL.mono le, h.ipO, h.bp⟩

theorem exec_varArg (h : Sim φ s t) (ok : SizeOk s.heap) (ok' : SizeOk t.heap) (so : SymOk s.heap)
    (so' : SymOk t.heap) :
    ORel (PostB φ) (exec (concreteOps ext) .varArg s) (exec (concreteOps ext) .varArg t) := by
  unfold exec
  refine (stepVarArg_rel ext h ok ok' so so').bind ?_
  intro s' t' hs
  exact .ok ⟨rfl, hs⟩

end

/-! ## CLOSURE -/

/-- no lambda in the heap has an `IofArgument` entry in its environment map -/
def NoIofArg (h : CHeap) : Prop :=
  ∀ (i : Nat) (l : CLambda), h.cells[i]? = some (CCell.lambda l) → ∀ p ∈ l.envmap, ∀ a, p.2 ≠ Source.iofArg a

theorem lambdaAt_cell {h : CHeap} {a : Nat} {l : CLambda} (e : lambdaAt h a = some l) :
    h.cells[a]? = some (CCell.lambda l) := by
  unfold lambdaAt at e
  split at e
  · rename_i lam hc; cases e; exact hc
  · cases e

section
variable (ext : ExtOps) {φ : Inj} {s t : St CHeap}

theorem closureSlot_rel {h h' : CHeap} (hs : HeapSim φ h h') (ok : SizeOk h) (ok' : SizeOk h') {ep ep' : Nat}
    (hep : AddrRel φ ep ep') (bp : Nat) (st st' : Stack) (src : Source) (hsrc : ∀ a, src ≠ .iofArg a) :
    ORel (VRel φ) (closureSlot h ep bp st src) (closureSlot h' ep' bp st' src) := by
  cases src with
  | iofArg a => exact absurd rfl (hsrc a)
  | iofEnv k =>
    simp only [closureSlot]
    rcases envAt_rel hs ok ok' hep with ⟨e1, e2⟩ | ⟨_, ss, ss', e1, e2, r⟩
    · rw [e1, e2]; exact .err
    · rw [e1, e2]
      simp only
      have hk := r.getOpt k
      generalize ss[k]? = x at hk
      generalize ss'[k]? = y at hk
      cases hk with
      | none => exact .panic
      | some hv =>
        cases hv with
        | lexEnvPtr a => exact .ok (.lexEnvPtr a)
        | atom hf => rename_i w; cases w <;> first | exact .ok (.lexEnvPtr hep) | simp [addrFree] at hf
        | _ => exact .ok (.lexEnvPtr hep)
  | global => exact .ok (.atom rfl)
  | arg _ => exact .ok (.atom rfl)
  | internal => exact .ok (.atom rfl)

theorem closureSlots_rel {h h' : CHeap} (hs : HeapSim φ h h') (ok : SizeOk h) (ok' : SizeOk h') {ep ep' : Nat}
    (hep : AddrRel φ ep ep') (bp : Nat) (st st' : Stack) {em em'} (hem : EnvmapRel φ em em')
    (hno : ∀ p ∈ em, ∀ a, p.2 ≠ Source.iofArg a) :
    ORel (VsRel φ) (closureSlots h ep bp st em) (closureSlots h' ep' bp st' em') := by
  induction hem with
  | nil => exact .ok .nil
  | @cons p q rest rest' hp _ ih =>
    obtain ⟨s1, src⟩ := p
    obtain ⟨s2, src'⟩ := q
    have : src = src' := hp.2
    subst this
    simp only [closureSlots]
    refine (closureSlot_rel hs ok ok' hep bp st st' src (hno (s1, src) (List.mem_cons_self ..))).bind ?_
    intro v v' hv
    refine (ih (fun p hp => hno p (List.mem_cons_of_mem _ hp))).bind ?_
    intro vs vs' hvs
    exact .ok (.cons hv hvs)

theorem makeClosure_rel {h h' : CHeap} (hs : HeapSim φ h h') (ok : SizeOk h) (ok' : SizeOk h') (hno : NoIofArg h)
    {lam lam' ep ep' : Nat} (hl : AddrRel φ lam lam') (hep : AddrRel φ ep ep') (bp : Nat) (st st' : Stack) :
    ORel (fun a b => ∃ ψ, φ.le ψ ∧ HeapSim ψ a.1 b.1 ∧ VRel ψ a.2 b.2)
      (makeClosure h lam ep bp st) (makeClosure h' lam' ep' bp st') := by
  unfold makeClosure
  rcases lambdaAt_rel hs ok ok' hl with ⟨e1, e2⟩ | ⟨l, l', e1, e2, _, _, hem⟩
  · rw [e1, e2]; exact .err
  · rw [e1, e2]
    simp only
    refine (closureSlots_rel hs ok ok' hep bp st st' hem (hno lam l (lambdaAt_cell e1))).bind ?_
    intro slots slots' hsl
    obtain ⟨ψ1, le1, hpq1, hh1⟩ := cput_sim hs (c := .lexEnv slots) (c' := .lexEnv slots')
      (fun ψ hle _ => .lexEnv (VsRel.mono hle hsl))
    obtain ⟨ψ2, le2, hpq2, hh2⟩ := cput_sim hh1
      (c := .val (.closure lam (cput h (.lexEnv slots)).2)) (c' := .val (.closure lam' (cput h' (.lexEnv slots')).2))
      (fun ψ hle _ => .val (.closure ((hl.mono le1).mono hle) (.inl (hle _ _ hpq1))))
    exact .ok ⟨ψ2, Inj.le_trans le1 le2, hh2, .ptr (.inl hpq2)⟩

theorem exec_closure (h : Sim φ s t) (ok : SizeOk s.heap) (ok' : SizeOk t.heap) (hno : NoIofArg s.heap) :
    ORel (PostB φ) (exec (concreteOps ext) .closureAcc s) (exec (concreteOps ext) .closureAcc t) := by
  unfold exec
  refine (asPtr_rel h.acc).bind ?_
  intro lam lam' hl
  simp only [concreteOps]
  rw [show t.bp = s.bp from h.bp.symm]
  refine (makeClosure_rel h.heap ok ok' hno hl h.ep s.bp s.stack t.stack).bind ?_
  rintro ⟨h1, c⟩ ⟨h1', c'⟩ ⟨ψ, le, hh, hc⟩
  exact .ok ⟨rfl, ψ, le, hh, StackRelK.mono le h.stack, hc, h.ep.mono le, h.ipL.mono le, h.ipO, rfl⟩

end

end Marwood.Lemmas.Sim
