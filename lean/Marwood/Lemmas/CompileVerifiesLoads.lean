import Marwood.Lemmas.CompileVerifies
import Marwood.Lemmas.CompileCorrect2Defs
/-!
# T04.6 and the loading relations of the compiler-correctness proofs (C01 T01.3)

`Loads` (stage 1) and `Loads2` (stages 2/3, `CodeAt2`) say how a symbolic cell of the compiler model appears in
a heap. They constrain a quoted datum's cell only through the representation relation `VR` (which is a
parameter), so they do not by themselves make that cell a *data cell*; with that one extra fact they imply
`Enc`, the relation under which `compile_verifies_loaded` holds. Hence: a lambda of the heap whose cells are
`CodeAt2`-loaded from a code object of the compiler model passes the verifier.
-/
namespace Marwood.Vm
open Marwood Marwood.Vm.Verify Marwood.Lemmas.CompileCorrect Marwood.Lemmas.CompileCorrect2

variable {H : Type} {ops : HeapOps H}

theorem enc_of_loads {D : RepData ops} {h : H} {S : Array Marwood.Spec.Eval.Cell} {b : BC} {v : VCell}
    (hl : Loads D h S b v) (hd : ∀ d, b = .datum d → dataCell v = true) : Enc b v := by
  cases b <;> simp only [Loads] at hl <;> simp only [Enc]
  · exact hl
  · exact hl
  · exact ⟨_, hl.2⟩
  · exact hl
  · exact hl
  · exact hd _ rfl
  · exact hl

theorem enc_of_loads2 {D : RepData2 ops} {em : List (Text × Source)} {h : H}
    {S : Array Marwood.Spec.Eval.Cell} {b : BC} {v : VCell}
    (hl : Loads2 D em h S b v) (hd : ∀ d, b = .datum d → dataCell v = true) : Enc b v := by
  cases b <;> simp only [Loads2] at hl <;> simp only [Enc]
  · exact hl
  · exact hl
  · exact ⟨_, hl.2⟩
  · obtain ⟨j, _, hj⟩ := hl; exact ⟨j, hj⟩
  · exact hl
  · exact hl
  · exact hd _ rfl
  · exact hl
  · exact ⟨_, hl.1⟩

theorem encList_of_forall : ∀ {code : List BC} {cells : List VCell}, cells.length = code.length →
    (∀ (i : Nat) (b : BC), code[i]? = some b → ∃ v, cells[i]? = some v ∧ Enc b v) → EncList code cells
  | [], [], _, _ => trivial
  | [], _ :: _, h, _ => by simp at h
  | _ :: _, [], h, _ => by simp at h
  | b :: bs, v :: vs, hl, hi => by
    refine ⟨?_, encList_of_forall (by simpa using hl) (fun i b' hb => by simpa using hi (i + 1) b' (by simpa using hb))⟩
    obtain ⟨v', hv, he⟩ := hi 0 b rfl
    simp at hv; subst hv; exact he

/-- a lambda cell whose code is `CodeAt2`-loaded from a code object of the compiler model, quoted data being
    loaded as data cells, passes the verifier (as procedure code) -/
theorem codeAt2_verifies {e : Datum} {fuel : Nat} {st : CState} {lam : LambdaM}
    (hc : compileTop e fuel = .ok (st, lam)) {m : LambdaM} (hm : m = lam ∨ m ∈ st.lambdas)
    {D : RepData2 ops} {h : H} {S : Array Marwood.Spec.Eval.Cell} {l : Nat} {cells : List VCell}
    (hcode : CodeAt2 D m.envmap h S l 0 m.bc) (hlen : cells.length = m.bc.length)
    (hcells : ∀ i : Nat, i < cells.length → ops.fetch h l i = cells[i]?)
    (hdata : ∀ (i : Nat) d v, m.bc[i]? = some (.datum d) → ops.fetch h l i = some v → dataCell v = true) :
    ∃ t, verifyLam cells = some t ∧ t.entry = false ∧ t.bc = cells := by
  refine compileTop_verifies_loaded hc m hm cells (encList_of_forall hlen ?_)
  intro i b hb
  obtain ⟨v, hv, hlo⟩ := hcode.2 i b hb
  simp only [Nat.zero_add] at hv
  have hi : i < cells.length := by
    rw [hlen]
    rcases Nat.lt_or_ge i m.bc.length with h | h
    · exact h
    · rw [List.getElem?_eq_none h] at hb; cases hb
  refine ⟨v, by rw [← hcells i hi, hv], enc_of_loads2 hlo ?_⟩
  intro d hd
  subst hd
  exact hdata i d v hb hv

end Marwood.Vm
