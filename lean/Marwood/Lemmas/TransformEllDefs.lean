import Marwood.Lemmas.TransformAccept
/-!
# Definitions shared by the ellipsis classes of T17.1

* `ellVars` — the pattern variables that occur in a sub-pattern followed by the ellipsis;
* `proj` / `projS` — the items a variable is bound to, in order: in the matcher's flat binding list
  and in the specification's trees of matches.
-/
namespace Marwood.Transform
open Marwood Marwood.Spec.Match

/-- the pattern variables that occur in a sub-pattern followed by the ellipsis (the variables
    `Pattern::find_expanded_variables` collects) -/
def ellVars (c : Ctx) : Datum → List Text
  | .pair p (.pair q rest) =>
    if c.isEllD q then patVars c p ++ ellVars c rest
    else ellVars c p ++ ellVars c (.pair q rest)
  | .pair p rest => ellVars c p ++ ellVars c rest
  | _ => []

/-- the items bound to key `k` in a flat binding list, in order -/
def proj (k : Datum) : Bindings → List Datum
  | [] => []
  | (k', v) :: rest => if cellEq k' k then v :: proj k rest else proj k rest

/-- the leaves of a tree of matches, left to right -/
def leaves : MTree → List Datum
  | .one d => [d]
  | .many ts => leavesL ts
where
  leavesL : List MTree → List Datum
    | [] => []
    | t :: ts => leaves t ++ leavesL ts

/-- the items bound to `x` in the specification's bindings, in order -/
def projS (x : Text) : Binds → List Datum
  | [] => []
  | (y, t) :: rest => if y = x then leaves t ++ projS x rest else projS x rest

end Marwood.Transform
