import Marwood.Lemmas.StackWFRun
/-!
# The write set of one instruction, relative to the WF-stack frame chain

`step_below`: from a WF state whose ghost frame list is `d :: K` (`d` the innermost frame), one
instruction — any of the 16 opcodes, any callee but a continuation — writes no stack cell below
`d.base`. `Trace.prefix_unwritten`: hence along a `Trace` during which the frame `D` stays on the
list, the cells below `D.base` are what they were (C05: the captured prefix is still the live prefix
when the receiver returns).
-/
namespace Marwood.Vm
open Verify Stack

variable {H : Type} {ops : HeapOps H}

/-- entry code runs in the entry frame only -/
theorem Frames.entry_nil {V : VCell → Prop} {T : Typing} {e : Nat} {f : Nat → VCell} {top bp l o : Nat} {K : List FDesc}
    (h : Frames V T e f top bp l o K) {t : LamTy} (ht : T l = some t) (hent : t.entry = true) : K = [] := by
  cases h with
  | entry => rfl
  | frame h1 h2 => rw [h1] at ht; cases ht; rw [h2] at hent; cases hent
  | pre h1 h2 => rw [h1] at ht; cases ht; rw [h2] at hent; cases hent

/-- the innermost frame of a state that is past its prologue starts at or below `bp + 1` -/
theorem Frames.head_base_body {V : VCell → Prop} {T : Typing} {e : Nat} {f : Nat → VCell} {top bp l o : Nat} {d : FDesc}
    {K : List FDesc} (h : Frames V T e f top bp l o (d :: K)) {t : LamTy} (ht : T l = some t) {st : AState}
    (hst : stateAt t.tm o = some st) (hne : st ≠ .pre) :
    t.entry = false ∧ d.base ≤ bp + 1 ∧ MatchSt V st f top (bp + 4) := by
  have hent : t.entry = false := by
    cases he : t.entry with
    | false => rfl
    | true => exact absurd (h.entry_nil ht he) (by simp)
  obtain ⟨n, ep', l', o', bp', K', hm, _, _, _, _, _, _, hK⟩ := h.inv_frame ht hent hst hne
  simp only [List.cons.injEq] at hK
  refine ⟨hent, ?_, hm⟩
  rw [hK.1]
  show bp + 1 - n ≤ bp + 1
  omega

/-- the innermost frame of a state in a prologue starts at the first argument CALL/TCALL left -/
theorem Frames.head_base_pre {V : VCell → Prop} {T : Typing} {e : Nat} {f : Nat → VCell} {top bp l o : Nat} {d : FDesc}
    {K : List FDesc} (h : Frames V T e f top bp l o (d :: K)) {t : LamTy} (ht : T l = some t)
    (hst : stateAt t.tm o = some .pre) :
    ∃ n, n + 3 ≤ top ∧ f (top - 2) = .argc n ∧ d.base = top - 2 - n := by
  obtain ⟨_, n, ep', l', o', K', hn, _, _, hA, _, hK⟩ := h.inv_pre ht hst
  simp only [List.cons.injEq] at hK
  exact ⟨n, hn, hA, by rw [hK.1]⟩

/-! ## instructions that only push, pop, or leave the stack alone -/

theorem push_below (st : Stack) (v : VCell) (i : Nat) (hi : i ≤ st.sp) : (st.push v).cellAt i = st.cellAt i := by
  rw [push_cellAt]
  have : ¬ i = st.sp + 1 := by omega
  simp [this]

theorem cells_eq_cellAt {st st' : Stack} (h : st'.cells = st.cells) (i : Nat) : st'.cellAt i = st.cellAt i := by
  unfold Stack.cellAt; rw [h]

/-- JMP, JNT, PUSH, PUSHIMM, PUSHACC, CONS, VPUSH, CLOSURE: nothing at or below `sp` is written -/
theorem step_simple_below {s s1 s' : St H} {b : Bool} {op : Op} (hr : readOpcode ops s = .ok (op, s1))
    (hs : step ops s = .ok (s', b))
    (hop : op = .jmp ∨ op = .jnt ∨ op = .push ∨ op = .pushImm ∨ op = .pushAcc ∨ op = .cons ∨
      op = .vpushAcc ∨ op = .closureAcc) :
    ∀ i, i ≤ s.stack.sp → s'.stack.cellAt i = s.stack.cellAt i := by
  have e1 := (readOpcode_ok hr).2
  unfold step at hs
  rw [hr] at hs
  simp only [outcome_bind_ok] at hs
  subst e1
  rcases hop with rfl | rfl | rfl | rfl | rfl | rfl | rfl | rfl <;> dsimp only at hs
  · -- jmp
    obtain ⟨⟨v, s2⟩, hro, hs⟩ := bind_inv hs
    obtain ⟨o, _, hs⟩ := bind_inv hs
    cases hs
    have e2 := (readOperand_ok hro).2
    subst e2
    intro i _; rfl
  · -- jnt
    obtain ⟨⟨v, s2⟩, hro, hs⟩ := bind_inv hs
    obtain ⟨o, _, hs⟩ := bind_inv hs
    have e2 := (readOperand_ok hro).2
    subst e2
    dsimp only at hs
    split at hs <;> (cases hs; intro i _; rfl)
  · -- push
    obtain ⟨⟨v, s2⟩, hlo, hs⟩ := bind_inv hs
    cases hs
    have e2 := loadOperand_ok hlo
    subst e2
    intro i hi
    exact push_below _ _ i hi
  · -- pushImm
    obtain ⟨⟨v, s2⟩, hro, hs⟩ := bind_inv hs
    cases hs
    have e2 := (readOperand_ok hro).2
    subst e2
    intro i hi
    exact push_below _ _ i hi
  · -- pushAcc
    cases hs
    intro i hi
    exact push_below _ _ i hi
  · -- cons
    obtain ⟨⟨d, st1⟩, hp1, hs⟩ := bind_inv hs
    dsimp only at hs
    obtain ⟨⟨a, st2⟩, hp2, hs⟩ := bind_inv hs
    dsimp only at hs
    obtain ⟨pa, _, hs⟩ := bind_inv hs
    obtain ⟨pd, _, hs⟩ := bind_inv hs
    cases hs
    have p1 := pop_ok hp1
    have p2 := pop_ok hp2
    intro i _
    exact cells_eq_cellAt (by show st2.cells = s.stack.cells; rw [p2.2.1, p1.2.1]) i
  · -- vpush
    obtain ⟨⟨d, st1⟩, hp1, hs⟩ := bind_inv hs
    dsimp only at hs
    obtain ⟨h', _, hs⟩ := bind_inv hs
    cases hs
    have p1 := pop_ok hp1
    intro i _
    exact cells_eq_cellAt (by show st1.cells = s.stack.cells; exact p1.2.1) i
  · -- closure
    obtain ⟨lam, _, hs⟩ := bind_inv hs
    obtain ⟨⟨h', c⟩, _, hs⟩ := bind_inv hs
    cases hs
    intro i _; rfl

/-- CALL/TCALL of a builtin: nothing at or below the cell under the argument block is written -/
theorem builtin_below {cl : CodeLaws ops} {s s1 s' : St H} {K : List FDesc} {t : LamTy} {a : List ACell}
    {op : Op} (ai : AtInstr cl s K t (.call a) op)
    (e1 : s1 = { s with ipO := s.ipO + 1 }) {id : Nat} (hs : runBuiltin ops id s1 = .ok s') :
    ∃ m, s.stack.cellAt s.stack.sp = .argc m ∧ m + 1 ≤ s.stack.sp ∧
      ∀ i, i ≤ s.stack.sp - 1 - m → s'.stack.cellAt i = s.stack.cellAt i := by
  obtain ⟨m, hA, hm, _⟩ := ai.call_block
  obtain ⟨s2, v, hb, q1, q2, q3, q4, q5⟩ := runBuiltin_ok (cl := cl) hs
  have hcap1 : s1.stack.sp < s1.stack.cells.length := by subst e1; exact ai.hw.wf.cap
  have hA1 : s1.stack.cellAt s1.stack.sp = .argc m := by subst e1; exact hA
  have hm1 : m + 1 ≤ s1.stack.sp := by subst e1; exact hm
  have hi1 : cl.HInv s1.heap := by subst e1; exact ai.hw.inv
  have hst1 : s1.stack = s.stack := by subst e1; rfl
  refine ⟨m, hA, hm, ?_⟩
  have fromRedisp : Redisp s1 s2 m → ∀ i, i ≤ s.stack.sp - 1 - m → s'.stack.cellAt i = s.stack.cellAt i := by
    intro r i hi
    rw [q1, r.below i (by rw [hst1]; exact hi), hst1]
  cases hk : ops.builtinKind s1.heap id <;> rw [hk] at hb <;> dsimp only at hb
  · exact fromRedisp (builtinApply_ok hb hcap1 hA1 hm1).1
  · exact fromRedisp (builtinEvalProc_ok (cl := cl) hi1 hb hcap1 hA1 hm1).1
  · obtain ⟨_, cst, _, _, _, _, r⟩ := builtinCallcc_ok hb hcap1 hA1 hm1
    exact fromRedisp r
  · obtain ⟨_, g2, _⟩ := builtinGeneric_ok (cl := cl) hi1 hb hA1
    intro i _
    rw [q1]
    exact cells_eq_cellAt (by rw [g2, hst1]) i

/-- **The write set of one instruction**: from a WF state whose innermost frame is `d`, an
    instruction that does not invoke a continuation writes no stack cell below `d.base`. (TCALL
    rewrites the current frame from its base upwards; VARARG rewrites the argument block; `apply`,
    `eval`, `call/cc` rewrite the argument block of the pending call; everything else pushes or pops.) -/
theorem step_below {cl : CodeLaws ops} {s s' : St H} {d : FDesc} {K : List FDesc} {b : Bool}
    (hw : WFS cl s (d :: K)) (hs : step ops s = .ok (s', b))
    (hnc : ∀ c, ops.callee s.heap s.acc ≠ .continuation c) :
    ∀ i, i < d.base → s'.stack.cellAt i = s.stack.cellAt i := by
  have hs0 := hs
  unfold step at hs0
  obtain ⟨⟨op, s1⟩, hr, hs0⟩ := bind_inv hs0
  obtain ⟨t, st, ai, e1⟩ := hw.instr hr
  have hfr := hw.wf.frames
  -- body / call states: `d.base ≤ bp + 1`, temporaries above `bp + 4`
  have body : st ≠ .pre → d.base ≤ s.bp + 1 ∧ s.bp + 4 ≤ s.stack.sp ∧ MatchSt cl.Val st s.stack.cellAt s.stack.sp (s.bp + 4) := by
    intro hne
    obtain ⟨_, h2, h3⟩ := hfr.head_base_body ai.ht ai.hst hne
    exact ⟨h2, h3.lo_le, h3⟩
  have simple : (op = .jmp ∨ op = .jnt ∨ op = .push ∨ op = .pushImm ∨ op = .pushAcc ∨ op = .cons ∨
      op = .vpushAcc ∨ op = .closureAcc) → st ≠ .pre → ∀ i, i < d.base → s'.stack.cellAt i = s.stack.cellAt i := by
    intro hop hne i hi
    obtain ⟨b1, b2, _⟩ := body hne
    exact step_simple_below hr hs hop i (by omega)
  have chk := ai.chk
  dsimp only at hs0
  cases op with
  | jmp => cases st <;> simp only [checkOp] at chk <;> first | exact absurd chk Bool.false_ne_true | exact simple (by simp) (by simp)
  | jnt => cases st <;> simp only [checkOp] at chk <;> first | exact absurd chk Bool.false_ne_true | exact simple (by simp) (by simp)
  | push => cases st <;> simp only [checkOp] at chk <;> first | exact absurd chk Bool.false_ne_true | exact simple (by simp) (by simp)
  | pushImm => cases st <;> simp only [checkOp] at chk <;> first | exact absurd chk Bool.false_ne_true | exact simple (by simp) (by simp)
  | pushAcc => cases st <;> simp only [checkOp] at chk <;> first | exact absurd chk Bool.false_ne_true | exact simple (by simp) (by simp)
  | cons =>
    cases st <;> simp only [checkOp] at chk <;> first | exact absurd chk Bool.false_ne_true | skip
    exact simple (by simp) (by simp)
  | vpushAcc =>
    cases st <;> simp only [checkOp] at chk <;> first | exact absurd chk Bool.false_ne_true | skip
    exact simple (by simp) (by simp)
  | closureAcc => cases st <;> simp only [checkOp] at chk <;> first | exact absurd chk Bool.false_ne_true | exact simple (by simp) (by simp)
  | halt =>
    obtain ⟨hb, hst, _⟩ := pres_halt ai hr hs
    intro i _; rw [hst]
  | mov =>
    cases st <;> simp only [checkOp, Bool.and_eq_true] at chk <;> first | exact absurd chk Bool.false_ne_true | skip
    obtain ⟨⟨_, c1⟩, _⟩ := chk
    obtain ⟨⟨v, s2⟩, hlo, hs0⟩ := bind_inv hs0
    obtain ⟨s3, hso, hs0⟩ := bind_inv hs0
    cases hs0
    have e2 := loadOperand_ok hlo
    subst e1; subst e2
    have hnb : dstOk (ops.fetch s.heap s.ipL (s.ipO + 1 + 1)) = true := by rw [ai.fetch]; exact c1
    obtain ⟨q1, _⟩ := storeOperand_ok (cl := cl) (s := { s with ipO := s.ipO + 1 + 1 }) ai.hw.inv hso hnb
    intro i _; rw [q1]
  | movImm =>
    cases st <;> simp only [checkOp, Bool.and_eq_true] at chk <;> first | exact absurd chk Bool.false_ne_true | skip
    obtain ⟨⟨_, c1⟩, _⟩ := chk
    obtain ⟨⟨v, s2⟩, hro, hs0⟩ := bind_inv hs0
    obtain ⟨s3, hso, hs0⟩ := bind_inv hs0
    cases hs0
    obtain ⟨_, e2⟩ := ai.operand 1 e1 hro
    subst e2
    have hnb : dstOk (ops.fetch s.heap s.ipL (s.ipO + 1 + 1)) = true := by rw [ai.fetch]; exact c1
    obtain ⟨q1, _⟩ := storeOperand_ok (cl := cl) (s := { s with ipO := s.ipO + 1 + 1 }) ai.hw.inv hso hnb
    intro i _; rw [q1]
  | enter =>
    cases st <;> simp only [checkOp, Bool.and_eq_true] at chk <;> first | exact absurd chk Bool.false_ne_true | skip
    obtain ⟨n, hn, _, hd⟩ := hfr.head_base_pre ai.ht ai.hst
    obtain ⟨s2, he, hs0⟩ := bind_inv hs0
    cases hs0
    subst e1
    obtain ⟨q1, _⟩ := stepEnter_ok (cl := cl) (s := { s with ipO := s.ipO + 1 }) ai.hw.inv he
    simp only at q1
    intro i hi
    rw [q1]
    exact push_below _ _ i (by omega)
  | varArg =>
    cases st <;> simp only [checkOp, Bool.and_eq_true] at chk <;> first | exact absurd chk Bool.false_ne_true | skip
    obtain ⟨hent, n, ep', l', o', K', hn, hI, hE, hA, hfr', hK⟩ := hfr.inv_pre ai.ht ai.hst
    obtain ⟨s2, he, hs0⟩ := bind_inv hs0
    cases hs0
    subst e1
    obtain ⟨n', _, _, _, _, _, _, v7, _⟩ :=
      stepVarArg_ok (cl := cl) (s := { s with ipO := s.ipO + 1 }) ai.hw.inv he ai.hw.wf.cap hn hI hE hA
    simp only at v7
    simp only [List.cons.injEq] at hK
    intro i hi
    rw [hK.1] at hi
    exact v7 i (by simp only at hi; omega)
  | ret =>
    cases st <;> simp only [checkOp] at chk <;> first | exact absurd chk Bool.false_ne_true | skip
    obtain ⟨s2, he, hs0⟩ := bind_inv hs0
    cases hs0
    subst e1
    obtain ⟨n2, ep2, l2, o2, bp2, _, _, _, _, _, r6⟩ := stepRet_ok he
    subst r6
    intro i _; rfl
  | callAcc =>
    cases st <;> simp only [checkOp] at chk <;> first | exact absurd chk Bool.false_ne_true | skip
    rename_i a
    obtain ⟨b1, b2, _⟩ := body (by simp)
    obtain ⟨m0, hA0, hm0, hroom⟩ := ai.call_block
    have hent : t.entry = false := (hfr.head_base_body ai.ht ai.hst (by simp)).1
    have hroom := hroom hent
    obtain ⟨s2, he, hs0⟩ := bind_inv hs0
    cases hs0
    unfold stepCall at he
    have hcal : ops.callee s1.heap s1.acc = ops.callee s.heap s.acc := by subst e1; rfl
    rw [hcal] at he
    cases hc : ops.callee s.heap s.acc with
    | builtin id =>
      rw [hc] at he
      obtain ⟨m, hA, hm, hbel⟩ := builtin_below ai e1 he
      rw [hA0] at hA; cases hA
      intro i hi
      exact hbel i (by omega)
    | continuation c => exact absurd hc (hnc c)
    | other => rw [hc] at he; cases he
    | closure lam env =>
      rw [hc] at he
      dsimp only at he
      cases he
      subst e1
      intro i hi
      show (((s.stack.push _).push _)).cellAt i = _
      rw [push_below _ _ i (by simp only [push_sp]; omega), push_below _ _ i (by omega)]
    | lambda =>
      rw [hc] at he
      dsimp only at he
      obtain ⟨lam, hp, he⟩ := bind_inv he
      cases he
      subst e1
      intro i hi
      show (((s.stack.push _).push _)).cellAt i = _
      rw [push_below _ _ i (by simp only [push_sp]; omega), push_below _ _ i (by omega)]
  | tcallAcc =>
    cases st <;> simp only [checkOp, Bool.and_eq_true] at chk <;> first | exact absurd chk Bool.false_ne_true | skip
    rename_i a
    obtain ⟨c1, c2⟩ := chk
    have hent0 : t.entry = false := by simpa using c1
    obtain ⟨m0, hA0, hm0, hroom⟩ := ai.call_block
    have hroom := hroom hent0
    obtain ⟨n, ep', l', o', bp', K', hm, hA, hE, hI, hB, hn, hfr', hK⟩ :=
      hfr.inv_frame ai.ht hent0 ai.hst (by simp)
    simp only [List.cons.injEq] at hK
    have hdb : d.base = s.bp + 1 - n := by rw [hK.1]
    obtain ⟨s2, he, hs0⟩ := bind_inv hs0
    cases hs0
    have hcal : ops.callee s1.heap s1.acc = ops.callee s.heap s.acc := by subst e1; rfl
    have tail : ∀ lam, tcallTail { s with ipO := s.ipO + 1 } lam = .ok s' →
        ∀ i, i < d.base → s'.stack.cellAt i = s.stack.cellAt i := by
      intro lam he i hi
      obtain ⟨_, _, _, _, _, r6, _⟩ :=
        tcallTail_ok (s := { s with ipO := s.ipO + 1 }) he ai.hw.wf.cap hA hE hI hB hA0
          (by show s.bp + 4 + m0 < s.stack.sp; omega) hn
      simp only at r6
      exact r6 i (by omega)
    cases hc : ops.callee s.heap s.acc with
    | builtin id =>
      unfold stepTCall at he
      rw [hcal, hc] at he
      obtain ⟨m, hA', hm', hbel⟩ := builtin_below ai e1 he
      rw [hA0] at hA'; cases hA'
      intro i hi
      exact hbel i (by omega)
    | continuation c => exact absurd hc (hnc c)
    | other =>
      unfold stepTCall at he
      rw [hcal, hc] at he; cases he
    | closure lam env =>
      rw [stepTCall_closure (by rw [hcal]; exact hc)] at he
      subst e1
      exact tail lam he
    | lambda =>
      rw [stepTCall_lambda (by rw [hcal]; exact hc)] at he
      obtain ⟨lam, hp, he⟩ := bind_inv he
      subst e1
      exact tail lam he

/-! ## along a trace -/

/-- cell-wise agreement below `b` is agreement of the list prefixes, when `b` is within both capacities -/
theorem take_eq_of_cellAt {st st' : Stack} {b : Nat} (h1 : b ≤ st.cells.length) (h2 : b ≤ st'.cells.length)
    (h : ∀ i, i < b → st'.cellAt i = st.cellAt i) : st'.cells.take b = st.cells.take b := by
  apply List.ext_getElem
  · simp; omega
  · intro i hi1 hi2
    simp only [List.length_take] at hi1 hi2
    have hi : i < b := by omega
    have := h i hi
    unfold Stack.cellAt at this
    rw [List.getElem?_eq_getElem (by omega), List.getElem?_eq_getElem (by omega)] at this
    simpa using this

/-- **`prefix_unwritten`** (the frame property of WF executions): along a `Trace` from `s` to `s'`
    — instructions none of which invokes a continuation, the stack pointer never dropping below
    `D.base`, so the frame `D` stays on the ghost list (`Trace.stable`) — no stack cell below
    `D.base` is written. Whatever runs in and above the frame (nested calls and returns, tail calls
    replacing frames, VARARG, `apply` / `eval` / `call/cc` re-dispatch, stack growth) leaves the
    prefix `stack[0 .. D.base)` exactly as it was. -/
theorem Trace.prefix_unwritten {cl : CodeLaws ops} {base : Nat} {s s' : St H} (htr : Trace ops base s s') :
    ∀ (P : List FDesc) (D : FDesc) (R : List FDesc), D.base = base → WFS cl s (P ++ D :: R) →
      ∀ i, i < base → s'.stack.cellAt i = s.stack.cellAt i := by
  induction htr with
  | nil s => intro P D R _ _ i _; rfl
  | @cons s s1 s' hnc hst hsp htr' ih =>
    intro P D R hD hw i hi
    -- the innermost frame starts at or above `D.base`
    have hbases := hw.wf.frames.bases.2
    have hhead : ∃ d K, P ++ D :: R = d :: K ∧ base ≤ d.base := by
      cases P with
      | nil => exact ⟨D, R, rfl, by omega⟩
      | cons p P0 =>
        refine ⟨p, P0 ++ D :: R, rfl, ?_⟩
        rw [List.cons_append, List.pairwise_cons] at hbases
        have := hbases.1 D (by simp)
        omega
    obtain ⟨d, K, hdk, hdb⟩ := hhead
    have h1 : s1.stack.cellAt i = s.stack.cellAt i := step_below (by rw [← hdk]; exact hw) hst hnc i (by omega)
    obtain ⟨P1, hw1⟩ := (Trace.cons hnc hst hsp (.nil s1)).stable (cl := cl) P D R hD hw
    rw [ih P1 D R hD hw1 i hi, h1]

/-- the same, as equality of list prefixes -/
theorem Trace.prefix_take {cl : CodeLaws ops} {s s' : St H} {P R : List FDesc} {D : FDesc}
    (htr : Trace ops D.base s s') (hw : WFS cl s (P ++ D :: R)) :
    s'.stack.cells.take D.base = s.stack.cells.take D.base := by
  obtain ⟨P', hw'⟩ := htr.stable (cl := cl) P D R rfl hw
  have b1 := (hw.wf.frames.bases.1 D (by simp)).2
  have b2 := (hw'.wf.frames.bases.1 D (by simp)).2
  have c1 := hw.wf.cap
  have c2 := hw'.wf.cap
  exact take_eq_of_cellAt (by omega) (by omega) (htr.prefix_unwritten P D R rfl hw)

end Marwood.Vm
