import Marwood.Lemmas.TotalOps
/-!
# Lemmas for C06 (T06.2): `append` and the Scheme-defined library procedures never panic

`Outcome.Sat o Q` — "`o` is not a panic, and when it is a value the value satisfies `Q`" — is the
Hoare-style judgement the loops are proved against: the post-condition carries well-formedness of the
store the procedure hands back (`Post s`: well formed, at least as large as `s`, result valid), which
is what the next step of a Scheme body needs.
-/
namespace Marwood.Store
open Outcome

def Outcome.Sat {α} (o : Outcome α) (Q : α → Prop) : Prop := Outcome.NoPanic o ∧ ∀ a, o = .ok a → Q a

@[simp] theorem sat_ok_iff {α} {a : α} {Q : α → Prop} : Outcome.Sat (.ok a) Q ↔ Q a :=
  ⟨fun h => h.2 a rfl, fun h => ⟨noPanic_ok a, fun b hb => by cases hb; exact h⟩⟩
@[simp] theorem sat_err {α} (e : Err) (Q : α → Prop) : Outcome.Sat (.err e : Outcome α) Q :=
  ⟨noPanic_err e, fun _ h => by cases h⟩
@[simp] theorem sat_diverge {α} (Q : α → Prop) : Outcome.Sat (.diverge : Outcome α) Q :=
  ⟨noPanic_diverge, fun _ h => by cases h⟩

theorem sat_bind {α β} {x : Outcome α} {f : α → Outcome β} {P : α → Prop} {Q : β → Prop}
    (hx : Outcome.Sat x P) (hf : ∀ a, P a → Outcome.Sat (f a) Q) : Outcome.Sat (x >>= f) Q := by
  cases x with
  | ok a => exact hf a (hx.2 a rfl)
  | err e => exact sat_err e Q
  | panic m => exact absurd rfl (hx.1 m)
  | diverge => exact sat_diverge Q

theorem Outcome.Sat.mono {α} {o : Outcome α} {P Q : α → Prop} (h : Outcome.Sat o P) (hpq : ∀ a, P a → Q a) :
    Outcome.Sat o Q := ⟨h.1, fun a ha => hpq a (h.2 a ha)⟩

theorem sat_of_noPanic {α} {o : Outcome α} (h : Outcome.NoPanic o) : Outcome.Sat o (fun _ => True) :=
  ⟨h, fun _ _ => trivial⟩

/-- what a builtin or library procedure hands back: a well-formed store that only grew, and a valid
    result -/
def Post (s : Store) (p : Store × VCell) : Prop := p.1.WF ∧ Store.Le s p.1 ∧ VCell.Valid p.1 p.2

theorem Post.trans {s s1 : Store} (h : Store.Le s s1) {p : Store × VCell} (hp : Post s1 p) : Post s p :=
  ⟨hp.1, h.trans hp.2.1, hp.2.2⟩

variable {s : Store}

theorem get_sat (hs : s.WF) {v : VCell} (hv : VCell.Valid s v) : Outcome.Sat (s.get v) (VCell.Valid s) := by
  obtain ⟨c, hc, hcv⟩ := get_valid hs hv
  rw [hc]; simpa using hcv

theorem asPtr_sat (v : VCell) : Outcome.Sat v.asPtr (fun a => v = .ptr a) := by
  cases v <;> simp [VCell.asPtr]

/-! ### the Scheme-level primitives of `Store/Prelude.lean` -/

theorem nullP_sat (hs : s.WF) {x : VCell} (hx : VCell.Valid s x) : Outcome.Sat (nullP s x) (fun _ => True) := by
  obtain ⟨c, hc, _⟩ := get_valid hs hx
  simp [nullP, hc]

theorem pairP_sat (hs : s.WF) {x : VCell} (hx : VCell.Valid s x) : Outcome.Sat (pairP s x) (fun _ => True) := by
  obtain ⟨c, hc, _⟩ := get_valid hs hx
  simp [pairP, hc]

theorem carV_sat (hs : s.WF) {x : VCell} (hx : VCell.Valid s x) : Outcome.Sat (carV s x) (VCell.Valid s) := by
  obtain ⟨c, hc, hcv⟩ := get_valid hs hx
  cases c <;> simp [carV, car, hc]
  exact hcv.1

theorem cdrV_sat (hs : s.WF) {x : VCell} (hx : VCell.Valid s x) : Outcome.Sat (cdrV s x) (VCell.Valid s) := by
  obtain ⟨c, hc, hcv⟩ := get_valid hs hx
  cases c <;> simp [cdrV, cdr, hc]
  exact hcv.2

theorem car_sat (hs : s.WF) {args : List VCell} (ha : ∀ v ∈ args, VCell.Valid s v) :
    Outcome.Sat (car s args) (Post s) := by
  unfold car
  split
  · rename_i x
    obtain ⟨c, hc, hcv⟩ := get_valid hs (ha x (by simp))
    cases c <;> simp [hc]
    exact ⟨hs, Store.Le.refl s, hcv.1⟩
  · simp

theorem cdr_sat (hs : s.WF) {args : List VCell} (ha : ∀ v ∈ args, VCell.Valid s v) :
    Outcome.Sat (cdr s args) (Post s) := by
  unfold cdr
  split
  · rename_i x
    obtain ⟨c, hc, hcv⟩ := get_valid hs (ha x (by simp))
    cases c <;> simp [hc]
    exact ⟨hs, Store.Le.refl s, hcv.2⟩
  · simp

theorem eqTest_noPanic (hs : s.WF) {a b : VCell} (ha : VCell.Valid s a) (hb : VCell.Valid s b) :
    Outcome.NoPanic (eqTest s a b) := eqv_noPanic hs hb ha

theorem equalTest_noPanic (fuel : Nat) (hs : s.WF) {a b : VCell} (ha : VCell.Valid s a) (hb : VCell.Valid s b) :
    Outcome.NoPanic (equalTest fuel s a b) := equal_noPanic hs fuel hb ha

/-! ### `length`, `memq … assoc`: read-only recursions -/

theorem lengthCount_sat (hs : s.WF) : ∀ (f : Nat) (fast slow : VCell) (k : Int), VCell.Valid s fast →
    VCell.Valid s slow → Outcome.Sat (lengthCount f s fast slow (.num k)) (fun v => ∃ k, v = .num k)
  | 0, _, _, _, _, _ => by simp [lengthCount]
  | f+1, fast, slow, k, hf, hsl => by
    unfold lengthCount
    refine sat_bind (nullP_sat hs hf) (fun b _ => ?_)
    split
    · simp
    · refine sat_bind (cdrV_sat hs hf) (fun d hd => ?_)
      refine sat_bind (nullP_sat hs hd) (fun b1 _ => ?_)
      split
      · simp [add1, Store.get]
      · refine sat_bind (cdrV_sat hs hd) (fun dd hdd => ?_)
        refine sat_bind (cdrV_sat hs hsl) (fun sd hsd => ?_)
        refine sat_bind (sat_of_noPanic (eqTest_noPanic hs hdd hsd)) (fun b2 _ => ?_)
        split
        · have : cdrV s circularListSym = .err .pair := rfl
          rw [this]; simp
        · have hadd : add2 s (.num k) = .ok (.num (k + 2)) := rfl
          rw [hadd]
          exact lengthCount_sat hs f dd sd (k + 2) hdd hsd

theorem length_sat (hs : s.WF) : ∀ (f : Nat) (l : VCell), VCell.Valid s l →
    Outcome.Sat (length f s l) (fun v => ∃ k, v = .num k)
  | 0, _, _ => by simp [length]
  | f+1, l, hl => by
    unfold length
    exact lengthCount_sat hs f l l 0 hl hl

theorem mem_sat (hs : s.WF) {test : Store → VCell → VCell → Outcome Bool}
    (ht : ∀ a b, VCell.Valid s a → VCell.Valid s b → Outcome.NoPanic (test s a b)) :
    ∀ (f : Nat) (obj l : VCell), VCell.Valid s obj → VCell.Valid s l →
      Outcome.Sat (mem test f s obj l) (VCell.Valid s)
  | 0, _, _, _, _ => by simp [mem]
  | f+1, obj, l, ho, hl => by
    unfold mem
    refine sat_bind (nullP_sat hs hl) (fun b _ => ?_)
    split
    · simp [VCell.Valid]
    · refine sat_bind (carV_sat hs hl) (fun a ha => ?_)
      refine sat_bind (sat_of_noPanic (ht a obj ha ho)) (fun t _ => ?_)
      split
      · simpa using hl
      · refine sat_bind (cdrV_sat hs hl) (fun d hd => ?_)
        exact mem_sat hs ht f obj d ho hd

theorem ass_sat (hs : s.WF) {test : Store → VCell → VCell → Outcome Bool}
    (ht : ∀ a b, VCell.Valid s a → VCell.Valid s b → Outcome.NoPanic (test s a b)) :
    ∀ (f : Nat) (obj al : VCell), VCell.Valid s obj → VCell.Valid s al →
      Outcome.Sat (ass test f s obj al) (VCell.Valid s)
  | 0, _, _, _, _ => by simp [ass]
  | f+1, obj, al, ho, hl => by
    unfold ass
    refine sat_bind (nullP_sat hs hl) (fun b _ => ?_)
    split
    · simp [VCell.Valid]
    · refine sat_bind (carV_sat hs hl) (fun e he => ?_)
      refine sat_bind (P := fun _ => True) ?_ (fun hit _ => ?_)
      · refine sat_bind (pairP_sat hs he) (fun p _ => ?_)
        split
        · refine sat_bind (carV_sat hs hl) (fun e' he' => ?_)
          refine sat_bind (carV_sat hs he') (fun k hk => ?_)
          exact sat_of_noPanic (ht k obj hk ho)
        · simp
      · split
        · exact carV_sat hs hl
        · refine sat_bind (cdrV_sat hs hl) (fun d hd => ?_)
          exact ass_sat hs ht f obj d ho hd

/-! ### allocation: `cons`, `list` -/

theorem cons_sat (hs : s.WF) {a d : VCell} (ha : VCell.Valid s a) (hd : VCell.Valid s d) :
    Outcome.Sat (cons s [a, d]) (Post s) := by
  obtain ⟨hs1, hle1, hv1, x1, hx1⟩ := put_wf hs hd
  obtain ⟨hs2, hle2, hv2, x2, hx2⟩ := put_wf hs1 (ha.mono hle1)
  have hp1 : VCell.Valid ((s.put d).1.put a).1 (.ptr x1) := (hx1 ▸ hv1 : VCell.Valid _ (.ptr x1)).mono hle2
  have hp2 : VCell.Valid ((s.put d).1.put a).1 (.ptr x2) := hx2 ▸ hv2
  have hpair : VCell.Valid ((s.put d).1.put a).1 (.pair x2 x1) := ⟨hp2, hp1⟩
  obtain ⟨hs3, hle3, hv3⟩ := maybePut_wf hs2 hpair
  simp only [cons, consRaw, hx1, hx2, VCell.asPtr_ptr, bind_ok, finish, sat_ok_iff]
  exact ⟨hs3, (hle1.trans hle2).trans hle3, hv3⟩

theorem listLoop_sat : ∀ (xs : List VCell) (s : Store) (acc : Nat), s.WF → (∀ x ∈ xs, VCell.Valid s x) →
    acc < s.cells.length →
    Outcome.Sat (listLoop s xs acc) (fun p => p.1.WF ∧ Store.Le s p.1 ∧ p.2 < p.1.cells.length)
  | [], s, acc, hs, _, hacc => by simpa [listLoop] using ⟨hs, Store.Le.refl s, hacc⟩
  | x :: xs, s, acc, hs, hx, hacc => by
    obtain ⟨hs1, hle1, hv1, a, ha⟩ := put_wf hs (hx x (by simp))
    have hpa : VCell.Valid (s.put x).1 (.ptr a) := ha ▸ hv1
    have hpair : VCell.Valid (s.put x).1 (.pair a acc) := ⟨hpa, Nat.lt_of_lt_of_le hacc hle1.cells⟩
    obtain ⟨hs2, hle2, hv2, p, hp⟩ := put_wf hs1 hpair
    have hpp : VCell.Valid ((s.put x).1.put (.pair a acc)).1 (.ptr p) := hp ▸ hv2
    unfold listLoop
    simp only [ha, VCell.asPtr_ptr, bind_ok, hp]
    refine (listLoop_sat xs _ p hs2 (fun y hy => ((hx y (by simp [hy])).mono hle1).mono hle2) hpp).mono ?_
    intro r hr
    exact ⟨hr.1, (hle1.trans hle2).trans hr.2.1, hr.2.2⟩

theorem list_sat (hs : s.WF) {args : List VCell} (ha : ∀ v ∈ args, VCell.Valid s v) :
    Outcome.Sat (list s args) (Post s) := by
  obtain ⟨hs1, hle1, hv1, n, hn⟩ := put_wf hs (v := .nil) trivial
  have hpn : VCell.Valid (s.put .nil).1 (.ptr n) := hn ▸ hv1
  unfold list
  simp only [hn, VCell.asPtr_ptr, bind_ok]
  refine sat_bind (listLoop_sat args.reverse _ n hs1
    (fun y hy => (ha y (List.mem_reverse.mp hy)).mono hle1) hpn) (fun r hr => ?_)
  obtain ⟨s2, p⟩ := r
  exact sat_ok_iff.mpr ⟨hr.1, hle1.trans hr.2.1, hr.2.2⟩

/-! ### `append` (`clone_list` and the loop over the arguments) -/

def Post3 (s : Store) (p : Store × VCell × VCell) : Prop :=
  p.1.WF ∧ Store.Le s p.1 ∧ VCell.Valid p.1 p.2.1 ∧ VCell.Valid p.1 p.2.2

/-- linking the previous copy cell to the new one -/
theorem cloneLink_sat (hs : s.WF) {tail : VCell} {x : Nat} (ht : VCell.Valid s tail) (hx : x < s.cells.length) :
    Outcome.Sat (if tail.isNil then (.ok (s, .ptr x) : Outcome (Store × VCell)) else do
        let last ← s.get tail
        let lc ← (← last.asCar).asPtr
        let pp ← (VCell.ptr x).asPtr
        let tp ← tail.asPtr
        let s ← s.setCell tp (.pair lc pp)
        .ok (s, .ptr x))
      (fun p => p.1.WF ∧ Store.Le s p.1 ∧ Store.Le p.1 s ∧ p.2 = .ptr x) := by
  split
  · exact sat_ok_iff.mpr ⟨hs, Store.Le.refl s, Store.Le.refl s, rfl⟩
  · refine sat_bind (get_sat hs ht) (fun last hl => ?_)
    cases last with
    | pair lc ld =>
      simp only [VCell.asCar_pair, VCell.asPtr_ptr, bind_ok]
      refine sat_bind (asPtr_sat tail) (fun tp htp => ?_)
      subst htp
      obtain ⟨s', h', hwf, hle, hge⟩ := setCell_wf hs (a := tp) (c := .pair lc x) ht ⟨hl.1, hx⟩
      simpa [h'] using ⟨hwf, hle, hge⟩
    | _ => simp [VCell.asCar]

theorem cloneLoop_sat : ∀ (f : Nat) (s : Store) (rest : VCell) (nilp : Nat) (head tail : VCell), s.WF →
    VCell.Valid s rest → nilp < s.cells.length → VCell.Valid s head → VCell.Valid s tail →
    Outcome.Sat (cloneLoop f s rest nilp head tail) (Post3 s)
  | 0, _, _, _, _, _, _, _, _, _, _ => by simp [cloneLoop]
  | f+1, s, rest, nilp, head, tail, hs, hr, hn, hh, ht => by
    unfold cloneLoop
    cases rest with
    | pair a d =>
      have hv : VCell.Valid s (.pair a nilp) := ⟨hr.1, hn⟩
      obtain ⟨hs1, hle1, hpv, x, hx⟩ := put_wf hs hv
      have hxv : x < (s.put (.pair a nilp)).1.cells.length := (hx ▸ hpv : VCell.Valid _ (.ptr x))
      simp only [VCell.asCar_pair, VCell.asPtr_ptr, bind_ok, VCell.asCdr_pair, hx]
      refine sat_bind (cloneLink_sat hs1 (ht.mono hle1) hxv) (fun p hp => ?_)
      obtain ⟨s2, tl⟩ := p
      obtain ⟨hs2, hle2, hge2, htl⟩ := hp
      simp only at hs2 hle2 hge2 htl ⊢
      subst htl
      have hle : Store.Le s s2 := hle1.trans hle2
      have hxv2 : VCell.Valid s2 (.ptr x) := Nat.lt_of_lt_of_le hxv hle2.cells
      have hhead : VCell.Valid s2 (if head.isNil then VCell.ptr x else head) := by
        split
        · exact hxv2
        · exact hh.mono hle
      refine sat_bind (get_sat hs2 (v := .ptr d) (Nat.lt_of_lt_of_le hr.2 hle.cells)) (fun rest' hr' => ?_)
      split
      · refine (cloneLoop_sat f s2 rest' nilp _ _ hs2 hr' (Nat.lt_of_lt_of_le hn hle.cells) hhead hxv2).mono ?_
        intro r hr
        exact ⟨hr.1, hle.trans hr.2.1, hr.2.2⟩
      · split
        · simpa [Post3] using ⟨hs2, hle, hhead, hxv2⟩
        · simp
    | _ => simp [VCell.asCar]

theorem cloneList_sat (fuel : Nat) (hs : s.WF) {l : VCell} (hl : VCell.Valid s l) :
    Outcome.Sat (cloneList fuel s l) (Post3 s) := by
  unfold cloneList
  split
  · simp
  · obtain ⟨hs1, hle1, hv1, n, hn⟩ := put_wf hs (v := .nil) trivial
    have hpn : n < (s.put .nil).1.cells.length := (hn ▸ hv1 : VCell.Valid _ (.ptr n))
    simp only [hn, VCell.asPtr_ptr, bind_ok]
    refine (cloneLoop_sat fuel _ l n .nil .nil hs1 (hl.mono hle1) hpn trivial trivial).mono ?_
    intro r hr
    exact ⟨hr.1, hle1.trans hr.2.1, hr.2.2⟩

theorem appendLoop_sat (fuel : Nat) : ∀ (rest : List VCell) (s : Store) (tail : VCell), s.WF →
    (∀ v ∈ rest, VCell.Valid s v) → VCell.Valid s tail → Outcome.Sat (appendLoop fuel s rest tail) (Post s)
  | [], s, tail, hs, _, ht => by simpa [appendLoop] using ⟨hs, Store.Le.refl s, ht⟩
  | x :: rest, s, tail, hs, hx, ht => by
    unfold appendLoop
    refine sat_bind (get_sat hs (hx x (by simp))) (fun l hl => ?_)
    have hrest : ∀ v ∈ rest, VCell.Valid s v := fun v hv => hx v (by simp [hv])
    split
    · exact appendLoop_sat fuel rest s tail hs hrest ht
    · refine sat_bind (cloneList_sat fuel hs hl) (fun r hr => ?_)
      obtain ⟨s1, head, subTail⟩ := r
      obtain ⟨hs1, hle1, hhead, hsub⟩ := hr
      simp only at hs1 hle1 hhead hsub ⊢
      refine sat_bind (get_sat hs1 hsub) (fun sp hsp => ?_)
      cases sp with
      | pair c cd =>
        simp only [VCell.asCar_pair, VCell.asPtr_ptr, bind_ok]
        refine sat_bind (asPtr_sat subTail) (fun stp hstp => ?_)
        subst hstp
        refine sat_bind (asPtr_sat tail) (fun tp htp => ?_)
        subst htp
        obtain ⟨s2, h2, hs2, hle2, _⟩ := setCell_wf hs1 (a := stp) (c := .pair c tp) hsub
          ⟨hsp.1, Nat.lt_of_lt_of_le ht hle1.cells⟩
        simp only [h2, bind_ok]
        have hle : Store.Le s s2 := hle1.trans hle2
        refine (appendLoop_sat fuel rest s2 head hs2 (fun v hv => (hrest v hv).mono hle) (hhead.mono hle2)).mono ?_
        intro r hr
        exact hr.trans hle
      | _ => simp [VCell.asCar]
    · simp

theorem append_sat (fuel : Nat) (hs : s.WF) {args : List VCell} (ha : ∀ v ∈ args, VCell.Valid s v) :
    Outcome.Sat (append fuel s args) (Post s) := by
  unfold append
  have hrev : ∀ v ∈ args.reverse, VCell.Valid s v := fun v hv => ha v (List.mem_reverse.mp hv)
  split
  · exact sat_ok_iff.mpr ⟨hs, Store.Le.refl s, trivial⟩
  · rename_i last rest heq
    rw [heq] at hrev
    obtain ⟨hs1, hle1, hv1, _⟩ := put_wf hs (hrev last (by simp))
    simp only
    refine (appendLoop_sat fuel rest _ _ hs1 (fun v hv => (hrev v (by simp [hv])).mono hle1) hv1).mono ?_
    intro r hr
    exact hr.trans hle1

/-! ### `map`, `for-each` for callees that obey `CalleeLaw` -/

/-- the law a procedure argument of `map` / `for-each` has to obey: on every well-formed store and
    every list of valid arguments it does not panic, and what it hands back is again a well-formed
    store (that only grew) and a valid value -/
def CalleeLaw (g : Callee) : Prop :=
  ∀ (s : Store) (args : List VCell), s.WF → (∀ v ∈ args, VCell.Valid s v) → Outcome.Sat (g s args) (Post s)

theorem calleeLaw_car : CalleeLaw car := fun _ _ hs ha => car_sat hs ha
theorem calleeLaw_cdr : CalleeLaw cdr := fun _ _ hs ha => cdr_sat hs ha
theorem calleeLaw_cons : CalleeLaw cons := by
  intro s args hs ha
  match args, ha with
  | [a, d], ha => exact cons_sat hs (ha a (by simp)) (ha d (by simp))
  | [], _ => simp [cons, consRaw, finish]
  | [_], _ => simp [cons, consRaw, finish]
  | _ :: _ :: _ :: _, _ => simp [cons, consRaw, finish]
theorem calleeLaw_list : CalleeLaw list := fun _ _ hs ha => list_sat hs ha

theorem anyNull_sat (hs : s.WF) : ∀ (f : Nat) (l : VCell), VCell.Valid s l →
    Outcome.Sat (anyNull f s l) (fun _ => True)
  | 0, _, _ => by simp [anyNull]
  | f+1, l, hl => by
    unfold anyNull
    refine sat_bind (pairP_sat hs hl) (fun b _ => ?_)
    split
    · simp
    · refine sat_bind (carV_sat hs hl) (fun a ha => ?_)
      refine sat_bind (nullP_sat hs ha) (fun n _ => ?_)
      split
      · simp
      · refine sat_bind (cdrV_sat hs hl) (fun d hd => ?_)
        exact anyNull_sat hs f d hd

theorem listElems_sat (hs : s.WF) : ∀ (f : Nat) (l : VCell), VCell.Valid s l →
    Outcome.Sat (listElems f s l) (fun xs => ∀ x ∈ xs, VCell.Valid s x)
  | 0, _, _ => by simp [listElems]
  | f+1, l, hl => by
    unfold listElems
    refine sat_bind (get_sat hs hl) (fun c hc => ?_)
    split
    · rename_i a d
      refine sat_bind (listElems_sat hs f (.ptr d) hc.2) (fun xs hxs => ?_)
      simp only [sat_ok_iff, List.mem_cons]
      rintro x (rfl | hx)
      · exact hc.1
      · exact hxs x hx
    · simp
    · simp

theorem map1_sat {g : Callee} (hg : CalleeLaw g) : ∀ (f : Nat) (s : Store) (xs : VCell), s.WF →
    VCell.Valid s xs → Outcome.Sat (map1 g f s xs) (Post s)
  | 0, _, _, _, _ => by simp [map1]
  | f+1, s, xs, hs, hx => by
    unfold map1
    refine sat_bind (nullP_sat hs hx) (fun b _ => ?_)
    split
    · exact sat_ok_iff.mpr ⟨hs, Store.Le.refl s, trivial⟩
    · refine sat_bind (carV_sat hs hx) (fun a ha => ?_)
      refine sat_bind (hg s [a] hs (by simpa using ha)) (fun r hr => ?_)
      obtain ⟨s1, y⟩ := r
      obtain ⟨hs1, hle1, hy⟩ := hr
      simp only at hs1 hle1 hy ⊢
      refine sat_bind (cdrV_sat hs1 (hx.mono hle1)) (fun d hd => ?_)
      refine sat_bind (map1_sat hg f s1 d hs1 hd) (fun r2 hr2 => ?_)
      obtain ⟨s2, r⟩ := r2
      obtain ⟨hs2, hle2, hrv⟩ := hr2
      simp only at hs2 hle2 hrv ⊢
      refine (cons_sat hs2 (hy.mono hle2) hrv).mono ?_
      intro p hp
      exact hp.trans (hle1.trans hle2)

theorem mapAll_sat {g : Callee} (hg : CalleeLaw g) : ∀ (f : Nat) (s : Store) (xss : VCell), s.WF →
    VCell.Valid s xss → Outcome.Sat (mapAll g f s xss) (Post s)
  | 0, _, _, _, _ => by simp [mapAll]
  | f+1, s, xss, hs, hx => by
    unfold mapAll
    refine sat_bind (anyNull_sat hs f xss hx) (fun b _ => ?_)
    split
    · exact sat_ok_iff.mpr ⟨hs, Store.Le.refl s, trivial⟩
    · refine sat_bind (map1_sat calleeLaw_car f s xss hs hx) (fun r1 hr1 => ?_)
      obtain ⟨s1, cars⟩ := r1
      obtain ⟨hs1, hle1, hcars⟩ := hr1
      simp only at hs1 hle1 hcars ⊢
      refine sat_bind (listElems_sat hs1 f cars hcars) (fun args hargs => ?_)
      refine sat_bind (hg s1 args hs1 hargs) (fun r2 hr2 => ?_)
      obtain ⟨s2, y⟩ := r2
      obtain ⟨hs2, hle2, hy⟩ := hr2
      simp only at hs2 hle2 hy ⊢
      refine sat_bind (map1_sat calleeLaw_cdr f s2 xss hs2 (hx.mono (hle1.trans hle2))) (fun r3 hr3 => ?_)
      obtain ⟨s3, cdrs⟩ := r3
      obtain ⟨hs3, hle3, hcdrs⟩ := hr3
      simp only at hs3 hle3 hcdrs ⊢
      refine sat_bind (mapAll_sat hg f s3 cdrs hs3 hcdrs) (fun r4 hr4 => ?_)
      obtain ⟨s4, r⟩ := r4
      obtain ⟨hs4, hle4, hrv⟩ := hr4
      simp only at hs4 hle4 hrv ⊢
      refine (cons_sat hs4 ((hy.mono hle3).mono hle4) hrv).mono ?_
      intro p hp
      exact hp.trans (((hle1.trans hle2).trans hle3).trans hle4)

theorem forEachAll_sat {g : Callee} (hg : CalleeLaw g) : ∀ (f : Nat) (s : Store) (xss : VCell), s.WF →
    VCell.Valid s xss → Outcome.Sat (forEachAll g f s xss) (Post s)
  | 0, _, _, _, _ => by simp [forEachAll]
  | f+1, s, xss, hs, hx => by
    unfold forEachAll
    refine sat_bind (anyNull_sat hs f xss hx) (fun b _ => ?_)
    split
    · exact sat_ok_iff.mpr ⟨hs, Store.Le.refl s, trivial⟩
    · refine sat_bind (map1_sat calleeLaw_car f s xss hs hx) (fun r1 hr1 => ?_)
      obtain ⟨s1, cars⟩ := r1
      obtain ⟨hs1, hle1, hcars⟩ := hr1
      simp only at hs1 hle1 hcars ⊢
      refine sat_bind (listElems_sat hs1 f cars hcars) (fun args hargs => ?_)
      refine sat_bind (hg s1 args hs1 hargs) (fun r2 hr2 => ?_)
      obtain ⟨s2, y⟩ := r2
      obtain ⟨hs2, hle2, hy⟩ := hr2
      simp only at hs2 hle2 hy ⊢
      refine sat_bind (map1_sat calleeLaw_cdr f s2 xss hs2 (hx.mono (hle1.trans hle2))) (fun r3 hr3 => ?_)
      obtain ⟨s3, cdrs⟩ := r3
      obtain ⟨hs3, hle3, hcdrs⟩ := hr3
      simp only at hs3 hle3 hcdrs ⊢
      refine sat_bind (forEachAll_sat hg f s3 cdrs hs3 hcdrs) (fun r4 hr4 => ?_)
      obtain ⟨s4, r⟩ := r4
      obtain ⟨hs4, hle4, _⟩ := hr4
      simp only at hs4 hle4 ⊢
      exact sat_ok_iff.mpr ⟨hs4, ((hle1.trans hle2).trans hle3).trans hle4, trivial⟩

theorem map_sat {g : Callee} (hg : CalleeLaw g) (fuel : Nat) (hs : s.WF) {lists : List VCell}
    (ha : ∀ v ∈ lists, VCell.Valid s v) : Outcome.Sat (map g fuel s lists) (Post s) := by
  unfold map
  split
  · simp
  · rename_i xs rest
    refine sat_bind (list_sat hs (fun v hv => ha v (List.mem_cons_of_mem _ hv))) (fun r hr => ?_)
    obtain ⟨s1, l⟩ := r
    obtain ⟨hs1, hle1, hl⟩ := hr
    simp only at hs1 hle1 hl ⊢
    refine sat_bind (cons_sat hs1 ((ha xs (List.mem_cons_self ..)).mono hle1) hl) (fun r2 hr2 => ?_)
    obtain ⟨s2, xss⟩ := r2
    exact (mapAll_sat hg fuel s2 xss hr2.1 hr2.2.2).mono fun p hp => hp.trans (hle1.trans hr2.2.1)

theorem forEach_sat {g : Callee} (hg : CalleeLaw g) (fuel : Nat) (hs : s.WF) {lists : List VCell}
    (ha : ∀ v ∈ lists, VCell.Valid s v) : Outcome.Sat (forEach g fuel s lists) (Post s) := by
  unfold forEach
  split
  · simp
  · rename_i xs rest
    refine sat_bind (list_sat hs (fun v hv => ha v (List.mem_cons_of_mem _ hv))) (fun r hr => ?_)
    obtain ⟨s1, l⟩ := r
    obtain ⟨hs1, hle1, hl⟩ := hr
    simp only at hs1 hle1 hl ⊢
    refine sat_bind (cons_sat hs1 ((ha xs (List.mem_cons_self ..)).mono hle1) hl) (fun r2 hr2 => ?_)
    obtain ⟨s2, xss⟩ := r2
    exact (forEachAll_sat hg fuel s2 xss hr2.1 hr2.2.2).mono fun p hp => hp.trans (hle1.trans hr2.2.1)

end Marwood.Store
