import Marwood.Lemmas.StoreList
/-!
# `length` after the repair: the two-cursor walk on a finite spine (C14)

`Store.lengthCount` is the `letrec`-bound `count` of the prelude's `length`. On a value with a finite
spine (`Spine s v as c`: pairs with element references `as`, final non-pair cell `c`) the walk never
finds its two cursors on the same pair — `eq?` on two pair cells compares addresses *or contents*
(`compare.rs`), and either way a hit would give the two different-length tails the same spine — so the
result is the number of pairs when `c` is `()` and the `expected pair` error otherwise, exactly what
the definition before the repair computed.
-/
namespace Marwood.Store
open Outcome

/-- views are functional: a value has at most one spine -/
theorem Spine.unique {s : Store} {v c c' : VCell} {as bs : List Nat}
    (h1 : Spine s v as c) (h2 : Spine s v bs c') : as = bs ∧ c = c' := by
  induction h1 generalizing bs with
  | done hg hp =>
    cases h2 with
    | done hg' _ => rw [hg] at hg'; cases hg'; exact ⟨rfl, rfl⟩
    | cons hg' _ => rw [hg] at hg'; cases hg'; simp [VCell.isPair] at hp
  | cons hg _ ih =>
    cases h2 with
    | done hg' hp' => rw [hg] at hg'; cases hg'; simp [VCell.isPair] at hp'
    | cons hg' ht =>
      rw [hg] at hg'; cases hg'
      obtain ⟨h, hc⟩ := ih ht
      exact ⟨by rw [h], hc⟩

/-- the two cursors of `count` are not `eq?` while the fast one has the shorter tail: neither the same
    address nor two pair cells with the same contents -/
theorem eqTest_spine_false {s : Store} {c c' : VCell} {p q : Nat} {xs ys : List Nat}
    (hx : Spine s (.ptr p) xs c) (hy : Spine s (.ptr q) ys c') (hlt : xs.length < ys.length) :
    eqTest s (.ptr p) (.ptr q) = .ok false := by
  have hne : q ≠ p := by
    rintro rfl
    have := (hx.unique hy).1
    rw [this] at hlt; omega
  have hb : (VCell.ptr q == VCell.ptr p) = false := by simp [hne]
  cases hy with
  | done _ _ => simp at hlt
  | cons hgq htq =>
    rename_i a d ys'
    simp only [eqTest, eqv, VCell.isPtr, Bool.true_and, hb, Bool.false_eq_true, if_false, derefArg, hgq, bind_ok]
    cases hx with
    | done hgp hpp =>
      simp only [hgp, bind_ok]
      cases c <;> first | rfl | simp [VCell.isPair] at hpp
    | cons hgp htp =>
      rename_i a' d' xs'
      simp only [hgp, bind_ok, eqvCells]
      by_cases hd : d = d'
      · subst hd
        have := (htp.unique htq).1
        simp only [List.length_cons] at hlt
        rw [this] at hlt; omega
      · simp [hd]

theorem Spine.cons_inv {s : Store} {v c : VCell} {as : List Nat} (h : Spine s v as c) (hne : 0 < as.length) :
    ∃ a d, s.get v = .ok (.pair a d) ∧ Spine s (.ptr d) as.tail c := by
  cases h with
  | done _ _ => simp at hne
  | cons hg ht => exact ⟨_, _, hg, ht⟩

/-- **the walk on a finite spine**: `fast` has `xs.length` pairs to go, `slow` at least as many -/
theorem lengthCount_spine {s : Store} {c : VCell} : ∀ (fuel : Nat) (xs ys : List Nat) (fast slow : VCell) (k : Int),
    Spine s fast xs c → Spine s slow ys c → xs.length ≤ ys.length → xs.length / 2 < fuel →
    lengthCount fuel s fast slow (.num k) = if c.isNil then .ok (.num (k + xs.length)) else .err .pair
  | 0, _, _, _, _, _, _, _, _, hf => by omega
  | f+1, xs, ys, fast, slow, k, hx, hy, hle, hf => by
    cases hx with
    | done hg hp =>
      cases hc : c.isNil with
      | true => simp [lengthCount, nullP_of_get hg, hc]
      | false => simp [lengthCount, nullP_of_get hg, hc, cdrV_err hg hp]
    | cons hg ht =>
      rename_i a d xs'
      have hpn : (VCell.pair a d).isNil = false := rfl
      cases ht with
      | done hg1 hp1 =>
        cases hc : c.isNil with
        | true => simp [lengthCount, nullP_of_get hg, hpn, cdrV_ok hg, nullP_of_get hg1, hc, add1, Store.get]
        | false =>
          simp [lengthCount, nullP_of_get hg, hpn, cdrV_ok hg, nullP_of_get hg1, hc, cdrV_err hg1 hp1]
      | cons hg1 ht1 =>
        rename_i a1 d1 xs''
        simp only [List.length_cons] at hle hf
        obtain ⟨a0, d0, hg0, ht0⟩ := hy.cons_inv (by omega)
        have hlt : xs''.length < ys.tail.length := by simp only [List.length_tail]; omega
        have hhalf : (xs''.length + 1 + 1) / 2 = xs''.length / 2 + 1 := by omega
        have ih := lengthCount_spine f xs'' ys.tail (.ptr d1) (.ptr d0) (k + 2) ht1 ht0 (by omega) (by omega)
        have hadd : add2 s (.num k) = .ok (.num (k + 2)) := rfl
        have hpn1 : (VCell.pair a1 d1).isNil = false := rfl
        simp only [lengthCount, nullP_of_get hg, hpn, hpn1, bind_ok, Bool.false_eq_true, if_false, cdrV_ok hg,
          nullP_of_get hg1, cdrV_ok hg1, cdrV_ok hg0, eqTest_spine_false ht1 ht0 hlt, hadd, ih,
          List.length_cons]
        split
        · congr 2; push_cast; omega
        · rfl

/-- (a) `length` of a value whose spine ends in `()` -/
theorem length_spine_ok {s : Store} {v : VCell} {as : List Nat} (hl : Spine s v as .nil) {fuel : Nat}
    (hf : as.length / 2 + 1 < fuel) : length fuel s v = .ok (.num as.length) := by
  obtain ⟨f, rfl⟩ : ∃ f, fuel = f + 1 := ⟨fuel - 1, by omega⟩
  rw [length, lengthCount_spine f as as v v 0 hl hl (Nat.le_refl _) (by omega)]
  simp

/-- (b) `length` of a value whose spine ends in anything else -/
theorem length_spine_err {s : Store} {v c : VCell} {as : List Nat} (hl : Spine s v as c) (hc : c.isNil = false)
    {fuel : Nat} (hf : as.length / 2 + 1 < fuel) : length fuel s v = .err .pair := by
  obtain ⟨f, rfl⟩ : ∃ f, fuel = f + 1 := ⟨fuel - 1, by omega⟩
  rw [length, lengthCount_spine f as as v v 0 hl hl (Nat.le_refl _) (by omega)]
  simp [hc]

end Marwood.Store
