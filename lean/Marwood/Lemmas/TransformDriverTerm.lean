import Marwood.Lemmas.TransformDriver
/-!
# T17.3c / T17.3d: fuel of the expansion driver, and what a quasiquote template keeps
-/
namespace Marwood.Transform
open Marwood Marwood.Spec.ExpandAll

/-! ## `u` occurs in `d` -/

inductive Sub : Datum → Datum → Prop
  | refl (d : Datum) : Sub d d
  | car {u a : Datum} (d : Datum) : Sub u a → Sub u (.pair a d)
  | cdr {u d : Datum} (a : Datum) : Sub u d → Sub u (.pair a d)
  | vec {u e : Datum} : Sub u e → Sub u (.vec e)

theorem Sub.trans {u d d' : Datum} (h1 : Sub u d) (h2 : Sub d d') : Sub u d' := by
  induction h2 with
  | refl => exact h1
  | car d _ ih => exact .car d ih
  | cdr a _ ih => exact .cdr a ih
  | vec _ ih => exact .vec ih

/-- while walking `d` the driver expands a use `(s . args)` occurring in `d`, and handing the expansion
    to `re` runs out of fuel -/
def Hit (M : MacroTable) (re : Datum → Res Datum) (d : Datum) : Prop :=
  ∃ s args t e, Sub (.pair (.sym s) args) d ∧ M.lookup s = some t ∧
    t.transform (useFuelT t (.pair (.sym s) args)) (.pair (.sym s) args) = .ok e ∧ re e = .fuel

theorem Hit.mono {M : MacroTable} {re : Datum → Res Datum} {d d' : Datum} (h : Sub d d')
    (hh : Hit M re d) : Hit M re d' := by
  obtain ⟨s, args, t, e, hs, hl, ht, hr⟩ := hh
  exact ⟨s, args, t, e, hs.trans h, hl, ht, hr⟩

/-- no transformer of the table runs out of its own fuel (true for every accepted transformer) -/
def TransformersTerminate (M : MacroTable) : Prop :=
  ∀ s t, M.lookup s = some t → ∀ u, t.transform (useFuelT t u) u ≠ .fuel

section
variable (M : MacroTable) (re : Datum → Res Datum)

def FuelHit (d : Datum) : Prop :=
  (walk M re d = .fuel → Hit M re d) ∧ (walkList M re d = .fuel → Hit M re d) ∧
  (∀ k, walkQQ M re k d = .fuel → Hit M re d) ∧ (∀ k, walkQQSpine M re k d = .fuel → Hit M re d)

theorem pairBind_fuel {x y : Res Datum} {g : Datum → Datum → Datum}
    (h : (x.bind fun a => y.bind fun b => .ok (g a b)) = .fuel) : x = .fuel ∨ y = .fuel := by
  rcases Res.bind_eq_fuel.mp h with h | ⟨a, _, h⟩
  · exact .inl h
  · rcases Res.bind_eq_fuel.mp h with h | ⟨b, _, h⟩
    · exact .inr h
    · cases h

theorem oneBind_fuel {x : Res Datum} {g : Datum → Datum} (h : (x.bind fun a => .ok (g a)) = .fuel) :
    x = .fuel := by
  rcases Res.bind_eq_fuel.mp h with h | ⟨a, _, h⟩
  · exact h
  · cases h

variable (hT : TransformersTerminate M)
include hT

theorem fuelHit_all : ∀ n d, dsize d ≤ n → FuelHit M re d := by
  intro n
  induction n with
  | zero => intro d hd; cases d <;> simp [dsize] at hd
  | succ n ih =>
    intro d hd
    cases d with
    | pair a r =>
      rw [dsize_pair] at hd
      have Fa := ih a (by omega)
      have Fr := ih r (by omega)
      have helems : ((walk M re a).bind fun h => (walkList M re r).bind fun r' => Res.ok (Datum.pair h r')) = .fuel →
          Hit M re (.pair a r) := by
        intro h
        rcases pairBind_fuel h with h | h
        · exact (Fa.1 h).mono (.car r (.refl a))
        · exact (Fr.2.1 h).mono (.cdr a (.refl r))
      refine ⟨?_, ?_, ?_, ?_⟩
      · intro hw
        rw [walk] at hw
        by_cases hs : ∃ s, a = .sym s
        · obtain ⟨s, rfl⟩ := hs
          by_cases h1 : s = Spec.ExpandAll.quoteN ∨ s = Spec.ExpandAll.defineSyntaxN
          · rw [walkPair_asIs M re h1] at hw; cases hw
          · have hgen : genericSym M re s r (fun _ => walk M re (.sym s)) (fun _ => walkList M re r) = .fuel →
                Hit M re (.pair (.sym s) r) := by
              intro hw
              unfold genericSym at hw
              cases hl : M.lookup s with
              | some t =>
                rw [hl] at hw
                rcases Res.bind_eq_fuel.mp hw with h | ⟨e, he, hre⟩
                · exact absurd h (hT s t hl _)
                · exact ⟨s, r, t, e, .refl _, hl, he, hre⟩
              | none =>
                rw [hl] at hw
                exact helems hw
            by_cases h2 : s = Spec.ExpandAll.quasiquoteN
            · cases r with
              | pair tpl r' =>
                rw [dsize_pair] at hd
                have Ft := ih tpl (by omega)
                rw [walkQQHead, walkPair_quasi M re h1 h2] at hw
                have := oneBind_fuel (oneBind_fuel hw)
                exact (Ft.2.2.1 0 this).mono (.cdr _ (.car r' (.refl tpl)))
              | _ =>
                rw [walkQQHead_nonpair M re rfl, walkPair_generic M re h1 _ _ _ _ (Or.inr rfl)] at hw
                exact hgen hw
            · rw [walkPair_generic M re h1 _ _ _ _ (Or.inl h2)] at hw
              exact hgen hw
        · have hns : ∀ s, a ≠ .sym s := fun s h => hs ⟨s, h⟩
          rw [walkPair_nonsym M re hns] at hw
          exact helems hw
      · intro hw
        rw [walkList] at hw
        exact helems hw
      · intro k hw
        rw [walkQQ] at hw
        have hboth : ∀ m, ((walkQQ M re m a).bind fun a' => (walkQQSpine M re m r).bind fun d' =>
            Res.ok (Datum.pair a' d')) = .fuel → Hit M re (.pair a r) := by
          intro m h
          rcases pairBind_fuel h with h | h
          · exact (Fa.2.2.1 m h).mono (.car r (.refl a))
          · exact (Fr.2.2.2 m h).mono (.cdr a (.refl r))
        by_cases hu : isUnquote a = true
        · cases k with
          | zero =>
            cases r with
            | pair unq rest =>
              rw [dsize_pair] at hd
              have Fu := ih unq (by omega)
              rw [walkUnq, walkQQPair_unq0_some hu] at hw
              have := oneBind_fuel (oneBind_fuel hw)
              exact (Fu.1 this).mono (.cdr _ (.car rest (.refl unq)))
            | _ =>
              rw [walkUnq_nonpair M re rfl, walkQQPair_unq0_none hu] at hw
              cases hw
          | succ m =>
            rw [walkQQPair_unqS hu] at hw
            exact hboth m hw
        · have hu' : isUnquote a = false := by cases h : isUnquote a <;> simp_all
          by_cases hq : isQuasiquote a = true
          · rw [walkQQPair_quasi hu' hq] at hw
            exact hboth _ hw
          · have hq' : isQuasiquote a = false := by cases h : isQuasiquote a <;> simp_all
            rw [walkQQPair_plain hu' hq'] at hw
            exact hboth _ hw
      · intro k hw
        rw [walkQQSpine] at hw
        rcases pairBind_fuel hw with h | h
        · exact (Fa.2.2.1 k h).mono (.car r (.refl a))
        · exact (Fr.2.2.2 k h).mono (.cdr a (.refl r))
    | vec el =>
      rw [dsize_vec] at hd
      have Fe := ih el (by omega)
      refine ⟨fun h => ?_, fun h => ?_, fun k h => ?_, fun k h => ?_⟩
      · rw [walk_nonpair M re rfl] at h; cases h
      · rw [walkList_nonpair M re rfl] at h; cases h
      · rw [walkQQ] at h
        exact (Fe.2.2.2 k (oneBind_fuel h)).mono (.vec (.refl el))
      · rw [walkQQSpine_nonpair M re k rfl] at h; cases h
    | _ =>
      refine ⟨fun h => ?_, fun h => ?_, fun k h => ?_, fun k h => ?_⟩
      · rw [walk_nonpair M re rfl] at h; cases h
      · rw [walkList_nonpair M re rfl] at h; cases h
      · rw [walkQQ_atom M re k rfl rfl] at h; cases h
      · rw [walkQQSpine_nonpair M re k rfl] at h; cases h
end

/-- `n` nested expansions, each of a use that occurs in the expansion before -/
def ExpChain (M : MacroTable) : Nat → Datum → Prop
  | 0, _ => True
  | n + 1, d => ∃ s args t e, Sub (.pair (.sym s) args) d ∧ M.lookup s = some t ∧
      t.transform (useFuelT t (.pair (.sym s) args)) (.pair (.sym s) args) = .ok e ∧ ExpChain M n e

/-- **fuel runs out only along a chain of expansions**: `expandForm M f d = .fuel` exhibits `f + 1`
    nested expansions -/
theorem expandForm_fuel_chain (M : MacroTable) (hT : TransformersTerminate M) :
    ∀ (f : Nat) (d : Datum), expandForm M f d = .fuel → ExpChain M (f + 1) d := by
  intro f
  induction f with
  | zero =>
    intro d h
    obtain ⟨s, args, t, e, hs, hl, ht, _⟩ := (fuelHit_all M _ hT (dsize d) d (Nat.le_refl _)).1 h
    exact ⟨s, args, t, e, hs, hl, ht, trivial⟩
  | succ f ih =>
    intro d h
    obtain ⟨s, args, t, e, hs, hl, ht, hr⟩ := (fuelHit_all M _ hT (dsize d) d (Nat.le_refl _)).1 h
    exact ⟨s, args, t, e, hs, hl, ht, ih e hr⟩

/-! ## more fuel never changes an answer -/

/-- `x'` is `x` unless `x` ran out of fuel -/
def Le (x x' : Res Datum) : Prop := x ≠ .fuel → x' = x

theorem Le.refl (x : Res Datum) : Le x x := fun _ => rfl

theorem Le.bind {x x' : Res Datum} {f f' : Datum → Res Datum} (h : Le x x') (hf : ∀ a, Le (f a) (f' a)) :
    Le (x.bind f) (x'.bind f') := by
  intro hne
  cases x with
  | ok a => rw [h (by simp)]; exact hf a hne
  | err e => rw [h (by simp)]; rfl
  | panic s => rw [h (by simp)]; rfl
  | fuel => exact absurd rfl hne

def OptLe : Option (Unit → Res Datum) → Option (Unit → Res Datum) → Prop
  | some q, some q' => Le (q ()) (q' ())
  | none, none => True
  | _, _ => False

section
variable (M : MacroTable) (re re' : Datum → Res Datum) (hre : ∀ e, Le (re e) (re' e))
include hre

theorem walkPair_le (hd rest : Datum) {wh wh' wl wl' : Unit → Res Datum} {wq wq'}
    (h1 : Le (wh ()) (wh' ())) (h2 : Le (wl ()) (wl' ())) (h3 : OptLe wq wq') :
    Le (walkPair M re hd rest wh wl wq) (walkPair M re' hd rest wh' wl' wq') := by
  have hgen : Le (match macroOf M hd with
        | some t => expandUse re t (.pair hd rest)
        | none => (wh ()).bind fun h => (wl ()).bind fun r => .ok (.pair h r))
      (match macroOf M hd with
        | some t => expandUse re' t (.pair hd rest)
        | none => (wh' ()).bind fun h => (wl' ()).bind fun r => .ok (.pair h r)) := by
    cases macroOf M hd with
    | some t => exact Le.bind (Le.refl _) hre
    | none => exact Le.bind h1 fun _ => Le.bind h2 fun _ => Le.refl _
  unfold walkPair
  cases headKind hd with
  | asIs => exact Le.refl _
  | other => exact hgen
  | quasi =>
    cases wq with
    | some q =>
      cases wq' with
      | some q' => exact Le.bind h3 fun _ => Le.refl _
      | none => cases h3
    | none =>
      cases wq' with
      | some q' => cases h3
      | none => exact hgen

omit hre in
theorem walkQQPair_le (a d : Datum) (k : Nat) {wa wa' ws ws' : Nat → Res Datum} {wu wu'}
    (h1 : ∀ m, Le (wa m) (wa' m)) (h2 : ∀ m, Le (ws m) (ws' m)) (h3 : OptLe wu wu') :
    Le (walkQQPair a d k wa ws wu) (walkQQPair a d k wa' ws' wu') := by
  have hb : ∀ m, Le ((wa m).bind fun a' => (ws m).bind fun d' => .ok (.pair a' d'))
      ((wa' m).bind fun a' => (ws' m).bind fun d' => .ok (.pair a' d')) :=
    fun m => Le.bind (h1 m) fun _ => Le.bind (h2 m) fun _ => Le.refl _
  unfold walkQQPair
  cases isUnquote a with
  | true =>
    simp only [if_true]
    cases k with
    | zero =>
      cases wu with
      | some u =>
        cases wu' with
        | some u' => exact Le.bind h3 fun _ => Le.refl _
        | none => cases h3
      | none =>
        cases wu' with
        | some u' => cases h3
        | none => exact Le.refl _
    | succ m => exact hb m
  | false =>
    simp only [Bool.false_eq_true, if_false]
    exact hb _

theorem walk_le_all (d : Datum) :
    Le (walk M re d) (walk M re' d) ∧ Le (walkList M re d) (walkList M re' d) ∧
    (∀ k, Le (walkQQ M re k d) (walkQQ M re' k d)) ∧
    (∀ k, Le (walkQQSpine M re k d) (walkQQSpine M re' k d)) ∧
    OptLe (walkQQHead M re d) (walkQQHead M re' d) ∧ OptLe (walkUnq M re d) (walkUnq M re' d) := by
  induction d with
  | pair a r iha ihr =>
    obtain ⟨a1, a2, a3, a4, a5, a6⟩ := iha
    obtain ⟨r1, r2, r3, r4, r5, r6⟩ := ihr
    refine ⟨?_, ?_, ?_, ?_, ?_, ?_⟩
    · rw [walk, walk]; exact walkPair_le M re re' hre a r a1 r2 r5
    · rw [walkList, walkList]; exact Le.bind a1 fun _ => Le.bind r2 fun _ => Le.refl _
    · intro k; rw [walkQQ, walkQQ]; exact walkQQPair_le a r k a3 r4 r6
    · intro k; rw [walkQQSpine, walkQQSpine]; exact Le.bind (a3 k) fun _ => Le.bind (r4 k) fun _ => Le.refl _
    · rw [walkQQHead, walkQQHead]; exact Le.bind (a3 0) fun _ => Le.refl _
    · rw [walkUnq, walkUnq]; exact Le.bind a1 fun _ => Le.refl _
  | vec e ih =>
    obtain ⟨_, _, _, e4, _, _⟩ := ih
    refine ⟨Le.refl _, Le.refl _, fun k => ?_, fun k => Le.refl _, trivial, trivial⟩
    rw [walkQQ, walkQQ]; exact Le.bind (e4 k) fun _ => Le.refl _
  | _ => exact ⟨Le.refl _, Le.refl _, fun k => Le.refl _, fun k => Le.refl _, trivial, trivial⟩
end

/-- **fuel monotonicity**: an answer other than "out of fuel" stays the answer with more fuel -/
theorem expandForm_mono (M : MacroTable) : ∀ (f : Nat) (d : Datum),
    expandForm M f d ≠ .fuel → expandForm M (f + 1) d = expandForm M f d := by
  intro f
  induction f with
  | zero =>
    intro d h
    exact (walk_le_all M _ _ (fun e h => absurd rfl h) d).1 h
  | succ f ih =>
    intro d h
    exact (walk_le_all M _ _ (fun e h => ih e h) d).1 h

/-! ## T17.3d: what `transform_quasiquote` leaves alone -/

/-- the place of an expression the driver transforms inside a template -/
def hole : Datum := .undefined

/-- `(unquote e . rest)` with `e` hidden -/
def maskUnq (a d : Datum) : Datum :=
  match d with
  | .pair _ rest => .pair a (.pair hole rest)
  | _ => .pair a d

mutual
/-- a template at depth `k` with every expression the driver transforms (`(unquote e . rest)` at
    depth 0, as an element) replaced by `hole` -/
def maskQQ : Nat → Datum → Datum
  | k, .vec e => .vec (maskSpine k e)
  | k, .pair a d =>
    if isUnquote a then
      match k with
      | 0 => maskUnq a d
      | m + 1 => .pair (maskQQ m a) (maskSpine m d)
    else if isQuasiquote a then .pair (maskQQ (k + 1) a) (maskSpine (k + 1) d)
    else .pair (maskQQ k a) (maskSpine k d)
  | _, d => d
def maskSpine : Nat → Datum → Datum
  | k, .pair x r => .pair (maskQQ k x) (maskSpine k r)
  | _, d => d
end

section
variable (M : MacroTable) (re : Datum → Res Datum)

theorem walkQQPair_isPair {a d : Datum} {k : Nat} {wa ws : Nat → Res Datum} {wu} {e : Datum}
    (h : walkQQPair a d k wa ws wu = .ok e) : ∃ x y, e = .pair x y := by
  have hb : ∀ m, ((wa m).bind fun a' => (ws m).bind fun d' => Res.ok (Datum.pair a' d')) = .ok e →
      ∃ x y, e = .pair x y := by
    intro m h
    obtain ⟨x, _, h⟩ := Res.bind_eq_ok.mp h
    obtain ⟨y, _, h⟩ := Res.bind_eq_ok.mp h
    cases h
    exact ⟨x, y, rfl⟩
  unfold walkQQPair at h
  cases hu : isUnquote a with
  | true =>
    simp only [hu, if_true] at h
    cases k with
    | zero =>
      cases wu with
      | some u =>
        simp only at h
        obtain ⟨y, _, h⟩ := Res.bind_eq_ok.mp h
        cases h
        exact ⟨a, y, rfl⟩
      | none => simp only at h; cases h; exact ⟨a, d, rfl⟩
    | succ m => exact hb m h
  | false =>
    simp only [hu, Bool.false_eq_true, if_false] at h
    exact hb _ h

theorem walkQQ_shape {k : Nat} {a a' : Datum} (h : walkQQ M re k a = .ok a') :
    isUnquote a' = isUnquote a ∧ isQuasiquote a' = isQuasiquote a := by
  cases a with
  | pair x y =>
    rw [walkQQ] at h
    obtain ⟨x', y', rfl⟩ := walkQQPair_isPair h
    exact ⟨rfl, rfl⟩
  | vec el =>
    rw [walkQQ] at h
    obtain ⟨e', _, h⟩ := Res.bind_eq_ok.mp h
    cases h
    exact ⟨rfl, rfl⟩
  | _ => rw [walkQQ_atom M re k rfl rfl] at h; cases h; exact ⟨rfl, rfl⟩

/-- **`transform_quasiquote` changes nothing but the expressions under a depth-0 `unquote`** -/
theorem walkQQ_mask (d : Datum) :
    (∀ k e, walkQQ M re k d = .ok e → maskQQ k e = maskQQ k d) ∧
    (∀ k e, walkQQSpine M re k d = .ok e → maskSpine k e = maskSpine k d) := by
  induction d with
  | pair a r iha ihr =>
    have hb : ∀ m e, ((walkQQ M re m a).bind fun a' => (walkQQSpine M re m r).bind fun d' =>
        Res.ok (Datum.pair a' d')) = .ok e →
        ∃ a' d', e = .pair a' d' ∧ isUnquote a' = isUnquote a ∧ isQuasiquote a' = isQuasiquote a ∧
          maskQQ m a' = maskQQ m a ∧ maskSpine m d' = maskSpine m r := by
      intro m e h
      obtain ⟨a', ha, h⟩ := Res.bind_eq_ok.mp h
      obtain ⟨d', hd, h⟩ := Res.bind_eq_ok.mp h
      cases h
      exact ⟨a', d', rfl, (walkQQ_shape M re ha).1, (walkQQ_shape M re ha).2, iha.1 m a' ha, ihr.2 m d' hd⟩
    refine ⟨?_, ?_⟩
    · intro k e h
      rw [walkQQ] at h
      cases hu : isUnquote a with
      | true =>
        cases k with
        | zero =>
          cases r with
          | pair unq rest =>
            rw [walkUnq, walkQQPair_unq0_some hu] at h
            obtain ⟨q, hq, h⟩ := Res.bind_eq_ok.mp h
            obtain ⟨u', _, hq⟩ := Res.bind_eq_ok.mp hq
            cases hq; cases h
            simp only [maskQQ, hu, if_true, maskUnq]
          | _ =>
            rw [walkUnq_nonpair M re rfl, walkQQPair_unq0_none hu] at h
            cases h; rfl
        | succ m =>
          rw [walkQQPair_unqS hu] at h
          obtain ⟨a', d', rfl, h1, _, h3, h4⟩ := hb m e h
          simp only [maskQQ, hu, h1, if_true, h3, h4]
      | false =>
        cases hq : isQuasiquote a with
        | true =>
          rw [walkQQPair_quasi hu hq] at h
          obtain ⟨a', d', rfl, h1, h2, h3, h4⟩ := hb _ e h
          simp only [maskQQ, hu, hq, h1, h2, Bool.false_eq_true, if_false, if_true, h3, h4]
        | false =>
          rw [walkQQPair_plain hu hq] at h
          obtain ⟨a', d', rfl, h1, h2, h3, h4⟩ := hb _ e h
          simp only [maskQQ, hu, hq, h1, h2, Bool.false_eq_true, if_false, h3, h4]
    · intro k e h
      rw [walkQQSpine] at h
      obtain ⟨a', ha, h⟩ := Res.bind_eq_ok.mp h
      obtain ⟨d', hd, h⟩ := Res.bind_eq_ok.mp h
      cases h
      simp only [maskSpine, iha.1 k a' ha, ihr.2 k d' hd]
  | vec el ih =>
    refine ⟨?_, ?_⟩
    · intro k e h
      rw [walkQQ] at h
      obtain ⟨e', he, h⟩ := Res.bind_eq_ok.mp h
      cases h
      simp only [maskQQ, ih.2 k e' he]
    · intro k e h
      rw [walkQQSpine_nonpair M re k rfl] at h; cases h; rfl
  | _ =>
    refine ⟨?_, ?_⟩
    · intro k e h; rw [walkQQ_atom M re k rfl rfl] at h; cases h; rfl
    · intro k e h; rw [walkQQSpine_nonpair M re k rfl] at h; cases h; rfl
end

end Marwood.Transform
