import Marwood.Lemmas.CompileCorrect3Pres
/-!
# T01.3 stage 3 — the laws are satisfiable: a small heap on which every field of `Laws3` is a theorem

`THeap`: an immutable table of code objects (address = index; bytecode, arity, the sources of the environment
map), a growing table of lexical environments, a growing table of value cells (immediates, pairs, closures) and
the global slots. Allocation never reuses an address (no collector here — GC transparency is C03's subject).
Differences to the stage-2 toy heap: `put` ALLOCATES a cell and returns a pointer to it (VARARG does
`asPtr (put v)`), values are observed through one level of pointer (`deref`), and ENTER leaves the slots of
internal definitions `Undefined`. Values: booleans, `()`, void, small integers (tag `n<decimal>`), closed under
heap pairs. The only builtin is `apply` (the immediate `.builtin id`, kind `.apply`; it is not a represented value:
the machine re-dispatches it, `CompileCorrect3Apply.lean`), so the `call` law (first-order builtins) is vacuous and
every other law is proved. A closure is a procedure only behind a pointer (`tCallee_ptr`). A global slot that holds
a builtin is read-only; the heap invariant `SRx` of `tD3g g` says that the builtin slots of `g` are still there
(`tD3 = tD3g #[]`: no such slot) and that every recorded closure environment exists. `envOK h e`: CLOSURE built `e`
(the ghost list `cenvs`); nothing writes into such an environment (`Ext3.undefOK`). The laws: `CompileCorrect3ToyLaws.lean`.
-/
namespace Marwood.Lemmas.CompileCorrect3.Toy
open Marwood Marwood.Vm Marwood.Lemmas.CompileCorrect Marwood.Lemmas.CompileCorrect2
  Marwood.Lemmas.CompileCorrect3
open Marwood.Spec.Eval (Val Cell)

structure TLam where
  bc : List VCell
  nargs : Nat
  srcs : List RSrc

structure THeap where
  lams : List TLam
  envs : Array (List VCell)
  /-- value cells: immediates, `.pair a d`, `.closure lam env` -/
  cells : Array VCell
  globals : Array VCell
  /-- ghost: the environments CLOSURE built (nothing reads it) -/
  cenvs : List Nat := []

def tEnvGet (h : THeap) (e k : Nat) : Option VCell := (h.envs[e]?).bind (·[k]?)

/-- `heap.get`: one level of pointer; a dangling pointer shows `Undefined` -/
def tDeref (h : THeap) : VCell → VCell
  | .ptr p => h.cells[p]?.getD .undefined
  | v => v

def tCalleeCell : VCell → Callee
  | .closure l e => .closure l e
  | _ => .other

/-- a closure is a procedure only behind a pointer; the builtins are immediate -/
def tCallee (h : THeap) : VCell → Callee
  | .ptr p => tCalleeCell (tDeref h (.ptr p))
  | .builtin id => .builtin id
  | _ => .other

def isBuiltinCell : VCell → Bool
  | .builtin _ => true
  | _ => false

def tCloSlot (h : THeap) (ep : Nat) : RSrc → VCell
  | .iofEnv k => match tEnvGet h ep k with
    | some (.lexEnvPtr e n) => .lexEnvPtr e n
    | _ => .lexEnvPtr ep k
  | _ => .undefined

/-- ENTER: the slot of an internal definition is `Undefined` -/
def tActSlot (cenv bp nargs : Nat) (st : Stack) (olds : List VCell) (j : Nat) : RSrc → VCell
  | .arg i => st.cells[bp - (nargs - i) + 1]?.getD .undefined
  | .iofEnv _ => actCaptured cenv j olds[j]?
  | .iofArg _ => actCaptured cenv j olds[j]?
  | .internal => .undefined

/-- a new value cell -/
def tAlloc (h : THeap) (c : VCell) : THeap := { h with cells := h.cells.push c }

/-- `heap.put`: a pointer is returned as it is, anything else is allocated -/
def tPut (h : THeap) : VCell → THeap × VCell
  | .ptr p => (h, .ptr p)
  | v => (tAlloc h v, .ptr h.cells.size)

def tops : HeapOps THeap where
  fetch h l o := (h.lams[l]?).bind (·.bc[o]?)
  isLambda h l := (h.lams[l]?).isSome
  callee := tCallee
  lambdaInfo h l := (h.lams[l]?).map fun t => ⟨t.nargs⟩
  deref := tDeref
  getAt h p := h.cells[p]?.getD .undefined
  setAt h _ _ := h
  put := tPut
  maybePut := tPut
  newCont h _ := (h, .undefined)
  globGet h n := h.globals[n]?.getD .undefined
  globPut h n v := if isBuiltinCell (h.globals[n]?.getD .undefined) then h
    else { h with globals := h.globals.setIfInBounds n v }
  envGet := tEnvGet
  envPut h e k v := match h.envs[e]? with
    | some ss => if k < ss.length then some { h with envs := h.envs.setIfInBounds e (ss.set k v) } else none
    | none => none
  makeClosure h lam ep _ _ := match h.lams[lam]? with
    | none => .err .expectedType
    | some t =>
      .ok ({ h with envs := h.envs.push (t.srcs.map (tCloSlot h ep)),
                    cells := h.cells.push (.closure lam h.envs.size),
                    cenvs := h.envs.size :: h.cenvs },
           .ptr h.cells.size)
  makeActivation h lam cenv bp st := match h.lams[lam]? with
    | some t =>
      .ok ({ h with envs := h.envs.push (t.srcs.zipIdx.map fun (src, j) =>
                      tActSlot cenv bp t.nargs st ((h.envs[cenv]?).getD []) j src) },
           h.envs.size)
    | none => .err .expectedType
  vectorPush _ _ _ := .err .expectedType
  builtinKind _ _ := .apply
  builtinEval _ _ _ := .err .invalidSyntax
  compileEval _ _ := .err .invalidSyntax
  isProcedure _ _ := false

/-- immediate values -/
def tVR (v : VCell) : Val → Prop
  | .bool b => v = .bool b
  | .nil => v = .nil
  | .void => v = .void
  | .int n => v = .opaque ("n" ++ toString n)
  | _ => False

/-- the base relation: an immediate, seen through one level of pointer -/
def tBase (h : THeap) (v : VCell) (w : Val) : Prop := tVR (tDeref h v) w

/-- immediate values, closed under heap pairs (there are no vectors) -/
abbrev tVRc3 (h : THeap) (S : Array Cell) (v : VCell) (w : Val) : Prop :=
  ClosedVR tops (fun _ _ => none) tBase h S v w

/-- the builtin slots of `g` still hold their builtins -/
def KeepB (g : Array VCell) (h : THeap) : Prop :=
  ∀ (n id : Nat), g[n]? = some (.builtin id) → h.globals[n]? = some (.builtin id)

theorem keepB_nil (h : THeap) : KeepB #[] h := by
  intro n id x; simp at x

theorem keepB_self (h : THeap) : KeepB h.globals h := fun _ _ x => x

def tD3g (g : Array VCell) (final : List LambdaM) : RepData2 tops :=
  { named := fun _ => False, slot := fun _ => 0, VR := tVRc3, vecElems := fun _ _ => none,
    SRx := fun h _ => KeepB g h ∧ ∀ e ∈ h.cenvs, e < h.envs.size, envOK := fun h e => e ∈ h.cenvs,
    lamSrcs := fun h l => (h.lams[l]?).map (·.srcs), LM := id, final := final,
    setG := fun _ => False }

/-- no builtin slot to keep -/
abbrev tD3 (final : List LambdaM) : RepData2 tops := tD3g #[] final

/-! ## observation through `deref`; cells are only appended -/

theorem tVR_undefined {w : Val} : ¬ tVR .undefined w := by
  intro hb
  cases w <;> simp only [tVR] at hb <;> cases hb

theorem tVR_envptr {a b : Nat} {w : Val} : ¬ tVR (.lexEnvPtr a b) w := by
  intro hb
  cases w <;> simp only [tVR] at hb <;> cases hb

theorem tCalleeCell_closure {c : VCell} {l e : Nat} (x : tCalleeCell c = .closure l e) : c = .closure l e := by
  cases c <;> first
    | (simp only [tCalleeCell] at x; cases x; rfl)
    | (simp only [tCalleeCell] at x; cases x)

/-- a closure value is a pointer -/
theorem tCallee_ptr {h : THeap} {v : VCell} {l e : Nat} (x : tops.callee h v = .closure l e) : ∃ p, v = .ptr p := by
  have x' : tCallee h v = .closure l e := x
  cases v <;> first
    | exact ⟨_, rfl⟩
    | (simp only [tCallee] at x'; cases x')

theorem callee_deref {h : THeap} {v : VCell} {l e : Nat} (x : tops.callee h v = .closure l e) :
    tDeref h v = .closure l e := by
  obtain ⟨p, rfl⟩ := tCallee_ptr x
  exact tCalleeCell_closure x

theorem callee_of_ptr {h : THeap} {p l e : Nat} (x : tDeref h (.ptr p) = .closure l e) :
    tops.callee h (.ptr p) = .closure l e := by
  show tCalleeCell (tDeref h (.ptr p)) = _
  rw [x]; rfl

theorem callee_builtin (h : THeap) (id : Nat) : tops.callee h (.builtin id) = .builtin id := rfl

/-- every cell of `h` is still there in `h'` -/
def CellsExt (h h' : THeap) : Prop := ∀ (p : Nat) (c : VCell), h.cells[p]? = some c → h'.cells[p]? = some c

theorem CellsExt.refl (h : THeap) : CellsExt h h := fun _ _ x => x

theorem tDeref_ext {h h' : THeap} (x : CellsExt h h') {v : VCell} (hn : tDeref h v ≠ .undefined) :
    tDeref h' v = tDeref h v := by
  cases v with
  | ptr p =>
    show h'.cells[p]?.getD .undefined = h.cells[p]?.getD .undefined
    cases hc : h.cells[p]? with
    | none =>
      exfalso; apply hn
      show h.cells[p]?.getD .undefined = _
      rw [hc]; rfl
    | some c => rw [x p c hc]
  | _ => rfl

theorem tDeref_pair_ext {h h' : THeap} (x : CellsExt h h') {v : VCell} {a d : Nat} (hp : tDeref h v = .pair a d) :
    tDeref h' v = .pair a d := by
  rw [tDeref_ext x (by rw [hp]; intro e; cases e), hp]

theorem tDeref_clos_ext {h h' : THeap} (x : CellsExt h h') {v : VCell} {l e : Nat}
    (hp : tDeref h v = .closure l e) : tDeref h' v = .closure l e := by
  rw [tDeref_ext x (by rw [hp]; intro e; cases e), hp]

theorem tBase_ext {h h' : THeap} (x : CellsExt h h') {v : VCell} {w : Val} (b : tBase h v w) : tBase h' v w := by
  unfold tBase at b ⊢
  by_cases hu : tDeref h v = .undefined
  · rw [hu] at b; exact absurd b tVR_undefined
  · rw [tDeref_ext x hu]; exact b

/-- the representation in a later heap -/
theorem tVRc3_heap {h h' : THeap} {S : Array Cell} {v : VCell} {w : Val} (x : CellsExt h h')
    (r : tVRc3 h S v w) : tVRc3 h' S v w :=
  ClosedVR.transport (ops := tops) (vecElems := fun _ _ => none) (base := tBase) (fun _ _ b => tBase_ext x b) (fun _ _ _ p => tDeref_pair_ext x p)
    (fun _ _ y => y) (fun _ _ y _ => y) r

/-- the representation in a later store -/
theorem tVRc3_move {h : THeap} {S S' : Array Cell} {v : VCell} {w : Val}
    (keep : ∀ (l : Nat) (c : Cell), S[l]? = some c → (∀ v, c ≠ .var v) → S'[l]? = some c)
    (r : tVRc3 h S v w) : tVRc3 h S' v w :=
  ClosedVR.transport (ops := tops) (vecElems := fun _ _ => none) (base := tBase) (fun _ _ b => b) (fun _ _ _ p => p) (fun _ _ y => y) keep r

theorem tCloSlot_eq (h : THeap) (ep : Nat) (src : RSrc) : tCloSlot h ep src = cloSlot tops h ep src := by
  cases src <;> rfl

/-! ## convenience for demos: what represents an immediate -/

theorem tVRc3_int {h : THeap} {S : Array Cell} {v : VCell} {n : Int} (x : tVRc3 h S v (.int n)) :
    tDeref h v = .opaque ("n" ++ toString n) := by
  cases x with
  | base hb => exact hb

theorem tVRc3_bool {h : THeap} {S : Array Cell} {v : VCell} {b : Bool} (x : tVRc3 h S v (.bool b)) :
    tDeref h v = .bool b := by
  cases x with
  | base hb => exact hb

theorem tVRc3_nil {h : THeap} {S : Array Cell} {v : VCell} (x : tVRc3 h S v .nil) : tDeref h v = .nil := by
  cases x with
  | base hb => exact hb

theorem tVRc3_of_int {h : THeap} {S : Array Cell} {v : VCell} {n : Int}
    (x : tDeref h v = .opaque ("n" ++ toString n)) : tVRc3 h S v (.int n) := .base x

theorem tVR3_int {g : Array VCell} {final : List LambdaM} {W : World} {h : THeap} {S : Array Cell} {v : VCell} {n : Int}
    (x : VR3 (tD3g g final) W h S v (.int n)) : tDeref h v = .opaque ("n" ++ toString n) := by
  cases x with
  | base hb => exact tVRc3_int hb

theorem tVR3_bool {g : Array VCell} {final : List LambdaM} {W : World} {h : THeap} {S : Array Cell} {v : VCell} {b : Bool}
    (x : VR3 (tD3g g final) W h S v (.bool b)) : tDeref h v = .bool b := by
  cases x with
  | base hb => exact tVRc3_bool hb

/-- a heap pair as the machine sees a represented store pair -/
theorem tVR3_pair {g : Array VCell} {final : List LambdaM} {W : World} {h : THeap} {S : Array Cell} {v : VCell} {l : Nat}
    (x : VR3 (tD3g g final) W h S v (.pair l)) :
    ∃ a d pa pd, S[l]? = some (.pair a d) ∧ tDeref h v = .pair pa pd ∧
      VR3 (tD3g g final) W h S (.ptr pa) a ∧ VR3 (tD3g g final) W h S (.ptr pd) d := by
  cases x with
  | base hb =>
    cases hb with
    | base hb' => cases hb'
    | pair hs hd h1 h2 => exact ⟨_, _, _, _, hs, hd, .base h1, .base h2⟩
  | pair hs hd h1 h2 => exact ⟨_, _, _, _, hs, hd, h1, h2⟩

/-! ## heap steps -/

theorem tEnvGet_some_lt' {h : THeap} {e k : Nat} {v : VCell} (hv : tEnvGet h e k = some v) : e < h.envs.size := by
  rcases Nat.lt_or_ge e h.envs.size with h1 | h1
  · exact h1
  · simp [tEnvGet, Array.getElem?_eq_none h1] at hv

/-- a step that leaves code alone and keeps the value cells -/
theorem ext_gen (g : Array VCell) (final : List LambdaM) (h h' : THeap) (S : Array Cell) (hl : h'.lams = h.lams)
    (hc : CellsExt h h')
    (hp : ∀ e k a b, tEnvGet h e k = some (.lexEnvPtr a b) → tEnvGet h' e k = some (.lexEnvPtr a b))
    (hv : ∀ e k v, tEnvGet h e k = some v → isEnvPtr v = false → ∃ v', tEnvGet h' e k = some v' ∧ isEnvPtr v' = false)
    (hi : ∀ e k, InitM tops h e k → InitM tops h' e k)
    (hco : ∀ e, e ∈ h.cenvs → e ∈ h'.cenvs) (hcb : ∀ e, e ∈ h'.cenvs → e ∈ h.cenvs ∨ h.envs.size ≤ e)
    (hu : ∀ e k, e ∈ h.cenvs → tEnvGet h e k = some .undefined → tEnvGet h' e k = some .undefined) :
    Ext3 (tD3g g final) h S h' S := by
  refine ⟨⟨StoreExt.refl _, fun _ _ x => tVRc3_heap hc x,
    fun _ _ x => DatumAt.transport (D := (tD3g g final).toRepData) (vecElems := (tD3g g final).vecElems) (h := h) (h' := h')
      (S := S) (S' := S) (fun _ _ y => tVRc3_heap hc y) (fun _ _ _ y => tDeref_pair_ext hc y) (fun _ _ y => y) x,
    fun l x => ?_, fun v l e x => ?_, hco, hp, hv⟩, fun _ _ _ y => tDeref_pair_ext hc y, hi, hu, fun e k v x y => ?_⟩
  · show (h'.lams[l]?).isSome = true ∧ (∀ o, (h'.lams[l]?).bind _ = (h.lams[l]?).bind _) ∧
      (h'.lams[l]?).map _ = (h.lams[l]?).map _ ∧ (h'.lams[l]?).map _ = (h.lams[l]?).map _
    rw [hl]
    exact ⟨x, fun _ => rfl, rfl, rfl⟩
  · obtain ⟨p, rfl⟩ := tCallee_ptr x
    exact callee_of_ptr (tDeref_clos_ext hc (callee_deref x))
  · rcases hcb e y with h1 | h1
    · exact h1
    · exact absurd (tEnvGet_some_lt' x) (Nat.not_lt.mpr h1)

/-- … and every environment slot -/
theorem ext_frame (g : Array VCell) (final : List LambdaM) (h h' : THeap) (S : Array Cell) (hl : h'.lams = h.lams)
    (hc : CellsExt h h') (he : ∀ e k v, tEnvGet h e k = some v → tEnvGet h' e k = some v)
    (hco : ∀ e, e ∈ h.cenvs → e ∈ h'.cenvs) (hcb : ∀ e, e ∈ h'.cenvs → e ∈ h.cenvs ∨ h.envs.size ≤ e) :
    Ext3 (tD3g g final) h S h' S := by
  refine ext_gen g final h h' S hl hc (fun e k a b x => he _ _ _ x) (fun e k v x y => ⟨v, he _ _ _ x, y⟩) ?_ hco hcb
    (fun e k _ x => he _ _ _ x)
  intro e k ⟨v, x, y, z⟩
  exact ⟨v, he _ _ _ x, y, z⟩

theorem push_old {α : Type} (a : Array α) (x : α) (i : Nat) (v : α) (h : a[i]? = some v) :
    (a.push x)[i]? = some v := by
  have hlt : i < a.size := by
    rcases Nat.lt_or_ge i a.size with h1 | h1
    · exact h1
    · simp [Array.getElem?_eq_none h1] at h
  simp [Array.getElem?_push, Nat.ne_of_lt hlt, h]

theorem push_ne {α : Type} (a : Array α) (x : α) (i : Nat) (h : i ≠ a.size) : (a.push x)[i]? = a[i]? := by
  simp [Array.getElem?_push, h]

theorem tEnvGet_push_ne (h : THeap) (ss : List VCell) (c : Array VCell) (cs : List Nat) (e k : Nat)
    (he : e ≠ h.envs.size) : tEnvGet { h with envs := h.envs.push ss, cells := c, cenvs := cs } e k = tEnvGet h e k := by
  unfold tEnvGet
  show ((h.envs.push ss)[e]?).bind _ = _
  rw [push_ne _ _ _ he]

theorem tEnvGet_fresh (h : THeap) (k : Nat) : tEnvGet h h.envs.size k = none := by
  unfold tEnvGet
  simp

theorem tEnvGet_some_lt {h : THeap} {e k : Nat} {v : VCell} (hv : tEnvGet h e k = some v) : e ≠ h.envs.size := by
  intro e0; subst e0
  rw [tEnvGet_fresh] at hv; cases hv

theorem cellsExt_alloc (h : THeap) (c : VCell) : CellsExt h (tAlloc h c) := fun _ _ x => push_old _ _ _ _ x

theorem tDeref_alloc (h : THeap) (c : VCell) : tDeref (tAlloc h c) (.ptr h.cells.size) = c := by
  show (h.cells.push c)[h.cells.size]?.getD .undefined = c
  simp

/-- allocation of a value cell -/
theorem step_alloc (g : Array VCell) (final : List LambdaM) (h : THeap) (S : Array Cell) (c : VCell)
    (hs : (tD3g g final).SRx h S) : Step3 (tD3g g final) h S (tAlloc h c) :=
  ⟨ext_frame g final h _ S rfl (cellsExt_alloc h c) (fun _ _ _ x => x) (fun _ x => x) (fun _ x => .inl x), hs,
    fun _ _ => rfl, fun _ => rfl⟩

theorem step_refl (g : Array VCell) (final : List LambdaM) (h : THeap) (S : Array Cell)
    (hs : (tD3g g final).SRx h S) :
    Step3 (tD3g g final) h S h :=
  ⟨Ext3.refl h S, hs, fun _ _ => rfl, fun _ => rfl⟩

/-- `put`: either the value is a pointer, or it is its own `deref` in every heap and a cell is allocated -/
theorem tPut_cases (h : THeap) (v : VCell) :
    (∃ p, v = .ptr p ∧ tPut h v = (h, .ptr p)) ∨
    ((∀ h', tDeref h' v = v) ∧ (∀ p, v ≠ .ptr p) ∧ tPut h v = (tAlloc h v, .ptr h.cells.size)) := by
  cases v <;> first
    | exact .inr ⟨fun _ => rfl, (by intro p e; cases e), rfl⟩
    | exact .inl ⟨_, rfl, rfl⟩

end Marwood.Lemmas.CompileCorrect3.Toy
