import Marwood.Lemmas.GcSafety
/-!
# Heap well-formedness is preserved by a collection and by growth (T03.3, collector part)
-/
namespace Marwood.Lemmas.HeapWF
open Marwood Marwood.Heap Marwood.Spec Marwood.Lemmas.GcMark Marwood.Lemmas.GcSweep
open Marwood.Lemmas.HeapOps Marwood.Lemmas.GcSafety
open Classical

theorem children_congr (fixed : Bool) (h h' : Heap) (i : Nat) (hc : h'.cells[i]? = h.cells[i]?) :
    h'.children fixed i = h.children fixed i := by
  unfold Heap.children; rw [hc]

theorem lt_of_getElem?_eq_some {α} {a : Array α} {i : Nat} {v : α} (h : a[i]? = some v) : i < a.size := by
  rcases Array.getElem?_eq_some_iff.mp h with ⟨hlt, _⟩; exact hlt

theorem nonFree_lt {h : Heap} {i : Nat} (hn : h.NonFree i) : i < h.gc.size := by
  rcases hn with hn | hn <;> exact lt_of_getElem?_eq_some hn

theorem not_sentinel_of_lt {h : Heap} {fixed} (wf : WFCore fixed h) {y : Nat} (hy : y < h.gc.size) : ¬ Sentinel y := by
  unfold Sentinel
  have := wf.bound
  have := wf.sizes
  omega

/-- everything the marker can reach from good roots is allocated -/
theorem reachable_nonFree (fixed : Bool) (h : Heap) (roots : List Nat) (wf : WFCore fixed h)
    (hr : RootsOk h roots) : ∀ x, Reachable fixed h roots x → h.NonFree x := by
  intro x hx
  induction hx with
  | root hm hl =>
    rcases hr _ hm with h1 | h1
    · exact h1
    · exact absurd h1 (not_sentinel_of_lt wf hl)
  | step _ hc hl ih =>
    rcases wf.closed _ ih _ hc with h1 | h1
    · exact h1
    · exact absurd h1 (not_sentinel_of_lt wf hl)

theorem nodup_reverse {l : List Nat} (h : l.Nodup) : l.reverse.Nodup := by
  unfold List.Nodup at *; rw [List.pairwise_reverse]; exact h.imp (fun h => h.symm)

/-- T03.3 for `mark; sweep` -/
theorem collect_wf (fixed : Bool) (h : Heap) (roots : List Nat) (h2 : Heap)
    (wf : WFHeap fixed h) (hr : RootsOk h roots) (cs : CollectSpec fixed h roots h2) :
    WFHeap fixed h2 := by
  have hsz := wf.sizes
  have hnf := reachable_nonFree fixed h roots wf.toWFCore hr
  -- under `no_used`, NonFree = Allocated
  have halloc : ∀ x, h.NonFree x → h.gc[x]? = some GcState.allocated := by
    intro x hx
    rcases hx with hx | hx
    · exact hx
    · exact absurd hx (wf.no_used x)
  -- state after the collection, by cases
  have hstate : ∀ x : Nat, h2.gc[x]? =
      if Reachable fixed h roots x then some GcState.allocated
      else if x < h.gc.size then some GcState.free else none := by
    intro x
    by_cases hrx : Reachable fixed h roots x
    · simp [hrx, cs.gc_reach x hrx]
    · by_cases hx : x < h.gc.size
      · simp [hrx, hx, cs.gc_unreach x hx hrx]
      · simp only [hrx, hx, if_false]
        exact Array.getElem?_eq_none (by rw [cs.gcsize]; omega)
  have hnf2 : ∀ x, h2.NonFree x ↔ Reachable fixed h roots x := by
    intro x
    unfold Heap.NonFree
    rw [hstate x]
    by_cases hrx : Reachable fixed h roots x
    · simp [hrx]
    · by_cases hx : x < h.gc.size <;> simp [hrx, hx]
  have hfree2 : ∀ x : Nat, h2.gc[x]? = some GcState.free ↔ (x < h.gc.size ∧ ¬ Reachable fixed h roots x) := by
    intro x
    rw [hstate x]
    by_cases hrx : Reachable fixed h roots x
    · simp [hrx]
    · by_cases hx : x < h.gc.size <;> simp [hrx, hx]
  refine ⟨⟨by rw [cs.gcsize, cs.csize]; exact hsz, ?_, by rw [cs.csize]; exact wf.bound, ?_, ?_, ?_, ?_, ?_⟩, ?_⟩
  · obtain ⟨a, b, k, hk, hk2⟩ := wf.shape
    exact ⟨by rw [cs.chunk]; exact a, by rw [cs.chunk]; exact b, k, hk, by rw [cs.csize, cs.chunk]; exact hk2⟩
  · -- free list ⇔ state Free
    intro i
    rw [cs.free, hfree2 i, List.mem_append, List.mem_reverse, List.mem_filter, List.mem_range, wf.free_iff i]
    constructor
    · rintro (⟨h1, h2'⟩ | h1)
      · simp only [decide_eq_true_eq] at h2'
        exact ⟨by omega, h2'.2⟩
      · refine ⟨lt_of_getElem?_eq_some h1, ?_⟩
        intro hrx
        have := halloc i (hnf i hrx)
        rw [h1] at this; cases this
    · rintro ⟨h1, h2'⟩
      have hne := wf.no_used i
      rw [Array.getElem?_eq_getElem h1] at hne ⊢
      cases hg : h.gc[i] with
      | free => right; rfl
      | allocated =>
        left
        refine ⟨by omega, ?_⟩
        simp only [decide_eq_true_eq]
        exact ⟨by simp, h2'⟩
      | used => rw [hg] at hne; exact absurd rfl hne
  · -- no duplicates
    rw [cs.free, List.nodup_append]
    refine ⟨nodup_reverse (List.nodup_range.sublist List.filter_sublist), wf.nodup, ?_⟩
    intro a ha b hb hab
    subst hab
    rw [List.mem_reverse, List.mem_filter] at ha
    simp only [decide_eq_true_eq] at ha
    have := (wf.free_iff a).mp hb
    rw [ha.2.1] at this; cases this
  · -- free cells are Undefined
    intro i hi
    have ⟨h1, h2'⟩ := (hfree2 i).mp hi
    rw [cs.cells_unreach i h2']
    split
    · rfl
    · rename_i hna
      have hne := wf.no_used i
      have : h.gc[i]? = some GcState.free := by
        rw [Array.getElem?_eq_getElem h1] at hne hna ⊢
        cases hg : h.gc[i] <;> simp_all
      exact wf.free_undef i this
  · -- Interned
    intro name i
    rw [cs.sym name]
    constructor
    · intro hl
      split at hl
      · cases hl
      · rename_i hnex
        have ⟨hc, hn⟩ := (wf.interned name i).mp hl
        have hri : Reachable fixed h roots i := by
          apply Classical.byContradiction
          intro hnr
          exact hnex ⟨i, halloc i hn, hnr, hc⟩
        exact ⟨by rw [cs.cells_reach i hri]; exact hc, (hnf2 i).mpr hri⟩
    · rintro ⟨hc, hn⟩
      have hri := (hnf2 i).mp hn
      rw [cs.cells_reach i hri] at hc
      have hl := (wf.interned name i).mpr ⟨hc, hnf i hri⟩
      split
      · rename_i hex
        obtain ⟨j, hj1, hj2, hj3⟩ := hex
        have hlj := (wf.interned name j).mpr ⟨hj3, Or.inl hj1⟩
        rw [hl] at hlj
        cases hlj
        exact absurd hri hj2
      · exact hl
  · -- PtrClosed: children of survivors survive
    intro i hi y hy
    have hri := (hnf2 i).mp hi
    rw [children_congr fixed h h2 i (cs.cells_reach i hri)] at hy
    rcases wf.closed i (hnf i hri) y hy with h1 | h1
    · left
      exact (hnf2 y).mpr (Reach.step hri hy (nonFree_lt h1))
    · exact Or.inr h1
  · intro i
    rw [hstate i]
    by_cases hrx : Reachable fixed h roots i
    · simp [hrx]
    · by_cases hx : i < h.gc.size <;> simp [hrx, hx]

/-- T03.3 for `grow` -/
theorem grow_wf (fixed : Bool) (h h' : Heap) (wf : WFHeap fixed h) (g : GrowSpec h h') (hs' : Shape h')
    (hb : h'.cells.size ≤ 2 ^ 63) : WFHeap fixed h' := by
  obtain ⟨g1, g2, g3⟩ := grow_get h h' wf.sizes g
  have hlt := g.lt
  have hnf : ∀ x, h'.NonFree x ↔ h.NonFree x := by
    intro x
    unfold Heap.NonFree
    by_cases hx : x < h.cells.size
    · rw [(g1 x hx).2]
    · have hn : h.gc[x]? = none := Array.getElem?_eq_none (by rw [wf.sizes]; omega)
      by_cases hx' : x < h'.cells.size
      · rw [(g2 x (by omega) hx').2, hn]; simp
      · rw [Array.getElem?_eq_none (by rw [g3]; omega), hn]
  have hfree : ∀ x : Nat, h'.gc[x]? = some GcState.free ↔
      (h.gc[x]? = some GcState.free ∨ (h.cells.size ≤ x ∧ x < h'.cells.size)) := by
    intro x
    by_cases hx : x < h.cells.size
    · rw [(g1 x hx).2]
      constructor
      · exact Or.inl
      · rintro (h1 | h1)
        · exact h1
        · omega
    · have hn : h.gc[x]? = none := Array.getElem?_eq_none (by rw [wf.sizes]; omega)
      by_cases hx' : x < h'.cells.size
      · rw [(g2 x (by omega) hx').2, hn]; simp; omega
      · rw [Array.getElem?_eq_none (by rw [g3]; omega), hn]; simp; omega
  refine ⟨⟨g3, hs', hb, ?_, ?_, ?_, ?_, ?_⟩, ?_⟩
  · intro i
    rw [g.free, hfree i, List.mem_append, List.mem_reverse, List.mem_range'_1, wf.free_iff i]
    constructor
    · rintro (h1 | h1)
      · right; omega
      · exact Or.inl h1
    · rintro (h1 | h1)
      · exact Or.inr h1
      · left; omega
  · rw [g.free, List.nodup_append]
    refine ⟨nodup_reverse (List.nodup_range' (step := 1)), wf.nodup, ?_⟩
    intro a ha b hb' hab
    subst hab
    rw [List.mem_reverse, List.mem_range'_1] at ha
    have := lt_of_getElem?_eq_some ((wf.free_iff a).mp hb')
    have := wf.sizes
    omega
  · intro i hi
    rcases (hfree i).mp hi with h1 | ⟨h1, h2⟩
    · have hx : i < h.cells.size := by
        have := lt_of_getElem?_eq_some h1; have := wf.sizes; omega
      rw [(g1 i hx).1]; exact wf.free_undef i h1
    · exact (g2 i h1 h2).1
  · intro name i
    have : h'.symLookup name = h.symLookup name := by simp [Heap.symLookup, g.symtab]
    rw [this, wf.interned name i]
    unfold Heap.AllocSym
    rw [hnf i]
    constructor
    · rintro ⟨h1, h2⟩
      have hx : i < h.cells.size := lt_of_getElem?_eq_some h1
      exact ⟨by rw [(g1 i hx).1]; exact h1, h2⟩
    · rintro ⟨h1, h2⟩
      have hx : i < h.cells.size := by
        have := nonFree_lt h2; have := wf.sizes; omega
      exact ⟨by rw [← (g1 i hx).1]; exact h1, h2⟩
  · intro i hi y hy
    have hi' := (hnf i).mp hi
    have hx : i < h.cells.size := by
      have := nonFree_lt hi'; have := wf.sizes; omega
    rw [children_congr fixed h h' i (g1 i hx).1] at hy
    rcases wf.closed i hi' y hy with h1 | h1
    · exact Or.inl ((hnf y).mpr h1)
    · exact Or.inr h1
  · intro i
    by_cases hx : i < h.cells.size
    · rw [(g1 i hx).2]; exact wf.no_used i
    · by_cases hx' : i < h'.cells.size
      · rw [(g2 i (by omega) hx').2]; simp
      · rw [Array.getElem?_eq_none (by rw [g3]; omega)]; simp

/-- **T03.3 (collector)**: `run_gc` preserves heap well-formedness -/
theorem runGc_wf (fixed force : Bool) (h : Heap) (r : Roots) (h' : Heap)
    (wf : WFHeap fixed h) (hr : RootsOk h (r.refs fixed)) (hb : h'.cells.size ≤ 2 ^ 63)
    (hrun : Heap.runGc fixed force h r = .ok (.collected h')) : WFHeap fixed h' := by
  rcases runGc_inv fixed force h r _ hrun with h1 | ⟨h1, _⟩ | ⟨h1, h2, h'', he, hm, hsw, hg⟩
  · cases h1
  · cases h1
  · cases he
    obtain ⟨k1, k2, hm', hsw', cs⟩ := collect_spec fixed h (r.refs fixed) wf.sizes wf.no_used
    rw [hm] at hm'; cases hm'
    rw [hsw] at hsw'; cases hsw'
    have wf2 := collect_wf fixed h (r.refs fixed) h2 wf hr cs
    rcases hg with hg | hg
    · subst hg; exact wf2
    · obtain ⟨h3, hg3, gs, hs3⟩ := grow_spec h2 wf2.sizes wf2.shape
      rw [hg] at hg3; cases hg3
      exact grow_wf fixed h2 h' wf2 gs hs3 hb

end Marwood.Lemmas.HeapWF
