import Marwood.Lemmas.StackWFTCall
/-!
# Preservation of WF-stack by `step`, one lemma per opcode
-/
namespace Marwood.Vm
open Verify Stack

variable {H : Type} {ops : HeapOps H}

@[simp] theorem outcome_bind_ok {α β : Type} (a : α) (f : α → Outcome β) : (Outcome.ok a >>= f) = f a := rfl

/-- a WF state about to execute `op`: the verified typing of the current code object, the abstract
    state at the current offset, and the local check the verifier made there -/
structure AtInstr (cl : CodeLaws ops) (s : St H) (K : List FDesc) (t : LamTy) (st : AState) (op : Op) : Prop where
  hw : WFS cl s K
  ht : tyOf (cl.code s.heap) s.ipL = some t
  hst : stateAt t.tm s.ipO = some st
  chk : checkOp t.bc t.tm t.entry s.ipO st op = true
  fetch : ∀ k, ops.fetch s.heap s.ipL k = t.bc[k]?
  src : bpSrcOk t.entry t.bc[s.ipO + 1]? = true

theorem WFS.instr {cl : CodeLaws ops} {s s1 : St H} {K : List FDesc} {op : Op} (hw : WFS cl s K)
    (hr : readOpcode ops s = .ok (op, s1)) :
    ∃ t st, AtInstr cl s K t st op ∧ s1 = { s with ipO := s.ipO + 1 } := by
  obtain ⟨hf, e1⟩ := readOpcode_ok hr
  obtain ⟨t, st, ht, hst⟩ := hw.wf.frames.has_ty
  obtain ⟨hcode, hchk⟩ := tyOf_spec ht
  have hfetch := cl.fetch_code hw.inv hcode
  rw [hfetch] at hf
  exact ⟨t, st, ⟨hw, ht, hst, check_of_fetch hchk hf hst, hfetch, src_of_fetch hchk hf hst⟩, e1⟩

/-- the typing of a code object is the same in a later heap -/
theorem ty_unique {cl : CodeLaws ops} {h h' : H} (hext : Ext cl h h') {l : Nat} {t t' : LamTy}
    (ht : tyOf (cl.code h) l = some t) (ht' : tyOf (cl.code h') l = some t') : t' = t := by
  have := hext.ty l t ht
  rw [ht'] at this
  exact Option.some.inj this

/-- the `pre` clause of `WFS` is vacuous at an instruction that is not a prologue instruction -/
theorem pre_vacuous {cl : CodeLaws ops} {h : H} {s' : St H} (hext : Ext cl h s'.heap) {t : LamTy} {st' : AState}
    (ht : tyOf (cl.code h) s'.ipL = some t) (hst' : stateAt t.tm s'.ipO = some st') (hne : st' ≠ .pre) :
    ∀ t2 n, tyOf (cl.code s'.heap) s'.ipL = some t2 → stateAt t2.tm s'.ipO = some .pre →
      s'.stack.cellAt (s'.stack.sp - 2) = .argc n →
      argNeed t2.bc ≤ n ∨ enterLam ops s'.heap s'.acc = some s'.ipL := by
  intro t2 n ht2 hpre _
  have := ty_unique hext ht ht2
  subst this
  rw [hst'] at hpre
  exact absurd (Option.some.inj hpre) hne

theorem MatchSt.ne_pre {V : VCell → Prop} {st : AState} {f : Nat → VCell} {top lo : Nat}
    (h : MatchSt V st f top lo) : st ≠ .pre := by
  intro e; subst e; exact h

/-- rebuild the current (non-prologue) frame with new temporaries, a later heap, a new offset -/
theorem WFS.retop {cl : CodeLaws ops} {s : St H} {K : List FDesc} {t : LamTy} {st : AState}
    (hw : WFS cl s K) (ht : tyOf (cl.code s.heap) s.ipL = some t)
    (hst : stateAt t.tm s.ipO = some st) (hne : st ≠ .pre) :
    ∃ lo, MatchSt cl.Val st s.stack.cellAt s.stack.sp lo ∧ (t.entry = true → lo = cl.e) ∧
      (t.entry = false → lo = s.bp + 4) ∧
      ∀ (s' : St H) (st' : AState), Ext cl s.heap s'.heap → s'.bp = s.bp → s'.ipL = s.ipL →
        s'.stack.sp < s'.stack.cells.length →
        (∀ i, i ≤ lo → s'.stack.cellAt i = s.stack.cellAt i) → cl.Val s'.acc →
        stateAt t.tm s'.ipO = some st' → MatchSt cl.Val st' s'.stack.cellAt s'.stack.sp lo → WFS cl s' K := by
  obtain ⟨lo, h1, h2, h3, h4⟩ := hw.wf.frames.inv_body ht hst hne
  refine ⟨lo, h1, h2, h3, ?_⟩
  intro s' st' hext hbp hl hcap hcells hacc hst' hm
  refine ⟨hext.inv, ⟨hcap, ?_⟩, hacc, pre_vacuous hext (by rw [hl]; exact ht) hst' hm.ne_pre⟩
  rw [hbp, hl]
  exact (h4 s'.stack.cellAt s'.stack.sp s'.ipO st' hcells hst' hm).mono hext.ty

/-! ## generic rebuilds: same stack, one push, `k` pops -/

theorem retop_same {cl : CodeLaws ops} {s : St H} {K : List FDesc} {t : LamTy} {x : List ACell}
    (hw : WFS cl s K) (ht : tyOf (cl.code s.heap) s.ipL = some t)
    (hst : stateAt t.tm s.ipO = some (.body x)) (s' : St H) (hstack : s'.stack = s.stack)
    (hbp : s'.bp = s.bp) (hl : s'.ipL = s.ipL)
    (hfl : flowsTo x (stateAt t.tm s'.ipO) = true) (hext : Ext cl s.heap s'.heap)
    (hacc : cl.Val s'.acc) : WFS cl s' K := by
  obtain ⟨lo, hm, _, _, hre⟩ := hw.retop ht hst (by simp)
  obtain ⟨st', hst', hm'⟩ := flowsTo_sound hfl hm
  refine hre _ st' hext hbp hl (by rw [hstack]; exact hw.wf.cap) (fun _ _ => by rw [hstack]) hacc hst'
    (by rw [hstack]; exact hm')

theorem retop_push {cl : CodeLaws ops} {s : St H} {K : List FDesc} {t : LamTy} {x : List ACell}
    (hw : WFS cl s K) (ht : tyOf (cl.code s.heap) s.ipL = some t)
    (hst : stateAt t.tm s.ipO = some (.body x)) {ty : ACell} {v : VCell} (hv : cellOk cl.Val ty v)
    (s' : St H) (hstack : s'.stack = s.stack.push v) (hbp : s'.bp = s.bp) (hl : s'.ipL = s.ipL)
    (hfl : flowsTo (ty :: x) (stateAt t.tm s'.ipO) = true) (hext : Ext cl s.heap s'.heap)
    (hacc : cl.Val s'.acc) : WFS cl s' K := by
  obtain ⟨lo, hm, _, _, hre⟩ := hw.retop ht hst (by simp)
  have hlo : lo ≤ s.stack.sp := MatchSt.lo_le hm
  have hm2 : MatchAt cl.Val (ty :: x) (s.stack.push v).cellAt (s.stack.sp + 1) lo := by
    refine MatchAt.push hm ?_ ?_
    · intro i hi
      rw [push_cellAt]
      have : ¬ i = s.stack.sp + 1 := by omega
      simp [this]
    · rw [push_cellAt]; simpa using hv
  obtain ⟨st', hst', hm'⟩ := flowsTo_sound hfl hm2
  refine hre _ st' hext hbp hl (by rw [hstack]; exact push_sp_lt _ _) ?_ hacc hst'
    (by rw [hstack]; simpa using hm')
  intro i hi
  rw [hstack, push_cellAt]
  have : ¬ i = s.stack.sp + 1 := by omega
  simp [this]

theorem retop_drop {cl : CodeLaws ops} {s : St H} {K : List FDesc} {t : LamTy} {x : List ACell}
    (hw : WFS cl s K) (ht : tyOf (cl.code s.heap) s.ipL = some t)
    (hst : stateAt t.tm s.ipO = some (.body x)) {k : Nat} (hk : k ≤ x.length) (s' : St H)
    (hsp : s'.stack.sp + k = s.stack.sp) (hc : s'.stack.cells = s.stack.cells)
    (hbp : s'.bp = s.bp) (hl : s'.ipL = s.ipL)
    (hfl : flowsTo (x.drop k) (stateAt t.tm s'.ipO) = true) (hext : Ext cl s.heap s'.heap)
    (hacc : cl.Val s'.acc) : WFS cl s' K := by
  obtain ⟨lo, hm, _, _, hre⟩ := hw.retop ht hst (by simp)
  have hcell : ∀ i, s'.stack.cellAt i = s.stack.cellAt i := by intro i; unfold Stack.cellAt; rw [hc]
  have hm2 : MatchAt cl.Val (x.drop k) s'.stack.cellAt s'.stack.sp lo := by
    have := MatchAt.drop hm hk
    have e : s.stack.sp - k = s'.stack.sp := by omega
    rw [e] at this
    exact this.congr (fun i _ => hcell i)
  obtain ⟨st', hst', hm'⟩ := flowsTo_sound hfl hm2
  refine hre _ st' hext hbp hl ?_ (fun i _ => hcell i) hacc hst' hm'
  rw [hc]; have := hw.wf.cap; omega

/-- reading the operand that follows -/
theorem AtInstr.operand {cl : CodeLaws ops} {s s1 s2 : St H} {K : List FDesc} {t : LamTy} {st : AState}
    {op : Op} {v : VCell} (ai : AtInstr cl s K t st op) (k : Nat)
    (e1 : s1 = { s with ipO := s.ipO + k }) (hro : readOperand ops s1 = .ok (v, s2)) :
    t.bc[s.ipO + k]? = some v ∧ s2 = { s with ipO := s.ipO + k + 1 } := by
  obtain ⟨hf, e2⟩ := readOperand_ok hro
  subst e1
  simp only at hf e2
  rw [ai.fetch] at hf
  exact ⟨hf, e2⟩

/-- a bp-relative source operand of verified procedure code addresses an argument cell, which holds a value -/
theorem AtInstr.bp_val {cl : CodeLaws ops} {s : St H} {K : List FDesc} {t : LamTy} {x : List ACell} {op : Op}
    (ai : AtInstr cl s K t (.body x) op) {off : Int} (h : t.bc[s.ipO + 1]? = some (.bpOffset off))
    (h0 : 0 ≤ (s.bp : Int) + off) : cl.Val (s.stack.cellAt ((s.bp : Int) + off).toNat) := by
  have hs := ai.src
  rw [h] at hs
  simp only [bpSrcOk, Bool.and_eq_true, Bool.not_eq_true', decide_eq_true_eq] at hs
  obtain ⟨hent, hoff⟩ := hs
  obtain ⟨n, l', o', hA, _, hn, hnd, hav, _⟩ := ai.hw.wf.frames.inv_args ai.ht hent ai.hst (by simp)
  have := argNeed_ge h
  have e : ((s.bp : Int) + off).toNat = s.bp - (-off).toNat := by omega
  rw [e]
  exact hav _ (by omega) (by omega)

theorem pres_jmp {cl : CodeLaws ops} {s s1 s' : St H} {K : List FDesc} {t : LamTy} {st : AState} {b : Bool}
    (ai : AtInstr cl s K t st .jmp) (hr : readOpcode ops s = .ok (.jmp, s1))
    (hs : step ops s = .ok (s', b)) : WFS cl s' K := by
  have e1 := (readOpcode_ok hr).2
  unfold step at hs
  rw [hr] at hs
  simp only [outcome_bind_ok] at hs
  cases hro : readOperand ops s1 with
  | err e => rw [hro] at hs; cases hs
  | panic m => rw [hro] at hs; cases hs
  | ok r =>
    obtain ⟨v, s2⟩ := r
    rw [hro] at hs
    simp only [outcome_bind_ok] at hs
    obtain ⟨hf, e2⟩ := readOperand_ok hro
    subst e1
    cases v <;> simp only [asPtr, outcome_bind_ok] at hs <;> cases hs
    rename_i tgt
    subst e2
    have hf' := hf
    simp only at hf'
    rw [ai.fetch] at hf'
    have chk := ai.chk
    cases st <;> simp only [checkOp, hf'] at chk <;> try (exact absurd chk Bool.false_ne_true)
    rename_i x
    exact retop_same ai.hw ai.ht ai.hst _ rfl rfl rfl chk (Ext.refl ai.hw.inv) ai.hw.acc

theorem pres_jnt {cl : CodeLaws ops} {s s1 s' : St H} {K : List FDesc} {t : LamTy} {st : AState} {b : Bool}
    (ai : AtInstr cl s K t st .jnt) (hr : readOpcode ops s = .ok (.jnt, s1))
    (hs : step ops s = .ok (s', b)) : WFS cl s' K := by
  have e1 := (readOpcode_ok hr).2
  unfold step at hs
  rw [hr] at hs
  simp only [outcome_bind_ok] at hs
  cases hro : readOperand ops s1 with
  | err e => rw [hro] at hs; cases hs
  | panic m => rw [hro] at hs; cases hs
  | ok r =>
    obtain ⟨v, s2⟩ := r
    rw [hro] at hs
    obtain ⟨hf, e2⟩ := ai.operand 1 e1 hro
    subst e2
    have chk := ai.chk
    cases st <;> simp only [checkOp, hf] at chk <;> try (exact absurd chk Bool.false_ne_true)
    rename_i x
    cases v <;> simp only at chk <;> try (exact absurd chk Bool.false_ne_true)
    rename_i tgt
    simp only [Bool.and_eq_true] at chk
    simp only [asPtr, outcome_bind_ok] at hs
    split at hs
    · cases hs
      exact retop_same ai.hw ai.ht ai.hst _ rfl rfl rfl chk.1 (Ext.refl ai.hw.inv) ai.hw.acc
    · cases hs
      exact retop_same ai.hw ai.ht ai.hst _ rfl rfl rfl chk.2 (Ext.refl ai.hw.inv) ai.hw.acc

theorem pres_pushAcc {cl : CodeLaws ops} {s s1 s' : St H} {K : List FDesc} {t : LamTy} {st : AState} {b : Bool}
    (ai : AtInstr cl s K t st .pushAcc) (hr : readOpcode ops s = .ok (.pushAcc, s1))
    (hs : step ops s = .ok (s', b)) : WFS cl s' K := by
  have e1 := (readOpcode_ok hr).2
  unfold step at hs
  rw [hr] at hs
  simp only [outcome_bind_ok] at hs
  cases hs
  subst e1
  have chk := ai.chk
  cases st <;> simp only [checkOp] at chk <;> try (exact absurd chk Bool.false_ne_true)
  exact retop_push (v := s.acc) ai.hw ai.ht ai.hst (ty := .val) ai.hw.acc _ rfl rfl rfl chk (Ext.refl ai.hw.inv)
    ai.hw.acc

theorem pres_pushImm {cl : CodeLaws ops} {s s1 s' : St H} {K : List FDesc} {t : LamTy} {st : AState} {b : Bool}
    (ai : AtInstr cl s K t st .pushImm) (hr : readOpcode ops s = .ok (.pushImm, s1))
    (hs : step ops s = .ok (s', b)) : WFS cl s' K := by
  have e1 := (readOpcode_ok hr).2
  unfold step at hs
  rw [hr] at hs
  simp only [outcome_bind_ok] at hs
  cases hro : readOperand ops s1 with
  | err e => rw [hro] at hs; cases hs
  | panic m => rw [hro] at hs; cases hs
  | ok r =>
    obtain ⟨v, s2⟩ := r
    rw [hro] at hs
    obtain ⟨hf, e2⟩ := ai.operand 1 e1 hro
    subst e2
    simp only [outcome_bind_ok] at hs
    cases hs
    have chk := ai.chk
    cases st <;> simp only [checkOp, hf] at chk <;> try (exact absurd chk Bool.false_ne_true)
    refine retop_push (v := v) ai.hw ai.ht ai.hst (ty := cellTy v) ?_ _ rfl rfl rfl chk (Ext.refl ai.hw.inv)
      ai.hw.acc
    by_cases hv : ∃ n, v = .argc n
    · obtain ⟨n, rfl⟩ := hv
      exact ⟨rfl, cl.val_imm _ rfl⟩
    · have e : cellTy v = if isVal v then .val else .any := by
        cases v <;> first | rfl | exact absurd ⟨_, rfl⟩ hv
      rw [e]
      by_cases hiv : isVal v = true
      · simp only [hiv, if_true]; exact cl.val_imm _ hiv
      · simp only [hiv]; trivial

theorem pres_push {cl : CodeLaws ops} {s s1 s' : St H} {K : List FDesc} {t : LamTy} {st : AState} {b : Bool}
    (ai : AtInstr cl s K t st .push) (hr : readOpcode ops s = .ok (.push, s1))
    (hs : step ops s = .ok (s', b)) : WFS cl s' K := by
  have e1 := (readOpcode_ok hr).2
  unfold step at hs
  rw [hr] at hs
  simp only [outcome_bind_ok] at hs
  cases hlo : loadOperand ops s1 with
  | err e => rw [hlo] at hs; cases hs
  | panic m => rw [hlo] at hs; cases hs
  | ok r =>
    obtain ⟨v, s2⟩ := r
    rw [hlo] at hs
    have e2 := loadOperand_ok hlo
    subst e1
    subst e2
    simp only [outcome_bind_ok] at hs
    cases hs
    have chk := ai.chk
    cases st <;> simp only [checkOp] at chk <;> try (exact absurd chk Bool.false_ne_true)
    exact retop_push (v := v) ai.hw ai.ht ai.hst (ty := .any) trivial _ rfl rfl rfl chk (Ext.refl ai.hw.inv)
      ai.hw.acc

theorem pres_closure {cl : CodeLaws ops} {s s1 s' : St H} {K : List FDesc} {t : LamTy} {st : AState} {b : Bool}
    (ai : AtInstr cl s K t st .closureAcc) (hr : readOpcode ops s = .ok (.closureAcc, s1))
    (hs : step ops s = .ok (s', b)) : WFS cl s' K := by
  have e1 := (readOpcode_ok hr).2
  unfold step at hs
  rw [hr] at hs
  simp only [outcome_bind_ok] at hs
  subst e1
  cases hp : asPtr s.acc with
  | err e => simp only [hp] at hs; cases hs
  | panic m => simp only [hp] at hs; cases hs
  | ok lam =>
    simp only [hp, outcome_bind_ok] at hs
    cases hm : ops.makeClosure s.heap lam s.ep s.bp s.stack with
    | err e => simp only [hm] at hs; cases hs
    | panic m => simp only [hm] at hs; cases hs
    | ok r =>
      obtain ⟨h', c⟩ := r
      simp only [hm, outcome_bind_ok] at hs
      cases hs
      have chk := ai.chk
      cases st <;> simp only [checkOp] at chk <;> try (exact absurd chk Bool.false_ne_true)
      exact retop_same ai.hw ai.ht ai.hst _ rfl rfl rfl chk (Ext.step ai.hw.inv (.makeClosure hm))
        (cl.makeClosure_val hm)

theorem pres_mov {cl : CodeLaws ops} {s s1 s' : St H} {K : List FDesc} {t : LamTy} {st : AState} {b : Bool}
    (ai : AtInstr cl s K t st .mov) (hr : readOpcode ops s = .ok (.mov, s1))
    (hs : step ops s = .ok (s', b)) : WFS cl s' K := by
  have e1 := (readOpcode_ok hr).2
  unfold step at hs
  rw [hr] at hs
  simp only [outcome_bind_ok] at hs
  cases hlo : loadOperand ops s1 with
  | err e => rw [hlo] at hs; cases hs
  | panic m => rw [hlo] at hs; cases hs
  | ok r =>
    obtain ⟨v, s2⟩ := r
    rw [hlo] at hs
    have e2 := loadOperand_ok hlo
    subst e1
    subst e2
    simp only [outcome_bind_ok] at hs
    cases hso : storeOperand ops { s with ipO := s.ipO + 1 + 1 } v with
    | err e => rw [hso] at hs; cases hs
    | panic m => rw [hso] at hs; cases hs
    | ok s3 =>
      rw [hso] at hs
      simp only [outcome_bind_ok] at hs
      cases hs
      have chk := ai.chk
      cases st <;> simp only [checkOp, Bool.and_eq_true] at chk <;> try (exact absurd chk Bool.false_ne_true)
      obtain ⟨⟨c0, c1⟩, c2⟩ := chk
      have hnb : dstOk (ops.fetch s.heap s.ipL (s.ipO + 1 + 1)) = true := by
        rw [ai.fetch]; exact c1
      obtain ⟨q1, q2, q3, q4, q5⟩ := storeOperand_ok (cl := cl) (s := { s with ipO := s.ipO + 1 + 1 }) ai.hw.inv hso hnb
      have hv : cl.Val v := by
        refine loadOperand_val (cl := cl) (s := { s with ipO := s.ipO + 1 }) hlo ai.hw.acc ?_ ?_
        · show srcOk (ops.fetch s.heap s.ipL (s.ipO + 1)) = true
          rw [ai.fetch]; exact c0
        · intro off hf h0 _
          have hf' : t.bc[s.ipO + 1]? = some (.bpOffset off) := by rw [← ai.fetch]; exact hf
          exact ai.bp_val hf' h0
      have hacc : cl.Val s'.acc := by
        rcases storeOperand_acc hso with e | e
        · rw [e]; exact hv
        · rw [e]; exact ai.hw.acc
      refine retop_same ai.hw ai.ht ai.hst _ q1 q2 q3 ?_ q5 hacc
      rw [q4]; exact c2

theorem pres_movImm {cl : CodeLaws ops} {s s1 s' : St H} {K : List FDesc} {t : LamTy} {st : AState} {b : Bool}
    (ai : AtInstr cl s K t st .movImm) (hr : readOpcode ops s = .ok (.movImm, s1))
    (hs : step ops s = .ok (s', b)) : WFS cl s' K := by
  have e1 := (readOpcode_ok hr).2
  unfold step at hs
  rw [hr] at hs
  simp only [outcome_bind_ok] at hs
  cases hro : readOperand ops s1 with
  | err e => rw [hro] at hs; cases hs
  | panic m => rw [hro] at hs; cases hs
  | ok r =>
    obtain ⟨v, s2⟩ := r
    rw [hro] at hs
    obtain ⟨hfv, e2⟩ := ai.operand 1 e1 hro
    subst e2
    simp only [outcome_bind_ok] at hs
    cases hso : storeOperand ops { s with ipO := s.ipO + 1 + 1 } v with
    | err e => rw [hso] at hs; cases hs
    | panic m => rw [hso] at hs; cases hs
    | ok s3 =>
      rw [hso] at hs
      simp only [outcome_bind_ok] at hs
      cases hs
      have chk := ai.chk
      cases st <;> simp only [checkOp, Bool.and_eq_true] at chk <;> try (exact absurd chk Bool.false_ne_true)
      obtain ⟨⟨c0, c1⟩, c2⟩ := chk
      have hnb : dstOk (ops.fetch s.heap s.ipL (s.ipO + 1 + 1)) = true := by
        rw [ai.fetch]; exact c1
      obtain ⟨q1, q2, q3, q4, q5⟩ := storeOperand_ok (cl := cl) (s := { s with ipO := s.ipO + 1 + 1 }) ai.hw.inv hso hnb
      have hv : cl.Val v := by
        rw [hfv] at c0
        exact cl.val_imm v c0
      have hacc : cl.Val s'.acc := by
        rcases storeOperand_acc hso with e | e
        · rw [e]; exact hv
        · rw [e]; exact ai.hw.acc
      refine retop_same ai.hw ai.ht ai.hst _ q1 q2 q3 ?_ q5 hacc
      rw [q4]; exact c2

theorem pres_halt {cl : CodeLaws ops} {s s1 s' : St H} {K : List FDesc} {t : LamTy} {st : AState} {b : Bool}
    (ai : AtInstr cl s K t st .halt) (hr : readOpcode ops s = .ok (.halt, s1))
    (hs : step ops s = .ok (s', b)) : b = true ∧ s'.stack = s.stack ∧ s.stack.sp = cl.e := by
  have e1 := (readOpcode_ok hr).2
  unfold step at hs
  rw [hr] at hs
  simp only [outcome_bind_ok] at hs
  cases hs
  subst e1
  have chk := ai.chk
  cases st <;> simp only [checkOp, Bool.and_eq_true] at chk <;> try (exact absurd chk Bool.false_ne_true)
  rename_i x
  obtain ⟨⟨c1, c2⟩, _⟩ := chk
  obtain ⟨lo, hm, hlo, _, _⟩ := ai.hw.retop ai.ht ai.hst (by simp)
  have := hlo c1
  subst this
  cases x with
  | nil => exact ⟨rfl, rfl, hm⟩
  | cons a x => simp at c2

/-- HALT is the last cell of its code object: the halted state has no instruction to execute -/
theorem halt_last {cl : CodeLaws ops} {s : St H} {K : List FDesc} {t : LamTy} {st : AState}
    (ai : AtInstr cl s K t st .halt) : s.ipO + 1 = t.bc.length := by
  have chk := ai.chk
  cases st <;> simp only [checkOp, Bool.and_eq_true, decide_eq_true_eq] at chk <;>
    try (exact absurd chk Bool.false_ne_true)
  exact chk.2

theorem pres_cons {cl : CodeLaws ops} {s s1 s' : St H} {K : List FDesc} {t : LamTy} {st : AState} {b : Bool}
    (ai : AtInstr cl s K t st .cons) (hr : readOpcode ops s = .ok (.cons, s1))
    (hs : step ops s = .ok (s', b)) : WFS cl s' K := by
  have e1 := (readOpcode_ok hr).2
  unfold step at hs
  rw [hr] at hs
  simp only [outcome_bind_ok] at hs
  subst e1
  cases hp1 : s.stack.pop with
  | err e => simp only [hp1] at hs; cases hs
  | panic m => simp only [hp1] at hs; cases hs
  | ok r1 =>
    obtain ⟨d, st1⟩ := r1
    simp only [hp1, outcome_bind_ok] at hs
    cases hp2 : st1.pop with
    | err e => simp only [hp2] at hs; cases hs
    | panic m => simp only [hp2] at hs; cases hs
    | ok r2 =>
      obtain ⟨a, st2⟩ := r2
      simp only [hp2, outcome_bind_ok] at hs
      have p1 := pop_ok hp1
      have p2 := pop_ok hp2
      have ext1 : Ext cl s.heap (ops.put s.heap d).1 := Ext.step ai.hw.inv (.put _ _)
      have ext2 : Ext cl (ops.put s.heap d).1 (ops.put (ops.put s.heap d).1 a).1 := Ext.step ext1.inv (.put _ _)
      cases ha : asPtr (ops.put (ops.put s.heap d).1 a).2 with
      | err e => simp only [ha] at hs; cases hs
      | panic m => simp only [ha] at hs; cases hs
      | ok pa =>
        simp only [ha, outcome_bind_ok] at hs
        cases hd : asPtr (ops.put s.heap d).2 with
        | err e => simp only [hd] at hs; cases hs
        | panic m => simp only [hd] at hs; cases hs
        | ok pd =>
          simp only [hd, outcome_bind_ok] at hs
          cases hs
          have ext3 := Ext.step (ops := ops) (cl := cl) ext2.inv (.put (ops.put (ops.put s.heap d).1 a).1 (.pair pa pd))
          have chk := ai.chk
          cases st <;> simp only [checkOp] at chk <;> try (exact absurd chk Bool.false_ne_true)
          rename_i x
          rcases x with _ | ⟨c1, _ | ⟨c2, x⟩⟩ <;> simp only [Bool.and_eq_true] at chk <;>
            try (exact absurd chk Bool.false_ne_true)
          refine retop_drop (k := 2) ai.hw ai.ht ai.hst (by simp) _ (by show st2.sp + 2 = s.stack.sp; omega)
            (by show st2.cells = s.stack.cells; rw [p2.2.1, p1.2.1]) rfl rfl ?_ ((ext1.trans ext2).trans ext3)
            (cl.put_val _ _)
          simpa using chk.2

theorem pres_vpush {cl : CodeLaws ops} {s s1 s' : St H} {K : List FDesc} {t : LamTy} {st : AState} {b : Bool}
    (ai : AtInstr cl s K t st .vpushAcc) (hr : readOpcode ops s = .ok (.vpushAcc, s1))
    (hs : step ops s = .ok (s', b)) : WFS cl s' K := by
  have e1 := (readOpcode_ok hr).2
  unfold step at hs
  rw [hr] at hs
  simp only [outcome_bind_ok] at hs
  subst e1
  cases hp1 : s.stack.pop with
  | err e => simp only [hp1] at hs; cases hs
  | panic m => simp only [hp1] at hs; cases hs
  | ok r1 =>
    obtain ⟨d, st1⟩ := r1
    simp only [hp1, outcome_bind_ok] at hs
    have p1 := pop_ok hp1
    cases hv : ops.vectorPush s.heap (ops.deref s.heap d) s.acc with
    | err e => simp only [hv] at hs; cases hs
    | panic m => simp only [hv] at hs; cases hs
    | ok h' =>
      simp only [hv, outcome_bind_ok] at hs
      cases hs
      have chk := ai.chk
      cases st <;> simp only [checkOp] at chk <;> try (exact absurd chk Bool.false_ne_true)
      rename_i x
      rcases x with _ | ⟨c1, x⟩ <;> simp only at chk <;> try (exact absurd chk Bool.false_ne_true)
      refine retop_drop (k := 1) ai.hw ai.ht ai.hst (by simp) _ (by show st1.sp + 1 = s.stack.sp; omega)
        (by show st1.cells = s.stack.cells; exact p1.2.1) rfl rfl ?_ (Ext.step ai.hw.inv (.vectorPush hv))
        (cl.vectorPush_val hv)
      simpa using chk

/-! ## ENTER, RET -/

theorem pres_enter {cl : CodeLaws ops} {s s1 s' : St H} {K : List FDesc} {t : LamTy} {st : AState} {b : Bool}
    (ai : AtInstr cl s K t st .enter) (hr : readOpcode ops s = .ok (.enter, s1))
    (hs : step ops s = .ok (s', b)) : WFS cl s' K := by
  have e1 := (readOpcode_ok hr).2
  unfold step at hs
  rw [hr] at hs
  simp only [outcome_bind_ok] at hs
  obtain ⟨s2, he, hs⟩ := bind_inv hs
  cases hs
  subst e1
  obtain ⟨q1, q2, q3, q4, q5⟩ := stepEnter_ok (cl := cl) (s := { s with ipO := s.ipO + 1 }) ai.hw.inv he
  obtain ⟨elam, einfo, el1, el2, el3⟩ := stepEnter_lam he
  have hacc' : s'.acc = s.acc := stepEnter_acc (s := { s with ipO := s.ipO + 1 }) he
  simp only at q1 q2 q3 q4 q5 el1 el2 el3
  have chk := ai.chk
  cases st <;> simp only [checkOp, Bool.and_eq_true] at chk <;> try (exact absurd chk Bool.false_ne_true)
  obtain ⟨c1, c2⟩ := chk
  obtain ⟨hent, n, ep', l', o', K', hn, hI, hE, hA, hfr, hK⟩ := ai.hw.wf.frames.inv_pre ai.ht ai.hst
  obtain ⟨n2, l2, o2, hA2, hI2, _, hav, hnp⟩ := ai.hw.wf.frames.inv_pre_args ai.ht ai.hst
  rw [hA] at hA2; cases hA2
  rw [hI] at hI2; cases hI2
  -- the argument count covers the argument cells the code addresses
  have hneed : argNeed t.bc ≤ n := by
    rcases ai.hw.pre t n ai.ht ai.hst hA with h | h
    · exact h
    · rw [el1] at h
      cases h
      rw [hA] at el3
      cases el3
      exact cl.info_code ai.hw.inv (tyOf_spec ai.ht).1 el2
  have hcell : ∀ i, i ≤ s.stack.sp → s'.stack.cellAt i = s.stack.cellAt i := by
    intro i hi
    rw [q1, push_cellAt]
    have : ¬ i = s.stack.sp + 1 := by omega
    simp [this]
  have hsp : s'.stack.sp = s.stack.sp + 1 := by rw [q1]; simp
  have hbp : s'.bp = s.stack.sp - 3 := by omega
  have hm0 : MatchAt cl.Val [] s'.stack.cellAt s'.stack.sp (s'.bp + 4) := by
    show s'.stack.sp = s'.bp + 4
    omega
  obtain ⟨st', hst', hm'⟩ := flowsTo_sound c2 hm0
  have hst'' : stateAt t.tm s'.ipO = some st' := by rw [q4]; exact hst'
  refine ⟨q5.inv, ⟨by rw [q1]; exact push_sp_lt _ _, ?_⟩, by rw [hacc']; exact ai.hw.acc,
    pre_vacuous q5 (by rw [q3]; exact ai.ht) hst'' hm'.ne_pre⟩
  refine Frames.mono q5.ty ?_
  rw [q3, q4, hK]
  have hb : s.stack.sp - 2 - n = s'.bp + 1 - n := by omega
  rw [hb]
  refine Frames.frame (n := n) (bp' := s.bp) ai.ht hent hst' hm' ?_ ?_ ?_ ?_ (by omega) hneed ?_ hnp ?_
  · rw [hcell _ (by omega)]; have : s'.bp + 1 = s.stack.sp - 2 := by omega
    rw [this]; exact hA
  · rw [hcell _ (by omega)]; have : s'.bp + 2 = s.stack.sp - 1 := by omega
    rw [this]; exact hE
  · rw [hcell _ (by omega)]; have : s'.bp + 3 = s.stack.sp := by omega
    rw [this]; exact hI
  · have : s'.bp + 4 = s.stack.sp + 1 := by omega
    rw [this, q1, push_cellAt]; simp
  · intro i hi1 hi2
    rw [hcell _ (by omega)]
    exact hav i (by omega) (by omega)
  · have : s'.bp - n = s.stack.sp - 3 - n := by omega
    rw [this]
    exact hfr.congr (fun i hi => hcell i (by omega))

theorem pres_ret {cl : CodeLaws ops} {s s1 s' : St H} {K : List FDesc} {t : LamTy} {st : AState} {b : Bool}
    (ai : AtInstr cl s K t st .ret) (hr : readOpcode ops s = .ok (.ret, s1))
    (hs : step ops s = .ok (s', b)) : ∃ d K', K = d :: K' ∧ WFS cl s' K' ∧ s'.stack.sp + 1 = d.base := by
  have e1 := (readOpcode_ok hr).2
  unfold step at hs
  rw [hr] at hs
  simp only [outcome_bind_ok] at hs
  obtain ⟨s2, he, hs⟩ := bind_inv hs
  cases hs
  subst e1
  have chk := ai.chk
  cases st <;> simp only [checkOp] at chk <;> try (exact absurd chk Bool.false_ne_true)
  have hent : t.entry = false := by simpa using chk
  obtain ⟨n, ep', l', o', bp', K', hm, hA, hE, hI, hB, hn, hfr, hK⟩ :=
    ai.hw.wf.frames.inv_frame ai.ht hent ai.hst (by simp)
  obtain ⟨n3, l3, o3, hA3, hI3, _, _, _, hnp⟩ := ai.hw.wf.frames.inv_args ai.ht hent ai.hst (by simp)
  rw [hI] at hI3; cases hI3
  obtain ⟨n2, ep2, l2, o2, bp2, r1, r2, r3, r4, r5, r6⟩ := stepRet_ok he
  simp only at r1 r2 r3 r4 r5 r6
  rw [hA] at r1; rw [hE] at r2; rw [hI] at r3; rw [hB] at r4
  cases r1; cases r2; cases r3; cases r4
  subst r6
  have hlo := hm.lo_le
  refine ⟨_, K', hK, ⟨ai.hw.inv, ⟨?_, ?_⟩, ai.hw.acc, ?_⟩, ?_⟩
  · show s.bp - n < s.stack.cells.length
    have := ai.hw.wf.cap; omega
  · exact hfr
  · intro t2 n2 ht2 hpre _
    exact absurd hpre (hnp t2 ht2)
  · show s.bp - n + 1 = s.bp + 1 - n
    omega

/-! ## CALL / TCALL: the arms shared by both -/

/-- the frame CALL sets up for a verified procedure: from a call state to the callee's prologue -/
theorem frames_call {V : VCell → Prop} {T : Typing} {e : Nat} {f f' : Nat → VCell} {top bp l o : Nat}
    {K : List FDesc}
    {t : LamTy} {a : List ACell} (hfr : Frames V T e f top bp l o K) (ht : T l = some t)
    (hst : stateAt t.tm o = some (.call a)) (hfl : flowsTo a (stateAt t.tm (o + 1)) = true)
    {lam : Nat} {tl : LamTy} (htl : T lam = some tl) (hent : tl.entry = false)
    (hchk : checkAll tl.bc tl.tm tl.entry = true) {ep : Nat}
    (hf' : ∀ i, i ≤ top → f' i = f i) (h1 : f' (top + 1) = .envPtr ep)
    (h2 : f' (top + 2) = .instrPtr l (o + 1)) :
    ∃ m, f top = .argc m ∧
      Frames V T e f' (top + 2) bp lam 0 (⟨top + 2 - 2 - m, .envPtr ep, .instrPtr l (o + 1), bp⟩ :: K) := by
  obtain ⟨lo, hm, _, _, hre⟩ := hfr.inv_body ht hst (by simp)
  obtain ⟨m, hA, hle, hvals, hma⟩ := hm
  obtain ⟨st', hst', hm'⟩ := flowsTo_sound hfl hma
  have hcaller := hre f' (top - 1 - m) (o + 1) st' (fun i hi => hf' i (by omega)) hst'
    (hm'.congr (fun i hi => hf' i (by omega)))
  have hpre : stateAt tl.tm 0 = some .pre := by
    have := checkAll_init hchk
    rw [hent] at this
    simpa [initState] using this
  have e3 : top + 2 - 3 - m = top - 1 - m := by omega
  have hnp : ∀ t', T l = some t' → stateAt t'.tm (o + 1) ≠ some .pre := by
    intro t' ht'
    rw [ht] at ht'
    have e : t = t' := Option.some.inj ht'
    rw [← e, hst']
    intro hh
    exact hm'.ne_pre (Option.some.inj hh)
  refine ⟨m, hA, Frames.pre (n := m) (ep' := ep) (l' := l) (o' := o + 1) htl hent hpre (by omega) h2 ?_ ?_ ?_ hnp ?_⟩
  · have : top + 2 - 1 = top + 1 := by omega
    rw [this]; exact h1
  · have : top + 2 - 2 = top := by omega
    rw [this, hf' top (Nat.le_refl _)]; exact hA
  · intro i hi1 hi2
    rw [hf' i (by omega)]
    exact hvals i (by omega) (by omega)
  · rw [e3]; exact hcaller

theorem pres_call_proc {cl : CodeLaws ops} {s : St H} {K : List FDesc} {t : LamTy} {a : List ACell} {op : Op}
    (ai : AtInstr cl s K t (.call a) op) (hfl : flowsTo a (stateAt t.tm (s.ipO + 1)) = true)
    {lam : Nat} {tl : LamTy} (htl : tyOf (cl.code s.heap) lam = some tl) (hent : tl.entry = false)
    (hlam : enterLam ops s.heap s.acc = some lam) :
    ∃ m, s.stack.cellAt s.stack.sp = .argc m ∧
      WFS cl { s with stack := (s.stack.push (.envPtr s.ep)).push (.instrPtr s.ipL (s.ipO + 1)),
                         ipL := lam, ipO := 0 }
        (⟨s.stack.sp + 2 - 2 - m, .envPtr s.ep, .instrPtr s.ipL (s.ipO + 1), s.bp⟩ :: K) := by
  have hchk := (tyOf_spec htl).2
  obtain ⟨m, hmA, hd⟩ := frames_call (f' := ((s.stack.push (.envPtr s.ep)).push (.instrPtr s.ipL (s.ipO + 1))).cellAt)
    (ep := s.ep) ai.hw.wf.frames ai.ht ai.hst hfl htl hent hchk
    (by
      intro i hi
      rw [push_cellAt, push_cellAt, push_sp]
      have n1 : ¬ i = s.stack.sp + 1 + 1 := by omega
      have n2 : ¬ i = s.stack.sp + 1 := by omega
      simp [n1, n2])
    (by
      rw [push_cellAt, push_cellAt, push_sp]
      have n1 : ¬ s.stack.sp + 1 = s.stack.sp + 1 + 1 := by omega
      simp [n1])
    (by rw [push_cellAt, push_sp]; simp)
  refine ⟨m, hmA, ai.hw.inv, ⟨push_sp_lt _ _, ?_⟩, ai.hw.acc, fun _ _ _ _ _ => .inr hlam⟩
  simpa using hd

/-- the run-time characterisation of a call state -/
theorem AtInstr.call_block {cl : CodeLaws ops} {s : St H} {K : List FDesc} {t : LamTy} {a : List ACell}
    {op : Op} (ai : AtInstr cl s K t (.call a) op) :
    ∃ m, s.stack.cellAt s.stack.sp = .argc m ∧ m + 1 ≤ s.stack.sp ∧
      (t.entry = false → s.bp + 4 + m + 1 ≤ s.stack.sp) := by
  obtain ⟨lo, ⟨m, h1, h2, _⟩, _, h3, _⟩ := ai.hw.wf.frames.inv_body ai.ht ai.hst (by simp)
  exact ⟨m, h1, by omega, fun he => by have := h3 he; omega⟩

/-- the argument block of a call state holds values -/
theorem AtInstr.call_vals {cl : CodeLaws ops} {s : St H} {K : List FDesc} {t : LamTy} {a : List ACell}
    {op : Op} (ai : AtInstr cl s K t (.call a) op) {m : Nat} (hA : s.stack.cellAt s.stack.sp = .argc m) :
    ∀ i, s.stack.sp - 1 - m < i → i < s.stack.sp → cl.Val (s.stack.cellAt i) := by
  obtain ⟨lo, ⟨m0, h1, h2, hv, _⟩, _, _, _⟩ := ai.hw.wf.frames.inv_body ai.ht ai.hst (by simp)
  rw [hA] at h1; cases h1
  exact hv

/-- after a builtin that re-dispatched: same CALL/TCALL, another argument block -/
theorem retop_redispatch {cl : CodeLaws ops} {s : St H} {K : List FDesc} {t : LamTy} {a : List ACell}
    {op : Op} (ai : AtInstr cl s K t (.call a) op) {m : Nat} (hA : s.stack.cellAt s.stack.sp = .argc m)
    (s1 s' : St H) (e1 : s1 = { s with ipO := s.ipO + 1 }) (hr : Redisp s1 s' m)
    (hvals : ∀ m', s'.stack.cellAt s'.stack.sp = .argc m' → ∀ i, s'.stack.sp - 1 - m' < i → i < s'.stack.sp →
      cl.Val (s'.stack.cellAt i))
    (hacc : cl.Val s'.acc)
    (hext : Ext cl s.heap s'.heap) : WFS cl s' K := by
  subst e1
  obtain ⟨lo, ⟨m0, h1, h2, _, h3⟩, _, _, hre⟩ := ai.hw.retop ai.ht ai.hst (by simp)
  rw [hA] at h1; cases h1
  obtain ⟨m', b1, b2, b3⟩ := hr.blk
  simp only at b3
  have hbelow := hr.below
  simp only at hbelow
  refine hre s' (.call a) hext hr.bp hr.ipL hr.cap (fun i hi => hbelow i (by omega)) hacc ?_ ?_
  · have := hr.ipO
    simp only at this
    have e : s'.ipO = s.ipO := by omega
    rw [e]; exact ai.hst
  · refine ⟨m', b1, by omega, hvals m' b1, ?_⟩
    rw [b3]
    exact h3.congr (fun i hi => hbelow i hi)

/-- after a builtin that returned: block popped, execution continues after the CALL/TCALL -/
theorem retop_return {cl : CodeLaws ops} {s : St H} {K : List FDesc} {t : LamTy} {a : List ACell}
    {op : Op} (ai : AtInstr cl s K t (.call a) op) (hfl : flowsTo a (stateAt t.tm (s.ipO + 1)) = true)
    {m : Nat} (hA : s.stack.cellAt s.stack.sp = .argc m) (s' : St H)
    (hsp : s'.stack.sp + m + 1 = s.stack.sp) (hc : s'.stack.cells = s.stack.cells)
    (hbp : s'.bp = s.bp) (hl : s'.ipL = s.ipL) (hip : s'.ipO = s.ipO + 1)
    (hacc : cl.Val s'.acc)
    (hext : Ext cl s.heap s'.heap) : WFS cl s' K := by
  obtain ⟨lo, ⟨m0, h1, h2, _, h3⟩, _, _, hre⟩ := ai.hw.retop ai.ht ai.hst (by simp)
  rw [hA] at h1; cases h1
  have hcell : ∀ i, s'.stack.cellAt i = s.stack.cellAt i := by intro i; unfold Stack.cellAt; rw [hc]
  obtain ⟨st', hst', hm'⟩ := flowsTo_sound hfl h3
  have e : s.stack.sp - 1 - m = s'.stack.sp := by omega
  refine hre s' st' hext hbp hl ?_ (fun i _ => hcell i) hacc (by rw [hip]; exact hst') ?_
  · rw [hc]; have := ai.hw.wf.cap; omega
  · rw [← e]; exact hm'.congr (fun i _ => hcell i)

/-- CALL/TCALL of a builtin (generic, `apply`, `eval`, `call/cc`) -/
theorem pres_builtin {cl : CodeLaws ops} {s s1 s' : St H} {K : List FDesc} {t : LamTy} {a : List ACell}
    {op : Op} (ai : AtInstr cl s K t (.call a) op) (hfl : flowsTo a (stateAt t.tm (s.ipO + 1)) = true)
    (e1 : s1 = { s with ipO := s.ipO + 1 }) {id : Nat} (hs : runBuiltin ops id s1 = .ok s') :
    WFS cl s' K := by
  obtain ⟨m, hA, hm, _⟩ := ai.call_block
  have hbv := ai.call_vals hA
  have hacc : cl.Val s'.acc := runBuiltin_acc (cl := cl) hs
  obtain ⟨s2, v, hb, q1, q2, q3, q4, q5⟩ := runBuiltin_ok (cl := cl) hs
  have hcap1 : s1.stack.sp < s1.stack.cells.length := by subst e1; exact ai.hw.wf.cap
  have hA1 : s1.stack.cellAt s1.stack.sp = .argc m := by subst e1; exact hA
  have hm1 : m + 1 ≤ s1.stack.sp := by subst e1; exact hm
  have hi1 : cl.HInv s1.heap := by subst e1; exact ai.hw.inv
  have hh1 : s1.heap = s.heap := by subst e1; rfl
  have hst1 : s1.stack = s.stack := by subst e1; rfl
  have redisp : ∀ (s2 : St H), Redisp s1 s2 m → s'.stack = s2.stack → s'.bp = s2.bp → s'.ipL = s2.ipL →
      s'.ipO = s2.ipO → Redisp s1 s' m := by
    intro s2 r w1 w2 w3 w4
    exact ⟨by rw [w1]; exact r.cap, by rw [w1]; exact r.blk, by rw [w1]; exact r.below,
      by rw [w2]; exact r.bp, by rw [w3]; exact r.ipL, by rw [w4]; exact r.ipO⟩
  cases hk : ops.builtinKind s1.heap id <;> rw [hk] at hb <;> dsimp only at hb
  · -- apply
    obtain ⟨r, hh⟩ := builtinApply_ok hb hcap1 hA1 hm1
    obtain ⟨_, hprov⟩ := builtinApply_prov hb hcap1 hA1 hm1
    have hi2 : cl.HInv s2.heap := by rw [hh]; exact hi1
    have ext : Ext cl s.heap s'.heap := by
      have := q5 hi2
      rw [hh, hh1] at this; exact this
    refine retop_redispatch ai hA s1 s' e1 (redisp s2 r q1 q2 q3 q4) ?_ hacc ext
    intro m' hm' i hi1' hi2'
    rw [q1] at hm' hi1' hi2' ⊢
    rcases hprov m' hm' i hi1' hi2' with ⟨j, j1, j2, j3⟩ | ⟨a', ha'⟩
    · rw [j3, hst1]; rw [hst1] at j1 j2; exact hbv j j1 j2
    · rw [ha']; exact cl.val_imm _ rfl
  · -- eval
    obtain ⟨r, hx⟩ := builtinEvalProc_ok (cl := cl) hi1 hb hcap1 hA1 hm1
    have ext : Ext cl s.heap s'.heap := by
      have := hx.trans (q5 hx.inv)
      rw [hh1] at this; exact this
    refine retop_redispatch ai hA s1 s' e1 (redisp s2 r q1 q2 q3 q4) ?_ hacc ext
    intro m' hm' i hi1' hi2'
    exfalso
    have := builtinEvalProc_blk hb
    rw [q1] at hm' hi1' hi2'
    rw [this] at hm'
    cases hm'
    omega
  · -- call/cc
    obtain ⟨hm1', cst, c1, c2, c3, c4, r⟩ := builtinCallcc_ok hb hcap1 hA1 hm1
    obtain ⟨_, hk1, cst2, hk2⟩ := builtinCallcc_new hb hA1
    subst hm1'
    subst e1
    simp only at c1 c3 c4
    -- the captured continuation is the snapshot of the state this call returns to
    obtain ⟨lo, ⟨m0, h1, h2, _, h3⟩, _, _, hre⟩ := ai.hw.wf.frames.inv_body ai.ht ai.hst (by simp)
    rw [hA] at h1; cases h1
    obtain ⟨st', hst', hm'⟩ := flowsTo_sound hfl h3
    have hcw : ContWF cl.Val (tyOf (cl.code s.heap)) cl.e ⟨cst, s.ep, s.ipL, s.ipO + 1, s.bp⟩ K := by
      refine ⟨c2, ?_, ?_⟩
      · show Frames _ _ _ cst.cellAt cst.sp s.bp s.ipL (s.ipO + 1) K
        have e : cst.sp = s.stack.sp - 1 - 1 := by omega
        rw [e]
        exact hre cst.cellAt _ _ st' (fun i hi => c3 i (by omega)) hst'
          (hm'.congr (fun i hi => c3 i (by omega)))
      · intro t2 ht2
        show stateAt t2.tm (s.ipO + 1) ≠ some .pre
        have e : t2 = t := by
          have := ai.ht
          simp only at ht2
          rw [ht2] at this
          exact Option.some.inj this
        rw [e, hst']
        intro hh
        exact hm'.ne_pre (Option.some.inj hh)
    have hi2 : cl.HInv s2.heap := by rw [c4]; exact cl.newCont_inv ai.hw.inv hcw
    have ext2 : Ext cl s.heap s2.heap :=
      ⟨hi2, fun l bc hc => by rw [c4]; exact cl.newCont_code ai.hw.inv hc⟩
    refine retop_redispatch ai hA _ s' rfl (redisp s2 r q1 q2 q3 q4) ?_ hacc (ext2.trans (q5 hi2))
    intro m' hm' i hi1' hi2'
    rw [q1] at hm' hi1' hi2' ⊢
    rw [hk1] at hm'; cases hm'
    have ei : i = s2.stack.sp - 1 := by omega
    rw [ei, hk2]
    exact cl.newCont_val _ _
  · -- generic
    obtain ⟨g1, g2, g3, g4, g5, g6⟩ := builtinGeneric_ok (cl := cl) hi1 hb hA1
    subst e1
    simp only at g1 g2 g3 g4 g5 g6
    exact retop_return ai hfl hA s' (by rw [q1]; exact g1) (by rw [q1]; exact g2) (by rw [q2]; exact g3)
      (by rw [q3]; exact g4) (by rw [q4]; exact g5) hacc (g6.trans (q5 g6.inv))

/-- CALL/TCALL of a continuation: the restored snapshot is WF -/
theorem pres_invoke {cl : CodeLaws ops} {s s1 s' : St H} {K : List FDesc}
    (hw : WFS cl s K) (e1 : s1 = { s with ipO := s.ipO + 1 }) {c : Cont}
    (hc : ops.callee s.heap s.acc = .continuation c) (hs : invokeCont s1 c = .ok s')
    (hbv : ∀ m, s.stack.cellAt s.stack.sp = .argc m → ∀ i, s.stack.sp - 1 - m < i → i < s.stack.sp →
      cl.Val (s.stack.cellAt i)) :
    ∃ K', WFS cl s' K' := by
  obtain ⟨Kc, hcw⟩ := cl.cont_wf hw.inv hc
  obtain ⟨q1, q2, q3, q4, q5, q6, q7⟩ := invokeCont_ok hs
  obtain ⟨m, a1, a2, a3⟩ := invokeCont_acc hs
  subst e1
  simp only at q7 a1 a2 a3
  refine ⟨Kc, by rw [q7]; exact hw.inv, ⟨by rw [q1]; have := hcw.cap; omega, ?_⟩, ?_, ?_⟩
  · rw [q1, q4, q5, q6, q7]
    exact hcw.frames.congr (fun i hi => q3 i (by have := hcw.cap; omega))
  · rw [a3]
    exact hbv m a1 _ (by omega) (by omega)
  · intro t2 n2 ht2 hpre _
    rw [q5, q7] at ht2
    rw [q6] at hpre
    exact absurd hpre (hcw.body t2 ht2)

/-- what one instruction does to the ghost list of frames -/
def KStep (ops : HeapOps H) (s s' : St H) (K K' : List FDesc) : Prop :=
  K' = K ∨ (∃ d, K' = d :: K) ∨ (∃ d, K = d :: K' ∧ s'.stack.sp + 1 = d.base) ∨
    ∃ c, ops.callee s.heap s.acc = .continuation c

theorem pres_call {cl : CodeLaws ops} {s s1 s' : St H} {K : List FDesc} {t : LamTy} {st : AState} {b : Bool}
    (ai : AtInstr cl s K t st .callAcc) (hr : readOpcode ops s = .ok (.callAcc, s1))
    (hs : step ops s = .ok (s', b)) : ∃ K', WFS cl s' K' ∧ KStep ops s s' K K' := by
  have e1 := (readOpcode_ok hr).2
  unfold step at hs
  rw [hr] at hs
  simp only [outcome_bind_ok] at hs
  obtain ⟨s2, he, hs⟩ := bind_inv hs
  cases hs
  have chk := ai.chk
  cases st <;> simp only [checkOp] at chk <;> try (exact absurd chk Bool.false_ne_true)
  rename_i a
  unfold stepCall at he
  have hcal : ops.callee s1.heap s1.acc = ops.callee s.heap s.acc := by subst e1; rfl
  rw [hcal] at he
  cases hc : ops.callee s.heap s.acc with
  | builtin id =>
    rw [hc] at he
    exact ⟨K, pres_builtin ai chk e1 he, .inl rfl⟩
  | continuation c =>
    rw [hc] at he
    obtain ⟨K', h⟩ := pres_invoke ai.hw e1 hc he (fun m hA => ai.call_vals hA)
    exact ⟨K', h, .inr (.inr (.inr ⟨c, hc⟩))⟩
  | other => rw [hc] at he; cases he
  | closure lam env =>
    rw [hc] at he
    dsimp only at he
    cases he
    subst e1
    obtain ⟨tl, htl, hent⟩ := cl.callee_closure ai.hw.inv hc
    obtain ⟨m, _, hd⟩ := pres_call_proc ai chk htl hent (by unfold enterLam; rw [hc])
    exact ⟨_, hd, .inr (.inl ⟨_, rfl⟩)⟩
  | lambda =>
    rw [hc] at he
    dsimp only at he
    obtain ⟨lam, hp, he⟩ := bind_inv he
    cases he
    subst e1
    have hacc : s.acc = .ptr lam := asPtr_ok hp
    have hc' := hc
    rw [hacc] at hc
    obtain ⟨tl, htl, hent⟩ := cl.callee_lambda ai.hw.inv hc
    obtain ⟨m, _, hd⟩ := pres_call_proc ai chk htl hent (by unfold enterLam; rw [hc', hacc])
    exact ⟨_, hd, .inr (.inl ⟨_, rfl⟩)⟩

/-- TCALL to a verified procedure: the replaced frame's description is unchanged -/
theorem pres_tcall_proc {cl : CodeLaws ops} {s s' : St H} {K : List FDesc} {t : LamTy} {a : List ACell}
    (ai : AtInstr cl s K t (.call a) .tcallAcc) (hent0 : t.entry = false)
    {lam : Nat} {tl : LamTy} (htl : tyOf (cl.code s.heap) lam = some tl) (hent : tl.entry = false)
    (hlam : enterLam ops s.heap s.acc = some lam)
    (he : tcallTail { s with ipO := s.ipO + 1 } lam = .ok s') : WFS cl s' K := by
  obtain ⟨n, ep', l', o', bp', K', hm, hA, hE, hI, hB, hn, hfr, hK⟩ :=
    ai.hw.wf.frames.inv_frame ai.ht hent0 ai.hst (by simp)
  obtain ⟨n3, l3, o3, hA3, hI3, _, _, _, hnp⟩ := ai.hw.wf.frames.inv_args ai.ht hent0 ai.hst (by simp)
  rw [hI] at hI3; cases hI3
  obtain ⟨m, hm1, hm2, hbv, hm3⟩ := hm
  obtain ⟨r1, r2, r3, r4, r5, r6, r7, r8, r9, r10⟩ :=
    tcallTail_ok (s := { s with ipO := s.ipO + 1 }) he ai.hw.wf.cap hA hE hI hB hm1 (by show s.bp + 4 + m < s.stack.sp; omega) hn
  have rargs := tcallTail_args (s := { s with ipO := s.ipO + 1 }) he ai.hw.wf.cap hA hE hI hB hm1
    (by show s.bp + 4 + m < s.stack.sp; omega) hn
  have racc : s'.acc = s.acc := tcallTail_acc he
  simp only at r1 r3 r4 r5 r6 r10 rargs
  have hpre : stateAt tl.tm 0 = some .pre := by
    have := checkAll_init (tyOf_spec htl).2
    rw [hent] at this
    simpa [initState] using this
  refine ⟨by rw [r10]; exact ai.hw.inv, ⟨r2, ?_⟩, by rw [racc]; exact ai.hw.acc, ?_⟩
  · rw [r10, r7, r8, r9, hK]
    have e1 : s.bp + 1 - n = s'.stack.sp - 2 - m := by omega
    rw [e1]
    refine Frames.pre (n := m) htl hent hpre (by omega) ?_ ?_ ?_ ?_ hnp ?_
    · have : s'.stack.sp = s.bp - n + m + 3 := r1
      rw [this]; exact r5
    · have : s'.stack.sp - 1 = s.bp - n + m + 2 := by omega
      rw [this]; exact r4
    · have : s'.stack.sp - 2 = s.bp - n + m + 1 := by omega
      rw [this]; exact r3
    · intro i hi1 hi2
      obtain ⟨j, j1, j2, j3⟩ := rargs i (by omega) (by omega)
      rw [j3]
      exact hbv j j1 j2
    · have : s'.stack.sp - 3 - m = s.bp - n := by omega
      rw [this]
      exact hfr.congr (fun i hi => r6 i (by omega))
  · intro t2 n2 _ _ _
    right
    rw [r10, racc, r8]
    exact hlam

theorem pres_tcall {cl : CodeLaws ops} {s s1 s' : St H} {K : List FDesc} {t : LamTy} {st : AState} {b : Bool}
    (ai : AtInstr cl s K t st .tcallAcc) (hr : readOpcode ops s = .ok (.tcallAcc, s1))
    (hs : step ops s = .ok (s', b)) : ∃ K', WFS cl s' K' ∧ KStep ops s s' K K' := by
  have e1 := (readOpcode_ok hr).2
  unfold step at hs
  rw [hr] at hs
  simp only [outcome_bind_ok] at hs
  obtain ⟨s2, he, hs⟩ := bind_inv hs
  cases hs
  have chk := ai.chk
  cases st <;> simp only [checkOp, Bool.and_eq_true] at chk <;> try (exact absurd chk Bool.false_ne_true)
  rename_i a
  obtain ⟨c1, c2⟩ := chk
  have hent0 : t.entry = false := by simpa using c1
  have hcal : ops.callee s1.heap s1.acc = ops.callee s.heap s.acc := by subst e1; rfl
  cases hc : ops.callee s.heap s.acc with
  | builtin id =>
    unfold stepTCall at he
    rw [hcal, hc] at he
    exact ⟨K, pres_builtin ai c2 e1 he, .inl rfl⟩
  | continuation c =>
    unfold stepTCall at he
    rw [hcal, hc] at he
    obtain ⟨K', h⟩ := pres_invoke ai.hw e1 hc he (fun m hA => ai.call_vals hA)
    exact ⟨K', h, .inr (.inr (.inr ⟨c, hc⟩))⟩
  | other =>
    unfold stepTCall at he
    rw [hcal, hc] at he; cases he
  | closure lam env =>
    rw [stepTCall_closure (by rw [hcal]; exact hc)] at he
    subst e1
    obtain ⟨tl, htl, hent⟩ := cl.callee_closure ai.hw.inv hc
    exact ⟨K, pres_tcall_proc ai hent0 htl hent (by unfold enterLam; rw [hc]) he, .inl rfl⟩
  | lambda =>
    rw [stepTCall_lambda (by rw [hcal]; exact hc)] at he
    obtain ⟨lam, hp, he⟩ := bind_inv he
    subst e1
    have hacc : s.acc = .ptr lam := asPtr_ok hp
    have hc' := hc
    rw [hacc] at hc
    obtain ⟨tl, htl, hent⟩ := cl.callee_lambda ai.hw.inv hc
    exact ⟨K, pres_tcall_proc ai hent0 htl hent (by unfold enterLam; rw [hc', hacc]) he, .inl rfl⟩

theorem pres_vararg {cl : CodeLaws ops} {s s1 s' : St H} {K : List FDesc} {t : LamTy} {st : AState} {b : Bool}
    (ai : AtInstr cl s K t st .varArg) (hr : readOpcode ops s = .ok (.varArg, s1))
    (hs : step ops s = .ok (s', b)) : WFS cl s' K := by
  have e1 := (readOpcode_ok hr).2
  unfold step at hs
  rw [hr] at hs
  simp only [outcome_bind_ok] at hs
  obtain ⟨s2, he, hs⟩ := bind_inv hs
  cases hs
  subst e1
  have chk := ai.chk
  cases st <;> simp only [checkOp, Bool.and_eq_true, decide_eq_true_eq] at chk <;>
    try (exact absurd chk Bool.false_ne_true)
  obtain ⟨c1, c2⟩ := chk
  obtain ⟨hent, n, ep', l', o', K', hn, hI, hE, hA, hfr, hK⟩ := ai.hw.wf.frames.inv_pre ai.ht ai.hst
  obtain ⟨n2, l2, o2, hA2, hI2, _, hav, hnp⟩ := ai.hw.wf.frames.inv_pre_args ai.ht ai.hst
  rw [hA] at hA2; cases hA2
  rw [hI] at hI2; cases hI2
  obtain ⟨n', v1, v2, v3, v4, v5, v6, v7, v8, v9, v10, v11⟩ :=
    stepVarArg_ok (cl := cl) (s := { s with ipO := s.ipO + 1 }) ai.hw.inv he ai.hw.wf.cap hn hI hE hA
  obtain ⟨info, w1, w2, w3⟩ :=
    stepVarArg_vals (cl := cl) (s := { s with ipO := s.ipO + 1 }) ai.hw.inv he hn hA hav
  have wacc : s'.acc = s.acc := stepVarArg_acc (s := { s with ipO := s.ipO + 1 }) he
  simp only at v3 v7 v8 v9 v10 v11 w1 w2 w3
  rw [v6] at w2; cases w2
  have hneed : argNeed t.bc ≤ info.argc := cl.info_code ai.hw.inv (tyOf_spec ai.ht).1 w1
  refine ⟨v11.inv, ⟨v1, ?_⟩, by rw [wacc]; exact ai.hw.acc, ?_⟩
  · refine Frames.mono v11.ty ?_
    rw [v8, v9, v10, hK]
    have eb : s.stack.sp - 2 - n = s'.stack.sp - 2 - info.argc := by omega
    rw [eb]
    refine Frames.pre (n := info.argc) ai.ht hent c2 v2 v4 v5 v6 w3 hnp ?_
    rw [v3]
    exact hfr.congr (fun i hi => v7 i hi)
  · intro t2 n2 ht2 _ hA2
    left
    rw [v9] at ht2
    have := ty_unique v11 ai.ht ht2
    subst this
    rw [v6] at hA2; cases hA2
    exact hneed

/-- CALL of a closure, with the description of the frame it creates: it starts at the first
    argument, and will restore the caller's `ep`, the instruction after the CALL, and the caller's `bp` -/
theorem call_closure_desc {cl : CodeLaws ops} {s s1 s' : St H} {K : List FDesc} {lam env : Nat}
    (hw : WFS cl s K) (hr : readOpcode ops s = .ok (.callAcc, s1))
    (hc : ops.callee s.heap s.acc = .closure lam env) (hs : step ops s = .ok (s', false)) :
    ∃ m, s.stack.cellAt s.stack.sp = .argc m ∧
      WFS cl s' (⟨s.stack.sp - m, .envPtr s.ep, .instrPtr s.ipL (s.ipO + 1), s.bp⟩ :: K) := by
  obtain ⟨t, st, ai, e1⟩ := hw.instr hr
  unfold step at hs
  rw [hr] at hs
  simp only [outcome_bind_ok] at hs
  obtain ⟨s2, he, hs⟩ := bind_inv hs
  cases hs
  have chk := ai.chk
  cases st <;> simp only [checkOp] at chk <;> try (exact absurd chk Bool.false_ne_true)
  unfold stepCall at he
  have hcal : ops.callee s1.heap s1.acc = ops.callee s.heap s.acc := by subst e1; rfl
  rw [hcal, hc] at he
  dsimp only at he
  cases he
  subst e1
  obtain ⟨tl, htl, hent⟩ := cl.callee_closure ai.hw.inv hc
  obtain ⟨m, hA, hd⟩ := pres_call_proc ai chk htl hent (by unfold enterLam; rw [hc])
  have e : s.stack.sp + 2 - 2 - m = s.stack.sp - m := by omega
  rw [e] at hd
  exact ⟨m, hA, hd⟩

/-- ENTER completes the frame the preceding CALL/TCALL described: same description, no temporaries -/
theorem enter_desc {cl : CodeLaws ops} {s s1 s' : St H} {D : FDesc} {R : List FDesc}
    (hw : WFS cl s (D :: R)) (hr : readOpcode ops s = .ok (.enter, s1))
    (hs : step ops s = .ok (s', false)) :
    WFS cl s' (D :: R) ∧ s'.stack.sp = s'.bp + 4 ∧
      ∃ n, s'.stack.cellAt (s'.bp + 1) = .argc n ∧ n ≤ s'.bp ∧ s'.bp + 1 - n = D.base := by
  obtain ⟨t, st, ai, e1⟩ := hw.instr hr
  have hw' := pres_enter ai hr hs
  have chk := ai.chk
  cases st <;> simp only [checkOp, Bool.and_eq_true] at chk <;> try (exact absurd chk Bool.false_ne_true)
  obtain ⟨hent, n, ep', l', o', K', hn, hI, hE, hA, hfr, hK⟩ := ai.hw.wf.frames.inv_pre ai.ht ai.hst
  unfold step at hs
  rw [hr] at hs
  simp only [outcome_bind_ok] at hs
  obtain ⟨s2, he, hs⟩ := bind_inv hs
  cases hs
  subst e1
  obtain ⟨q1, q2, q3, q4, q5⟩ := stepEnter_ok (cl := cl) (s := { s with ipO := s.ipO + 1 }) ai.hw.inv he
  simp only at q1 q2
  have hsp : s'.stack.sp = s.stack.sp + 1 := by rw [q1]; simp
  simp only [List.cons.injEq] at hK
  obtain ⟨hD, _⟩ := hK
  refine ⟨hw', by omega, n, ?_, by omega, ?_⟩
  · rw [q1, push_cellAt]
    have : ¬ s'.bp + 1 = s.stack.sp + 1 := by omega
    simp only [this, if_false]
    have : s'.bp + 1 = s.stack.sp - 2 := by omega
    rw [this]; exact hA
  · rw [hD]; show s'.bp + 1 - n = s.stack.sp - 2 - n; omega

/-- TCALL of a closure keeps the list of frame descriptions: the frame is replaced, not stacked -/
theorem tcall_closure_desc {cl : CodeLaws ops} {s s1 s' : St H} {K : List FDesc} {lam env : Nat}
    (hw : WFS cl s K) (hr : readOpcode ops s = .ok (.tcallAcc, s1))
    (hc : ops.callee s.heap s.acc = .closure lam env) (hs : step ops s = .ok (s', false)) :
    WFS cl s' K := by
  obtain ⟨t, st, ai, e1⟩ := hw.instr hr
  unfold step at hs
  rw [hr] at hs
  simp only [outcome_bind_ok] at hs
  obtain ⟨s2, he, hs⟩ := bind_inv hs
  cases hs
  have chk := ai.chk
  cases st <;> simp only [checkOp, Bool.and_eq_true] at chk <;> try (exact absurd chk Bool.false_ne_true)
  obtain ⟨c1, c2⟩ := chk
  have hent0 : t.entry = false := by simpa using c1
  have hcal : ops.callee s1.heap s1.acc = ops.callee s.heap s.acc := by subst e1; rfl
  rw [stepTCall_closure (by rw [hcal]; exact hc)] at he
  subst e1
  obtain ⟨tl, htl, hent⟩ := cl.callee_closure ai.hw.inv hc
  exact pres_tcall_proc ai hent0 htl hent (by unfold enterLam; rw [hc]) he

theorem vararg_desc {cl : CodeLaws ops} {s s1 s' : St H} {K : List FDesc}
    (hw : WFS cl s K) (hr : readOpcode ops s = .ok (.varArg, s1))
    (hs : step ops s = .ok (s', false)) : WFS cl s' K := by
  obtain ⟨t, st, ai, _⟩ := hw.instr hr
  exact pres_vararg ai hr hs

/-! ## the main theorem -/

/-- only HALT answers "halted" -/
theorem step_true_is_halt {s s' : St H} (hs : step ops s = .ok (s', true)) :
    ∃ s1, readOpcode ops s = .ok (.halt, s1) := by
  unfold step at hs
  obtain ⟨⟨op, s1⟩, hr, h⟩ := bind_inv hs
  cases op <;> dsimp only at h
  case halt => exact ⟨s1, hr⟩
  all_goals (repeat (obtain ⟨_, _, h⟩ := bind_inv h))
  all_goals (try (split at h))
  all_goals (try (cases h; done))

/-- **Preservation**: every instruction the machine executes successfully from a WF state leads to
    a WF state (all 16 opcodes; HALT, the only instruction that stops the machine, is
    `step_halt`); the ghost list of frame descriptions changes by at most one push (CALL of a
    procedure) or one pop (RET), except when a continuation is invoked. -/
theorem step_preserves {cl : CodeLaws ops} {s s' : St H} {K : List FDesc}
    (hw : WFS cl s K) (hs : step ops s = .ok (s', false)) :
    ∃ K', WFS cl s' K' ∧ KStep ops s s' K K' := by
  have hs0 := hs
  unfold step at hs0
  obtain ⟨⟨op, s1⟩, hr, _⟩ := bind_inv hs0
  obtain ⟨t, st, ai, _⟩ := hw.instr hr
  cases op with
  | cons => exact ⟨K, pres_cons ai hr hs, .inl rfl⟩
  | jmp => exact ⟨K, pres_jmp ai hr hs, .inl rfl⟩
  | jnt => exact ⟨K, pres_jnt ai hr hs, .inl rfl⟩
  | mov => exact ⟨K, pres_mov ai hr hs, .inl rfl⟩
  | movImm => exact ⟨K, pres_movImm ai hr hs, .inl rfl⟩
  | push => exact ⟨K, pres_push ai hr hs, .inl rfl⟩
  | pushAcc => exact ⟨K, pres_pushAcc ai hr hs, .inl rfl⟩
  | pushImm => exact ⟨K, pres_pushImm ai hr hs, .inl rfl⟩
  | halt => exact absurd (pres_halt ai hr hs).1 (by simp)
  | vpushAcc => exact ⟨K, pres_vpush ai hr hs, .inl rfl⟩
  | callAcc => exact pres_call ai hr hs
  | closureAcc => exact ⟨K, pres_closure ai hr hs, .inl rfl⟩
  | enter => exact ⟨K, pres_enter ai hr hs, .inl rfl⟩
  | ret =>
    obtain ⟨d, K', h1, h2, h3⟩ := pres_ret ai hr hs
    exact ⟨K', h2, .inr (.inr (.inl ⟨d, h1, h3⟩))⟩
  | tcallAcc => exact pres_tcall ai hr hs
  | varArg => exact ⟨K, pres_vararg ai hr hs, .inl rfl⟩

/-- HALT in a WF state: only entry code contains it, with no temporaries — the stack pointer is
    the one the evaluation was entered with -/
theorem step_halt {cl : CodeLaws ops} {s s' : St H} {K : List FDesc}
    (hw : WFS cl s K) (hs : step ops s = .ok (s', true)) :
    s'.stack = s.stack ∧ s.stack.sp = cl.e := by
  obtain ⟨s1, hr⟩ := step_true_is_halt hs
  obtain ⟨t, st, ai, _⟩ := hw.instr hr
  exact (pres_halt ai hr hs).2

end Marwood.Vm
