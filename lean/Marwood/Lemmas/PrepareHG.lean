import Marwood.Lemmas.PrepareDefs
import Marwood.Lemmas.GoodAlloc
/-!
# One allocator step of the loader (`InstStep`, Lemmas/PrepareDefs.lean) preserves the heap invariant `HG`

`cell` / `sym` are `put_core` / `putNew_hg` of Lemmas/GoodAlloc.lean; `glob` and `resym` do not touch what the
erasure `toHeap` reads except for the representation of the symbol table (same lookup function).
-/
namespace Marwood.Lemmas.Good
open Marwood Marwood.Vm Marwood.Vm.Verify Marwood.Vm.Concrete Marwood.Lemmas.Sim
open Marwood.Heap (GcState WFHeap RootsOk vrefs vrefsList crefs)
open Marwood.Lemmas.HeapWFOps (VCell.isSymbol)

/-! ## sizes -/

theorem instStep_size {Q : CHeap → CLambda → Prop} {h h' : CHeap} (st : InstStep Q h h') : h.cells.size ≤ h'.cells.size := by
  cases st with
  | cell _ _ _ _ => exact cput_size h _
  | sym _ _ => exact putNew_size h _
  | glob _ => exact Nat.le_refl _
  | resym _ _ => exact Nat.le_refl _

theorem instSteps_size {Q : CHeap → CLambda → Prop} {h h' : CHeap} (st : InstSteps Q h h') : h.cells.size ≤ h'.cells.size := by
  induction st with
  | refl _ => exact Nat.le_refl _
  | step s _ ih => exact Nat.le_trans (instStep_size s) ih

/-! ## the content of a new cell -/

theorem addrFree_plainVal {v : VCell} (hf : addrFree v = true) : plainVal v = true := by
  cases v <;> first | rfl | simp [addrFree] at hf

theorem NewCellOk.cellOk {Q : CLambda → Prop} (hQ : ∀ cl, Q cl → LamOk cl) (h : CHeap) {c : CCell}
    (x : NewCellOk Q c) : CellOk h c := by
  cases x with
  | pair a d => exact (rfl : plainVal (.pair a d) = true)
  | atom hf _ => exact addrFree_plainVal hf
  | vector es => exact True.intro
  | lambda q => exact hQ _ q

theorem NewCellOk.nonsym {Q : CLambda → Prop} {c : CCell} (x : NewCellOk Q c) : ¬ VCell.isSymbol (eraseC c) := by
  cases x with
  | pair a d => simp [eraseC, eraseV, VCell.isSymbol]
  | atom _ hs => exact eraseV_nonsym hs
  | vector es => simp [eraseC, VCell.isSymbol]
  | lambda q => simp [eraseC, VCell.isSymbol]

/-- the global roots stay allocated in a later heap with the same global environment -/
theorem GlobRoots.mono {h h' : CHeap} (gr : GlobRoots h) (m : Mono h h') (e1 : h'.globals = h.globals)
    (e2 : h'.globSyms = h.globSyms) : GlobRoots h' :=
  ⟨fun y hy => (gr.1 y (e2 ▸ hy)).mono m, fun v hv => (gr.2 v (e1 ▸ hv)).mono m⟩

/-! ## one step -/

theorem instStep_hg {Q : CHeap → CLambda → Prop} (hQ : ∀ h cl, Q h cl → LamOk cl) {h h' : CHeap} (st : InstStep Q h h')
    (g : HG h) (gr : GlobRoots h) (sm : Small h') : HG h' ∧ Mono h h' ∧ GlobRoots h' := by
  cases st with
  | @cell c nc hr _ _ =>
    have a := calloc_spec h (HInv.of_wf g.wf)
    have r := put_core g (nc.cellOk (hQ h) h) hr sm rfl a.globals a.globSyms (toHeap_cput (HInv.of_wf g.wf) c nc.nonsym)
    exact ⟨r.hg, r.mono, gr.mono r.mono r.globals r.globSyms⟩
  | @sym v name hs _ =>
    obtain ⟨tag, rfl, _⟩ := symOf_some hs
    have r := (putNew_hg g (VRefsOk.of_addrFree h (v := .opaque tag) rfl) rfl sm).1
    exact ⟨r.hg, r.mono, gr.mono r.mono r.globals r.globSyms⟩
  | @glob y hy =>
    refine ⟨⟨g.wf, ⟨g.plain.cells, ?_, g.plain.conts⟩, g.lam, fun i ss hc v hv => ?_⟩, ⟨Nat.le_refl _, fun _ x => x⟩, ?_, ?_⟩
    · intro v hv
      rcases Array.mem_push.mp (Array.mem_toList_iff.mp hv) with hv | rfl
      · exact g.plain.globals v (Array.mem_toList_iff.mpr hv)
      · rfl
    · rcases g.env i ss hc v hv with x | ⟨e, k, ss', w, h1, h2, h3, h4⟩
      · exact .inl x
      · exact .inr ⟨e, k, ss', w, h1, h2, h3, h4⟩
    · intro z hz
      rcases List.mem_cons.mp hz with rfl | hz
      · exact .inl hy
      · exact gr.1 z hz
    · intro v hv
      rcases Array.mem_push.mp (Array.mem_toList_iff.mp hv) with hv | rfl
      · exact gr.2 v (Array.mem_toList_iff.mpr hv)
      · exact VRefsOk.of_addrFree _ rfl
  | @resym tab gs hl hgs =>
    have wf := g.wf
    refine ⟨⟨⟨⟨wf.sizes, wf.shape, wf.bound, wf.free_iff, wf.nodup, wf.free_undef, ?_, wf.closed⟩, wf.no_used⟩,
      ⟨g.plain.cells, g.plain.globals, g.plain.conts⟩, g.lam, fun i ss hc v hv => ?_⟩,
      ⟨Nat.le_refl _, fun _ x => x⟩, fun z hz => gr.1 z ((hgs z).mp hz), gr.2⟩
    · intro name i
      have e : (toHeap { h with symtab := tab, globSyms := gs }).symLookup name = (toHeap h).symLookup name := hl name
      rw [e]
      exact wf.interned name i
    · rcases g.env i ss hc v hv with x | ⟨e, k, ss', w, h1, h2, h3, h4⟩
      · exact .inl x
      · exact .inr ⟨e, k, ss', w, h1, h2, h3, h4⟩

/-! ## a sequence of steps -/

theorem instSteps_hg {Q : CHeap → CLambda → Prop} (hQ : ∀ h cl, Q h cl → LamOk cl) {h h' : CHeap} (st : InstSteps Q h h')
    (g : HG h) (gr : GlobRoots h) (sm : Small h') : HG h' ∧ Mono h h' ∧ GlobRoots h' := by
  induction st with
  | refl _ => exact ⟨g, .refl _, gr⟩
  | step s rest ih =>
    obtain ⟨g1, m1, gr1⟩ := instStep_hg hQ s g gr (sm.of_le (instSteps_size rest))
    obtain ⟨g2, m2, gr2⟩ := ih g1 gr1 sm
    exact ⟨g2, m1.trans m2, gr2⟩

end Marwood.Lemmas.Good
