import Marwood.Lemmas.ProcInvMain
import Marwood.Lemmas.NoPanicPath
import Marwood.Lemmas.NoPanicLocal
import Marwood.Vm.NoPanicCheck
/-!
# T06.6 on the concrete machine: the two further invariant clauses, and the laws of the unmodelled parts

* `HeapNP h` — every lambda cell: code containing VARARG has a formal (`args.len() - 1` of VARARG), every
  `Argument(a)` source of the environment map has `a ≤ args.len()` (ENTER's `argc - arg`). Lambda cells are only
  created by the compiler (`prepare_eval`, the `eval` builtin): a law of those (`ExtNoPanic.*_lam`, `CompNoPanic`).
* `ContBound n h` — every continuation cell's stack copy has at most `n` cells; `ContFits s` — with `n` the capacity
  of the current stack: exactly what `restore_continuation`'s `split_at_mut` needs. Continuation cells are only
  created by `call/cc` (`to_continuation`: `stack[0..=sp]`, at most the current capacity) and the stack never
  shrinks (`step_len_mono`; `Stack::clear` and the error reset keep the capacity): `npinv_step`, `npinv_gc`,
  `npinv_onDone`, `npinv_onError`.
* `NPInv s` — both. `ExtNoPanic ext` — the unmodelled operations do not panic (on allocated, value arguments of a
  heap satisfying the heap-simulation invariant: the premises of `ExtGood`) and create neither continuation cells
  that do not fit nor lambda cells violating `LamNP`.
* `EnvSlots s` — the slot-index `expect`s of CLOSURE's / ENTER's environment construction at the current
  instruction (state-local; see `Lemmas/NoPanicMain.lean` for its status).

The executable counterparts are in `Vm/NoPanicCheck.lean`; soundness at the end of this file.
-/
namespace Marwood.Lemmas.Good
open Marwood Marwood.Vm Marwood.Vm.Verify Marwood.Vm.Concrete Marwood.Lemmas.Sim
open Marwood.Heap (GcState)

/-! ## the clauses -/

structure LamNP (l : CLambda) : Prop where
  vararg : VCell.opcode .varArg ∈ l.bc → 1 ≤ l.args.length
  argSrc : ∀ p ∈ l.envmap, ∀ a, p.2 = Source.arg a → a ≤ l.args.length

/-- every cell of the heap satisfies `Q` -/
def AllCells (Q : CCell → Prop) (h : CHeap) : Prop := ∀ (i : Nat) (c : CCell), h.cells[i]? = some c → Q c

/-- `Q` does not constrain value cells and lexical environments -/
structure QFree (Q : CCell → Prop) : Prop where
  val : ∀ v, Q (.val v)
  env : ∀ ss, Q (.lexEnv ss)

def lamQ : CCell → Prop := fun c => ∀ l, c = CCell.lambda l → LamNP l
def contQ (n : Nat) : CCell → Prop := fun c => ∀ k, c = CCell.cont k → k.stack.cells.length ≤ n

def HeapNP (h : CHeap) : Prop := AllCells lamQ h
def ContBound (n : Nat) (h : CHeap) : Prop := AllCells (contQ n) h
def ContFits (s : St CHeap) : Prop := ContBound s.stack.cells.length s.heap

theorem lamQ_free : QFree lamQ := ⟨fun _ _ h => (by cases h), fun _ _ h => (by cases h)⟩
theorem contQ_free (n : Nat) : QFree (contQ n) := ⟨fun _ _ h => (by cases h), fun _ _ h => (by cases h)⟩

theorem ContBound.mono {n m : Nat} {h : CHeap} (c : ContBound n h) (le : n ≤ m) : ContBound m h :=
  fun i cc hc k hk => Nat.le_trans (c i cc hc k hk) le

theorem ContBound.cell {n : Nat} {h : CHeap} (c : ContBound n h) {p : Nat} {k : Cont}
    (hc : h.cells[p]? = some (CCell.cont k)) : k.stack.cells.length ≤ n := c p _ hc k rfl

theorem HeapNP.cell {h : CHeap} (a : HeapNP h) {p : Nat} {l : CLambda} (hc : h.cells[p]? = some (CCell.lambda l)) :
    LamNP l := a p _ hc l rfl

structure NPInv (s : St CHeap) : Prop where
  lam : HeapNP s.heap
  cont : ContFits s

/-- the slot-index expectations of CLOSURE / ENTER at the current instruction -/
structure EnvSlots (s : St CHeap) : Prop where
  closure : ∀ l p lam' ss, lambdaAt s.heap s.ipL = some l → l.bc[s.ipO]? = some (.opcode .closureAcc) →
    s.acc = .ptr p → lambdaAt s.heap p = some lam' → envAt s.heap s.ep = some ss →
    ∀ x ∈ lam'.envmap, ∀ k, x.2 = Source.iofEnv k → k < ss.length
  enter : ∀ l lam env l' ss, lambdaAt s.heap s.ipL = some l → l.bc[s.ipO]? = some (.opcode .enter) →
    callee s.heap s.acc = .closure lam env → lambdaAt s.heap lam = some l' → envAt s.heap env = some ss →
    l'.envmap.length ≤ ss.length

/-! ## the allocator and the modelled heap operations keep `AllCells Q` -/

section alloc
variable {Q : CCell → Prop}

theorem AllCells.of_cells {h h' : CHeap} (a : AllCells Q h) (e : h'.cells = h.cells) : AllCells Q h' := by
  intro i c hc; rw [e] at hc; exact a i c hc

theorem cgrow_all (q : QFree Q) {h : CHeap} (a : AllCells Q h) : AllCells Q (cgrow h) := by
  intro i c hc
  by_cases hl : i < h.cells.size
  · rw [cgrow_cells_old h hl] at hc; exact a i c hc
  · have := cgrow_cells_new h (by omega) hc
    subst this; exact q.val _

theorem calloc_all (q : QFree Q) {h : CHeap} (a : AllCells Q h) : AllCells Q (calloc h).1 := by
  unfold calloc
  split
  · exact a.of_cells rfl
  · simp only
    split
    · exact (cgrow_all q a).of_cells rfl
    · exact cgrow_all q a

theorem cwrite_all {h : CHeap} (a : AllCells Q h) (p : Nat) {c : CCell} (hc : Q c) : AllCells Q (cwrite h p c) := by
  intro i c' hc'
  rw [cwrite_cells] at hc'
  split at hc'
  · cases hc'; exact hc
  · exact a i c' hc'

theorem cput_all (q : QFree Q) {h : CHeap} (a : AllCells Q h) {c : CCell} (hc : Q c) : AllCells Q (cput h c).1 :=
  cwrite_all (calloc_all q a) _ hc

theorem putNew_all (q : QFree Q) {h : CHeap} (a : AllCells Q h) (v : VCell) : AllCells Q (putNew h v).1 := by
  unfold putNew
  split
  · split
    · exact a
    · exact (cput_all q a (q.val v)).of_cells rfl
  · exact cput_all q a (q.val v)

theorem putV_all (q : QFree Q) {h : CHeap} (a : AllCells Q h) (v : VCell) : AllCells Q (putV h v).1 := by
  unfold putV
  split
  · exact a
  · exact putNew_all q a v

theorem maybePutV_all (q : QFree Q) {h : CHeap} (a : AllCells Q h) (v : VCell) : AllCells Q (maybePutV h v).1 := by
  unfold maybePutV
  split
  · exact a
  · exact putNew_all q a v

theorem envPut_all (q : QFree Q) {h h' : CHeap} (a : AllCells Q h) {e k : Nat} {v : VCell}
    (hp : envPut h e k v = some h') : AllCells Q h' := by
  unfold envPut at hp
  split at hp
  · split at hp
    · cases hp; exact cwrite_all a _ (q.env _)
    · cases hp
  · cases hp

theorem makeClosure_all (q : QFree Q) {h h' : CHeap} (a : AllCells Q h) {lam ep bp : Nat} {st : Stack} {c : VCell}
    (hm : makeClosure h lam ep bp st = .ok (h', c)) : AllCells Q h' := by
  unfold makeClosure at hm
  split at hm
  · cases hm
  · obtain ⟨slots, _, hm⟩ := bind_inv hm
    cases hm
    exact cput_all q (cput_all q a (q.env slots)) (q.val _)

theorem makeActivation_all (q : QFree Q) {h h' : CHeap} (a : AllCells Q h) {lam env bp : Nat} {st : Stack} {e : Nat}
    (hm : makeActivation h lam env bp st = .ok (h', e)) : AllCells Q h' := by
  unfold makeActivation at hm
  split at hm
  · cases hm
  · split at hm
    · cases hm
    · obtain ⟨slots, _, hm⟩ := bind_inv hm
      cases hm
      exact cput_all q a (q.env slots)

end alloc

/-! ## the collector -/

theorem cgc_all {Q : CCell → Prop} (q : QFree Q) (force : Bool) {s : St CHeap} (a : AllCells Q s.heap) :
    AllCells Q (cgc force s).heap := by
  rcases cgc_cases force s with e | ⟨h', _, e⟩
  · rw [e]; exact a
  · rw [e]
    intro i c hc
    by_cases hu : c = CCell.val .undefined
    · subst hu; exact q.val _
    · exact a i c (liftGc_code hc hu).1

/-! ## the laws of the unmodelled parts -/

/-- **What T06.6 needs of the unmodelled operations** (a parameter, not an axiom): the generic builtins (T06.2's
    subject), `eval`'s compiler and VPUSH's vector push do not panic — on a heap satisfying the heap-simulation
    invariant and allocated, value arguments, the premises of `ExtGood` —, create no continuation object whose
    stack copy is longer than those there are (`Continuation` is only constructed by `call/cc`), and every lambda
    object they create (`eval`: `compile_lambda`) has a formal when its code contains VARARG and environment-map
    `Argument` indices within its formals. -/
structure ExtNoPanic (ext : ExtOps) : Prop where
  builtinEval_np : ∀ (h : CHeap) (id : Nat) (args : List VCell), HG h → (∀ a ∈ args, VOk h a) →
    Outcome.NoPanic (ext.builtinEval h id args)
  compileEval_np : ∀ (h : CHeap) (d : VCell), HG h → VRefsOk h d → Outcome.NoPanic (ext.compileEval h d)
  vectorPush_np : ∀ (h : CHeap) (vec a : VCell), HG h → VRefsOk h vec → VOk h a →
    Outcome.NoPanic (ext.vectorPush h vec a)
  builtinEval_cont : ∀ {h h' : CHeap} {id : Nat} {args : List VCell} {v : VCell} (n : Nat),
    ext.builtinEval h id args = .ok (h', v) → ContBound n h → ContBound n h'
  compileEval_cont : ∀ {h h' : CHeap} {d v : VCell} (n : Nat),
    ext.compileEval h d = .ok (h', v) → ContBound n h → ContBound n h'
  vectorPush_cont : ∀ {h h' : CHeap} {vec a : VCell} (n : Nat),
    ext.vectorPush h vec a = .ok h' → ContBound n h → ContBound n h'
  builtinEval_lam : ∀ {h h' : CHeap} {id : Nat} {args : List VCell} {v : VCell},
    ext.builtinEval h id args = .ok (h', v) → HeapNP h → HeapNP h'
  compileEval_lam : ∀ {h h' : CHeap} {d v : VCell}, ext.compileEval h d = .ok (h', v) → HeapNP h → HeapNP h'
  vectorPush_lam : ∀ {h h' : CHeap} {vec a : VCell}, ext.vectorPush h vec a = .ok h' → HeapNP h → HeapNP h'

/-- the same for the compiler inside `prepare_eval` -/
structure CompNoPanic (comp : CHeap → VCell → Outcome (CHeap × VCell)) : Prop where
  cont : ∀ {h h' : CHeap} {d v : VCell} (n : Nat), comp h d = .ok (h', v) → ContBound n h → ContBound n h'
  lam : ∀ {h h' : CHeap} {d v : VCell}, comp h d = .ok (h', v) → HeapNP h → HeapNP h'

/-! ## one instruction -/

section step
variable {ext : ExtOps}

theorem heapStep_contBound (en : ExtNoPanic ext) {n : Nat} {h h' : CHeap}
    (hs : HeapStep (concreteOps ext) h h') (a : ContBound n h) : ContBound n h' := by
  cases hs with
  | put v => exact putV_all (contQ_free n) a v
  | maybePut v => exact maybePutV_all (contQ_free n) a v
  | globPut k v => exact a.of_cells rfl
  | envPut he => exact envPut_all (contQ_free n) a he
  | makeClosure he => exact makeClosure_all (contQ_free n) a he
  | makeActivation he => exact makeActivation_all (contQ_free n) a he
  | vectorPush he => exact en.vectorPush_cont n he a
  | builtinEval he => exact en.builtinEval_cont n he a
  | compileEval he => exact en.compileEval_cont n he a

theorem heapStep_heapNP (en : ExtNoPanic ext) {h h' : CHeap}
    (hs : HeapStep (concreteOps ext) h h') (a : HeapNP h) : HeapNP h' := by
  cases hs with
  | put v => exact putV_all lamQ_free a v
  | maybePut v => exact maybePutV_all lamQ_free a v
  | globPut k v => exact a.of_cells rfl
  | envPut he => exact envPut_all lamQ_free a he
  | makeClosure he => exact makeClosure_all lamQ_free a he
  | makeActivation he => exact makeActivation_all lamQ_free a he
  | vectorPush he => exact en.vectorPush_lam he a
  | builtinEval he => exact en.builtinEval_lam he a
  | compileEval he => exact en.compileEval_lam he a

theorem hpath_contBound (en : ExtNoPanic ext) {n : Nat} {h h' : CHeap}
    (hp : HPath (concreteOps ext) n h h') (a : ContBound n h) : ContBound n h' := by
  refine HPath.closed (P := ContBound n) (fun _ _ x hs => heapStep_contBound en hs x) ?_ ?_ hp a
  · intro h1 p v x
    exact cwrite_all x p ((contQ_free n).val v)
  · intro h1 c x hl
    show AllCells (contQ n) (cput h1 (CCell.cont c)).1
    refine cput_all (contQ_free n) x ?_
    intro k hk; cases hk; exact hl

theorem hpath_heapNP (en : ExtNoPanic ext) {n : Nat} {h h' : CHeap}
    (hp : HPath (concreteOps ext) n h h') (a : HeapNP h) : HeapNP h' := by
  refine HPath.closed (P := HeapNP) (fun _ _ x hs => heapStep_heapNP en hs x) ?_ ?_ hp a
  · intro h1 p v x
    exact cwrite_all x p (lamQ_free.val v)
  · intro h1 c x _
    show AllCells lamQ (cput h1 (CCell.cont c)).1
    refine cput_all lamQ_free x ?_
    intro l hl; cases hl

/-- **`NPInv` is preserved by `run_one`**: `call/cc` copies at most the current capacity, nothing else creates a
    continuation, and the capacity never decreases -/
theorem npinv_step (en : ExtNoPanic ext) {s s' : St CHeap} {b : Bool}
    (hs : step (concreteOps ext) s = .ok (s', b)) (i : NPInv s) : NPInv s' :=
  ⟨hpath_heapNP en (step_hpath hs) i.lam,
   (hpath_contBound en (step_hpath hs) i.cont).mono (step_len_mono hs)⟩

end step

/-- **… by the collector** (it touches neither the stack nor the content of a cell it keeps) -/
theorem npinv_gc (force : Bool) {s : St CHeap} (i : NPInv s) : NPInv (cgc force s) := by
  refine ⟨cgc_all lamQ_free force i.lam, ?_⟩
  show ContBound (cgc force s).stack.cells.length (cgc force s).heap
  rw [(cgc_regs force s).1]
  exact cgc_all (contQ_free _) force i.cont

/-- **… by the success epilogue** (`Stack::clear` keeps the capacity) -/
theorem npinv_onDone {s : St CHeap} (i : NPInv s) : NPInv (onDone s) := by
  refine ⟨i.lam, ?_⟩
  show ContBound (List.replicate s.stack.cells.length VCell.undefined).length s.heap
  rw [List.length_replicate]; exact i.cont

/-- **… by the error epilogue** (the reset keeps the capacity) -/
theorem npinv_onError {s : St CHeap} (i : NPInv s) : NPInv (onError s) := by
  refine ⟨i.lam, ?_⟩
  show ContBound (List.replicate s.stack.cells.length VCell.undefined).length s.heap
  rw [List.length_replicate]; exact i.cont

/-- **… by `prepare_eval`** under the compiler's law -/
theorem npinv_prepare {comp : CHeap → VCell → Outcome (CHeap × VCell)} (cn : CompNoPanic comp) {s s' : St CHeap}
    {d : VCell} (i : NPInv s) (hp : prepareEval comp s d = .ok s') : NPInv s' := by
  obtain ⟨h', e, hc, rfl⟩ := prepareEval_inv hp
  exact ⟨cn.lam hc i.lam, cn.cont _ hc i.cont⟩

/-- pointing `ip` at an entry lambda already in the heap -/
theorem npinv_prepare_entry {s : St CHeap} (i : NPInv s) (entry : Nat) : NPInv (prepare s entry) := ⟨i.lam, i.cont⟩

/-! ## soundness of the executable clauses -/

theorem lamNPB_sound {l : CLambda} (hb : lamNPB l = true) : LamNP l := by
  unfold lamNPB at hb
  simp only [Bool.and_eq_true, Bool.or_eq_true, Bool.not_eq_true', decide_eq_true_eq] at hb
  obtain ⟨h1, h2⟩ := hb
  refine ⟨?_, ?_⟩
  · intro hm
    rcases h1 with h1 | h1
    · have : l.bc.contains (VCell.opcode .varArg) = true := List.contains_iff_mem.mpr hm
      rw [this] at h1; cases h1
    · exact h1
  · intro p hp a ha
    rw [List.all_eq_true] at h2
    have := h2 p hp
    rw [ha] at this
    simpa using this

theorem heapNPB_sound {h : CHeap} (hb : heapNPB h = true) : HeapNP h := by
  intro i c hc l hl
  unfold heapNPB at hb
  rw [Array.all_eq_true] at hb
  have hlt : i < h.cells.size := lt_of_get_some hc
  have := hb i hlt
  rw [Array.getElem?_eq_getElem hlt] at hc
  cases hc
  rw [hl] at this
  exact lamNPB_sound this

theorem contBoundB_sound {n : Nat} {h : CHeap} (hb : contBoundB n h = true) : ContBound n h := by
  intro i c hc k hk
  unfold contBoundB at hb
  rw [Array.all_eq_true] at hb
  have hlt : i < h.cells.size := lt_of_get_some hc
  have := hb i hlt
  rw [Array.getElem?_eq_getElem hlt] at hc
  cases hc
  rw [hk] at this
  simpa using this

theorem npinv_of_check {s : St CHeap} (h1 : heapNPB s.heap = true) (h2 : contFitsB s = true) : NPInv s :=
  ⟨heapNPB_sound h1, contBoundB_sound h2⟩

theorem envSlotsB_sound {s : St CHeap} (hb : envSlotsB s = true) : EnvSlots s := by
  refine ⟨?_, ?_⟩
  · intro l p lam' ss hl hop hacc hlam hss x hx k hk
    unfold envSlotsB at hb
    simp only [hl, hop, hacc, hlam, hss] at hb
    unfold iofEnvFitB at hb
    rw [List.all_eq_true] at hb
    have := hb x hx
    rw [hk] at this
    simpa using this
  · intro l lam env l' ss hl hop hc hlam hss
    unfold envSlotsB at hb
    simp only [hl, hop, hc, hlam, hss] at hb
    simpa using hb

end Marwood.Lemmas.Good
