import Marwood.Transform.Model
import Marwood.Spec.Match
/-!
# Basic facts shared by the C17 proofs: cell equality against symbols, the identifier setup that
relates the model's ellipsis / literal cells to the spec's names, the class of *plain* data.
-/
namespace Marwood.Transform
open Marwood Marwood.Spec.Match

theorem beq_text (a b : Text) : (a == b) = decide (a = b) := by
  by_cases h : a = b <;> simp [h]

theorem beq_text_comm (a b : Text) : (a == b) = (b == a) := by
  rw [beq_text, beq_text]
  by_cases h : a = b
  · subst h; rfl
  · have h' : ¬ b = a := fun e => h e.symm
    simp [h, h']

@[simp] theorem cellEq_sym_left (s : Text) (e : Datum) : cellEq (.sym s) e = decide (e = .sym s) := by
  cases e <;> simp [cellEq]
  rename_i t
  by_cases h : s = t
  · subst h; simp
  · have h' : ¬ t = s := fun e => h e.symm
    simp [h, h']

@[simp] theorem cellEq_sym_right (s : Text) (e : Datum) : cellEq e (.sym s) = decide (e = .sym s) := by
  cases e <;> simp [cellEq, beq_text]

theorem cellEq_nil_left (e : Datum) : cellEq .nil e = decide (e = .nil) := by
  cases e <;> simp [cellEq]

/-- the identifiers of a transformer: the ellipsis name and the literal names -/
structure Setup where
  es : Text
  litNames : List Text
  hne : es ∉ litNames

namespace Setup
def ell (s : Setup) : Datum := .sym s.es
def lits (s : Setup) : List Datum := s.litNames.map Datum.sym
def ctx (s : Setup) : Ctx := { ellipsis := s.es, literals := s.litNames }

theorem lits_any (s : Setup) (x : Text) :
    (s.lits.any fun it => cellEq it (.sym x)) = s.ctx.isLit x := by
  simp only [lits, ctx, Ctx.isLit, List.any_map]
  induction s.litNames with
  | nil => simp
  | cons a as ih =>
    simp only [List.any_cons, Function.comp, List.contains_cons, ih]
    congr 1
    simp [beq_text]; exact eq_comm

theorem isEll_iff (s : Setup) (x : Text) : s.ctx.isEll x = (x == s.es) := by
  simp only [Ctx.isEll, ctx, Ctx.isLit]
  by_cases h : x = s.es
  · subst h; simp [s.hne]
  · simp [h]

theorem isEllD_eq (s : Setup) (d : Datum) : s.ctx.isEllD d = cellEq d s.ell := by
  cases d <;> simp [Ctx.isEllD, ell, isEll_iff, beq_text]

end Setup

/-- plain data for ellipsis name `es`: proper lists all the way down, no vectors, and the ellipsis
    does not occur. The class "no ellipsis" of T17.1. -/
def plain (es : Text) : Datum → Bool
  | .sym s => s != es
  | .pair a d => plain es a && plainTail es d
  | .vec _ => false
  | _ => true
where
  plainTail (es : Text) : Datum → Bool
    | .pair a d => plain es a && plainTail es d
    | .nil => true
    | _ => false

end Marwood.Transform
