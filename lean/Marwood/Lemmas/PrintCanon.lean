import Marwood.Lemmas.PrintRoundtrip
/-!
# `canon d` is `d` up to number representation, and prints the same (C10, T10.1 second half)
-/
namespace Marwood
open Marwood.Proofs.C16

variable (fo : FloatOps)

/-- `≈` of T10.1: same structure, characters, strings, symbols; numbers equal in exactness and value
(doubles bit for bit) -/
inductive SameDatum : Datum → Datum → Prop
  | refl (d : Datum) : SameDatum d d
  | num (a b : Num) : isExact a = true → isExact b = true → SameValue a b → SameDatum (.num a) (.num b)
  | pair {a a' d d' : Datum} : SameDatum a a' → SameDatum d d' → SameDatum (.pair a d) (.pair a' d')
  | vec {e e' : Datum} : SameDatum e e' → SameDatum (.vec e) (.vec e')

theorem canon_same (d : Datum) : SameDatum (canon d) d := by
  induction d with
  | num n =>
    cases n with
    | flo f => exact .refl _
    | fix m => exact .refl _
    | big m =>
      have := normalize_exact (.big m) rfl
      exact .num _ _ this.1 rfl this.2
    | rat m k =>
      have := normalize_exact (.rat m k) rfl
      exact .num _ _ this.1 rfl this.2
  | pair a d iha ihd => exact .pair iha ihd
  | vec e ih => exact .vec ih
  | _ => exact .refl _

theorem printNumber_normalize (n : Num) : printNumber fo (normalize n) = printNumber fo n := by
  cases n with
  | fix m => rfl
  | flo f => rfl
  | big m =>
    simp only [normalize]
    split <;> rfl
  | rat m d =>
    simp only [normalize]
    split
    · rename_i h; subst h; simp [printNumber, ratDigits]
    · rfl

theorem isQuoteForm_canon (a d : Datum) : isQuoteForm (canon a) (canon d) = isQuoteForm a d := by
  cases a <;> cases d <;> try rfl
  rename_i s x y
  cases y <;> rfl

/-- the written (and displayed) form does not change under `canon` -/
theorem print_canon (alt : Bool) : ∀ d : Datum,
    printD fo alt (canon d) = printD fo alt d ∧ printRest fo alt (canon d) = printRest fo alt d ∧
    printElems fo alt (canon d) = printElems fo alt d ∧ printCadr fo alt (canon d) = printCadr fo alt d ∧
    (canon d).isPair = d.isPair := by
  intro d
  induction d with
  | num n =>
    refine ⟨?_, ?_, ?_, ?_, rfl⟩
    · rw [canon, printD, printD, printAtom_num, printAtom_num, printNumber_normalize]
    · rw [canon, printRest, printRest, printAtom_num, printAtom_num, printNumber_normalize]
    · rw [canon, printElems, printElems] <;> (intro x y e; cases e)
    · rw [canon, printCadr, printCadr] <;> (intro x y e; cases e)
  | pair a d iha ihd =>
    refine ⟨?_, ?_, ?_, ?_, rfl⟩
    · simp only [canon, printD, isQuoteForm_canon, iha.1, ihd.2.1, ihd.2.2.2.1]
    · simp only [canon, printRest, iha.1, ihd.2.1]
    · simp only [canon, printElems, iha.1, ihd.2.2.1, ihd.2.2.2.2]
    · simp only [canon, printCadr, iha.1]
  | vec e ih =>
    refine ⟨?_, ?_, ?_, ?_, rfl⟩
    · simp only [canon, printD, ih.2.2.1]
    · simp only [canon, printRest, ih.2.2.1]
    · rw [canon, printElems, printElems] <;> (intro x y e; cases e)
    · rw [canon, printCadr, printCadr] <;> (intro x y e; cases e)
  | _ => exact ⟨rfl, rfl, rfl, rfl, rfl⟩

theorem write_canon (d : Datum) : write fo (canon d) = write fo d := (print_canon fo true d).1

/-! ## plain identifiers are readable symbols -/

theorem identShape_symTok {s : Text} (h : identShape s = true) : SymTok fo s :=
  fun rest hd => Or.inl (scansAs_ident h rest hd)

theorem numSymShape_symTok {s : Text} (h : numSymShape s = true) : SymTok fo s :=
  fun rest hd => Or.inl (scansAs_numSym h rest hd)

end Marwood
