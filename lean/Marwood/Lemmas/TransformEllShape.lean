import Marwood.Lemmas.TransformEllBuild
import Marwood.Lemmas.TransformEllMatch2
import Marwood.Lemmas.TransformEllRep
/-!
# Patterns with ellipsis depth ≤ 1: the shape of R7RS's bindings, and the correspondence `Corr`

`nn es P`: in pattern `P` every sub-pattern followed by the ellipsis is ellipsis-free (`plain`), and
there is no vector. Then a match binds every variable outside an ellipsis to `one d` and every
variable under an ellipsis to `many [one d₁, …]`.
-/
namespace Marwood.Transform
open Marwood Marwood.Spec.Match

/-- no nested ellipsis: what precedes an ellipsis is ellipsis-free -/
def nn (es : Text) : Datum → Bool
  | .pair a (.pair e rest) =>
    if e = .sym es then plain es a && nn es rest else nn es a && nn es (.pair e rest)
  | .pair a d => nn es a && nn es d
  | .vec _ => false
  | _ => true

/-- the shape of a binding at ellipsis depth ≤ 1 -/
def ShapeOK (ev : List Text) (bs : Binds) : Prop :=
  ∀ x t, (x, t) ∈ bs → (x ∈ ev → ∃ ds : List Datum, t = .many (ds.map MTree.one)) ∧ (x ∉ ev → ∃ d, t = .one d)

theorem all_one_map (L : List MTree) (h : ∀ t ∈ L, ∃ d, t = MTree.one d) :
    ∃ ds : List Datum, L = ds.map MTree.one := by
  induction L with
  | nil => exact ⟨[], rfl⟩
  | cons t L ih =>
    obtain ⟨d, hd⟩ := h t (by simp)
    obtain ⟨ds, hds⟩ := ih (fun t' ht' => h t' (List.mem_cons_of_mem _ ht'))
    exact ⟨d :: ds, by simp [hd, hds]⟩

theorem leaves_many_one (ds : List Datum) : leaves (.many (ds.map MTree.one)) = ds := by
  simp only [leaves]
  induction ds with
  | nil => rfl
  | cons d ds ih => simp [leaves.leavesL, leaves, ih]

theorem mem_keys_of_mem {x : Text} {t : MTree} {bs : Binds} (h : (x, t) ∈ bs) : x ∈ bs.map Prod.fst :=
  List.mem_map.mpr ⟨(x, t), h, rfl⟩

theorem shape_collect (s : Setup) (p : Datum) (hp : plain s.es p = true) (xs : List Datum)
    (bsl : List Binds) (h : xs.mapM (fun x => specMatch s.ctx p x) = some bsl) :
    ∀ x t, (x, t) ∈ collect (patVars s.ctx p) bsl → ∃ ds : List Datum, t = .many (ds.map MTree.one) := by
  intro x t hm
  simp only [collect, List.mem_map] at hm
  obtain ⟨v, _, hv⟩ := hm
  have hvx : v = x := by injection hv
  have ht : t = MTree.many (bsl.filterMap fun b => b.lookup v) := by injection hv with _ h2; exact h2.symm
  obtain ⟨ds, hds⟩ := all_one_map (bsl.filterMap fun b => b.lookup v) (by
    intro t' ht'
    obtain ⟨b, hb, hl⟩ := List.mem_filterMap.mp ht'
    obtain ⟨x', _, hx'⟩ := mapM_some_mem _ _ _ h b hb
    exact ((specMatch_plain_keys s p).1 hp x' b hx').2 v t' (lookup_mem v b t' hl))
  exact ⟨ds, by rw [ht, hds]⟩

theorem shape_append {ev1 ev2 K1 K2 : List Text} {b1 b2 : Binds}
    (h1 : ShapeOK ev1 b1) (h2 : ShapeOK ev2 b2)
    (k1 : b1.map Prod.fst = K1) (k2 : b2.map Prod.fst = K2)
    (e1 : ∀ x ∈ ev1, x ∈ K1) (e2 : ∀ x ∈ ev2, x ∈ K2) (hd : ∀ x ∈ K1, x ∉ K2) :
    ShapeOK (ev1 ++ ev2) (b1 ++ b2) := by
  intro x t hm
  rcases List.mem_append.mp hm with hm | hm
  · have hx1 : x ∈ K1 := by rw [← k1]; exact mem_keys_of_mem hm
    have hx2 : x ∉ ev2 := fun h => hd x hx1 (e2 x h)
    obtain ⟨ha, hb⟩ := h1 x t hm
    refine ⟨fun h => ?_, fun h => hb (fun h' => h (List.mem_append_left _ h'))⟩
    rcases List.mem_append.mp h with h | h
    · exact ha h
    · exact absurd h hx2
  · have hx2 : x ∈ K2 := by rw [← k2]; exact mem_keys_of_mem hm
    have hx1 : x ∉ ev1 := fun h => hd x (e1 x h) hx2
    obtain ⟨ha, hb⟩ := h2 x t hm
    refine ⟨fun h => ?_, fun h => hb (fun h' => h (List.mem_append_right _ h'))⟩
    rcases List.mem_append.mp h with h | h
    · exact absurd h hx1
    · exact ha h

theorem shape_nil (ev : List Text) : ShapeOK ev [] := fun _ _ h => by cases h

theorem shape_of_match (s : Setup) (P E : Datum) : ∀ (bs : Binds),
    nn s.es P = true → (patVars s.ctx P).Nodup →
    specMatch s.ctx P E = some bs → ShapeOK (ellVars s.ctx P) bs := by
  fun_induction specMatch s.ctx P E <;> intro bs hnn hnd h
  case case1 => cases h; exact shape_nil _
  case case4 => cases h; exact shape_nil _
  case case20 => cases h; exact shape_nil _
  case case5 s' e _ _ _ =>
    cases h
    intro x t hm
    simp only [List.mem_singleton, Prod.mk.injEq] at hm
    obtain ⟨rfl, rfl⟩ := hm
    exact ⟨fun h => by simp [ellVars] at h, fun _ => ⟨_, rfl⟩⟩
  case case9 p q rest e hq _ _ _ bsl hbsl tb htb ih2 ih1 =>
    cases h
    have hqe : q = .sym s.es := by simpa [s.isEllD_eq, Setup.ell] using hq
    subst hqe
    simp only [nn, if_true, Bool.and_eq_true] at hnn
    have hpv : patVars s.ctx (Datum.sym s.es) = [] := patVars_ellD s.ctx _ hq
    have hnd0 : (patVars s.ctx p ++ patVars s.ctx rest).Nodup := by
      have : patVars s.ctx (.pair p (.pair (.sym s.es) rest))
          = patVars s.ctx p ++ (patVars s.ctx (.sym s.es) ++ patVars s.ctx rest) := by
        simp only [patVars]
      rw [this, hpv, List.nil_append] at hnd; exact hnd
    have hnd' := List.nodup_append.mp hnd0
    have hE : ellVars s.ctx (.pair p (.pair (.sym s.es) rest)) = patVars s.ctx p ++ ellVars s.ctx rest := by
      simp [ellVars, hq]
    rw [hE]
    refine shape_append (K1 := patVars s.ctx p) (K2 := patVars s.ctx rest) ?_
      (ih1 tb hnn.2 hnd'.2.1 htb) (collect_keys _ _) (specMatch_keys _ _ _ _ htb)
      (fun x hx => hx) (ellVars_sub _ _) (fun x hx hx' => hnd'.2.2 x hx x hx' rfl)
    intro x t hm
    exact ⟨fun _ => shape_collect s p hnn.1 _ bsl hbsl x t hm,
           fun hx => absurd (by rw [← collect_keys (patVars s.ctx p) bsl]; exact mem_keys_of_mem hm) hx⟩
  case case12 p q rest hq e1 er b1 hb1 b2 hb2 ih2 ih1 =>
    cases h
    have hqe : q ≠ .sym s.es := by
      intro hqe; apply hq; simp [s.isEllD_eq, Setup.ell, hqe]
    simp only [nn, hqe, if_false, Bool.and_eq_true] at hnn
    have hnd' := List.nodup_append.mp (by simpa [patVars] using hnd :
      (patVars s.ctx p ++ patVars s.ctx (.pair q rest)).Nodup)
    have hE : ellVars s.ctx (.pair p (.pair q rest)) = ellVars s.ctx p ++ ellVars s.ctx (.pair q rest) := by
      have : s.ctx.isEllD q = false := by simpa using hq
      simp [ellVars, this]
    rw [hE]
    exact shape_append (ih2 b1 hnn.1 hnd'.1 hb1) (ih1 b2 hnn.2 hnd'.2.1 hb2)
      (specMatch_keys _ _ _ _ hb1) (specMatch_keys _ _ _ _ hb2)
      (ellVars_sub _ _) (ellVars_sub _ _) (fun x hx hx' => hnd'.2.2 x hx x hx' rfl)
  case case16 p rest hrest e1 er b1 hb1 b2 hb2 ih2 ih1 =>
    cases h
    have hnn' : nn s.es p = true ∧ nn s.es rest = true := by
      cases rest with
      | pair q r => exact absurd rfl (hrest q r)
      | _ => simp [nn] at hnn ⊢ <;> first | exact hnn | skip
    have hE : ellVars s.ctx (.pair p rest) = ellVars s.ctx p ++ ellVars s.ctx rest := by
      cases rest with
      | pair q r => exact absurd rfl (hrest q r)
      | _ => simp [ellVars]
    have hnd' := List.nodup_append.mp (by simpa [patVars] using hnd :
      (patVars s.ctx p ++ patVars s.ctx rest).Nodup)
    rw [hE]
    exact shape_append (ih2 b1 hnn'.1 hnd'.1 hb1) (ih1 b2 hnn'.2 hnd'.2.1 hb2)
      (specMatch_keys _ _ _ _ hb1) (specMatch_keys _ _ _ _ hb2)
      (ellVars_sub _ _) (ellVars_sub _ _) (fun x hx hx' => hnd'.2.2 x hx x hx' rfl)
  case case18 => simp [nn] at hnn
  all_goals cases h

end Marwood.Transform
