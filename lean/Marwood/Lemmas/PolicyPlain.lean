import Marwood.Spec.Plain
import Marwood.Lemmas.GcSafety
/-!
# Under the kind discipline `Plain` the repaired marker follows exactly the semantic references

`crefs true c = srefs c` (as lists, in marking order) for every plain heap cell, kind by kind; hence the
marker's graph and root list coincide with `Spec.schildren` / `Spec.sroots` on a plain heap.
-/
namespace Marwood.Lemmas.PolicyPlain
open Marwood Marwood.Heap Marwood.Spec Marwood.Lemmas.GcSafety

theorem bcSem_zero (j : Bool) (l : List VCell) : bcSem 0 j l = bcSem 0 false l := by
  cases l with
  | nil => simp [bcSem]
  | cons c cs => cases c <;> simp [bcSem]

theorem vrefs_opcode_free (c : VCell) (h : VCell.isOpcode c = false) : c.isJumpOp = false := by
  cases c <;> simp_all [VCell.isOpcode, VCell.isJumpOp]

mutual
theorem vrefs_eq (c : VCell) (h : plainV c = true) : vrefs true c = srefs c := by
  match c, h with
  | .atom _, _ | .opcode _, _ | .symbol _, _ | .pair _ _, _ | .ptr _, _ | .closure _ _, _
  | .envPtr _, _ | .lexEnvPtr _ _, _ | .ip _ _, _ => simp [vrefs, srefs]
  | .lexEnv _, h => simp [plainV] at h
  | .vector es, h =>
    simp only [plainV] at h
    simp [vrefs, srefs, vrefsList_eq es h]
  | .cont stk l e, h =>
    simp only [plainV] at h
    simp [vrefs, srefs, vrefsList_eq stk h]
  | .lambda bc args em, h =>
    simp only [plainV, Bool.and_eq_true] at h
    simp [vrefs, srefs, bcRefs_eq bc 0 h.1.1, vrefsList_eq args h.1.2, vrefsList_eq em h.2]
theorem vrefsList_eq (l : List VCell) (h : plainVs l = true) : vrefsList true l = srefsList l := by
  match l, h with
  | [], _ => simp [vrefsList, srefsList]
  | c :: cs, h =>
    simp only [plainVs, Bool.and_eq_true] at h
    simp [vrefsList, srefsList, vrefs_eq c h.1, vrefsList_eq cs h.2]
/-- the bytecode loop of the repaired `mark_lambda` = decoding by opcode arity -/
theorem bcRefs_eq (l : List VCell) (p : Nat) (h : plainBc p l = true) :
    bcRefs true false l = bcSem p false l := by
  match l, p, h with
  | [], _, _ => simp [bcRefs, bcSem]
  | c :: cs, p+1, h =>
    simp only [plainBc, Bool.and_eq_true, Bool.not_eq_true'] at h
    have hj := vrefs_opcode_free c h.1.1
    simp [bcRefs, bcSem, hj, vrefs_eq c h.1.2, bcRefs_eq cs p h.2]
  | .opcode o :: cs, 0, h =>
    simp only [plainBc] at h
    cases o with
    | jmp | jnt =>
      -- arity 1, the operand is an offset — skipped by both
      cases cs with
      | nil => simp [bcRefs, bcSem, VCell.isJumpOp, Op.isJump, Op.arity]
      | cons d ds =>
        simp only [plainBc, Op.arity, Bool.and_eq_true] at h
        have ih := bcRefs_eq ds 0 h.2
        simp [bcRefs, bcSem, VCell.isJumpOp, Op.isJump, Op.arity, ih, bcSem_zero true]
    | cons | mov | movImmediate | push | pushAcc | pushImmediate | halt | vpushAcc | callAcc | closureAcc
    | enter | ret | tcallAcc | varArg =>
      have ih := bcRefs_eq cs _ h
      simp only [Op.arity] at ih
      simp [bcRefs, bcSem, VCell.isJumpOp, Op.isJump, Op.arity, vrefs, ih]
  | .atom a :: cs, 0, h | .symbol a :: cs, 0, h | .pair a b :: cs, 0, h | .ptr a :: cs, 0, h
  | .closure a b :: cs, 0, h | .envPtr a :: cs, 0, h | .lexEnvPtr a b :: cs, 0, h | .ip a b :: cs, 0, h
  | .lexEnv a :: cs, 0, h | .vector a :: cs, 0, h | .lambda a b d :: cs, 0, h | .cont a b d :: cs, 0, h =>
    simp only [plainBc, Bool.and_eq_true] at h
    simp [bcRefs, bcSem, VCell.isJumpOp, vrefs_eq _ h.1, bcRefs_eq cs 0 h.2]
end

/-- **kind by kind**: what `Heap::mark` follows out of a plain heap cell is what the cell refers to -/
theorem crefs_eq (c : VCell) (h : plainC c = true) : crefs true c = srefs c := by
  cases c with
  | lexEnvPtr _ _ => simp [plainC] at h
  | ip _ _ => simp [plainC] at h
  | lexEnv slots =>
    simp only [plainC] at h
    simp [crefs, srefs, vrefsList_eq slots h]
  | atom _ => simp [crefs, srefs]
  | opcode _ => simp [crefs, srefs]
  | symbol _ => simp [crefs, srefs]
  | pair _ _ => simp [crefs, srefs]
  | ptr _ => simp [crefs, srefs]
  | closure _ _ => simp [crefs, srefs]
  | envPtr _ => simp [crefs, srefs]
  | vector es =>
    simp only [plainC, plainV] at h
    simp [crefs, srefs, vrefsList_eq es h]
  | cont stk l e =>
    simp only [plainC, plainV] at h
    simp [crefs, contRefs, srefs, vrefsList_eq stk h]
  | lambda bc args em =>
    simp only [plainC, plainV, Bool.and_eq_true] at h
    simp [crefs, lambdaRefs, srefs, bcRefs_eq bc 0 h.1.1, vrefsList_eq args h.1.2, vrefsList_eq em h.2]

theorem slots_eq (l : List VCell) (h : l.all plainSlot = true) :
    l.filterMap VCell.asPtr? = srefsList l := by
  induction l with
  | nil => simp [srefsList]
  | cons c cs ih =>
    simp only [List.all_cons, Bool.and_eq_true] at h
    rw [List.filterMap_cons, srefsList, ← ih h.2]
    cases c <;> simp_all [plainSlot, VCell.asPtr?, srefs]

theorem roots_eq (r : Roots) (h : plainRoots r = true) : r.refs true = sroots r := by
  simp only [plainRoots, Bool.and_eq_true] at h
  simp [Roots.refs, sroots, slots_eq _ h.1.1, vrefsList_eq _ h.1.2, vrefs_eq _ h.2]

theorem children_eq (h : Heap) (hp : plainHeap h = true) (x : Nat) :
    h.children true x = schildren h x := by
  unfold Heap.children schildren
  cases hc : h.cells[x]? with
  | none => rfl
  | some c =>
    simp only
    apply crefs_eq
    have hlt : x < h.cells.size := by
      rcases Array.getElem?_eq_some_iff.mp hc with ⟨hlt, _⟩; exact hlt
    rw [Array.getElem?_eq_getElem hlt] at hc
    cases hc
    exact (List.all_eq_true.mp hp) _ (Array.mem_toList_iff.mpr (Array.getElem_mem hlt))

/-- on a plain heap with plain roots the marker's reachability is the specification's `Live` -/
theorem reachable_iff_live (h : Heap) (r : Roots) (hsz : h.gc.size = h.cells.size)
    (hp : plainHeap h = true) (hr : plainRoots r = true) (x : Nat) :
    Reachable true h (r.refs true) x ↔ Live h r x := by
  unfold Reachable Live
  have hc : h.children true = schildren h := funext (children_eq h hp)
  rw [hc, roots_eq r hr, hsz]

end Marwood.Lemmas.PolicyPlain
