import Marwood.Lemmas.EvalPromiseJSteps
/-! Forward simulation with a frame (`SimJ`): mirror of `EvalExtraPrims.lean` (see `EvalPromiseJ.lean`). -/
namespace Marwood.Spec.Eval.ExtraJ
open Marwood Marwood.Spec.Eval Marwood.Spec.Eval.Extra

variable {f : LMap} {J : Junk}

theorem simJ_boolV (b : Bool) : SimJ f J (VRel f) (boolV b) (boolV b) := SimJ.pure _ _ (.bool b)

theorem simJ_listTailWalk : ∀ (k : Nat) {l l' : Val}, VRel f l l' → SimJ f J (VRel f) (listTailWalk k l) (listTailWalk k l')
  | 0, _, _, hl => SimJ.pure _ _ hl
  | k+1, _, _, hl => by
    simp only [listTailWalk]
    refine SimJ.bind (simJ_readPair hl) (fun p p' hp => ?_)
    exact simJ_listTailWalk k hp.2

-- keep the unifier from unfolding the monad operations when a closing lemma does not apply
attribute [local irreducible] M.bind' M.pure'

/-- closes the goals of the numeric primitives once both sides compute on the same integers -/
local macro "simJ_leaf" : tactic => `(tactic| (
  repeat' (first
    | exact SimJ.throw _
    | exact simJ_boolV _
    | (refine SimJ.pure _ _ ?_; first | assumption | constructor)
    | split)))

theorem simJ_primNum (p : Prim) {args args' : List Val} (ha : VsRel f args args') :
    SimJ f J (VRel f) (primNum p args) (primNum p args') := by
  have hi := intArgs_rel ha
  cases p
  case zeroP | abs =>
    rcases ha with _ | ⟨h1, _ | ⟨h2, ht⟩⟩
    · simp only [primNum]; simJ_leaf
    · cases h1 <;> simp only [primNum] <;> simJ_leaf
    · simp only [primNum]; simJ_leaf
  all_goals (rcases ha with _ | ⟨h1, _ | ⟨h2, ht⟩⟩ <;> simp only [primNum, hi] <;> simJ_leaf)

set_option hygiene false in
/-- split the shape of both argument lists: 0, 1, 2, 3, ≥ 4 arguments -/
local macro "shapes" : tactic => `(tactic| rcases ha with _ | ⟨h1, _ | ⟨h2, _ | ⟨h3, _ | ⟨h4, ht⟩⟩⟩⟩)

/-- one `readPair` on both sides -/
local macro "simJ_rp" : tactic => `(tactic| (
  refine SimJ.bind (simJ_readPair (by assumption)) ?_
  rintro ⟨_, _⟩ ⟨_, _⟩ ⟨_, _⟩
  dsimp only))

theorem simJ_setCar (hf : Inj f) {l : Loc} {v v' : Val} (hv : VRel f v v') :
    SimJ f J (VRel f) (primPair .setCar [.pair l, v]) (primPair .setCar [.pair (f l), v']) := by
  simp only [primPair]
  refine SimJ.bind (simJ_readCell rfl) (fun c c' hc => ?_)
  cases hc with
  | pair ha hd => exact SimJ.bind (simJ_writeCell hf rfl (.pair hv hd)) (fun _ _ _ => SimJ.pure _ _ .void)
  | _ => exact SimJ.throw _

theorem simJ_setCdr (hf : Inj f) {l : Loc} {v v' : Val} (hv : VRel f v v') :
    SimJ f J (VRel f) (primPair .setCdr [.pair l, v]) (primPair .setCdr [.pair (f l), v']) := by
  simp only [primPair]
  refine SimJ.bind (simJ_readCell rfl) (fun c c' hc => ?_)
  cases hc with
  | pair ha hd => exact SimJ.bind (simJ_writeCell hf rfl (.pair ha hv)) (fun _ _ _ => SimJ.pure _ _ .void)
  | _ => exact SimJ.throw _

theorem simJ_primPair (hf : Inj f) (p : Prim) (hp : pairNoFuel p = true) {args args' : List Val} (ha : VsRel f args args') :
    SimJ f J (VRel f) (primPair p args) (primPair p args') := by
  cases p
  case length | append | reverse | listP | memv | memq | assv | assq => cases hp
  case list => simp only [primPair]; exact simJ_allocList ha
  case car | cdr =>
    shapes <;> simp only [primPair] <;> first | exact SimJ.throw _ | skip
    simJ_rp; exact SimJ.pure _ _ (by assumption)
  case cadr | cddr | caar | cdar =>
    shapes <;> simp only [primPair] <;> first | exact SimJ.throw _ | skip
    simJ_rp; simJ_rp; exact SimJ.pure _ _ (by assumption)
  case cons =>
    shapes <;> simp only [primPair] <;> first | exact SimJ.throw _ | skip
    exact simJ_cons h1 h2
  case nullP =>
    shapes <;> simp only [primPair] <;> first | exact SimJ.throw _ | skip
    rw [h1.beq_nil]; exact simJ_boolV _
  case pairP =>
    shapes <;> simp only [primPair] <;> first | exact SimJ.throw _ | skip
    cases h1 <;> exact simJ_boolV _
  case setCar =>
    shapes
    case cons.cons.nil => cases h1 <;> first | exact simJ_setCar hf h2 | (simp only [primPair]; exact SimJ.throw _)
    all_goals (simp only [primPair]; exact SimJ.throw _)
  case setCdr =>
    shapes
    case cons.cons.nil => cases h1 <;> first | exact simJ_setCdr hf h2 | (simp only [primPair]; exact SimJ.throw _)
    all_goals (simp only [primPair]; exact SimJ.throw _)
  case listTail =>
    shapes
    case cons.cons.nil =>
      cases h2 <;> simp only [primPair] <;> first | exact SimJ.throw _ | skip
      split
      · exact SimJ.throw _
      · exact simJ_listTailWalk _ h1
    all_goals (simp only [primPair]; exact SimJ.throw _)
  all_goals (simp only [primPair]; exact SimJ.throw _)

set_option hygiene false in
/-- one `readVec` on both sides -/
local macro "simJ_rv" : tactic => `(tactic| (
  refine SimJ.bind (simJ_readVec (by assumption)) ?_
  rintro ⟨l, xs⟩ ⟨l', xs'⟩ ⟨hl, hx⟩
  dsimp only at hl hx ⊢))

theorem simJ_primVec (hf : Inj f) (p : Prim) (hp : p ≠ .listToVector) {args args' : List Val} (ha : VsRel f args args') :
    SimJ f J (VRel f) (primVec p args) (primVec p args') := by
  cases p
  case listToVector => exact absurd rfl hp
  case vector => simp only [primVec]; exact simJ_allocVec ha
  case makeVector =>
    shapes
    case cons.cons.nil =>
      cases h1 <;> simp only [primVec] <;> first | exact SimJ.throw _ | skip
      split
      · exact SimJ.throw _
      · exact simJ_allocVec (VsRel.replicate _ h2)
    all_goals (simp only [primVec]; exact SimJ.throw _)
  case vectorRef =>
    shapes
    case cons.cons.nil =>
      cases h2 <;> simp only [primVec] <;> first | exact SimJ.throw _ | skip
      rename_i i
      simJ_rv
      split
      · exact SimJ.throw _
      · have hg := hx.getElem? i.toNat
        revert hg
        generalize xs[i.toNat]? = o
        generalize xs'[i.toNat]? = o'
        intro hg
        cases o <;> cases o' <;> simp only at hg <;> first | exact SimJ.throw _ | exact SimJ.pure _ _ hg | exact hg.elim
    all_goals (simp only [primVec]; exact SimJ.throw _)
  case vectorSet =>
    shapes
    case cons.cons.cons.nil =>
      cases h2 <;> simp only [primVec] <;> first | exact SimJ.throw _ | skip
      simJ_rv
      rw [hx.length_eq]
      split
      · exact SimJ.throw _
      · exact SimJ.bind (simJ_writeCell hf hl (.vec (hx.set _ h3))) (fun _ _ _ => SimJ.pure _ _ .void)
    all_goals (simp only [primVec]; exact SimJ.throw _)
  case vectorLength =>
    shapes <;> simp only [primVec] <;> first | exact SimJ.throw _ | skip
    simJ_rv
    rw [hx.length_eq]; exact SimJ.pure _ _ (.int _)
  case vectorToList =>
    shapes <;> simp only [primVec] <;> first | exact SimJ.throw _ | skip
    simJ_rv
    exact simJ_allocList hx
  all_goals (simp only [primVec]; exact SimJ.throw _)

theorem simJ_primPred (hf : Inj f) (p : Prim) (hp : p ≠ .equalP) {args args' : List Val} (ha : VsRel f args args') :
    SimJ f J (VRel f) (primPred p args) (primPred p args') := by
  cases p
  case equalP => exact absurd rfl hp
  case eqP | eqvP =>
    shapes <;> simp only [primPred] <;> first | exact SimJ.throw _ | skip
    rw [VRel.eqv hf h1 h2]; exact simJ_boolV _
  case not =>
    shapes <;> simp only [primPred] <;> first | exact SimJ.throw _ | skip
    rw [h1.truthy]; exact simJ_boolV _
  case vectorP | symbolP | stringP | charP | integerP | numberP | booleanP | procedureP =>
    shapes <;> simp only [primPred] <;> first | exact SimJ.throw _ | skip
    cases h1 <;> exact simJ_boolV _
  case stringLength | charToInteger =>
    shapes
    case cons.nil =>
      cases h1 <;> simp only [primPred] <;> first | exact SimJ.throw _ | exact SimJ.pure _ _ (.int _)
    all_goals (simp only [primPred]; exact SimJ.throw _)
  case stringEq | charEq =>
    shapes
    case cons.cons.nil =>
      cases h1 <;> cases h2 <;> simp only [primPred] <;> first | exact SimJ.throw _ | exact simJ_boolV _
    all_goals (simp only [primPred]; exact SimJ.throw _)
  all_goals (simp only [primPred]; exact SimJ.throw _)

theorem simJ_primMisc_error {args args' : List Val} : SimJ f J (VRel f) (primMisc .error args) (primMisc .error args') := by
  simp only [primMisc]; exact SimJ.throw _
end Marwood.Spec.Eval.ExtraJ
