import Marwood.Lemmas.CompileCorrect3Demo
import Marwood.Lemmas.CompileCorrect3Apply
/-!
# T01.3 stage 3 — every hypothesis of the `apply` re-dispatch discharged for `(apply (lambda (a b) b) 1 '(2))`

The compiler model emits (top-level context, fuel 20)

    MOVIMM <lambda 0> acc; CLOSURE; PUSH;  MOVIMM 1 acc; PUSH;  MOVIMM <'(2)> acc; PUSH;
    PUSHIMM argc 3;  MOV <global apply> acc;  CALL

On the heap of `CompileCorrect3Toy.lean` (lambda 0 at address 0, the top-level code at address 1, the constant
`(2)` laid out in the value cells `0 … 2`, global slot 0 holding the builtin `apply`):

* the OPERANDS are run by the main theorem (`args3_ok` on the operand code: CLOSURE allocates the closure);
* `PUSHIMM` and `MOV <global> acc` are two machine steps from the raw cells of the code object, which later
  heaps keep (`Ext2.code`); global slot 0 still holds the builtin (`KeepB`, the heap invariant of `tD3g`). The
  global `apply` is not a represented value on the toy heap (`named` is `False`), so the main theorem does not
  apply to the whole expression;
* at the `CALL`, `apply_redispatch3`: the builtin rewrites the stack (`1`, then the element of the list), the
  same instruction runs again with the closure in `acc`, ENTER, the load of `b`, RET.

Together: a `Run3` for the whole expression, from the initial state, ending with a representation of `2`.
-/
namespace Marwood.Lemmas.CompileCorrect3.Toy
open Marwood Marwood.Vm Marwood.Lemmas.CompileCorrect Marwood.Lemmas.CompileCorrect2
  Marwood.Lemmas.CompileCorrect3
open Marwood.Spec.Eval (Val Cell evalN evalArgs listOfVal properList k_lambda k_quote)

/-- **`ListLaws` hold on the toy heap** -/
theorem listLaws3 (g : Array VCell) (final : List LambdaM) : ListLaws (tD3g g final) where
  vr_nil_inv := fun _ _ _ x => tVRc3_nil x
  vr_pair_inv := by
    intro h S v l x
    cases x with
    | base hb => cases hb
    | pair hs hd h1 h2 => exact ⟨_, _, _, _, hs, hd, h1, h2⟩

def kb : Text := ['b']
def kapply : Text := ['a', 'p', 'p', 'l', 'y']

def lamA : Datum := Datum.ofList [.sym k_lambda, Datum.ofList [.sym ka, .sym kb], .sym kb]
def quoteA : Datum := Datum.ofList [.sym k_quote, Datum.ofList [.num (.fix 2)]]
def argsA : Datum := Datum.ofList [lamA, .num (.fix 1), quoteA]
def progA : Datum := .pair (.sym kapply) argsA

def lamCtxA : Ctx := ⟨[ka, kb], [(ka, .argument 0), (kb, .argument 1)]⟩

def partsA : LambdaParts :=
  { formals := [ka, kb], isVararg := false, ctx := lamCtxA, prologue := [.op .enter], body := .pair (.sym kb) .nil }

def demoLamA : LambdaM := lamOf partsA [.op .mov, .envSlot kb, .acc]

/-- the operand code -/
def argCodeA : List BC :=
  [.op .movImm, .lambda 0, .acc, .op .closureAcc, .op .pushAcc,
   .op .movImm, .datum (.num (.fix 1)), .acc, .op .pushAcc,
   .op .movImm, .datum (.pair (.num (.fix 2)) .nil), .acc, .op .pushAcc]

/-- the number of operands, the operator, the call -/
def tailCodeA : List BC := [.op .pushImm, .argc 3, .op .mov, .global kapply, .acc, .op .callAcc]

theorem demoA_parts : lambdaParts 17 c0 lamA false = .ok partsA := by rfl

theorem demoA_compile :
    compileExpr 20 {} c0 0 false progA = .ok ({ lambdas := [demoLamA] }, argCodeA ++ tailCodeA) :=
  CompileCorrect2.Toy.okIs_eq (by decide +kernel)

def okIsArgs (r : Except CErr (CState × List BC × Nat)) (st : CState) (code : List BC) (k : Nat) : Bool :=
  match r with
  | .ok (s, c, n) => s == st && c == code && n == k
  | .error _ => false

theorem okIsArgs_eq {r : Except CErr (CState × List BC × Nat)} {st : CState} {code : List BC} {k : Nat}
    (h : okIsArgs r st code k = true) : r = .ok (st, code, k) := by
  cases r with
  | error e => cases h
  | ok p =>
    obtain ⟨s, c, n⟩ := p
    simp only [okIsArgs, Bool.and_eq_true, beq_iff_eq] at h
    rw [h.1.1, h.1.2, h.2]

theorem demoA_compileArgs : compileArgs 19 {} c0 0 argsA = .ok ({ lambdas := [demoLamA] }, argCodeA, 3) :=
  okIsArgs_eq (by decide +kernel)

def cellsA0 : List VCell := [.opcode .enter, .opcode .mov, .lexEnvSlot 1, .acc, .opcode .ret]

def argCellsA : List VCell :=
  [.opcode .movImm, .ptr 0, .acc, .opcode .closureAcc, .opcode .pushAcc,
   .opcode .movImm, .opaque "n1", .acc, .opcode .pushAcc,
   .opcode .movImm, .ptr 2, .acc, .opcode .pushAcc]

def tailCellsA : List VCell := [.opcode .pushImm, .argc 3, .opcode .mov, .globSlot 0, .acc, .opcode .callAcc]

/-- value cells `0 … 2`: the constant `(2)`; global slot 0: the builtin `apply` -/
def demoHeapA : THeap :=
  { lams := [⟨cellsA0, 2, [.arg 0, .arg 1]⟩, ⟨argCellsA ++ tailCellsA, 0, []⟩], envs := #[],
    cells := #[.opaque "n2", .nil, .pair 0 1], globals := #[.builtin 0] }

def demoStateA : MSt THeap :=
  { heap := demoHeapA, stack := ⟨List.replicate 16 .undefined, 0⟩, acc := .undefined, ep := 0, ipL := 1, ipO := 0,
    bp := 0 }

def closA : Val := .closure [ka, kb] none [.sym kb] []

def demoStA : SSt := { globals := [(kapply, .prim .apply)], store := #[], out := [] }
/-- after the operands: the pair of the quoted list -/
def demoStA1 : SSt := { globals := [(kapply, .prim .apply)], store := #[.pair (.int 2) .nil], out := [] }
/-- after the call: the cells of `a` and `b` -/
def demoStA' : SSt :=
  { globals := [(kapply, .prim .apply)], store := #[.pair (.int 2) .nil, .var (.int 1), .var (.int 2)], out := [] }

/-- the specification, whole expression -/
theorem demoA_eval : (evalN 8).eval progA [] demoStA = .ok (.int 2) demoStA' := by rfl

/-- … its operands … -/
theorem demoA_evalArgs :
    evalArgs (evalN 5) [] [lamA, .num (.fix 1), quoteA] demoStA = .ok [closA, .int 1, .pair 0] demoStA1 := by rfl

/-- … and the application of the primitive `apply` -/
theorem demoA_apply :
    (evalN (5 + 1)).apply (.prim .apply) (closA :: [Val.int 1] ++ [Val.pair 0]) demoStA1 = .ok (.int 2) demoStA' := by
  rfl

theorem all2_three {α β : Type} {R : α → β → Prop} {vs : List α} {a b c : β} (h : All2 R vs [a, b, c]) :
    ∃ x y z, vs = [x, y, z] ∧ R x a ∧ R y b ∧ R z c := by
  cases h with
  | cons h0 t0 =>
    cases t0 with
    | cons h1 t1 =>
      cases t1 with
      | cons h2 t2 =>
        cases t2
        exact ⟨_, _, _, rfl, h0, h1, h2⟩

abbrev demoDA : RepData2 tops := tD3g demoHeapA.globals [demoLamA]

theorem demoA_fragArgs : F3L (fun _ => False) 19 c0 (bound []) (fun _ => False) argsA := by
  have hb : inEnv lamCtxA kb = true := by decide
  refine F3L.cons _ _ ?_ (F3L.cons _ _ (F3.num _) (F3L.cons _ _ (F3.quote _ _) F3L.nil))
  refine F3.lambda (Datum.ofList [.sym ka, .sym kb]) _ partsA [ka, kb] none [] [] demoA_parts (by rfl) rfl rfl
    (by decide) rfl (by intro q hq; cases hq) ?_
  exact F3B.last _ rfl (F3.sym kb ⟨fun _ => .inl (by decide), fun _ => hb⟩ (by intro h; cases h))

theorem demoA_final_get {id : Nat} {lamM : LambdaM} (h : ([demoLamA] : List LambdaM)[id]? = some lamM) :
    id = 0 ∧ lamM = demoLamA := by
  match id, h with
  | 0, h => exact ⟨rfl, by injection h with e; exact e.symm⟩
  | n + 1, h => simp at h

theorem demoA_code0 (S : Array Cell) : CodeAt2 demoDA lamCtxA.envmap demoHeapA S 0 0 demoLamA.bc := by
  refine CompileCorrect2.Toy.CodeAt2.ofAll2 cellsA0 rfl (fun i _ => by rw [Nat.zero_add]; rfl) ?_
  have hslot : Loads2 demoDA lamCtxA.envmap demoHeapA S (.envSlot kb) (.lexEnvSlot 1) := ⟨1, by decide, rfl⟩
  exact .cons rfl (.cons rfl (.cons hslot (.cons rfl (.cons rfl .nil))))

/-- the operand code (the first 13 cells of the code object at address 1) -/
theorem demoA_codeArgs (S : Array Cell) : CodeAt2 demoDA c0.envmap demoHeapA S 1 0 argCodeA := by
  refine CompileCorrect2.Toy.CodeAt2.ofAll2 argCellsA rfl (fun i hi => ?_) ?_
  · rw [Nat.zero_add]
    show (argCellsA ++ tailCellsA)[i]? = _
    exact List.getElem?_append_left hi
  have n1 := loads_num demoDA rfl 1 (.fix 1) rfl "n1" (by decide) demoHeapA S c0.envmap
  have hlam : Loads2 demoDA c0.envmap demoHeapA S (.lambda 0) (.ptr 0) := by
    refine ⟨rfl, fun lamM hl => ?_⟩
    obtain ⟨_, rfl⟩ := demoA_final_get hl
    exact ⟨rfl, rfl⟩
  have hq : Loads2 demoDA c0.envmap demoHeapA S (.datum (.pair (.num (.fix 2)) .nil)) (.ptr 2) :=
    ⟨(by intro o e; cases e), .pair (pa := 0) (pd := 1) rfl (.atom rfl (.base rfl)) (.atom rfl (.base rfl))⟩
  exact .cons rfl (.cons hlam (.cons rfl (.cons rfl (.cons rfl (.cons rfl (.cons n1 (.cons rfl (.cons rfl
    (.cons rfl (.cons hq (.cons rfl (.cons rfl .nil))))))))))))

theorem demoA_inv : Inv3 demoDA W0 demoHeapA demoStA := by
  refine ⟨(by intro x w h; cases h), (by intro x h; cases h), ⟨keepB_self _, fun _ h => absurd h List.not_mem_nil⟩,
    (by intro x h; cases h), ?_,
    (by intro e n l l' h; cases h),
    (by intro e n e' n' l h; cases h), (by intro e n l h; cases h), (by intro e n l h; cases h)⟩
  intro id lamM hid
  obtain ⟨rfl, rfl⟩ := demoA_final_get hid
  exact ⟨demoA_code0 _, rfl⟩

/-- **Non-vacuity of the `apply` re-dispatch** (variant: the whole compiled expression, from the initial state):
    the operands by the main theorem, `PUSHIMM` and the load of the global by hand, the `CALL` by
    `apply_redispatch3`. `sC` is the state at the `CALL`. -/
theorem demo_apply_runs :
    ∃ W' sC s', Steps tops demoStateA sC ∧ tops.callee sC.heap sC.acc = .builtin 0 ∧
      CallRun3 demoDA W' sC demoStateA.stack demoStA1 demoStA' (.int 2) s' ∧
      Run3 demoDA W' demoStateA 19 demoStA demoStA' (.int 2) s' ∧ tDeref s'.heap s'.acc = .opaque "n2" := by
  have L := laws3g demoHeapA.globals [demoLamA]
  have hw0 : SWF demoStateA.stack := by show 0 < 16; omega
  -- the operands
  obtain ⟨W1, s1, vs, hw1, r1, _⟩ := args3_ok L (both3_ok L 5).1.nontail [lamA, .num (.fix 1), quoteA] 19 {} c0 0 argsA
    _ argCodeA 3 [] (fun _ => False) demoA_fragArgs ctxOK_top demoA_compileArgs (List.prefix_refl _) rfl demoStA _
    demoStA1 demoA_evalArgs W0 demoStateA (demoA_codeArgs _) rfl demoA_inv (envRep3_top _ _ _ _) hw0
  obtain ⟨v0, v1, v2, rfl, h0, h1, h2⟩ := all2_three r1.vals
  obtain ⟨lam, cenv, hcl, _⟩ := VR3.closure_inv L h0
  obtain ⟨pg, rfl⟩ := tCallee_ptr hcl
  -- the code object and the global slot are still there
  obtain ⟨hl1, hf1, _, _⟩ := r1.ext.code 1 rfl
  have hipL : s1.ipL = 1 := r1.ipL
  have hipO : s1.ipO = 13 := r1.ipO
  have hl : tops.isLambda s1.heap s1.ipL = true := by rw [hipL]; exact hl1
  have hf : ∀ o, tops.fetch s1.heap s1.ipL o = tops.fetch demoHeapA 1 o := by rw [hipL]; exact hf1
  have hk0 : s1.heap.globals[0]? = some (.builtin 0) := r1.inv.extra.1 0 0 rfl
  have hg : tops.globGet s1.heap 0 = .builtin 0 := by
    show s1.heap.globals[0]?.getD .undefined = _
    rw [hk0]; rfl
  -- PUSHIMM argc 3
  have st2 := step_pushImm (s := s1) (v := .argc 3) hl (by rw [hf, hipO]; rfl) (by rw [hf, hipO]; rfl)
    (by intro o e; cases e)
  -- MOV <global 0> acc
  have st3 := step_mov_glob_acc (s := { s1 with stack := s1.stack.push (.argc 3), ipO := s1.ipO + 2 }) (n := 0) hl
    (by show tops.fetch s1.heap s1.ipL (s1.ipO + 2) = _; rw [hf, hipO]; rfl)
    (by show tops.fetch s1.heap s1.ipL (s1.ipO + 2 + 1) = _; rw [hf, hipO]; rfl)
    (by show tops.globGet s1.heap 0 ≠ _; rw [hg]; intro e; cases e)
    (by show tops.fetch s1.heap s1.ipL (s1.ipO + 2 + 2) = _; rw [hf, hipO]; rfl)
  -- the state at the CALL
  let sC : MSt THeap :=
    { s1 with stack := s1.stack.push (.argc 3), acc := tops.globGet s1.heap 0, ipO := s1.ipO + 2 + 3 }
  have hsteps : Steps tops demoStateA sC := r1.steps.trans (.cons st2 (Steps.one st3))
  have hcal : tops.callee sC.heap sC.acc = .builtin 0 := by
    show tCallee s1.heap (tops.globGet s1.heap 0) = _
    rw [hg]; rfl
  have hcC : CodeAt2 demoDA c0.envmap sC.heap demoStA1.store sC.ipL sC.ipO [BC.op .callAcc] := by
    refine CompileCorrect2.Toy.CodeAt2.ofAll2 [.opcode .callAcc] hl (fun i hi => ?_) (.cons rfl .nil)
    have : i = 0 := by simpa using hi
    subst this
    show tops.fetch s1.heap s1.ipL (s1.ipO + 2 + 3 + 0) = _
    rw [hf, hipO]; rfl
  have hst : LiveEq ((pushAll demoStateA.stack (.ptr pg :: [v1] ++ [v2])).push (.argc ([v1].length + 2))) sC.stack :=
    r1.stack.push (pushAll_swf _ _ hw0) r1.swf (.argc 3)
  have hlist : listOfVal (demoStA1.store.size + 1) demoStA1.store (.pair 0) = some [.int 2] := rfl
  obtain ⟨W', s', hw', o⟩ := apply_redispatch3 L (listLaws3 _ _) (n := 5) (tail := false) (em := c0.envmap) (W := W1)
    (s := sC) (fr := ⟨0, 0, 0, 0, 0, demoStateA.stack⟩) (stk0 := demoStateA.stack) (σ := demoStA1) (σ' := demoStA')
    (g := closA) (lastv := .pair 0) (w := .int 2) (pg := pg) (vl := v2) (mid := [v1]) (mws := [.int 1]) (id := 0)
    hcC hcal rfl h0 (.cons h1 .nil) h2 r1.inv hst hw0 (push_swf _ _) (by intro e; cases e) demoA_apply
    (by intro xs hx; rw [hlist] at hx; injection hx with hx; subst hx; show 2 ≤ 100000; omega)
  rcases o with c | ⟨e, _⟩
  · refine ⟨W', sC, s', hsteps, hcal, c, ?_, tVR3_int c.acc⟩
    exact ⟨hsteps.trans c.steps, c.ipL.trans hipL, by rw [c.ipO]; show s1.ipO + 2 + 3 + 1 = _; rw [hipO]; rfl,
      c.bp.trans r1.bp, c.ep.trans r1.ep, c.stack, c.swf, c.acc, c.inv, r1.ext.trans c.ext⟩
  · cases e

end Marwood.Lemmas.CompileCorrect3.Toy
