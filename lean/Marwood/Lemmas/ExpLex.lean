import Marwood.Lemmas.PrintLex
/-!
# The sign of an exponent belongs to the number token (fix c1c04ca; used by C16)

`scan_number` and the `Number` branch of `scan_dot` carry three booleans (mantissa, digits, marker)
and accept `+`/`-` directly after an exponent marker that follows a decimal mantissa. Here: the two
loops (`numberTail`, `dotNumberTail`) run through *mantissa body, marker, sign, digits* without
leaving the `Number` type and stop at whatever ends a number token (`Stop`).
-/
namespace Marwood

/-- what ends a number token: the end of the text, or a character that is neither a
subsequent-number character nor (except `;`) a subsequent-identifier character — whitespace,
brackets, quotes, `"`, `;`, `#`, `,`, … (`Delim` is the special case end / space / `)`). -/
def Stop : Text → Prop
  | [] => True
  | c :: _ => isSubsequentNumber c = false ∧ (isSubsequentIdentifier c = false ∨ c = ';')

theorem Stop_of_delim {rest : Text} (h : Delim rest) : Stop rest := by
  cases rest with
  | nil => trivial
  | cons c cs =>
    rcases h with rfl | rfl
    · exact ⟨by decide, .inl (by decide)⟩
    · exact ⟨by decide, .inl (by decide)⟩

theorem stop_not_sign {c : Char} (h : isSubsequentIdentifier c = false ∨ c = ';') :
    (c == '+' || c == '-') = false := by
  rcases h with h | rfl
  · have h1 : c ≠ '+' := by rintro rfl; exact absurd h (by decide)
    have h2 : c ≠ '-' := by rintro rfl; exact absurd h (by decide)
    simp [h1, h2]
  · decide

theorem digit_facts {x : Char} (h : isAsciiDigit x = true) :
    isSubsequentNumber x = true ∧ (x == 'e' || x == 'E') = false ∧ (x == '.') = false := by
  have h1 : x ≠ 'e' := by rintro rfl; exact absurd h (by decide)
  have h2 : x ≠ 'E' := by rintro rfl; exact absurd h (by decide)
  have h3 : x ≠ '.' := by rintro rfl; exact absurd h (by decide)
  exact ⟨by simp [isSubsequentNumber, h], by simp [h1, h2], by simp [h3]⟩

/-! ## `scan_number` -/

/-- digits run to a `Stop`, whatever the state -/
theorem numberTail_stop : ∀ (ds rest : Text) (m d k : Bool), (∀ x ∈ ds, isSubsequentNumber x = true) →
    Stop rest → numberTail m d k (ds ++ rest) = (ds, rest, false) := by
  intro ds
  induction ds with
  | nil =>
    intro rest m d k _ hst
    cases rest with
    | nil => rfl
    | cons c cs =>
      obtain ⟨h1, h2⟩ := hst
      have h3 := stop_not_sign h2
      have h4 : (isSubsequentIdentifier c && c != ';') = false := by
        rcases h2 with h | rfl
        · simp [h]
        · decide
      simp [numberTail, h1, h3, h4]
  | cons x ds ih =>
    intro rest m d k h hst
    have hdp : isSubsequentNumber x = true := h x (by simp)
    simp only [List.cons_append, numberTail, hdp, Bool.true_or, if_true]
    rw [ih rest _ _ _ (fun y hy => h y (by simp [hy])) hst]

/-- marker (after a decimal mantissa with a digit), sign, digits, `Stop` -/
theorem numberTail_exponent (d rest : Text) (e s : Char) (k : Bool)
    (he : e = 'e' ∨ e = 'E') (hs : s = '+' ∨ s = '-') (hd : ∀ x ∈ d, isAsciiDigit x = true)
    (hst : Stop rest) :
    numberTail true true k (e :: s :: (d ++ rest)) = (e :: s :: d, rest, false) := by
  have e1 : isSubsequentNumber e = true := by rcases he with rfl | rfl <;> decide
  have e2 : (e == 'e' || e == 'E') = true := by rcases he with rfl | rfl <;> decide
  have s1 : isSubsequentNumber s = false := by rcases hs with rfl | rfl <;> decide
  have s2 : (s == '+' || s == '-') = true := by rcases hs with rfl | rfl <;> decide
  rw [numberTail]
  simp only [e1, Bool.true_or, if_true, e2, Bool.and_self]
  rw [numberTail]
  simp only [s1, s2, Bool.and_self, Bool.or_true, if_true]
  rw [numberTail_stop d rest _ _ _ (fun x hx => (digit_facts (hd x hx)).1) hst]

/-- mantissa body (digits and dots, a digit seen by the end), then the exponent -/
theorem numberTail_signedExp : ∀ (b d rest : Text) (e s : Char) (dg k : Bool),
    (∀ x ∈ b, isAsciiDigit x = true ∨ x = '.') → (dg || b.any isAsciiDigit) = true →
    (e = 'e' ∨ e = 'E') → (s = '+' ∨ s = '-') → (∀ x ∈ d, isAsciiDigit x = true) → Stop rest →
    numberTail true dg k (b ++ e :: s :: (d ++ rest)) = (b ++ e :: s :: d, rest, false) := by
  intro b
  induction b with
  | nil =>
    intro d rest e s dg k _ hdg he hs hd hst
    have : dg = true := by simpa using hdg
    subst this
    exact numberTail_exponent d rest e s k he hs hd hst
  | cons x b ih =>
    intro d rest e s dg k hb hdg he hs hd hst
    have hx := hb x (by simp)
    have hsub : isSubsequentNumber x = true := by
      rcases hx with h | rfl
      · exact (digit_facts h).1
      · decide
    have hmark : (x == 'e' || x == 'E') = false := by
      rcases hx with h | rfl
      · exact (digit_facts h).2.1
      · decide
    have hman : (isAsciiDigit x || x == '.') = true := by
      rcases hx with h | rfl
      · simp [h]
      · decide
    rw [List.cons_append, numberTail]
    simp only [hsub, Bool.true_or, if_true, hmark, hman, Bool.and_false, Bool.and_self]
    rw [ih d rest e s (dg || isAsciiDigit x) false (fun y hy => hb y (by simp [hy]))
      (by simpa [Bool.or_assoc] using hdg) he hs hd hst]
    rfl

/-! ## `scan_dot` -/

theorem dotNumberTail_stop : ∀ (ds rest : Text) (m d k : Bool), (∀ x ∈ ds, isAsciiDigit x = true) →
    Stop rest → dotNumberTail m d k (ds ++ rest) = (ds, rest, false) := by
  intro ds
  induction ds with
  | nil =>
    intro rest m d k _ hst
    cases rest with
    | nil => rfl
    | cons c cs =>
      obtain ⟨h1, h2⟩ := hst
      have h3 := stop_not_sign h2
      have h0 : (c == '.') = false := by
        have : c ≠ '.' := by rintro rfl; exact absurd h1 (by decide)
        simp [this]
      simp [dotNumberTail, h0, h1, h3]
  | cons x ds ih =>
    intro rest m d k h hst
    obtain ⟨h1, _, h3⟩ := digit_facts (h x (by simp))
    simp only [List.cons_append, dotNumberTail, h3, Bool.false_eq_true, if_false, h1, Bool.true_or, if_true]
    rw [ih rest _ _ _ (fun y hy => h y (by simp [hy])) hst]

theorem dotNumberTail_exponent (d rest : Text) (e s : Char) (k : Bool)
    (he : e = 'e' ∨ e = 'E') (hs : s = '+' ∨ s = '-') (hd : ∀ x ∈ d, isAsciiDigit x = true)
    (hst : Stop rest) :
    dotNumberTail true true k (e :: s :: (d ++ rest)) = (e :: s :: d, rest, false) := by
  have e0 : (e == '.') = false := by rcases he with rfl | rfl <;> decide
  have e1 : isSubsequentNumber e = true := by rcases he with rfl | rfl <;> decide
  have e2 : (e == 'e' || e == 'E') = true := by rcases he with rfl | rfl <;> decide
  have s0 : (s == '.') = false := by rcases hs with rfl | rfl <;> decide
  have s1 : isSubsequentNumber s = false := by rcases hs with rfl | rfl <;> decide
  have s2 : (s == '+' || s == '-') = true := by rcases hs with rfl | rfl <;> decide
  rw [dotNumberTail]
  simp only [e0, Bool.false_eq_true, if_false, e1, Bool.true_or, if_true, e2, Bool.and_self]
  rw [dotNumberTail]
  simp only [s0, Bool.false_eq_true, if_false, s1, s2, Bool.and_self, Bool.or_true, if_true]
  rw [dotNumberTail_stop d rest _ _ _ hd hst]

/-- fraction digits (at least one seen by the end), then the exponent -/
theorem dotNumberTail_signedExp : ∀ (b d rest : Text) (e s : Char) (dg k : Bool),
    (∀ x ∈ b, isAsciiDigit x = true) → (dg || !b.isEmpty) = true →
    (e = 'e' ∨ e = 'E') → (s = '+' ∨ s = '-') → (∀ x ∈ d, isAsciiDigit x = true) → Stop rest →
    dotNumberTail true dg k (b ++ e :: s :: (d ++ rest)) = (b ++ e :: s :: d, rest, false) := by
  intro b
  induction b with
  | nil =>
    intro d rest e s dg k _ hdg he hs hd hst
    have : dg = true := by simpa using hdg
    subst this
    exact dotNumberTail_exponent d rest e s k he hs hd hst
  | cons x b ih =>
    intro d rest e s dg k hb hdg he hs hd hst
    have hx := hb x (by simp)
    obtain ⟨h1, h2, h3⟩ := digit_facts hx
    rw [List.cons_append, dotNumberTail]
    simp only [h3, Bool.false_eq_true, if_false, h1, Bool.true_or, if_true, h2, hx, Bool.and_false, Bool.and_self,
      Bool.or_true]
    rw [ih d rest e s true false (fun y hy => hb y (by simp [hy])) (by simp) he hs hd hst]
    rfl

/-! ## the pinned loop (before fix c1c04ca): a sign always ends the run of number characters -/

theorem numberTailPinned_delim : ∀ (ds rest : Text), (∀ x ∈ ds, isSubsequentNumber x = true) → Delim rest →
    numberTailPinned (ds ++ rest) = (ds, rest, false) := by
  intro ds
  induction ds with
  | nil =>
    intro rest _ hd
    cases rest with
    | nil => rfl
    | cons c cs =>
      have h1 : isSubsequentNumber c = false := by
        rcases hd with h | h <;> subst h <;> decide
      have h2 : isSubsequentIdentifier c = false := by
        rcases hd with h | h <;> subst h <;> decide
      simp [numberTailPinned, h1, h2]
  | cons d ds ih =>
    intro rest h hd
    have hdp : isSubsequentNumber d = true := h d (by simp)
    simp only [List.cons_append, numberTailPinned, hdp, if_true]
    rw [ih rest (fun x hx => h x (by simp [hx])) hd]

theorem numberTailPinned_cont : ∀ (ds rest : Text), (∀ x ∈ ds, contChar x = true) → Delim rest →
    numberTailPinned (ds ++ rest) = (ds, rest, ds.any (fun x => !isSubsequentNumber x)) := by
  intro ds
  induction ds with
  | nil =>
    intro rest _ hd
    have := numberTailPinned_delim [] rest (by simp) hd
    simpa using this
  | cons d ds ih =>
    intro rest h hd
    have hdc : contChar d = true := h d (by simp)
    have ih' := ih rest (fun x hx => h x (by simp [hx])) hd
    simp only [List.cons_append, numberTailPinned]
    by_cases hn : isSubsequentNumber d = true
    · simp only [hn, if_true, ih', List.any_cons, Bool.not_true, Bool.false_or]
    · have hn' : isSubsequentNumber d = false := by simpa using hn
      have hid : (isSubsequentIdentifier d && d != ';') = true := by
        simpa [contChar, hn'] using hdc
      simp only [hn', Bool.false_eq_true, if_false, hid, if_true, ih', List.any_cons, Bool.not_false, Bool.true_or]

end Marwood
