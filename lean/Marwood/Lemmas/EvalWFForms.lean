import Marwood.Lemmas.EvalWFSteps
/-!
# Well-formedness: the special forms
-/
namespace Marwood.Spec.Eval
open Marwood

variable {n0 : Nat} {r : Rec}

theorem pres_allocVars : ∀ (xs : List (Text × Val)) (ρ : Env) (n0 : Nat), (∀ p ∈ xs, ValOK n0 p.2) →
    EnvOK n0 ρ → PresFrom n0 (allocVars xs ρ) EnvOK
  | [], _, _, _, hρ => PresFrom.pure _ (fun _ hn => hρ.mono hn)
  | (y, v) :: xs, ρ, n0, h, hρ => by
    simp only [allocVars]
    refine PresFrom.bind (pres_allocCell _ (h (y, v) (by simp))) (fun l n1 h1 hl => ?_)
    exact pres_allocVars xs _ n1 (fun p hp => (h p (by simp [hp])).mono h1) (by simp [hl, hρ.mono h1])

theorem pres_makeClosure (formals body : Datum) (ρ : Env) (hρ : EnvOK n0 ρ) :
    PresFrom n0 (makeClosure formals body ρ) ValOK := by
  unfold makeClosure
  split
  · exact PresFrom.pureV _ hρ
  · exact PresFrom.throw _

theorem pres_defineValue (hr : RecWF r) (ρ : Env) (d : Datum) (hρ : EnvOK n0 ρ) :
    PresFrom n0 (defineValue r ρ d) (fun n p => ValOK n p.2) := by
  unfold defineValue
  split
  · rename_i y e
    split
    · exact PresFrom.throw _
    · refine PresFrom.bind (hr.eval n0 e ρ hρ) (fun v n1 _ hv => ?_)
      exact PresFrom.pure _ (fun _ hn => hv.mono hn)
  · rename_i f formals body
    split
    · exact PresFrom.throw _
    · refine PresFrom.bind (pres_makeClosure formals body ρ hρ) (fun v n1 _ hv => ?_)
      exact PresFrom.pure _ (fun _ hn => hv.mono hn)
  · exact PresFrom.throw _

theorem pres_assignVar (ρ : Env) (y : Text) (v : Val) (hv : ValOK n0 v) :
    PresFrom n0 (assignVar ρ y v) (fun _ _ => True) := by
  unfold assignVar
  split
  · exact pres_writeCell _ _ hv
  · exact pres_setGlobal y v hv

theorem pres_evalBodyForms (hr : RecWF r) (ρ : Env) : ∀ (es : List Datum) (defs : Bool) (n0 : Nat),
    EnvOK n0 ρ → PresFrom n0 (evalBodyForms r ρ defs es) ValOK
  | [], _, _, _ => by simp only [evalBodyForms]; exact PresFrom.throw _
  | [e], defs, n0, hρ => by
    simp only [evalBodyForms]
    split
    · refine PresFrom.bind (pres_defineValue hr ρ e hρ) (fun p n1 _ hp => ?_)
      refine PresFrom.bind (pres_assignVar ρ p.1 p.2 hp) (fun _ n2 _ _ => ?_)
      exact PresFrom.pureV _ (by simp)
    · exact hr.eval n0 e ρ hρ
  | e :: e' :: es, defs, n0, hρ => by
    simp only [evalBodyForms]
    split
    · refine PresFrom.bind (pres_defineValue hr ρ e hρ) (fun p n1 h1 hp => ?_)
      refine PresFrom.bind (pres_assignVar ρ p.1 p.2 hp) (fun _ n2 h2 _ => ?_)
      exact pres_evalBodyForms hr ρ (e' :: es) true n2 (hρ.mono (Nat.le_trans h1 h2))
    · refine PresFrom.bind (hr.eval n0 e ρ hρ) (fun _ n1 h1 _ => ?_)
      exact pres_evalBodyForms hr ρ (e' :: es) false n1 (hρ.mono h1)

theorem pres_evalBody (hr : RecWF r) (ρ : Env) (body : List Datum) (hρ : EnvOK n0 ρ) :
    PresFrom n0 (evalBody r ρ body) ValOK := by
  unfold evalBody
  refine PresFrom.bind (pres_allocVars _ ρ n0 ?_ hρ) (fun ρ' n1 _ hρ' => ?_)
  · intro p hp
    simp only [List.mem_map] at hp
    obtain ⟨_, _, rfl⟩ := hp
    simp
  · exact pres_evalBodyForms hr ρ' body true n1 hρ'

theorem pres_bindArgs : ∀ (ps : List Text) (rest : Option Text) (args : List Val) (ρ : Env) (n0 : Nat),
    ValsOK n0 args → EnvOK n0 ρ → PresFrom n0 (bindArgs ps rest args ρ) EnvOK
  | [], none, [], _, _, _, hρ => by
    simp only [bindArgs]; exact PresFrom.pure _ (fun _ hn => hρ.mono hn)
  | [], none, _ :: _, _, _, _, _ => by simp only [bindArgs]; exact PresFrom.throw _
  | [], some rr, args, ρ, n0, h, hρ => by
    simp only [bindArgs]
    refine PresFrom.bind (pres_allocList args n0 h) (fun lst n1 h1 hl => ?_)
    refine PresFrom.bind (pres_allocCell _ hl) (fun l n2 h2 hl2 => ?_)
    refine PresFrom.pure _ (fun n hn => ?_)
    simp only [envOK_cons]
    exact ⟨Nat.lt_of_lt_of_le hl2 hn, hρ.mono (Nat.le_trans h1 (Nat.le_trans h2 hn))⟩
  | _ :: _, _, [], _, _, _, _ => by simp only [bindArgs]; exact PresFrom.throw _
  | p :: ps, rest, a :: args, ρ, n0, h, hρ => by
    simp only [valsOK_cons] at h
    simp only [bindArgs]
    refine PresFrom.bind (pres_allocCell _ h.1) (fun l n1 h1 hl => ?_)
    exact pres_bindArgs ps rest args _ n1 (h.2.mono h1) (by simp [hl, hρ.mono h1])

/-- size of a datum (for the quasiquote walk, which descends two levels at once) -/
def qsz : Datum → Nat
  | .pair a d => qsz a + qsz d + 1
  | .vec e => qsz e + 1
  | _ => 1

theorem pres_qq (hr : RecWF r) (ρ : Env) : ∀ (n : Nat) (d : Datum) (depth : Nat) (n0 : Nat), qsz d ≤ n →
    EnvOK n0 ρ →
    PresFrom n0 (qq r ρ d depth) ValOK ∧ PresFrom n0 (qqElems r ρ d depth) ValsOK := by
  intro n
  induction n with
  | zero => intro d depth n0 hn; cases d <;> simp [qsz] at hn
  | succ n ih =>
    intro d depth n0 hn hρ
    refine ⟨?_, ?_⟩
    · unfold qq
      split
      · rename_i s y
        simp only [qsz] at hn
        have hy : ∀ k, PresFrom n0 (qq r ρ y k) ValOK := fun k => (ih y k n0 (by omega) hρ).1
        split
        · split
          · exact hr.eval n0 y ρ hρ
          · refine PresFrom.bind (hy _) (fun y' n1 _ hy' => ?_)
            exact pres_allocList _ n1 (by simp [hy'])
        · split
          · refine PresFrom.bind (hy _) (fun y' n1 _ hy' => ?_)
            exact pres_allocList _ n1 (by simp [hy'])
          · refine PresFrom.bind (hy _) (fun y' n1 _ hy' => ?_)
            exact pres_allocList _ n1 (by simp [hy'])
      · rename_i a d' _
        simp only [qsz] at hn
        refine PresFrom.bind (ih a _ n0 (by omega) hρ).1 (fun a' n1 h1 ha' => ?_)
        refine PresFrom.bind (ih d' _ n1 (by omega) (hρ.mono h1)).1 (fun d'' n2 h2 hd'' => ?_)
        exact pres_cons a' d'' (ha'.mono h2) hd''
      · rename_i e
        simp only [qsz] at hn
        refine PresFrom.bind (ih e _ n0 (by omega) hρ).2 (fun xs n1 _ hxs => ?_)
        exact pres_allocVec xs hxs
      · exact pres_quoteVal _
    · unfold qqElems
      split
      · rename_i a d'
        simp only [qsz] at hn
        refine PresFrom.bind (ih a _ n0 (by omega) hρ).1 (fun a' n1 h1 ha' => ?_)
        refine PresFrom.bind (ih d' _ n1 (by omega) (hρ.mono h1)).2 (fun d'' n2 h2 hd'' => ?_)
        exact PresFrom.pureVs _ (by simp [ha'.mono h2, hd''])
      · exact PresFrom.pureVs _ (by simp)

theorem pres_evalCond (hr : RecWF r) (ρ : Env) : ∀ (cs : List Datum) (n0 : Nat), EnvOK n0 ρ →
    PresFrom n0 (evalCond r ρ cs) ValOK
  | [], _, _ => PresFrom.pureV _ (by simp)
  | c :: cs, n0, hρ => by
    simp only [evalCond]
    split
    · rename_i t body hp
      split
      · split
        · exact pres_evalExprs hr ρ body n0 hρ
        · exact PresFrom.throw _
      · refine PresFrom.bind (hr.eval n0 t ρ hρ) (fun v n1 h1 hv => ?_)
        have hρ1 := hρ.mono h1
        split
        · split
          · exact PresFrom.pureV _ hv
          · rename_i arrow f
            split
            · refine PresFrom.bind (hr.eval n1 f ρ hρ1) (fun fv n2 h2 hfv => ?_)
              exact hr.apply n2 fv [v] hfv (by simp [hv.mono h2])
            · exact pres_evalExprs hr ρ _ n1 hρ1
          · exact pres_evalExprs hr ρ body n1 hρ1
        · exact pres_evalCond hr ρ cs n1 hρ1
    · exact PresFrom.throw _

theorem pres_evalCase (hr : RecWF r) (ρ : Env) (key : Val) : ∀ (cs : List Datum) (n0 : Nat),
    EnvOK n0 ρ → ValOK n0 key → PresFrom n0 (evalCase r ρ key cs) ValOK
  | [], _, _, _ => PresFrom.pureV _ (by simp)
  | c :: cs, n0, hρ, hk => by
    simp only [evalCase]
    split
    · rename_i sel bodyD
      split
      · rename_i body hp
        split
        · exact PresFrom.throw _
        · exact pres_evalCase hr ρ key cs n0 hρ hk
        · split
          · rename_i arrow f
            split
            · refine PresFrom.bind (hr.eval n0 f ρ hρ) (fun fv n1 h1 hfv => ?_)
              exact hr.apply n1 fv [key] hfv (by simp [hk.mono h1])
            · exact pres_evalExprs hr ρ _ n0 hρ
          · exact pres_evalExprs hr ρ body n0 hρ
      · exact PresFrom.throw _
    · exact PresFrom.throw _

theorem pres_evalLetStar (hr : RecWF r) (body : List Datum) :
    ∀ (bs : List (Text × Datum)) (ρ : Env) (n0 : Nat), EnvOK n0 ρ →
    PresFrom n0 (evalLetStar r body bs ρ) ValOK
  | [], ρ, n0, hρ => by simp only [evalLetStar]; exact pres_evalBody hr ρ body hρ
  | (y, e) :: bs, ρ, n0, hρ => by
    simp only [evalLetStar]
    refine PresFrom.bind (hr.eval n0 e ρ hρ) (fun v n1 h1 hv => ?_)
    refine PresFrom.bind (pres_allocCell _ hv) (fun l n2 h2 hl => ?_)
    exact pres_evalLetStar hr body bs _ n2 (by simp [hl, hρ.mono (Nat.le_trans h1 h2)])

theorem pres_evalVar (s : Text) (ρ : Env) : PresFrom n0 (evalVar s ρ) ValOK := by
  unfold evalVar
  split
  · exact PresFrom.throw _
  · split
    · exact pres_readVar _
    · exact pres_getGlobal s

theorem pres_evalLetrecInits (hr : RecWF r) (ρ : Env) : ∀ (bs : List (Text × Datum)) (n0 : Nat),
    EnvOK n0 ρ → PresFrom n0 (evalLetrecInits r ρ bs) (fun _ _ => True)
  | [], _, _ => PresFrom.pureT _
  | (y, e) :: bs, n0, hρ => by
    simp only [evalLetrecInits]
    refine PresFrom.bind (hr.eval n0 e ρ hρ) (fun v n1 h1 hv => ?_)
    refine PresFrom.bind (pres_assignVar ρ y v hv) (fun _ n2 h2 _ => ?_)
    exact pres_evalLetrecInits hr ρ bs n2 (hρ.mono (Nat.le_trans h1 h2))

theorem pres_evalKw (hr : RecWF r) (ρ : Env) (k : Kw) (rest : Datum) (hρ : EnvOK n0 ρ) :
    PresFrom n0 (evalKw r ρ k rest) ValOK := by
  cases k with
  | quote =>
    simp only [evalKw]
    split
    · exact pres_quoteVal _
    · exact PresFrom.throw _
  | quasiquote =>
    simp only [evalKw]
    split
    · exact (pres_qq hr ρ _ _ _ n0 (Nat.le_refl _) hρ).1
    · exact PresFrom.throw _
  | unquote => exact PresFrom.throw _
  | define => exact PresFrom.throw _
  | lambda =>
    simp only [evalKw]
    split
    · exact pres_makeClosure _ _ ρ hρ
    · exact PresFrom.throw _
  | setBang =>
    simp only [evalKw]
    split
    · rename_i y e hp
      split
      · exact PresFrom.throw _
      · refine PresFrom.bind (hr.eval n0 e ρ hρ) (fun v n1 _ hv => ?_)
        refine PresFrom.bind (pres_assignVar ρ y v hv) (fun _ n2 _ _ => ?_)
        exact PresFrom.pureV _ (by simp)
    · exact PresFrom.throw _
  | if_ =>
    simp only [evalKw]
    split
    · rename_i t c hp
      refine PresFrom.bind (hr.eval n0 t ρ hρ) (fun v n1 h1 hv => ?_)
      split
      · exact hr.eval n1 c ρ (hρ.mono h1)
      · exact PresFrom.pureV _ (by simp)
    · rename_i t c a hp
      refine PresFrom.bind (hr.eval n0 t ρ hρ) (fun v n1 h1 hv => ?_)
      split
      · exact hr.eval n1 c ρ (hρ.mono h1)
      · exact hr.eval n1 a ρ (hρ.mono h1)
    · exact PresFrom.throw _
  | let_ =>
    simp only [evalKw]
    split
    · rename_i name bindings bodyD
      split
      · rename_i bs b body hb hp
        split
        · exact PresFrom.throw _
        · refine PresFrom.bind (pres_evalArgs hr ρ _ n0 hρ) (fun vs n1 h1 hvs => ?_)
          refine PresFrom.bind (pres_allocCell _ (by simp [CellOK])) (fun l n2 h2 hl => ?_)
          have hf : ValOK n2 (Val.closure (bs.map (·.1)) none (b :: body) ((name, l) :: ρ)) := by
            simp [hl, hρ.mono (Nat.le_trans h1 h2)]
          refine PresFrom.bind (pres_writeCell l _ hf) (fun _ n3 h3 _ => ?_)
          exact hr.apply n3 _ vs (hf.mono h3) (hvs.mono (Nat.le_trans h2 h3))
      · exact PresFrom.throw _
    · rename_i bindings bodyD _
      split
      · rename_i bs b body hb hp
        refine PresFrom.bind (pres_evalArgs hr ρ _ n0 hρ) (fun vs n1 h1 hvs => ?_)
        refine PresFrom.bind (pres_allocVars _ ρ n1 ?_ (hρ.mono h1)) (fun ρ' n2 _ hρ' => ?_)
        · intro p hp'
          exact hvs p.2 (List.of_mem_zip hp').2
        · exact pres_evalBody hr ρ' _ hρ'
      · exact PresFrom.throw _
    · exact PresFrom.throw _
  | letStar =>
    simp only [evalKw]
    split
    · split
      · rename_i bs b body hb hp
        exact pres_evalLetStar hr _ bs ρ n0 hρ
      · exact PresFrom.throw _
    · exact PresFrom.throw _
  | letrec =>
    simp only [evalKw]
    split
    · split
      · rename_i bs b body hb hp
        refine PresFrom.bind (pres_allocVars _ ρ n0 ?_ hρ) (fun ρ' n1 _ hρ' => ?_)
        · intro p hp'
          simp only [List.mem_map] at hp'
          obtain ⟨_, _, rfl⟩ := hp'
          simp
        · refine PresFrom.bind (pres_evalLetrecInits hr ρ' bs n1 hρ') (fun _ n2 h2 _ => ?_)
          exact pres_evalBody hr ρ' _ (hρ'.mono h2)
      · exact PresFrom.throw _
    · exact PresFrom.throw _
  | begin_ =>
    simp only [evalKw]
    split
    · exact pres_evalExprs hr ρ _ n0 hρ
    · exact PresFrom.throw _
  | cond =>
    simp only [evalKw]
    split
    · exact pres_evalCond hr ρ _ n0 hρ
    · exact PresFrom.throw _
  | case_ =>
    simp only [evalKw]
    split
    · rename_i keyE clauses
      split
      · refine PresFrom.bind (hr.eval n0 keyE ρ hρ) (fun key n1 h1 hk => ?_)
        exact pres_evalCase hr ρ key _ n1 (hρ.mono h1) hk
      · exact PresFrom.throw _
    · exact PresFrom.throw _
  | and_ =>
    simp only [evalKw]
    split
    · exact pres_evalAnd hr ρ _ n0 hρ
    · exact PresFrom.throw _
  | or_ =>
    simp only [evalKw]
    split
    · exact pres_evalOr hr ρ _ n0 hρ
    · exact PresFrom.throw _
  | when_ =>
    simp only [evalKw]
    split
    · refine PresFrom.bind (hr.eval n0 _ ρ hρ) (fun v n1 h1 hv => ?_)
      split
      · exact pres_evalExprs hr ρ _ n1 (hρ.mono h1)
      · exact PresFrom.pureV _ (by simp)
    · exact PresFrom.throw _
  | unless_ =>
    simp only [evalKw]
    split
    · refine PresFrom.bind (hr.eval n0 _ ρ hρ) (fun v n1 h1 hv => ?_)
      split
      · exact PresFrom.pureV _ (by simp)
      · exact pres_evalExprs hr ρ _ n1 (hρ.mono h1)
    · exact PresFrom.throw _
  | delay =>
    simp only [evalKw]
    split
    · rename_i e hp
      refine PresFrom.bind (pres_allocCell _ ?_) (fun l n1 _ hl => ?_)
      · show ValOK n0 (Val.closure [] none [e] ρ)
        exact hρ
      · exact PresFrom.pureV _ hl
    · exact PresFrom.throw _

end Marwood.Spec.Eval
