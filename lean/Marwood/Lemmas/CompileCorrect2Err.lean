import Marwood.Lemmas.CompileCorrect
/-!
# T01.3 stage 1, ERROR case — definitions, inversion of `Spec.Eval` failures, failing instructions

When `Spec.Eval` ends the evaluation of a fragment expression with a definite error, the machine run of the
compiled code reaches a state whose next `run_one` returns `Err(..)` of the corresponding class, and the heap
of that state represents the specification state *at the failure* (completed effects, nothing else).

* `EClass`, `specClass`, `machClass` — the granularity at which error classes are compared (the one the
  differential correspondence uses: unbound / not-procedure / user / wrong);
* `StackExt` — the live stack of the start state is still there at the failure (the failing state may have
  pushed operands on top of it: the error path does not unwind, cf. C07);
* `ErrRun` — what a failing run establishes;
* `ErrLaws` — the ASSUMED behaviour of `CALL`/`TCALL` when the specification's `apply` fails on a represented
  callee: either the machine sees no procedure (`InvalidProcedure`, specification `notProcedure`) or a generic
  builtin whose evaluation returns an error of the same class; the heap (unchanged by a failing builtin in
  the machine model) represents the specification's failure state;
* inversion lemmas for failures of `evalStep` on the forms of `Frag`;
* the failing instructions: `MOV <unbound global> %acc`, `CALL`/`TCALL` on a non-procedure, on a failing builtin.

Excluded, explicitly: specification errors of class `syntax` (data outside the grammar: inexact / rational
constants, which the machine loads without complaint) and `set!` of an unbound global (the specification
fails, marwood defines the variable: DESIGN §7.5) — the latter through the hypothesis that every `set!`
target of the expression is bound in the failure state.
-/
namespace Marwood.Lemmas.CompileCorrect
open Marwood Marwood.Vm
open Marwood.Spec.Eval (Val Prim Cell ErrClass evalN evalStep applyStep evalArgs properList quoteVal kwOf insertG
  k_quote k_if_ k_setBang k_define)

variable {H : Type} {ops : HeapOps H}

/-! ## error classes -/

inductive EClass | unbound | notProcedure | user | wrong
deriving DecidableEq, Repr

def specClass : ErrClass → EClass
  | .unbound => .unbound
  | .notProcedure => .notProcedure
  | .user => .user
  | _ => .wrong

/-- the class of a machine error; a builtin's error carries the name of the Rust `Error` variant -/
def machClass : Err → EClass
  | .variableNotBound => .unbound
  | .invalidProcedure => .notProcedure
  | .builtin cls => if cls = "ErrorSignal" then .user else .wrong
  | _ => .wrong

/-! ## what a failing run establishes -/

/-- `b` still has the live part of `a` -/
def StackExt (a b : Stack) : Prop := a.sp ≤ b.sp ∧ ∀ i, i ≤ a.sp → a.cells[i]? = b.cells[i]?

theorem StackExt.refl (a : Stack) : StackExt a a := ⟨Nat.le_refl _, fun _ _ => rfl⟩

theorem StackExt.trans {a b c : Stack} (h1 : StackExt a b) (h2 : StackExt b c) : StackExt a c :=
  ⟨Nat.le_trans h1.1 h2.1, fun i hi => (h1.2 i hi).trans (h2.2 i (Nat.le_trans hi h1.1))⟩

theorem LiveEq.ext {a b : Stack} (h : LiveEq a b) : StackExt a b := ⟨Nat.le_of_eq h.1, h.2⟩

theorem StackExt.push (a : Stack) (v : VCell) (ha : SWF a) : StackExt a (a.push v) :=
  ⟨by simp, fun i hi => (push_below a v ha i hi).symm⟩

theorem StackExt.pushAll (a : Stack) (vs : List VCell) (ha : SWF a) : StackExt a (pushAll a vs) := by
  induction vs generalizing a with
  | nil => exact StackExt.refl _
  | cons v vs ih => exact (StackExt.push a v ha).trans (ih _ (push_swf a v))

/-- the machine gets from `s` to `sf` without failing; `run_one` in `sf` returns the error `e'`, of the class
    of the specification's error `c`; lambda, `bp`, `ep` are those of `s`, the live stack of `s` is intact, and
    the heap of `sf` represents the specification state `σ'` at the failure -/
structure ErrRun (D : RepData ops) (s : MSt H) (σ σ' : SSt) (c : ErrClass) (sf : MSt H) (e' : Err) : Prop where
  steps : Steps ops s sf
  fails : step ops sf = .err e'
  cls : machClass e' = specClass c
  ipL : sf.ipL = s.ipL
  bp : sf.bp = s.bp
  ep : sf.ep = s.ep
  stack : StackExt s.stack sf.stack
  swf : SWF sf.stack
  sr : SR D sf.heap σ'
  ev : Evolves D s.ipL s.heap σ.store sf.heap σ'.store

/-- a successful prefix in front of a failing run -/
theorem ErrRun.prepend {D : RepData ops} {s s1 sf : MSt H} {σ σ1 σ' : SSt} {c : ErrClass} {e' : Err}
    (hst : Steps ops s s1) (hl : s1.ipL = s.ipL) (hb : s1.bp = s.bp) (he : s1.ep = s.ep)
    (hs : StackExt s.stack s1.stack) (hev : Evolves D s.ipL s.heap σ.store s1.heap σ1.store)
    (r : ErrRun D s1 σ1 σ' c sf e') : ErrRun D s σ σ' c sf e' :=
  ⟨hst.trans r.steps, r.fails, r.cls, r.ipL.trans hl, r.bp.trans hb, r.ep.trans he, hs.trans r.stack, r.swf,
   r.sr, hev.trans (hl ▸ r.ev)⟩

theorem ErrRun.after_expr {D : RepData ops} {s s1 sf : MSt H} {len : Nat} {σ σ1 σ' : SSt} {v : Val}
    {c : ErrClass} {e' : Err} (r1 : ExprRun D s len σ σ1 v s1) (r : ErrRun D s1 σ1 σ' c sf e') :
    ErrRun D s σ σ' c sf e' :=
  r.prepend r1.steps r1.ipL r1.bp r1.ep r1.stack.ext r1.ev

theorem ErrRun.after_args {D : RepData ops} {s s1 sf : MSt H} {len : Nat} {σ σ1 σ' : SSt} {ws : List Val}
    {vs : List VCell} {c : ErrClass} {e' : Err} (hw : SWF s.stack) (r1 : ArgsRun D s len σ σ1 ws vs s1)
    (r : ErrRun D s1 σ1 σ' c sf e') : ErrRun D s σ σ' c sf e' :=
  r.prepend r1.steps r1.ipL r1.bp r1.ep ((StackExt.pushAll _ vs hw).trans r1.stack.ext) r1.ev

/-! ## the assumption about failing calls -/

structure ErrLaws (D : RepData ops) : Prop where
  /-- `CALL`/`TCALL`, representable callee and arguments, the specification's `apply` fails with a class
      other than `syntax`: the machine sees either no procedure at all, or a generic builtin whose
      evaluation fails with an error of the same class; the (unchanged) heap represents the failure state -/
  call_err : ∀ n h (σ : SSt) vf f vs ws c (σ' : SSt) l, SR D h σ → D.VR h σ.store vf f →
    All2 (D.VR h σ.store) vs ws → (evalN n).apply f ws σ = .err c σ' → c ≠ .syntax →
    SR D h σ' ∧ Evolves D l h σ.store h σ'.store ∧
    ((ops.callee h vf = .other ∧ specClass c = .notProcedure) ∨
     ∃ id e', ops.callee h vf = .builtin id ∧ ops.builtinKind h id = .generic ∧
       builtinResult ops h id vs.reverse = .err e' ∧ machClass e' = specClass c)

/-! ## `set!` targets -/

/-- the target of `(set! x …)` when the form is `(a . d)` -/
def setHead : Datum → Datum → List Text
  | .sym k, .pair (.sym x) _ => if k = k_setBang then [x] else []
  | _, _ => []

/-- every `x` such that `(set! x …)` occurs in the datum (over-approximation: quoted data included) -/
def setTargets : Datum → List Text
  | .pair a d => setHead a d ++ setTargets a ++ setTargets d
  | _ => []

theorem setTargets_car {a d : Datum} {x : Text} (h : x ∈ setTargets a) : x ∈ setTargets (.pair a d) := by
  rw [setTargets]; exact List.mem_append_left _ (List.mem_append_right _ h)

theorem setTargets_cdr {a d : Datum} {x : Text} (h : x ∈ setTargets d) : x ∈ setTargets (.pair a d) := by
  rw [setTargets]; exact List.mem_append_right _ h

theorem setTargets_setBang (x : Text) (e : Datum) :
    x ∈ setTargets (.pair (.sym k_setBang) (.pair (.sym x) (.pair e .nil))) := by
  rw [setTargets]; simp [setHead]

/-! ## inversion of failures -/

open Marwood.Spec.Eval in
theorem bind_err_inv {α β : Type} {m : M α} {f : α → M β} {σ σ' : SSt} {c : ErrClass}
    (h : (m >>= f) σ = .err c σ') : m σ = .err c σ' ∨ ∃ a σ1, m σ = .ok a σ1 ∧ f a σ1 = .err c σ' := by
  change M.bind' m f σ = _ at h
  unfold M.bind' at h
  cases hm : m σ with
  | ok a σ1 => rw [hm] at h; exact .inr ⟨a, σ1, rfl, h⟩
  | err e σ1 => rw [hm] at h; injection h with h1 h2; subst h1 h2; exact .inl rfl
  | timeout => rw [hm] at h; cases h

open Marwood.Spec.Eval in
theorem pure_ne_err {α : Type} {a : α} {σ σ' : SSt} {c : ErrClass} : (pure a : M α) σ ≠ .err c σ' := by
  intro h; cases h

open Marwood.Spec.Eval in
theorem throw_err_inv {α : Type} {e c : ErrClass} {σ σ' : SSt} (h : (throw e : M α) σ = .err c σ') :
    c = e ∧ σ' = σ := by
  injection h with h1 h2; exact ⟨h1.symm, h2.symm⟩

/-- quoting an atom fails only outside the grammar -/
theorem quoteVal_atom_err {d : Datum} (hd : IsAtom d) {σ σ' : SSt} {c : ErrClass}
    (h : quoteVal d σ = .err c σ') : c = .syntax := by
  cases d with
  | num n =>
    unfold quoteVal at h
    cases hn : Spec.Eval.intOfNum n with
    | none => rw [hn] at h; exact (throw_err_inv h).1
    | some i => rw [hn] at h; exact absurd h pure_ne_err
  | bool b => unfold quoteVal at h; exact absurd h pure_ne_err
  | char c => unfold quoteVal at h; exact absurd h pure_ne_err
  | nil => unfold quoteVal at h; exact absurd h pure_ne_err
  | str s => unfold quoteVal at h; exact absurd h pure_ne_err
  | sym s => unfold quoteVal at h; exact absurd h pure_ne_err
  | pair a b => rcases hd with hd | ⟨n, hn⟩ <;> simp [atomVal] at *
  | vec e => rcases hd with hd | ⟨n, hn⟩ <;> simp [atomVal] at *
  | void => rcases hd with hd | ⟨n, hn⟩ <;> simp [atomVal] at *
  | undefined => rcases hd with hd | ⟨n, hn⟩ <;> simp [atomVal] at *
  | procedure p => rcases hd with hd | ⟨n, hn⟩ <;> simp [atomVal] at *
  | macro_ => rcases hd with hd | ⟨n, hn⟩ <;> simp [atomVal] at *
  | continuation => rcases hd with hd | ⟨n, hn⟩ <;> simp [atomVal] at *

variable {r : Spec.Eval.Rec}

/-- a failing global reference: the variable is unbound, nothing happened -/
theorem evalStep_sym_err_inv {s : Text} {σ σ' : SSt} {c : ErrClass}
    (h : evalStep r (.sym s) [] σ = .err c σ') :
    c = .syntax ∨ (σ.globals.lookup s = none ∧ c = .unbound ∧ σ' = σ) := by
  change Spec.Eval.evalVar s [] σ = _ at h
  unfold Spec.Eval.evalVar at h
  split at h
  · exact .inl (throw_err_inv h).1
  · change Spec.Eval.getGlobal s σ = _ at h
    unfold Spec.Eval.getGlobal at h
    cases hl : σ.globals.lookup s with
    | none =>
      rw [hl] at h
      injection h with h1 h2
      exact .inr ⟨rfl, h1.symm, h2.symm⟩
    | some v => rw [hl] at h; cases h

theorem evalStep_setBang_err_inv {x : Text} {e : Datum} {σ σ' : SSt} {c : ErrClass}
    (h : evalStep r (.pair (.sym k_setBang) (.pair (.sym x) (.pair e .nil))) [] σ = .err c σ') :
    c = .syntax ∨ r.eval e [] σ = .err c σ' ∨
      ∃ v σ1, r.eval e [] σ = .ok v σ1 ∧ σ1.globals.lookup x = none ∧ σ' = σ1 := by
  simp only [evalStep, kwOf_setBang, Spec.Eval.evalKw, properList, Option.map] at h
  split at h
  · exact .inl (throw_err_inv h).1
  · rcases bind_err_inv h with h1 | ⟨v, σ1, h1, h2⟩
    · exact .inr (.inl h1)
    · rcases bind_err_inv h2 with h3 | ⟨u, σ2, _, h4⟩
      · refine .inr (.inr ⟨v, σ1, h1, ?_⟩)
        simp only [Spec.Eval.assignVar, List.lookup] at h3
        unfold Spec.Eval.setGlobal at h3
        cases hl : σ1.globals.lookup x with
        | none => rw [hl] at h3; injection h3 with _ h5; exact ⟨rfl, h5.symm⟩
        | some old => rw [hl] at h3; cases h3
      · exact absurd h4 pure_ne_err

/-- `(if t c)` fails: the test fails, or it is true and the consequent fails -/
theorem evalStep_if2_err_inv {t c : Datum} {ρ : Spec.Eval.Env} {σ σ' : SSt} {cl : ErrClass}
    (h : evalStep r (.pair (.sym k_if_) (.pair t (.pair c .nil))) ρ σ = .err cl σ') :
    r.eval t ρ σ = .err cl σ' ∨
      ∃ v σ1, r.eval t ρ σ = .ok v σ1 ∧ Spec.Eval.truthy v = true ∧ r.eval c ρ σ1 = .err cl σ' := by
  simp only [evalStep, kwOf_if, Spec.Eval.evalKw, properList, Option.map] at h
  rcases bind_err_inv h with h1 | ⟨v, σ1, h1, h2⟩
  · exact .inl h1
  · refine .inr ⟨v, σ1, h1, ?_⟩
    by_cases ht : Spec.Eval.truthy v = true
    · simp only [ht, if_true] at h2; exact ⟨ht, h2⟩
    · simp only [ht] at h2; exact absurd h2 pure_ne_err

theorem evalStep_if3_err_inv {t c a : Datum} {ρ : Spec.Eval.Env} {σ σ' : SSt} {cl : ErrClass}
    (h : evalStep r (.pair (.sym k_if_) (.pair t (.pair c (.pair a .nil)))) ρ σ = .err cl σ') :
    r.eval t ρ σ = .err cl σ' ∨
      ∃ v σ1, r.eval t ρ σ = .ok v σ1 ∧
        ((Spec.Eval.truthy v = true ∧ r.eval c ρ σ1 = .err cl σ') ∨
         (v = .bool false ∧ r.eval a ρ σ1 = .err cl σ')) := by
  simp only [evalStep, kwOf_if, Spec.Eval.evalKw, properList, Option.map] at h
  rcases bind_err_inv h with h1 | ⟨v, σ1, h1, h2⟩
  · exact .inl h1
  · refine .inr ⟨v, σ1, h1, ?_⟩
    by_cases ht : Spec.Eval.truthy v = true
    · simp only [ht, if_true] at h2; exact .inl ⟨ht, h2⟩
    · simp only [ht] at h2
      refine .inr ⟨?_, h2⟩
      cases v <;> simp [Spec.Eval.truthy] at ht ⊢
      rename_i b; cases b <;> simp at ht ⊢

/-- a failing application: an operand fails, or the operator, or the call -/
theorem evalStep_app_err_inv {f rest : Datum} (hf : AppHead f) {ρ : Spec.Eval.Env} {σ σ' : SSt} {c : ErrClass}
    (h : evalStep r (.pair f rest) ρ σ = .err c σ') :
    c = .syntax ∨ ∃ es, properList rest = some es ∧
      (evalArgs r ρ es σ = .err c σ' ∨
       ∃ vs σ1, evalArgs r ρ es σ = .ok vs σ1 ∧
         (r.eval f ρ σ1 = .err c σ' ∨
          ∃ fv σ2, r.eval f ρ σ1 = .ok fv σ2 ∧ r.apply fv vs σ2 = .err c σ')) := by
  cases hp : properList rest with
  | none =>
    left
    cases f with
    | sym s => have hk := hf.2 s rfl; simp only [evalStep, hk, hp] at h; exact (throw_err_inv h).1
    | _ => simp only [evalStep, hp] at h; exact (throw_err_inv h).1
  | some es =>
    right
    have h' : (evalArgs r ρ es >>= fun vs => r.eval f ρ >>= fun fv => r.apply fv vs) σ = .err c σ' := by
      cases f with
      | sym s => have hk := hf.2 s rfl; simp only [evalStep, hk, hp] at h; exact h
      | _ => simp only [evalStep, hp] at h; exact h
    refine ⟨es, rfl, ?_⟩
    rcases bind_err_inv h' with h1 | ⟨vs, σ1, h1, h2⟩
    · exact .inl h1
    · refine .inr ⟨vs, σ1, h1, ?_⟩
      rcases bind_err_inv h2 with h3 | ⟨fv, σ2, h3, h4⟩
      · exact .inl h3
      · exact .inr ⟨fv, σ2, h3, h4⟩

theorem evalArgs_cons_err_inv {e : Datum} {es : List Datum} {ρ : Spec.Eval.Env} {σ σ' : SSt} {c : ErrClass}
    (h : evalArgs r ρ (e :: es) σ = .err c σ') :
    r.eval e ρ σ = .err c σ' ∨ ∃ v σ1, r.eval e ρ σ = .ok v σ1 ∧ evalArgs r ρ es σ1 = .err c σ' := by
  simp only [evalArgs] at h
  rcases bind_err_inv h with h1 | ⟨v, σ1, h1, h2⟩
  · exact .inl h1
  · refine .inr ⟨v, σ1, h1, ?_⟩
    rcases bind_err_inv h2 with h3 | ⟨vs, σ2, _, h4⟩
    · exact h3
    · exact absurd h4 pure_ne_err

theorem evalArgs_nil_ne_err {ρ : Spec.Eval.Env} {σ σ' : SSt} {c : ErrClass} :
    evalArgs r ρ [] σ ≠ .err c σ' := by
  simp only [evalArgs]; exact pure_ne_err

/-! ## failing instructions -/

/-- `MOV <global n> %acc` of an unbound global -/
theorem step_mov_glob_unbound {s : MSt H} {n : Nat} (hl : ops.isLambda s.heap s.ipL = true)
    (h0 : ops.fetch s.heap s.ipL s.ipO = some (.opcode .mov))
    (h1 : ops.fetch s.heap s.ipL (s.ipO + 1) = some (.globSlot n))
    (hb : ops.globGet s.heap n = .undefined) :
    step ops s = .err .variableNotBound := by
  unfold step
  rw [readOpcode_eq hl h0]
  simp only [ok_bind, loadOperand]
  rw [readOperand_eq (s := { s with ipO := s.ipO + 1 }) hl h1 (by intro o h; cases h)]
  simp only [ok_bind, hb]
  rfl

/-- `CALL %acc` / `TCALL %acc`, `acc` is not a procedure -/
theorem step_call_other {s : MSt H} {tail : Bool} (hl : ops.isLambda s.heap s.ipL = true)
    (h0 : ops.fetch s.heap s.ipL s.ipO = some (.opcode (if tail = true then .tcallAcc else .callAcc)))
    (hc : ops.callee s.heap s.acc = .other) :
    step ops s = .err .invalidProcedure := by
  unfold step
  rw [readOpcode_eq hl h0]
  cases tail <;> simp only [ok_bind, stepCall, stepTCall, hc] <;> rfl

/-- `runBuiltin` on a generic builtin that fails -/
theorem runBuiltin_generic_err {s : MSt H} {id : Nat} {st0 : Stack} {vs : List VCell} {e' : Err}
    (hk : ops.builtinKind s.heap id = .generic)
    (hst : LiveEq ((pushAll st0 vs).push (.argc vs.length)) s.stack) (hw0 : SWF st0) (hw : SWF s.stack)
    (hr : builtinResult ops s.heap id vs.reverse = .err e') :
    runBuiltin ops id s = .err e' := by
  obtain ⟨hpop, hl1⟩ := pop_of_push hst (pushAll_swf st0 vs hw0)
  obtain ⟨st', hpn, _, _⟩ := popN_pushAll vs hl1 hw0 (pop_swf hw)
  unfold runBuiltin
  simp only [hk, builtinGeneric, hpop, ok_bind, asArgc, hpn]
  unfold builtinResult at hr
  cases hb : ops.builtinEval s.heap id vs.reverse with
  | err e => rw [hb] at hr; cases hr; rfl
  | panic m => rw [hb] at hr; cases hr
  | ok p =>
    obtain ⟨h1, v⟩ := p
    rw [hb] at hr
    cases v <;> simp only at hr <;> cases hr

/-- `CALL %acc` / `TCALL %acc` on a generic builtin that fails -/
theorem step_call_builtin_err {s : MSt H} {tail : Bool} {id : Nat} {st0 : Stack} {vs : List VCell} {e' : Err}
    (hl : ops.isLambda s.heap s.ipL = true)
    (h0 : ops.fetch s.heap s.ipL s.ipO = some (.opcode (if tail = true then .tcallAcc else .callAcc)))
    (hc : ops.callee s.heap s.acc = .builtin id)
    (hk : ops.builtinKind s.heap id = .generic)
    (hst : LiveEq ((pushAll st0 vs).push (.argc vs.length)) s.stack) (hw0 : SWF st0) (hw : SWF s.stack)
    (hr : builtinResult ops s.heap id vs.reverse = .err e') :
    step ops s = .err e' := by
  have hrb := runBuiltin_generic_err (s := { s with ipO := s.ipO + 1 }) hk hst hw0 hw hr
  unfold step
  rw [readOpcode_eq hl h0]
  cases tail <;> simp only [ok_bind, stepCall, stepTCall, hc, hrb] <;> rfl

end Marwood.Lemmas.CompileCorrect
