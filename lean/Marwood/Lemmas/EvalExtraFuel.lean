import Marwood.Lemmas.EvalExtraSteps
import Marwood.Lemmas.EvalExtraCut
/-!
# Extra-cell invariance: the helpers that take their fuel from the store size

`getList`, `externalise`, `equal?`, `memv`/`assv` and `map`/`for-each` run `listOfVal`, `valToDatum`,
`equalVal`, `memWalk`, `zipArgs` with fuel `store.size + 1`. In the larger store the fuel is larger.
With the SAME fuel the two sides correspond (`listOfVal_rel`, `valToDatum_rel`, `equalVal_rel`,
`sim_memWalk`, `zipArgs_rel`); when the native run does not hit the fuel bound (`helperCut = false`)
the result is stable under more fuel (`Lemmas/EvalExtraCut.lean`). Together: the helpers are simulated
from every pair of related states in which the guard does not fire.
-/
namespace Marwood.Spec.Eval.Extra
open Marwood Marwood.Spec.Eval

variable {f : LMap}

/-- the fuel of the larger store is the fuel of the smaller one plus something -/
theorem StRel.fuel_eq {st st' : St} (r : StRel f st st') :
    st'.store.size + 1 = (st.store.size + 1) + (st'.store.size - st.store.size) := by
  have := r.size_le; omega

/-! ## getList -/

theorem getList_eq (v : Val) (st : St) :
    getList v st = match listOfVal (st.store.size + 1) st.store v with
      | some xs => .ok xs st
      | none => .err .type st := by
  unfold getList
  show M.bind' getStore _ st = _
  simp only [M.bind', getStore]
  cases listOfVal (st.store.size + 1) st.store v <;> rfl

theorem getList_ok_state {v : Val} {st s : St} {xs : List Val} (h : getList v st = .ok xs s) :
    s = st ∧ listOfVal (st.store.size + 1) st.store v = some xs := by
  rw [getList_eq] at h
  cases h2 : listOfVal (st.store.size + 1) st.store v with
  | none => rw [h2] at h; cases h
  | some ys => rw [h2] at h; cases h; exact ⟨rfl, rfl⟩

theorem simAt_getList {st st' : St} (r : StRel f st st') {v v' : Val} (hv : VRel f v v')
    (hc : listCut (st.store.size + 1) st.store v = false) :
    ResRel f (VsRel f) (getList v st) (getList v' st') := by
  rw [getList_eq, getList_eq]
  have h1 := listOfVal_rel r (st'.store.size + 1) hv
  rw [r.fuel_eq, listOfVal_stable _ _ _ _ hc] at h1
  rw [← r.fuel_eq] at h1
  revert h1
  generalize listOfVal (st.store.size + 1) st.store v = o
  generalize listOfVal (st'.store.size + 1) st'.store v' = o'
  intro h1
  cases h1 with
  | none => exact ⟨rfl, r⟩
  | some hx => exact ⟨hx, r⟩

/-- lists of lists of related values -/
inductive LsRel (f : LMap) : List (List Val) → List (List Val) → Prop
  | nil : LsRel f [] []
  | cons {x x' : List Val} {xs xs' : List (List Val)} : VsRel f x x' → LsRel f xs xs' → LsRel f (x :: xs) (x' :: xs')

theorem getLists_ok_state : ∀ {vs : List Val} {st s : St} {ls : List (List Val)}, getLists vs st = .ok ls s → s = st
  | [], st, s, ls, h => by cases h; rfl
  | v :: vs, st, s, ls, h => by
    simp only [getLists] at h
    change M.bind' (getList v) _ st = _ at h
    unfold M.bind' at h
    cases h1 : getList v st with
    | ok xs s1 =>
      rw [h1] at h
      obtain ⟨rfl, _⟩ := getList_ok_state h1
      simp only at h
      change M.bind' (getLists vs) _ s1 = _ at h
      unfold M.bind' at h
      cases h2 : getLists vs s1 with
      | ok ys s2 =>
        rw [h2] at h
        have := getLists_ok_state h2
        subst this
        cases h; rfl
      | err e s2 => rw [h2] at h; cases h
      | timeout => rw [h2] at h; cases h
    | err e s1 => rw [h1] at h; cases h
    | timeout => rw [h1] at h; cases h

theorem simAt_getLists {st st' : St} (r : StRel f st st') : ∀ {vs vs' : List Val}, VsRel f vs vs' →
    (∀ v ∈ vs, listCut (st.store.size + 1) st.store v = false) →
    ResRel f (LsRel f) (getLists vs st) (getLists vs' st')
  | _, _, .nil, _ => ⟨.nil, r⟩
  | _, _, .cons (v := v) (vs := vs) hv hvs, hc => by
    simp only [getLists]
    refine ResRel.bind (simAt_getList r hv (hc _ (by simp))) (fun xs xs' s s' hm hx rs => ?_)
    obtain ⟨rfl, _⟩ := getList_ok_state hm
    have hc' : ∀ w ∈ vs, listCut (s.store.size + 1) s.store w = false := fun w hw => hc w (by simp [hw])
    refine ResRel.bind (simAt_getLists rs hvs hc') (fun ls ls' s2 s2' _ hl rs2 => ?_)
    exact ⟨.cons hx hl, rs2⟩

/-! ## externalise, equal? -/

theorem simAt_externalise {st st' : St} (r : StRel f st st') {v v' : Val} (hv : VRel f v v')
    (hc : valCut (st.store.size + 1) st.store v = false) :
    ResRel f (fun d d' => d' = d) (externalise v st) (externalise v' st') := by
  have h1 := valToDatum_rel r (st'.store.size + 1) hv
  rw [r.fuel_eq, valToDatum_stable _ _ _ _ hc, ← r.fuel_eq] at h1
  exact ⟨h1, r⟩

theorem simAt_equalP (hf : Inj f) {st st' : St} (r : StRel f st st') {a a' b b' : Val} (ha : VRel f a a') (hb : VRel f b b')
    (hc : eqCut (st.store.size + 1) st.store a b = false) :
    ResRel f (VRel f) (primPred .equalP [a, b] st) (primPred .equalP [a', b'] st') := by
  have h1 := equalVal_rel hf r (st'.store.size + 1) ha hb
  rw [r.fuel_eq, equalVal_stable _ _ _ _ _ hc, ← r.fuel_eq] at h1
  show ResRel f (VRel f) (Res.ok (Val.bool (equalVal (st.store.size + 1) st.store a b)) st)
    (Res.ok (Val.bool (equalVal (st'.store.size + 1) st'.store a' b')) st')
  rw [h1]
  exact ⟨.bool _, r⟩

/-! ## memv / assv -/

theorem sim_memWalk (hf : Inj f) (assoc : Bool) {x x' : Val} (hx : VRel f x x') : ∀ (m : Nat) {l l' : Val}, VRel f l l' →
    Sim f (VRel f) (memWalk assoc x m l) (memWalk assoc x' m l')
  | 0, _, _, _ => by simp only [memWalk]; exact Sim.throw _
  | m+1, l, l', hl => by
    cases hl with
    | nil => simp only [memWalk]; exact Sim.pure _ _ (.bool false)
    | pair loc =>
      simp only [memWalk]
      refine Sim.bind (sim_readPair (.pair loc)) (fun p p' hp => ?_)
      cases assoc with
      | true =>
        simp only [if_true]
        obtain ⟨a, d⟩ := p
        obtain ⟨a', d'⟩ := p'
        obtain ⟨ha, hd⟩ := hp
        simp only at ha hd ⊢
        cases ha with
        | pair la =>
          simp only
          refine Sim.bind (sim_readPair (.pair la)) (fun q q' hq => ?_)
          rw [VRel.eqv hf hq.1 hx]
          split
          · exact Sim.pure _ _ (.pair la)
          · exact sim_memWalk hf true hx m hd
        | _ => exact sim_memWalk hf true hx m hd
      | false =>
        simp only [Bool.false_eq_true, if_false]
        rw [VRel.eqv hf hp.1 hx]
        split
        · exact Sim.pure _ _ (.pair loc)
        · exact sim_memWalk hf false hx m hp.2
    | _ => simp only [memWalk]; exact Sim.throw _

theorem simAt_memWalk (hf : Inj f) (assoc : Bool) {st st' : St} (r : StRel f st st') {x x' l l' : Val}
    (hx : VRel f x x') (hl : VRel f l l') (hc : spineCut (st.store.size + 1) st.store l = false) :
    ResRel f (VRel f) (memWalk assoc x (st.store.size + 1) l st) (memWalk assoc x' (st'.store.size + 1) l' st') := by
  have h1 := sim_memWalk hf assoc hx (st'.store.size + 1) hl st st' r
  rw [r.fuel_eq, memWalk_stable assoc x _ _ l st hc, ← r.fuel_eq] at h1
  exact h1

/-! ## map / for-each -/

theorem LsRel.any_isEmpty {ls ls' : List (List Val)} (h : LsRel f ls ls') : ls'.any List.isEmpty = ls.any List.isEmpty := by
  induction h with
  | nil => rfl
  | cons hx _ ih => simp only [List.any_cons, hx.isEmpty, ih]

theorem LsRel.isEmpty {ls ls' : List (List Val)} (h : LsRel f ls ls') : ls'.isEmpty = ls.isEmpty := by
  cases h <;> rfl

theorem LsRel.map_tail {ls ls' : List (List Val)} (h : LsRel f ls ls') : LsRel f (ls.map List.tail) (ls'.map List.tail) := by
  induction h with
  | nil => exact .nil
  | cons hx _ ih => exact .cons hx.tail ih

theorem LsRel.map_headD {ls ls' : List (List Val)} (h : LsRel f ls ls') :
    VsRel f (ls.map fun l => l.headD .void) (ls'.map fun l => l.headD .void) := by
  induction h with
  | nil => exact .nil
  | cons hx _ ih => exact .cons hx.headD ih

theorem zipArgs_rel : ∀ (m : Nat) {ls ls' : List (List Val)}, LsRel f ls ls' → LsRel f (zipArgs m ls) (zipArgs m ls')
  | 0, _, _, _ => .nil
  | m+1, ls, ls', h => by
    simp only [zipArgs, h.isEmpty, h.any_isEmpty]
    split
    · exact .nil
    · exact .cons h.map_headD (zipArgs_rel m h.map_tail)

theorem sim_mapApply {r r' : Rec} (hr : RecSim f r r') {g g' : Val} (hg : VRel f g g') : ∀ {as as' : List (List Val)}, LsRel f as as' →
    Sim f (VsRel f) (mapApply r g as) (mapApply r' g' as')
  | _, _, .nil => Sim.pure _ _ .nil
  | _, _, .cons ha has => by
    simp only [mapApply]
    refine Sim.bind (hr.apply _ _ _ _ hg ha) (fun v v' hv => ?_)
    refine Sim.bind (sim_mapApply hr hg has) (fun vs vs' hvs => ?_)
    exact Sim.pure _ _ (.cons hv hvs)

/-- the rows `map`/`for-each` apply the procedure to: same on both sides, although the fuels differ -/
theorem simAt_zipRows {st st' : St} (r : StRel f st st') {l : Val} {ls : List Val} {lists lists' : List (List Val)}
    (hm : getLists (l :: ls) st = .ok lists st) (hl : LsRel f lists lists') :
    LsRel f (zipArgs (st.store.size + 1) lists) (zipArgs (st'.store.size + 1) lists') := by
  have h1 := zipArgs_rel (st'.store.size + 1) hl
  have hex : ∃ x ∈ lists, x.length ≤ st.store.size + 1 := by
    simp only [getLists] at hm
    change M.bind' (getList l) _ st = _ at hm
    unfold M.bind' at hm
    cases h0 : getList l st with
    | ok xs s1 =>
      rw [h0] at hm
      obtain ⟨rfl, h2⟩ := getList_ok_state h0
      simp only at hm
      change M.bind' (getLists ls) _ s1 = _ at hm
      unfold M.bind' at hm
      cases h3 : getLists ls s1 with
      | ok ys s2 =>
        rw [h3] at hm
        cases hm
        exact ⟨xs, by simp, listOfVal_length_le _ _ _ _ h2⟩
      | err e s2 => rw [h3] at hm; cases hm
      | timeout => rw [h3] at hm; cases hm
    | err e s1 => rw [h0] at hm; cases hm
    | timeout => rw [h0] at hm; cases hm
  rw [r.fuel_eq, zipArgs_stable _ _ _ hex] at h1
  rw [r.fuel_eq]
  exact h1

end Marwood.Spec.Eval.Extra
