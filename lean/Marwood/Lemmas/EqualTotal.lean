import Marwood.Lemmas.Store
/-!
# `equal?` after the repair dfd9e81 terminates on every store (C06, T06.3)

`equalSeen` / `comparePairSeen` / `compareVectorSeen` (`Store/Compare.lean`) carry the set `seen` of pairs of
heap locations whose comparison has begun. Measure: `unseen N seen`, the number of pairs of locations below
`N = |cells|` that are not in `seen` (at most `N²`). Every level of the model's call nesting either records a
new pair of locations (the measure drops) or is one of at most `maxVecLen + 5` levels between two records, so
`equalFuel s = N² · (maxVecLen + 5) + 1` units of fuel are never exhausted.

What the store must satisfy is the shape every real heap has (`Store.Shaped`): no heap cell is itself a
reference, and a vector slot holds a value (a reference or an immediate scalar), never a pair / vector /
string cell by value. Nothing else: dangling references `panic` in the model, they do not diverge.
Core Lean only.
-/
namespace Marwood.Store
open Outcome

/-! ## the measure -/

def allPairs (n : Nat) : List (Nat × Nat) :=
  (List.range n).flatMap fun a => (List.range n).map fun b => (a, b)

theorem mem_allPairs {n a b : Nat} : (a, b) ∈ allPairs n ↔ a < n ∧ b < n := by
  simp [allPairs]

theorem length_flatMap_const {α β} (g : α → List β) (k : Nat) (hg : ∀ a, (g a).length = k) :
    ∀ l : List α, (l.flatMap g).length = l.length * k
  | [] => by simp
  | a :: l => by
    simp only [List.flatMap_cons, List.length_append, hg, length_flatMap_const g k hg l, List.length_cons,
      Nat.succ_mul]
    omega

theorem length_allPairs (n : Nat) : (allPairs n).length = n * n := by
  unfold allPairs
  rw [length_flatMap_const _ n (by intro a; simp)]
  simp

/-- pairs of locations below `n` that are not yet in `seen` -/
def unseen (n : Nat) (seen : Seen) : Nat := ((allPairs n).filter fun p => !seen.contains p).length

theorem unseen_le (n : Nat) (seen : Seen) : unseen n seen ≤ n * n := by
  unfold unseen
  rw [← length_allPairs n]
  exact List.length_filter_le _ _

theorem filter_length_le {α} {p q : α → Bool} : ∀ {l : List α}, (∀ x ∈ l, p x = true → q x = true) →
    (l.filter p).length ≤ (l.filter q).length
  | [], _ => by simp
  | a :: l, h => by
    have ih := filter_length_le (p := p) (q := q) (l := l) (fun x hx => h x (by simp [hx]))
    have ha := h a (by simp)
    simp only [List.filter_cons]
    cases hp : p a <;> cases hq : q a <;> simp_all <;> omega

theorem filter_length_lt {α} {p q : α → Bool} : ∀ {l : List α}, (∀ x ∈ l, p x = true → q x = true) →
    ∀ {x}, x ∈ l → q x = true → p x = false → (l.filter p).length < (l.filter q).length
  | [], _, _, hx, _, _ => by simp at hx
  | a :: l, h, x, hx, hq, hp => by
    have hle := filter_length_le (p := p) (q := q) (l := l) (fun y hy => h y (by simp [hy]))
    simp only [List.mem_cons] at hx
    rcases hx with rfl | hx
    · simp only [List.filter_cons, hq, hp]
      simp only [if_true, List.length_cons]
      simp
      omega
    · have ih := filter_length_lt (p := p) (q := q) (l := l) (fun y hy => h y (by simp [hy])) hx hq hp
      have ha := h a (by simp)
      simp only [List.filter_cons]
      cases hpa : p a <;> cases hqa : q a <;> simp_all <;> omega

theorem unseen_mono {n : Nat} {seen seen' : Seen} (h : ∀ p ∈ seen, p ∈ seen') :
    unseen n seen' ≤ unseen n seen := by
  unfold unseen
  apply filter_length_le
  intro x _ hx
  simp only [Bool.not_eq_true', List.contains_eq_mem, decide_eq_false_iff_not] at hx ⊢
  exact fun hm => hx (h x hm)

theorem visit_some {seen seen' : Seen} {a b : Nat} (h : seen.visit a b = some seen') :
    seen' = (a, b) :: seen ∧ (a, b) ∉ seen := by
  unfold Seen.visit at h
  split at h
  · cases h
  · rename_i hc
    simp only [Option.some.injEq] at h
    exact ⟨h.symm, by simpa using hc⟩

theorem unseen_visit {n a b : Nat} {seen seen' : Seen} (ha : a < n) (hb : b < n)
    (h : seen.visit a b = some seen') : unseen n seen' + 1 ≤ unseen n seen := by
  obtain ⟨rfl, hn⟩ := visit_some h
  unfold unseen
  apply filter_length_lt (x := (a, b))
  · intro x _ hx
    simp only [Bool.not_eq_true', List.contains_eq_mem, decide_eq_false_iff_not, List.mem_cons, not_or] at hx ⊢
    exact hx.2
  · exact mem_allPairs.mpr ⟨ha, hb⟩
  · simpa using hn
  · simp

/-! ## the shape of a real heap -/

/-- no heap cell is itself a reference; a vector slot holds a value -/
structure Store.Shaped (s : Store) : Prop where
  cells : ∀ c ∈ s.cells, c.isPtr = false
  slots : ∀ xs ∈ s.vecs, ∀ x ∈ xs, x.isValue = true

theorem foldl_max_ge (vs : List (List VCell)) : ∀ (acc : Nat),
    acc ≤ vs.foldl (fun n v => max n v.length) acc ∧
    ∀ xs ∈ vs, xs.length ≤ vs.foldl (fun n v => max n v.length) acc := by
  induction vs with
  | nil => intro acc; simp
  | cons v vs ih =>
    intro acc
    obtain ⟨h1, h2⟩ := ih (max acc v.length)
    simp only [List.foldl_cons, List.mem_cons]
    refine ⟨by omega, ?_⟩
    rintro xs (rfl | hx)
    · omega
    · exact h2 xs hx

theorem length_le_maxVecLen {s : Store} {xs : List VCell} (h : xs ∈ s.vecs) : xs.length ≤ maxVecLen s :=
  (foldl_max_ge s.vecs 0).2 xs h

/-! ## outcomes that are not `diverge` -/

/-- the call returned (a boolean, an error or a panic — not out of fuel) and only added to `seen` -/
def Term (seen : Seen) (x : Outcome (Bool × Seen)) : Prop :=
  x ≠ .diverge ∧ ∀ b seen', x = .ok (b, seen') → ∀ p ∈ seen, p ∈ seen'

theorem Term.ok (seen : Seen) (b : Bool) : Term seen (.ok (b, seen)) :=
  ⟨by simp, by intro b' s' h; cases h; exact fun p hp => hp⟩

theorem Term.ok_of {seen seen' : Seen} (b : Bool) (h : ∀ p ∈ seen, p ∈ seen') : Term seen (.ok (b, seen')) :=
  ⟨by simp, by intro b' s' e; cases e; exact h⟩

theorem Term.err (seen : Seen) (e : Err) : Term seen (.err e) := ⟨by simp, by intro _ _ h; cases h⟩
theorem Term.panic (seen : Seen) (m : String) : Term seen (.panic m) := ⟨by simp, by intro _ _ h; cases h⟩

theorem Term.mono {seen seen' : Seen} {x} (h : Term seen' x) (hs : ∀ p ∈ seen, p ∈ seen') : Term seen x :=
  ⟨h.1, fun b s'' e p hp => h.2 b s'' e p (hs p hp)⟩

/-- a non-diverging prefix that does not touch `seen` -/
theorem Term.bind_nd {α} {seen : Seen} {x : Outcome α} {f : α → Outcome (Bool × Seen)} (hx : x ≠ .diverge)
    (hf : ∀ a, x = .ok a → Term seen (f a)) : Term seen (x >>= f) := by
  cases x with
  | ok a => exact hf a rfl
  | err e => exact Term.err _ e
  | panic m => exact Term.panic _ m
  | diverge => exact absurd rfl hx

/-- sequencing two calls that thread `seen` -/
theorem Term.bind {seen : Seen} {x : Outcome (Bool × Seen)} {f : Bool × Seen → Outcome (Bool × Seen)}
    (hx : Term seen x)
    (hf : ∀ b seen1, x = .ok (b, seen1) → (∀ p ∈ seen, p ∈ seen1) → Term seen1 (f (b, seen1))) :
    Term seen (x >>= f) := by
  cases x with
  | ok a =>
    obtain ⟨b, seen1⟩ := a
    have hsub := hx.2 b seen1 rfl
    exact (hf b seen1 rfl hsub).mono hsub
  | err e => exact Term.err _ e
  | panic m => exact Term.panic _ m
  | diverge => exact absurd rfl hx.1

theorem get_ne_diverge (s : Store) (v : VCell) : s.get v ≠ .diverge := by
  cases v with
  | ptr a => simp only [Store.get]; cases s.cells[a]? <;> simp [ofOption]
  | _ => simp [Store.get]

theorem vecGet_ne_diverge (s : Store) (i : Nat) : s.vecGet i ≠ .diverge := by
  unfold Store.vecGet; cases s.vecs[i]? <;> simp [ofOption]

theorem strGet_ne_diverge (s : Store) (i : Nat) : s.strGet i ≠ .diverge := by
  unfold Store.strGet; cases s.strs[i]? <;> simp [ofOption]

theorem bind_ne_diverge {α β} {x : Outcome α} {f : α → Outcome β} (hx : x ≠ .diverge)
    (hf : ∀ a, x = .ok a → f a ≠ .diverge) : (x >>= f) ≠ .diverge := by
  cases x with
  | ok a => exact hf a rfl
  | err e => simp
  | panic m => simp
  | diverge => exact absurd rfl hx

theorem eqvCells_ne_diverge (s : Store) (l r : VCell) : eqvCells s l r ≠ .diverge := by
  unfold eqvCells
  split <;> try simp
  exact bind_ne_diverge (strGet_ne_diverge _ _) (fun a _ => bind_ne_diverge (strGet_ne_diverge _ _) (fun b _ => by simp))

theorem eqv_ne_diverge (s : Store) (l r : VCell) : eqv s l r ≠ .diverge := by
  unfold eqv derefArg
  split
  · simp
  · exact bind_ne_diverge (get_ne_diverge _ _) (fun a _ => bind_ne_diverge (get_ne_diverge _ _)
      (fun b _ => eqvCells_ne_diverge _ _ _))

/-- what `s.get` hands back in a shaped store -/
theorem get_shaped {s : Store} (hsh : s.Shaped) {v c : VCell} (h : s.get v = .ok c) :
    c.isPtr = false ∧ ((∃ a, v = .ptr a ∧ a < s.cells.length ∧ s.cells[a]? = some c) ∨ (v.isPtr = false ∧ c = v)) := by
  cases v with
  | ptr a =>
    simp only [Store.get] at h
    cases hc : s.cells[a]? with
    | none => simp [hc, ofOption] at h
    | some x =>
      simp only [hc, ofOption, Outcome.ok.injEq] at h
      subst h
      have hlt : a < s.cells.length := by
        rcases Nat.lt_or_ge a s.cells.length with h | h
        · exact h
        · simp [List.getElem?_eq_none h] at hc
      exact ⟨hsh.cells x (List.mem_of_getElem? hc), .inl ⟨a, rfl, hlt, hc⟩⟩
  | _ => simp only [Store.get, Outcome.ok.injEq] at h; subst h; exact ⟨rfl, .inr ⟨rfl, rfl⟩⟩

theorem vecGet_shaped {s : Store} (hsh : s.Shaped) {i : Nat} {xs : List VCell} (h : s.vecGet i = .ok xs) :
    (∀ x ∈ xs, x.isValue = true) ∧ xs.length ≤ maxVecLen s := by
  unfold Store.vecGet at h
  cases hc : s.vecs[i]? with
  | none => simp [hc, ofOption] at h
  | some x =>
    simp only [hc, ofOption, Outcome.ok.injEq] at h
    subst h
    have hm := List.mem_of_getElem? hc
    exact ⟨hsh.slots x hm, length_le_maxVecLen hm⟩

theorem get_nonptr (s : Store) {v : VCell} (h : v.isPtr = false) : s.get v = .ok v := by
  cases v <;> first | rfl | simp [VCell.isPtr] at h

theorem visit_sub {seen seen' : Seen} {a b : Nat} (h : seen.visit a b = some seen') : ∀ p ∈ seen, p ∈ seen' := by
  obtain ⟨rfl, _⟩ := visit_some h
  intro p hp; simp [hp]

/-! ## the fuel bound -/

/-- the five call shapes of the three loops, by induction on the fuel; `c = maxVecLen s + 5` levels per
    recorded pair of locations -/
theorem equalSeen_terminates {s : Store} (hsh : s.Shaped) (c : Nat) (hc : c = maxVecLen s + 5) : ∀ f : Nat,
    (∀ seen l r, l.isValue = true → r.isValue = true → unseen s.cells.length seen * c + 1 ≤ f →
      Term seen (equalSeen f s seen l r)) ∧
    (∀ seen l r, l.isPtr = false → r.isPtr = false → (l.isPair && r.isPair) = false →
      unseen s.cells.length seen * c + maxVecLen s + 3 ≤ f → Term seen (equalSeen f s seen l r)) ∧
    (∀ seen l r, l.isPtr = false → r.isPtr = false → unseen s.cells.length seen * c + c ≤ f →
      Term seen (comparePairSeen f s seen l r)) ∧
    (∀ seen l r, l.isPtr = false → r.isPtr = false → (l.isPair && r.isPair) = false →
      unseen s.cells.length seen * c + maxVecLen s + 4 ≤ f → Term seen (comparePairSeen f s seen l r)) ∧
    (∀ seen xs ys, (∀ x ∈ xs, x.isValue = true) → (∀ y ∈ ys, y.isValue = true) → xs.length ≤ maxVecLen s →
      unseen s.cells.length seen * c + xs.length + 2 ≤ f → Term seen (compareVectorSeen f s seen xs ys)) := by
  intro f
  induction f with
  | zero =>
    refine ⟨?_, ?_, ?_, ?_, ?_⟩
    · intro _ _ _ _ _ h; omega
    · intro _ _ _ _ _ _ h; omega
    · intro _ _ _ _ _ h; omega
    · intro _ _ _ _ _ _ h; omega
    · intro _ _ _ _ _ _ h; omega
  | succ f ih =>
    obtain ⟨ihE, ihE', ihP, ihP', ihW⟩ := ih
    refine ⟨?_, ?_, ?_, ?_, ?_⟩
    · -- `equal_seen` on two values
      intro seen l r hl hr hf
      unfold equalSeen
      refine Term.bind_nd (eqv_ne_diverge s l r) (fun b _ => ?_)
      split
      · exact Term.ok _ _
      · unfold derefArg
        refine Term.bind_nd (get_ne_diverge s l) (fun l' hl' => ?_)
        refine Term.bind_nd (get_ne_diverge s r) (fun r' hr' => ?_)
        obtain ⟨hlp, hlc⟩ := get_shaped hsh hl'
        obtain ⟨hrp, hrc⟩ := get_shaped hsh hr'
        split
        · -- two pairs: both arguments were references
          rcases hlc with ⟨a, rfl, ha, -⟩ | ⟨-, rfl⟩
          · rcases hrc with ⟨b, rfl, hb, -⟩ | ⟨-, rfl⟩
            · simp only [Seen.record]
              split
              · exact Term.ok _ _
              · rename_i seen' hv
                have hU := Nat.mul_le_mul_right c (unseen_visit ha hb hv)
                rw [Nat.add_mul, Nat.one_mul] at hU
                exact (ihP seen' _ _ hlp hrp (by omega)).mono (visit_sub hv)
            · simp [VCell.isValue] at hr
          · simp [VCell.isValue] at hl
        · -- two vectors
          rcases hlc with ⟨a, rfl, ha, -⟩ | ⟨-, rfl⟩
          · rcases hrc with ⟨b, rfl, hb, -⟩ | ⟨-, rfl⟩
            · simp only [Seen.record]
              split
              · exact Term.ok _ _
              · rename_i seen' hv
                have hU := Nat.mul_le_mul_right c (unseen_visit ha hb hv)
                rw [Nat.add_mul, Nat.one_mul] at hU
                have hsub := visit_sub hv
                refine Term.bind_nd (vecGet_ne_diverge s _) (fun xs hxs => ?_)
                refine Term.bind_nd (vecGet_ne_diverge s _) (fun ys hys => ?_)
                have hx := vecGet_shaped hsh hxs
                split
                · exact Term.ok_of _ hsub
                · exact (ihW seen' xs ys hx.1 (vecGet_shaped hsh hys).1 hx.2 (by omega)).mono hsub
            · simp [VCell.isValue] at hr
          · simp [VCell.isValue] at hl
        · exact Term.bind_nd (strGet_ne_diverge s _) (fun _ _ =>
            Term.bind_nd (strGet_ne_diverge s _) (fun _ _ => Term.ok _ _))
        · exact Term.bind_nd (eqv_ne_diverge s _ _) (fun _ _ => Term.ok _ _)
    · -- `equal_seen` on two cells that are not both pairs (the final cdrs of `compare_pair`)
      intro seen l r hl hr hpp hf
      unfold equalSeen
      refine Term.bind_nd (eqv_ne_diverge s l r) (fun b _ => ?_)
      split
      · exact Term.ok _ _
      · unfold derefArg
        simp only [get_nonptr s hl, get_nonptr s hr, bind_ok]
        split
        · simp [VCell.isPair] at hpp
        · simp only [Seen.record]
          refine Term.bind_nd (vecGet_ne_diverge s _) (fun xs hxs => ?_)
          refine Term.bind_nd (vecGet_ne_diverge s _) (fun ys hys => ?_)
          have hx := vecGet_shaped hsh hxs
          split
          · exact Term.ok _ _
          · exact ihW seen xs ys hx.1 (vecGet_shaped hsh hys).1 hx.2 (by omega)
        · exact Term.bind_nd (strGet_ne_diverge s _) (fun _ _ =>
            Term.bind_nd (strGet_ne_diverge s _) (fun _ _ => Term.ok _ _))
        · exact Term.bind_nd (eqv_ne_diverge s _ _) (fun _ _ => Term.ok _ _)
    · -- `compare_pair`
      intro seen l r hl hr hf
      unfold comparePairSeen
      split
      · rename_i hnp
        refine ihE' seen l r hl hr ?_ (by omega)
        cases hA : l.isPair <;> cases hB : r.isPair <;> simp_all
      · rename_i hbp
        cases l with
        | pair a d =>
          cases r with
          | pair a' d' =>
            simp only [VCell.asCar_pair, VCell.asCdr_pair, bind_ok, VCell.asPtr_ptr]
            refine Term.bind (ihE seen (.ptr a) (.ptr a') rfl rfl (by omega)) (fun b seen1 _ hsub => ?_)
            have hU1 := Nat.mul_le_mul_right c (unseen_mono (n := s.cells.length) hsub)
            simp only
            split
            · exact Term.ok _ _
            · refine Term.bind_nd (get_ne_diverge s _) (fun l' hl' => ?_)
              refine Term.bind_nd (get_ne_diverge s _) (fun r' hr' => ?_)
              obtain ⟨hlp, hlc⟩ := get_shaped hsh hl'
              obtain ⟨hrp, hrc⟩ := get_shaped hsh hr'
              split
              · have hd : d < s.cells.length := by
                  rcases hlc with ⟨a0, h0, h1, -⟩ | ⟨h, -⟩
                  · cases h0; exact h1
                  · simp [VCell.isPtr] at h
                have hd' : d' < s.cells.length := by
                  rcases hrc with ⟨a0, h0, h1, -⟩ | ⟨h, -⟩
                  · cases h0; exact h1
                  · simp [VCell.isPtr] at h
                split
                · exact Term.ok _ _
                · rename_i seen2 hv
                  have hU := Nat.mul_le_mul_right c (unseen_visit hd hd' hv)
                  rw [Nat.add_mul, Nat.one_mul] at hU
                  exact (ihP seen2 l' r' hlp hrp (by omega)).mono (visit_sub hv)
              · rename_i hnb
                exact ihP' seen1 l' r' hlp hrp (by simpa using hnb) (by omega)
          | _ => simp [VCell.isPair] at hbp
        | _ => simp [VCell.isPair] at hbp
    · -- `compare_pair` on two cells that are not both pairs: straight to `equal_seen`
      intro seen l r hl hr hpp hf
      unfold comparePairSeen
      split
      · exact ihE' seen l r hl hr hpp (by omega)
      · rename_i hbp
        cases hA : l.isPair <;> cases hB : r.isPair <;> simp_all
    · -- `compare_vector`
      intro seen xs ys hx hy hlen hf
      cases xs with
      | nil => simp only [compareVectorSeen]; exact Term.ok _ _
      | cons x xs' =>
        cases ys with
        | nil => simp only [compareVectorSeen]; exact Term.panic _ _
        | cons y ys' =>
          simp only [compareVectorSeen]
          simp only [List.length_cons] at hf hlen
          refine Term.bind (ihE seen x y (hx x (by simp)) (hy y (by simp)) (by omega)) (fun b seen1 _ hsub => ?_)
          have hU1 := Nat.mul_le_mul_right c (unseen_mono (n := s.cells.length) hsub)
          simp only
          split
          · exact Term.ok _ _
          · exact ihW seen1 xs' ys' (fun z hz => hx z (by simp [hz])) (fun z hz => hy z (by simp [hz]))
              (by omega) (by omega)

/-- **`equal?` terminates on every store** (dfd9e81): on a store of the shape of a real heap — circular or
    not, well-formed or not — and any two values, `equalFuel s = |cells|² · (maxVecLen + 5) + 1` units of
    fuel are never exhausted: the answer is a boolean, an error or a panic (the last two are excluded on
    well-formed stores by `equal_noPanic`), never `diverge` -/
theorem equal_total {s : Store} (hsh : s.Shaped) {l r : VCell} (hl : l.isValue = true) (hr : r.isValue = true)
    {fuel : Nat} (hf : equalFuel s ≤ fuel) : equal fuel s l r ≠ .diverge := by
  have hU := Nat.mul_le_mul_right (maxVecLen s + 5) (unseen_le s.cells.length [])
  have h := ((equalSeen_terminates hsh _ rfl fuel).1 [] l r hl hr (by unfold equalFuel at hf; omega)).1
  unfold equal
  exact bind_ne_diverge h (fun a _ => by obtain ⟨b, sn⟩ := a; simp)

end Marwood.Store
