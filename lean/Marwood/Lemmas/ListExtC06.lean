import Marwood.Lemmas.ListExtSim
import Marwood.Lemmas.ListExtGood
import Marwood.Lemmas.ListExtCode
import Marwood.Lemmas.ListExtProc
import Marwood.Lemmas.ListExtNoPanic
import Marwood.Lemmas.ListExtEnv
import Marwood.Lemmas.ListExtDemo
import Marwood.Lemmas.EnvInvDemo
import Marwood.Proofs.C06

/-! Corollaries of `Proofs/C06.lean` (T06.6 on the concrete machine) at the real builtins `listExtWith` (see
Lemmas/ListExtProps.lean for the overview): the two laws of waves 9–10, `ExtNoPanic` and `ExtEnvInv`, are theorems for
the table of `Vm/ListExt.lean` (`listExtWith_noPanic`: Lemmas/ListExtNoPanic.lean, `listExtWith_envInv`:
Lemmas/ListExtEnv.lean — both as stated, no premise added), so the four closed T06.6 theorems have NO hypothesis about
builtins left. What remains: `VmOkP`, `NPInv`, `EnvInv` of the INITIAL state (of every prepared state, for a history)
and the physical bound `SizeBounded`. -/

/-! ### the demo state satisfies the two further clauses of `NPInv` -/

namespace Marwood.Lemmas.Good.LDemo
open Marwood Marwood.Vm Marwood.Vm.Concrete Marwood.Lemmas.Sim

/-- `HeapNP` and `ContFits` of the demo state, through the executable check -/
theorem sDemo_npinv : NPInv sDemo := npinv_of_check (by decide +kernel) (by decide +kernel)

/-- the states of the collection-free run are reachable -/
theorem reaches_run : ∀ k, k ≤ 17 → Reaches (machine listExt false) sDemo (st k) := by
  intro k
  induction k with
  | zero => intro _; rw [st_zero]; exact .refl _
  | succ k ih =>
    intro hk
    by_cases h16 : k < 16
    · exact .next (ih (by omega)) (step_next h16)
    · have : k = 16 := by omega
      subst this
      exact .halt (ih (by omega)) step_halt

def failIsErr {S : Type} : StepRes S Fault → Bool
  | .fail (.err _) _ => true
  | _ => false

/-- running on after HALT (`ip` beyond the code) is an error, not a panic -/
theorem st17_fault : failIsErr (vmStep (concreteOps listExt) (st 17)) = true := by decide +kernel

end Marwood.Lemmas.Good.LDemo

namespace Marwood.Proofs.C06
open Marwood Marwood.Vm Marwood.Vm.Concrete Marwood.Lemmas.Sim Marwood.Lemmas.Good

section
variable (eqTag : String → String → Bool)

/-- **T06.6 at the real builtins: `step` never panics on a state reachable from a good initial state** of the
    concrete machine whose generic builtins are the table of `Vm/ListExt.lean` — except at the model's own fuel guard
    in `apply`. No hypothesis about the builtins. -/
theorem step_never_panics_listExt (force : Bool) {s0 : St CHeap}
    (h0 : VmOkP (listExtWith eqTag) (listExtWith_codeLawsV eqTag) s0) (n0 : NPInv s0) (e0 : EnvInv s0)
    (sb : SizeBounded (machine (listExtWith eqTag) force) s0) {s : St CHeap}
    (hr : Reaches (machine (listExtWith eqTag) force) s0 s) (m : String)
    (hp : step (concreteOps (listExtWith eqTag)) s = .panic m) : m = "apply: list longer than fuel (cyclic list)" :=
  step_never_panics_machine_closed _ (listExtWith_codeLawsV eqTag) force (listExtWith_laws eqTag)
    (listExtWith_good eqTag) (listExtWith_proc eqTag) (listExtWith_noPanic eqTag) (listExtWith_envInv eqTag)
    h0 n0 e0 sb hr m hp

/-- **`run_count` at the real builtins never ends in a panic**: any budget, any number of instructions -/
theorem run_never_panics_listExt (force : Bool) {s0 : St CHeap}
    (h0 : VmOkP (listExtWith eqTag) (listExtWith_codeLawsV eqTag) s0) (n0 : NPInv s0) (e0 : EnvInv s0)
    (sb : SizeBounded (machine (listExtWith eqTag) force) s0) (count : Option Nat) (fuel c : Nat) {m : String}
    {sf : St CHeap} (hr : runLoop (machine (listExtWith eqTag) force) count fuel c s0 = .error (.panic m) sf) :
    m = "apply: list longer than fuel (cyclic list)" :=
  run_never_panics_machine_closed _ (listExtWith_codeLawsV eqTag) force (listExtWith_laws eqTag)
    (listExtWith_good eqTag) (listExtWith_proc eqTag) (listExtWith_noPanic eqTag) (listExtWith_envInv eqTag)
    h0 n0 e0 sb count fuel c hr

/-- **one evaluation (`run_count` with its epilogues) at the real builtins never fails with a panic** -/
theorem eval_never_panics_listExt (force : Bool) {s0 : St CHeap}
    (h0 : VmOkP (listExtWith eqTag) (listExtWith_codeLawsV eqTag) s0) (n0 : NPInv s0) (e0 : EnvInv s0)
    (sb : SizeBounded (machine (listExtWith eqTag) force) s0) (count : Option Nat) (fuel : Nat) {m : String}
    {s1 : St CHeap}
    (hr : runEval (concreteOps (listExtWith eqTag)) (cgc force) count fuel s0 = .failed (.panic m) s1) :
    m = "apply: list longer than fuel (cyclic list)" :=
  eval_never_panics_machine_closed _ (listExtWith_codeLawsV eqTag) force (listExtWith_laws eqTag)
    (listExtWith_good eqTag) (listExtWith_proc eqTag) (listExtWith_noPanic eqTag) (listExtWith_envInv eqTag)
    h0 n0 e0 sb count fuel hr

/-- **no history of evaluations makes the modelled VM with the real builtins panic**: `NPInv` of the first state,
    `VmOkP`, `EnvInv` and `SizeBounded` of every prepared state (`HistGoodE`) -/
theorem history_never_panics_listExt (force : Bool) (js : List C07.Job) (s : St CHeap) (n0 : NPInv s)
    (hg : HistGoodE (listExtWith eqTag) (listExtWith_codeLawsV eqTag) force js s) :
    ∀ f ∈ histFaults (listExtWith eqTag) force js s, ∀ m, f = Fault.panic m →
      m = "apply: list longer than fuel (cyclic list)" :=
  history_never_panics_machine_closed _ (listExtWith_codeLawsV eqTag) force (listExtWith_laws eqTag)
    (listExtWith_good eqTag) (listExtWith_proc eqTag) (listExtWith_noPanic eqTag) (listExtWith_envInv eqTag)
    js s n0 hg

/-- **T06.6 for whole sessions at the real builtins, from the invariants of the INITIAL state only**: no history of
    `eval` calls — each with its `prepare_eval` (`HistInstalls`) — makes the modelled VM with the builtins of
    `Vm/ListExt.lean` panic, except through `apply`'s list-length guard. No hypothesis about builtins, none about any
    later state: `IdleOk`, `NPInv`, `EnvInv` of the initial state (`acc` not pointing to a capturing lambda) and the
    physical size bounds. -/
theorem history_never_panics_from_initial_listExt (force : Bool) {s0 sf : St CHeap} {recs : List EvRec}
    (hist : HistInstalls (listExtWith eqTag) force s0 recs sf) (i0 : IdleOk s0) (n0 : NPInv s0) (e0 : EnvInv s0)
    (a0 : neE s0.heap s0.acc = true) (sz : ∀ rc ∈ recs, RecSized (listExtWith eqTag) force rc) :
    ∀ f ∈ recFaults recs, ∀ m, f = Fault.panic m → m = "apply: list longer than fuel (cyclic list)" :=
  history_never_panics_from_initial _ (listExtWith_codeLawsV eqTag) force (listExtWith_laws eqTag)
    (listExtWith_good eqTag) (listExtWith_proc eqTag) (listExtWith_noPanic eqTag) (listExtWith_envInv eqTag)
    hist i0 n0 e0 a0 sz

end

/-! ### non-vacuity: a program that runs `cons`, `set-car!` and `car` -/

open Marwood.Lemmas.Good.Demo in
/-- every hypothesis of `history_never_panics_from_initial_listExt` holds of a history on the demo machine in which
    `prepare_eval` allocated two code objects (`Demo.demo_installs`, taken as a rejected form's garbage) -/
example (eqTag : String → String → Bool) : ∀ f ∈ recFaults [EvRec.rejected sT], ∀ m, f = Fault.panic m →
    m = "apply: list longer than fuel (cyclic list)" :=
  history_never_panics_from_initial_listExt eqTag false (HistInstalls.rejected demo_garbage (.nil _)) sHalt_idleOk
    (sHalt_npinv 0) (sHalt_envInv 0 (.inl rfl)) rfl
    (by
      intro rc hrc
      have : rc = .rejected sT := by simpa using hrc
      subst this
      exact ⟨demo_small, by unfold Small; decide +kernel⟩)

open Marwood.Lemmas.Good.LDemo in
/-- every hypothesis holds of the demo state -/
theorem demo_hypotheses : VmOkP listExt listExt_codeLawsV sDemo ∧ NPInv sDemo ∧ EnvInv sDemo ∧
    SizeBounded (machine listExt false) sDemo :=
  ⟨⟨sDemo_vmOk _ _, sDemo_pinv⟩, sDemo_npinv, sDemo_envInv, sDemo_sizeBounded⟩

open Marwood.Lemmas.Good.LDemo in
/-- **through the theorem: none of the 17 instructions of `(define p (cons 1 2)) (set-car! p 3) (car p)` — three of
    them CALLs of `cons`, `set-car!`, `car` — panics** (nor does the step after HALT), whatever collections the
    utilisation-tested collector interleaves -/
theorem demo_steps_never_panic (k : Nat) (hk : k ≤ 17) (m : String)
    (hp : step (concreteOps listExt) (st k) = .panic m) : m = "apply: list longer than fuel (cyclic list)" :=
  step_never_panics_listExt _ false demo_hypotheses.1 demo_hypotheses.2.1 demo_hypotheses.2.2.1
    demo_hypotheses.2.2.2 (reaches_run k hk) m hp

open Marwood.Lemmas.Good.LDemo in
/-- **… and no run of the demo ends in a panic, for any budget and fuel**: by the theorem the only candidate is
    `apply`'s guard, and the program has no `apply` (the run can only fail at the instruction after HALT, with an
    error) -/
theorem demo_run_never_panics (count : Option Nat) (fuel c : Nat) (m : String) (sf : St CHeap) :
    runLoop (machine listExt false) count fuel c sDemo ≠ .error (.panic m) sf := by
  intro hr
  have hm := run_never_panics_listExt _ false demo_hypotheses.1 demo_hypotheses.2.1 demo_hypotheses.2.2.1
    demo_hypotheses.2.2.2 count fuel c hr
  obtain ⟨hreach, hst⟩ := (runLoop_ends (ext := listExt) false count fuel c sDemo).1 _ _ hr
  obtain ⟨k, hk, rfl⟩ := reaches_st hreach
  by_cases h16 : k < 16
  · rw [step_next h16] at hst; cases hst
  · have : k = 16 ∨ k = 17 := by omega
    rcases this with rfl | rfl
    · rw [LDemo.step_halt] at hst; cases hst
    · have := st17_fault
      rw [hst] at this
      cases this

end Marwood.Proofs.C06
