import Marwood.Lemmas.PrintParse
/-!
# T10.1 by structural induction: the reader returns `canon d` for the text `write d`
-/
namespace Marwood
open Marwood.Proofs.C16

variable (fo : FloatOps)

/-! ## atoms -/

theorem printAtom_char (c : Char) : printAtom fo true (.char c) = writeEscapedChar c := rfl
theorem printAtom_str (s : Text) : printAtom fo true (.str s) = writeString s := rfl
theorem printAtom_sym (alt : Bool) (s : Text) : printAtom fo alt (.sym s) = s := rfl
theorem printAtom_num (alt : Bool) (n : Num) : printAtom fo alt (.num n) = printNumber fo n := rfl

theorem readsD_bool (b : Bool) {text pre rest0 : Text}
    (htext : text = pre ++ printAtom fo true (.bool b) ++ rest0) :
    ReadsD fo text pre (printAtom fo true (.bool b)) rest0 (.bool b) := by
  cases b with
  | true =>
    refine readsD_atom fo htext (scansAs_true rest0) rfl (by decide) (by decide) ?_
    intro t k hty _
    unfold parseAtom
    simp only [hty]
  | false =>
    refine readsD_atom fo htext (scansAs_false rest0) rfl (by decide) (by decide) ?_
    intro t k hty _
    unfold parseAtom
    simp only [hty]

theorem readsD_char (c : Char) {text pre rest0 : Text} (hd : Delim rest0)
    (htext : text = pre ++ printAtom fo true (.char c) ++ rest0) :
    ReadsD fo text pre (printAtom fo true (.char c)) rest0 (.char c) := by
  rw [printAtom_char] at htext ⊢
  refine readsD_atom fo htext (scansAs_char c rest0 hd) rfl (by decide) (by decide) ?_
  intro t k hty hsp
  unfold parseAtom
  simp only [hty, hsp, parseCharSpan_writeEscapedChar]

theorem readsD_str (s : Text) {text pre rest0 : Text}
    (htext : text = pre ++ printAtom fo true (.str s) ++ rest0) :
    ReadsD fo text pre (printAtom fo true (.str s)) rest0 (.str s) := by
  rw [printAtom_str] at htext ⊢
  refine readsD_atom fo htext (scansAs_string s rest0) rfl (by decide) (by decide) ?_
  intro t k hty hsp
  unfold parseAtom
  simp only [hty, hsp, stringInner_writeString, parseString_escapeStr]

theorem readsD_sym (s : Text) (hs : SymTok fo s) {text pre rest0 : Text} (hd : Delim rest0)
    (htext : text = pre ++ printAtom fo true (.sym s) ++ rest0) :
    ReadsD fo text pre (printAtom fo true (.sym s)) rest0 (.sym s) := by
  rw [printAtom_sym] at htext ⊢
  rcases hs rest0 hd with h | ⟨h, hn⟩
  · refine readsD_atom fo htext h rfl (by decide) (by decide) ?_
    intro t k hty hsp
    unfold parseAtom
    simp only [hty, hsp]
  · refine readsD_atom fo htext h rfl (by decide) (by decide) ?_
    intro t k hty hsp
    rw [parseAtom_number fo text t k s hty hsp, hn]

theorem isExact_of_not_flo {n : Num} (h : ∀ f, n ≠ .flo f) : isExact n = true := by
  cases n with
  | flo f => exact absurd rfl (h f)
  | _ => rfl

theorem printNumber_shape (ht : FloatLex fo) (n : Num) (hwf : n.WF = true)
    (hfin : ∀ f, n = .flo f → f.isFinite = true) : NumberShape (printNumber fo n) := by
  cases n with
  | fix n => exact intDigits10_shape n
  | big n => exact intDigits10_shape n
  | rat n d =>
    simp only [Num.WF, Bool.and_eq_true, decide_eq_true_eq] at hwf
    exact ratDigits10_shape n d hwf.1.1.1
  | flo f => exact ht.shape f (hfin f rfl)

theorem parseNumber_printNumber (ht : FloatText fo) (n : Num) (hwf : n.WF = true)
    (hfin : ∀ f, n = .flo f → f.isFinite = true) :
    parseNumber fo 10 (printNumber fo n) = .ok (normalize n) := by
  cases n with
  | flo f =>
    have := float_roundtrip fo ht f (hfin f rfl)
    rw [numberToString10] at this
    exact this
  | fix m =>
    have := (exact_roundtrip fo (.fix m) hwf rfl 10 (.inr (.inr (.inl rfl)))).1
    rw [numberToString10] at this
    exact this
  | big m =>
    have := (exact_roundtrip fo (.big m) hwf rfl 10 (.inr (.inr (.inl rfl)))).1
    rw [numberToString10] at this
    exact this
  | rat m d =>
    have := (exact_roundtrip fo (.rat m d) hwf rfl 10 (.inr (.inr (.inl rfl)))).1
    rw [numberToString10] at this
    exact this

theorem readsD_num (ht : FloatText fo) (hl : FloatLex fo) (n : Num) (hwf : n.WF = true)
    (hfin : ∀ f, n = .flo f → f.isFinite = true) {text pre rest0 : Text} (hd : Delim rest0)
    (htext : text = pre ++ printAtom fo true (.num n) ++ rest0) :
    ReadsD fo text pre (printAtom fo true (.num n)) rest0 (.num (normalize n)) := by
  rw [printAtom_num] at htext ⊢
  refine readsD_atom fo htext (scansAs_numberShape (printNumber_shape fo hl n hwf hfin) rest0 hd) rfl
    (by decide) (by decide) ?_
  intro t k hty hsp
  rw [parseAtom_number fo text t k _ hty hsp,
    parseWithExactness_unspecified fo _ _ (parseNumber_printNumber fo ht n hwf hfin)]

theorem byteLen_lparen : byteLen ['('] = 1 := by decide
theorem byteLen_rparen : byteLen [')'] = 1 := by decide

theorem closes_paren : closes '(' ')' = true := by decide

/-- `()` -/
theorem readsD_nil {text pre rest0 : Text} (htext : text = pre ++ ['(', ')'] ++ rest0) :
    ReadsD fo text pre ['(', ')'] rest0 .nil := by
  have hseg : ScanSeg pre (['('] ++ [')']) rest0
      ([⟨byteLen pre, byteLen pre + byteLen ['('], .leftParen⟩] ++
       [⟨byteLen (pre ++ ['(']), byteLen (pre ++ ['(']) + byteLen [')'], .rightParen⟩]) :=
    ScanSeg.append (ScanSeg.tok (scansAs_lparen _)) (ScanSeg.tok (scansAs_rparen _))
  refine ⟨_, hseg, ⟨_, _, rfl, by simp, by simp⟩, ?_⟩
  intro k
  refine ⟨2, ?_⟩
  have h1 : text = pre ++ ['('] ++ ([')'] ++ rest0) := by rw [htext]; simp
  have h2 : text = (pre ++ ['(']) ++ [')'] ++ rest0 := by rw [htext]; simp
  simp only [List.singleton_append, List.cons_append, List.nil_append]
  rw [parseF]
  simp only [tokKind]
  rw [listF]
  simp only [if_true]
  unfold closeList
  have f1 : firstChar text ⟨byteLen pre, byteLen pre + byteLen ['('], .leftParen⟩ = .ok '(' := by
    rw [h1]; exact firstChar_mid pre '(' [] _ _
  have f2 : firstChar text ⟨byteLen (pre ++ ['(']), byteLen (pre ++ ['(']) + byteLen [')'], .rightParen⟩
      = .ok ')' := by
    rw [h2]; exact firstChar_mid (pre ++ ['(']) ')' [] _ _
  simp only [f1, f2, closes_paren, if_true]
  rfl

/-! ## containers -/

theorem HeadOk.append {a : List Token} (h : HeadOk a) (b : List Token) : HeadOk (a ++ b) := by
  obtain ⟨t, r, rfl, h1, h2⟩ := h
  exact ⟨t, r ++ b, rfl, h1, h2⟩

theorem printRest_delim (d : Datum) (r : Text) : Delim (printRest fo true d ++ r) := by
  cases d <;> (rw [printRest]; simp [Delim])

theorem readsRest_nil {text pre rest0 : Text} (htext : text = pre ++ [')'] ++ rest0) :
    ReadsRest fo text pre [')'] rest0 .nil := by
  refine ⟨[⟨byteLen pre, byteLen pre + byteLen [')'], .rightParen⟩], ScanSeg.tok (scansAs_rparen _), ?_⟩
  intro start acc k _ hstart
  refine ⟨1, ?_⟩
  simp only [List.singleton_append]
  rw [listF]
  simp only [if_true]
  unfold closeList
  have f2 : firstChar text ⟨byteLen pre, byteLen pre + byteLen [')'], .rightParen⟩ = .ok ')' := by
    rw [htext]; exact firstChar_mid pre ')' [] _ _
  simp only [hstart, f2, closes_paren, if_true, ofListTail_nil]

theorem tailF_one {text : Text} {acc : List Datum} {ts k : List Token} {x : Datum} {trp : Token} {f1 : Nat}
    (hacc : acc ≠ []) (hh : HeadOk ts) (h1 : parseF fo text f1 ts = some (.ok (x, trp :: k)))
    (hrp : trp.ty = .rightParen) :
    tailF fo text (f1 + 1) acc ts = some (.ok (Datum.ofListTail acc x, k)) := by
  obtain ⟨t, ts0, rfl, hr, hd⟩ := hh
  rw [tailF]
  have he : acc.isEmpty = false := by
    cases acc with
    | nil => exact absurd rfl hacc
    | cons _ _ => rfl
  simp only [he, Bool.false_eq_true, if_false, hr, hd, or_self, h1, hrp, if_true,
    newImproperList_ne_nil hacc]

/-- `. d)` after the first elements of a list, for a tail `d` that is printed as a datum -/
theorem readsRest_dotted {text pre rest0 body : Text} {d' : Datum}
    (hD : ∀ pre' rest0', Delim rest0' → text = pre' ++ body ++ rest0' → ReadsD fo text pre' body rest0' d')
    (htext : text = pre ++ (' ' :: '.' :: ' ' :: (body ++ [')'])) ++ rest0) :
    ReadsRest fo text pre (' ' :: '.' :: ' ' :: (body ++ [')'])) rest0 d' := by
  have hb : text = (pre ++ [' '] ++ ['.'] ++ [' ']) ++ body ++ ([')'] ++ rest0) := by rw [htext]; simp
  obtain ⟨tsb, hsegb, hhead, hparse⟩ := hD _ _ (by simp [Delim]) hb
  have s1 : ScanSeg pre [' '] ((['.'] ++ ([' '] ++ (body ++ [')']))) ++ rest0) [] := ScanSeg.space _ _
  have s2 : ScanSeg (pre ++ [' ']) ['.'] (([' '] ++ (body ++ [')'])) ++ rest0)
      [⟨byteLen (pre ++ [' ']), byteLen (pre ++ [' ']) + byteLen ['.'], .dot⟩] :=
    ScanSeg.tok (scansAs_dot _)
  have s3 : ScanSeg (pre ++ [' '] ++ ['.']) [' '] ((body ++ [')']) ++ rest0) [] := ScanSeg.space _ _
  have s4 : ScanSeg (pre ++ [' '] ++ ['.'] ++ [' ']) body ([')'] ++ rest0) tsb := hsegb
  have s5 : ScanSeg (pre ++ [' '] ++ ['.'] ++ [' '] ++ body) [')'] rest0
      [⟨byteLen (pre ++ [' '] ++ ['.'] ++ [' '] ++ body),
        byteLen (pre ++ [' '] ++ ['.'] ++ [' '] ++ body) + byteLen [')'], .rightParen⟩] :=
    ScanSeg.tok (scansAs_rparen _)
  have seg := ScanSeg.append s1 (ScanSeg.append s2 (ScanSeg.append s3 (ScanSeg.append s4 s5)))
  refine ⟨_, seg, ?_⟩
  intro start acc k hacc _
  obtain ⟨f, hf⟩ := hparse (⟨byteLen (pre ++ [' '] ++ ['.'] ++ [' '] ++ body),
        byteLen (pre ++ [' '] ++ ['.'] ++ [' '] ++ body) + byteLen [')'], .rightParen⟩ :: k)
  refine ⟨f + 2, ?_⟩
  simp only [List.nil_append, List.singleton_append, List.cons_append, List.append_assoc]
  rw [listF]
  simp only [show (TokType.dot = TokType.rightParen) = False by simp, if_false, if_true]
  exact tailF_one fo hacc (hhead.append _) (by simpa using hf) rfl

/-- `(a …` : an element and the rest of the list -/
theorem readsD_list {text pre rest0 ba br : Text} {a' t' : Datum}
    (hA : ReadsD fo text (pre ++ ['(']) ba (br ++ rest0) a')
    (hR : ReadsRest fo text (pre ++ ['('] ++ ba) br rest0 t')
    (htext : text = pre ++ ('(' :: (ba ++ br)) ++ rest0) :
    ReadsD fo text pre ('(' :: (ba ++ br)) rest0 (.pair a' t') := by
  obtain ⟨tsa, hsegA, hheadA, hparseA⟩ := hA
  obtain ⟨tsr, hsegR, hparseR⟩ := hR
  have s1 : ScanSeg pre ['('] ((ba ++ br) ++ rest0)
      [⟨byteLen pre, byteLen pre + byteLen ['('], .leftParen⟩] := ScanSeg.tok (scansAs_lparen _)
  have seg := ScanSeg.append s1 (ScanSeg.append hsegA hsegR)
  refine ⟨_, seg, ⟨_, _, rfl, by simp, by simp⟩, ?_⟩
  intro k
  have hstart : firstChar text ⟨byteLen pre, byteLen pre + byteLen ['('], .leftParen⟩ = .ok '(' := by
    have : text = pre ++ ['('] ++ ((ba ++ br) ++ rest0) := by rw [htext]; simp
    rw [this]; exact firstChar_mid pre '(' [] _ _
  obtain ⟨f1, h1⟩ := hparseA (tsr ++ k)
  obtain ⟨f2, h2⟩ := hparseR ⟨byteLen pre, byteLen pre + byteLen ['('], .leftParen⟩ ([] ++ [a']) k
    (by simp) hstart
  refine ⟨max f1 f2 + 1 + 1, ?_⟩
  simp only [List.singleton_append, List.cons_append, List.append_assoc, List.nil_append]
  rw [parseF]
  simp only [tokKind]
  exact listF_elem fo text (hheadA.append _) h1 h2

/-- ` a …` : a further element and the rest of the list -/
theorem readsRest_cons {text pre rest0 ba br : Text} {a' t' : Datum}
    (hA : ReadsD fo text (pre ++ [' ']) ba (br ++ rest0) a')
    (hR : ReadsRest fo text (pre ++ [' '] ++ ba) br rest0 t') :
    ReadsRest fo text pre (' ' :: (ba ++ br)) rest0 (.pair a' t') := by
  obtain ⟨tsa, hsegA, hheadA, hparseA⟩ := hA
  obtain ⟨tsr, hsegR, hparseR⟩ := hR
  have s1 : ScanSeg pre [' '] ((ba ++ br) ++ rest0) [] := ScanSeg.space _ _
  have seg := ScanSeg.append s1 (ScanSeg.append hsegA hsegR)
  refine ⟨_, seg, ?_⟩
  intro start acc k _ hstart
  obtain ⟨f1, h1⟩ := hparseA (tsr ++ k)
  obtain ⟨f2, h2⟩ := hparseR start (acc ++ [a']) k (by simp) hstart
  refine ⟨max f1 f2 + 1, ?_⟩
  simp only [List.nil_append, List.append_assoc]
  rw [ofListTail_snoc] at h2
  exact listF_elem fo text (hheadA.append _) h1 h2

/-- `'x` -/
theorem readsD_quote {text pre rest0 bx : Text} {x' : Datum}
    (hX : ReadsD fo text (pre ++ ['\'']) bx rest0 x') :
    ReadsD fo text pre ('\'' :: bx) rest0 (quoteForm "quote" x') := by
  obtain ⟨tsx, hsegX, _, hparseX⟩ := hX
  have s1 : ScanSeg pre ['\''] (bx ++ rest0)
      [⟨byteLen pre, byteLen pre + byteLen ['\''], .singleQuote⟩] := ScanSeg.tok (scansAs_quote _)
  have seg := ScanSeg.append s1 hsegX
  refine ⟨_, seg, ⟨_, _, rfl, by simp, by simp⟩, ?_⟩
  intro k
  obtain ⟨f1, h1⟩ := hparseX k
  refine ⟨f1 + 1, ?_⟩
  simp only [List.singleton_append, List.cons_append, List.nil_append]
  rw [parseF]
  simp only [tokKind, h1, wrapRes]

/-- `#(…)` -/
theorem readsD_vec {text pre rest0 be : Text} {xs : List Datum}
    (hE : ReadsElems fo text (pre ++ ['#', '(']) be rest0 xs) :
    ReadsD fo text pre ('#' :: '(' :: be) rest0 (Datum.vecOfList xs) := by
  obtain ⟨tse, hsegE, hparseE⟩ := hE
  have s1 : ScanSeg pre ['#', '('] (be ++ rest0)
      [⟨byteLen pre, byteLen pre + byteLen ['#', '('], .hashParen⟩] := ScanSeg.tok (scansAs_hashParen _)
  have seg := ScanSeg.append s1 hsegE
  refine ⟨_, seg, ⟨_, _, rfl, by simp, by simp⟩, ?_⟩
  intro k
  obtain ⟨f1, h1⟩ := hparseE [] k
  refine ⟨f1 + 1, ?_⟩
  simp only [List.singleton_append, List.cons_append]
  rw [parseF]
  simp only [tokKind]
  simpa using h1

theorem readsElems_nil {text pre rest0 : Text} (htext : text = pre ++ [')'] ++ rest0) :
    ReadsElems fo text pre [')'] rest0 [] := by
  refine ⟨[⟨byteLen pre, byteLen pre + byteLen [')'], .rightParen⟩], ScanSeg.tok (scansAs_rparen _), ?_⟩
  intro acc k
  refine ⟨1, ?_⟩
  simp only [List.singleton_append]
  rw [vectorF]
  simp only [if_true]
  unfold closeVector
  have f2 : firstChar text ⟨byteLen pre, byteLen pre + byteLen [')'], .rightParen⟩ = .ok ')' := by
    rw [htext]; exact firstChar_mid pre ')' [] _ _
  simp only [f2, if_true, List.append_nil]

theorem readsElems_cons {text pre rest0 bx sep be : Text} {x' : Datum} {xs : List Datum}
    (hsep : sep = [] ∨ sep = [' '])
    (hX : ReadsD fo text pre bx (sep ++ be ++ rest0) x')
    (hE : ReadsElems fo text (pre ++ bx ++ sep) be rest0 xs) :
    ReadsElems fo text pre (bx ++ (sep ++ be)) rest0 (x' :: xs) := by
  obtain ⟨tsx, hsegX, hheadX, hparseX⟩ := hX
  obtain ⟨tse, hsegE, hparseE⟩ := hE
  have s2 : ScanSeg (pre ++ bx) sep (be ++ rest0) [] := by
    rcases hsep with h | h <;> subst h
    · exact ScanSeg.nil _ _
    · exact ScanSeg.space _ _
  have seg := ScanSeg.append (by simpa [List.append_assoc] using hsegX) (ScanSeg.append s2 hsegE)
  refine ⟨_, seg, ?_⟩
  intro acc k
  obtain ⟨f1, h1⟩ := hparseX (tse ++ k)
  obtain ⟨f2, h2⟩ := hparseE (acc ++ [x']) k
  refine ⟨max f1 f2 + 1, ?_⟩
  simp only [List.nil_append, List.append_assoc]
  have h2' : vectorF fo text f2 (acc ++ [x']) (tse ++ k) = some (.ok (Datum.vecOfList (acc ++ x' :: xs), k)) := by
    simpa [List.append_assoc] using h2
  exact vectorF_elem fo text (hheadX.append _) h1 h2'

end Marwood
