import Mathlib.Data.Rat.Floor
import Mathlib.Tactic.Linarith
import Mathlib.Tactic.Ring
import Mathlib.Tactic.Positivity
import Mathlib.Algebra.Order.Field.Power
import Marwood.Num.F64
/-!
# The integer routines under `Fl.rnd`: `roundHalfEven`, `geTwoPow`, `floorLog2`

* `RN y` — round-half-even of a rational, by `⌊y⌋`; `roundHalfEven N D = RN (N / D)`;
  `RN` is within 1/2, monotone, the identity on integers.
* `geTwoPow n d k ↔ 2^k ≤ n/d`, `2^(floorLog2 n d) ≤ n/d < 2^(floorLog2 n d + 1)`.
-/
namespace Marwood.Fl

/-- round to the nearest integer, ties to even -/
def RN (y : ℚ) : ℤ :=
  if 2 * (y - ⌊y⌋) > 1 then ⌊y⌋ + 1 else if 2 * (y - ⌊y⌋) = 1 then ⌊y⌋ + ⌊y⌋ % 2 else ⌊y⌋

theorem RN_ge_floor (y : ℚ) : ⌊y⌋ ≤ RN y := by
  unfold RN
  have := Int.emod_two_eq_zero_or_one ⌊y⌋
  split_ifs <;> omega

theorem RN_le_floor_add_one (y : ℚ) : RN y ≤ ⌊y⌋ + 1 := by
  unfold RN
  have := Int.emod_two_eq_zero_or_one ⌊y⌋
  split_ifs <;> omega

/-- the rounded value is within one half -/
theorem RN_near (y : ℚ) : |(RN y : ℚ) - y| ≤ 1 / 2 := by
  have h1 := Int.floor_le y
  have h2 := Int.lt_floor_add_one y
  unfold RN
  rw [abs_le]
  split_ifs with ha hb
  · push_cast; constructor <;> linarith
  · rcases Int.emod_two_eq_zero_or_one ⌊y⌋ with h | h <;> rw [h] <;> push_cast <;>
      constructor <;> linarith
  · have : 2 * (y - ⌊y⌋) < 1 := lt_of_le_of_ne (not_lt.mp ha) hb
    constructor <;> linarith

theorem RN_mono {y y' : ℚ} (h : y ≤ y') : RN y ≤ RN y' := by
  have hf := Int.floor_le_floor h
  rcases lt_or_eq_of_le hf with hlt | heq
  · have := RN_le_floor_add_one y
    have := RN_ge_floor y'
    omega
  · unfold RN
    rw [← heq]
    have h2 := Int.emod_two_eq_zero_or_one ⌊y⌋
    by_cases A : 2 * (y - ⌊y⌋) > 1
    · have A' : 2 * (y' - ⌊y⌋) > 1 := by linarith
      rw [if_pos A, if_pos A']
    · rw [if_neg A]
      by_cases B : 2 * (y - ⌊y⌋) = 1
      · rw [if_pos B]
        by_cases A' : 2 * (y' - ⌊y⌋) > 1
        · rw [if_pos A']; omega
        · have B' : 2 * (y' - ⌊y⌋) = 1 := le_antisymm (not_lt.mp A') (by linarith)
          rw [if_neg A', if_pos B']
      · rw [if_neg B]
        by_cases A' : 2 * (y' - ⌊y⌋) > 1
        · rw [if_pos A']; omega
        · rw [if_neg A']
          by_cases B' : 2 * (y' - ⌊y⌋) = 1
          · rw [if_pos B']; omega
          · rw [if_neg B']

theorem RN_intCast (k : ℤ) : RN (k : ℚ) = k := by
  unfold RN
  rw [Int.floor_intCast]
  simp

theorem RN_natCast (k : ℕ) : RN (k : ℚ) = k := by
  have := RN_intCast (k : ℤ)
  simpa using this

theorem RN_nonneg {y : ℚ} (h : 0 ≤ y) : 0 ≤ RN y := by
  have := RN_mono h
  rwa [show (0 : ℚ) = ((0 : ℤ) : ℚ) by simp, RN_intCast] at this

/-- `roundHalfEven` is `RN` of the quotient -/
theorem roundHalfEven_eq (N D : ℕ) (hD : 0 < D) : (roundHalfEven N D : ℤ) = RN ((N : ℚ) / D) := by
  have hDq : (0 : ℚ) < D := by exact_mod_cast hD
  have hfloor : ⌊(N : ℚ) / D⌋ = ((N / D : ℕ) : ℤ) := by
    have := Rat.floor_intCast_div_natCast (N : ℤ) D
    simpa using this
  have hdm : D * (N / D) + N % D = N := Nat.div_add_mod N D
  have hrlt : N % D < D := Nat.mod_lt N hD
  have hfrac : (N : ℚ) / D - ((N / D : ℕ) : ℚ) = ((N % D : ℕ) : ℚ) / D := by
    have : (N : ℚ) = D * ((N / D : ℕ) : ℚ) + ((N % D : ℕ) : ℚ) := by exact_mod_cast hdm.symm
    rw [eq_div_iff hDq.ne', sub_mul, div_mul_cancel₀ _ hDq.ne']
    linarith
  unfold RN roundHalfEven
  rw [hfloor, Int.cast_natCast, hfrac]
  have c1 : (2 * (((N % D : ℕ) : ℚ) / D) > 1) ↔ 2 * (N % D) > D := by
    rw [gt_iff_lt, ← mul_div_assoc, lt_div_iff₀ hDq]
    constructor
    · intro h; exact_mod_cast (by linarith : (D : ℚ) < 2 * ((N % D : ℕ) : ℚ))
    · intro h
      have : (D : ℚ) < 2 * ((N % D : ℕ) : ℚ) := by exact_mod_cast h
      linarith
  have c2 : (2 * (((N % D : ℕ) : ℚ) / D) = 1) ↔ 2 * (N % D) = D := by
    rw [← mul_div_assoc, div_eq_iff hDq.ne']
    constructor
    · intro h; exact_mod_cast (by linarith : 2 * ((N % D : ℕ) : ℚ) = (D : ℚ))
    · intro h
      have : 2 * ((N % D : ℕ) : ℚ) = (D : ℚ) := by exact_mod_cast h
      linarith
  simp only [c1, c2, beq_iff_eq]
  split_ifs <;> push_cast <;> omega

/-! ## powers of two -/

theorem two_zpow_pos (k : ℤ) : (0 : ℚ) < 2 ^ k := zpow_pos (by norm_num) k

theorem two_zpow_toNat {k : ℤ} (hk : 0 ≤ k) : ((2 ^ k.toNat : ℕ) : ℚ) = (2 : ℚ) ^ k := by
  have : (2 : ℚ) ^ k = (2 : ℚ) ^ ((k.toNat : ℕ) : ℤ) := by rw [Int.toNat_of_nonneg hk]
  rw [this, zpow_natCast]; push_cast; rfl

theorem two_zpow_neg_toNat {k : ℤ} (hk : k ≤ 0) : (((2 ^ (-k).toNat : ℕ) : ℚ))⁻¹ = (2 : ℚ) ^ k := by
  rw [two_zpow_toNat (by omega : 0 ≤ -k), zpow_neg, inv_inv]

theorem two_zpow_mono {a b : ℤ} (h : a ≤ b) : (2 : ℚ) ^ a ≤ 2 ^ b :=
  zpow_le_zpow_right₀ (by norm_num) h

theorem two_zpow_lt {a b : ℤ} (h : a < b) : (2 : ℚ) ^ a < 2 ^ b :=
  zpow_lt_zpow_right₀ (by norm_num) h

theorem two_zpow_lt_iff {a b : ℤ} : (2 : ℚ) ^ a < 2 ^ b ↔ a < b :=
  zpow_lt_zpow_iff_right₀ (by norm_num)

theorem two_zpow_add (a b : ℤ) : (2 : ℚ) ^ (a + b) = 2 ^ a * 2 ^ b := zpow_add₀ (by norm_num) a b

theorem two_zpow_sub (a b : ℤ) : (2 : ℚ) ^ (a - b) = 2 ^ a / 2 ^ b := zpow_sub₀ (by norm_num) a b

/-- `geTwoPow n d k` decides `2^k ≤ n/d` -/
theorem geTwoPow_iff (n d : ℕ) (hd : 0 < d) (k : ℤ) :
    geTwoPow n d k = true ↔ (2 : ℚ) ^ k ≤ (n : ℚ) / d := by
  have hdq : (0 : ℚ) < d := by exact_mod_cast hd
  unfold geTwoPow
  by_cases hk : k ≥ 0
  · rw [if_pos hk, decide_eq_true_iff, le_div_iff₀ hdq, ← two_zpow_toNat hk]
    constructor
    · intro h; have : ((d * 2 ^ k.toNat : ℕ) : ℚ) ≤ n := by exact_mod_cast h
      push_cast at this ⊢; linarith
    · intro h
      have : ((d * 2 ^ k.toNat : ℕ) : ℚ) ≤ n := by push_cast at h ⊢; linarith
      exact_mod_cast this
  · rw [if_neg hk, decide_eq_true_iff, le_div_iff₀ hdq, ← two_zpow_neg_toNat (by omega : k ≤ 0)]
    have hp : (0 : ℚ) < ((2 ^ (-k).toNat : ℕ) : ℚ) := by positivity
    rw [inv_mul_le_iff₀ hp]
    constructor
    · intro h; have : ((d : ℕ) : ℚ) ≤ ((n * 2 ^ (-k).toNat : ℕ) : ℚ) := by exact_mod_cast h
      push_cast at this ⊢; linarith
    · intro h
      have : ((d : ℕ) : ℚ) ≤ ((n * 2 ^ (-k).toNat : ℕ) : ℚ) := by push_cast at h ⊢; linarith
      exact_mod_cast this

/-- `floorLog2 n d = ⌊log₂ (n/d)⌋` -/
theorem floorLog2_spec (n d : ℕ) (hn : 0 < n) (hd : 0 < d) :
    (2 : ℚ) ^ (floorLog2 n d) ≤ (n : ℚ) / d ∧ (n : ℚ) / d < 2 ^ (floorLog2 n d + 1) := by
  have hdq : (0 : ℚ) < d := by exact_mod_cast hd
  have hnq : (0 : ℚ) < n := by exact_mod_cast hn
  -- 2^a ≤ n < 2^(a+1), 2^b ≤ d < 2^(b+1)
  have na : ((2 : ℚ) ^ ((Nat.log2 n : ℕ) : ℤ)) ≤ n := by
    rw [zpow_natCast]; exact_mod_cast Nat.log2_self_le hn.ne'
  have na' : (n : ℚ) < (2 : ℚ) ^ (((Nat.log2 n : ℕ) : ℤ) + 1) := by
    have : (n : ℚ) < ((2 ^ (Nat.log2 n + 1) : ℕ) : ℚ) := by exact_mod_cast Nat.lt_log2_self
    rw [show (((Nat.log2 n : ℕ) : ℤ) + 1) = ((Nat.log2 n + 1 : ℕ) : ℤ) by push_cast; rfl, zpow_natCast]
    push_cast at this; exact this
  have db : ((2 : ℚ) ^ ((Nat.log2 d : ℕ) : ℤ)) ≤ d := by
    rw [zpow_natCast]; exact_mod_cast Nat.log2_self_le hd.ne'
  have db' : (d : ℚ) < (2 : ℚ) ^ (((Nat.log2 d : ℕ) : ℤ) + 1) := by
    have : (d : ℚ) < ((2 ^ (Nat.log2 d + 1) : ℕ) : ℚ) := by exact_mod_cast Nat.lt_log2_self
    rw [show (((Nat.log2 d : ℕ) : ℤ) + 1) = ((Nat.log2 d + 1 : ℕ) : ℤ) by push_cast; rfl, zpow_natCast]
    push_cast at this; exact this
  set a : ℤ := ((Nat.log2 n : ℕ) : ℤ) with ha
  set b : ℤ := ((Nat.log2 d : ℕ) : ℤ) with hb
  have pa := two_zpow_pos a
  have pb := two_zpow_pos b
  -- n/d < 2^(a-b+1) and 2^(a-b-1) < n/d
  have up : (n : ℚ) / d < 2 ^ (a - b + 1) := by
    rw [div_lt_iff₀ hdq]
    have e : (2 : ℚ) ^ (a - b + 1) * 2 ^ b = 2 ^ (a + 1) := by
      rw [← two_zpow_add]; congr 1; ring
    calc (n : ℚ) < 2 ^ (a + 1) := na'
      _ = 2 ^ (a - b + 1) * 2 ^ b := e.symm
      _ ≤ 2 ^ (a - b + 1) * d := by
        apply mul_le_mul_of_nonneg_left db (two_zpow_pos _).le
  have lo : (2 : ℚ) ^ (a - b - 1) ≤ (n : ℚ) / d := by
    rw [le_div_iff₀ hdq]
    have e : (2 : ℚ) ^ (a - b - 1) * 2 ^ (b + 1) = 2 ^ a := by
      rw [← two_zpow_add]; congr 1; ring
    calc (2 : ℚ) ^ (a - b - 1) * d ≤ 2 ^ (a - b - 1) * 2 ^ (b + 1) := by
          apply mul_le_mul_of_nonneg_left db'.le (two_zpow_pos _).le
      _ = 2 ^ a := e
      _ ≤ n := na
  unfold floorLog2
  simp only [← ha, ← hb]
  by_cases hg : geTwoPow n d (a - b) = true
  · rw [if_pos hg]
    exact ⟨(geTwoPow_iff n d hd _).mp hg, up⟩
  · rw [if_neg hg]
    have : ¬ (2 : ℚ) ^ (a - b) ≤ (n : ℚ) / d := fun h => hg ((geTwoPow_iff n d hd _).mpr h)
    refine ⟨lo, ?_⟩
    rw [show a - b - 1 + 1 = a - b by ring]
    exact not_le.mp this

end Marwood.Fl
