import Marwood.Lemmas.TransformBuildPlain
/-!
# What a plain match binds: the keys are the pattern variables, every binding is a `one`
-/
namespace Marwood.Transform
open Marwood Marwood.Spec.Match

def AllOne (bs : Binds) : Prop := ∀ x t, (x, t) ∈ bs → ∃ d, t = MTree.one d

theorem AllOne_append {a b : Binds} (ha : AllOne a) (hb : AllOne b) : AllOne (a ++ b) := by
  intro x t h
  rcases List.mem_append.mp h with h | h
  · exact ha x t h
  · exact hb x t h

def Keys (c : Ctx) (P : Datum) (bs : Binds) : Prop := bs.map Prod.fst = patVars c P ∧ AllOne bs

theorem headNotEll_plainTail (s : Setup) {d : Datum} (h : plain.plainTail s.es d = true) :
    headNotEll s.ctx d = true := by
  obtain ⟨heq, hel, _⟩ := plainTail_spec h
  rw [heq]; exact headNotEll_plain s _ hel

theorem specMatch_plain_keys (s : Setup) : ∀ P : Datum,
    (plain s.es P = true → ∀ E bs, specMatch s.ctx P E = some bs → Keys s.ctx P bs) ∧
    (plain.plainTail s.es P = true → ∀ E bs, specMatch s.ctx P E = some bs → Keys s.ctx P bs) := by
  intro P
  induction P with
  | sym x =>
    constructor
    · intro hp E bs h
      have hx : x ≠ s.es := by simpa [plain] using hp
      rw [specMatch_sym s x E hx] at h
      simp only [Keys, patVars, Ctx.isVar, s.isEll_iff, beq_text]
      by_cases hl : s.ctx.isLit x = true
      · simp only [hl, if_true] at h
        split at h <;> cases h
        exact ⟨by simp [hl], fun _ _ h => by cases h⟩
      · simp only [hl, Bool.false_eq_true, if_false] at h
        by_cases hu : x = ['_']
        · simp only [hu, if_true] at h; cases h
          exact ⟨by simp [hu], fun _ _ h => by cases h⟩
        · simp only [hu, if_false] at h; cases h
          refine ⟨by simp [hl, hu, hx], fun y t h => ?_⟩
          simp at h; exact ⟨E, h.2⟩
    · intro h; simp [plain.plainTail] at h
  | pair a d iha ihd =>
    have key : plain s.es a = true → plain.plainTail s.es d = true →
        ∀ E bs, specMatch s.ctx (.pair a d) E = some bs → Keys s.ctx (.pair a d) bs := by
      intro ha hd E bs h
      rw [specMatch_pair _ _ _ _ (headNotEll_plainTail s hd)] at h
      cases E with
      | pair e1 er =>
        simp only [consMatch] at h
        cases h1 : specMatch s.ctx a e1 with
        | none => simp [h1] at h
        | some b1 =>
          cases h2 : specMatch s.ctx d er with
          | none => simp [h1, h2] at h
          | some b2 =>
            simp only [h1, h2, Option.some.injEq] at h
            subst h
            obtain ⟨k1, o1⟩ := iha.1 ha e1 b1 h1
            obtain ⟨k2, o2⟩ := ihd.2 hd er b2 h2
            exact ⟨by simp [patVars, k1, k2], AllOne_append o1 o2⟩
      | _ => simp [consMatch] at h
    constructor
    · intro hp; simp only [plain, Bool.and_eq_true] at hp; exact key hp.1 hp.2
    · intro hp; simp only [plain.plainTail, Bool.and_eq_true] at hp; exact key hp.1 hp.2
  | nil =>
    have : ∀ E bs, specMatch s.ctx .nil E = some bs → Keys s.ctx .nil bs := by
      intro E bs h
      rw [specMatch_nil] at h
      split at h <;> cases h
      exact ⟨by simp [patVars], fun _ _ h => by cases h⟩
    exact ⟨fun _ => this, fun _ => this⟩
  | vec v _ => exact ⟨fun h => by simp [plain] at h, fun h => by simp [plain.plainTail] at h⟩
  | _ =>
    refine ⟨fun _ E bs h => ?_, fun h => by simp [plain.plainTail] at h⟩
    rw [specMatch_datum s.ctx E rfl] at h
    split at h <;> cases h
    exact ⟨by simp [patVars], fun _ _ h => by cases h⟩

theorem findKey_flat1 (x : Text) : ∀ (bs : Binds) (k i : Nat) (d : Datum), AllOne bs →
    findKey (.sym x) (flat1 bs) k = some (i, d) → bs.lookup x = some (.one d) := by
  intro bs
  induction bs with
  | nil => intro k i d _ h; simp [flat1, findKey] at h
  | cons b bs ih =>
    intro k i d hall h
    obtain ⟨y, t⟩ := b
    obtain ⟨dy, hdy⟩ := hall y t (by simp)
    subst hdy
    have hall' : AllOne bs := fun x t h => hall x t (List.mem_cons_of_mem _ h)
    simp only [flat1, findKey, cellEq_sym_left] at h
    by_cases hxy : x = y
    · subst hxy
      simp at h
      simp [List.lookup, h.2]
    · have : ¬ (Datum.sym x = Datum.sym y) := by simpa using hxy
      simp only [this, decide_false, Bool.false_eq_true, if_false] at h
      have := ih _ _ _ hall' h
      simp only [List.lookup]
      have hb : (x == y) = false := by simp [beq_text, hxy]
      simp [hb, this]

theorem lookup_none_of_not_mem (x : Text) (bs : Binds) (h : x ∉ bs.map Prod.fst) : bs.lookup x = none := by
  induction bs with
  | nil => rfl
  | cons b bs ih =>
    obtain ⟨y, t⟩ := b
    simp only [List.map_cons, List.mem_cons, not_or] at h
    have hb : (x == y) = false := by simp [beq_text, h.1]
    simp [List.lookup, hb, ih h.2]

end Marwood.Transform
