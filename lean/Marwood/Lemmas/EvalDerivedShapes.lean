import Marwood.Lemmas.EvalPrelude
/-!
# T01.2 — the shapes of the derived forms and of their one-step expansions

For every derived form of the grammar: the general *use* (arbitrary data as sub-forms, arbitrary
numbers of clauses / bindings / body forms) and the term the prelude's rule is expected to rewrite it
to. `Lemmas/EvalDerivedExpand.lean` proves that the R7RS matcher (`Spec.Match.specExpand`) with the
rules regenerated from `prelude.scm` produces exactly these terms, for ALL sub-forms;
`Lemmas/EvalDerived*.lean` prove that evaluating them in `Spec.Eval` agrees with evaluating the use
under its native meaning. Core Lean only.
-/
namespace Marwood.Spec.Eval.Derived
open Marwood Marwood.Spec.Match Marwood.Spec.Eval Marwood.Spec.Eval.Prelude

/-- the one-step expansion of `use` by the prelude's transformer for `name` (last `define-syntax` of
    that name in the regenerated `Gen.Prelude.macros`), read by the R7RS matcher -/
def expand (name : Text) (use : Datum) : Option Datum :=
  match rulesOf name with
  | some rs =>
    match specExpand rs.ctx rs.rules use with
    | .ok d => some d
    | _ => none
  | none => none

def k_not : Text := ['n', 'o', 't']
def k_memv : Text := ['m', 'e', 'm', 'v']
def k_var1 : Text := ['v', 'a', 'r', '1']
def k_temp : Text := ['t', 'e', 'm', 'p']
def k_atomKey : Text := ['a', 't', 'o', 'm', '-', 'k', 'e', 'y']
def k_delayForce : Text := ['d', 'e', 'l', 'a', 'y', '-', 'f', 'o', 'r', 'c', 'e']
def k_makePromise : Text := ['m', 'a', 'k', 'e', '-', 'p', 'r', 'o', 'm', 'i', 's', 'e']

/-- `((x e) …)` -/
def bindingList (bs : List (Datum × Datum)) : Datum := L (bs.map fun p => L [p.1, p.2])

/-! ## when / unless / begin -/
def whenUse (t b : Datum) (body : List Datum) : Datum := L (s k_when_ :: t :: b :: body)
def whenExp (t b : Datum) (body : List Datum) : Datum := L [s k_if_, t, L (s k_begin_ :: b :: body)]

def unlessUse (t b : Datum) (body : List Datum) : Datum := L (s k_unless_ :: t :: b :: body)
def unlessExp (t b : Datum) (body : List Datum) : Datum :=
  L [s k_if_, L [s k_not, t], L (s k_begin_ :: b :: body)]

def beginUse (es : List Datum) : Datum := L (s k_begin_ :: es)
def beginExp (es : List Datum) : Datum := L [L (s k_lambda :: .nil :: es)]

/-! ## and / or -/
def andUse (es : List Datum) : Datum := L (s k_and_ :: es)
def andExp : List Datum → Datum
  | [] => .bool true
  | [e] => e
  | e :: e2 :: es => L [s k_if_, e, L (s k_and_ :: e2 :: es), .bool false]

def orUse (es : List Datum) : Datum := L (s k_or_ :: es)
def orExp : List Datum → Datum
  | [] => .bool false
  | [e] => e
  | e :: e2 :: es =>
    L [s k_let_, L [L [s k_var1, e]], L [s k_if_, s k_var1, s k_var1, L (s k_or_ :: e2 :: es)]]

/-! ## let / named let / let* / letrec -/
def letUse (bs : List (Datum × Datum)) (b : Datum) (body : List Datum) : Datum :=
  L (s k_let_ :: bindingList bs :: b :: body)
def letExp (bs : List (Datum × Datum)) (b : Datum) (body : List Datum) : Datum :=
  L (L (s k_lambda :: L (bs.map (·.1)) :: b :: body) :: bs.map (·.2))

def namedLetUse (tag : Text) (bs : List (Datum × Datum)) (b : Datum) (body : List Datum) : Datum :=
  L (s k_let_ :: s tag :: bindingList bs :: b :: body)
def namedLetExp (tag : Text) (bs : List (Datum × Datum)) (b : Datum) (body : List Datum) : Datum :=
  L (L [s k_letrec, L [L [s tag, L (s k_lambda :: L (bs.map (·.1)) :: b :: body)]], s tag] :: bs.map (·.2))

def letStarUse (bs : List (Datum × Datum)) (b : Datum) (body : List Datum) : Datum :=
  L (s k_letStar :: bindingList bs :: b :: body)
def letStarExp : List (Datum × Datum) → Datum → List Datum → Datum
  | [], b, body => L (s k_let_ :: .nil :: b :: body)
  | p :: bs, b, body => L [s k_let_, L [L [p.1, p.2]], L (s k_letStar :: bindingList bs :: b :: body)]

def letrecUse (bs : List (Datum × Datum)) (b : Datum) (body : List Datum) : Datum :=
  L (s k_letrec :: bindingList bs :: b :: body)
def letrecExp (bs : List (Datum × Datum)) (b : Datum) (body : List Datum) : Datum :=
  L (s k_let_ :: L (bs.map fun p => L [p.1, .bool false])
      :: ((bs.map fun p => L [s k_setBang, p.1, p.2]) ++ [L (s k_let_ :: .nil :: b :: body)]))

/-! ## cond: the seven rules, in the order of the prelude -/
def condUse (cs : List Datum) : Datum := L (s k_cond :: cs)
/-- rule 1 `(cond (else r1 r2 …))` -/
def condElseExp (r1 : Datum) (rs : List Datum) : Datum := L (s k_begin_ :: r1 :: rs)
/-- rules 2, 3 `(cond (t => f) clause …)` -/
def condArrowExp (t f : Datum) : List Datum → Datum
  | [] => L [s k_let_, L [L [s k_temp, t]], L [s k_if_, s k_temp, L [f, s k_temp]]]
  | c :: cs => L [s k_let_, L [L [s k_temp, t]], L [s k_if_, s k_temp, L [f, s k_temp], L (s k_cond :: c :: cs)]]
/-- rules 4, 5 `(cond (t) clause …)` -/
def condTestExp (t : Datum) : List Datum → Datum
  | [] => t
  | c :: cs => L [s k_let_, L [L [s k_temp, t]], L [s k_if_, s k_temp, s k_temp, L (s k_cond :: c :: cs)]]
/-- rules 6, 7 `(cond (t r1 r2 …) clause …)` -/
def condBodyExp (t r1 : Datum) (rs : List Datum) : List Datum → Datum
  | [] => L [s k_if_, t, L (s k_begin_ :: r1 :: rs)]
  | c :: cs => L [s k_if_, t, L (s k_begin_ :: r1 :: rs), L (s k_cond :: c :: cs)]

/-! ## case: the seven rules, in the order of the prelude -/
def caseUse (k : Datum) (cs : List Datum) : Datum := L (s k_case_ :: k :: cs)
/-- rule 1: the key expression is a list `(k1 k2 …)` -/
def caseKeyExp (ks cs : List Datum) : Datum :=
  L [s k_let_, L [L [s k_atomKey, L ks]], L (s k_case_ :: s k_atomKey :: cs)]
/-- rule 2 `(case k (else => f))` -/
def caseElseArrowExp (k f : Datum) : Datum := L [f, k]
/-- rule 3 `(case k (else r1 r2 …))` -/
def caseElseExp (r1 : Datum) (rs : List Datum) : Datum := L (s k_begin_ :: r1 :: rs)
def memvTest (k : Datum) (atoms : List Datum) : Datum := L [s k_memv, k, L [s k_quote, L atoms]]
/-- rules 4, 6 `(case k ((a …) => f) clause …)` -/
def caseArrowExp (k : Datum) (atoms : List Datum) (f : Datum) : List Datum → Datum
  | [] => L [s k_if_, memvTest k atoms, L [f, k]]
  | c :: cs => L [s k_if_, memvTest k atoms, L [f, k], L (s k_case_ :: k :: c :: cs)]
/-- rules 5, 7 `(case k ((a …) r1 r2 …) clause …)` -/
def caseBodyExp (k : Datum) (atoms : List Datum) (r1 : Datum) (rs : List Datum) : List Datum → Datum
  | [] => L [s k_if_, memvTest k atoms, L (s k_begin_ :: r1 :: rs)]
  | c :: cs => L [s k_if_, memvTest k atoms, L (s k_begin_ :: r1 :: rs), L (s k_case_ :: k :: c :: cs)]

/-! ## delay -/
def delayUse (e : Datum) : Datum := L [s k_delay, e]
def delayExp (e : Datum) : Datum := L [s k_delayForce, L [s k_makePromise, .bool true, e]]
def delayForceUse (e : Datum) : Datum := L [s k_delayForce, e]
def delayForceExp (e : Datum) : Datum := L [s k_makePromise, .bool false, L [s k_lambda, .nil, e]]

end Marwood.Spec.Eval.Derived
