import Marwood.Lemmas.StoreStr
import Marwood.Lemmas.Utf8Order
/-!
# The string model against the UTF-8 bytes (C15)

`Store/StringOps.lean` works with `List Char` and prefix sums of `Char.utf8Size`. Here its
comparison, its byte offsets, its slices and its panic conditions are restated over the UTF-8 bytes
of the strings (`Utf8.encodeText`), which is what the Rust `String` holds.
-/
namespace Marwood.Store
open Marwood Outcome
open Marwood.Utf8 (encodeText cmpBytes isCharBoundary)

theorem cmpText_eq_cmpPoints (s t : Text) : cmpText s t = Utf8.cmpPoints s t := by
  induction s generalizing t with
  | nil => cases t <;> rfl
  | cons a as ih =>
    cases t with
    | nil => rfl
    | cons b bs => simp only [cmpText, Utf8.cmpPoints, ih]

/-- the relation a comparison operator denotes on byte strings (`[u8]: Ord`, lexicographic) -/
def CmpOp.bytesRel : CmpOp → List Nat → List Nat → Prop
  | .eq, u, v => u = v
  | .lt, u, v => u < v
  | .gt, u, v => v < u
  | .le, u, v => u ≤ v
  | .ge, u, v => v ≤ u

instance (op : CmpOp) (u v : List Nat) : Decidable (op.bytesRel u v) := by
  cases op <;> unfold CmpOp.bytesRel <;> infer_instance

theorem CmpOp.holds_cmpBytes (op : CmpOp) (u v : List Nat) :
    op.holds (cmpBytes u v) = true ↔ op.bytesRel u v := by
  have hlt := Utf8.cmpBytes_lt_iff u v
  have hgt := Utf8.cmpBytes_gt_iff u v
  have heq := Utf8.cmpBytes_eq_iff u v
  cases op <;> simp only [CmpOp.holds, CmpOp.bytesRel, beq_iff_eq, bne_iff_ne, ne_eq]
  · exact heq
  · exact hlt
  · exact hgt
  · rw [← List.not_lt, ← hgt]
  · rw [← List.not_lt, ← hlt]

/-! ## slices and patches at byte offsets -/

theorem strSlice_ok_iff (cs : Text) (a b : Nat) :
    (∃ r, strSlice cs a b = .ok r) ↔
      a ≤ b ∧ isCharBoundary (encodeText cs) a = true ∧ isCharBoundary (encodeText cs) b = true := by
  have h := Utf8.sliceBytes_isSome a b cs
  unfold strSlice
  cases hs : sliceBytes a b cs with
  | none =>
    rw [hs] at h
    simp only [Option.isSome_none] at h
    have h' := h.symm
    simp only [Bool.and_eq_false_iff, decide_eq_false_iff_not] at h'
    constructor
    · rintro ⟨r, hr⟩; cases hr
    · rintro ⟨h1, h2, h3⟩
      rcases h' with (h' | h') | h'
      · exact absurd h1 h'
      · rw [h2] at h'; cases h'
      · rw [h3] at h'; cases h'
  | some r =>
    rw [hs] at h
    simp only [Option.isSome_some] at h
    have h' := h.symm
    simp only [Bool.and_eq_true, decide_eq_true_eq] at h'
    exact ⟨fun _ => ⟨h'.1.1, h'.1.2, h'.2⟩, fun _ => ⟨r, rfl⟩⟩

theorem strSlice_bytes {cs r : Text} {a b : Nat} (h : strSlice cs a b = .ok r) :
    encodeText r = ((encodeText cs).drop a).take (b - a) := by
  unfold strSlice at h
  cases hs : sliceBytes a b cs with
  | none => rw [hs] at h; cases h
  | some r' =>
    rw [hs] at h
    cases h
    exact Utf8.sliceBytes_encode hs

theorem replaceRange_ok_iff (cs new : Text) (a b : Nat) :
    (∃ r, replaceRange cs a b new = .ok r) ↔
      a ≤ b ∧ isCharBoundary (encodeText cs) a = true ∧ isCharBoundary (encodeText cs) b = true := by
  have h1 := Utf8.takeBytes_isSome a cs
  have h2 := Utf8.dropBytes_isSome b cs
  unfold replaceRange
  by_cases hab : a ≤ b
  · simp only [hab, if_true, true_and]
    cases ht : takeBytes a cs with
    | none =>
      rw [ht] at h1
      simp only [Option.isSome_none] at h1
      constructor
      · rintro ⟨r, hr⟩; cases hr
      · rintro ⟨h, _⟩; rw [h] at h1; cases h1
    | some pre =>
      rw [ht] at h1
      cases hd : dropBytes b cs with
      | none =>
        rw [hd] at h2
        simp only [Option.isSome_none] at h2
        constructor
        · rintro ⟨r, hr⟩; cases hr
        · rintro ⟨_, h⟩; rw [h] at h2; cases h2
      | some post =>
        rw [hd] at h2
        exact ⟨fun _ => ⟨h1.symm, h2.symm⟩, fun _ => ⟨_, rfl⟩⟩
  · simp only [hab, if_false, false_and, iff_false]
    rintro ⟨r, hr⟩
    cases hr

theorem replaceRange_bytes {cs new r : Text} {a b : Nat} (h : replaceRange cs a b new = .ok r) :
    encodeText r = (encodeText cs).take a ++ encodeText new ++ (encodeText cs).drop b := by
  unfold replaceRange at h
  split at h
  · split at h
    · rename_i pre post ht hd
      cases h
      rw [Utf8.encodeText_append, Utf8.encodeText_append, Utf8.takeBytes_encode ht,
        Utf8.dropBytes_encode hd]
    · cases h
  · cases h

/-! ## the ASCII fast paths of `char.rs` against core Lean's ASCII-only case maps -/

theorem eq_ofNat_of_toNat {c : Char} {n : Nat} (h : c.toNat = n) : c = Char.ofNat n := by
  rw [← h, Char.ofNat_toNat]

/-- `char::to_ascii_uppercase` as modelled is Lean's own `Char.toUpper` (which is ASCII-only) -/
theorem asciiUpper_eq_core (c : Char) : asciiUpper c = c.toUpper := by
  unfold asciiUpper Char.toUpper
  have hc : c.toNat = c.val.toNat := rfl
  by_cases h : 97 ≤ c.toNat ∧ c.toNat ≤ 122
  · have h' : 'a'.val ≤ c.val ∧ c.val ≤ 'z'.val := by
      simp only [UInt32.le_iff_toNat_le]; exact h
    rw [if_pos h, dif_pos h']
    symm
    apply eq_ofNat_of_toNat
    show (c.val + ('A'.val - 'a'.val)).toNat = _
    rw [UInt32.toNat_add]
    have : ('A'.val - 'a'.val).toNat = 4294967264 := by decide
    rw [this, ← hc]
    omega
  · have h' : ¬ ('a'.val ≤ c.val ∧ c.val ≤ 'z'.val) := by
      simp only [UInt32.le_iff_toNat_le]; exact h
    rw [if_neg h, dif_neg h']

/-- `char::to_ascii_lowercase` as modelled is Lean's own `Char.toLower` -/
theorem asciiLower_eq_core (c : Char) : asciiLower c = c.toLower := by
  unfold asciiLower Char.toLower
  have hc : c.toNat = c.val.toNat := rfl
  by_cases h : 65 ≤ c.toNat ∧ c.toNat ≤ 90
  · have h' : c.val ≥ 'A'.val ∧ c.val ≤ 'Z'.val := by
      simp only [GE.ge, UInt32.le_iff_toNat_le]; exact h
    rw [if_pos h, dif_pos h']
    symm
    apply eq_ofNat_of_toNat
    show (c.val + ('a'.val - 'A'.val)).toNat = _
    rw [UInt32.toNat_add]
    have : ('a'.val - 'A'.val).toNat = 32 := by decide
    rw [this, ← hc]
    omega
  · have h' : ¬ (c.val ≥ 'A'.val ∧ c.val ≤ 'Z'.val) := by
      simp only [GE.ge, UInt32.le_iff_toNat_le]; exact h
    rw [if_neg h, dif_neg h']

end Marwood.Store
