import Marwood.Lemmas.CompileCorrectAtoms
import Marwood.Vm.ConcreteHeap
/-!
# T01.3 stage 1 — the elementary heap laws hold for the concrete heap model

`Vm/ConcreteHeap.lean` instantiates `HeapOps` over the collector's heap model (`concreteOps ext`, where
`ext` carries what is not modelled: the builtins, `eval`'s compiler, `VPUSH`). Every field of `AtomLaws`
that is about the heap proper is a theorem there, with the heap invariant "the slot of every named global
exists"; what remains an assumption is exactly the behaviour of the builtins (`prim_fo`, `builtin`), which
are parameters of the concrete machine too. In particular `AtomLaws` is satisfiable: with no supported
primitive (`E.prim = fun _ => none`) both remaining fields are vacuous (`concrete_atomLaws_noPrims`).
-/
namespace Marwood.Lemmas.CompileCorrect
open Marwood Marwood.Vm Marwood.Vm.Concrete
open Marwood.Spec.Eval (Val Prim applyPrim1)

/-- names, slots, and the invariant of the concrete heap: the named slots exist -/
def concreteBase (ext : ExtOps) (named : Text → Prop) (slot : Text → Nat) : AtomBase (concreteOps ext) :=
  { named := named, slot := slot, Inv := fun h => ∀ x, named x → slot x < h.globals.size }

theorem concrete_atomLaws (ext : ExtOps) (E : AtomEnc) (named : Text → Prop) (slot : Text → Nat)
    (hinj : ∀ a b, named a → named b → slot a = slot b → a = b)
    (hfo : ∀ p id, E.prim p = some id →
      p ≠ .apply ∧ p ≠ .eval ∧ p ≠ .force ∧ p ≠ .map ∧ p ≠ .forEach)
    (hb : ∀ h (σ : SSt) p id vs ws w (σ' : SSt) l,
      SR (atomData (concreteOps ext) E (concreteBase ext named slot)) h σ → E.prim p = some id →
      All2 (atomVR (concreteOps ext) E h σ.store) vs ws → applyPrim1 p ws σ = .ok w σ' →
      (concreteOps ext).builtinKind h id = .generic ∧
      ∃ h' r, builtinResult (concreteOps ext) h id vs.reverse = .ok (h', r) ∧
        atomVR (concreteOps ext) E h' σ'.store r w ∧
        SR (atomData (concreteOps ext) E (concreteBase ext named slot)) h' σ' ∧
        Evolves (atomData (concreteOps ext) E (concreteBase ext named slot)) l h σ.store h' σ'.store) :
    AtomLaws (concreteOps ext) E (concreteBase ext named slot) where
  slot_inj := hinj
  deref_ptr := fun _ _ => rfl
  deref_imm := by
    intro h v hv
    cases v <;> first | rfl | exact absurd rfl (hv _)
  callee_imm := fun _ _ => rfl
  callee_ptr := by
    intro h p id hg
    show Concrete.callee h (.ptr p) = _
    have hg' : Concrete.getAt h p = .builtin id := hg
    unfold Concrete.getAt at hg'
    unfold Concrete.callee
    cases hc : h.cells[p]? with
    | none => rw [hc] at hg'; cases hg'
    | some c =>
      rw [hc] at hg'
      simp only [hc] at hg' ⊢
      cases c with
      | val v => simp only [Concrete.repr] at hg'; subst hg'; rfl
      | lexEnv s => simp [Concrete.repr] at hg'
      | vector s => simp [Concrete.repr] at hg'
      | lambda s => simp [Concrete.repr] at hg'
      | cont s => simp [Concrete.repr] at hg'
  glob_get_put := by
    intro h x v m hi hn
    have hlt := hi x hn
    show ({ h with globals := h.globals.setIfInBounds (slot x) v } : CHeap).globals[m]?.getD .undefined
      = if m = slot x then v else h.globals[m]?.getD .undefined
    simp only [Array.getElem?_setIfInBounds]
    by_cases hm : m = slot x
    · subst hm; simp [hlt]
    · have : ¬ slot x = m := fun e => hm e.symm
      simp [hm, this]
  globPut_inv := by
    intro h n v hi x hn
    show slot x < (h.globals.setIfInBounds n v).size
    rw [Array.size_setIfInBounds]
    exact hi x hn
  globPut_getAt := fun _ _ _ _ => rfl
  globPut_isLambda := fun _ _ _ _ => rfl
  globPut_fetch := fun _ _ _ _ _ => rfl
  prim_fo := hfo
  builtin := hb

/-- `AtomLaws` (hence `RepLaws`) is satisfiable: the concrete heap, no supported primitive -/
theorem concrete_atomLaws_noPrims (ext : ExtOps) (int char str sym : _ → String)
    (named : Text → Prop) (slot : Text → Nat)
    (hinj : ∀ a b, named a → named b → slot a = slot b → a = b) :
    AtomLaws (concreteOps ext) ⟨int, char, str, sym, fun _ => none⟩ (concreteBase ext named slot) :=
  concrete_atomLaws ext _ named slot hinj (by intro p id h; cases h) (by intro h σ p id vs ws w σ' l _ h; cases h)

end Marwood.Lemmas.CompileCorrect

namespace Marwood.Lemmas.CompileCorrect
open Marwood Marwood.Vm Marwood.Vm.Concrete

/-! ## the hypotheses of the main theorem are jointly satisfiable

A one-cell concrete heap holding a lambda whose code is the compiler's output for `#t`: every hypothesis of
`compileExpr_correct_atoms` (code loaded, state represented, stack well-formed) holds, so the machine runs
to a state with a representation of `#t` in `acc`. -/

def demoHeap : CHeap :=
  { chunk := 1, cells := #[.lambda ⟨[.opcode .movImm, .bool true, .acc], [], []⟩], gc := #[.allocated],
    free := [], symtab := [], globSyms := [], globals := #[] }

def demoState : MSt CHeap :=
  { heap := demoHeap, stack := ⟨[.undefined], 0⟩, acc := .undefined, ep := 0, ipL := 0, ipO := 0, bp := 0 }

def demoSpecSt : SSt := { globals := [], store := #[], out := [] }

theorem demo_runs (ext : ExtOps) (int char str sym : _ → String) :
    ∃ s', ExprRun (atomData (concreteOps ext) ⟨int, char, str, sym, fun _ => none⟩
        (concreteBase ext (fun _ => False) (fun _ => 0)))
      demoState 3 demoSpecSt demoSpecSt (.bool true) s' := by
  have hcomp : compileExpr 1 {} c0 0 true (.bool true)
      = .ok ({}, [BC.op .movImm, BC.datum (.bool true), BC.acc]) := by simp [compileExpr]
  have hev : (Spec.Eval.evalN 1).eval (.bool true) [] demoSpecSt = .ok (.bool true) demoSpecSt := by
    show Spec.Eval.evalStep (Spec.Eval.evalN 0) (.bool true) [] demoSpecSt = _
    simp only [Spec.Eval.evalStep, Spec.Eval.quoteVal]
    rfl
  refine compileExpr_correct_atoms
    (concrete_atomLaws_noPrims ext int char str sym (fun _ => False) (fun _ => 0) (by intro a b h; cases h))
    1 {} 0 true (.bool true) {} _ (.bool true) hcomp 1 demoSpecSt (.bool true) demoSpecSt hev demoState
    ⟨rfl, ?_⟩ rfl ⟨(by intro x w h; cases h), (by intro x h; cases h), (by intro x h; cases h)⟩
    (by show 0 < 1; omega)
  intro i bc hi
  match i, hi with
  | 0, hi => cases hi; exact ⟨.opcode .movImm, rfl, rfl⟩
  | 1, hi =>
    cases hi
    refine ⟨.bool true, rfl, ?_⟩
    show (∀ o, VCell.bool true ≠ .opcode o) ∧ ∀ w, atomVal (.bool true) = some w → _
    exact ⟨(by intro o h; cases h), (by intro w hw; cases hw; exact ⟨.bool true, rfl, .inl rfl⟩)⟩
  | 2, hi => cases hi; exact ⟨.acc, rfl, rfl⟩
  | n + 3, hi => cases hi

end Marwood.Lemmas.CompileCorrect
