import Marwood.Lemmas.CompileCorrect3ConcreteLaws
import Marwood.Lemmas.CompileCorrect3ConcretePut
/-!
# T01.3 stage 3 — `Laws3` for the concrete heap model, assembled

`concrete_laws3`: for `concreteOps ext` (`Vm/ConcreteHeap.lean`) with the representation `cD3` every field of
`Laws3` is proved, except the behaviour of the first-order builtin procedures (`call`), which is the hypothesis
`hcall` — the builtins are parameters of the concrete machine (`ExtOps`). `hE`: the atom encoding gives no
machine value to the re-dispatching builtins (`apply`, `eval`, `force`, `map`, `for-each`): they are outside the
fragment of the main theorem.
-/
namespace Marwood.Lemmas.CompileCorrect3.Conc
open Marwood Marwood.Vm Marwood.Vm.Concrete Marwood.Lemmas.CompileCorrect Marwood.Lemmas.CompileCorrect2
  Marwood.Lemmas.CompileCorrect2.Conc
open Marwood.Spec.Eval (Val Cell evalN)

variable {ext : ExtOps} {E : AtomEnc} {named : Text → Prop} {slot : Text → Nat} {LM : Nat → Nat}
  {final : List LambdaM} {setG : Text → Prop}

theorem deref_pair_inv {h : CHeap} {v : VCell} {a d : Nat} (x : Concrete.deref h v = .pair a d) :
    v = .pair a d ∨ ∃ p, v = .ptr p := by
  cases v <;> first | exact .inr ⟨_, rfl⟩ | exact .inl x

/-- **`Laws3` on the concrete heap model**, the behaviour of the first-order builtins being the only assumption. -/
theorem concrete_laws3 (hinj : ∀ a b, named a → named b → slot a = slot b → a = b)
    (hE : ∀ p, Redisp p → E.prim p = none)
    (hcall : ∀ n W h (σ : SSt) vf p vs ws w (σ' : SSt), Inv3 (cD3 ext E named slot LM final setG) W h σ →
      (cD3 ext E named slot LM final setG).VR h σ.store vf (.prim p) →
      All2 (VR3 (cD3 ext E named slot LM final setG) W h σ.store) vs ws → (evalN n).apply (.prim p) ws σ = .ok w σ' →
      ∃ id h' r, (concreteOps ext).callee h vf = .builtin id ∧ (concreteOps ext).builtinKind h id = .generic ∧
        builtinResult (concreteOps ext) h id vs.reverse = .ok (h', r) ∧
        VR3 (cD3 ext E named slot LM final setG) W h' σ'.store r w ∧ Inv3 (cD3 ext E named slot LM final setG) W h' σ' ∧
        Ext3 (cD3 ext E named slot LM final setG) h σ.store h' σ'.store) :
    Laws3 (cD3 ext E named slot LM final setG) where
  slot_inj := hinj
  truth := by
    intro h S v w hv
    cases hv with
    | base hb =>
      obtain ⟨c, hc, hv⟩ := hb
      rcases hv with rfl | ⟨p, rfl, hg⟩
      · show Concrete.deref h v = _ ↔ _
        rw [deref_imm (cell_not_ptr hc)]; exact cell_false_iff hc
      · show Concrete.getAt h p = _ ↔ _
        have hg' : Concrete.getAt h p = c := hg
        rw [hg']; exact cell_false_iff hc
    | pair hs hd _ _ =>
      have hd' : (concreteOps ext).deref h v = .pair _ _ := hd
      rw [hd']
      exact ⟨(fun e => by cases e), (fun e => by cases e)⟩
    | vec hs hv' _ => cases hv'
  ne_undefined := by
    intro h S v w hv
    cases hv with
    | base hb =>
      obtain ⟨c, hc, hv⟩ := hb
      rcases hv with rfl | ⟨p, rfl, _⟩
      · exact cell_ne_undefined hc
      · intro e; cases e
    | pair hs hd _ _ =>
      intro e; subst e
      have hd' : Concrete.deref h .undefined = .pair _ _ := hd
      cases hd'
    | vec hs hv' _ => cases hv'
  not_envptr := by
    intro h S v w hv
    cases hv with
    | base hb =>
      obtain ⟨c, hc, hv⟩ := hb
      rcases hv with rfl | ⟨p, rfl, _⟩
      · cases w <;> simp [AtomEnc.cell] at hc <;> first
          | (subst hc; rfl)
          | (obtain ⟨a, _, rfl⟩ := hc; rfl)
      · rfl
    | pair hs hd _ _ =>
      cases v <;> first | rfl | (have hd' : Concrete.deref h (.lexEnvPtr _ _) = .pair _ _ := hd; cases hd')
    | vec hs hv' _ => cases hv'
  void := fun _ _ => .base ⟨.void, rfl, .inl rfl⟩
  nil := fun _ _ => .base ⟨.nil, rfl, .inl rfl⟩
  vr_no_closure := by
    intro h S v a b c e hv
    cases hv with
    | base hb =>
      obtain ⟨c, hc, _⟩ := hb
      cases hc
  vr_no_redisp := by
    intro h S v p hv hr
    cases hv with
    | base hb =>
      obtain ⟨c, hc, _⟩ := hb
      simp [AtomEnc.cell, hE p hr] at hc
  clos_true := by
    intro h v l e hc
    rcases callee_closure_inv hc with rfl | ⟨p, rfl, hcell⟩
    · intro x; cases x
    · show Concrete.getAt h p ≠ _
      unfold Concrete.getAt; rw [hcell]
      intro x; cases x
  clos_ne_undefined := by
    intro h v l e hc
    rcases callee_closure_inv hc with rfl | ⟨p, rfl, _⟩ <;> (intro x; cases x)
  clos_not_envptr := by
    intro h v l e hc
    rcases callee_closure_inv hc with rfl | ⟨p, rfl, _⟩ <;> rfl
  pair_ne_undefined := by
    intro h v a d hd
    rcases deref_pair_inv hd with rfl | ⟨p, rfl⟩ <;> (intro x; cases x)
  pair_not_envptr := by
    intro h v a d hd
    rcases deref_pair_inv hd with rfl | ⟨p, rfl⟩ <;> rfl
  vr_pair := fun _ _ _ _ _ _ _ _ hs hd h1 h2 => .pair hs hd h1 h2
  vr_vec := fun _ _ _ _ _ _ hs hv hall => .vec hs hv hall
  vr_store := fun _ _ _ _ _ hx x => (Keeps.refl _).vr hx.keep x
  srx_store := fun _ _ _ _ x => x
  glob_get_put := by
    intro h S x v m hsrx hn
    have hlt := srx_slots hsrx x hn
    show ({ h with globals := h.globals.setIfInBounds (slot x) v } : CHeap).globals[m]?.getD .undefined
      = if m = slot x then v else h.globals[m]?.getD .undefined
    simp only [Array.getElem?_setIfInBounds]
    by_cases hm : m = slot x
    · subst hm; simp [hlt]
    · have : ¬ slot x = m := fun e => hm e.symm
      simp [hm, this]
  globPut_ext := fun h S n u hsrx => c3_globPut_ext h S n u hsrx
  envPut_ok := fun h S e k old u hsrx hnok hget hold hu hund => c3_envPut_ok h S e k old u hsrx hnok hget hold hu hund
  closure_ok := fun h S lam ep bp st srcs hsrx _ hsrc h1 h2 => c3_closure_ok h S lam ep bp st srcs hsrx hsrc h1 h2
  activation_ok := fun h S lam cenv bp st srcs nargs hsrx _ hsrc hinfo hok hslots hargs hint =>
    c3_activation_ok h S lam cenv bp st srcs nargs hsrx hsrc hinfo hok hslots hargs hint
  put_val := fun h S v W w hsrx hr => c3_put_val h S v W w hsrx hr
  put_pair := fun h S a d hsrx => c3_put_pair h S a d hsrx
  call := hcall

/-! ## how the machine sees the stage-1 representations of `()` and of a pair (`ListLaws`) -/

theorem c3_vr_nil_inv (h : CHeap) (S : Array Cell) (v : VCell)
    (x : (cD3 ext E named slot LM final setG).VR h S v .nil) : (concreteOps ext).deref h v = .nil := by
  have x' : cVR ext E h S v .nil := x
  cases x' with
  | base hb =>
    obtain ⟨c, hc, hv⟩ := hb
    cases hc
    rcases hv with rfl | ⟨p, rfl, hg⟩
    · rfl
    · exact hg

theorem c3_vr_pair_inv (h : CHeap) (S : Array Cell) (v : VCell) (l : Nat)
    (x : (cD3 ext E named slot LM final setG).VR h S v (.pair l)) :
    ∃ a d pa pd, S[l]? = some (.pair a d) ∧ (concreteOps ext).deref h v = .pair pa pd ∧
      (cD3 ext E named slot LM final setG).VR h S (.ptr pa) a ∧ (cD3 ext E named slot LM final setG).VR h S (.ptr pd) d := by
  have x' : cVR ext E h S v (.pair l) := x
  cases x' with
  | base hb =>
    obtain ⟨c, hc, _⟩ := hb
    cases hc
  | pair hs hd x1 x2 => exact ⟨_, _, _, _, hs, hd, x1, x2⟩

end Marwood.Lemmas.CompileCorrect3.Conc
