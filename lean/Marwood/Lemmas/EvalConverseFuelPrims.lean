import Marwood.Lemmas.EvalConverseFuel
import Marwood.Lemmas.EvalConversePrims
/-! Converse simulation (`SimR`): mirror of `EvalExtraFuelPrims.lean` (see `EvalConverse.lean`). -/
namespace Marwood.Spec.Eval.Conv
open Marwood Marwood.Spec.Eval Marwood.Spec.Eval.Extra

variable {f : LMap} {st st' : St}

theorem simRAt_length (r : StRel f st st') {v v' : Val} (hv : VRel f v v')
    (hc : listCut (st.store.size + 1) st.store v = false) :
    ResRelR f (VRel f) (primPair .length [v] st) (primPair .length [v'] st') := by
  simp only [primPair]
  refine ResRelR.bind (simRAt_getList r hv hc) (fun xs xs' s s' _ hx rs => ?_)
  rw [hx.length_eq]
  exact SimR.pure _ _ (.int _) s s' rs

theorem simRAt_reverse (r : StRel f st st') {v v' : Val} (hv : VRel f v v')
    (hc : listCut (st.store.size + 1) st.store v = false) :
    ResRelR f (VRel f) (primPair .reverse [v] st) (primPair .reverse [v'] st') := by
  simp only [primPair]
  refine ResRelR.bind (simRAt_getList r hv hc) (fun xs xs' s s' _ hx rs => ?_)
  exact simR_allocList hx.reverse s s' rs

theorem simRAt_listToVector (r : StRel f st st') {v v' : Val} (hv : VRel f v v')
    (hc : listCut (st.store.size + 1) st.store v = false) :
    ResRelR f (VRel f) (primVec .listToVector [v] st) (primVec .listToVector [v'] st') := by
  simp only [primVec]
  refine ResRelR.bind (simRAt_getList r hv hc) (fun xs xs' s s' _ hx rs => ?_)
  exact simR_allocVec hx s s' rs

theorem simRAt_append2 (r : StRel f st st') {a a' b b' : Val} (ha : VRel f a a') (hb : VRel f b b')
    (hc : listCut (st.store.size + 1) st.store a = false) :
    ResRelR f (VRel f) (primPair .append [a, b] st) (primPair .append [a', b'] st') := by
  simp only [primPair]
  refine ResRelR.bind (simRAt_getList r ha hc) (fun xs xs' s s' _ hx rs => ?_)
  exact simR_allocListTail hx hb s s' rs

theorem simRAt_append3 (r : StRel f st st') {a a' b b' c c' : Val} (ha : VRel f a a') (hb : VRel f b b') (hcc : VRel f c c')
    (hc : listCut (st.store.size + 1) st.store a = false) (hc2 : listCut (st.store.size + 1) st.store b = false) :
    ResRelR f (VRel f) (primPair .append [a, b, c] st) (primPair .append [a', b', c'] st') := by
  simp only [primPair]
  refine ResRelR.bind (simRAt_getList r ha hc) (fun xs xs' s s' hm hx rs => ?_)
  obtain ⟨rfl, _⟩ := getList_ok_state hm
  refine ResRelR.bind (simRAt_getList rs hb hc2) (fun ys ys' s2 s2' _ hy rs2 => ?_)
  exact simR_allocListTail (hx.append hy) hcc s2 s2' rs2

theorem simRAt_listP (r : StRel f st st') {v v' : Val} (hv : VRel f v v')
    (hc : listCut (st.store.size + 1) st.store v = false) :
    ResRelR f (VRel f) (primPair .listP [v] st) (primPair .listP [v'] st') := by
  show ResRelR f (VRel f) (Res.ok (Val.bool (listOfVal (st.store.size + 1) st.store v).isSome) st)
    (Res.ok (Val.bool (listOfVal (st'.store.size + 1) st'.store v').isSome) st')
  have h := listOfVal_fuel_rel r hv hc
  revert h
  generalize listOfVal (st.store.size + 1) st.store v = o
  generalize listOfVal (st'.store.size + 1) st'.store v' = o'
  intro h
  cases h with
  | none => exact ⟨.bool _, r⟩
  | some _ => exact ⟨.bool _, r⟩

theorem simRAt_mem (hf : Inj f) (r : StRel f st st') (p : Prim) (assoc : Bool)
    (hp : ∀ (x l : Val) (s : St), primPair p [x, l] s = memWalk assoc x (s.store.size + 1) l s)
    {x x' l l' : Val} (hx : VRel f x x') (hl : VRel f l l')
    (hc : spineCut (st.store.size + 1) st.store l = false) :
    ResRelR f (VRel f) (primPair p [x, l] st) (primPair p [x', l'] st') := by
  rw [hp, hp]
  exact simRAt_memWalk hf assoc r hx hl hc

theorem simRAt_output (w : Bool) (r : StRel f st st') {v v' : Val} (hv : VRel f v v')
    (hc : valCut (st.store.size + 1) st.store v = false) :
    ResRelR f (VRel f) ((do let d ← externalise v; emit w d; pure Val.void : M Val) st)
      ((do let d ← externalise v'; emit w d; pure Val.void : M Val) st') := by
  refine ResRelR.bind (simRAt_externalise r hv hc) (fun d d' s s' _ hd rs => ?_)
  subst hd
  exact SimR.bind (simR_emit w _) (fun _ _ _ => SimR.pure _ _ VRel.void) s s' rs

theorem simRAt_display (r : StRel f st st') {v v' : Val} (hv : VRel f v v')
    (hc : valCut (st.store.size + 1) st.store v = false) :
    ResRelR f (VRel f) (primMisc .display [v] st) (primMisc .display [v'] st') := simRAt_output false r hv hc

theorem simRAt_write (r : StRel f st st') {v v' : Val} (hv : VRel f v v')
    (hc : valCut (st.store.size + 1) st.store v = false) :
    ResRelR f (VRel f) (primMisc .write [v] st) (primMisc .write [v'] st') := simRAt_output true r hv hc

end Marwood.Spec.Eval.Conv
