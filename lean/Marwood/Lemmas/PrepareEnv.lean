import Marwood.Lemmas.PrepareEnvTaint
import Marwood.Lemmas.PrepareEnvFit
import Marwood.Lemmas.PrepareNoPanic
import Marwood.Lemmas.EnvInvMain
/-!
# `prepare_eval` re-establishes the slot invariant `EnvInv` (wave 12)

`EnvInv s = TInv s ∧ FInv s` (Lemmas/EnvInvMain.lean: "no value leads to a capturing lambda", "environments fit the code
they belong to") is what makes the slot clause `EnvSlots` of T06.6 a theorem. Wave 10 proved it invariant under
instructions, collections and epilogues, and under `prepare_eval` as a LAW of the compiler (`CompEnvInv`). Here the law
is discharged for the loader relation:

* `instSteps_env` — a sequence of loader steps keeps the heap parts `Taint.HP`, `HF`, writes no allocated cell
  (`CellsKept`), and old values keep pointing away from capturing lambdas;
* `envInv_installsGarbage` — `EnvInv` of an idle machine survives the loader steps of a rejected (or accepted) form;
* **`prepare_envInv`** — `EnvInv s`, the idle invariant, `acc` not pointing to a capturing lambda, `Installs e fuel s s'
  entry`, `Small s'.heap` ⇒ `EnvInv (prepare s' entry)`: the entry lambda is entry code (no prologue) and captures
  nothing (`Installs.entry_empty`: `LoadedLam.envLen` + `entryLam_envmap`); the clauses of the new code objects are
  `LoadedQ.codeOkH` — consequences of the compiler-model theorems `compileTop_envCode`;
* `envInv_runEval` — what an evaluation leaves behind: `EnvInv`, and `acc` does not point to a capturing lambda (HALT is
  not the CLOSURE of a `MOVIMM _ %acc; CLOSURE` site; the error epilogue wipes `acc`);
* **`history_never_panics_installs_closed`** — T06.6 for histories from the invariants of the INITIAL state only.
-/
namespace Marwood.Lemmas.Good
open Marwood Marwood.Vm Marwood.Vm.Verify Marwood.Vm.Concrete Marwood.Lemmas.Sim
open Marwood.Lemmas.MachineGarbage Marwood.Lemmas.PolicySessionOk Marwood.Lemmas.PolicySessionMain
open Marwood.Heap (GcState WFHeap RootsOk vrefs vrefsList crefs)

/-! ## the heap clauses along a sequence of loader steps -/

/-- what a sequence of loader steps guarantees of the heap it ends in, as far as `EnvInv` is concerned -/
structure EnvRes (h h' : CHeap) : Prop where
  thp : Taint.HP h'
  hf : HF h'
  ne : ∀ v, VRefsOk h v → neE h v = true → neE h' v = true
  kept : CellsKept h h'

/-- **a sequence of loader steps keeps the heap clauses of `EnvInv`** -/
theorem instSteps_env {Q : CHeap → CLambda → Prop} (hQ : ∀ h cl, Q h cl → CodeOkH h cl) {h h' : CHeap}
    (st : InstSteps Q h h') (g : HG h) (gr : GlobRoots h) (ci : CInvG IsValue h) (hp : HP h) (thp : Taint.HP h)
    (hf : HF h) (sm : Small h') : EnvRes h h' := by
  induction st with
  | refl h => exact ⟨thp, hf, fun _ _ x => x, .refl h⟩
  | @step h h1 h2 s rest ih =>
    have sm1 : Small h1 := sm.of_le (instSteps_size rest)
    have r1 := instStep_all (fun h cl q => (hQ h cl q).code) s g gr ci hp sm1
    obtain ⟨t1, n1⟩ := instStep_thp (fun h cl q => (hQ h cl q).env) s g gr (.of_cinv ci) thp sm1
    obtain ⟨f1, k1⟩ := instStep_hf (fun h cl q => (hQ h cl q).env) s g hf sm1
    have r2 := ih r1.hg r1.gr r1.ci r1.hp t1 f1 sm
    exact ⟨r2.thp, r2.hf, fun v hv hn => r2.ne v (hv.mono r1.mono) (n1 v hv hn), k1.trans r1.mono r2.kept⟩

/-! ## the idle machine -/

theorem atSiteB_kept {s : St CHeap} {h' : CHeap} (k : CellsKept s.heap h') (hl : NF s.heap s.ipL)
    (x : atSiteB s = true) : atSiteB { s with heap := h' } = true := by
  unfold atSiteB at x ⊢
  show (match lambdaAt h' s.ipL with
    | some l => decide (3 ≤ s.ipO) && siteB l.bc (s.ipO - 3) && l.bc[s.ipO - 3 + 1]? == some s.acc
    | none => false) = true
  rw [k.lam hl]
  exact x

/-- **`EnvInv` of an idle machine survives the loader steps** (of a rejected or of an accepted form); `acc` keeps
    pointing away from capturing lambdas -/
theorem envInv_installsGarbage {s s' : St CHeap} (i : IdleOk s) (e : EnvInv s) (st : InstallsGarbage s s')
    (sm : Small s'.heap) :
    EnvInv s' ∧ (neE s.heap s.acc = true → neE s'.heap s'.acc = true) := by
  have r := instSteps_env (fun _ _ q => q) st.steps i.good.hg i.good.globRoots i.ci i.pinv.hp e.taint.hp e.fit.hf sm
  have racc := roots_acc i.good.roots
  have ripL := roots_ipL i.good.roots
  have rep := roots_ep i.good.roots
  rw [st.regs]
  refine ⟨⟨⟨r.thp, ?_, ?_⟩, ⟨r.hf, ?_, ?_, ?_⟩⟩, fun ha => r.ne _ racc ha⟩
  · rcases e.taint.acc with ha | ha
    · exact .inl (r.ne _ racc ha)
    · exact .inr (atSiteB_kept r.kept ripL ha)
  · intro k v hk hv
    exact r.ne v (roots_stack i.good.roots hk hv) (e.taint.stk k v hk hv)
  · intro k e' l o hk _ _
    have : s.stack.sp = 0 := i.sp0
    have hk' : k + 1 ≤ s.stack.sp := hk
    omega
  · intro hpre
    have hpre' : InPre s.heap s.ipL s.ipO := (r.kept.inPre ripL).mp hpre
    rcases e.fit.pre hpre' with ha | ha
    · exact .inl ha
    · right
      show calleeLam s'.heap s.acc = some s.ipL
      rw [r.kept.calleeLam_eq racc]
      exact ha
  · intro hnp
    have hnp' : ¬ InPre s.heap s.ipL s.ipO := fun x => hnp ((r.kept.inPre ripL).mpr x)
    exact r.kept.fit rep ripL (e.fit.fit hnp')

/-! ## `prepare_eval` -/

/-- **`prepare_envInv`: `prepare_eval` re-establishes the slot invariant.** From `EnvInv` of the idle machine `s` (with
    `acc` not pointing to a capturing lambda — true after every evaluation, `envInv_runEval`), the loader relation and
    the physical size bound: the state in which the evaluation of `e` starts satisfies `EnvInv`. -/
theorem prepare_envInv {e : Datum} {fuel : Nat} {s s' : St CHeap} {entry : Nat} (i : IdleOk s) (ev : EnvInv s)
    (ha : neE s.heap s.acc = true) (st : Installs e fuel s s' entry) (sm : Small s'.heap) :
    EnvInv (prepare s' entry) := by
  obtain ⟨ev', ha'⟩ := envInv_installsGarbage i ev st.garbage sm
  refine ⟨⟨ev'.taint.hp, .inl (ha' ha), ev'.taint.stk⟩, finv_prepare_entry ev'.fit entry ?_ ?_⟩
  · intro lam hl
    exact st.entry_empty hl
  · rintro ⟨lam, t, hl, ht, hne, _⟩
    obtain ⟨cst, lm, ent, cl, hc, hcell, hll⟩ := st.entryLam
    rw [lambdaAt_iff.mpr hcell] at hl
    cases hl
    obtain ⟨t', ht', hent⟩ := loaded_entry_ty hc hll
    rw [ht] at ht'
    cases ht'
    rw [hent] at hne
    cases hne

/-! ## what an evaluation leaves behind -/

section
variable {ext : ExtOps} {ecl : ExtCodeLawsV ext}

/-- after HALT `acc` is not the immediate of a `MOVIMM _ %acc; CLOSURE` site under `ip`: the cell before `ip` is the
    HALT opcode, not `%acc` -/
theorem halt_not_site {sh sd : St CHeap} (hs : step (concreteOps ext) sh = .ok (sd, true)) : atSiteB sd = false := by
  obtain ⟨s1, hr⟩ := step_true_is_halt hs
  have hs1 : step (concreteOps ext) sh = .ok (s1, true) := by
    unfold step
    rw [hr]
    rfl
  rw [hs1] at hs
  cases hs
  obtain ⟨rfl, l, hl, hop⟩ := readOpcode_inv hr
  cases hx : atSiteB (nx sh) with
  | false => rfl
  | true =>
    exfalso
    obtain ⟨l', j, h1, h2, _, _, h5, _⟩ := Taint.atSiteB_inv hx
    have h1' : lambdaAt sh.heap sh.ipL = some l' := h1
    rw [hl] at h1'
    cases h1'
    have h2' : sh.ipO + 1 = j + 3 := h2
    have : j + 2 = sh.ipO := by omega
    rw [this, hop] at h5
    cases h5

/-- **what an evaluation leaves behind**: `EnvInv`, and `acc` does not point to a capturing lambda -/
theorem envInv_runEval (force : Bool) (el : ExtLaws ext) (eg : ExtGood ext) (ep : ExtProc ext) (en : ExtNoPanic ext)
    (ee : ExtEnvInv ext) {p : St CHeap} (h : VmOkNP ext ecl p) (e : EnvInv p) (sb : EvalSizeBounded ext force p)
    (count : Option Nat) (fuel : Nat) :
    (∀ s', runEval (concreteOps ext) (cgc force) count fuel p = .value s' → EnvInv s' ∧ neE s'.heap s'.acc = true) ∧
    (∀ f s', runEval (concreteOps ext) (cgc force) count fuel p = .failed f s' →
      EnvInv s' ∧ neE s'.heap s'.acc = true) := by
  have em : (⟨vmStep (concreteOps ext), cgc force⟩ : Machine (St CHeap) Fault) = machine ext force := rfl
  obtain ⟨a, b⟩ := runLoop_last ext force count fuel 0 p
  have gcE : ∀ s : St CHeap, GoodI s → CInvG IsValue s.heap → EnvInv s → neE s.heap s.acc = true →
      EnvInv (cgc force s) ∧ neE (cgc force s).heap (cgc force s).acc = true := by
    intro s g ci es ha
    refine ⟨⟨Taint.tinv_gc force g ci es.taint, finv_gc force g ci es.fit⟩, ?_⟩
    rw [(Taint.cgc_fields force s).1]
    exact (Taint.cgc_eshr force (s := s)).neE ha
  constructor
  · intro s' hr
    unfold runEval at hr
    rw [em] at hr
    cases hl : runLoop (machine ext force) count fuel 0 p with
    | done sd =>
      rw [hl] at hr
      cases hr
      obtain ⟨sh, hreach, hstep⟩ := a sd hl
      have hreach' : Reaches (machine ext force) p sd := .halt hreach hstep
      have hvd : VmOkP ext ecl sd := vmOkP_reaches force el eg ep h.1 sb.run sd hreach'
      have ed : EnvInv sd := envInv_reaches force el eg ep en ee h e sb.run sd hreach'
      have hs : step (concreteOps ext) sh = .ok (sd, true) := vmStep_halt hstep
      have hacc : neE sd.heap sd.acc = true := by
        rcases ed.taint.acc with x | x
        · exact x
        · rw [halt_not_site hs] at x; cases x
      exact gcE (onDone sd) (onDone_goodI hvd.1.1) hvd.1.cinv (envInv_onDone ed) hacc
    | error f sf => rw [hl] at hr; cases hr
    | paused sp => rw [hl] at hr; cases hr
    | fuel => rw [hl] at hr; cases hr
  · intro f s' hr
    unfold runEval at hr
    rw [em] at hr
    cases hl : runLoop (machine ext force) count fuel 0 p with
    | error f' sf =>
      rw [hl] at hr
      cases hr
      have hreach := b _ sf hl
      have hvf : VmOkP ext ecl sf := vmOkP_reaches force el eg ep h.1 sb.run sf hreach
      have ef : EnvInv sf := envInv_reaches force el eg ep en ee h e sb.run sf hreach
      exact gcE (onError sf) (onError_goodI hvf.1.1) hvf.1.cinv (envInv_onError hvf.1.1.hg ef) rfl
    | done sd => rw [hl] at hr; cases hr
    | paused sp => rw [hl] at hr; cases hr
    | fuel => rw [hl] at hr; cases hr

/-! ## histories -/

/-- **T06.6 for histories, from the invariants of the INITIAL state only**: no history of `eval` calls — each with its
    `prepare_eval` (`HistInstalls`: accepted forms `Installs`, rejected forms `InstallsGarbage` + collection) — makes the
    modelled VM panic, except through `apply`'s 100000-element guard. Hypotheses: the idle invariant `IdleOk`, `NPInv`
    and `EnvInv` of the initial state (with `acc` not pointing to a capturing lambda), the laws of the unmodelled
    builtins, and the physical size bounds. No hypothesis per job. -/
theorem history_never_panics_installs_closed (ecl : ExtCodeLawsV ext) (force : Bool) (el : ExtLaws ext)
    (eg : ExtGood ext) (ep : ExtProc ext) (en : ExtNoPanic ext) (ee : ExtEnvInv ext) {s0 sf : St CHeap}
    {recs : List EvRec} (hist : HistInstalls ext force s0 recs sf) (i0 : IdleOk s0) (n0 : NPInv s0) (e0 : EnvInv s0)
    (a0 : neE s0.heap s0.acc = true) (sz : ∀ rc ∈ recs, RecSized ext force rc) :
    ∀ f ∈ recFaults recs, ∀ m, f = Fault.panic m → m = applyGuard := by
  induction hist with
  | nil s => intro f hf; cases hf
  | @ran s s1 sf e cfuel entry fuel recs inst _ ih =>
    have sb : EvalSizeBounded ext force (prepare s1 entry) := sz _ (List.mem_cons_self ..)
    have sm : Small s1.heap := sb.run (prepare s1 entry) (.refl _)
    have hv : VmOkP ext ecl (prepare s1 entry) := prepare_vmOkP_idle i0 inst sm
    have n1 : NPInv (prepare s1 entry) := prepare_npinv n0 inst
    have e1 : EnvInv (prepare s1 entry) := prepare_envInv i0 e0 a0 inst sm
    have hcap : 0 < (prepare s1 entry).stack.cells.length := by
      have := i0.cap
      rw [inst.regs]; exact this
    obtain ⟨k1, k2⟩ := idleOk_runEval (ecl := ecl) force el eg ep hv hcap sb none fuel
    obtain ⟨m1, m2, _⟩ := npinv_runEval force en n1 none fuel
    obtain ⟨x1, x2⟩ := envInv_runEval (ecl := ecl) force el eg ep en ee ⟨hv, n1⟩ e1 sb none fuel
    have szr : ∀ rc ∈ recs, RecSized ext force rc := fun rc h => sz rc (List.mem_cons_of_mem _ h)
    intro f hf m hm
    cases hr : runEval (concreteOps ext) (cgc force) none fuel (prepare s1 entry) with
    | value s' =>
      rw [hr] at ih hf
      exact ih (k1 s' hr) (m1 s' hr) (x1 s' hr).1 (x1 s' hr).2 szr f hf m hm
    | failed f' s' =>
      rw [hr] at ih hf
      rcases List.mem_cons.mp hf with e1' | e1'
      · subst e1'; subst hm
        exact runEval_never_panics_machine_closed force el eg ep en ee ⟨hv, n1⟩ e1 sb.run none fuel hr
      · exact ih (k2 f' s' hr) (m2 f' s' hr) (x2 f' s' hr).1 (x2 f' s' hr).2 szr f e1' m hm
    | paused s' => exact absurd hr (runEval_none_not_paused ext force fuel _ s')
    | fuel =>
      rw [hr] at ih hf
      exact ih i0 n0 e0 a0 szr f hf m hm
  | @rejected s g sf recs inst _ ih =>
    have ⟨sm1, sm2⟩ : Small g.heap ∧ Small (cgc force g).heap := sz _ (List.mem_cons_self ..)
    have ig : IdleOk g := (i0.installs inst sm1).1
    obtain ⟨eg', ag⟩ := envInv_installsGarbage i0 e0 inst sm1
    have ha : neE g.heap g.acc = true := ag a0
    intro f hf m hm
    refine ih (ig.gc force sm2) (npinv_gc force (npinv_installsGarbage n0 inst))
      ⟨Taint.tinv_gc force ig.good ig.ci eg'.taint, finv_gc force ig.good ig.ci eg'.fit⟩ ?_
      (fun rc h => sz rc (List.mem_cons_of_mem _ h)) f hf m hm
    rw [(Taint.cgc_fields force g).1]
    exact (Taint.cgc_eshr force (s := g)).neE ha

end

end Marwood.Lemmas.Good
