import Marwood.Gen.PreludeProcs
import Marwood.Store.PreludeSource
/-!
# The modelled library procedures are the regenerated ones

`Gen.PreludeProcs.procs` is regenerated from `marwood/prelude.scm` on every run
(`translate/prelude_procs.py`); `Store.Prelude.sourceOf` is the committed record of what the models of
`Store/Prelude.lean` were transcribed from. One closed theorem per procedure (kernel evaluation of two
small constructor terms), then the summary over the whole regenerated table.
-/
namespace Marwood.Store.Prelude
open Marwood Marwood.Gen.PreludeProcs

theorem agree_caar : procs.lookup "caar" = some caarSrc := by decide +kernel
theorem agree_list : procs.lookup "list" = some listSrc := by decide +kernel
theorem agree_length : procs.lookup "length" = some lengthSrc := by decide +kernel
theorem agree_memq : procs.lookup "memq" = some memqSrc := by decide +kernel
theorem agree_memv : procs.lookup "memv" = some memvSrc := by decide +kernel
theorem agree_member : procs.lookup "member" = some memberSrc := by decide +kernel
theorem agree_assq : procs.lookup "assq" = some assqSrc := by decide +kernel
theorem agree_assv : procs.lookup "assv" = some assvSrc := by decide +kernel
theorem agree_assoc : procs.lookup "assoc" = some assocSrc := by decide +kernel
theorem agree_anyP : procs.lookup "any?" = some anyPSrc := by decide +kernel
theorem agree_map1 : procs.lookup "map1" = some map1Src := by decide +kernel
theorem agree_map : procs.lookup "map" = some mapSrc := by decide +kernel
theorem agree_forEach : procs.lookup "for-each" = some forEachSrc := by decide +kernel

/-- every regenerated procedure that has a model is the form the model was transcribed from -/
theorem agree_all : ∀ p ∈ procs, modelled p.1 = true → sourceOf p.1 = some p.2 := by
  have h : (procs.all fun p => !modelled p.1 || decide (sourceOf p.1 = some p.2)) = true := by decide +kernel
  intro p hp hm
  have := List.all_eq_true.mp h p hp
  simpa [hm] using this

/-- … and every modelled procedure is still defined by the prelude (deleting one breaks this) -/
theorem modelled_all_defined : ∀ n ∈ modelledNames, procs.lookup n = sourceOf n ∧ (sourceOf n).isSome = true := by
  decide +kernel

/-- rename symbols throughout a datum -/
def renameSyms (ren : List (String × String)) : Datum → Datum
  | .sym x => match ren.find? (fun p => p.1.toList == x) with
    | some p => .sym p.2.toList
    | none => .sym x
  | .pair a d => .pair (renameSyms ren a) (renameSyms ren d)
  | d => d

/-- `memv` / `member` are `memq` with another equivalence, `assv` / `assoc` are `assq` with another
    equivalence: this is why one model function (`mem test`, `ass test`) serves three procedures -/
theorem mem_ass_family :
    memvSrc = renameSyms [("memq", "memv"), ("eq?", "eqv?")] memqSrc ∧
    memberSrc = renameSyms [("memq", "member"), ("eq?", "equal?")] memqSrc ∧
    assvSrc = renameSyms [("assq", "assv"), ("eq?", "eqv?")] assqSrc ∧
    assocSrc = renameSyms [("assq", "assoc"), ("eq?", "equal?")] assqSrc := by decide +kernel

end Marwood.Store.Prelude
