import Marwood.Lemmas.EvalFrame
/-!
# Well-formedness of `Spec.Eval` states: no dangling locations, the store never shrinks — framework

A value is *OK at `n`* when every location it mentions is below `n`; a state is well formed when every
cell of its store and every global is OK at the size of the store. All predicates are monotone in `n`.
A computation *preserves from `n0`* (`PresFrom n0 m P`) when, started in a well-formed state whose
store has at least `n0` cells, it ends in a well-formed state whose store is at least as large, with a
result that satisfies `P` at the final size. The level `n0` is what lets facts about captured values
and environments (true at `n0`) be carried through a `bind`: they are lifted by monotonicity.
-/
namespace Marwood.Spec.Eval
open Marwood

/-- every location the value mentions is below `n` -/
def ValOK (n : Nat) : Val → Prop
  | .pair l | .vec l | .promise l => l < n
  | .closure _ _ _ ρ => ∀ p ∈ ρ, p.2 < n
  | _ => True

def CellOK (n : Nat) : Cell → Prop
  | .var v => ValOK n v
  | .pair a d => ValOK n a ∧ ValOK n d
  | .vec xs => ∀ v ∈ xs, ValOK n v
  | .promise _ v => ValOK n v

def EnvOK (n : Nat) (ρ : Env) : Prop := ∀ p ∈ ρ, p.2 < n

structure WFSt (st : St) : Prop where
  store : ∀ (l : Nat) (c : Cell), st.store[l]? = some c → CellOK st.store.size c
  globals : ∀ (y : Text) (v : Val), st.globals.lookup y = some v → ValOK st.store.size v

def ValsOK (n : Nat) (vs : List Val) : Prop := ∀ v ∈ vs, ValOK n v
def PairOK (n : Nat) (p : Val × Val) : Prop := ValOK n p.1 ∧ ValOK n p.2
def StoreOK (n : Nat) (s : Array Cell) : Prop :=
  ∀ (l : Nat) (c : Cell), s[l]? = some c → CellOK n c

variable {α β : Type} {n m n0 : Nat}

/-! ## monotonicity -/

theorem ValOK.mono {v : Val} (h : n ≤ m) (hv : ValOK n v) : ValOK m v := by
  cases v <;> simp only [ValOK] at hv ⊢ <;>
    first
      | exact Nat.lt_of_lt_of_le hv h
      | (intro p hp; exact Nat.lt_of_lt_of_le (hv p hp) h)

theorem ValsOK.mono {vs : List Val} (h : n ≤ m) (hv : ValsOK n vs) : ValsOK m vs :=
  fun v hm => (hv v hm).mono h

theorem PairOK.mono {p : Val × Val} (h : n ≤ m) (hv : PairOK n p) : PairOK m p :=
  ⟨hv.1.mono h, hv.2.mono h⟩

theorem CellOK.mono {c : Cell} (h : n ≤ m) (hc : CellOK n c) : CellOK m c := by
  cases c with
  | var v => exact ValOK.mono h hc
  | pair a d => exact ⟨ValOK.mono h hc.1, ValOK.mono h hc.2⟩
  | vec xs => exact fun v hv => ValOK.mono h (hc v hv)
  | promise b v => exact ValOK.mono h hc

theorem EnvOK.mono {ρ : Env} (h : n ≤ m) (hρ : EnvOK n ρ) : EnvOK m ρ :=
  fun p hp => Nat.lt_of_lt_of_le (hρ p hp) h

theorem StoreOK.mono {s : Array Cell} (h : n ≤ m) (hs : StoreOK n s) : StoreOK m s :=
  fun l c hl => (hs l c hl).mono h

@[simp] theorem valsOK_nil : ValsOK n [] := by simp [ValsOK]
@[simp] theorem valsOK_cons (v : Val) (vs : List Val) :
    ValsOK n (v :: vs) ↔ ValOK n v ∧ ValsOK n vs := by simp [ValsOK]
@[simp] theorem envOK_nil : EnvOK n [] := by simp [EnvOK]
@[simp] theorem envOK_cons (y : Text) (l : Loc) (ρ : Env) :
    EnvOK n ((y, l) :: ρ) ↔ l < n ∧ EnvOK n ρ := by simp [EnvOK]

@[simp] theorem valOK_bool (b : Bool) : ValOK n (.bool b) := trivial
@[simp] theorem valOK_char (c : Char) : ValOK n (.char c) := trivial
@[simp] theorem valOK_nil : ValOK n .nil := trivial
@[simp] theorem valOK_int (i : Int) : ValOK n (.int i) := trivial
@[simp] theorem valOK_str (s : Text) : ValOK n (.str s) := trivial
@[simp] theorem valOK_sym (s : Text) : ValOK n (.sym s) := trivial
@[simp] theorem valOK_prim (p : Prim) : ValOK n (.prim p) := trivial
@[simp] theorem valOK_void : ValOK n .void := trivial
@[simp] theorem valOK_undef : ValOK n .undef := trivial
@[simp] theorem valOK_pair (l : Loc) : ValOK n (.pair l) ↔ l < n := Iff.rfl
@[simp] theorem valOK_vec (l : Loc) : ValOK n (.vec l) ↔ l < n := Iff.rfl
@[simp] theorem valOK_promise (l : Loc) : ValOK n (.promise l) ↔ l < n := Iff.rfl
@[simp] theorem valOK_closure (ps : List Text) (r : Option Text) (b : List Datum) (ρ : Env) :
    ValOK n (.closure ps r b ρ) ↔ EnvOK n ρ := Iff.rfl

/-! ## the framework -/

/-- the outcome is a well-formed state at least as large as `k`, with a result OK at the final size -/
def Post (k : Nat) (P : Nat → α → Prop) : Res α → Prop
  | .ok a s => WFSt s ∧ k ≤ s.store.size ∧ P s.store.size a
  | .err _ s => WFSt s ∧ k ≤ s.store.size
  | .timeout => True

theorem Post.weaken {P : Nat → α → Prop} {k k' : Nat} {r : Res α} (h : k' ≤ k) (hp : Post k P r) :
    Post k' P r := by
  cases r with
  | ok a s => exact ⟨hp.1, Nat.le_trans h hp.2.1, hp.2.2⟩
  | err e s => exact ⟨hp.1, Nat.le_trans h hp.2⟩
  | timeout => trivial

/-- from a well-formed state with at least `n0` cells the computation ends in a well-formed state with
    a store at least as large, and its result satisfies `P` at the final store size -/
def PresFrom (n0 : Nat) (m : M α) (P : Nat → α → Prop) : Prop :=
  ∀ st, WFSt st → n0 ≤ st.store.size → Post st.store.size P (m st)

/-- the unlevelled form of the statement -/
def Pres (m : M α) (P : Nat → α → Prop) : Prop :=
  ∀ st, WFSt st → match m st with
    | .ok a s => WFSt s ∧ st.store.size ≤ s.store.size ∧ P s.store.size a
    | .err _ s => WFSt s ∧ st.store.size ≤ s.store.size
    | .timeout => True

theorem PresFrom.pres {m : M α} {P : Nat → α → Prop} (h : PresFrom 0 m P) : Pres m P := by
  intro st wf
  have := h st wf (Nat.zero_le _)
  cases h1 : m st with
  | ok a s => simp only [h1, Post] at this; exact this
  | err e s => simp only [h1, Post] at this; exact this
  | timeout => trivial

/-- the match form, at a given state -/
theorem PresFrom.at {m : M α} {P : Nat → α → Prop} (h : PresFrom n0 m P) (st : St) (wf : WFSt st)
    (hn : n0 ≤ st.store.size) :
    match m st with
    | .ok a s => WFSt s ∧ st.store.size ≤ s.store.size ∧ P s.store.size a
    | .err _ s => WFSt s ∧ st.store.size ≤ s.store.size
    | .timeout => True := by
  have := h st wf hn
  cases h1 : m st with
  | ok a s => simp only [h1, Post] at this; exact this
  | err e s => simp only [h1, Post] at this; exact this
  | timeout => trivial

theorem PresFrom.pure {P : Nat → α → Prop} (a : α) (h : ∀ n, n0 ≤ n → P n a) :
    PresFrom n0 (pure a : M α) P := by
  intro st wf hn; exact ⟨wf, Nat.le_refl _, h _ hn⟩

theorem PresFrom.throw {P : Nat → α → Prop} (e : ErrClass) : PresFrom n0 (throw e : M α) P := by
  intro st wf _; exact ⟨wf, Nat.le_refl _⟩

theorem PresFrom.timeout {P : Nat → α → Prop} : PresFrom n0 (timeoutM : M α) P := by
  intro st _ _; trivial

theorem PresFrom.bind {P : Nat → α → Prop} {Q : Nat → β → Prop} {m : M α} {f : α → M β}
    (hm : PresFrom n0 m P) (hf : ∀ a n1, n0 ≤ n1 → P n1 a → PresFrom n1 (f a) Q) :
    PresFrom n0 (m >>= f) Q := by
  intro st wf hn
  have h := hm st wf hn
  show Post _ Q (M.bind' m f st)
  unfold M.bind'
  cases h1 : m st with
  | ok a s =>
    simp only [h1, Post] at h
    obtain ⟨wf', hle, pa⟩ := h
    exact Post.weaken hle (hf a _ (Nat.le_trans hn hle) pa s wf' (Nat.le_refl _))
  | err e s => simpa [h1, Post] using h
  | timeout => trivial

theorem PresFrom.mono {P Q : Nat → α → Prop} {m : M α} (hm : PresFrom n0 m P)
    (h : ∀ n a, n0 ≤ n → P n a → Q n a) : PresFrom n0 m Q := by
  intro st wf hn
  have := hm st wf hn
  cases h1 : m st with
  | ok a s =>
    simp only [h1, Post] at this ⊢
    exact ⟨this.1, this.2.1, h _ _ (Nat.le_trans hn this.2.1) this.2.2⟩
  | err e s => simpa [h1, Post] using this
  | timeout => trivial

/-- a computation that preserves from `n0` preserves from any later level -/
theorem PresFrom.from {P : Nat → α → Prop} {m : M α} (hm : PresFrom n0 m P) (h : n0 ≤ n) :
    PresFrom n m P := fun st wf hn => hm st wf (Nat.le_trans h hn)

/-- pure results that are OK already at `n0` -/
theorem PresFrom.pureV (v : Val) (h : ValOK n0 v) : PresFrom n0 (Pure.pure v : M Val) ValOK :=
  PresFrom.pure v (fun _ hn => h.mono hn)

theorem PresFrom.pureVs (vs : List Val) (h : ValsOK n0 vs) : PresFrom n0 (Pure.pure vs : M (List Val)) ValsOK :=
  PresFrom.pure vs (fun _ hn => h.mono hn)

theorem PresFrom.pureT (a : α) : PresFrom n0 (Pure.pure a : M α) (fun _ _ => True) :=
  PresFrom.pure a (fun _ _ => trivial)

/-! ## the state operations -/

theorem WFSt.push {st : St} (wf : WFSt st) (c : Cell) (hc : CellOK st.store.size c) :
    WFSt { st with store := st.store.push c } := by
  refine ⟨?_, ?_⟩
  · intro l c' h
    simp only [Array.getElem?_push, Array.size_push] at h ⊢
    split at h
    · cases h; exact hc.mono (Nat.le_succ _)
    · exact (wf.store l c' h).mono (Nat.le_succ _)
  · intro y v h
    simp only [Array.size_push]
    exact (wf.globals y v h).mono (Nat.le_succ _)

theorem WFSt.set {st : St} (wf : WFSt st) (l : Loc) (c : Cell) (hc : CellOK st.store.size c) :
    WFSt { st with store := st.store.setIfInBounds l c } := by
  refine ⟨?_, ?_⟩
  · intro i c' h
    simp only [Array.getElem?_setIfInBounds, Array.size_setIfInBounds] at h ⊢
    split at h
    · first
        | (cases h; exact hc)
        | (split at h
           · cases h; exact hc
           · cases h)
    · exact wf.store i c' h
  · intro y v h
    simp only [Array.size_setIfInBounds]
    exact wf.globals y v h

theorem WFSt.insertG {st : St} (wf : WFSt st) (s : Text) (v : Val) (hv : ValOK st.store.size v) :
    WFSt { st with globals := insertG s v st.globals } := by
  refine ⟨wf.store, ?_⟩
  intro y w h
  simp only [lookup_insertG] at h
  split at h
  · cases h; exact hv
  · exact wf.globals y w h

theorem pres_allocCell (c : Cell) (hc : CellOK n0 c) : PresFrom n0 (allocCell c) (fun n l => l < n) := by
  intro st wf hn
  refine ⟨wf.push c (hc.mono hn), ?_, ?_⟩ <;> simp

theorem pres_readCell (l : Loc) : PresFrom n0 (readCell l) CellOK := by
  intro st wf _
  simp only [readCell]
  cases h : st.store[l]? with
  | none => exact ⟨wf, Nat.le_refl _⟩
  | some c => exact ⟨wf, Nat.le_refl _, wf.store l c h⟩

theorem pres_writeCell (l : Loc) (c : Cell) (hc : CellOK n0 c) :
    PresFrom n0 (writeCell l c) (fun _ _ => True) := by
  intro st wf hn
  simp only [writeCell]
  split
  · exact ⟨wf.set l c (hc.mono hn), by simp, trivial⟩
  · exact ⟨wf, Nat.le_refl _⟩

theorem pres_getStore : PresFrom n0 getStore StoreOK := by
  intro st wf _
  exact ⟨wf, Nat.le_refl _, wf.store⟩

theorem pres_getGlobal (s : Text) : PresFrom n0 (getGlobal s) ValOK := by
  intro st wf _
  simp only [getGlobal]
  cases h : st.globals.lookup s with
  | none => exact ⟨wf, Nat.le_refl _⟩
  | some v => exact ⟨wf, Nat.le_refl _, wf.globals s v h⟩

theorem pres_putGlobal (s : Text) (v : Val) (hv : ValOK n0 v) :
    PresFrom n0 (putGlobal s v) (fun _ _ => True) := by
  intro st wf hn
  exact ⟨wf.insertG s v (hv.mono hn), Nat.le_refl _, trivial⟩

theorem pres_setGlobal (s : Text) (v : Val) (hv : ValOK n0 v) :
    PresFrom n0 (setGlobal s v) (fun _ _ => True) := by
  intro st wf hn
  simp only [setGlobal]
  cases h : st.globals.lookup s with
  | none => exact ⟨wf, Nat.le_refl _⟩
  | some w => exact ⟨wf.insertG s v (hv.mono hn), Nat.le_refl _, trivial⟩

theorem pres_emit (w : Bool) (d : Datum) : PresFrom n0 (emit w d) (fun _ _ => True) := by
  intro st wf _
  exact ⟨⟨wf.store, wf.globals⟩, Nat.le_refl _, trivial⟩

end Marwood.Spec.Eval
