import Marwood.Lemmas.EnvRefineMonad
/-!
# The specification interpreter never releases a location

`Grows m`: whatever `m` does — value or error — the store is at least as long afterwards. Every
function of `Spec.Scope` has it (the only store operations are `alloc`, which appends, and
`writeLoc`, which overwrites in place): a binding outlives the activation that created it, and the
locations `bindParams` / `allocDefs` hand to a new activation (`exec_bindParams`, `exec_allocDefs`:
the next free ones) are different from every location handed out before.
-/
namespace Marwood.Vm.EnvRefine
open Marwood Marwood.Scope Marwood.Spec.Scope

def Grows {α : Type} (m : X SErr SSt α) : Prop := ∀ s : SSt, s.store.size ≤ (exec m s).2.store.size

theorem Grows.of_same {α : Type} (m : X SErr SSt α) (h : ∀ s, (exec m s).2.store.size = s.store.size) : Grows m :=
  fun s => by rw [h s]; exact Nat.le_refl _

theorem Grows.pure {α : Type} (a : α) : Grows (pure a : X SErr SSt α) := Grows.of_same _ fun _ => rfl
theorem Grows.throw {α : Type} (e : SErr) : Grows (throw e : X SErr SSt α) := Grows.of_same _ fun _ => rfl

theorem Grows.bind {α β : Type} {m : X SErr SSt α} {k : α → X SErr SSt β} (hm : Grows m) (hk : ∀ a, Grows (k a)) :
    Grows (m >>= k) := by
  intro s
  rw [exec_bind]
  have h1 := hm s
  rcases hx : exec m s with ⟨r, s1⟩
  rw [hx] at h1
  cases r with
  | error e => exact h1
  | ok a => exact Nat.le_trans h1 (hk a s1)

theorem grows_tick : Grows Spec.Scope.tick := Grows.of_same _ fun _ => rfl
theorem grows_logEvent (e : Event) : Grows (logEvent e) := Grows.of_same _ fun _ => rfl
theorem grows_writeLoc (l : Loc) (v : SVal) : Grows (writeLoc l v) :=
  Grows.of_same _ fun s => by rw [exec_writeLoc]; simp
theorem grows_alloc (v : SVal) : Grows (alloc v) := fun s => by rw [exec_alloc]; simp

theorem grows_locOf (x : Name) (ρ : Chain) : Grows (locOf x ρ) :=
  Grows.of_same _ fun s => by
    rcases exec_locOf_cases x ρ s with ⟨l, h, _⟩ | h <;> rw [h]

theorem grows_readLoc (l : Loc) : Grows (readLoc l) :=
  Grows.of_same _ fun s => by
    rcases exec_readLoc_cases l s with ⟨v, _, _, h⟩ | h <;> rw [h]

theorem grows_bindParams (ps : List Name) (r : Option Name) (vs : List SVal) : Grows (bindParams ps r vs) := by
  intro s
  have := exec_bindParams ps r vs s
  split at this
  · rw [this]; simp
  · obtain ⟨extra, h⟩ := this
    rw [h]; simp

theorem grows_allocDefs (ds : Defs) : Grows (allocDefs ds) := fun s => by rw [exec_allocDefs]; simp

structure GrowsAll (f : Nat) : Prop where
  eval : ∀ ρ e, Grows (Spec.Scope.eval f ρ e)
  evalList : ∀ ρ es, Grows (Spec.Scope.evalList f ρ es)
  evalBody : ∀ ρ es, Grows (Spec.Scope.evalBody f ρ es)
  evalDefs : ∀ ρ ds, Grows (Spec.Scope.evalDefs f ρ ds)
  apply : ∀ fv vs, Grows (Spec.Scope.apply f fv vs)
  loopGo : ∀ fv n, Grows (Spec.Scope.loopGo f fv n)
  eachGo : ∀ lv vs, Grows (Spec.Scope.eachGo f lv vs)

theorem growsAll : ∀ f, GrowsAll f
  | 0 => by
    refine ⟨?_, ?_, ?_, ?_, ?_, ?_, ?_⟩ <;> intros
    · rw [Spec.Scope.eval]; exact Grows.throw _
    · rw [Spec.Scope.evalList]; exact Grows.throw _
    · rw [Spec.Scope.evalBody]; exact Grows.throw _
    · rw [Spec.Scope.evalDefs]; exact Grows.throw _
    · rw [Spec.Scope.apply]; exact Grows.throw _
    · rw [Spec.Scope.loopGo]; exact Grows.throw _
    · rw [Spec.Scope.eachGo]; exact Grows.throw _
  | f + 1 => by
    have ih := growsAll f
    refine ⟨?_, ?_, ?_, ?_, ?_, ?_, ?_⟩
    · intro ρ e
      cases e with
      | fresh => simp only [Spec.Scope.eval]; exact grows_tick
      | ref s x =>
        simp only [Spec.Scope.eval]
        exact Grows.bind (grows_locOf x ρ) fun l => Grows.bind (grows_readLoc l) fun v =>
          Grows.bind (grows_logEvent _) fun _ => Grows.pure _
      | set s x e =>
        simp only [Spec.Scope.eval]
        exact Grows.bind (ih.eval ρ e) fun v => Grows.bind (grows_locOf x ρ) fun l =>
          Grows.bind (grows_logEvent _) fun _ => Grows.bind (grows_writeLoc l v) fun _ => Grows.pure _
      | lam ps r ds body => simp only [Spec.Scope.eval]; exact Grows.pure _
      | call fn args =>
        simp only [Spec.Scope.eval]
        exact Grows.bind (ih.evalList ρ args) fun vs => Grows.bind (ih.eval ρ fn) fun fv => ih.apply fv vs
      | seq es => simp only [Spec.Scope.eval]; exact ih.evalBody ρ es
      | loop n fn =>
        simp only [Spec.Scope.eval]
        exact Grows.bind (ih.eval ρ fn) fun fv => ih.loopGo fv n
      | each l args =>
        simp only [Spec.Scope.eval]
        exact Grows.bind (ih.eval ρ l) fun lv => Grows.bind (ih.evalList ρ args) fun vs => ih.eachGo lv vs
    · intro ρ es
      cases es with
      | nil => simp only [Spec.Scope.evalList]; exact Grows.pure _
      | cons e es =>
        simp only [Spec.Scope.evalList]
        exact Grows.bind (ih.eval ρ e) fun v => Grows.bind (ih.evalList ρ es) fun vs => Grows.pure _
    · intro ρ es
      cases es with
      | nil => simp only [Spec.Scope.evalBody]; exact Grows.pure _
      | cons e es =>
        cases es with
        | nil => simp only [Spec.Scope.evalBody]; exact ih.eval ρ e
        | cons e' es' =>
          simp only [Spec.Scope.evalBody]
          exact Grows.bind (ih.eval ρ e) fun _ => ih.evalBody ρ _
    · intro ρ ds
      cases ds with
      | nil => simp only [Spec.Scope.evalDefs]; exact Grows.pure _
      | cons x sugar e ds =>
        simp only [Spec.Scope.evalDefs]
        exact Grows.bind (ih.eval ρ e) fun v => Grows.bind (grows_locOf x ρ) fun l =>
          Grows.bind (grows_writeLoc l v) fun _ => ih.evalDefs ρ ds
    · intro fv vs
      cases fv with
      | clo ps r ds body env =>
        simp only [Spec.Scope.apply]
        exact Grows.bind (grows_bindParams ps r vs) fun fr => Grows.bind (grows_allocDefs ds) fun fr' =>
          Grows.bind (ih.evalDefs _ ds) fun _ => ih.evalBody _ body
      | int _ | nil | void | undef | pair _ _ => simp only [Spec.Scope.apply]; exact Grows.throw _
    · intro fv n
      cases n with
      | zero => simp only [Spec.Scope.loopGo]; exact Grows.pure _
      | succ n =>
        simp only [Spec.Scope.loopGo]
        exact Grows.bind grows_tick fun tv => Grows.bind (ih.apply fv [tv]) fun v =>
          Grows.bind (ih.loopGo fv n) fun rest => Grows.pure _
    · intro lv vs
      cases lv with
      | nil => simp only [Spec.Scope.eachGo]; exact Grows.pure _
      | pair c rest =>
        simp only [Spec.Scope.eachGo]
        exact Grows.bind (ih.apply c vs) fun v => Grows.bind (ih.eachGo rest vs) fun r => Grows.pure _
      | int _ | void | undef | clo _ _ _ _ _ => simp only [Spec.Scope.eachGo]; exact Grows.throw _

end Marwood.Vm.EnvRefine
