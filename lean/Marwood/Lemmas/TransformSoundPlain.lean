import Marwood.Lemmas.TransformTryNew
/-!
# Soundness of `transform` for transformers without ellipsis (class 1 of T17.1)
-/
namespace Marwood.Transform
open Marwood Marwood.Spec.Match

/-- the rules of a transformer as the specification sees them -/
def specRules (t : Transform) : List Rule := t.rules.map fun r => ⟨r.1.expr, r.2⟩

/-- T17.1's conclusion: the expansion is what R7RS prescribes — rule `i` matches, no earlier rule
    does, and `e` instantiates rule `i`'s template (the second disjunct is the excluded class: ellipsis
    variables of one sub-template matched different numbers of items) -/
def Sound (c : Ctx) (rules : List Rule) (u e : Datum) : Prop :=
  ∃ i r b, rules[i]? = some r ∧ matchRule c r u = some b ∧
    (∀ j : Nat, j < i → ∀ r', rules[j]? = some r' → matchRule c r' u = none) ∧
    (instantiate c r.template b = .ok e ∨ instantiate c r.template b = .mismatch)

theorem Sound.shift {c : Ctx} {r0 : Rule} {rules : List Rule} {u e : Datum}
    (h0 : matchRule c r0 u = none) (h : Sound c rules u e) : Sound c (r0 :: rules) u e := by
  obtain ⟨i, r, b, hi, hm, hprev, hinst⟩ := h
  refine ⟨i + 1, r, b, by simpa using hi, hm, ?_, hinst⟩
  intro j hj r' hr'
  cases j with
  | zero => simp at hr'; subst hr'; exact h0
  | succ j => exact hprev j (by omega) r' (by simpa using hr')

theorem isVariable_iff (vars : List Text) (x : Text) :
    ((vars.map Datum.sym).any fun it => cellEq it (.sym x)) = decide (x ∈ vars) := by
  induction vars with
  | nil => simp
  | cons v vs ih =>
    rw [List.map_cons, List.any_cons, ih]
    by_cases h : x = v
    · subst h; simp
    · have : ¬ (Datum.sym v = Datum.sym x) := by simp; exact fun e => h e.symm
      simp [h, this]

theorem transformRules_plain (s : Setup) (f f0 : Nat) (t : Transform) (u : Datum)
    (hte : t.ellipsis = s.ell) (htl : t.literals = s.lits) :
    ∀ (rules : List (Pattern × Datum)) (e : Datum),
      (∀ r ∈ rules, RuleOK f0 s.ell s.lits r ∧ plain s.es r.1.expr = true ∧ plain s.es r.2 = true) →
      transformRules f t u rules = .ok e →
      Sound s.ctx (rules.map fun r => ⟨r.1.expr, r.2⟩) u e := by
  intro rules
  induction rules with
  | nil => intro e _ h; simp [transformRules] at h
  | cons r rules ih =>
    intro e hr h
    obtain ⟨pat, tmpl⟩ := r
    obtain ⟨hok, hpp, hpt⟩ := hr (pat, tmpl) (by simp)
    simp only at hpp hpt
    obtain ⟨hexpr, hpell, hplits, kw, body, hpb, hbuild⟩ := Pattern.tryNew_ok hok.pat
    simp only at hpb hbuild
    rw [hpb] at hpp
    simp only [plain, Bool.and_eq_true] at hpp
    have hbody : plain.plainTail s.es body = true := hpp.2
    obtain ⟨hbeq, hbel, _⟩ := plainTail_spec hbody
    -- what build computed
    have hsb := buildLoop_plain s f0 _ _ 0 (iterList body) 0 _ pat rfl rfl hbel (by simpa [build] using hbuild)
    rw [← hbeq] at hsb
    unfold transformRules at h
    simp only [hpb, cdrE] at h
    cases u with
    | pair ukw urest =>
      simp only [cdrE] at h
      rw [hte, htl] at h
      cases hm : patternMatch s.ell s.lits f body urest [] with
      | ok r1 =>
        obtain ⟨b, B⟩ := r1
        have hrel := (match_plain_aux s f).1 body urest [] (b, B) hbody hm
        rw [hm] at h
        have hmr : matchRule s.ctx ⟨pat.expr, tmpl⟩ (.pair ukw urest) = specMatch s.ctx body urest := by
          simp [matchRule, hpb]
        cases b with
        | true =>
          simp only at h
          obtain ⟨bs, hbs, hB⟩ := hrel.1 rfl
          simp only [List.nil_append] at hB
          obtain ⟨hkeys, hone⟩ := (specMatch_plain_keys s body).2 hbody urest bs hbs
          have henv : EnvOK s pat B bs := by
            refine ⟨by simpa using hsb.exp, ?_, ?_⟩
            · intro x i d hk; rw [hB] at hk; exact findKey_flat1 x bs 0 i d hone hk
            · intro x hx
              apply lookup_none_of_not_mem
              rw [hkeys]
              have hv := hsb.vars
              simp only [List.nil_append] at hv
              simp only [Pattern.isVariable, hv, isVariable_iff, decide_eq_false_iff_not] at hx
              exact hx
          cases hx : expand s.ell pat f tmpl (PEnv.new pat B) with
          | ok r2 =>
            obtain ⟨o, env'⟩ := r2
            rw [hx] at h
            cases o with
            | some cexp =>
              simp only at h
              cases h
              have := ((expand_plain_aux s pat B bs henv _ f).1 tmpl (some e) env' hpt
                (by simpa [PEnv.new] using hx)).2 e rfl
              refine ⟨0, ⟨pat.expr, tmpl⟩, bs, by simp, by rw [hmr]; exact hbs, by intro j hj; omega, Or.inl ?_⟩
              exact this
            | none => cases h
          | err x => rw [hx] at h; cases h
          | panic m => rw [hx] at h; cases h
          | fuel => rw [hx] at h; cases h
        | false =>
          simp only at h
          have hnone := hrel.2 rfl
          have := ih e (fun r hr' => hr r (List.mem_cons_of_mem _ hr')) h
          simp only [List.map_cons]
          exact Sound.shift (by rw [hmr]; exact hnone) this
      | err x => rw [hm] at h; cases h
      | panic m => rw [hm] at h; cases h
      | fuel => rw [hm] at h; cases h
    | _ => simp [cdrE] at h

end Marwood.Transform
