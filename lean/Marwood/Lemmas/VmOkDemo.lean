import Marwood.Lemmas.StackDiscOfWFS
import Marwood.Lemmas.GoodDemo
/-!
# The bundled invariant `VmOk` is satisfiable: the one-instruction program `HALT` (Lemmas/GoodDemo.lean)

`Demo.sHalt 0` — the state the heap-simulation demos of C03 / C13 / C07 start in — satisfies `VmOk ext ecl` for
every parameter set `ext`: its heap passes the value-typed `CInvG IsValue` (one lambda cell `[HALT]`, accepted by
the verifier as entry code), the state is WF-stack (entry frame, no temporaries), and no reachable state is a
call site.
-/
namespace Marwood.Lemmas.Good.Demo
open Marwood Marwood.Vm Marwood.Vm.Verify Marwood.Vm.Concrete Marwood.Lemmas.Sim Marwood.Lemmas.Good

theorem verHalt : (verifyLam [VCell.opcode .halt]).isSome = true := by decide +kernel

theorem hHalt_cinv : CInvG IsValue hHalt := by
  refine ⟨by decide, ⟨by decide, by decide, 1, by decide, by decide⟩, ?_, ?_, ?_, ?_, ?_, ?_⟩
  · intro i
    by_cases hi : i < 4
    · rcases four_cases hi with h | h | h | h <;> subst h <;> decide
    · rw [Array.getElem?_eq_none (by simp [hHalt]; omega)]; simp
  · intro l lam hl
    rcases hHalt_cell hl with ⟨h0, _⟩ | h
    · subst h0; decide
    · cases h
  · intro l lam hl
    rcases hHalt_cell hl with ⟨_, h⟩ | h
    · cases h; exact verHalt
    · cases h
  · intro l lam hl
    rcases hHalt_cell hl with ⟨_, h⟩ | h
    · cases h; intro x hx; cases hx
    · cases h
  · intro l lam hl
    rcases hHalt_cell hl with ⟨_, h⟩ | h
    · cases h; decide
    · cases h
  · intro p c hc
    rcases hHalt_cell hc with ⟨_, h⟩ | h <;> cases h

/-- the initial state of the demo is WF-stack over the value-typed verifier, for every `ext` -/
theorem sHalt_wfs (ext : ExtOps) (ecl : ExtCodeLawsV ext) : WFS (concreteLawsV ext ecl) (sHalt 0) [] := by
  have hv := verHalt
  cases ht : verifyLam [VCell.opcode .halt] with
  | none => rw [ht] at hv; cases hv
  | some t =>
    have hty : tyOf ((concreteLawsV ext ecl).code (sHalt 0).heap) 0 = some t := by
      show (codeC hHalt 0).bind verifyLam = some t
      have : codeC hHalt 0 = some [VCell.opcode .halt] := rfl
      rw [this]; exact ht
    have hent : t.entry = true := by rw [verifyLam_entry ht]; rfl
    exact WFS.initial (cl := concreteLawsV ext ecl) (s := sHalt 0) (entry := 0) hHalt_cinv hty hent rfl (by decide) rfl

/-- **non-vacuity of `VmOk`** -/
theorem sHalt_vmOk (ext : ExtOps) (ecl : ExtCodeLawsV ext) : VmOk ext ecl (sHalt 0) :=
  ⟨sHalt_goodI 0, .inl ⟨[], sHalt_wfs ext ecl⟩⟩

/-- the state after HALT satisfies the bundled invariant too (`HaltedAt`) -/
theorem sHalt1_vmOk (ext : ExtOps) (ecl : ExtCodeLawsV ext) : VmOk ext ecl (sHalt 1) :=
  ⟨sHalt_goodI 1, .inr ⟨hHalt_cinv, [VCell.opcode .halt], rfl, by decide⟩⟩

theorem sHalt_calleeOk (o : Nat) : CalleeOk (sHalt o) := rfl

theorem sHalt_calleeOkAlong1 (ext : ExtOps) : CalleeOkAlong (machine ext false) (sHalt 1) := by
  intro s' hr _
  have := sHalt_reaches1 ext hr
  subst this
  exact sHalt_calleeOk _

theorem sHalt_calleeOkAlong (ext : ExtOps) : CalleeOkAlong (machine ext false) (sHalt 0) := by
  intro s' hr _
  rcases sHalt_reaches ext hr with h | h <;> subst h <;> exact sHalt_calleeOk _

end Marwood.Lemmas.Good.Demo
