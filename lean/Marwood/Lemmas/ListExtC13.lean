import Marwood.Lemmas.ListExtSim
import Marwood.Lemmas.ListExtGood
import Marwood.Lemmas.ListExtCode
import Marwood.Lemmas.ListExtProc
import Marwood.Lemmas.ListExtDemo
import Marwood.Proofs.C03
import Marwood.Proofs.C13

/-! Corollaries of `Proofs/C13.lean` at the real builtins `listExtWith` (see Lemmas/ListExtProps.lean for the overview). -/

namespace Marwood.Proofs.C13
open Marwood Marwood.Vm Marwood.Vm.Concrete Marwood.Lemmas.Sim Marwood.Lemmas.Good Marwood.Proofs.C03

section
variable (eqTag : String → String → Bool)

/-- **T13.3 at the real builtins**: if the uninterrupted evaluation reaches HALT after `k` instructions, then for
    every sequence of positive budgets whose sum reaches `k` the sliced evaluation (budget-stop collections and the
    collections every 8192 cycles on the real collector model) reaches HALT too, and the datum read out of `acc` is
    the same. No hypothesis about the builtins. -/
theorem sliced_value_eq_uninterrupted_listExt (force : Bool) (s0 : St CHeap)
    (h0 : VmOk (listExtWith eqTag) (listExtWith_codeLawsV eqTag) s0) (p0 : PInv s0)
    (sb : SizeBounded (machine (listExtWith eqTag) force) s0) (k : Nat) (t' : St CHeap)
    (hk : pureN (machine (listExtWith eqTag) force) k s0 = .done t')
    (bs : List Nat) (hpos : ∀ b ∈ bs, 1 ≤ b) (hsum : k ≤ bs.sum) (fuel : Nat) :
    ∃ s1 s2, run (machine (listExtWith eqTag) force) k s0 = .done s1 ∧
      runSliced (machine (listExtWith eqTag) force) bs s0 = .done s2 ∧ resultObs fuel s1 = resultObs fuel s2 :=
  sliced_value_eq_uninterrupted_closed _ force (listExtWith_laws eqTag) (listExtWith_good eqTag)
    (listExtWith_codeLawsV eqTag) (listExtWith_proc eqTag) s0 h0 p0 sb k t' hk bs hpos hsum fuel

/-- … and for an evaluation that fails: the same failure, `Sim`-related states -/
theorem sliced_error_eq_uninterrupted_listExt (force : Bool) (s0 : St CHeap)
    (h0 : VmOk (listExtWith eqTag) (listExtWith_codeLawsV eqTag) s0) (p0 : PInv s0)
    (sb : SizeBounded (machine (listExtWith eqTag) force) s0) (k : Nat) (e : Fault) (t' : St CHeap)
    (hk : pureN (machine (listExtWith eqTag) force) k s0 = .error e t')
    (bs : List Nat) (hpos : ∀ b ∈ bs, 1 ≤ b) (hsum : k ≤ bs.sum) :
    ∃ s1 s2, run (machine (listExtWith eqTag) force) k s0 = .error e s1 ∧
      runSliced (machine (listExtWith eqTag) force) bs s0 = .error e s2 ∧
      R (machine (listExtWith eqTag) force) s1 t' ∧ R (machine (listExtWith eqTag) force) s2 t' :=
  sliced_error_eq_uninterrupted_closed _ force (listExtWith_laws eqTag) (listExtWith_good eqTag)
    (listExtWith_codeLawsV eqTag) (listExtWith_proc eqTag) s0 h0 p0 sb k e t' hk bs hpos hsum

end

open Marwood.Lemmas.Good.LDemo in
/-- non-vacuity: every slicing of the 17-instruction evaluation that conses, mutates and reads returns `3` -/
theorem demo_every_slicing (bs : List Nat) (hpos : ∀ b ∈ bs, 1 ≤ b) (hsum : 17 ≤ bs.sum) :
    ∃ s1 s2, run (machine listExt false) 17 sDemo = .done s1 ∧ runSliced (machine listExt false) bs sDemo = .done s2 ∧
      resultObs 5 s1 = resultObs 5 s2 :=
  sliced_value_eq_uninterrupted_listExt _ false sDemo (sDemo_vmOk _ _) sDemo_pinv sDemo_sizeBounded 17 (st 17)
    (pure_done false) bs hpos hsum 5

end Marwood.Proofs.C13
