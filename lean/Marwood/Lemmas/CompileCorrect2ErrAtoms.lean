import Marwood.Lemmas.CompileCorrect2ErrMain
import Marwood.Lemmas.CompileCorrectDemo
/-!
# T01.3 stage 1, ERROR case — `ErrLaws` from elementary laws, on the concrete heap, and a worked failure

* `AtomErrLaws` — for the store-free representation `atomData`: `CALL`'s dispatch sees no procedure in a
  non-procedure scalar (flat or behind a pointer), and a supported primitive on which `applyPrim1` fails is a
  generic builtin whose evaluation fails with the same class; `atomErrLaws_errLaws` derives `ErrLaws`;
* `concrete_atomErrLaws` — the dispatch part is a theorem on the concrete heap model;
* `demo_err_runs` — every hypothesis of `compileExpr_correct_err` discharged for
  `(if (set! g #t) (g) 1)` with `g` bound: the machine stores `#t` in `g`, then fails in `CALL` with
  `InvalidProcedure`; the heap at the failure represents the specification's failure state (`g = #t`).
-/
namespace Marwood.Lemmas.CompileCorrect
open Marwood Marwood.Vm Marwood.Vm.Concrete
open Marwood.Spec.Eval (Val Prim Cell ErrClass evalN evalStep applyStep applyPrim1 evalArgs properList)

variable {H : Type}

/-- the scalar cells that are not procedures -/
def nonProcCell : VCell → Prop
  | .bool _ | .nil | .void | .opaque _ => True
  | _ => False

structure AtomErrLaws (ops : HeapOps H) (E : AtomEnc) (B : AtomBase ops) : Prop where
  callee_other_imm : ∀ h c, nonProcCell c → ops.callee h c = .other
  callee_other_ptr : ∀ h p, nonProcCell (ops.getAt h p) → ops.callee h (.ptr p) = .other
  builtin_err : ∀ h (σ : SSt) p id vs ws c (σ' : SSt) l, SR (atomData ops E B) h σ → E.prim p = some id →
    All2 (atomVR ops E h σ.store) vs ws → applyPrim1 p ws σ = .err c σ' → c ≠ .syntax →
    ops.builtinKind h id = .generic ∧
    ∃ e', builtinResult ops h id vs.reverse = .err e' ∧ machClass e' = specClass c ∧
      SR (atomData ops E B) h σ' ∧ Evolves (atomData ops E B) l h σ.store h σ'.store

variable {ops : HeapOps H} {E : AtomEnc}

theorem cell_nonProc {w : Val} {c : VCell} (h : E.cell w = some c) (hp : ∀ p, w ≠ .prim p) : nonProcCell c := by
  cases w <;> simp [AtomEnc.cell] at h <;> first
    | (subst h; trivial)
    | exact absurd rfl (hp _)

theorem atomErrLaws_errLaws {B : AtomBase ops} (A : AtomLaws ops E B) (AE : AtomErrLaws ops E B) :
    ErrLaws (atomData ops E B) where
  call_err := by
    intro n h σ vf f vs ws c σ' l hsr ⟨cv, hcv, hv⟩ hvs hap hcs
    cases n with
    | zero => cases hap
    | succ n =>
      change applyStep (evalN n) f ws σ = _ at hap
      have nonproc : (∀ p, f ≠ .prim p) → (∀ a b c d, f ≠ .closure a b c d) →
          SR (atomData ops E B) h σ' ∧ Evolves (atomData ops E B) l h σ.store h σ'.store ∧
          ((ops.callee h vf = .other ∧ specClass c = .notProcedure) ∨
           ∃ id e', ops.callee h vf = .builtin id ∧ ops.builtinKind h id = .generic ∧
             builtinResult ops h id vs.reverse = .err e' ∧ machClass e' = specClass c) := by
        intro hp hcl
        have hthrow : applyStep (evalN n) f ws σ = .err .notProcedure σ := by
          cases f <;> first | rfl | exact absurd rfl (hp _) | exact absurd rfl (hcl _ _ _ _)
        rw [hthrow] at hap
        injection hap with h1 h2
        subst h1 h2
        refine ⟨hsr, Evolves.refl _ _ _, .inl ⟨?_, rfl⟩⟩
        have hnp := cell_nonProc hcv hp
        rcases hv with rfl | ⟨q, rfl, hg⟩
        · exact AE.callee_other_imm h _ hnp
        · exact AE.callee_other_ptr h q (by rw [hg]; exact hnp)
      cases f with
      | prim p =>
        simp only [AtomEnc.cell, Option.map_eq_some_iff] at hcv
        obtain ⟨id, hid, rfl⟩ := hcv
        rw [applyStep_prim_fo _ _ _ (A.prim_fo p id hid)] at hap
        obtain ⟨hk, e', hres, hcl, hsr', hev⟩ := AE.builtin_err h σ p id vs ws c σ' l hsr hid hvs hap hcs
        refine ⟨hsr', hev, .inr ⟨id, e', ?_, hk, hres, hcl⟩⟩
        rcases hv with rfl | ⟨q, rfl, hg⟩
        · exact A.callee_imm h id
        · exact A.callee_ptr h q id hg
      | closure a b c d => simp [AtomEnc.cell] at hcv
      | bool b => exact nonproc (by intro p e; cases e) (by intro a b c d e; cases e)
      | char ch => exact nonproc (by intro p e; cases e) (by intro a b c d e; cases e)
      | nil => exact nonproc (by intro p e; cases e) (by intro a b c d e; cases e)
      | int i => exact nonproc (by intro p e; cases e) (by intro a b c d e; cases e)
      | str t => exact nonproc (by intro p e; cases e) (by intro a b c d e; cases e)
      | sym t => exact nonproc (by intro p e; cases e) (by intro a b c d e; cases e)
      | void => exact nonproc (by intro p e; cases e) (by intro a b c d e; cases e)
      | pair a => simp [AtomEnc.cell] at hcv
      | vec a => simp [AtomEnc.cell] at hcv
      | promise a => simp [AtomEnc.cell] at hcv
      | undef => simp [AtomEnc.cell] at hcv

/-- the dispatch part of `AtomErrLaws` holds on the concrete heap; the failing-builtin part is a parameter,
    like the builtins themselves -/
theorem concrete_atomErrLaws (ext : ExtOps) (E : AtomEnc) (named : Text → Prop) (slot : Text → Nat)
    (hb : ∀ h (σ : SSt) p id vs ws c (σ' : SSt) l,
      SR (atomData (concreteOps ext) E (concreteBase ext named slot)) h σ → E.prim p = some id →
      All2 (atomVR (concreteOps ext) E h σ.store) vs ws → applyPrim1 p ws σ = .err c σ' → c ≠ .syntax →
      (concreteOps ext).builtinKind h id = .generic ∧
      ∃ e', builtinResult (concreteOps ext) h id vs.reverse = .err e' ∧ machClass e' = specClass c ∧
        SR (atomData (concreteOps ext) E (concreteBase ext named slot)) h σ' ∧
        Evolves (atomData (concreteOps ext) E (concreteBase ext named slot)) l h σ.store h σ'.store) :
    AtomErrLaws (concreteOps ext) E (concreteBase ext named slot) where
  callee_other_imm := by
    intro h c hc
    cases c <;> first | rfl | exact absurd hc (by simp [nonProcCell])
  callee_other_ptr := by
    intro h p hnp
    show Concrete.callee h (.ptr p) = _
    have hnp' : nonProcCell (Concrete.getAt h p) := hnp
    unfold Concrete.getAt at hnp'
    unfold Concrete.callee
    cases hc : h.cells[p]? with
    | none => simp only [hc]
    | some c =>
      simp only [hc] at hnp' ⊢
      cases c with
      | val v => cases v <;> first | rfl | exact absurd hnp' (by simp [nonProcCell, Concrete.repr])
      | lexEnv s => rfl
      | vector s => rfl
      | lambda s => exact absurd hnp' (by simp [nonProcCell, Concrete.repr])
      | cont s => exact absurd hnp' (by simp [nonProcCell, Concrete.repr])
  builtin_err := hb

/-! ## a worked failure: `(if (set! g #t) (g) 1)` -/

/-- loaded code from a list of cells -/
theorem CodeAt.ofAll2 {D : RepData ops} {h : H} {S : Array Cell} {l base : Nat} {code : List BC} (vs : List VCell)
    (hl : ops.isLambda h l = true) (hf : ∀ i, i < vs.length → ops.fetch h l (base + i) = vs[i]?)
    (h2 : All2 (Loads D h S) code vs) : CodeAt D h S l base code := by
  refine ⟨hl, ?_⟩
  induction h2 generalizing base with
  | nil => intro i bc hi; simp at hi
  | @cons bc v code vs hb _ ih =>
    intro i bc' hi
    cases i with
    | zero =>
      simp at hi; subst hi
      exact ⟨v, by rw [hf 0 (by simp)]; rfl, hb⟩
    | succ j =>
      simp at hi
      have := ih (base := base + 1) (fun k hk => by
        have := hf (k + 1) (by simp; omega)
        rw [show base + 1 + k = base + (k + 1) by omega, this]; simp) j bc' hi
      rwa [show base + 1 + j = base + (j + 1) by omega] at this

def k_g : Text := ['g']

def errExpr : Datum :=
  Datum.ofList [.sym Spec.Eval.k_if_, Datum.ofList [.sym Spec.Eval.k_setBang, .sym k_g, .bool true],
    Datum.ofList [.sym k_g], .num (.fix 1)]

def errCode : List BC :=
  [.op .movImm, .datum (.bool true), .acc, .op .mov, .acc, .global k_g, .op .movImm, .void, .acc,
   .op .jnt, .target 19,
   .op .pushImm, .argc 0, .op .mov, .global k_g, .acc, .op .callAcc,
   .op .jmp, .target 22,
   .op .movImm, .datum (.num (.fix 1)), .acc]

def errCells : List VCell :=
  [.opcode .movImm, .bool true, .acc, .opcode .mov, .acc, .globSlot 0, .opcode .movImm, .void, .acc,
   .opcode .jnt, .ptr 19,
   .opcode .pushImm, .argc 0, .opcode .mov, .globSlot 0, .acc, .opcode .callAcc,
   .opcode .jmp, .ptr 22,
   .opcode .movImm, .opaque "n1", .acc]

def errHeap : CHeap :=
  { chunk := 1, cells := #[.lambda ⟨errCells, [], []⟩], gc := #[.allocated], free := [], symtab := [],
    globSyms := [], globals := #[.bool false] }

def errState : MSt CHeap :=
  { heap := errHeap, stack := ⟨[.undefined, .undefined, .undefined, .undefined], 0⟩, acc := .undefined,
    ep := 0, ipL := 0, ipO := 0, bp := 0 }

def errSpecSt : SSt := { globals := [(k_g, .bool false)], store := #[], out := [] }
def errSpecSt' : SSt := { globals := [(k_g, .bool true)], store := #[], out := [] }

theorem errExpr_frag : Frag errExpr := by
  refine .if3 _ _ _ (.setBang _ _ (.bool true)) (.app _ _ ⟨by decide, ?_⟩ (.sym _) .nil) (.num _)
  intro x hx; cases hx; decide

theorem errExpr_compile : compileExpr 4 {} c0 0 false errExpr = .ok ({}, errCode) := by
  simp [compileExpr, compileArgs, errExpr, errCode, k_g, Datum.isSymStr, emitLoc, Ctx.bindingLocation, c0,
    isPrimitive, primitiveSymbols, Datum.ofList, Spec.Eval.k_if_, Spec.Eval.k_setBang, Datum.isNil, Datum.isList,
    Datum.iter, storeCode]

theorem errExpr_eval : (evalN 4).eval errExpr [] errSpecSt = .err .notProcedure errSpecSt' := by
  rfl

/-- the encoding used by the demo: integers are tagged `n<decimal>` -/
def demoEnc : AtomEnc := ⟨fun i => "n" ++ toString i, fun _ => "c", fun _ => "s", fun _ => "y", fun _ => none⟩

theorem demo_err_runs (ext : ExtOps) :
    ∃ sf e', ErrRun (atomData (concreteOps ext) demoEnc (concreteBase ext (fun x => x = k_g) (fun _ => 0)))
      errState errSpecSt errSpecSt' .notProcedure sf e' ∧ e' = .invalidProcedure := by
  have A := concrete_atomLaws_noPrims ext (fun i => "n" ++ toString i) (fun _ => "c") (fun _ => "s") (fun _ => "y")
    (fun x => x = k_g) (fun _ => 0) (by intro a b ha hb _; rw [ha, hb])
  have AE : AtomErrLaws (concreteOps ext) demoEnc (concreteBase ext (fun x => x = k_g) (fun _ => 0)) :=
    concrete_atomErrLaws ext demoEnc _ _ (by intro h σ p id vs ws c σ' l _ hp; cases hp)
  have hset : ∀ x ∈ setTargets errExpr, errSpecSt'.globals.lookup x ≠ none := by
    intro x hx
    have : x = k_g := by simpa [errExpr, Datum.ofList, setTargets, setHead] using hx
    subst this
    decide
  have hcode : CodeAt (atomData (concreteOps ext) demoEnc (concreteBase ext (fun x => x = k_g) (fun _ => 0)))
      errState.heap errSpecSt.store errState.ipL 0 errCode := by
    refine CodeAt.ofAll2 errCells rfl (fun i _ => by rw [Nat.zero_add]; rfl) ?_
    have hb : Loads (atomData (concreteOps ext) demoEnc (concreteBase ext (fun x => x = k_g) (fun _ => 0)))
        errState.heap errSpecSt.store (.datum (.bool true)) (.bool true) :=
      ⟨(by intro o h; cases h), (by intro w hw; cases hw; exact ⟨.bool true, rfl, .inl rfl⟩)⟩
    have hn : Loads (atomData (concreteOps ext) demoEnc (concreteBase ext (fun x => x = k_g) (fun _ => 0)))
        errState.heap errSpecSt.store (.datum (.num (.fix 1))) (.opaque "n1") :=
      ⟨(by intro o h; cases h), (by intro w hw; cases hw; exact ⟨.opaque "n1", by decide, .inl rfl⟩)⟩
    have hg : Loads (atomData (concreteOps ext) demoEnc (concreteBase ext (fun x => x = k_g) (fun _ => 0)))
        errState.heap errSpecSt.store (.global k_g) (.globSlot 0) := ⟨rfl, rfl⟩
    exact .cons rfl (.cons hb (.cons rfl (.cons rfl (.cons rfl (.cons hg (.cons rfl (.cons rfl (.cons rfl
      (.cons rfl (.cons rfl (.cons rfl (.cons rfl (.cons rfl (.cons hg (.cons rfl (.cons rfl (.cons rfl
      (.cons rfl (.cons rfl (.cons hn (.cons rfl .nil)))))))))))))))))))))
  have hsr : SR (atomData (concreteOps ext) demoEnc (concreteBase ext (fun x => x = k_g) (fun _ => 0)))
      errState.heap errSpecSt := by
    refine ⟨?_, ?_, ?_⟩
    · intro x w hx hl
      cases (show x = k_g from hx)
      have : w = .bool false := by
        have : errSpecSt.globals.lookup k_g = some (.bool false) := by decide
        rw [this] at hl; injection hl with hl; exact hl.symm
      subst this
      exact ⟨.bool false, rfl, .inl rfl⟩
    · intro x hx hl
      cases (show x = k_g from hx)
      have : errSpecSt.globals.lookup k_g = some (.bool false) := by decide
      rw [this] at hl; cases hl
    · intro x hx
      show 0 < 1
      omega
  obtain ⟨sf, e', r⟩ := compileExpr_correct_err (atomLaws_repLaws A) (atomErrLaws_errLaws A AE)
    4 {} 0 false errExpr {} errCode errExpr_frag errExpr_compile 4 errSpecSt .notProcedure errSpecSt'
    errExpr_eval (by decide) hset errState hcode rfl hsr (by show 0 < 4; omega)
  refine ⟨sf, e', r, ?_⟩
  have hc := r.cls
  cases e' <;> simp [machClass, specClass] at hc ⊢
  split at hc <;> cases hc

end Marwood.Lemmas.CompileCorrect
