import Marwood.Store.Compare
/-!
# `equal?` after the repair dfd9e81 agrees with the pinned one wherever that one returns (C14 / C06)

`Pinned.equal` (no set of visited locations) returns on exactly the comparisons that do not run round a
cycle for ever. Claim: whenever `Pinned.equal n s l r` is not `diverge`, `equal f s l r` is the same outcome
— the same boolean, error class or panic site — for every `f ≥ n` (`equal_agrees`). So on acyclic data
(trees, DAGs with sharing) nothing changed.

Why cutting a branch at a pair of locations `(a, b)` met again is harmless: a pair of locations in `seen` is
either *done* — the comparison of the contents of `a` and `b` has run to the end with `true` (a `false`
anywhere ends the whole comparison) — or *in progress* further up the call stack. The pinned comparison
of an in-progress pair needs strictly more fuel than every call below it gets (take the least fuel on which
it returns), so below it the pinned function cannot return on that pair again: if it returns at all, the
pair is done, and done pairs compare `true` on both sides.
Core Lean only.
-/
namespace Marwood.Store
open Outcome

/-! ## information order on outcomes; the pinned functions are monotone in the fuel -/

/-- `x` is out of fuel or already the final answer `y` -/
def Le {α} (x y : Outcome α) : Prop := x = .diverge ∨ x = y

theorem Le.refl {α} (x : Outcome α) : Le x x := .inr rfl

theorem Le.trans {α} {x y z : Outcome α} (h1 : Le x y) (h2 : Le y z) : Le x z := by
  rcases h1 with rfl | rfl
  · exact .inl rfl
  · exact h2

theorem Le.bind {α β} {x x' : Outcome α} {g g' : α → Outcome β} (h1 : Le x x') (h2 : ∀ a, Le (g a) (g' a)) :
    Le (x >>= g) (x' >>= g') := by
  rcases h1 with rfl | rfl
  · exact .inl rfl
  · cases x with
    | ok a => exact h2 a
    | err e => exact .inr rfl
    | panic m => exact .inr rfl
    | diverge => exact .inl rfl

theorem Le.eq_of_ne {α} {x y : Outcome α} (h : Le x y) (hx : x ≠ .diverge) : x = y := by
  rcases h with h | h
  · exact absurd h hx
  · exact h

theorem pinned_step (s : Store) : ∀ f : Nat,
    (∀ l r, Le (Pinned.equal f s l r) (Pinned.equal (f+1) s l r)) ∧
    (∀ l r, Le (Pinned.comparePair f s l r) (Pinned.comparePair (f+1) s l r)) ∧
    (∀ xs ys, Le (Pinned.compareVector f s xs ys) (Pinned.compareVector (f+1) s xs ys)) := by
  intro f
  induction f with
  | zero => exact ⟨fun _ _ => .inl rfl, fun _ _ => .inl rfl, fun _ _ => .inl rfl⟩
  | succ f ih =>
    obtain ⟨ihE, ihP, ihV⟩ := ih
    refine ⟨?_, ?_, ?_⟩
    · intro l r
      unfold Pinned.equal
      refine Le.bind (Le.refl _) (fun b => ?_)
      cases b
      · simp only [Bool.false_eq_true, if_false]
        refine Le.bind (Le.refl _) (fun l' => Le.bind (Le.refl _) (fun r' => ?_))
        split
        · exact ihP _ _
        · refine Le.bind (Le.refl _) (fun xs => Le.bind (Le.refl _) (fun ys => ?_))
          by_cases h : (xs.length != ys.length) = true
          · rw [if_pos h, if_pos h]; exact Le.refl _
          · rw [if_neg h, if_neg h]; exact ihV _ _
        · exact Le.refl _
        · exact Le.refl _
      · simp only [if_true]; exact Le.refl _
    · intro l r
      unfold Pinned.comparePair
      by_cases h : (!l.isPair || !r.isPair) = true
      · rw [if_pos h, if_pos h]; exact ihE _ _
      · rw [if_neg h, if_neg h]
        refine Le.bind (Le.refl _) (fun lcar => Le.bind (Le.refl _) (fun rcar => Le.bind (ihE _ _) (fun b => ?_)))
        cases b
        · simp only [Bool.not_false, if_true]; exact Le.refl _
        · simp only [Bool.not_true, Bool.false_eq_true, if_false]
          exact Le.bind (Le.refl _) (fun _ => Le.bind (Le.refl _) (fun _ => Le.bind (Le.refl _) (fun _ =>
            Le.bind (Le.refl _) (fun _ => ihP _ _))))
    · intro xs ys
      cases xs with
      | nil => simp only [Pinned.compareVector]; exact Le.refl _
      | cons x xs' =>
        cases ys with
        | nil => simp only [Pinned.compareVector]; exact Le.refl _
        | cons y ys' =>
          simp only [Pinned.compareVector]
          refine Le.bind (ihE _ _) (fun b => ?_)
          cases b
          · simp only [Bool.not_false, if_true]; exact Le.refl _
          · simp only [Bool.not_true, Bool.false_eq_true, if_false]; exact ihV _ _

theorem pinned_mono (s : Store) {f g : Nat} (h : f ≤ g) :
    (∀ l r, Le (Pinned.equal f s l r) (Pinned.equal g s l r)) ∧
    (∀ l r, Le (Pinned.comparePair f s l r) (Pinned.comparePair g s l r)) ∧
    (∀ xs ys, Le (Pinned.compareVector f s xs ys) (Pinned.compareVector g s xs ys)) := by
  induction h with
  | refl => exact ⟨fun _ _ => Le.refl _, fun _ _ => Le.refl _, fun _ _ => Le.refl _⟩
  | @step m _ ih =>
    obtain ⟨h1, h2, h3⟩ := pinned_step s m
    exact ⟨fun l r => (ih.1 l r).trans (h1 l r), fun l r => (ih.2.1 l r).trans (h2 l r),
      fun xs ys => (ih.2.2 xs ys).trans (h3 xs ys)⟩

/-! ## the comparison of the contents of two locations -/

/-- what pinned `equal` runs on two references `a`, `b` once `eqv` has said no and both cells are pairs, or
    both vectors: the comparison of their contents (anything else is never recorded) -/
def Pinned.contents (f : Nat) (s : Store) (a b : Nat) : Outcome Bool := do
  let cl ← s.get (.ptr a)
  let cr ← s.get (.ptr b)
  match cl, cr with
  | .pair _ _, .pair _ _ => Pinned.comparePair f s cl cr
  | .vec i, .vec j => do
    let xs ← s.vecGet i
    let ys ← s.vecGet j
    if xs.length != ys.length then .ok false else Pinned.compareVector f s xs ys
  | _, _ => .ok true

theorem contents_step (s : Store) (a b f : Nat) : Le (Pinned.contents f s a b) (Pinned.contents (f+1) s a b) := by
  unfold Pinned.contents
  refine Le.bind (Le.refl _) (fun cl => Le.bind (Le.refl _) (fun cr => ?_))
  split
  · exact (pinned_step s f).2.1 _ _
  · refine Le.bind (Le.refl _) (fun xs => Le.bind (Le.refl _) (fun ys => ?_))
    by_cases h : (xs.length != ys.length) = true
    · rw [if_pos h, if_pos h]; exact Le.refl _
    · rw [if_neg h, if_neg h]; exact (pinned_step s f).2.2 _ _
  · exact Le.refl _

theorem contents_mono (s : Store) (a b : Nat) {f g : Nat} (h : f ≤ g) :
    Le (Pinned.contents f s a b) (Pinned.contents g s a b) := by
  induction h with
  | refl => exact Le.refl _
  | step _ ih => exact ih.trans (contents_step s a b _)

theorem contents_pair {s : Store} {a b x y x' y' : Nat} (ha : s.get (.ptr a) = .ok (.pair x y))
    (hb : s.get (.ptr b) = .ok (.pair x' y')) (f : Nat) :
    Pinned.contents f s a b = Pinned.comparePair f s (.pair x y) (.pair x' y') := by
  simp only [Pinned.contents, ha, hb, bind_ok]

theorem contents_vec {s : Store} {a b i j : Nat} (ha : s.get (.ptr a) = .ok (.vec i))
    (hb : s.get (.ptr b) = .ok (.vec j)) (f : Nat) :
    Pinned.contents f s a b = (do
      let xs ← s.vecGet i
      let ys ← s.vecGet j
      if xs.length != ys.length then .ok false else Pinned.compareVector f s xs ys) := by
  simp only [Pinned.contents, ha, hb, bind_ok]

/-- the least fuel on which the comparison of the contents returns -/
theorem contents_least (s : Store) (a b : Nat) : ∀ n, Pinned.contents n s a b ≠ .diverge →
    ∃ m, m ≤ n ∧ Pinned.contents m s a b = Pinned.contents n s a b ∧
      (m = 0 ∨ Pinned.contents (m - 1) s a b = .diverge)
  | 0, _ => ⟨0, Nat.le_refl _, rfl, .inl rfl⟩
  | n+1, h => by
    by_cases hd : Pinned.contents n s a b = .diverge
    · exact ⟨n+1, Nat.le_refl _, rfl, .inr (by simpa using hd)⟩
    · obtain ⟨m, hm, he, hl⟩ := contents_least s a b n hd
      refine ⟨m, by omega, ?_, hl⟩
      rw [he]
      exact (contents_step s a b n).eq_of_ne hd

/-! ## the invariant of `seen` -/

/-- *done*: the comparison of the contents has returned `true` -/
def Done (s : Store) (p : Nat × Nat) : Prop := ∃ g, Pinned.contents g s p.1 p.2 = .ok true

/-- *in progress* relative to a call that runs on fuel `k`: the comparison of the contents does not return
    on less -/
def Stuck (s : Store) (k : Nat) (p : Nat × Nat) : Prop := k = 0 ∨ Pinned.contents (k - 1) s p.1 p.2 = .diverge

def Inv (s : Store) (k : Nat) (seen : Seen) : Prop := ∀ p ∈ seen, Done s p ∨ Stuck s k p

theorem Stuck.down {s : Store} {k k' : Nat} {p : Nat × Nat} (h : Stuck s k p) (hk : k' ≤ k) : Stuck s k' p := by
  unfold Stuck at *
  rcases h with rfl | h
  · exact .inl (by omega)
  · rcases contents_mono s p.1 p.2 (show k' - 1 ≤ k - 1 by omega) with h' | h'
    · exact .inr h'
    · exact .inr (by rw [h']; exact h)

theorem Inv.down {s : Store} {k k' : Nat} {seen : Seen} (h : Inv s k seen) (hk : k' ≤ k) : Inv s k' seen :=
  fun p hp => (h p hp).imp id (fun hs => hs.down hk)

theorem Inv.nil (s : Store) (k : Nat) : Inv s k [] := by intro p hp; cases hp

/-- a pair of locations in `seen` on which the contents comparison returns with fuel `k` is done: the
    answer is `true` -/
theorem Inv.hit {s : Store} {k : Nat} {seen : Seen} (h : Inv s (k+1) seen) {a b : Nat} (hm : (a, b) ∈ seen) :
    Pinned.contents k s a b = .diverge ∨ Pinned.contents k s a b = .ok true := by
  rcases h (a, b) hm with ⟨g, hg⟩ | hs
  · rcases Nat.le_total g k with hgk | hgk
    · rcases contents_mono s a b hgk with h' | h'
      · rw [hg] at h'; cases h'
      · exact .inr (h'.symm.trans hg)
    · rcases contents_mono s a b hgk with h' | h'
      · exact .inl h'
      · exact .inr (h'.trans hg)
  · rcases hs with h0 | hs
    · omega
    · exact .inl (by simpa using hs)

/-! ## agreement of outcomes -/

/-- the repaired function's outcome `x` against the pinned one's `r`: nothing is claimed where the pinned
    one is out of fuel; otherwise the same boolean / error / panic, and when the answer is `true` every
    pair of locations added to `seen` is done -/
def Ag (s : Store) (seen : Seen) : Outcome Bool → Outcome (Bool × Seen) → Prop
  | .diverge, _ => True
  | .ok b, .ok (b', seen') => b' = b ∧ (b = true → ∀ p ∈ seen', p ∈ seen ∨ Done s p)
  | .err e, .err e' => e' = e
  | .panic m, .panic m' => m' = m
  | _, _ => False

theorem Ag.ok (s : Store) (seen : Seen) (b : Bool) : Ag s seen (.ok b) (.ok (b, seen)) :=
  ⟨rfl, fun _ p hp => .inl hp⟩

theorem Ag.ok_false (s : Store) (seen seen' : Seen) : Ag s seen (.ok false) (.ok (false, seen')) :=
  ⟨rfl, fun h => by cases h⟩

theorem Ag.div (s : Store) (seen : Seen) (x) : Ag s seen .diverge x := trivial

/-- the same prefix on both sides -/
theorem Ag.bind_same {α} {s : Store} {seen : Seen} (x : Outcome α) {g : α → Outcome Bool}
    {g' : α → Outcome (Bool × Seen)} (h : ∀ a, x = .ok a → Ag s seen (g a) (g' a)) :
    Ag s seen (x >>= g) (x >>= g') := by
  cases x with
  | ok a => exact h a rfl
  | err e => exact rfl
  | panic m => exact rfl
  | diverge => trivial

theorem Ag.weaken {s : Store} {seen seen1 : Seen} {r x} (h : Ag s seen1 r x)
    (hs : r = .ok true → ∀ p ∈ seen1, p ∈ seen ∨ Done s p) : Ag s seen r x := by
  cases r with
  | diverge => trivial
  | ok b =>
    cases x with
    | ok a =>
      obtain ⟨b', seen'⟩ := a
      exact ⟨h.1, fun hb p hp => (h.2 hb p hp).elim (hs (by rw [hb]) p) .inr⟩
    | _ => exact h
  | err e => cases x <;> exact h
  | panic m => cases x <;> exact h

/-- a call on both sides, then the rest -/
theorem Ag.bind_call {s : Store} {seen : Seen} {r : Outcome Bool} {x : Outcome (Bool × Seen)}
    {k : Bool → Outcome Bool} {k' : Bool × Seen → Outcome (Bool × Seen)} (h : Ag s seen r x)
    (hk : ∀ b seen1, r = .ok b → x = .ok (b, seen1) → (b = true → ∀ p ∈ seen1, p ∈ seen ∨ Done s p) →
      Ag s seen (k b) (k' (b, seen1))) :
    Ag s seen (r >>= k) (x >>= k') := by
  cases r with
  | diverge => trivial
  | ok b =>
    cases x with
    | ok a =>
      obtain ⟨b', seen1⟩ := a
      obtain ⟨rfl, h2⟩ := h
      exact hk _ seen1 rfl rfl h2
    | _ => exact h.elim
  | err e =>
    cases x with
    | err e' => cases (show e' = e from h); exact rfl
    | _ => exact h.elim
  | panic m =>
    cases x with
    | panic m' => cases (show m' = m from h); exact rfl
    | _ => exact h.elim

/-- the invariant survives a call that answered `true` -/
theorem Inv.extend {s : Store} {k : Nat} {seen seen1 : Seen} (h : Inv s k seen)
    (hs : ∀ p ∈ seen1, p ∈ seen ∨ Done s p) : Inv s k seen1 :=
  fun p hp => (hs p hp).elim (h p) .inl

/-- **a pair of locations recorded for the first time**: if the repaired computation `x` agrees with the
    contents comparison on every fuel `m ≤ k` — under the invariant that has `(a, b)` in progress — then it
    agrees on fuel `k` under the invariant without it -/
theorem Ag.fresh {s : Store} {k : Nat} {seen : Seen} {a b : Nat} {x : Outcome (Bool × Seen)}
    (hinv : Inv s (k+1) seen)
    (run : ∀ m, m ≤ k → Inv s m ((a, b) :: seen) → Ag s ((a, b) :: seen) (Pinned.contents m s a b) x) :
    Ag s seen (Pinned.contents k s a b) x := by
  by_cases hd : Pinned.contents k s a b = .diverge
  · rw [hd]; trivial
  · obtain ⟨m, hmk, he, hl⟩ := contents_least s a b k hd
    have hst : Stuck s m (a, b) := hl
    have hi : Inv s m ((a, b) :: seen) := by
      intro p hp
      simp only [List.mem_cons] at hp
      rcases hp with rfl | hp
      · exact .inr hst
      · exact (hinv p hp).imp id (fun hs => hs.down (by omega))
    have h := run m hmk hi
    rw [he] at h
    refine h.weaken ?_
    intro ht p hp
    simp only [List.mem_cons] at hp
    rcases hp with rfl | hp
    · exact .inr ⟨k, ht⟩
    · exact .inl hp

theorem Ag.eqv_tail (s : Store) (seen : Seen) (x : Outcome Bool) :
    Ag s seen x (x >>= fun b => .ok (b, seen)) := by
  cases x with
  | ok b => exact Ag.ok s seen b
  | err e => exact rfl
  | panic m => exact rfl
  | diverge => trivial

theorem visit_cases (seen : Seen) (a b : Nat) :
    (seen.visit a b = none ∧ (a, b) ∈ seen) ∨ seen.visit a b = some ((a, b) :: seen) := by
  unfold Seen.visit
  by_cases h : seen.contains (a, b) = true
  · rw [if_pos h]; exact .inl ⟨rfl, by simpa using h⟩
  · rw [if_neg h]; exact .inr rfl

theorem record_cases (seen : Seen) (l r : VCell) :
    (∃ a b, l = .ptr a ∧ r = .ptr b ∧ seen.record l r = seen.visit a b) ∨ seen.record l r = some seen := by
  cases l <;> cases r <;> simp [Seen.record]

/-! ## the three loops agree -/

theorem agree_all (s : Store) : ∀ k : Nat,
    (∀ seen l r f, k ≤ f → Inv s k seen → Ag s seen (Pinned.equal k s l r) (equalSeen f s seen l r)) ∧
    (∀ seen l r f, k ≤ f → Inv s k seen →
      Ag s seen (Pinned.comparePair k s l r) (comparePairSeen f s seen l r)) ∧
    (∀ seen xs ys f, k ≤ f → Inv s k seen →
      Ag s seen (Pinned.compareVector k s xs ys) (compareVectorSeen f s seen xs ys)) := by
  intro k
  induction k using Nat.strongRecOn with
  | _ k ih =>
    cases k with
    | zero => exact ⟨fun _ _ _ _ _ _ => trivial, fun _ _ _ _ _ _ => trivial, fun _ _ _ _ _ _ => trivial⟩
    | succ k =>
      have ihk := ih k (Nat.lt_succ_self k)
      refine ⟨?_, ?_, ?_⟩
      · -- `equal`
        intro seen l r f hf hinv
        obtain ⟨f', rfl⟩ : ∃ f', f = f' + 1 := ⟨f - 1, by omega⟩
        have hf' : k ≤ f' := by omega
        have hinvk : Inv s k seen := hinv.down (by omega)
        -- the vector arm, for any `seen0` and fuel level `m`
        have vecArm : ∀ (m : Nat) (seen0 : Seen) (i j : Nat), m ≤ k → Inv s m seen0 →
            Ag s seen0
              (do let xs ← s.vecGet i
                  let ys ← s.vecGet j
                  if xs.length != ys.length then .ok false else Pinned.compareVector m s xs ys)
              (do let xs ← s.vecGet i
                  let ys ← s.vecGet j
                  if xs.length != ys.length then .ok (false, seen0) else compareVectorSeen f' s seen0 xs ys) := by
          intro m seen0 i j hm hi
          refine Ag.bind_same _ (fun xs _ => Ag.bind_same _ (fun ys _ => ?_))
          by_cases h : (xs.length != ys.length) = true
          · rw [if_pos h, if_pos h]; exact Ag.ok s seen0 false
          · rw [if_neg h, if_neg h]; exact (ih m (by omega)).2.2 seen0 xs ys f' (by omega) hi
        unfold Pinned.equal equalSeen
        refine Ag.bind_same _ (fun b _ => ?_)
        cases b
        · simp only [Bool.false_eq_true, if_false]
          refine Ag.bind_same _ (fun l' hl' => Ag.bind_same _ (fun r' hr' => ?_))
          split
          · -- two pairs
            rename_i x y x' y'
            rcases record_cases seen l r with ⟨a, b, rfl, rfl, hrec⟩ | hrec
            · have ha : s.get (.ptr a) = .ok (.pair x y) := hl'
              have hb : s.get (.ptr b) = .ok (.pair x' y') := hr'
              rw [hrec, ← contents_pair ha hb k]
              rcases visit_cases seen a b with ⟨hv, hm⟩ | hv
              · rw [hv]
                rcases hinv.hit hm with h | h <;> rw [h]
                · trivial
                · exact Ag.ok s seen true
              · rw [hv]
                refine Ag.fresh hinv (fun m hm hi => ?_)
                rw [contents_pair ha hb m]
                exact (ih m (by omega)).2.1 _ _ _ f' (by omega) hi
            · rw [hrec]
              exact ihk.2.1 seen _ _ f' hf' hinvk
          · -- two vectors
            rename_i i j
            rcases record_cases seen l r with ⟨a, b, rfl, rfl, hrec⟩ | hrec
            · have ha : s.get (.ptr a) = .ok (.vec i) := hl'
              have hb : s.get (.ptr b) = .ok (.vec j) := hr'
              rw [hrec]
              rcases visit_cases seen a b with ⟨hv, hm⟩ | hv
              · rw [hv, ← contents_vec ha hb k]
                rcases hinv.hit hm with h | h <;> rw [h]
                · trivial
                · exact Ag.ok s seen true
              · rw [hv, ← contents_vec ha hb k]
                refine Ag.fresh hinv (fun m hm hi => ?_)
                rw [contents_vec ha hb m]
                exact vecArm m _ i j hm hi
            · rw [hrec]
              exact vecArm k seen i j (Nat.le_refl _) hinvk
          · exact Ag.bind_same _ (fun _ _ => Ag.bind_same _ (fun _ _ => Ag.ok s seen _))
          · exact Ag.eqv_tail s seen _
        · simp only [if_true]; exact Ag.ok s seen true
      · -- `compare_pair`
        intro seen l r f hf hinv
        obtain ⟨f', rfl⟩ : ∃ f', f = f' + 1 := ⟨f - 1, by omega⟩
        have hf' : k ≤ f' := by omega
        have hinvk : Inv s k seen := hinv.down (by omega)
        unfold Pinned.comparePair comparePairSeen
        by_cases h : (!l.isPair || !r.isPair) = true
        · rw [if_pos h, if_pos h]; exact ihk.1 seen l r f' hf' hinvk
        · rw [if_neg h, if_neg h]
          cases l with
          | pair a d =>
            cases r with
            | pair a' d' =>
              simp only [VCell.asCar_pair, VCell.asCdr_pair, bind_ok, VCell.asPtr_ptr]
              refine Ag.bind_call (ihk.1 seen (.ptr a) (.ptr a') f' hf' hinvk) (fun b seen1 _ _ hs1 => ?_)
              cases b
              · simp only [Bool.not_false, if_true]; exact Ag.ok_false s seen seen1
              · simp only [Bool.not_true, Bool.false_eq_true, if_false]
                have hinv1 : Inv s (k+1) seen1 := hinv.extend (hs1 rfl)
                refine Ag.bind_same _ (fun l' hl' => Ag.bind_same _ (fun r' hr' => ?_))
                refine Ag.weaken ?_ (fun _ => hs1 rfl)
                by_cases hb : (l'.isPair && r'.isPair) = true
                · rw [if_pos hb]
                  cases l' with
                  | pair x y =>
                    cases r' with
                    | pair x' y' =>
                      rw [← contents_pair hl' hr' k]
                      rcases visit_cases seen1 d d' with ⟨hv, hm⟩ | hv
                      · rw [hv]
                        rcases hinv1.hit hm with h | h <;> rw [h]
                        · trivial
                        · exact Ag.ok s seen1 true
                      · rw [hv]
                        refine Ag.fresh hinv1 (fun m hm hi => ?_)
                        rw [contents_pair hl' hr' m]
                        exact (ih m (by omega)).2.1 _ _ _ f' (by omega) hi
                    | _ => simp [VCell.isPair] at hb
                  | _ => simp [VCell.isPair] at hb
                · rw [if_neg hb]
                  exact ihk.2.1 seen1 l' r' f' hf' (hinv1.down (by omega))
            | _ => simp [VCell.isPair] at h
          | _ => simp [VCell.isPair] at h
      · -- `compare_vector`
        intro seen xs ys f hf hinv
        obtain ⟨f', rfl⟩ : ∃ f', f = f' + 1 := ⟨f - 1, by omega⟩
        have hf' : k ≤ f' := by omega
        have hinvk : Inv s k seen := hinv.down (by omega)
        cases xs with
        | nil => simp only [Pinned.compareVector, compareVectorSeen]; exact Ag.ok s seen true
        | cons x xs' =>
          cases ys with
          | nil => simp only [Pinned.compareVector, compareVectorSeen]; exact rfl
          | cons y ys' =>
            simp only [Pinned.compareVector, compareVectorSeen]
            refine Ag.bind_call (ihk.1 seen x y f' hf' hinvk) (fun b seen1 _ _ hs1 => ?_)
            cases b
            · simp only [Bool.not_false, if_true]; exact Ag.ok_false s seen seen1
            · simp only [Bool.not_true, Bool.false_eq_true, if_false]
              exact (ihk.2.2 seen1 xs' ys' f' hf' (hinvk.extend (hs1 rfl))).weaken (fun _ => hs1 rfl)

/-- **the repaired `equal?` agrees with the pinned one wherever that one returns**: the same boolean, the
    same error, the same panic — in particular on every acyclic structure (trees, lists, vectors, with or
    without sharing) nothing changed -/
theorem equal_agrees {s : Store} {n : Nat} {l r : VCell} (h : Pinned.equal n s l r ≠ .diverge) {f : Nat}
    (hf : n ≤ f) : equal f s l r = Pinned.equal n s l r := by
  have hA := (agree_all s n).1 [] l r f hf (Inv.nil s n)
  unfold equal
  cases hp : Pinned.equal n s l r with
  | diverge => exact absurd hp h
  | ok b =>
    rw [hp] at hA
    cases hx : equalSeen f s [] l r with
    | ok a => obtain ⟨b', sn⟩ := a; rw [hx] at hA; simp only [bind_ok]; rw [hA.1]
    | err e => rw [hx] at hA; exact hA.elim
    | panic m => rw [hx] at hA; exact hA.elim
    | diverge => rw [hx] at hA; exact hA.elim
  | err e =>
    rw [hp] at hA
    cases hx : equalSeen f s [] l r with
    | err e' => rw [hx] at hA; cases (show e' = e from hA); rfl
    | ok a => rw [hx] at hA; exact hA.elim
    | panic m => rw [hx] at hA; exact hA.elim
    | diverge => rw [hx] at hA; exact hA.elim
  | panic m =>
    rw [hp] at hA
    cases hx : equalSeen f s [] l r with
    | panic m' => rw [hx] at hA; cases (show m' = m from hA); rfl
    | ok a => rw [hx] at hA; exact hA.elim
    | err e => rw [hx] at hA; exact hA.elim
    | diverge => rw [hx] at hA; exact hA.elim

end Marwood.Store
