import Marwood.Lemmas.CompileCorrect3ToyLaws
import Marwood.Lemmas.CompileCorrect3Main
import Marwood.Lemmas.CompileCorrect2Demo
/-!
# T01.3 stage 3 — every hypothesis discharged for a rest parameter and for an internal definition

On the heap of `CompileCorrect3Toy.lean` (lambda 0 at address 0, the top-level code at address 1; no closure
environment yet: `cenvs = []`) all hypotheses
of `compileExpr_correct3_nontail` hold for

* `((lambda (a . r) r) 1 2 3)` — the compiler model emits `VARARG; ENTER; MOV <env r> acc; RET` for lambda 0;
  VARARG puts the surplus arguments on the heap (`put`) and conses them up, ENTER builds the activation
  `[1, <list>]`; `acc` ends as a pointer to a heap pair whose car shows `2`, representing the store list `(2 3)`;
* `((lambda (x) (define y (if x 1 2)) y) #t)` — lambda 0 has the environment map `[x ↦ Argument 0, y ↦ Internal]`;
  ENTER leaves the slot of `y` `Undefined`, the definition assigns it, the body reads it: `acc` ends showing `1`.
-/
namespace Marwood.Lemmas.CompileCorrect3.Toy
open Marwood Marwood.Vm Marwood.Lemmas.CompileCorrect Marwood.Lemmas.CompileCorrect2
  Marwood.Lemmas.CompileCorrect3
open Marwood.Spec.Eval (Val Cell evalN k_lambda k_if_)

def ka : Text := ['a']
def kr : Text := ['r']
def kx : Text := ['x']
def ky : Text := ['y']

def demoSt : SSt := { globals := [], store := #[], out := [] }

def W0 : World := fun _ _ _ => False

theorem loads_num (D : RepData2 tops) (hD : D.VR = tVRc3) (n : Int) (k : Num) (hk : atomVal (.num k) = some (.int n))
    (tag : String) (ht : tag = "n" ++ toString n) (h : THeap) (S : Array Cell) (em : List (Text × Source)) :
    Loads2 D em h S (.datum (.num k)) (.opaque tag) := by
  refine ⟨(by intro o e; cases e), .atom hk ?_⟩
  rw [hD]; subst ht
  exact .base rfl

/-! ## a rest parameter: `((lambda (a . r) r) 1 2 3)` -/

def formalsR : Datum := .pair (.sym ka) (.sym kr)

def lamR : Datum := .pair (.sym k_lambda) (.pair formalsR (.pair (.sym kr) .nil))

def progR : Datum := Datum.ofList [lamR, .num (.fix 1), .num (.fix 2), .num (.fix 3)]

def lamCtxR : Ctx := ⟨[ka, kr], [(ka, .argument 0), (kr, .argument 1)]⟩

def bodyCodeR : List BC := [.op .mov, .envSlot kr, .acc]

def partsR : LambdaParts :=
  { formals := [ka, kr], isVararg := true, ctx := lamCtxR, prologue := [.op .varArg, .op .enter],
    body := .pair (.sym kr) .nil }

def demoLamR : LambdaM := lamOf partsR bodyCodeR

def progCodeR : List BC :=
  [.op .movImm, .datum (.num (.fix 1)), .acc, .op .pushAcc,
   .op .movImm, .datum (.num (.fix 2)), .acc, .op .pushAcc,
   .op .movImm, .datum (.num (.fix 3)), .acc, .op .pushAcc,
   .op .pushImm, .argc 3, .op .movImm, .lambda 0, .acc, .op .closureAcc, .op .callAcc]

theorem demoR_parts : lambdaParts 18 c0 lamR false = .ok partsR := by rfl

theorem demoR_compile : compileExpr 20 {} c0 0 false progR = .ok ({ lambdas := [demoLamR] }, progCodeR) :=
  CompileCorrect2.Toy.okIs_eq (by decide +kernel)

def cellsR0 : List VCell :=
  [.opcode .varArg, .opcode .enter, .opcode .mov, .lexEnvSlot 1, .acc, .opcode .ret]

def cellsR1 : List VCell :=
  [.opcode .movImm, .opaque "n1", .acc, .opcode .pushAcc,
   .opcode .movImm, .opaque "n2", .acc, .opcode .pushAcc,
   .opcode .movImm, .opaque "n3", .acc, .opcode .pushAcc,
   .opcode .pushImm, .argc 3, .opcode .movImm, .ptr 0, .acc, .opcode .closureAcc, .opcode .callAcc]

def demoHeapR : THeap :=
  { lams := [⟨cellsR0, 2, [.arg 0, .arg 1]⟩, ⟨cellsR1, 0, []⟩], envs := #[], cells := #[], globals := #[] }

def demoStateR : MSt THeap :=
  { heap := demoHeapR, stack := ⟨List.replicate 16 .undefined, 0⟩, acc := .undefined, ep := 0, ipL := 1, ipO := 0,
    bp := 0 }

/-- the specification's final state: `a`, the list `(2 3)` (allocated from the tail), `r` -/
def demoStR' : SSt :=
  { globals := []
    store := #[.var (.int 1), .pair (.int 3) .nil, .pair (.int 2) (.pair 1), .var (.pair 2)]
    out := [] }

theorem demoR_eval : (evalN 8).eval progR [] demoSt = .ok (.pair 2) demoStR' := by rfl

abbrev demoDR : RepData2 tops := tD3 [demoLamR]

theorem demoR_frag : F3 (fun _ => False) 20 c0 (bound []) (fun _ => False) false progR := by
  have hr : inEnv lamCtxR kr = true := by decide
  refine F3.app lamR _ ⟨by decide, by intro x h; cases h⟩ ?_
    (F3L.cons _ _ (F3.num _) (F3L.cons _ _ (F3.num _) (F3L.cons _ _ (F3.num _) F3L.nil)))
  refine F3.lambda formalsR _ partsR [ka] (some kr) [] [] demoR_parts (by rfl) rfl rfl (by decide) rfl
    (by intro q hq; cases hq) ?_
  exact F3B.last _ rfl (F3.sym kr ⟨fun _ => .inl (by decide), fun _ => hr⟩ (by intro h; cases h))

theorem demoR_final_get {id : Nat} {lamM : LambdaM} (h : ([demoLamR] : List LambdaM)[id]? = some lamM) :
    id = 0 ∧ lamM = demoLamR := by
  match id, h with
  | 0, h => exact ⟨rfl, by injection h with e; exact e.symm⟩
  | n + 1, h => simp at h

theorem demoR_code0 (S : Array Cell) : CodeAt2 demoDR lamCtxR.envmap demoHeapR S 0 0 demoLamR.bc := by
  refine CompileCorrect2.Toy.CodeAt2.ofAll2 cellsR0 rfl (fun i _ => by rw [Nat.zero_add]; rfl) ?_
  have hslot : Loads2 demoDR lamCtxR.envmap demoHeapR S (.envSlot kr) (.lexEnvSlot 1) := ⟨1, by decide, rfl⟩
  exact .cons rfl (.cons rfl (.cons rfl (.cons hslot (.cons rfl (.cons rfl .nil)))))

theorem demoR_code1 (S : Array Cell) : CodeAt2 demoDR c0.envmap demoHeapR S 1 0 progCodeR := by
  refine CompileCorrect2.Toy.CodeAt2.ofAll2 cellsR1 rfl (fun i _ => by rw [Nat.zero_add]; rfl) ?_
  have n1 := loads_num demoDR rfl 1 (.fix 1) rfl "n1" (by decide) demoHeapR S c0.envmap
  have n2 := loads_num demoDR rfl 2 (.fix 2) rfl "n2" (by decide) demoHeapR S c0.envmap
  have n3 := loads_num demoDR rfl 3 (.fix 3) rfl "n3" (by decide) demoHeapR S c0.envmap
  have hlam : Loads2 demoDR c0.envmap demoHeapR S (.lambda 0) (.ptr 0) := by
    refine ⟨rfl, fun lamM hl => ?_⟩
    obtain ⟨_, rfl⟩ := demoR_final_get hl
    exact ⟨rfl, rfl⟩
  exact .cons rfl (.cons n1 (.cons rfl (.cons rfl (.cons rfl (.cons n2 (.cons rfl (.cons rfl (.cons rfl (.cons n3
    (.cons rfl (.cons rfl (.cons rfl (.cons rfl (.cons rfl (.cons hlam (.cons rfl (.cons rfl (.cons rfl
    .nil))))))))))))))))))

theorem demoR_inv : Inv3 demoDR W0 demoHeapR demoSt := by
  refine ⟨(by intro x w h; cases h), (by intro x h; cases h), ⟨keepB_nil _, fun _ h => absurd h List.not_mem_nil⟩,
    (by intro x h; cases h), ?_,
    (by intro e n l l' h; cases h),
    (by intro e n e' n' l h; cases h), (by intro e n l h; cases h), (by intro e n l h; cases h)⟩
  intro id lamM hid
  obtain ⟨rfl, rfl⟩ := demoR_final_get hid
  exact ⟨demoR_code0 _, rfl⟩

/-- **Non-vacuity of stage 3, rest parameter**: the machine run of `((lambda (a . r) r) 1 2 3)` exists
    (CLOSURE, CALL, VARARG, ENTER, the lexical load of `r`, RET) and ends with a representation of the store
    list `(2 3)`. -/
theorem demo_vararg_runs :
    ∃ W' s', Run3 demoDR W' demoStateR 19 demoSt demoStR' (.pair 2) s' := by
  obtain ⟨W', s', _, r⟩ := compileExpr_correct3_nontail (laws3 [demoLamR]) 20 {} c0 0 progR _ progCodeR []
    (fun _ => False) demoR_frag ctxOK_top demoR_compile (List.prefix_refl _) 8 demoSt (.pair 2) demoStR' demoR_eval
    W0 demoStateR (demoR_code1 _) rfl demoR_inv (envRep3_top _ _ _ _) (by show 0 < 16; omega)
  exact ⟨W', s', r⟩

/-- … in particular `acc` shows a heap pair whose car shows the number `2` and whose cdr shows a heap pair
    (car `3`, cdr `()`) -/
theorem demo_vararg_acc :
    ∃ W' s', Run3 demoDR W' demoStateR 19 demoSt demoStR' (.pair 2) s' ∧
      ∃ pa pd pa' pd', tDeref s'.heap s'.acc = .pair pa pd ∧ tDeref s'.heap (.ptr pa) = .opaque "n2" ∧
        tDeref s'.heap (.ptr pd) = .pair pa' pd' ∧ tDeref s'.heap (.ptr pa') = .opaque "n3" ∧
        tDeref s'.heap (.ptr pd') = .nil := by
  obtain ⟨W', s', r⟩ := demo_vararg_runs
  refine ⟨W', s', r, ?_⟩
  obtain ⟨a, d, pa, pd, hs, hd, h1, h2⟩ := tVR3_pair r.acc
  have hs' : demoStR'.store[2]? = some (.pair (.int 2) (.pair 1)) := rfl
  rw [hs'] at hs
  injection hs with hs; injection hs with ea ed
  subst ea ed
  obtain ⟨a', d', pa', pd', hs2, hd2, h3, h4⟩ := tVR3_pair h2
  have hs2' : demoStR'.store[1]? = some (.pair (.int 3) .nil) := rfl
  rw [hs2'] at hs2
  injection hs2 with hs2; injection hs2 with ea' ed'
  subst ea' ed'
  refine ⟨pa, pd, pa', pd', hd, tVR3_int h1, hd2, tVR3_int h3, ?_⟩
  cases h4 with
  | base hb => exact tVRc3_nil hb

/-! ## an internal definition: `((lambda (x) (define y (if x 1 2)) y) #t)` -/

def ifE : Datum := Datum.ofList [.sym k_if_, .sym kx, .num (.fix 1), .num (.fix 2)]

def bodyD : Datum := .pair (defForm ky ifE) (.pair (.sym ky) .nil)

def lamD : Datum := .pair (.sym k_lambda) (.pair (Datum.ofList [.sym kx]) bodyD)

def progD : Datum := Datum.ofList [lamD, .bool true]

def lamCtxD : Ctx := ⟨[kx], [(kx, .argument 0), (ky, .internal)]⟩

def bodyCodeD : List BC :=
  [.op .mov, .envSlot kx, .acc, .op .jnt, .target 11, .op .movImm, .datum (.num (.fix 1)), .acc,
   .op .jmp, .target 14, .op .movImm, .datum (.num (.fix 2)), .acc,
   .op .mov, .acc, .envSlot ky, .op .movImm, .void, .acc,
   .op .mov, .envSlot ky, .acc]

def partsD : LambdaParts :=
  { formals := [kx], isVararg := false, ctx := lamCtxD, prologue := [.op .enter], body := bodyD }

def demoLamD : LambdaM := lamOf partsD bodyCodeD

def progCodeD : List BC :=
  [.op .movImm, .datum (.bool true), .acc, .op .pushAcc, .op .pushImm, .argc 1,
   .op .movImm, .lambda 0, .acc, .op .closureAcc, .op .callAcc]

theorem demoD_parts : lambdaParts 18 c0 lamD false = .ok partsD := by rfl

theorem demoD_compile : compileExpr 20 {} c0 0 false progD = .ok ({ lambdas := [demoLamD] }, progCodeD) :=
  CompileCorrect2.Toy.okIs_eq (by decide +kernel)

def cellsD0 : List VCell :=
  [.opcode .enter, .opcode .mov, .lexEnvSlot 0, .acc, .opcode .jnt, .ptr 11, .opcode .movImm, .opaque "n1", .acc,
   .opcode .jmp, .ptr 14, .opcode .movImm, .opaque "n2", .acc,
   .opcode .mov, .acc, .lexEnvSlot 1, .opcode .movImm, .void, .acc,
   .opcode .mov, .lexEnvSlot 1, .acc, .opcode .ret]

def cellsD1 : List VCell :=
  [.opcode .movImm, .bool true, .acc, .opcode .pushAcc, .opcode .pushImm, .argc 1,
   .opcode .movImm, .ptr 0, .acc, .opcode .closureAcc, .opcode .callAcc]

def demoHeapD : THeap :=
  { lams := [⟨cellsD0, 1, [.arg 0, .internal]⟩, ⟨cellsD1, 0, []⟩], envs := #[], cells := #[], globals := #[] }

def demoStateD : MSt THeap :=
  { heap := demoHeapD, stack := ⟨List.replicate 8 .undefined, 0⟩, acc := .undefined, ep := 0, ipL := 1, ipO := 0,
    bp := 0 }

/-- the specification's final state: the cells of `x` and `y` -/
def demoStD' : SSt := { globals := [], store := #[.var (.bool true), .var (.int 1)], out := [] }

theorem demoD_eval : (evalN 8).eval progD [] demoSt = .ok (.int 1) demoStD' := by rfl

abbrev demoDD : RepData2 tops := tD3 [demoLamD]

theorem demoD_frag : F3 (fun _ => False) 20 c0 (bound []) (fun _ => False) false progD := by
  have hx : inEnv lamCtxD kx = true := by decide
  have hy : inEnv lamCtxD ky = true := by decide
  refine F3.app lamD _ ⟨by decide, by intro x h; cases h⟩ ?_ (F3L.cons _ _ (F3.bool true) F3L.nil)
  refine F3.lambda (Datum.ofList [.sym kx]) _ partsD [kx] none [ky] [] demoD_parts (by rfl) rfl rfl (by decide) rfl
    (by intro q hq; cases hq) ?_
  refine F3B.defv ky ifE _ _ [] hy (.inl (by decide)) (by rfl) ?_ ?_
  · exact F3.if3 _ _ _ (F3.sym kx ⟨fun _ => .inl (by decide), fun _ => hx⟩ (by decide)) (F3.num _) (F3.num _)
  · exact F3B.last _ rfl (F3.sym ky ⟨fun _ => .inl (by decide), fun _ => hy⟩ (fun h => h.2 rfl))

theorem demoD_final_get {id : Nat} {lamM : LambdaM} (h : ([demoLamD] : List LambdaM)[id]? = some lamM) :
    id = 0 ∧ lamM = demoLamD := by
  match id, h with
  | 0, h => exact ⟨rfl, by injection h with e; exact e.symm⟩
  | n + 1, h => simp at h

theorem demoD_code0 (S : Array Cell) : CodeAt2 demoDD lamCtxD.envmap demoHeapD S 0 0 demoLamD.bc := by
  refine CompileCorrect2.Toy.CodeAt2.ofAll2 cellsD0 rfl (fun i _ => by rw [Nat.zero_add]; rfl) ?_
  have sx : Loads2 demoDD lamCtxD.envmap demoHeapD S (.envSlot kx) (.lexEnvSlot 0) := ⟨0, by decide, rfl⟩
  have sy : Loads2 demoDD lamCtxD.envmap demoHeapD S (.envSlot ky) (.lexEnvSlot 1) := ⟨1, by decide, rfl⟩
  have n1 := loads_num demoDD rfl 1 (.fix 1) rfl "n1" (by decide) demoHeapD S lamCtxD.envmap
  have n2 := loads_num demoDD rfl 2 (.fix 2) rfl "n2" (by decide) demoHeapD S lamCtxD.envmap
  exact .cons rfl (.cons rfl (.cons sx (.cons rfl (.cons rfl (.cons rfl (.cons rfl
    (.cons n1 (.cons rfl (.cons rfl (.cons rfl (.cons rfl (.cons n2 (.cons rfl
    (.cons rfl (.cons rfl (.cons sy (.cons rfl (.cons rfl (.cons rfl
    (.cons rfl (.cons sy (.cons rfl (.cons rfl .nil)))))))))))))))))))))))

theorem demoD_code1 (S : Array Cell) : CodeAt2 demoDD c0.envmap demoHeapD S 1 0 progCodeD := by
  refine CompileCorrect2.Toy.CodeAt2.ofAll2 cellsD1 rfl (fun i _ => by rw [Nat.zero_add]; rfl) ?_
  have hb : Loads2 demoDD c0.envmap demoHeapD S (.datum (.bool true)) (.bool true) :=
    ⟨(by intro o e; cases e), .atom rfl (.base rfl)⟩
  have hlam : Loads2 demoDD c0.envmap demoHeapD S (.lambda 0) (.ptr 0) := by
    refine ⟨rfl, fun lamM hl => ?_⟩
    obtain ⟨_, rfl⟩ := demoD_final_get hl
    exact ⟨rfl, rfl⟩
  exact .cons rfl (.cons hb (.cons rfl (.cons rfl (.cons rfl (.cons rfl (.cons rfl (.cons hlam (.cons rfl
    (.cons rfl (.cons rfl .nil))))))))))

theorem demoD_inv : Inv3 demoDD W0 demoHeapD demoSt := by
  refine ⟨(by intro x w h; cases h), (by intro x h; cases h), ⟨keepB_nil _, fun _ h => absurd h List.not_mem_nil⟩,
    (by intro x h; cases h), ?_,
    (by intro e n l l' h; cases h),
    (by intro e n e' n' l h; cases h), (by intro e n l h; cases h), (by intro e n l h; cases h)⟩
  intro id lamM hid
  obtain ⟨rfl, rfl⟩ := demoD_final_get hid
  exact ⟨demoD_code0 _, rfl⟩

/-- **Non-vacuity of stage 3, internal definition**: the machine run of
    `((lambda (x) (define y (if x 1 2)) y) #t)` exists (CLOSURE, CALL, ENTER with the slot of `y` `Undefined`, the
    definition's expression, the store into `y`, the load of `y`, RET) and ends with a representation of `1`. -/
theorem demo_define_runs :
    ∃ W' s', Run3 demoDD W' demoStateD 11 demoSt demoStD' (.int 1) s' := by
  obtain ⟨W', s', _, r⟩ := compileExpr_correct3_nontail (laws3 [demoLamD]) 20 {} c0 0 progD _ progCodeD []
    (fun _ => False) demoD_frag ctxOK_top demoD_compile (List.prefix_refl _) 8 demoSt (.int 1) demoStD' demoD_eval
    W0 demoStateD (demoD_code1 _) rfl demoD_inv (envRep3_top _ _ _ _) (by show 0 < 8; omega)
  exact ⟨W', s', r⟩

/-- … in particular `acc` shows the number's cell -/
theorem demo_define_acc :
    ∃ W' s', Run3 demoDD W' demoStateD 11 demoSt demoStD' (.int 1) s' ∧ tDeref s'.heap s'.acc = .opaque "n1" := by
  obtain ⟨W', s', r⟩ := demo_define_runs
  exact ⟨W', s', r, tVR3_int r.acc⟩

end Marwood.Lemmas.CompileCorrect3.Toy
