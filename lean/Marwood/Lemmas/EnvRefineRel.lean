import Marwood.Lemmas.EnvRefineMonad
import Marwood.Lemmas.EnvStatic
/-!
# T02.4, part 2: the simulation relation between specification states and model states

`β : Loc → Option (env, slot)` sends a specification location to the value slot that stands for it.
* `HeapRel`: `β` is injective, every location in its domain is a live store cell, the slot it is sent
  to exists, holds no pointer, and holds a related value (an uninitialised location constrains
  nothing but the slot kind: the specification faults on reading it).
* `VRel`: values related up to `β`; a specification closure (text + scope chain) is related to a model
  closure (text + environment map + closure environment) when the map is the compiler model's map
  for that text in some enclosing context whose names agree with the chain, and every captured
  entry of the closure environment is a pointer to the slot `β` assigns to the location the chain
  resolves the name to (`CloFacts`).
* `ChainOK`: every frame of a chain is the image of ONE activation environment, index by index —
  the second half of T02.2: the environment a pointer leads to is the environment ENTER created for
  the activation that binds the name.
* `ActRel`: the same for a running activation (environment map, activation environment, chain).
Everything is monotone in `β` and along `Evolves`.
-/
namespace Marwood.Vm.EnvRefine
open Marwood Marwood.Scope Marwood.Vm.Env Marwood.Spec.Scope

abbrev LocMap := Loc → Option (Nat × Nat)

/-- pointwise relation of two lists (core has no `Forall2`) -/
inductive Forall2 {α β : Type} (R : α → β → Prop) : List α → List β → Prop
  | nil : Forall2 R [] []
  | cons {a b as bs} : R a b → Forall2 R as bs → Forall2 R (a :: as) (b :: bs)

/-- every frame is the image of one activation environment: the `i`-th binding lives in slot `i` -/
def ChainOK (β : LocMap) : Chain → List Nat → Prop
  | [], [] => True
  | fr :: ρ, a :: acts => (∀ i x l, fr[i]? = some (x, l) → β l = some (a, i)) ∧ ChainOK β ρ acts
  | _, _ => False

/-- the names of the enclosing compile-time context agree with the chain -/
structure ScopeOK (octx : LamCtx) (ρ : Chain) : Prop where
  unb : ∀ x, resolve x ρ = none → slotOf octx.envmap x = none
  noarg : ∀ x, slotOf octx.envmap x = none → argIndex octx.args x = none

structure CloFacts (β : LocMap) (h : Envs MVal) (fvs : List Name) (octx ctx : LamCtx) (cenv : Nat)
    (ρ : Chain) (acts : List Nat) (carr : Array (Slot MVal)) : Prop where
  scope : ScopeOK octx ρ
  need : ∀ x ∈ fvs, resolve x ρ ≠ none → slotOf octx.envmap x ≠ none
  env : h.envs[cenv]? = some carr
  size : carr.size = ctx.envmap.length
  ptrs : ∀ (s : Nat) (x : Name) (k : Nat), ctx.envmap[s]? = some (x, Source.iofEnv k) →
    ∃ (l : Loc) (e i : Nat), resolve x ρ = some l ∧ β l = some (e, i) ∧ carr[s]? = some (Slot.ptr e i)
  vals : ∀ (s : Nat) (x : Name) (src : Source), ctx.envmap[s]? = some (x, src) → (∀ k, src ≠ Source.iofEnv k) →
    ∃ g : Slot MVal, carr[s]? = some g ∧ g.isPtr = false
  chain : ChainOK β ρ acts

def CloRel (β : LocMap) (h : Envs MVal) (ps : List Name) (r : Option Name) (ds : Defs) (body : Exprs)
    (ctx : LamCtx) (cenv : Nat) (ρ : Chain) : Prop :=
  ∃ octx sugar acts carr, ctx = compileLam octx sugar ps r ds body ∧
    CloFacts β h (fvLam sugar ps r ds body) octx ctx cenv ρ acts carr

inductive VRel (β : LocMap) (h : Envs MVal) : SVal → MVal → Prop
  | int (n : Nat) : VRel β h (.int n) (.int n)
  | nil : VRel β h .nil .nil
  | void : VRel β h .void .void
  | pair {a d : SVal} {a' d' : MVal} : VRel β h a a' → VRel β h d d' → VRel β h (.pair a d) (.pair a' d')
  | clo {ps r ds body ctx cenv ρ} : CloRel β h ps r ds body ctx cenv ρ →
      VRel β h (.clo ps r ds body ρ) (.clo ps r ds body ctx cenv)

/-- the later world: more locations mapped, a later heap -/
structure Ext (β : LocMap) (h : Envs MVal) (β' : LocMap) (h' : Envs MVal) : Prop where
  sub : ∀ l p, β l = some p → β' l = some p
  ev : Evolves h h'

theorem Ext.refl (β : LocMap) (h : Envs MVal) : Ext β h β h := ⟨fun _ _ hp => hp, Evolves.refl h⟩

theorem Ext.trans {β1 β2 β3 : LocMap} {h1 h2 h3 : Envs MVal} (a : Ext β1 h1 β2 h2) (b : Ext β2 h2 β3 h3) :
    Ext β1 h1 β3 h3 := ⟨fun l p hp => b.sub l p (a.sub l p hp), a.ev.trans b.ev⟩

theorem ChainOK.mono {β β' : LocMap} (hs : ∀ l p, β l = some p → β' l = some p) :
    ∀ (ρ : Chain) (acts : List Nat), ChainOK β ρ acts → ChainOK β' ρ acts
  | [], [], _ => trivial
  | fr :: ρ, a :: acts, h => ⟨fun i x l hi => hs _ _ (h.1 i x l hi), ChainOK.mono hs ρ acts h.2⟩
  | [], _ :: _, h => h.elim
  | _ :: _, [], h => h.elim

theorem CloFacts.mono {β β' : LocMap} {h h' : Envs MVal} (e : Ext β h β' h') {fvs octx ctx cenv ρ acts carr}
    (c : CloFacts β h fvs octx ctx cenv ρ acts carr) :
    ∃ carr', CloFacts β' h' fvs octx ctx cenv ρ acts carr' := by
  obtain ⟨carr', hc', hsz, hslots⟩ := e.ev.2 cenv carr c.env
  refine ⟨carr', c.scope, c.need, hc', hsz.trans c.size, ?_, ?_, ChainOK.mono e.sub _ _ c.chain⟩
  · intro s x k he
    obtain ⟨l, e', i, hr, hb, hp⟩ := c.ptrs s x k he
    obtain ⟨g', hg', hm⟩ := hslots s _ hp
    simp only at hm
    subst hm
    exact ⟨l, e', i, hr, e.sub _ _ hb, hg'⟩
  · intro s x src he hn
    obtain ⟨g, hg, hnp⟩ := c.vals s x src he hn
    obtain ⟨g', hg', hm⟩ := hslots s g hg
    refine ⟨g', hg', ?_⟩
    cases g <;> simp_all [Slot.isPtr]

theorem CloRel.mono {β β' : LocMap} {h h' : Envs MVal} (e : Ext β h β' h') {ps r ds body ctx cenv ρ}
    (c : CloRel β h ps r ds body ctx cenv ρ) : CloRel β' h' ps r ds body ctx cenv ρ := by
  obtain ⟨octx, sugar, acts, carr, hctx, hf⟩ := c
  obtain ⟨carr', hf'⟩ := hf.mono e
  exact ⟨octx, sugar, acts, carr', hctx, hf'⟩

theorem VRel.mono {β β' : LocMap} {h h' : Envs MVal} (e : Ext β h β' h') {v : SVal} {v' : MVal}
    (r : VRel β h v v') : VRel β' h' v v' := by
  induction r with
  | int n => exact .int n
  | nil => exact .nil
  | void => exact .void
  | pair _ _ iha ihd => exact .pair iha ihd
  | clo c => exact .clo (c.mono e)

theorem VRel.ne_undef {β : LocMap} {h : Envs MVal} {v : SVal} {v' : MVal} (r : VRel β h v v') : v ≠ .undef := by
  cases r <;> simp

theorem VRel.ne_undef' {β : LocMap} {h : Envs MVal} {v : SVal} {v' : MVal} (r : VRel β h v v') : v' ≠ .undef := by
  cases r <;> simp

theorem VRel.ofList {β : LocMap} {h : Envs MVal} {vs : List SVal} {vs' : List MVal}
    (r : Forall2 (VRel β h) vs vs') : VRel β h (Val.ofList vs) (Vm.EnvRun.Val.ofList vs') := by
  induction r with
  | nil => exact .nil
  | cons hv _ ih => exact .pair hv ih

/-! ## heaps -/

def SlotRel (β : LocMap) (h : Envs MVal) (sv : SVal) (g : Slot MVal) : Prop :=
  g.isPtr = false ∧ (sv = .undef ∨ ∃ mv, g = .val mv ∧ VRel β h sv mv)

theorem SlotRel.mono {β β' : LocMap} {h h' : Envs MVal} (e : Ext β h β' h') {sv g}
    (r : SlotRel β h sv g) : SlotRel β' h' sv g :=
  ⟨r.1, r.2.elim Or.inl fun ⟨mv, hg, hv⟩ => Or.inr ⟨mv, hg, hv.mono e⟩⟩

structure HeapRel (β : LocMap) (store : Array SVal) (h : Envs MVal) : Prop where
  slot : ∀ l e i, β l = some (e, i) → ∃ sv arr g, store[l]? = some sv ∧ h.envs[e]? = some arr ∧
    arr[i]? = some g ∧ SlotRel β h sv g
  inj : ∀ l l' p, β l = some p → β l' = some p → l = l'

structure GlobRel (β : LocMap) (h : Envs MVal) (s : SSt) (t : MSt) : Prop where
  bound : ∀ x l, s.globals.find? x = some l → β l = none ∧ ∃ sv mv, s.store[l]? = some sv ∧
    t.globals.find? (·.1 == x) = some (x, mv) ∧ VRel β h sv mv
  free : ∀ x, s.globals.find? x = none → t.globals.find? (·.1 == x) = none
  inj : ∀ x y l, s.globals.find? x = some l → s.globals.find? y = some l → x = y

def LogRel (β : LocMap) (h : Envs MVal) : List Event → List (Nat × MVal) → Prop :=
  Forall2 fun ev p => ev.site = p.1 ∧ VRel β h ev.val p.2

theorem LogRel.mono {β β' : LocMap} {h h' : Envs MVal} (e : Ext β h β' h') {l l'} (r : LogRel β h l l') :
    LogRel β' h' l l' := by
  induction r with
  | nil => exact .nil
  | cons hv _ ih => exact .cons ⟨hv.1, hv.2.mono e⟩ ih

structure StRel (β : LocMap) (s : SSt) (t : MSt) : Prop where
  counter : s.counter = t.counter
  log : LogRel β t.envs s.log t.log
  glob : GlobRel β t.envs s t
  heap : HeapRel β s.store t.envs
  one : OneLevel t.envs

/-! ## a running activation -/

structure ActRel (β : LocMap) (h : Envs MVal) (N : Name → Prop) (ctx : LamCtx) (ep : Option Nat)
    (ρ : Chain) (acts : List Nat) : Prop where
  res : ∀ x s, slotOf ctx.envmap x = some s → ∃ a l e i, ep = some a ∧ resolve x ρ = some l ∧
    target h a s = .ok (e, i) ∧ β l = some (e, i)
  unb : ∀ x, resolve x ρ = none → slotOf ctx.envmap x = none
  noarg : ∀ x, slotOf ctx.envmap x = none → argIndex ctx.args x = none
  need : ∀ x, N x → resolve x ρ ≠ none → slotOf ctx.envmap x ≠ none
  chain : ChainOK β ρ acts

theorem ActRel.mono {β β' : LocMap} {h h' : Envs MVal} (e : Ext β h β' h') {N ctx ep ρ acts}
    (a : ActRel β h N ctx ep ρ acts) : ActRel β' h' N ctx ep ρ acts := by
  refine ⟨?_, a.unb, a.noarg, a.need, ChainOK.mono e.sub _ _ a.chain⟩
  intro x s hs
  obtain ⟨a', l, e', i, h1, h2, h3, h4⟩ := a.res x s hs
  exact ⟨a', l, e', i, h1, h2, target_stable e.ev _ _ _ h3, e.sub _ _ h4⟩

theorem ActRel.weaken {β : LocMap} {h : Envs MVal} {N N' : Name → Prop} {ctx ep ρ acts}
    (a : ActRel β h N ctx ep ρ acts) (hN : ∀ x, N' x → N x) : ActRel β h N' ctx ep ρ acts :=
  ⟨a.res, a.unb, a.noarg, fun x hx => a.need x (hN x hx), a.chain⟩

/-- the top level: no environment, the empty chain -/
theorem ActRel.top (β : LocMap) (h : Envs MVal) (N : Name → Prop) : ActRel β h N LamCtx.top none [] [] :=
  ⟨fun x s hs => by simp [LamCtx.top, slotOf] at hs, fun _ _ => rfl, fun _ _ => rfl,
   fun x _ hr => absurd rfl hr, trivial⟩

/-- what the compiled reference does, in both cases of `ActRel` -/
theorem ActRel.bindingLocation {β : LocMap} {h : Envs MVal} {N ctx ep ρ acts}
    (a : ActRel β h N ctx ep ρ acts) (x : Name) (hN : N x) :
    (∃ l s ae e i, resolve x ρ = some l ∧ bindingLocation ctx x = .env s ∧ ep = some ae ∧
        target h ae s = .ok (e, i) ∧ β l = some (e, i)) ∨
    (resolve x ρ = none ∧ bindingLocation ctx x = .global) := by
  cases hr : resolve x ρ with
  | none =>
    right
    have h1 := a.unb x hr
    have h2 := a.noarg x h1
    exact ⟨rfl, by simp [Env.bindingLocation, h1, h2]⟩
  | some l =>
    left
    cases hs : slotOf ctx.envmap x with
    | none => exact absurd hs (a.need x hN (by simp [hr]))
    | some s =>
      obtain ⟨ae, l', e, i, h1, h2, h3, h4⟩ := a.res x s hs
      rw [hr] at h2
      cases h2
      exact ⟨l, s, ae, e, i, rfl, by simp [Env.bindingLocation, hs], h1, h3, h4⟩

end Marwood.Vm.EnvRefine
