import Marwood.Lemmas.EvalDerivedShapes
/-!
# T01.2, first half — the prelude's rules rewrite every derived form to the expected term

For every derived form of `Lemmas/EvalDerivedShapes.lean`: the R7RS matcher (`Spec.Match.specExpand`)
with the rules regenerated from `prelude.scm` rewrites the general *use* (arbitrary data as sub-forms,
arbitrary numbers of clauses / bindings / body forms) to the expected expansion. Proved for ALL
sub-forms by symbolic evaluation of `specMatch` / `inst` (generic lemmas on abstract lists in
`namespace Expand`), not by evaluation of instances.

The only closed facts are `Expand.rules_*` (what `rulesOf name` is, by `decide +kernel` on the
regenerated data): a change to `prelude.scm` breaks exactly those.

Side conditions are those needed for the *earlier* rules of the macro not to match:
* `cond`: a non-`else` test where the clause is the last one (`(cond (else => f))` is rule 1), and
  `(t r1 r2 …)` not of the shape `(t => f)`;
* `case`: the key is not a proper list for rules 2–7 (rule 1 rewrites `(case (k …) clause …)`), and
  `(else r1 r2 …)` / `((a …) r1 r2 …)` not of the `=>` shape.
Core Lean only.
-/
namespace Marwood.Spec.Eval.Derived.Expand
open Marwood Marwood.Spec.Match Marwood.Spec.Eval Marwood.Spec.Eval.Prelude Marwood.Spec.Eval.Derived
open Marwood.Transform (cellEq)
set_option linter.unusedSimpArgs false

/-! ## data -/
theorem L_nil : L [] = .nil := rfl
theorem L_cons (x : Datum) (xs : List Datum) : L (x :: xs) = .pair x (L xs) := rfl

theorem cellEq_sym_left (v : Text) (e : Datum) : cellEq (.sym v) e = decide (e = .sym v) := by
  cases e <;> simp [cellEq]
  rename_i w
  by_cases h : v = w
  · simp [h]
  · have : ¬ w = v := fun h' => h h'.symm
    simp [h, this]
theorem cellEq_nil_left (e : Datum) : cellEq .nil e = decide (e = .nil) := by
  cases e <;> simp [cellEq]

theorem spineLen_L (xs : List Datum) : spineLen (L xs) = xs.length := by
  induction xs with
  | nil => rfl
  | cons x xs ih => simp [L_cons, spineLen, ih]

theorem takeSpine_L (xs : List Datum) : takeSpine xs.length (L xs) = xs := by
  induction xs with
  | nil => rfl
  | cons x xs ih => simp [L_cons, takeSpine, ih]

theorem dropSpine_L (xs : List Datum) : dropSpine xs.length (L xs) = .nil := by
  induction xs with
  | nil => rfl
  | cons x xs ih => simp [L_cons, dropSpine, ih]

/-! ## the matcher -/
def noEllHead (c : Ctx) : Datum → Bool
  | .pair q _ => !c.isEllD q
  | _ => true

theorem sm_var (c : Ctx) (v : Text) (e : Datum) (h : c.isVar v = true) :
    specMatch c (.sym v) e = some [(v, .one e)] := by
  simp only [Ctx.isVar, Bool.and_eq_true, Bool.not_eq_true', bne_iff_ne, ne_eq] at h
  unfold specMatch
  simp [h.1.1, h.1.2, h.2]

theorem sm_lit (c : Ctx) (v : Text) (e : Datum) (h : c.isLit v = true) :
    specMatch c (.sym v) e = if e = .sym v then some [] else none := by
  unfold specMatch
  simp [h, cellEq_sym_left]

theorem sm_nil (c : Ctx) (e : Datum) : specMatch c .nil e = if e = .nil then some [] else none := by
  unfold specMatch
  simp [cellEq_nil_left]

theorem sm_cons (c : Ctx) (p rest e1 er : Datum) (h : noEllHead c rest = true) :
    specMatch c (.pair p rest) (.pair e1 er) =
      (specMatch c p e1).bind fun b1 => (specMatch c rest er).bind fun b2 => some (b1 ++ b2) := by
  cases rest with
  | pair q r =>
    simp only [noEllHead, Bool.not_eq_true'] at h
    conv => lhs; unfold specMatch
    simp only [h]
    generalize specMatch c p e1 = m1
    generalize specMatch c (.pair q r) er = m2
    cases m1 <;> cases m2 <;> rfl
  | _ =>
    conv => lhs; unfold specMatch
    dsimp only
    generalize specMatch c p e1 = m1
    generalize specMatch c _ er = m2
    cases m1 <;> cases m2 <;> rfl

theorem sm_cons_nonpair (c : Ctx) (p rest e : Datum) (h : noEllHead c rest = true)
    (he : ∀ a d, e ≠ .pair a d) : specMatch c (.pair p rest) e = none := by
  cases rest with
  | pair q r =>
    simp only [noEllHead, Bool.not_eq_true'] at h
    conv => lhs; unfold specMatch
    simp only [h]
    cases e <;> first | rfl | exact absurd rfl (he _ _)
  | _ =>
    conv => lhs; unfold specMatch
    cases e <;> first | rfl | exact absurd rfl (he _ _)

theorem sm_cons_nil (c : Ctx) (p rest : Datum) (h : noEllHead c rest = true) :
    specMatch c (.pair p rest) .nil = none :=
  sm_cons_nonpair c p rest .nil h (by intro a d h; cases h)

theorem sm_cons_sym (c : Ctx) (p rest : Datum) (v : Text) (h : noEllHead c rest = true) :
    specMatch c (.pair p rest) (.sym v) = none :=
  sm_cons_nonpair c p rest (.sym v) h (by intro a d h; cases h)

theorem sm_ell (c : Ctx) (p q R E : Datum) (hq : c.isEllD q = true) :
    specMatch c (.pair p (.pair q R)) E =
      (if spineLen E < spineLen R then none
       else
        match (takeSpine (spineLen E - spineLen R) E).mapM (fun x => specMatch c p x) with
        | none => none
        | some bs =>
          match specMatch c R (dropSpine (spineLen E - spineLen R) E) with
          | none => none
          | some tb => some (collect (patVars c p) bs ++ tb)) := by
  conv => lhs; unfold specMatch
  simp only [hq, if_true]
  rfl

theorem sm_ell_nil_L (c : Ctx) (p q : Datum) (xs : List Datum) (hq : c.isEllD q = true) :
    specMatch c (.pair p (.pair q .nil)) (L xs) =
      (xs.mapM (fun x => specMatch c p x)).bind fun bs => some (collect (patVars c p) bs) := by
  rw [sm_ell c p q .nil (L xs) hq]
  simp only [spineLen, spineLen_L, Nat.not_lt_zero, if_false, Nat.sub_zero, takeSpine_L, dropSpine_L, sm_nil,
    if_true, List.append_nil]
  cases xs.mapM (fun x => specMatch c p x) <;> rfl

theorem proper_of_dropSpine : ∀ e : Datum, dropSpine (spineLen e) e = .nil → ∃ xs, e = L xs := by
  intro e
  induction e with
  | nil => intro _; exact ⟨[], rfl⟩
  | pair a d _ ihd =>
    intro h
    simp only [spineLen, dropSpine] at h
    obtain ⟨xs, hxs⟩ := ihd h
    exact ⟨a :: xs, by rw [hxs]; rfl⟩
  | _ => intro h; simp [spineLen, dropSpine] at h

theorem sm_ell_nil_improper (c : Ctx) (p q e : Datum) (hq : c.isEllD q = true) (he : ∀ xs, e ≠ L xs) :
    specMatch c (.pair p (.pair q .nil)) e = none := by
  rw [sm_ell c p q .nil e hq]
  simp only [spineLen, Nat.not_lt_zero, if_false, Nat.sub_zero, sm_nil]
  have : dropSpine (spineLen e) e ≠ .nil := fun h => by
    obtain ⟨xs, hxs⟩ := proper_of_dropSpine e h
    exact he xs hxs
  simp only [this, if_false]
  cases (takeSpine (spineLen e) e).mapM (fun x => specMatch c p x) <;> rfl

theorem mapM_some_map {α β : Type} (f : α → Option β) (g : α → β) :
    ∀ xs : List α, (∀ x ∈ xs, f x = some (g x)) → xs.mapM f = some (xs.map g) := by
  intro xs
  induction xs with
  | nil => intro _; rfl
  | cons x xs ih =>
    intro h
    simp only [List.mapM_cons, List.map_cons]
    rw [h x (List.mem_cons_self ..), ih (fun y hy => h y (List.mem_cons_of_mem _ hy))]
    rfl

theorem mapM_map_some {α β γ : Type} (f : β → Option γ) (h : α → β) (g : α → γ) :
    ∀ xs : List α, (∀ x, f (h x) = some (g x)) → (xs.map h).mapM f = some (xs.map g) := by
  intro xs hx
  induction xs with
  | nil => rfl
  | cons x xs ih =>
    simp only [List.mapM_cons, List.map_cons]
    rw [hx x, ih]
    rfl

theorem isEll_of_isVar {c : Ctx} {v : Text} (h : c.isVar v = true) : c.isEllD (.sym v) = false := by
  simp only [Ctx.isVar, Bool.and_eq_true, Bool.not_eq_true'] at h
  exact h.1.2

theorem collect_one (v : Text) (xs : List Datum) :
    collect [v] (xs.map fun x => [(v, MTree.one x)]) = [(v, .many (xs.map .one))] := by
  simp only [collect, List.map_cons, List.map_nil, List.filterMap_map]
  congr 3
  induction xs with
  | nil => rfl
  | cons x xs ih => simp [List.lookup, ih]

theorem collect_two (a b : Text) (hab : a ≠ b) (ps : List (Datum × Datum)) :
    collect [a, b] (ps.map fun p => [(a, MTree.one p.1), (b, MTree.one p.2)]) =
      [(a, .many ((ps.map (·.1)).map .one)), (b, .many ((ps.map (·.2)).map .one))] := by
  have hba : (b == a) = false := by simp [Ne.symm hab]
  simp only [collect, List.map_cons, List.map_nil, List.filterMap_map, List.map_map]
  congr 3
  · induction ps with
    | nil => rfl
    | cons x xs ih => simp [List.lookup, ih]
  · congr 2
    induction ps with
    | nil => rfl
    | cons x xs ih => simp [List.lookup, ih, hba]

theorem sm_ell_var (c : Ctx) (v : Text) (q : Datum) (xs : List Datum) (hq : c.isEllD q = true)
    (hv : c.isVar v = true) :
    specMatch c (.pair (.sym v) (.pair q .nil)) (L xs) = some [(v, .many (xs.map .one))] := by
  rw [sm_ell_nil_L c _ q xs hq, mapM_some_map _ (fun x => [(v, MTree.one x)]) xs (fun x _ => sm_var c v x hv)]
  simp only [Option.bind_some, patVars, hv, if_true, collect_one]

theorem bindingList_nil : bindingList [] = .nil := rfl
theorem bindingList_cons (p : Datum × Datum) (ps : List (Datum × Datum)) :
    bindingList (p :: ps) = .pair (.pair p.1 (.pair p.2 .nil)) (bindingList ps) := rfl

theorem sm_ell_pairvar (c : Ctx) (a b : Text) (q : Datum) (ps : List (Datum × Datum))
    (hq : c.isEllD q = true) (ha : c.isVar a = true) (hb : c.isVar b = true) (hab : a ≠ b) :
    specMatch c (.pair (.pair (.sym a) (.pair (.sym b) .nil)) (.pair q .nil)) (bindingList ps) =
      some [(a, .many ((ps.map (·.1)).map .one)), (b, .many ((ps.map (·.2)).map .one))] := by
  unfold bindingList
  rw [sm_ell_nil_L c _ q _ hq,
    mapM_map_some _ (fun p : Datum × Datum => L [p.1, p.2]) (fun p => [(a, MTree.one p.1), (b, MTree.one p.2)]) ps
      (fun p => by
        have hb' := isEll_of_isVar hb
        simp only [L_cons, L_nil]
        rw [sm_cons c _ _ _ _ (by simp [noEllHead, hb']), sm_var c a _ ha,
          sm_cons c _ _ _ _ (by simp [noEllHead]), sm_var c b _ hb, sm_nil]
        rfl)]
  have hp : patVars c (.pair (.sym a) (.pair (.sym b) .nil)) = [a, b] := by
    simp [patVars, ha, hb]
  simp only [Option.bind_some, hp, collect_two a b hab]

/-! ## instantiation -/
theorem bind_ok {α β : Type} (a : α) (f : α → IRes β) : IRes.bind (.ok a) f = f a := rfl

theorem lookup_hit (k : Text) (v : MTree) (es : Binds) : List.lookup k ((k, v) :: es) = some v := by
  simp [List.lookup]
theorem lookup_miss (a k : Text) (v : MTree) (es : Binds) (h : (a == k) = false) :
    List.lookup a ((k, v) :: es) = List.lookup a es := by
  simp [List.lookup, h]
theorem lookup_nil (a : Text) : List.lookup a ([] : Binds) = none := rfl

/-- instantiating a symbol, by what it is bound to -/
def instSym (c : Ctx) (esc : Bool) (v : Text) : Option MTree → IRes Datum
  | some (.one d) => .ok d
  | some (.many _) => .malformed
  | none => if !esc && c.isEll v then .malformed else .ok (.sym v)

theorem inst_sym (c : Ctx) (esc skip : Bool) (v : Text) (b : Binds) :
    inst c esc skip (.sym v) b = instSym c esc v (b.lookup v) := by
  unfold inst instSym
  rfl
theorem instSym_one (c : Ctx) (esc : Bool) (v : Text) (d : Datum) : instSym c esc v (some (.one d)) = .ok d := rfl
theorem instSym_none (c : Ctx) (v : Text) (h : c.isEll v = false) : instSym c false v none = .ok (.sym v) := by
  simp [instSym, h]
theorem inst_nil (c : Ctx) (esc skip : Bool) (b : Binds) : inst c esc skip .nil b = .ok .nil := by
  unfold inst; rfl
theorem inst_bool (c : Ctx) (esc skip : Bool) (x : Bool) (b : Binds) : inst c esc skip (.bool x) b = .ok (.bool x) := by
  unfold inst; rfl

theorem inst_cons (c : Ctx) (skip : Bool) (x rest : Datum) (b : Binds) (hx : c.isEllD x = false)
    (hr : leadEll c rest = 0) :
    inst c false skip (.pair x rest) b =
      (inst c false false x b).bind fun h => (inst c false false rest b).bind fun t => .ok (.pair h t) := by
  conv => lhs; unfold inst
  simp only [hx, hr, Bool.not_false, Bool.true_and, Bool.false_eq_true, if_false, beq_self_eq_true, if_true]
  generalize inst c false false x b = r1
  generalize inst c false false rest b = r2
  cases r1 <;> cases r2 <;> rfl

theorem inst_skip (c : Ctx) (rest : Datum) (b : Binds) (hr : leadEll c rest = 0) :
    inst c false true rest b = inst c false false rest b := by
  cases rest with
  | pair y r =>
    have hy : c.isEllD y = false := by
      cases h : c.isEllD y with
      | false => rfl
      | true => simp [leadEll, h] at hr
    conv => lhs; unfold inst
    conv => rhs; unfold inst
    simp only [hy, Bool.and_false, Bool.false_eq_true, if_false]
  | _ => conv => lhs; unfold inst
         conv => rhs; unfold inst

theorem inst_rep (c : Ctx) (skip : Bool) (x q rest : Datum) (b : Binds) (hx : c.isEllD x = false)
    (hq : c.isEllD q = true) (hr : leadEll c rest = 0) :
    inst c false skip (.pair x (.pair q rest)) b =
      (instRep (fun b' => inst c false false x b') (tmplSyms x) 1 b).bind fun hs =>
        (inst c false false rest b).bind fun t => .ok (appendSpine hs t) := by
  have hl : leadEll c (.pair q rest) = 1 := by simp [leadEll, hq, hr]
  have h2 : inst c false true (.pair q rest) b = inst c false false rest b := by
    conv => lhs; unfold inst
    simp only [hq, Bool.not_false, Bool.true_and, if_true]
    exact inst_skip c rest b hr
  conv => lhs; unfold inst
  simp only [hx, hl, h2, Bool.not_false, Bool.true_and, Bool.false_eq_true, if_false]
  generalize instRep (fun b' => inst c false false x b') (tmplSyms x) 1 b = r1
  generalize inst c false false rest b = r2
  cases r1 <;> cases r2 <;> rfl

/-! ## one ellipsis after a sub-template -/
def manyOfRes (v : Text) : Option MTree → Option (Text × List MTree)
  | some (.many ts) => some (v, ts)
  | _ => none
theorem manyOfRes_many (v : Text) (ts : List MTree) : manyOfRes v (some (.many ts)) = some (v, ts) := rfl
theorem manyOfRes_one (v : Text) (d : Datum) : manyOfRes v (some (.one d)) = none := rfl
theorem manyOfRes_none (v : Text) : manyOfRes v none = none := rfl

def repOf (b : Binds) : List (Text × List MTree) → IRes (List Binds)
  | [] => .malformed
  | (v0, ts0) :: ms =>
    if ((v0, ts0) :: ms).all (fun m => m.2.length == ts0.length) then
      .ok ((List.range ts0.length).map fun i =>
        (((v0, ts0) :: ms).filterMap fun m => m.2[i]?.map fun t => (m.1, t)) ++ b)
    else .mismatch

theorem repBinds_eq (syms : List Text) (b : Binds) :
    repBinds syms b = repOf b (syms.eraseDups.filterMap fun v => manyOfRes v (b.lookup v)) := by
  unfold repBinds
  generalize hms : List.filterMap _ syms.eraseDups = ms
  have h2 : (syms.eraseDups.filterMap fun v => manyOfRes v (b.lookup v)) = ms := hms
  rw [h2]
  cases ms with
  | nil => rfl
  | cons m ms => cases m; rfl

def rep1 (f : Binds → IRes Datum) (b : Binds) (ms : List (Text × List MTree)) : IRes (List Datum) :=
  (repOf b ms).bind fun bs => mapMI f bs

theorem mapMI_instRep0 (f : Binds → IRes Datum) (syms : List Text) : ∀ bs : List Binds,
    (match mapMI (instRep f syms 0) bs with
      | .ok rs => IRes.ok rs.flatten
      | .mismatch => .mismatch
      | .malformed => .malformed) = mapMI f bs := by
  intro bs
  induction bs with
  | nil => rfl
  | cons x xs ih =>
    rw [mapMI, mapMI, ← ih]
    have h0 : instRep f syms 0 x =
        (match f x with | .ok d => .ok [d] | .mismatch => .mismatch | .malformed => .malformed) := by
      cases h : f x <;> simp [instRep, h]
    rw [h0]
    cases f x with
    | ok d => dsimp only; cases mapMI (instRep f syms 0) xs <;> rfl
    | _ => rfl

theorem instRep_one (f : Binds → IRes Datum) (syms : List Text) (b : Binds) :
    instRep f syms 1 b = rep1 f b (syms.eraseDups.filterMap fun v => manyOfRes v (b.lookup v)) := by
  unfold instRep rep1
  rw [repBinds_eq]
  generalize repOf b _ = r
  cases r with
  | ok bs => exact mapMI_instRep0 f syms bs
  | _ => rfl

theorem mapMI_ok {α β : Type} (g : α → β) (xs : List α) : mapMI (fun x => IRes.ok (g x)) xs = .ok (xs.map g) := by
  induction xs with
  | nil => rfl
  | cons x xs ih => simp [mapMI, ih]

theorem mapMI_ok_id {α : Type} (xs : List α) : mapMI (fun x => IRes.ok x) xs = .ok xs := by
  simpa using mapMI_ok (fun x : α => x) xs

theorem mapMI_map {α β γ : Type} (f : β → IRes γ) (h : α → β) (xs : List α) :
    mapMI f (xs.map h) = mapMI (fun x => f (h x)) xs := by
  induction xs with
  | nil => rfl
  | cons x xs ih => simp [mapMI, ih]

theorem rep1_one (f : Binds → IRes Datum) (b : Binds) (v : Text) (xs : List Datum) :
    rep1 f b [(v, xs.map MTree.one)] = mapMI (fun x => f ((v, .one x) :: b)) xs := by
  have hl : (List.range (xs.map MTree.one).length).map (fun i =>
        ([(v, xs.map MTree.one)].filterMap fun m => m.2[i]?.map fun t => (m.1, t)) ++ b) =
      xs.map fun x => (v, MTree.one x) :: b := by
    apply List.ext_getElem
    · simp
    · intro i h1 h2
      simp at h1
      simp [h1]
  unfold rep1 repOf
  simp only [List.all_cons, List.all_nil, beq_self_eq_true, Bool.and_true, if_true, bind_ok, hl, mapMI_map]

theorem rep1_two (f : Binds → IRes Datum) (b : Binds) (v w : Text) (ps : List (Datum × Datum)) :
    rep1 f b [(v, (ps.map (·.1)).map MTree.one), (w, (ps.map (·.2)).map MTree.one)] =
      mapMI (fun p => f ((v, .one p.1) :: (w, .one p.2) :: b)) ps := by
  have hl : (List.range ps.length).map (fun i =>
        ([(v, (ps.map (·.1)).map MTree.one), (w, (ps.map (·.2)).map MTree.one)].filterMap
          fun m => m.2[i]?.map fun t => (m.1, t)) ++ b) =
      ps.map fun p => (v, MTree.one p.1) :: (w, MTree.one p.2) :: b := by
    apply List.ext_getElem
    · simp
    · intro i h1 h2
      simp at h1
      simp [h1]
  unfold rep1 repOf
  simp only [List.all_cons, List.all_nil, beq_self_eq_true, Bool.and_self, if_true, bind_ok,
    List.length_map]
  rw [hl, mapMI_map]

theorem appendSpine_nil (xs : List Datum) : appendSpine xs .nil = L xs := by
  induction xs with
  | nil => rfl
  | cons x xs ih => simp [appendSpine, L_cons, ih]

theorem L_append (xs ys : List Datum) : L (xs ++ ys) = appendSpine xs (L ys) := by
  induction xs with
  | nil => rfl
  | cons x xs ih => simp [appendSpine, L_cons, ih]

theorem ed1 (a : Text) : [a].eraseDups = [a] := by simp [List.eraseDups_cons]
theorem ed2 (a b : Text) (h : (b == a) = false) : [a, b].eraseDups = [a, b] := by
  simp [List.eraseDups_cons, h]
theorem ed3 (a b c : Text) (h1 : (b == a) = false) (h2 : (c == a) = false) (h3 : (c == b) = false) :
    [a, b, c].eraseDups = [a, b, c] := by
  simp [List.eraseDups_cons, h1, h2, h3]

/-! ## the rules of the regenerated prelude (closed facts: a change to `prelude.scm` breaks exactly these) -/
def ell3 : Text := ['.', '.', '.']
/-- `(syntax-rules () …)` -/
def c0 : Ctx := ⟨ell3, []⟩
/-- `(syntax-rules (else =>) …)` -/
def c2 : Ctx := ⟨ell3, [k_else_, k_arrow]⟩
def k_letrecStar : Text := ['l', 'e', 't', 'r', 'e', 'c', '*']
def v_name : Text := ['n', 'a', 'm', 'e']
def v_val : Text := ['v', 'a', 'l']
def v_body1 : Text := ['b', 'o', 'd', 'y', '1']
def v_body2 : Text := ['b', 'o', 'd', 'y', '2']
def v_tag : Text := ['t', 'a', 'g']
def v_init1 : Text := ['i', 'n', 'i', 't', '1']
def v_test : Text := ['t', 'e', 's', 't']
def v_test1 : Text := ['t', 'e', 's', 't', '1']
def v_test2 : Text := ['t', 'e', 's', 't', '2']
def v_result : Text := ['r', 'e', 's', 'u', 'l', 't']
def v_result1 : Text := ['r', 'e', 's', 'u', 'l', 't', '1']
def v_result2 : Text := ['r', 'e', 's', 'u', 'l', 't', '2']
def v_exp : Text := ['e', 'x', 'p']
def v_name1 : Text := ['n', 'a', 'm', 'e', '1']
def v_val1 : Text := ['v', 'a', 'l', '1']
def v_name2 : Text := ['n', 'a', 'm', 'e', '2']
def v_val2 : Text := ['v', 'a', 'l', '2']
def v_clause : Text := ['c', 'l', 'a', 'u', 's', 'e']
def v_clause1 : Text := ['c', 'l', 'a', 'u', 's', 'e', '1']
def v_clause2 : Text := ['c', 'l', 'a', 'u', 's', 'e', '2']
def v_clauses : Text := ['c', 'l', 'a', 'u', 's', 'e', 's']
def v_key : Text := ['k', 'e', 'y']
def v_atoms : Text := ['a', 't', 'o', 'm', 's']
def v_expression : Text := ['e', 'x', 'p', 'r', 'e', 's', 's', 'i', 'o', 'n']

theorem rules_when : rulesOf k_when_ = some ⟨c0, [
    ⟨L [s k_when_, s v_test, s v_result1, s v_result2, s ell3],
     L [s k_if_, s v_test, L [s k_begin_, s v_result1, s v_result2, s ell3]]⟩]⟩ := by decide +kernel

theorem rules_unless : rulesOf k_unless_ = some ⟨c0, [
    ⟨L [s k_unless_, s v_test, s v_result1, s v_result2, s ell3],
     L [s k_if_, L [s k_not, s v_test], L [s k_begin_, s v_result1, s v_result2, s ell3]]⟩]⟩ := by decide +kernel

theorem rules_begin : rulesOf k_begin_ = some ⟨c0, [
    ⟨L [s k_begin_, s v_exp, s ell3], L [L [s k_lambda, .nil, s v_exp, s ell3]]⟩]⟩ := by decide +kernel

theorem rules_and : rulesOf k_and_ = some ⟨c0, [
    ⟨L [s k_and_], .bool true⟩,
    ⟨L [s k_and_, s v_test], s v_test⟩,
    ⟨L [s k_and_, s v_test1, s v_test2, s ell3],
     L [s k_if_, s v_test1, L [s k_and_, s v_test2, s ell3], .bool false]⟩]⟩ := by decide +kernel

theorem rules_or : rulesOf k_or_ = some ⟨c0, [
    ⟨L [s k_or_], .bool false⟩,
    ⟨L [s k_or_, s v_test], s v_test⟩,
    ⟨L [s k_or_, s v_test1, s v_test2, s ell3],
     L [s k_let_, L [L [s k_var1, s v_test1]], L [s k_if_, s k_var1, s k_var1, L [s k_or_, s v_test2, s ell3]]]⟩]⟩ := by
  decide +kernel

theorem rules_let : rulesOf k_let_ = some ⟨c0, [
    ⟨L [s k_let_, L [L [s v_name, s v_val], s ell3], s v_body1, s v_body2, s ell3],
     L [L [s k_lambda, L [s v_name, s ell3], s v_body1, s v_body2, s ell3], s v_val, s ell3]⟩,
    ⟨L [s k_let_, s v_tag, L [L [s v_name, s v_val], s ell3], s v_body1, s v_body2, s ell3],
     L [L [s k_letrec, L [L [s v_tag, L [s k_lambda, L [s v_name, s ell3], s v_body1, s v_body2, s ell3]]], s v_tag],
        s v_val, s ell3]⟩]⟩ := by decide +kernel

theorem rules_letStar : rulesOf k_letStar = some ⟨c0, [
    ⟨L [s k_letStar, .nil, s v_body1, s v_body2, s ell3], L [s k_let_, .nil, s v_body1, s v_body2, s ell3]⟩,
    ⟨L [s k_letStar, L [L [s v_name1, s v_val1], L [s v_name2, s v_val2], s ell3], s v_body1, s v_body2, s ell3],
     L [s k_let_, L [L [s v_name1, s v_val1]],
        L [s k_letStar, L [L [s v_name2, s v_val2], s ell3], s v_body1, s v_body2, s ell3]]⟩]⟩ := by decide +kernel

theorem rules_letrec : rulesOf k_letrec = some ⟨c0, [
    ⟨L [s k_letrecStar, L [L [s k_var1, s v_init1], s ell3], s v_body1, s v_body2, s ell3],
     L [s k_let_, L [L [s k_var1, .bool false], s ell3], L [s k_setBang, s k_var1, s v_init1], s ell3,
        L [s k_let_, .nil, s v_body1, s v_body2, s ell3]]⟩]⟩ := by decide +kernel

theorem rules_cond : rulesOf k_cond = some ⟨c2, [
    ⟨L [s k_cond, L [s k_else_, s v_result1, s v_result2, s ell3]],
     L [s k_begin_, s v_result1, s v_result2, s ell3]⟩,
    ⟨L [s k_cond, L [s v_test, s k_arrow, s v_result]],
     L [s k_let_, L [L [s k_temp, s v_test]], L [s k_if_, s k_temp, L [s v_result, s k_temp]]]⟩,
    ⟨L [s k_cond, L [s v_test, s k_arrow, s v_result], s v_clause1, s v_clause2, s ell3],
     L [s k_let_, L [L [s k_temp, s v_test]],
        L [s k_if_, s k_temp, L [s v_result, s k_temp], L [s k_cond, s v_clause1, s v_clause2, s ell3]]]⟩,
    ⟨L [s k_cond, L [s v_test]], s v_test⟩,
    ⟨L [s k_cond, L [s v_test], s v_clause1, s v_clause2, s ell3],
     L [s k_let_, L [L [s k_temp, s v_test]],
        L [s k_if_, s k_temp, s k_temp, L [s k_cond, s v_clause1, s v_clause2, s ell3]]]⟩,
    ⟨L [s k_cond, L [s v_test, s v_result1, s v_result2, s ell3]],
     L [s k_if_, s v_test, L [s k_begin_, s v_result1, s v_result2, s ell3]]⟩,
    ⟨L [s k_cond, L [s v_test, s v_result1, s v_result2, s ell3], s v_clause1, s v_clause2, s ell3],
     L [s k_if_, s v_test, L [s k_begin_, s v_result1, s v_result2, s ell3],
        L [s k_cond, s v_clause1, s v_clause2, s ell3]]⟩]⟩ := by decide +kernel

theorem rules_case : rulesOf k_case_ = some ⟨c2, [
    ⟨L [s k_case_, L [s v_key, s ell3], s v_clauses, s ell3],
     L [s k_let_, L [L [s k_atomKey, L [s v_key, s ell3]]], L [s k_case_, s k_atomKey, s v_clauses, s ell3]]⟩,
    ⟨L [s k_case_, s v_key, L [s k_else_, s k_arrow, s v_result]], L [s v_result, s v_key]⟩,
    ⟨L [s k_case_, s v_key, L [s k_else_, s v_result1, s v_result2, s ell3]],
     L [s k_begin_, s v_result1, s v_result2, s ell3]⟩,
    ⟨L [s k_case_, s v_key, L [L [s v_atoms, s ell3], s k_arrow, s v_result]],
     L [s k_if_, L [s k_memv, s v_key, L [s k_quote, L [s v_atoms, s ell3]]], L [s v_result, s v_key]]⟩,
    ⟨L [s k_case_, s v_key, L [L [s v_atoms, s ell3], s v_result1, s v_result2, s ell3]],
     L [s k_if_, L [s k_memv, s v_key, L [s k_quote, L [s v_atoms, s ell3]]],
        L [s k_begin_, s v_result1, s v_result2, s ell3]]⟩,
    ⟨L [s k_case_, s v_key, L [L [s v_atoms, s ell3], s k_arrow, s v_result], s v_clause, s v_clauses, s ell3],
     L [s k_if_, L [s k_memv, s v_key, L [s k_quote, L [s v_atoms, s ell3]]], L [s v_result, s v_key],
        L [s k_case_, s v_key, s v_clause, s v_clauses, s ell3]]⟩,
    ⟨L [s k_case_, s v_key, L [L [s v_atoms, s ell3], s v_result1, s v_result2, s ell3], s v_clause, s v_clauses, s ell3],
     L [s k_if_, L [s k_memv, s v_key, L [s k_quote, L [s v_atoms, s ell3]]],
        L [s k_begin_, s v_result1, s v_result2, s ell3],
        L [s k_case_, s v_key, s v_clause, s v_clauses, s ell3]]⟩]⟩ := by decide +kernel

theorem rules_delay : rulesOf k_delay = some ⟨c0, [
    ⟨L [s k_delay, s v_expression], L [s k_delayForce, L [s k_makePromise, .bool true, s v_expression]]⟩]⟩ := by
  decide +kernel

theorem rules_delayForce : rulesOf k_delayForce = some ⟨c0, [
    ⟨L [s k_delayForce, s v_expression],
     L [s k_makePromise, .bool false, L [s k_lambda, .nil, s v_expression]]⟩]⟩ := by decide +kernel


/-! ## the matcher on `L`-lists -/
theorem L_ne_sym (xs : List Datum) (v : Text) : (L xs = Datum.sym v) = False := by
  cases xs <;> simp [L_cons, L_nil]
theorem L_cons_ne_nil (x : Datum) (xs : List Datum) : (L (x :: xs) = Datum.nil) = False := by
  simp [L_cons]
theorem sym_ne_L (v : Text) (xs : List Datum) : Datum.sym v ≠ L xs := by
  cases xs <;> simp [L_cons, L_nil]

theorem matchRule_L (c : Ctx) (k prest tm u : Datum) (us : List Datum) :
    matchRule c ⟨.pair k prest, tm⟩ (L (u :: us)) = specMatch c prest (L us) := rfl

theorem sm_cons_L (c : Ctx) (p rest e1 : Datum) (er : List Datum) (h : noEllHead c rest = true) :
    specMatch c (.pair p rest) (L (e1 :: er)) =
      (specMatch c p e1).bind fun b1 => (specMatch c rest (L er)).bind fun b2 => some (b1 ++ b2) :=
  sm_cons c p rest e1 (L er) h
theorem sm_cons_L_nil (c : Ctx) (p rest : Datum) (h : noEllHead c rest = true) :
    specMatch c (.pair p rest) (L []) = none := sm_cons_nil c p rest h
theorem sm_nil_L_nil (c : Ctx) : specMatch c .nil (L []) = some [] := by rw [sm_nil]; rfl
theorem sm_nil_L_cons (c : Ctx) (x : Datum) (xs : List Datum) : specMatch c .nil (L (x :: xs)) = none := by
  rw [sm_nil, L_cons]; simp
theorem sm_nil_nil (c : Ctx) : specMatch c .nil .nil = some [] := by rw [sm_nil]; rfl
theorem sm_nil_pair (c : Ctx) (a d : Datum) : specMatch c .nil (.pair a d) = none := by rw [sm_nil]; simp
theorem sm_ell_nil_sym (c : Ctx) (p q : Datum) (v : Text) (hq : c.isEllD q = true) :
    specMatch c (.pair p (.pair q .nil)) (.sym v) = none :=
  sm_ell_nil_improper c p q _ hq (sym_ne_L v)

open Lean.Parser.Tactic in
/-- symbolic evaluation of `specExpand` on a use written with `L`; closed side conditions by `decide` -/
macro "dx_simp" "[" ts:simpLemma,* "]" : tactic =>
  `(tactic| simp (disch := decide) only [specExpand, matchRule_L, s, bindingList_nil, bindingList_cons,
    sm_cons, sm_cons_L, sm_cons_L_nil, sm_cons_nil, sm_cons_sym, sm_var, sm_lit, sm_ell_var, sm_ell_pairvar,
    sm_nil_L_nil, sm_nil_L_cons, sm_nil_nil, sm_nil_pair, sm_ell_nil_sym, L_ne_sym,
    Option.bind_some, Option.bind_none, Option.bind_fun_none, List.cons_append, List.nil_append, List.append_nil,
    reduceCtorEq, if_true, if_false, ↓reduceIte,
    instantiate, inst_cons, inst_rep, inst_sym, inst_nil, inst_bool, lookup_hit, lookup_miss, lookup_nil,
    instSym_one, instSym_none, bind_ok, instRep_one, tmplSyms, ed1, ed2, ed3, List.filterMap_cons,
    List.filterMap_nil, manyOfRes_many, manyOfRes_one, manyOfRes_none, rep1_one, rep1_two, mapMI_ok, mapMI_ok_id,
    appendSpine_nil, $ts,*])

open Lean.Parser.Tactic in
/-- normal form of data built with `L` -/
macro "dx_norm" "[" ts:simpLemma,* "]" : tactic =>
  `(tactic| simp only [L_cons, L_nil, s, bindingList, L_append, appendSpine_nil, List.map_map, Function.comp_def,
    List.map_cons, List.map_nil, $ts,*])

/-- a datum that is neither a pair nor `()` is not a proper list -/
theorem not_list_of_atom {k : Datum} (h1 : ∀ a d, k ≠ .pair a d) (h2 : k ≠ .nil) : ∀ ks, k ≠ L ks := by
  intro ks
  cases ks with
  | nil => exact h2
  | cons x xs => exact h1 x (L xs)

end Marwood.Spec.Eval.Derived.Expand

namespace Marwood.Spec.Eval.Derived
open Marwood Marwood.Spec.Match Marwood.Spec.Eval Marwood.Spec.Eval.Prelude Expand
set_option linter.unusedSimpArgs false

/-! ## the expansions -/
theorem expand_when (t b : Datum) (body : List Datum) :
    expand k_when_ (whenUse t b body) = some (whenExp t b body) := by
  unfold expand; rw [rules_when]; simp only [L_cons, L_nil, s]
  dx_simp [whenUse]
  dx_norm [whenExp]

theorem expand_unless (t b : Datum) (body : List Datum) :
    expand k_unless_ (unlessUse t b body) = some (unlessExp t b body) := by
  unfold expand; rw [rules_unless]; simp only [L_cons, L_nil, s]
  dx_simp [unlessUse]
  dx_norm [unlessExp]

theorem expand_begin (es : List Datum) : expand k_begin_ (beginUse es) = some (beginExp es) := by
  unfold expand; rw [rules_begin]; simp only [L_cons, L_nil, s]
  dx_simp [beginUse]
  dx_norm [beginExp]

theorem expand_and (es : List Datum) : expand k_and_ (andUse es) = some (andExp es) := by
  unfold expand; rw [rules_and]; simp only [L_cons, L_nil, s]
  rcases es with _ | ⟨e, _ | ⟨e2, es⟩⟩
  · dx_simp [andUse]
    dx_norm [andExp]
  · dx_simp [andUse]
    dx_norm [andExp]
  · dx_simp [andUse]
    dx_norm [andExp]

theorem expand_or (es : List Datum) : expand k_or_ (orUse es) = some (orExp es) := by
  unfold expand; rw [rules_or]; simp only [L_cons, L_nil, s]
  rcases es with _ | ⟨e, _ | ⟨e2, es⟩⟩
  · dx_simp [orUse]
    dx_norm [orExp]
  · dx_simp [orUse]
    dx_norm [orExp]
  · dx_simp [orUse]
    dx_norm [orExp]

theorem expand_let (bs : List (Datum × Datum)) (b : Datum) (body : List Datum) :
    expand k_let_ (letUse bs b body) = some (letExp bs b body) := by
  unfold expand; rw [rules_let]; simp only [L_cons, L_nil, s]
  dx_simp [letUse]
  dx_norm [letExp]

theorem expand_namedLet (tag : Text) (bs : List (Datum × Datum)) (b : Datum) (body : List Datum) :
    expand k_let_ (namedLetUse tag bs b body) = some (namedLetExp tag bs b body) := by
  unfold expand; rw [rules_let]; simp only [L_cons, L_nil, s]
  dx_simp [namedLetUse]
  dx_norm [namedLetExp]

theorem expand_letStar (bs : List (Datum × Datum)) (b : Datum) (body : List Datum) :
    expand k_letStar (letStarUse bs b body) = some (letStarExp bs b body) := by
  unfold expand; rw [rules_letStar]; simp only [L_cons, L_nil, s]
  rcases bs with _ | ⟨p, bs⟩
  · dx_simp [letStarUse]
    dx_norm [letStarExp]
  · dx_simp [letStarUse]
    dx_norm [letStarExp]

theorem expand_letrec (bs : List (Datum × Datum)) (b : Datum) (body : List Datum) :
    expand k_letrec (letrecUse bs b body) = some (letrecExp bs b body) := by
  unfold expand; rw [rules_letrec]; simp only [L_cons, L_nil, s]
  dx_simp [letrecUse]
  dx_norm [letrecExp]

theorem expand_delay (e : Datum) : expand k_delay (delayUse e) = some (delayExp e) := by
  unfold expand; rw [rules_delay]; simp only [L_cons, L_nil, s]
  dx_simp [delayUse]
  dx_norm [delayExp]

theorem expand_delayForce (e : Datum) : expand k_delayForce (delayForceUse e) = some (delayForceExp e) := by
  unfold expand; rw [rules_delayForce]; simp only [L_cons, L_nil, s]
  dx_simp [delayForceUse]
  dx_norm [delayForceExp]

/-! ### cond -/
theorem expand_cond_else (r1 : Datum) (rs : List Datum) :
    expand k_cond (condUse [L (s k_else_ :: r1 :: rs)]) = some (condElseExp r1 rs) := by
  unfold expand; rw [rules_cond]; simp only [L_cons, L_nil, s]
  dx_simp [condUse]
  dx_norm [condElseExp]

theorem expand_cond_arrow (t f : Datum) (cs : List Datum) (ht : t ≠ s k_else_) :
    expand k_cond (condUse (L [t, s k_arrow, f] :: cs)) = some (condArrowExp t f cs) := by
  simp only [s] at ht
  unfold expand; rw [rules_cond]; simp only [L_cons, L_nil, s]
  rcases cs with _ | ⟨c, cs⟩
  · dx_simp [condUse, ht]
    dx_norm [condArrowExp]
  · dx_simp [condUse, ht]
    dx_norm [condArrowExp]

theorem expand_cond_test (t : Datum) (cs : List Datum) :
    expand k_cond (condUse (L [t] :: cs)) = some (condTestExp t cs) := by
  unfold expand; rw [rules_cond]; simp only [L_cons, L_nil, s]
  rcases cs with _ | ⟨c, cs⟩
  · dx_simp [condUse]
    dx_norm [condTestExp]
  · dx_simp [condUse]
    dx_norm [condTestExp]

theorem expand_cond_body (t r1 : Datum) (rs cs : List Datum) (ht : t ≠ s k_else_)
    (hr : ¬ (r1 = s k_arrow ∧ rs.length = 1)) :
    expand k_cond (condUse (L (t :: r1 :: rs) :: cs)) = some (condBodyExp t r1 rs cs) := by
  simp only [s] at ht hr
  unfold expand; rw [rules_cond]; simp only [L_cons, L_nil, s]
  by_cases h1 : r1 = .sym k_arrow
  · subst h1
    rcases rs with _ | ⟨a, _ | ⟨a2, rs⟩⟩
    · rcases cs with _ | ⟨c, cs⟩
      · dx_simp [condUse, ht]
        dx_norm [condBodyExp]
      · dx_simp [condUse, ht]
        dx_norm [condBodyExp]
    · simp at hr
    · rcases cs with _ | ⟨c, cs⟩
      · dx_simp [condUse, ht]
        dx_norm [condBodyExp]
      · dx_simp [condUse, ht]
        dx_norm [condBodyExp]
  · rcases cs with _ | ⟨c, cs⟩
    · dx_simp [condUse, ht, h1]
      dx_norm [condBodyExp]
    · dx_simp [condUse, ht, h1]
      dx_norm [condBodyExp]

/-- with a further clause the `else` side condition of `expand_cond_arrow` is not needed -/
theorem expand_cond_arrow_more (t f c : Datum) (cs : List Datum) :
    expand k_cond (condUse (L [t, s k_arrow, f] :: c :: cs)) = some (condArrowExp t f (c :: cs)) := by
  unfold expand; rw [rules_cond]; simp only [L_cons, L_nil, s]
  dx_simp [condUse]
  dx_norm [condArrowExp]

/-- with a further clause the `else` side condition of `expand_cond_body` is not needed -/
theorem expand_cond_body_more (t r1 c : Datum) (rs cs : List Datum)
    (hr : ¬ (r1 = s k_arrow ∧ rs.length = 1)) :
    expand k_cond (condUse (L (t :: r1 :: rs) :: c :: cs)) = some (condBodyExp t r1 rs (c :: cs)) := by
  simp only [s] at hr
  unfold expand; rw [rules_cond]; simp only [L_cons, L_nil, s]
  by_cases h1 : r1 = .sym k_arrow
  · subst h1
    rcases rs with _ | ⟨a, _ | ⟨a2, rs⟩⟩
    · dx_simp [condUse]
      dx_norm [condBodyExp]
    · simp at hr
    · dx_simp [condUse]
      dx_norm [condBodyExp]
  · dx_simp [condUse, h1]
    dx_norm [condBodyExp]

/-! ### case -/
theorem expand_case_key (ks cs : List Datum) :
    expand k_case_ (caseUse (L ks) cs) = some (caseKeyExp ks cs) := by
  unfold expand; rw [rules_case]; simp only [L_cons, L_nil, s]
  dx_simp [caseUse]
  dx_norm [caseKeyExp]

/-- rule 1 of `case` does not apply to a key expression that is not a proper list -/
theorem case_rule1_fails (k : Datum) (hk : ∀ ks, k ≠ L ks) (p : Datum) :
    specMatch c2 (.pair p (.pair (.sym ell3) .nil)) k = none :=
  sm_ell_nil_improper c2 p (.sym ell3) k (by decide) hk

theorem expand_case_else_arrow (k f : Datum) (hk : ∀ ks, k ≠ L ks) :
    expand k_case_ (caseUse k [L [s k_else_, s k_arrow, f]]) = some (caseElseArrowExp k f) := by
  have h1 := case_rule1_fails k hk
  unfold expand; rw [rules_case]; simp only [L_cons, L_nil, s]
  dx_simp [caseUse, h1]
  dx_norm [caseElseArrowExp]

theorem expand_case_else (k r1 : Datum) (rs : List Datum) (hk : ∀ ks, k ≠ L ks)
    (hr : ¬ (r1 = s k_arrow ∧ rs.length = 1)) :
    expand k_case_ (caseUse k [L (s k_else_ :: r1 :: rs)]) = some (caseElseExp r1 rs) := by
  have h1 := case_rule1_fails k hk
  simp only [s] at hr
  unfold expand; rw [rules_case]; simp only [L_cons, L_nil, s]
  by_cases h2 : r1 = .sym k_arrow
  · subst h2
    rcases rs with _ | ⟨a, _ | ⟨a2, rs⟩⟩
    · dx_simp [caseUse, h1]
      dx_norm [caseElseExp]
    · simp at hr
    · dx_simp [caseUse, h1]
      dx_norm [caseElseExp]
  · dx_simp [caseUse, h1, h2]
    dx_norm [caseElseExp]

theorem expand_case_arrow (k : Datum) (atoms : List Datum) (f : Datum) (cs : List Datum)
    (hk : ∀ ks, k ≠ L ks) :
    expand k_case_ (caseUse k (L [L atoms, s k_arrow, f] :: cs)) = some (caseArrowExp k atoms f cs) := by
  have h1 := case_rule1_fails k hk
  unfold expand; rw [rules_case]; simp only [L_cons, L_nil, s]
  rcases cs with _ | ⟨c, cs⟩
  · dx_simp [caseUse, h1]
    dx_norm [caseArrowExp, memvTest]
  · dx_simp [caseUse, h1]
    dx_norm [caseArrowExp, memvTest]

theorem expand_case_body (k : Datum) (atoms : List Datum) (r1 : Datum) (rs cs : List Datum)
    (hk : ∀ ks, k ≠ L ks) (hr : ¬ (r1 = s k_arrow ∧ rs.length = 1)) :
    expand k_case_ (caseUse k (L (L atoms :: r1 :: rs) :: cs)) = some (caseBodyExp k atoms r1 rs cs) := by
  have h1 := case_rule1_fails k hk
  simp only [s] at hr
  unfold expand; rw [rules_case]; simp only [L_cons, L_nil, s]
  by_cases h2 : r1 = .sym k_arrow
  · subst h2
    rcases rs with _ | ⟨a, _ | ⟨a2, rs⟩⟩
    · rcases cs with _ | ⟨c, cs⟩
      · dx_simp [caseUse, h1]
        dx_norm [caseBodyExp, memvTest]
      · dx_simp [caseUse, h1]
        dx_norm [caseBodyExp, memvTest]
    · simp at hr
    · rcases cs with _ | ⟨c, cs⟩
      · dx_simp [caseUse, h1]
        dx_norm [caseBodyExp, memvTest]
      · dx_simp [caseUse, h1]
        dx_norm [caseBodyExp, memvTest]
  · rcases cs with _ | ⟨c, cs⟩
    · dx_simp [caseUse, h1, h2]
      dx_norm [caseBodyExp, memvTest]
    · dx_simp [caseUse, h1, h2]
      dx_norm [caseBodyExp, memvTest]

end Marwood.Spec.Eval.Derived
