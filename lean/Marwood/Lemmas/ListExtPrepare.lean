import Marwood.Lemmas.ListExtC12
/-! Corollaries of the `prepare_eval` theorems (Lemmas/Prepare*.lean, Proofs/C12.lean section `installs`) at the real
builtins `listExtWith` (see Lemmas/ListExtProps.lean for the overview): no hypothesis about builtins, no per-job
invariant hypothesis. -/

namespace Marwood.Proofs.C12
open Marwood Marwood.Heap Marwood.Spec Marwood.Vm Marwood.Vm.Concrete Marwood.Lemmas.Sim Marwood.Lemmas.Good
  Marwood.Lemmas.MachineGarbage Marwood.Lemmas.PolicyAlloc Marwood.Lemmas.PolicySessionMain
  Marwood.Lemmas.PolicySessionGc

/-- **C12, first sentence, for every history of `eval` calls at the real builtins, `prepare_eval` included**: from the
    bundled invariant and `CodePlain` of the INITIAL state (empty stack), `Installs` / `InstallsGarbage` of every
    `prepare_eval` (`HistInstalls`) and the physical size bounds -/
theorem history_capacity_bounded_installs_listExt (eqTag : String → String → Bool) (force : Bool) {s0 sf : St CHeap}
    {recs : List EvRec} (hist : HistInstalls (listExtWith eqTag) force s0 recs sf)
    (h0 : VmOkP (listExtWith eqTag) (listExtWith_codeLawsV eqTag) s0) (hsp : s0.stack.sp = 0)
    (hcap : 0 < s0.stack.cells.length) (cp0 : CodePlain s0.heap)
    (sz : ∀ rc ∈ recs, RecSized (listExtWith eqTag) force rc) :
    ∃ cps, Sess (listExtWith eqTag) force s0 cps sf ∧ (∀ cp ∈ cps, cp.1 ≤ 8192) ∧
      ∀ E L : Nat, (∀ cp ∈ cps, cp.2.1 ≤ E ∧ liveCount cp.2.2 ≤ L) →
        (used s0.heap ≤ L ∨ 4 * used s0.heap < 3 * s0.heap.cells.size) →
        sf.heap.cells.size ≤ max s0.heap.cells.size (6 * (L + (8192 * 3 + E)) + s0.heap.chunk) :=
  history_capacity_bounded_installs (listExtWith_codeLawsV eqTag) force (listExtWith_laws eqTag)
    (listExtWith_good eqTag) (listExtWith_proc eqTag) (listExtWith_codePlain eqTag) (listExtWith_allocOnly eqTag)
    hist h0 hsp hcap cp0 sz

/-- every job of such a history starts in a state satisfying the bundled invariant; the machine is idle at the end -/
theorem history_jobs_ok_installs_listExt (eqTag : String → String → Bool) (force : Bool) {s0 sf : St CHeap}
    {recs : List EvRec} (hist : HistInstalls (listExtWith eqTag) force s0 recs sf)
    (h0 : VmOkP (listExtWith eqTag) (listExtWith_codeLawsV eqTag) s0) (hsp : s0.stack.sp = 0)
    (hcap : 0 < s0.stack.cells.length) (sz : ∀ rc ∈ recs, RecSized (listExtWith eqTag) force rc) :
    (∀ p r, EvRec.ran p r ∈ recs → VmOkP (listExtWith eqTag) (listExtWith_codeLawsV eqTag) p) ∧ IdleOk sf :=
  history_jobs_ok_installs (listExtWith_codeLawsV eqTag) force (listExtWith_laws eqTag) (listExtWith_good eqTag)
    (listExtWith_proc eqTag) hist h0 hsp hcap sz

end Marwood.Proofs.C12
