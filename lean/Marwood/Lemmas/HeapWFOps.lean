import Marwood.Lemmas.HeapWF
/-!
# `alloc`, `put`, `maybe_put`, `free` preserve heap well-formedness (T03.3 mutator part, T18.1)
-/
namespace Marwood.Lemmas.HeapWFOps
open Marwood Marwood.Heap Marwood.Spec Marwood.Lemmas.GcSweep
open Marwood.Lemmas.HeapOps Marwood.Lemmas.GcSafety Marwood.Lemmas.HeapWF
open Classical

theorem children_undefined (fixed : Bool) (h : Heap) (i : Nat) (hc : h.cells[i]? = some VCell.undefined) :
    h.children fixed i = [] := by
  unfold Heap.children; rw [hc]; rfl

/-- facts about an allocation besides well-formedness -/
structure AllocFacts (h h' : Heap) (p : Nat) : Prop where
  chunk : h'.chunk = h.chunk
  symtab : h'.symtab = h.symtab
  was_free : ¬ h.NonFree p
  now : h'.gc[p]? = some GcState.allocated
  undef : h'.cells[p]? = some VCell.undefined
  keep : ∀ x : Nat, h.NonFree x → h'.NonFree x ∧ h'.cells[x]? = h.cells[x]?
  only : ∀ x : Nat, h'.NonFree x → x = p ∨ h.NonFree x

/-- popping the head of the free list -/
theorem pop_wf (fixed : Bool) (h : Heap) (p : Nat) (rest : List Nat) (wf : WFHeap fixed h)
    (hf : h.free = p :: rest) :
    ∃ h', Heap.setState { h with free := rest } p .allocated = .ok h' ∧ WFHeap fixed h' ∧ AllocFacts h h' p ∧
      h'.cells = h.cells := by
  have hpf : h.gc[p]? = some GcState.free := (wf.free_iff p).mp (by rw [hf]; exact List.mem_cons_self)
  have hp : p < h.gc.size := lt_of_getElem?_eq_some hpf
  have hnd := wf.nodup
  rw [hf] at hnd
  have hnd' := List.nodup_cons.mp hnd
  refine ⟨{ h with free := rest, gc := h.gc.setIfInBounds p .allocated }, by simp [Heap.setState, hp], ?_, ?_, rfl⟩
  · have hgc : ∀ i : Nat, (h.gc.setIfInBounds p GcState.allocated)[i]? =
        if i = p then some GcState.allocated else h.gc[i]? := by
      intro i
      by_cases hi : i = p
      · subst hi; simp [hp]
      · simp [hi, Array.getElem?_setIfInBounds_ne (Ne.symm hi)]
    have hnf : ∀ i, Heap.NonFree { h with free := rest, gc := h.gc.setIfInBounds p .allocated } i ↔
        (i = p ∨ h.NonFree i) := by
      intro i
      unfold Heap.NonFree
      simp only [hgc i]
      by_cases hi : i = p
      · simp [hi]
      · simp [hi]
    refine ⟨⟨by simpa using wf.sizes, wf.shape, wf.bound, ?_, hnd'.2, ?_, ?_, ?_⟩, ?_⟩
    · intro i
      show i ∈ rest ↔ _
      rw [hgc i]
      by_cases hi : i = p
      · subst hi; simp [hnd'.1]
      · simp only [hi, if_false]
        rw [← wf.free_iff i, hf]; simp [hi]
    · intro i hi
      rw [hgc i] at hi
      by_cases hip : i = p
      · simp [hip] at hi
      · simp only [hip, if_false] at hi
        exact wf.free_undef i hi
    · intro name i
      show h.symLookup name = some i ↔ _
      rw [wf.interned name i]
      unfold Heap.AllocSym
      rw [hnf i]
      constructor
      · rintro ⟨h1, h2⟩; exact ⟨h1, Or.inr h2⟩
      · rintro ⟨h1, h2 | h2⟩
        · subst h2
          have := wf.free_undef i hpf
          change h.cells[i]? = _ at h1
          rw [h1] at this; cases this
        · exact ⟨h1, h2⟩
    · intro i hi y hy
      rw [hnf] at hi ⊢
      change y ∈ h.children fixed i at hy
      rcases hi with hi | hi
      · subst hi
        rw [children_undefined fixed h i (wf.free_undef i hpf)] at hy; cases hy
      · rcases wf.closed i hi y hy with h1 | h1
        · exact Or.inl (Or.inr h1)
        · exact Or.inr h1
    · intro i
      show (h.gc.setIfInBounds p GcState.allocated)[i]? ≠ _
      rw [hgc i]
      by_cases hi : i = p
      · simp [hi]
      · simp only [hi, if_false]; exact wf.no_used i
  · refine ⟨rfl, rfl, ?_, by simp [hp], wf.free_undef p hpf, ?_, ?_⟩
    · unfold Heap.NonFree; rw [hpf]; simp
    · intro x hx
      refine ⟨?_, rfl⟩
      unfold Heap.NonFree at hx ⊢
      by_cases hi : x = p
      · subst hi; simp [hp]
      · simp only [Array.getElem?_setIfInBounds_ne (Ne.symm hi)]; exact hx
    · intro x hx
      unfold Heap.NonFree at hx ⊢
      by_cases hi : x = p
      · exact Or.inl hi
      · simp only [Array.getElem?_setIfInBounds_ne (Ne.symm hi)] at hx; exact Or.inr hx

/-- T03.3 / T18.1 for `alloc` (`hb`: the heap stays below 2^63 cells if it has to grow) -/
theorem alloc_wf (fixed : Bool) (h h' : Heap) (p : Nat) (wf : WFHeap fixed h)
    (hb : Heap.grownSize h.chunk h.cells.size ≤ 2 ^ 63) (ha : h.alloc = .ok (h', p)) :
    WFHeap fixed h' ∧ AllocFacts h h' p := by
  unfold Heap.alloc at ha
  cases hf : h.free with
  | cons q rest =>
    simp only [hf] at ha
    obtain ⟨h1, hs, wf1, af, _⟩ := pop_wf fixed h q rest wf hf
    simp only [hs, bind, Except.bind, pure, Except.pure] at ha
    cases ha
    exact ⟨wf1, af⟩
  | nil =>
    simp only [hf] at ha
    obtain ⟨g, hg, gs, hsg⟩ := grow_spec h wf.sizes wf.shape
    simp only [hg, bind, Except.bind] at ha
    have wfg := grow_wf fixed h g wf gs hsg (by rw [gs.csize]; exact hb)
    obtain ⟨g1, g2, g3⟩ := grow_get h g wf.sizes gs
    cases hgf : g.free with
    | nil => simp [hgf] at ha
    | cons q rest =>
      simp only [hgf] at ha
      obtain ⟨h1, hs, wf1, af, hcells⟩ := pop_wf fixed g q rest wfg hgf
      simp only [hs, pure, Except.pure] at ha
      cases ha
      -- transport the facts across the growth step
      have hnfg : ∀ x, h.NonFree x → g.NonFree x ∧ g.cells[x]? = h.cells[x]? := by
        intro x hx
        have hlt : x < h.cells.size := by have := nonFree_lt hx; have := wf.sizes; omega
        unfold Heap.NonFree at hx ⊢
        rw [(g1 x hlt).2]; exact ⟨hx, (g1 x hlt).1⟩
      have hnfg' : ∀ x, g.NonFree x → h.NonFree x := by
        intro x hx
        by_cases hlt : x < h.cells.size
        · unfold Heap.NonFree at hx ⊢; rw [(g1 x hlt).2] at hx; exact hx
        · have hx' := nonFree_lt hx
          have := (g2 x (by omega) (by omega)).2
          unfold Heap.NonFree at hx; rw [this] at hx; simp at hx
      refine ⟨wf1, ⟨by rw [af.chunk, gs.chunk], by rw [af.symtab, gs.symtab], ?_, af.now, af.undef, ?_, ?_⟩⟩
      · intro hc; exact af.was_free (hnfg p hc).1
      · intro x hx
        obtain ⟨a, b⟩ := hnfg x hx
        obtain ⟨c, d⟩ := af.keep x a
        exact ⟨c, by rw [d, b]⟩
      · intro x hx
        rcases af.only x hx with h1 | h1
        · exact Or.inl h1
        · exact Or.inr (hnfg' x h1)

/-! ## writing a freshly allocated cell -/

/-- the value stored refers only to allocated cells -/
def RefsOk (fixed : Bool) (h : Heap) (c : VCell) : Prop := ∀ y ∈ crefs fixed c, h.NonFree y ∨ Sentinel y

def VCell.isSymbol : VCell → Prop
  | .symbol _ => True
  | _ => False

theorem children_set (fixed : Bool) (h : Heap) (p : Nat) (c : VCell) (hp : p < h.cells.size) (i : Nat) :
    Heap.children fixed { h with cells := h.cells.setIfInBounds p c } i =
      if i = p then crefs fixed c else h.children fixed i := by
  unfold Heap.children
  by_cases hi : i = p
  · subst hi; simp [hp]
  · simp [hi, Array.getElem?_setIfInBounds_ne (Ne.symm hi)]

/-- overwrite an allocated `Undefined` cell with a non-symbol value -/
theorem write_wf (fixed : Bool) (h : Heap) (p : Nat) (c : VCell) (wf : WFHeap fixed h)
    (hp : h.gc[p]? = some GcState.allocated) (hu : h.cells[p]? = some VCell.undefined)
    (hns : ¬ VCell.isSymbol c) (hrefs : RefsOk fixed h c) :
    ∃ h', h.write p c = .ok h' ∧ WFHeap fixed h' ∧ h'.cells[p]? = some c ∧ h'.gc = h.gc ∧
      h'.symtab = h.symtab ∧ h'.chunk = h.chunk ∧ ∀ x, x ≠ p → h'.cells[x]? = h.cells[x]? := by
  have hpc : p < h.cells.size := lt_of_getElem?_eq_some hu
  refine ⟨{ h with cells := h.cells.setIfInBounds p c }, by simp [Heap.write, hpc], ?_, by simp [hpc], rfl, rfl, rfl, ?_⟩
  · have hcell : ∀ i : Nat, (h.cells.setIfInBounds p c)[i]? = if i = p then some c else h.cells[i]? := by
      intro i
      by_cases hi : i = p
      · subst hi; simp [hpc]
      · simp [hi, Array.getElem?_setIfInBounds_ne (Ne.symm hi)]
    refine ⟨⟨by simpa using wf.sizes, by simpa [Shape] using wf.shape, by simpa using wf.bound, wf.free_iff,
      wf.nodup, ?_, ?_, ?_⟩, wf.no_used⟩
    · intro i hi
      show (h.cells.setIfInBounds p c)[i]? = _
      rw [hcell i]
      by_cases hip : i = p
      · subst hip; change h.gc[i]? = _ at hi; rw [hp] at hi; cases hi
      · simp only [hip, if_false]; exact wf.free_undef i hi
    · intro name i
      show h.symLookup name = some i ↔ _
      rw [wf.interned name i]
      unfold Heap.AllocSym Heap.NonFree
      show _ ↔ (h.cells.setIfInBounds p c)[i]? = _ ∧ _
      rw [hcell i]
      by_cases hip : i = p
      · subst hip
        simp only [if_true, hu]
        constructor
        · rintro ⟨h1, _⟩; cases h1
        · rintro ⟨h1, _⟩
          cases h1
          exact absurd trivial hns
      · simp [hip]
    · intro i hi y hy
      rw [children_set fixed h p c hpc i] at hy
      change h.NonFree i at hi
      show h.NonFree y ∨ _
      by_cases hip : i = p
      · simp only [hip, if_true] at hy; exact hrefs y hy
      · simp only [hip, if_false] at hy; exact wf.closed i hi y hy
  · intro x hx
    simp [Array.getElem?_setIfInBounds_ne (Ne.symm hx)]

/-- overwrite an allocated `Undefined` cell with a symbol whose name is not yet interned, and intern it -/
theorem writeSym_wf (fixed : Bool) (h : Heap) (p : Nat) (name : Text) (wf : WFHeap fixed h)
    (hp : h.gc[p]? = some GcState.allocated) (hu : h.cells[p]? = some VCell.undefined)
    (hnew : h.symLookup name = none) :
    ∃ h1, h.write p (.symbol name) = .ok h1 ∧
      WFHeap fixed { h1 with symtab := Heap.symInsert h1.symtab name p } ∧
      h1.cells[p]? = some (.symbol name) ∧ h1.gc = h.gc ∧ h1.chunk = h.chunk ∧
      ∀ x, x ≠ p → h1.cells[x]? = h.cells[x]? := by
  have hpc : p < h.cells.size := lt_of_getElem?_eq_some hu
  refine ⟨{ h with cells := h.cells.setIfInBounds p (.symbol name) }, by simp [Heap.write, hpc], ?_, by simp [hpc], rfl, rfl, ?_⟩
  · have hcell : ∀ i : Nat, (h.cells.setIfInBounds p (VCell.symbol name))[i]? =
        if i = p then some (VCell.symbol name) else h.cells[i]? := by
      intro i
      by_cases hi : i = p
      · subst hi; simp [hpc]
      · simp [hi, Array.getElem?_setIfInBounds_ne (Ne.symm hi)]
    refine ⟨⟨by simpa using wf.sizes, by simpa [Shape] using wf.shape, by simpa using wf.bound, wf.free_iff,
      wf.nodup, ?_, ?_, ?_⟩, wf.no_used⟩
    · intro i hi
      show (h.cells.setIfInBounds p (VCell.symbol name))[i]? = _
      rw [hcell i]
      by_cases hip : i = p
      · subst hip; change h.gc[i]? = _ at hi; rw [hp] at hi; cases hi
      · simp only [hip, if_false]; exact wf.free_undef i hi
    · intro n i
      unfold Heap.symLookup
      show Option.map _ (List.find? _ (Heap.symInsert h.symtab name p)) = some i ↔ _
      rw [lookup_insert]
      unfold Heap.AllocSym Heap.NonFree
      show _ ↔ (h.cells.setIfInBounds p (VCell.symbol name))[i]? = _ ∧ (h.gc[i]? = _ ∨ h.gc[i]? = _)
      rw [hcell i]
      by_cases hn : n = name
      · subst hn
        simp only [if_true, Option.some.injEq]
        constructor
        · intro e; subst e; simp [hp]
        · rintro ⟨h1, h2⟩
          by_cases hip : i = p
          · exact hip.symm
          · simp only [hip, if_false] at h1
            have := (wf.interned n i).mpr ⟨h1, h2⟩
            rw [hnew] at this; cases this
      · simp only [hn, if_false]
        have := wf.interned n i
        unfold Heap.symLookup Heap.AllocSym Heap.NonFree at this
        rw [this]
        by_cases hip : i = p
        · subst hip
          simp only [if_true, hu]
          constructor
          · rintro ⟨h1, _⟩; cases h1
          · rintro ⟨h1, _⟩
            simp only [Option.some.injEq, VCell.symbol.injEq] at h1
            exact absurd h1.symm hn
        · simp [hip]
    · intro i hi y hy
      have := children_set fixed h p (.symbol name) hpc i
      change y ∈ Heap.children fixed { h with cells := h.cells.setIfInBounds p (.symbol name) } i at hy
      rw [this] at hy
      change h.NonFree i at hi
      show h.NonFree y ∨ _
      by_cases hip : i = p
      · simp only [hip, if_true, crefs] at hy; cases hy
      · simp only [hip, if_false] at hy; exact wf.closed i hi y hy
  · intro x hx
    simp [Array.getElem?_setIfInBounds_ne (Ne.symm hx)]

end Marwood.Lemmas.HeapWFOps

namespace Marwood.Lemmas.HeapWFOps
open Marwood Marwood.Heap Marwood.Spec Marwood.Lemmas.GcSweep
open Marwood.Lemmas.HeapOps Marwood.Lemmas.GcSafety Marwood.Lemmas.HeapWF
open Classical

theorem putNew_nonsym (h : Heap) (c : VCell) (hns : ¬ VCell.isSymbol c) :
    h.putNew c = (do
      let (h1, p) ← h.alloc
      let h2 ← h1.write p c
      pure (h2, VCell.ptr p)) := by
  cases c <;> first | rfl | exact absurd trivial hns

/-- what `put`/`maybe_put` guarantee besides well-formedness -/
structure PutFacts (h h' : Heap) (c v : VCell) : Prop where
  keep : ∀ x : Nat, h.NonFree x → h'.NonFree x ∧ h'.cells[x]? = h.cells[x]?
  chunk : h'.chunk = h.chunk
  result : ∃ p, v = .ptr p ∧ h'.NonFree p ∧ h'.cells[p]? = some c

theorem putNew_wf (fixed : Bool) (h h' : Heap) (c v : VCell) (wf : WFHeap fixed h)
    (hrefs : RefsOk fixed h c) (hb : Heap.grownSize h.chunk h.cells.size ≤ 2 ^ 63)
    (hput : h.putNew c = .ok (h', v)) : WFHeap fixed h' ∧ PutFacts h h' c v := by
  by_cases hsym : VCell.isSymbol c
  · -- symbols are interned
    cases c with
    | symbol name =>
      simp only [Heap.putNew] at hput
      cases hl : h.symLookup name with
      | some p =>
        simp only [hl] at hput
        cases hput
        have ⟨h1, h2⟩ := (wf.interned name p).mp hl
        exact ⟨wf, ⟨fun x hx => ⟨hx, rfl⟩, rfl, p, rfl, h2, h1⟩⟩
      | none =>
        simp only [hl] at hput
        cases ha : h.alloc with
        | error e => simp [ha, bind, Except.bind] at hput
        | ok r =>
          obtain ⟨h1, p⟩ := r
          obtain ⟨wf1, af⟩ := alloc_wf fixed h h1 p wf hb ha
          have hl1 : h1.symLookup name = none := by simp [Heap.symLookup, af.symtab] at hl ⊢; exact hl
          obtain ⟨h2, hw, wf2, hc2, hgc2, hch2, hother⟩ := writeSym_wf fixed h1 p name wf1 af.now af.undef hl1
          simp only [ha, hw, bind, Except.bind, pure, Except.pure] at hput
          cases hput
          refine ⟨wf2, ⟨?_, by show h2.chunk = _; rw [hch2, af.chunk], p, rfl, ?_, hc2⟩⟩
          · intro x hx
            obtain ⟨a, b⟩ := af.keep x hx
            have hxp : x ≠ p := fun e => af.was_free (e ▸ hx)
            refine ⟨?_, ?_⟩
            · unfold Heap.NonFree at a ⊢; show h2.gc[x]? = _ ∨ h2.gc[x]? = _; rw [hgc2]; exact a
            · show h2.cells[x]? = _; rw [hother x hxp, b]
          · unfold Heap.NonFree; show h2.gc[p]? = _ ∨ h2.gc[p]? = _; rw [hgc2]; exact Or.inl af.now
    | _ => exact absurd hsym (by simp [VCell.isSymbol])
  · rw [putNew_nonsym h c hsym] at hput
    cases ha : h.alloc with
    | error e => simp [ha, bind, Except.bind] at hput
    | ok r =>
      obtain ⟨h1, p⟩ := r
      obtain ⟨wf1, af⟩ := alloc_wf fixed h h1 p wf hb ha
      have hrefs1 : RefsOk fixed h1 c := by
        intro y hy
        rcases hrefs y hy with h3 | h3
        · exact Or.inl (af.keep y h3).1
        · exact Or.inr h3
      obtain ⟨h2, hw, wf2, hc2, hgc2, _, hch2, hother⟩ := write_wf fixed h1 p c wf1 af.now af.undef hsym hrefs1
      simp only [ha, hw, bind, Except.bind, pure, Except.pure] at hput
      cases hput
      refine ⟨wf2, ⟨?_, by rw [hch2, af.chunk], p, rfl, ?_, hc2⟩⟩
      · intro x hx
        obtain ⟨a, b⟩ := af.keep x hx
        have hxp : x ≠ p := fun e => af.was_free (e ▸ hx)
        refine ⟨?_, by rw [hother x hxp, b]⟩
        unfold Heap.NonFree at a ⊢; rw [hgc2]; exact a
      · unfold Heap.NonFree; rw [hgc2]; exact Or.inl af.now

/-- T03.3 / T18.1 for `put` -/
theorem put_wf (fixed : Bool) (h h' : Heap) (c v : VCell) (wf : WFHeap fixed h)
    (hrefs : RefsOk fixed h c) (hb : Heap.grownSize h.chunk h.cells.size ≤ 2 ^ 63)
    (hput : h.put c = .ok (h', v)) :
    WFHeap fixed h' ∧ ((∃ q, c = .ptr q ∧ v = c ∧ h' = h) ∨ PutFacts h h' c v) := by
  cases c with
  | ptr q => simp only [Heap.put] at hput; cases hput; exact ⟨wf, Or.inl ⟨q, rfl, rfl, rfl⟩⟩
  | _ =>
    simp only [Heap.put] at hput
    obtain ⟨a, b⟩ := putNew_wf fixed h h' _ v wf hrefs hb hput
    exact ⟨a, Or.inr b⟩

/-- T03.3 / T18.1 for `maybe_put` -/
theorem maybePut_wf (fixed : Bool) (h h' : Heap) (c v : VCell) (wf : WFHeap fixed h)
    (hrefs : RefsOk fixed h c) (hb : Heap.grownSize h.chunk h.cells.size ≤ 2 ^ 63)
    (hput : h.maybePut c = .ok (h', v)) :
    WFHeap fixed h' ∧ ((v = c ∧ h' = h) ∨ PutFacts h h' c v) := by
  cases c with
  | ptr q => simp only [Heap.maybePut] at hput; cases hput; exact ⟨wf, Or.inl ⟨rfl, rfl⟩⟩
  | atom a =>
    simp only [Heap.maybePut] at hput
    split at hput
    · cases hput; exact ⟨wf, Or.inl ⟨rfl, rfl⟩⟩
    · obtain ⟨x, y⟩ := putNew_wf fixed h h' _ v wf hrefs hb hput
      exact ⟨x, Or.inr y⟩
  | _ =>
    simp only [Heap.maybePut] at hput
    obtain ⟨a, b⟩ := putNew_wf fixed h h' _ v wf hrefs hb hput
    exact ⟨a, Or.inr b⟩

theorem free_lookup (cells : Array VCell) (tab : List (Text × Nat)) (p : Nat) (n : Text) :
    ((Heap.freeTab cells tab p).find? (·.1 = n)).map (·.2) =
      if cells[p]? = some (VCell.symbol n) then none else (tab.find? (·.1 = n)).map (·.2) := by
  unfold Heap.freeTab
  cases hc : cells[p]? with
  | none => simp
  | some c =>
    cases c with
    | symbol name =>
      simp only [lookup_remove]
      by_cases hn : n = name
      · simp [hn]
      · have : ¬ name = n := fun e => hn e.symm
        simp [hn, this]
    | _ => simp

/-- T03.3 / T18.1 for `free`: freeing an allocated cell that no other allocated cell refers to -/
theorem free_wf (fixed : Bool) (h h' : Heap) (p : Nat) (wf : WFHeap fixed h)
    (hp : h.gc[p]? = some GcState.allocated)
    (hunref : ∀ i, i ≠ p → h.NonFree i → p ∉ h.children fixed i)
    (hfree : h.free' p = .ok h') : WFHeap fixed h' := by
  have hpg : p < h.gc.size := lt_of_getElem?_eq_some hp
  have hpc : p < h.cells.size := by have := wf.sizes; omega
  simp only [Heap.free', Heap.setState, hpg, if_true, bind, Except.bind, hpc] at hfree
  cases hfree
  have hgc : ∀ i : Nat, (h.gc.setIfInBounds p GcState.free)[i]? = if i = p then some GcState.free else h.gc[i]? := by
    intro i
    by_cases hi : i = p
    · subst hi; simp [hpg]
    · simp [hi, Array.getElem?_setIfInBounds_ne (Ne.symm hi)]
  have hcell : ∀ i : Nat, (h.cells.setIfInBounds p VCell.undefined)[i]? =
      if i = p then some VCell.undefined else h.cells[i]? := by
    intro i
    by_cases hi : i = p
    · subst hi; simp [hpc]
    · simp [hi, Array.getElem?_setIfInBounds_ne (Ne.symm hi)]
  have hpnf : p ∉ h.free := by
    intro hc; have := (wf.free_iff p).mp hc; rw [hp] at this; cases this
  refine ⟨⟨by simpa using wf.sizes, by simpa [Shape] using wf.shape, by simpa using wf.bound, ?_, ?_, ?_, ?_, ?_⟩, ?_⟩
  · intro i
    show i ∈ p :: h.free ↔ (h.gc.setIfInBounds p GcState.free)[i]? = _
    rw [hgc i]
    by_cases hi : i = p
    · simp [hi]
    · simp only [hi, if_false, List.mem_cons, false_or]; exact wf.free_iff i
  · show (p :: h.free).Nodup
    exact List.nodup_cons.mpr ⟨hpnf, wf.nodup⟩
  · intro i hi
    show (h.cells.setIfInBounds p VCell.undefined)[i]? = _
    change (h.gc.setIfInBounds p GcState.free)[i]? = _ at hi
    rw [hgc i] at hi; rw [hcell i]
    by_cases hip : i = p
    · simp [hip]
    · simp only [hip, if_false] at hi ⊢; exact wf.free_undef i hi
  · -- Interned
    intro n i
    have hi0 := wf.interned n i
    unfold Heap.AllocSym Heap.NonFree at hi0 ⊢
    show ((Heap.freeTab h.cells h.symtab p).find? (·.1 = n)).map (·.2) = some i ↔
      (h.cells.setIfInBounds p VCell.undefined)[i]? = _ ∧
      ((h.gc.setIfInBounds p GcState.free)[i]? = _ ∨ (h.gc.setIfInBounds p GcState.free)[i]? = _)
    rw [free_lookup, hgc i, hcell i]
    by_cases hip : i = p
    · subst hip
      simp only [if_true]
      constructor
      · intro hl
        split at hl
        · cases hl
        · rename_i hns
          have := (hi0.mp hl).1
          exact absurd this hns
      · rintro ⟨h1, _⟩; cases h1
    · simp only [hip, if_false]
      constructor
      · intro hl
        split at hl
        · cases hl
        · exact hi0.mp hl
      · intro hr
        have hl := hi0.mpr hr
        split
        · rename_i hps
          have hlp := (wf.interned n p).mpr ⟨hps, Or.inl hp⟩
          rw [hl] at hlp; cases hlp; exact absurd rfl hip
        · exact hl
  · intro i hi y hy
    unfold Heap.NonFree at hi ⊢
    change (h.gc.setIfInBounds p GcState.free)[i]? = _ ∨ (h.gc.setIfInBounds p GcState.free)[i]? = _ at hi
    show ((h.gc.setIfInBounds p GcState.free)[y]? = _ ∨ (h.gc.setIfInBounds p GcState.free)[y]? = _) ∨ _
    rw [hgc i] at hi
    rw [hgc y]
    by_cases hip : i = p
    · simp [hip] at hi
    · simp only [hip, if_false] at hi
      have hch : Heap.children fixed { h with cells := h.cells.setIfInBounds p VCell.undefined } i = h.children fixed i := by
        rw [children_set fixed h p _ hpc i]; simp [hip]
      change y ∈ Heap.children fixed { h with cells := h.cells.setIfInBounds p VCell.undefined } i at hy
      rw [hch] at hy
      have hyp : y ≠ p := fun e => hunref i hip hi (e ▸ hy)
      simp only [hyp, if_false]
      exact wf.closed i hi y hy
  · intro i
    show (h.gc.setIfInBounds p GcState.free)[i]? ≠ _
    rw [hgc i]
    by_cases hip : i = p
    · simp [hip]
    · simp only [hip, if_false]; exact wf.no_used i

end Marwood.Lemmas.HeapWFOps

namespace Marwood.Lemmas.HeapWFOps
open Marwood Marwood.Heap Marwood.Spec Marwood.Lemmas.GcSweep
open Marwood.Lemmas.HeapOps Marwood.Lemmas.GcSafety Marwood.Lemmas.HeapWF
open Classical

/-- a fresh heap is well-formed -/
theorem new_wf (fixed : Bool) (chunk : Nat) (h : Heap) (hpos : 0 < chunk) (hb : chunk ≤ 2 ^ 63)
    (hn : Heap.new chunk = .ok h) : WFHeap fixed h := by
  unfold Heap.new at hn
  split at hn
  · cases hn
  · rename_i h4
    cases hn
    have h4' : chunk % 4 = 0 := by omega
    refine ⟨⟨by simp, ⟨hpos, h4', 1, by omega, by simp⟩, by simpa using hb, ?_, List.nodup_range, ?_, ?_, ?_⟩, ?_⟩
    · intro i
      simp only [Array.getElem?_replicate, List.mem_range]
      by_cases hi : i < chunk <;> simp [hi]
    · intro i hi
      simp only [Array.getElem?_replicate] at hi ⊢
      by_cases hlt : i < chunk <;> simp [hlt] at hi ⊢
    · intro name i
      constructor
      · intro hl; simp [Heap.symLookup] at hl
      · rintro ⟨_, h2⟩
        unfold Heap.NonFree at h2
        simp only [Array.getElem?_replicate] at h2
        by_cases hi : i < chunk <;> simp [hi] at h2
    · intro i hi
      unfold Heap.NonFree at hi
      simp only [Array.getElem?_replicate] at hi
      by_cases hlt : i < chunk <;> simp [hlt] at hi
    · intro i
      simp only [Array.getElem?_replicate]
      by_cases hi : i < chunk <;> simp [hi]

/-- T03.3 for `mark` alone: marks never touch a free cell, so the core invariant survives -/
theorem mark_wfcore (fixed : Bool) (h h1 : Heap) (roots : List Nat) (wf : WFHeap fixed h)
    (hr : RootsOk h roots) (hm : h.mark fixed roots = some h1) :
    WFCore fixed h1 ∧ (∀ i : Nat, h1.NonFree i ↔ h.NonFree i) ∧
      (∀ i : Nat, h1.gc[i]? = some GcState.used ↔ Reachable fixed h roots i) := by
  have ms := mark_spec fixed h roots h1 wf.no_used hm
  have hnf := reachable_nonFree fixed h roots wf.toWFCore hr
  have hfree : ∀ i : Nat, h1.gc[i]? = some GcState.free ↔ h.gc[i]? = some GcState.free := by
    intro i
    rcases ms.frame i with h2 | ⟨h2, _⟩
    · rw [h2]
    · have := hnf i ((ms.used_iff i).mp h2)
      rw [h2]
      unfold Heap.NonFree at this
      constructor
      · intro e; cases e
      · intro e; rw [e] at this; simp at this
  have hnf1 : ∀ i : Nat, h1.NonFree i ↔ h.NonFree i := by
    intro i
    unfold Heap.NonFree
    rcases ms.frame i with h2 | ⟨h2, _⟩
    · rw [h2]
    · have := hnf i ((ms.used_iff i).mp h2)
      rw [h2]
      unfold Heap.NonFree at this
      simp [this]
  have hch : ∀ i, h1.children fixed i = h.children fixed i := by
    intro i; unfold Heap.children; rw [ms.cells]
  refine ⟨⟨by rw [ms.gcsize, ms.cells]; exact wf.sizes, by simpa [ms.chunk, ms.cells] using wf.shape,
    by rw [ms.cells]; exact wf.bound, ?_, by rw [ms.free]; exact wf.nodup, ?_, ?_, ?_⟩, hnf1, ms.used_iff⟩
  · intro i; rw [ms.free, hfree i]; exact wf.free_iff i
  · intro i hi; rw [ms.cells]; exact wf.free_undef i ((hfree i).mp hi)
  · intro name i
    have : h1.symLookup name = h.symLookup name := by simp [Heap.symLookup, ms.symtab]
    rw [this, wf.interned name i]
    unfold Heap.AllocSym
    rw [hnf1 i, ms.cells]
  · intro i hi y hy
    rw [hch i] at hy
    rcases wf.closed i ((hnf1 i).mp hi) y hy with h2 | h2
    · exact Or.inl ((hnf1 y).mpr h2)
    · exact Or.inr h2

end Marwood.Lemmas.HeapWFOps
