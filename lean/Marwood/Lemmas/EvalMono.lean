import Marwood.Spec.Eval
/-!
# Fuel monotonicity of `Spec.Eval`: framework and the special forms

`Le m m'` — the computation `m'` *refines* `m`: from every state in which `m` ends with a definite
outcome (a value or an error — not `timeout`), `m'` ends with the very same outcome: same value or
error class, same state (globals, store, output log).

A sub-evaluator `r'` refines `r` (`RecLe r r'`) when its `eval` and `apply` do. One level of
evaluation (`evalStep`, `applyStep`, and every helper they are made of) is monotone in the
sub-evaluator; `evalN n ≤ evalN (n+1)` follows by induction on the fuel (`EvalMonoMain.lean`).
-/
namespace Marwood.Spec.Eval
open Marwood

/-- `m'` agrees with `m` wherever `m` is definite -/
def Le {α : Type} (m m' : M α) : Prop := ∀ st, m st ≠ .timeout → m' st = m st

theorem Le.refl {α : Type} (m : M α) : Le m m := fun _ _ => rfl

theorem Le.trans {α : Type} {a b c : M α} (h1 : Le a b) (h2 : Le b c) : Le a c := by
  intro st h
  have e1 := h1 st h
  have e2 := h2 st (by rw [e1]; exact h)
  rw [e2, e1]

theorem Le.bind {α β : Type} {m m' : M α} {f f' : α → M β} (hm : Le m m') (hf : ∀ a, Le (f a) (f' a)) :
    Le (m >>= f) (m' >>= f') := by
  intro st h
  show M.bind' m' f' st = M.bind' m f st
  have h' : M.bind' m f st ≠ .timeout := h
  unfold M.bind' at h' ⊢
  cases hm1 : m st with
  | ok a s =>
    rw [hm st (by simp [hm1])]
    simp only [hm1] at h' ⊢
    exact hf a s h'
  | err e s =>
    rw [hm st (by simp [hm1])]
    simp only [hm1]
  | timeout => simp [hm1] at h'

theorem Le.timeout {α : Type} (m : M α) : Le (timeoutM : M α) m := by
  intro st h; exact absurd rfl h

/-- the sub-evaluator `r'` refines `r` -/
structure RecLe (r r' : Rec) : Prop where
  eval : ∀ e ρ, Le (r.eval e ρ) (r'.eval e ρ)
  apply : ∀ f args, Le (r.apply f args) (r'.apply f args)

theorem RecLe.refl (r : Rec) : RecLe r r := ⟨fun _ _ => Le.refl _, fun _ _ => Le.refl _⟩

theorem RecLe.trans {a b c : Rec} (h1 : RecLe a b) (h2 : RecLe b c) : RecLe a c :=
  ⟨fun e ρ => (h1.eval e ρ).trans (h2.eval e ρ), fun f as => (h1.apply f as).trans (h2.apply f as)⟩

variable {r r' : Rec}

/-! ## sequences -/

theorem le_evalArgs (hr : RecLe r r') (ρ : Env) : ∀ (es : List Datum), Le (evalArgs r ρ es) (evalArgs r' ρ es)
  | [] => Le.refl _
  | e :: es => by
    simp only [evalArgs]
    refine Le.bind (hr.eval e ρ) (fun v => ?_)
    exact Le.bind (le_evalArgs hr ρ es) (fun _ => Le.refl _)

theorem le_evalExprs (hr : RecLe r r') (ρ : Env) : ∀ (es : List Datum), Le (evalExprs r ρ es) (evalExprs r' ρ es)
  | [] => Le.refl _
  | [e] => by simpa [evalExprs] using hr.eval e ρ
  | e :: e' :: es => by
    simp only [evalExprs]
    exact Le.bind (hr.eval e ρ) (fun _ => le_evalExprs hr ρ (e' :: es))

theorem le_evalAnd (hr : RecLe r r') (ρ : Env) : ∀ (es : List Datum), Le (evalAnd r ρ es) (evalAnd r' ρ es)
  | [] => Le.refl _
  | [e] => by simpa [evalAnd] using hr.eval e ρ
  | e :: e' :: es => by
    simp only [evalAnd]
    refine Le.bind (hr.eval e ρ) (fun v => ?_)
    split
    · exact le_evalAnd hr ρ (e' :: es)
    · exact Le.refl _

theorem le_evalOr (hr : RecLe r r') (ρ : Env) : ∀ (es : List Datum), Le (evalOr r ρ es) (evalOr r' ρ es)
  | [] => Le.refl _
  | [e] => by simpa [evalOr] using hr.eval e ρ
  | e :: e' :: es => by
    simp only [evalOr]
    refine Le.bind (hr.eval e ρ) (fun v => ?_)
    split
    · exact Le.refl _
    · exact le_evalOr hr ρ (e' :: es)

theorem le_mapApply (hr : RecLe r r') (f : Val) : ∀ (as : List (List Val)), Le (mapApply r f as) (mapApply r' f as)
  | [] => Le.refl _
  | a :: as => by
    simp only [mapApply]
    refine Le.bind (hr.apply f a) (fun v => ?_)
    exact Le.bind (le_mapApply hr f as) (fun _ => Le.refl _)

/-! ## bodies -/

theorem le_defineValue (hr : RecLe r r') (ρ : Env) (d : Datum) : Le (defineValue r ρ d) (defineValue r' ρ d) := by
  unfold defineValue
  split
  · split
    · exact Le.refl _
    · exact Le.bind (hr.eval _ ρ) (fun _ => Le.refl _)
  · exact Le.refl _
  · exact Le.refl _

theorem le_evalBodyForms (hr : RecLe r r') (ρ : Env) : ∀ (es : List Datum) (defs : Bool),
    Le (evalBodyForms r ρ defs es) (evalBodyForms r' ρ defs es)
  | [], _ => Le.refl _
  | [e], defs => by
    simp only [evalBodyForms]
    split
    · exact Le.bind (le_defineValue hr ρ e) (fun _ => Le.refl _)
    · exact hr.eval e ρ
  | e :: e' :: es, defs => by
    simp only [evalBodyForms]
    split
    · refine Le.bind (le_defineValue hr ρ e) (fun p => ?_)
      exact Le.bind (Le.refl _) (fun _ => le_evalBodyForms hr ρ (e' :: es) true)
    · exact Le.bind (hr.eval e ρ) (fun _ => le_evalBodyForms hr ρ (e' :: es) false)

theorem le_evalBody (hr : RecLe r r') (ρ : Env) (body : List Datum) : Le (evalBody r ρ body) (evalBody r' ρ body) := by
  unfold evalBody
  exact Le.bind (Le.refl _) (fun ρ' => le_evalBodyForms hr ρ' body true)

/-! ## quasiquote -/

/-- size of a datum (the quasiquote walk descends two levels at once) -/
def msz : Datum → Nat
  | .pair a d => msz a + msz d + 1
  | .vec e => msz e + 1
  | _ => 1

theorem le_qq (hr : RecLe r r') (ρ : Env) : ∀ (n : Nat) (d : Datum) (depth : Nat), msz d ≤ n →
    Le (qq r ρ d depth) (qq r' ρ d depth) ∧ Le (qqElems r ρ d depth) (qqElems r' ρ d depth) := by
  intro n
  induction n with
  | zero => intro d depth hn; cases d <;> simp [msz] at hn
  | succ n ih =>
    intro d depth hn
    refine ⟨?_, ?_⟩
    · unfold qq
      split
      · rename_i s y
        simp only [msz] at hn
        have hy : ∀ k, Le (qq r ρ y k) (qq r' ρ y k) := fun k => (ih y k (by omega)).1
        split
        · split
          · exact hr.eval y ρ
          · exact Le.bind (hy _) (fun _ => Le.refl _)
        · split
          · exact Le.bind (hy _) (fun _ => Le.refl _)
          · exact Le.bind (hy _) (fun _ => Le.refl _)
      · rename_i a d' _
        simp only [msz] at hn
        refine Le.bind (ih a _ (by omega)).1 (fun a' => ?_)
        exact Le.bind (ih d' _ (by omega)).1 (fun _ => Le.refl _)
      · rename_i e
        simp only [msz] at hn
        exact Le.bind (ih e _ (by omega)).2 (fun _ => Le.refl _)
      · exact Le.refl _
    · unfold qqElems
      split
      · rename_i a d'
        simp only [msz] at hn
        refine Le.bind (ih a _ (by omega)).1 (fun a' => ?_)
        exact Le.bind (ih d' _ (by omega)).2 (fun _ => Le.refl _)
      · exact Le.refl _

/-! ## clauses and binding forms -/

theorem le_evalCond (hr : RecLe r r') (ρ : Env) : ∀ (cs : List Datum), Le (evalCond r ρ cs) (evalCond r' ρ cs)
  | [] => Le.refl _
  | c :: cs => by
    simp only [evalCond]
    split
    · split
      · split
        · exact le_evalExprs hr ρ _
        · exact Le.refl _
      · refine Le.bind (hr.eval _ ρ) (fun v => ?_)
        split
        · split
          · exact Le.refl _
          · split
            · exact Le.bind (hr.eval _ ρ) (fun fv => hr.apply fv [v])
            · exact le_evalExprs hr ρ _
          · exact le_evalExprs hr ρ _
        · exact le_evalCond hr ρ cs
    · exact Le.refl _

theorem le_evalCase (hr : RecLe r r') (ρ : Env) (key : Val) : ∀ (cs : List Datum),
    Le (evalCase r ρ key cs) (evalCase r' ρ key cs)
  | [] => Le.refl _
  | c :: cs => by
    simp only [evalCase]
    split
    · split
      · split
        · exact Le.refl _
        · exact le_evalCase hr ρ key cs
        · split
          · split
            · exact Le.bind (hr.eval _ ρ) (fun fv => hr.apply fv [key])
            · exact le_evalExprs hr ρ _
          · exact le_evalExprs hr ρ _
      · exact Le.refl _
    · exact Le.refl _

theorem le_evalLetStar (hr : RecLe r r') (body : List Datum) : ∀ (bs : List (Text × Datum)) (ρ : Env),
    Le (evalLetStar r body bs ρ) (evalLetStar r' body bs ρ)
  | [], ρ => by simp only [evalLetStar]; exact le_evalBody hr ρ body
  | (y, e) :: bs, ρ => by
    simp only [evalLetStar]
    refine Le.bind (hr.eval e ρ) (fun v => ?_)
    exact Le.bind (Le.refl _) (fun l => le_evalLetStar hr body bs _)

theorem le_evalLetrecInits (hr : RecLe r r') (ρ : Env) : ∀ (bs : List (Text × Datum)),
    Le (evalLetrecInits r ρ bs) (evalLetrecInits r' ρ bs)
  | [] => Le.refl _
  | (y, e) :: bs => by
    simp only [evalLetrecInits]
    refine Le.bind (hr.eval e ρ) (fun v => ?_)
    exact Le.bind (Le.refl _) (fun _ => le_evalLetrecInits hr ρ bs)

/-! ## the special forms -/

theorem le_evalKw (hr : RecLe r r') (ρ : Env) (k : Kw) (rest : Datum) :
    Le (evalKw r ρ k rest) (evalKw r' ρ k rest) := by
  cases k with
  | quote => exact Le.refl _
  | quasiquote =>
    simp only [evalKw]
    split
    · exact (le_qq hr ρ _ _ _ (Nat.le_refl _)).1
    · exact Le.refl _
  | unquote => exact Le.refl _
  | define => exact Le.refl _
  | lambda => exact Le.refl _
  | setBang =>
    simp only [evalKw]
    split
    · split
      · exact Le.refl _
      · exact Le.bind (hr.eval _ ρ) (fun _ => Le.refl _)
    · exact Le.refl _
  | if_ =>
    simp only [evalKw]
    split
    · refine Le.bind (hr.eval _ ρ) (fun v => ?_)
      split
      · exact hr.eval _ ρ
      · exact Le.refl _
    · refine Le.bind (hr.eval _ ρ) (fun v => ?_)
      split
      · exact hr.eval _ ρ
      · exact hr.eval _ ρ
    · exact Le.refl _
  | let_ =>
    simp only [evalKw]
    split
    · split
      · split
        · exact Le.refl _
        · refine Le.bind (le_evalArgs hr ρ _) (fun vs => ?_)
          refine Le.bind (Le.refl _) (fun l => ?_)
          exact Le.bind (Le.refl _) (fun _ => hr.apply _ vs)
      · exact Le.refl _
    · split
      · refine Le.bind (le_evalArgs hr ρ _) (fun vs => ?_)
        exact Le.bind (Le.refl _) (fun ρ' => le_evalBody hr ρ' _)
      · exact Le.refl _
    · exact Le.refl _
  | letStar =>
    simp only [evalKw]
    split
    · split
      · exact le_evalLetStar hr _ _ ρ
      · exact Le.refl _
    · exact Le.refl _
  | letrec =>
    simp only [evalKw]
    split
    · split
      · refine Le.bind (Le.refl _) (fun ρ' => ?_)
        exact Le.bind (le_evalLetrecInits hr ρ' _) (fun _ => le_evalBody hr ρ' _)
      · exact Le.refl _
    · exact Le.refl _
  | begin_ =>
    simp only [evalKw]
    split
    · exact le_evalExprs hr ρ _
    · exact Le.refl _
  | cond =>
    simp only [evalKw]
    split
    · exact le_evalCond hr ρ _
    · exact Le.refl _
  | case_ =>
    simp only [evalKw]
    split
    · split
      · exact Le.bind (hr.eval _ ρ) (fun key => le_evalCase hr ρ key _)
      · exact Le.refl _
    · exact Le.refl _
  | and_ =>
    simp only [evalKw]
    split
    · exact le_evalAnd hr ρ _
    · exact Le.refl _
  | or_ =>
    simp only [evalKw]
    split
    · exact le_evalOr hr ρ _
    · exact Le.refl _
  | when_ =>
    simp only [evalKw]
    split
    · refine Le.bind (hr.eval _ ρ) (fun v => ?_)
      split
      · exact le_evalExprs hr ρ _
      · exact Le.refl _
    · exact Le.refl _
  | unless_ =>
    simp only [evalKw]
    split
    · refine Le.bind (hr.eval _ ρ) (fun v => ?_)
      split
      · exact Le.refl _
      · exact le_evalExprs hr ρ _
    · exact Le.refl _
  | delay => exact Le.refl _

end Marwood.Spec.Eval
