import Marwood.Lemmas.StackWFLaws
/-!
# `step` consults `callee` only at `(heap, acc)` of the current state

`HeapOps.withCallee ops c` replaces the `callee` field. `step_wc`: if `c` agrees with `ops.callee` on the
heap and accumulator of `s`, one instruction from `s` is the same under both. Used to relate the concrete
machine (`concreteOps ext`) to its callee-guarded version (`Lemmas/ConcreteLawsOps.lean: gops ext`).
-/
namespace Marwood.Vm
variable {H : Type}

/-- `ops` with another `callee` -/
def HeapOps.withCallee (ops : HeapOps H) (c : H → VCell → Callee) : HeapOps H := { ops with callee := c }

theorem pushList_wc (ops : HeapOps H) (c : H → VCell → Callee) (s : St H) :
    ∀ (fuel : Nat) (rest : VCell) (n : Nat) (st : Stack),
      builtinApply.pushList (ops.withCallee c) s fuel rest n st = builtinApply.pushList ops s fuel rest n st := by
  intro fuel
  induction fuel with
  | zero => intro rest n st; rfl
  | succ f ih =>
    intro rest n st
    unfold builtinApply.pushList
    cases rest <;> first | rfl | exact ih _ _ _

theorem builtinApply_wc (ops : HeapOps H) (c : H → VCell → Callee) (s : St H) :
    builtinApply (ops.withCallee c) s = builtinApply ops s := by
  unfold builtinApply
  simp only [pushList_wc]
  rfl

theorem varargCollect_wc (ops : HeapOps H) (c : H → VCell → Callee) :
    ∀ (k : Nat) (h : H) (acc : Nat) (st : Stack),
      varargCollect (ops.withCallee c) k h acc st = varargCollect ops k h acc st := by
  intro k
  induction k with
  | zero => intro h acc st; rfl
  | succ k ih =>
    intro h acc st
    unfold varargCollect
    simp only [ih]
    rfl

theorem runBuiltin_wc (ops : HeapOps H) (c : H → VCell → Callee) (id : Nat) (s : St H) :
    runBuiltin (ops.withCallee c) id s = runBuiltin ops id s := by
  unfold runBuiltin
  have e1 : builtinCallcc (ops.withCallee c) s = builtinCallcc ops s := rfl
  have e2 : builtinEvalProc (ops.withCallee c) s = builtinEvalProc ops s := rfl
  have e3 : builtinGeneric (ops.withCallee c) id s = builtinGeneric ops id s := rfl
  rw [builtinApply_wc, e1, e2, e3]
  rfl


theorem stepCall_wc (ops : HeapOps H) (c : H → VCell → Callee) (s : St H)
    (h : c s.heap s.acc = ops.callee s.heap s.acc) : stepCall (ops.withCallee c) s = stepCall ops s := by
  unfold stepCall
  have e : (ops.withCallee c).callee s.heap s.acc = ops.callee s.heap s.acc := h
  rw [e]
  simp only [runBuiltin_wc]

theorem stepTCall_wc (ops : HeapOps H) (c : H → VCell → Callee) (s : St H)
    (h : c s.heap s.acc = ops.callee s.heap s.acc) : stepTCall (ops.withCallee c) s = stepTCall ops s := by
  unfold stepTCall
  have e : (ops.withCallee c).callee s.heap s.acc = ops.callee s.heap s.acc := h
  rw [e]
  simp only [runBuiltin_wc]

theorem stepEnter_wc (ops : HeapOps H) (c : H → VCell → Callee) (s : St H)
    (h : c s.heap s.acc = ops.callee s.heap s.acc) : stepEnter (ops.withCallee c) s = stepEnter ops s := by
  unfold stepEnter
  have e : (ops.withCallee c).callee s.heap s.acc = ops.callee s.heap s.acc := h
  rw [e]
  rfl

theorem stepVarArg_wc (ops : HeapOps H) (c : H → VCell → Callee) (s : St H) :
    stepVarArg (ops.withCallee c) s = stepVarArg ops s := by
  unfold stepVarArg
  simp only [varargCollect_wc]
  rfl

/-- **`step` consults `callee` only at `(heap, acc)` of the current state** -/
theorem step_wc (ops : HeapOps H) (c : H → VCell → Callee) (s : St H)
    (h : c s.heap s.acc = ops.callee s.heap s.acc) : step (ops.withCallee c) s = step ops s := by
  unfold step
  have hr : readOpcode (ops.withCallee c) s = readOpcode ops s := rfl
  rw [hr]
  cases hro : readOpcode ops s with
  | err e => rfl
  | panic m => rfl
  | ok r =>
    obtain ⟨op, s1⟩ := r
    have e1 := (readOpcode_ok hro).2
    have h1 : c s1.heap s1.acc = ops.callee s1.heap s1.acc := by subst e1; exact h
    cases op <;> dsimp only [Bind.bind]
    all_goals first
      | rfl
      | (rw [stepCall_wc ops c s1 h1])
      | (rw [stepTCall_wc ops c s1 h1])
      | (rw [stepEnter_wc ops c s1 h1])
      | (rw [stepVarArg_wc ops c s1])

end Marwood.Vm
