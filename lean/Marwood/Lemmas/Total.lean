import Marwood.Total
import Marwood.Lemmas.Store
/-!
# Lemmas for C06: outcomes that are not panics, well-formed stores
-/
namespace Marwood.Store
open Outcome

def Outcome.NoPanic {α} (o : Outcome α) : Prop := ∀ m, o ≠ .panic m

@[simp] theorem noPanic_ok {α} (a : α) : Outcome.NoPanic (.ok a) := by intro m h; cases h
@[simp] theorem noPanic_err {α} (e : Err) : Outcome.NoPanic (.err e : Outcome α) := by intro m h; cases h
@[simp] theorem noPanic_diverge {α} : Outcome.NoPanic (.diverge : Outcome α) := by intro m h; cases h
@[simp] theorem noPanic_panic {α} (m : String) : ¬ Outcome.NoPanic (.panic m : Outcome α) := fun h => h m rfl

theorem noPanic_bind {α β} {x : Outcome α} {f : α → Outcome β} (hx : Outcome.NoPanic x)
    (hf : ∀ a, x = .ok a → Outcome.NoPanic (f a)) : Outcome.NoPanic (x >>= f) := by
  cases x with
  | ok a => exact hf a rfl
  | err e => exact noPanic_err e
  | panic m => exact absurd rfl (hx m)
  | diverge => exact noPanic_diverge

theorem get_valid {s : Store} (hs : s.WF) {v : VCell} (hv : VCell.Valid s v) :
    ∃ c, s.get v = .ok c ∧ VCell.Valid s c := by
  cases v with
  | ptr a =>
    have ha : a < s.cells.length := hv
    refine ⟨s.cells[a], ?_, hs.cells _ (List.getElem_mem ha)⟩
    simp [Store.get, ofOption, List.getElem?_eq_getElem ha]
  | _ => exact ⟨_, rfl, hv⟩

theorem vecGet_ok {s : Store} {id : Nat} (h : id < s.vecs.length) : s.vecGet id = .ok s.vecs[id] := by
  simp [Store.vecGet, ofOption, List.getElem?_eq_getElem h]

theorem popIndex_noPanic {s : Store} (hs : s.WF) {v : VCell} (hv : VCell.Valid s v) :
    Outcome.NoPanic (popIndex s v) := by
  obtain ⟨c, hc, _⟩ := get_valid hs hv
  unfold popIndex
  simp only [hc, bind_ok]
  split
  · unfold orErr; split <;> simp
  · simp

theorem popVector_spec {s : Store} (hs : s.WF) {v : VCell} (hv : VCell.Valid s v) :
    (∃ id, popVector s v = .ok id ∧ id < s.vecs.length) ∨ ∃ e, popVector s v = .err e := by
  obtain ⟨c, hc, hcv⟩ := get_valid hs hv
  unfold popVector
  simp only [hc, bind_ok]
  split
  · rename_i id; exact .inl ⟨id, rfl, hcv⟩
  · exact .inr ⟨_, rfl⟩

/-- `s'` has at least the cells / vectors / strings of `s` (as counts: validity is about bounds) -/
structure Store.Le (s s' : Store) : Prop where
  cells : s.cells.length ≤ s'.cells.length
  vecs : s.vecs.length ≤ s'.vecs.length
  strs : s.strs.length ≤ s'.strs.length

theorem Store.Le.refl (s : Store) : Store.Le s s := ⟨Nat.le_refl _, Nat.le_refl _, Nat.le_refl _⟩
theorem Store.Le.trans {a b c : Store} (h1 : Store.Le a b) (h2 : Store.Le b c) : Store.Le a c :=
  ⟨Nat.le_trans h1.cells h2.cells, Nat.le_trans h1.vecs h2.vecs, Nat.le_trans h1.strs h2.strs⟩

theorem VCell.Valid.mono {s s' : Store} (h : Store.Le s s') {v : VCell} (hv : VCell.Valid s v) :
    VCell.Valid s' v := by
  cases v <;> simp only [VCell.Valid] at hv ⊢
  · exact ⟨Nat.lt_of_lt_of_le hv.1 h.cells, Nat.lt_of_lt_of_le hv.2 h.cells⟩
  · exact Nat.lt_of_lt_of_le hv h.strs
  · exact Nat.lt_of_lt_of_le hv h.vecs
  · exact Nat.lt_of_lt_of_le hv h.cells

/-- the cell is valid *as the content of a heap cell* of a store that may have grown -/
theorem alloc_wf {s : Store} (hs : s.WF) {c : VCell} (hc : VCell.Valid s c) : (s.alloc c).1.WF := by
  have hle : Store.Le s (s.alloc c).1 := ⟨by simp [Store.alloc], Nat.le_refl _, Nat.le_refl _⟩
  constructor
  · intro x hx
    simp only [Store.alloc, List.mem_append, List.mem_singleton] at hx
    rcases hx with hx | rfl
    · exact (hs.cells x hx).mono hle
    · exact hc.mono hle
  · intro xs hxs x hx
    exact (hs.vecs xs hxs x hx).mono hle

theorem alloc_le (s : Store) (c : VCell) : Store.Le s (s.alloc c).1 :=
  ⟨by simp [Store.alloc], Nat.le_refl _, Nat.le_refl _⟩

theorem alloc_valid (s : Store) (c : VCell) : VCell.Valid (s.alloc c).1 (.ptr (s.alloc c).2) := by
  simp [VCell.Valid, Store.alloc]

/-- `put` of a valid value: the store stays well formed, only grows, and the result is a valid pointer -/
theorem put_wf {s : Store} (hs : s.WF) {v : VCell} (hv : VCell.Valid s v) :
    (s.put v).1.WF ∧ Store.Le s (s.put v).1 ∧ VCell.Valid (s.put v).1 (s.put v).2 ∧
      ∃ a, (s.put v).2 = .ptr a := by
  cases v with
  | ptr a => exact ⟨hs, Store.Le.refl s, hv, a, rfl⟩
  | sym name =>
    simp only [Store.put]
    cases hf : s.findSym name with
    | some a =>
      refine ⟨hs, Store.Le.refl s, ?_, a, rfl⟩
      have := findSym_some hf
      simp only [VCell.Valid]
      exact (List.getElem?_eq_some_iff.mp this).1
    | none => exact ⟨alloc_wf hs hv, alloc_le s _, alloc_valid s _, _, rfl⟩
  | _ => exact ⟨alloc_wf hs hv, alloc_le s _, alloc_valid s _, _, rfl⟩

theorem maybePut_wf {s : Store} (hs : s.WF) {v : VCell} (hv : VCell.Valid s v) :
    (s.maybePut v).1.WF ∧ Store.Le s (s.maybePut v).1 ∧ VCell.Valid (s.maybePut v).1 (s.maybePut v).2 := by
  cases v <;> first
    | exact ⟨hs, Store.Le.refl s, hv⟩
    | exact ⟨(put_wf hs hv).1, (put_wf hs hv).2.1, (put_wf hs hv).2.2.1⟩

theorem setCell_wf {s : Store} (hs : s.WF) {a : Nat} {c : VCell} (ha : a < s.cells.length)
    (hc : VCell.Valid s c) : ∃ s', s.setCell a c = .ok s' ∧ s'.WF ∧ Store.Le s s' ∧ Store.Le s' s := by
  refine ⟨{ s with cells := s.cells.set a c }, by simp [Store.setCell, ha], ?_, ?_, ?_⟩
  · have hle : Store.Le s { s with cells := s.cells.set a c } := ⟨by simp, Nat.le_refl _, Nat.le_refl _⟩
    constructor
    · intro x hx
      rcases List.mem_or_eq_of_mem_set hx with hx | rfl
      · exact (hs.cells x hx).mono hle
      · exact hc.mono hle
    · intro xs hxs x hx; exact (hs.vecs xs hxs x hx).mono hle
  · exact ⟨by simp, Nat.le_refl _, Nat.le_refl _⟩
  · exact ⟨by simp, Nat.le_refl _, Nat.le_refl _⟩

theorem newVec_wf {s : Store} (hs : s.WF) {xs : List VCell} (hx : ∀ x ∈ xs, VCell.Valid s x) :
    (s.newVec xs).1.WF ∧ Store.Le s (s.newVec xs).1 ∧ VCell.Valid (s.newVec xs).1 (s.newVec xs).2 := by
  have hle : Store.Le s (s.newVec xs).1 := ⟨Nat.le_refl _, by simp [Store.newVec], Nat.le_refl _⟩
  refine ⟨⟨fun c hc => (hs.cells c hc).mono hle, ?_⟩, hle, by simp [Store.newVec, VCell.Valid]⟩
  intro ys hys y hy
  simp only [Store.newVec, List.mem_append, List.mem_singleton] at hys
  rcases hys with hys | rfl
  · exact (hs.vecs ys hys y hy).mono hle
  · exact (hx y hy).mono hle

theorem newStr_wf {s : Store} (hs : s.WF) (t : Text) :
    (s.newStr t).1.WF ∧ Store.Le s (s.newStr t).1 ∧ VCell.Valid (s.newStr t).1 (s.newStr t).2 := by
  have hle : Store.Le s (s.newStr t).1 := ⟨Nat.le_refl _, Nat.le_refl _, by simp [Store.newStr]⟩
  exact ⟨⟨fun c hc => (hs.cells c hc).mono hle, fun ys hys y hy => (hs.vecs ys hys y hy).mono hle⟩,
    hle, by simp [Store.newStr, VCell.Valid]⟩

theorem vecSet_wf {s : Store} (hs : s.WF) {id : Nat} {xs : List VCell} (hid : id < s.vecs.length)
    (hx : ∀ x ∈ xs, VCell.Valid s x) : ∃ s', s.vecSet id xs = .ok s' ∧ s'.WF ∧ Store.Le s s' := by
  refine ⟨{ s with vecs := s.vecs.set id xs }, by simp [Store.vecSet, hid], ?_, ?_⟩
  · have hle : Store.Le s { s with vecs := s.vecs.set id xs } := ⟨Nat.le_refl _, by simp, Nat.le_refl _⟩
    constructor
    · intro x hx'; exact (hs.cells x hx').mono hle
    · intro ys hys y hy
      rcases List.mem_or_eq_of_mem_set hys with hys | rfl
      · exact (hs.vecs ys hys y hy).mono hle
      · exact (hx y hy).mono hle
  · exact ⟨Nat.le_refl _, by simp, Nat.le_refl _⟩

theorem strSet_wf {s : Store} (hs : s.WF) {id : Nat} (t : Text) (hid : id < s.strs.length) :
    ∃ s', s.strSet id t = .ok s' ∧ s'.WF ∧ Store.Le s s' := by
  refine ⟨{ s with strs := s.strs.set id t }, by simp [Store.strSet, hid], ?_, ?_⟩
  · have hle : Store.Le s { s with strs := s.strs.set id t } := ⟨Nat.le_refl _, Nat.le_refl _, by simp⟩
    exact ⟨fun x hx' => (hs.cells x hx').mono hle, fun ys hys y hy => (hs.vecs ys hys y hy).mono hle⟩
  · exact ⟨Nat.le_refl _, Nat.le_refl _, by simp⟩

theorem strGet_ok {s : Store} {id : Nat} (h : id < s.strs.length) : s.strGet id = .ok s.strs[id] := by
  simp [Store.strGet, ofOption, List.getElem?_eq_getElem h]

theorem vec_slots_valid {s : Store} (hs : s.WF) {id : Nat} (h : id < s.vecs.length) :
    ∀ x ∈ s.vecs[id], VCell.Valid s x := hs.vecs _ (List.getElem_mem h)

end Marwood.Store
