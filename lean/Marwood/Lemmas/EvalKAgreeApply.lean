import Marwood.Lemmas.EvalKAgreeForms
/-! # `Spec.EvalK` without `call/cc` is `Spec.Eval` — `map`/`for-each`, top-level forms, `applyStep` -/
namespace Marwood.Lemmas.EvalKAgree
open Marwood Marwood.Spec.Eval Marwood.Spec.EvalK

variable {r : Rec}

/-- a first-order computation whose value is returned as is -/
theorem sim_withM_ret (x : M Val) (σ : St) (κ : Kont) (ks : Array Kont) :
    Sim (withM x σ ks fun v σ' => retTo v κ σ' ks) (x σ) κ ks := by
  have h := Sim.withM x (fun v σ' => retTo v κ σ' ks) (fun v => (pure v : M Val)) σ κ ks
    (fun a σ' _ => Sim.pure a κ σ' ks)
  rw [bind_pure_M] at h
  exact h

/-- `mapApply` followed by what `map` / `for-each` do with the results -/
theorem sim_map (hr : SimRec r) (isMap : Bool) (g : Val) (κ : Kont) (ks : Array Kont) :
    ∀ (todo : List (List Val)) (done : List Val) (σ : St),
      Sim (mapGo isMap g done todo κ σ ks)
        ((mapApply r g todo >>= fun vs => if isMap then allocList (done.reverse ++ vs) else pure .void) σ) κ ks := by
  intro todo
  induction todo with
  | nil =>
    intro done σ
    cases isMap with
    | false => exact Sim.pure _ _ _ _
    | true =>
      show Sim (withM (allocList done.reverse) σ ks fun v σ' => retTo v κ σ' ks)
        (allocList (done.reverse ++ []) σ) κ ks
      rw [List.append_nil]
      exact sim_withM_ret _ _ _ _
  | cons a as ih =>
    intro done σ
    show Sim (appTo g a (.mapK isMap g done as :: κ) σ ks)
      (((r.apply g a >>= fun v => mapApply r g as >>= fun vs => pure (v :: vs)) >>=
        fun vs => if isMap then allocList (done.reverse ++ vs) else pure .void) σ) κ ks
    rw [bind_assoc_M]
    apply Sim.applyBind hr
    intro v σ' _
    have h := ih (v :: done) σ'
    rw [bind_assoc_M]
    simp only [pure_bind_M]
    show Sim (mapGo isMap g (v :: done) as κ σ' ks) _ κ ks
    simpa [List.reverse_cons, List.append_assoc] using h

/-- `evalTopForm` -/
theorem sim_topForm (hr : SimRec r) (d : Datum) (σ : St) (κ : Kont) (ks : Array Kont) :
    Sim (topFormGo d κ σ ks) (evalTopForm r d σ) κ ks := by
  unfold topFormGo evalTopForm
  split
  · apply sim_define hr
    intro x v σ'
    show Sim (withM (putGlobal x v) σ' ks fun _ σ'' => retTo .void κ σ'' ks)
      ((putGlobal x v >>= fun _ => pure .void) σ') κ ks
    apply Sim.withM
    intro _ σ'' _
    exact Sim.pure _ _ _ _
  · exact hr.eval d [] σ κ ks

/-- general sequencing: `x` delivers the result of `m` to `κ'`; `f` describes what the machine does from there -/
theorem Sim.bindK {x : Next} {m : M Val} {σ : St} {κ' κ : Kont} {ks : Array Kont} {f : Val → M Val}
    (h0 : Sim x (m σ) κ' ks)
    (h : ∀ v σ', m σ = .ok v σ' → Sim (retTo v κ' σ' ks) (f v σ') κ ks) :
    Sim x ((m >>= f) σ) κ ks := by
  rw [bind_apply]
  cases hx : m σ with
  | ok v σ' =>
    rw [hx] at h0
    exact Sim.of_reach h0 (h v σ' hx)
  | err e' σ' => rw [hx] at h0; exact h0
  | timeout => trivial

/-- `evalTopForms` -/
theorem sim_topForms (hr : SimRec r) : ∀ (ds : List Datum) (σ : St) (κ : Kont) (ks : Array Kont),
    Sim (topFormsGo ds κ σ ks) (evalTopForms r ds σ) κ ks := by
  intro ds
  induction ds with
  | nil => intro σ κ ks; exact Sim.throw _ _ _ _
  | cons d ds ih =>
    intro σ κ ks
    cases ds with
    | nil => exact sim_topForm hr d σ κ ks
    | cons d2 ds =>
      show Sim (topFormGo d (.topSeqK (d2 :: ds) :: κ) σ ks)
        ((evalTopForm r d >>= fun _ => evalTopForms r (d2 :: ds)) σ) κ ks
      apply Sim.bindK (sim_topForm hr d σ (.topSeqK (d2 :: ds) :: κ) ks)
      intro v σ' _
      apply Sim.ret
      exact ih σ' κ ks

/-- `evalTop` -/
theorem sim_top (hr : SimRec r) (d : Datum) (σ : St) (κ : Kont) (ks : Array Kont) :
    Sim (topGo d κ σ ks) (evalTop r d σ) κ ks := by
  unfold topGo evalTop
  split
  · dsimp only
    split
    · split
      · rename_i hp; rw [hp]; exact sim_topForms hr _ σ κ ks
      · rename_i hp; rw [hp]; exact Sim.throw _ _ _ _
    · exact sim_topForm hr _ σ κ ks
  · rename_i h1
    split
    · exact absurd rfl (h1 _ _)
    · exact sim_topForm hr _ σ κ ks

/-- `applyStep`; the body of a closure is taken as a hypothesis (proved in another file) -/
theorem sim_applyGo (hr : SimRec r)
    (hbody : ∀ (ρ : Env) (body : List Datum) (σ : St) (κ : Kont) (ks : Array Kont),
      Sim (bodyGo ρ body κ σ ks) (evalBody r ρ body σ) κ ks)
    (f : Val) (args : List Val) (σ : St) (κ : Kont) (ks : Array Kont) :
    Sim (applyGo f args κ σ ks) (applyStep r f args σ) κ ks := by
  unfold applyGo applyStep
  split
  · dsimp only
    apply Sim.withM
    intro ρ' σ' _
    exact hbody _ _ _ _ _
  · dsimp only
    split
    · dsimp only
      apply Sim.withM
      intro xs σ' _
      exact hr.apply _ _ _ _ _
    · rename_i h1
      split
      · exact absurd rfl (h1 _ _ _)
      · exact Sim.throw _ _ _ _
  · dsimp only
    split
    · dsimp only
      apply Sim.withM
      intro d σ' _
      exact sim_top hr d σ' κ ks
    · rename_i h1
      split
      · exact absurd rfl (h1 _)
      · exact Sim.throw _ _ _ _
  · dsimp only
    split
    · dsimp only
      apply Sim.withM
      intro c σ' _
      split
      · exact Sim.pure _ _ _ _
      · dsimp only
        apply Sim.applyBind hr
        intro v σ'' _
        show Sim (withM (readCell _) σ'' ks fun c σ' =>
            match c with
            | .promise true w => retTo w κ σ' ks
            | _ => withM (writeCell _ (.promise true v)) σ' ks fun _ σ'' => retTo v κ σ'' ks) _ κ ks
        apply Sim.withM
        intro c2 σ3 _
        split
        · exact Sim.pure _ _ _ _
        · rename_i h2
          split
          · exact absurd rfl (h2 _)
          · apply Sim.withM
            intro _ σ4 _
            exact Sim.pure _ _ _ _
      · rename_i h1 h2
        split
        · exact absurd rfl (h1 _)
        · exact absurd rfl (h2 _)
        · exact Sim.throw _ _ _ _
    · rename_i hd h1
      cases hd <;> first | exact absurd rfl (h1 _) | exact Sim.throw _ _ _ _
    · rename_i h1 h2
      split
      · exact absurd rfl (h1 _)
      · exact absurd rfl (h2 _)
      · exact Sim.throw _ _ _ _
  · dsimp only
    split
    · dsimp only
      apply Sim.withM
      intro lists σ' _
      exact sim_map hr true _ κ ks _ [] σ'
    · rename_i h1
      split
      · exact absurd rfl (h1 _ _ _)
      · exact Sim.throw _ _ _ _
  · dsimp only
    split
    · dsimp only
      apply Sim.withM
      intro lists σ' _
      exact sim_map hr false _ κ ks _ [] σ'
    · rename_i h1
      split
      · exact absurd rfl (h1 _ _ _)
      · exact Sim.throw _ _ _ _
  · rename_i p h1 h2 h3 h4 h5
    cases p <;> first | exact sim_withM_ret _ _ _ _ | contradiction
  · rename_i h0 h1 h2 h3 h4 h5 h6
    split
    · exact absurd rfl (h0 _ _ _ _)
    · exact absurd rfl h1
    · exact absurd rfl h2
    · exact absurd rfl h3
    · exact absurd rfl h4
    · exact absurd rfl h5
    · exact absurd rfl (h6 _)
    · exact Sim.throw _ _ _ _

end Marwood.Lemmas.EvalKAgree
