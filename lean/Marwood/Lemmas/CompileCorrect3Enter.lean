import Marwood.Lemmas.CompileCorrect3Lambda
/-!
# T01.3 stage 3 — `ENTER` of a closure with internal definitions: the activation environment, the new world,
the frame

`enter_core`: from the state in front of `ENTER` (after `CALL`/`TCALL`, and after `VARARG` if the procedure has a
rest parameter: exactly as many operands as the code object has formals) `ENTER` builds the activation
environment: the parameters become related, initialised variable locations; the internally defined names become
related locations whose slots hold `Undefined` (not readable yet); the captured slots keep pointing at theirs.
-/
namespace Marwood.Lemmas.CompileCorrect3
open Marwood Marwood.Vm Marwood.Lemmas.CompileCorrect Marwood.Lemmas.CompileCorrect2
open Marwood.Spec.Eval (Val Prim Cell Env evalN evalStep applyStep evalArgs properList quoteVal kwOf insertG
  k_quote k_if_ k_setBang k_define k_lambda)

variable {H : Type} {ops : HeapOps H} {D : RepData2 ops}

theorem ctxOK_of_em3 {c : Ctx} {fs ints : List Text} {caps : List (Text × Source)} (ha : c.args = fs)
    (hem : c.envmap = em3 fs ints caps) : CtxOK c := by
  intro x hx
  rw [ha] at hx
  obtain ⟨i, hi, hxi⟩ := List.getElem_of_mem hx
  have hg : fs[i]? = some x := by rw [List.getElem?_eq_getElem hi, hxi]
  have := em3_get_arg fs ints caps i x hg
  unfold inEnv
  rw [hem, List.any_eq_true]
  exact ⟨(x, .argument i), List.mem_of_getElem? this, by simp⟩

theorem enter_core (L : Laws3 D) {W : World} {s : MSt H} {σ2 : SSt} {lam cenv : Nat} {vs : List VCell} {ws : List Val}
    {st0 : Stack} {epc lc oc : Nat}
    {cst1 : CState} {co : Ctx} {p : LambdaParts} {bcode : List BC} {fs ints : List Text}
    {caps : List (Text × Source)} {ρc ρ2 : Env} {loc : Nat → Nat} {bnd : Nat} {pos : Nat}
    (hcal : ops.callee s.heap s.acc = .closure lam cenv)
    (a3 : p.ctx.args = fs) (hpfs : p.formals = fs) (a5 : (fs ++ ints).Nodup)
    (a8 : D.final[cst1.lambdas.length]? = some (lamOf p bcode)) (a10 : lam = D.LM cst1.lambdas.length)
    (a11 : ops.isLambda s.heap lam = true)
    (a13 : D.lamSrcs s.heap lam = some (p.ctx.envmap.map (rsrc co.envmap)))
    (a14 : p.ctx.envmap = em3 fs ints caps) (a15 : ∀ q ∈ caps, q.2 = .iofEnvironment)
    (a16 : ∀ j, j < p.ctx.envmap.length → ∃ g, ops.envGet s.heap cenv j = some g)
    (a17 : ∀ j x, (fs ++ ints).length ≤ j → p.ctx.envmap[j]? = some (x, .iofEnvironment) →
      ∃ e n l, ops.envGet s.heap cenv j = some (.lexEnvPtr e n) ∧ ρc.lookup x = some l ∧ W e n l ∧ InitM ops s.heap e n)
    (a18 : D.envOK s.heap cenv)
    (a19 : ∀ j x, p.ctx.envmap[j]? = some (x, .internal) → ops.envGet s.heap cenv j = some .undefined)
    (hprol : p.prologue[pos]? = some (.op .enter))
    (hi : Inv3 D W s.heap σ2) (hvs : All2 (VR3 D W s.heap σ2.store) vs ws) (hvl : vs.length = fs.length)
    (hipL : s.ipL = lam) (hipO : s.ipO = pos)
    (hst : LiveEq (callFrame st0 vs epc lc oc) s.stack) (hw0 : SWF st0) (hw : SWF s.stack)
    (hbnd : ∀ e n l, W e n l → l < bnd) (hloc_ge : ∀ n, n < fs.length + ints.length → bnd ≤ loc n)
    (hloc_inj : ∀ n m, n < fs.length + ints.length → m < fs.length + ints.length → loc n = loc m → n = m)
    (hfsl : ∀ i x, fs[i]? = some x → ρ2.lookup x = some (loc i))
    (hfsv : ∀ i w, ws[i]? = some w → σ2.store[loc i]? = some (.var w))
    (hil : ∀ i x, ints[i]? = some x → ρ2.lookup x = some (loc (fs.length + i)))
    (hiv : ∀ i, i < ints.length → ∃ w, σ2.store[loc (fs.length + i)]? = some (.var w))
    (hother : ∀ x, x ∉ fs ++ ints → ρ2.lookup x = ρc.lookup x) :
    ∃ (h' : H) (a : Nat) (W' : World) (stE : Stack),
      step ops s = .ok ({ s with heap := h', ep := a, stack := stE, bp := st0.sp + vs.length, ipO := s.ipO + 1 },
        false) ∧
      W.le W' ∧ Inv3 D W' h' σ2 ∧ EnvRep3 ops W' h' p.ctx a ρ2 (fun x => x ∈ ints) ∧ CtxOK p.ctx ∧
      SWF stE ∧ FrameAt stE (st0.sp + vs.length) ⟨vs.length, epc, lc, oc, s.bp, st0⟩ ∧
      Ext3 D s.heap σ2.store h' σ2.store := by
  -- the loaded code of the lambda
  obtain ⟨hcode, hinfo⟩ := hi.loaded _ _ a8
  have hposlt : pos < p.prologue.length := by
    rcases Nat.lt_or_ge pos p.prologue.length with h1 | h1
    · exact h1
    · rw [List.getElem?_eq_none h1] at hprol; cases hprol
  have hbcpos : (lamOf p bcode).bc[pos]? = some (.op .enter) := by
    show (p.prologue ++ bcode ++ [BC.op .ret])[pos]? = _
    rw [List.append_assoc, List.getElem?_append_left hposlt]; exact hprol
  have hargsl : (lamOf p bcode).args.length = fs.length := by simp [lamOf, hpfs]
  rw [← a10] at hcode
  rw [hargsl, ← a10] at hinfo
  -- the stack `CALL` left
  obtain ⟨k0, k1, k2, k3, k4⟩ := callFrame_cells st0 vs epc lc oc hw0
  have hsp : s.stack.sp = st0.sp + vs.length + 3 := by rw [← hst.1, callFrame_sp]
  have cell : ∀ i, i ≤ st0.sp + vs.length + 3 → s.stack.cells[i]? = (callFrame st0 vs epc lc oc).cells[i]? :=
    fun i hi' => (hst.2 i (by rw [callFrame_sp]; exact hi')).symm
  -- ENTER
  let B := st0.sp + vs.length
  have hB : s.stack.sp + 1 - 4 = B := by show _ = st0.sp + vs.length; omega
  let stE := s.stack.push (.basePtr s.bp)
  have hwE : SWF stE := push_swf _ _
  have spE : stE.sp = B + 4 := by show (s.stack.push _).sp = _; simp [hsp]; omega
  have cellE : ∀ i, i ≤ s.stack.sp → stE.cells[i]? = s.stack.cells[i]? := fun i hi' => push_below _ _ hw i hi'
  obtain ⟨h', a, hmk, hfresh, hargs, hints, hcap, hframe, hglob, hext, hsrx, hnok⟩ :=
    L.activation_ok s.heap σ2.store lam cenv B stE _ fs.length hi.extra a11 a13 hinfo a18
      (by
        intro j src hj
        obtain ⟨q, hq, _⟩ := map_get _ _ _ _ hj
        have hlt : j < p.ctx.envmap.length := by
          rcases Nat.lt_or_ge j p.ctx.envmap.length with h1 | h1
          · exact h1
          · rw [List.getElem?_eq_none h1] at hq; cases hq
        exact a16 j hlt)
      (by
        intro j i hj
        obtain ⟨q, hq, hr⟩ := map_get _ _ _ _ hj
        rw [a14] at hq
        rcases em3_entry_cases hq with ⟨hlt, x, _, rfl⟩ | ⟨_, _, x, _, rfl⟩ | ⟨_, hqc⟩
        · simp only [rsrc, RSrc.arg.injEq] at hr
          subst hr
          have := hwE
          unfold SWF at this
          refine ⟨hlt, by show _ ≤ st0.sp + vs.length; omega, ?_⟩
          show st0.sp + vs.length - (fs.length - j) + 1 < stE.cells.length
          omega
        · simp [rsrc] at hr
        · have := a15 q hqc
          obtain ⟨x, src⟩ := q
          simp only at this; subst this
          simp [rsrc] at hr)
      (by
        intro j hj
        obtain ⟨q, hq, hr⟩ := map_get _ _ _ _ hj
        have hq' := hq
        rw [a14] at hq
        rcases em3_entry_cases hq with ⟨_, x, _, rfl⟩ | ⟨_, _, x, _, rfl⟩ | ⟨_, hqc⟩
        · simp [rsrc] at hr
        · exact a19 j x hq'
        · have := a15 q hqc
          obtain ⟨x, src⟩ := q
          simp only at this; subst this
          simp [rsrc] at hr)
  have hfetch0 : ops.fetch s.heap s.ipL s.ipO = some (.opcode .enter) := by
    have := hcode.op pos (o := .enter) hbcpos
    rw [hipL, hipO]; simpa using this
  have hargc : s.stack.cells[s.stack.sp - 2]? = some (.argc fs.length) := by
    rw [show s.stack.sp - 2 = st0.sp + vs.length + 1 by omega, cell _ (by omega), k2, hvl]
  have hsE := step_enter_closure (s := s) (by rw [hipL]; exact a11) hfetch0 hcal hinfo (by omega) hargc
    (by rw [hB]; exact hmk)
  rw [hB] at hsE
  -- the argument cells
  have argCell : ∀ i v, vs[i]? = some v → stE.cells[B - (fs.length - i) + 1]? = some v := by
    intro i v hv
    have hlt : i < vs.length := by
      rcases Nat.lt_or_ge i vs.length with h1 | h1
      · exact h1
      · rw [List.getElem?_eq_none h1] at hv; cases hv
    have e0 : B - (fs.length - i) + 1 = st0.sp + 1 + i := by show st0.sp + vs.length - _ + 1 = _; omega
    rw [e0, cellE _ (by omega), cell _ (by omega), k1 i hlt, hv]
  have argSlot : ∀ i v, vs[i]? = some v → ops.envGet h' a i = some v := by
    intro i v hv
    have hlt : i < fs.length := by
      rcases Nat.lt_or_ge i vs.length with h1 | h1
      · omega
      · rw [List.getElem?_eq_none h1] at hv; cases hv
    have hx : fs[i]? = some fs[i] := List.getElem?_eq_getElem hlt
    have hent : p.ctx.envmap[i]? = some (fs[i], .argument i) := by
      rw [a14]; exact em3_get_arg fs ints caps i _ hx
    have : (p.ctx.envmap.map (rsrc co.envmap))[i]? = some (.arg i) := by
      rw [List.getElem?_map, hent]; rfl
    exact hargs i i v this (argCell i v hv)
  have intSlot : ∀ i, i < ints.length → ops.envGet h' a (fs.length + i) = some .undefined := by
    intro i hlt
    have hx : ints[i]? = some ints[i] := List.getElem?_eq_getElem hlt
    have hent : p.ctx.envmap[fs.length + i]? = some (ints[i], .internal) := by
      rw [a14]; exact em3_get_int fs ints caps i _ hx
    have : (p.ctx.envmap.map (rsrc co.envmap))[fs.length + i]? = some .internal := by
      rw [List.getElem?_map, hent]; rfl
    exact hints _ this
  -- the new world
  let W' : World := fun e n l => W e n l ∨ (e = a ∧ n < fs.length + ints.length ∧ l = loc n)
  have hwW : W.le W' := fun e n l h => .inl h
  have oldNe : ∀ e n l, W e n l → e ≠ a := by
    intro e n l hW e0
    subst e0
    obtain ⟨v, _, h1, _⟩ := hi.vars _ n l hW
    rw [hfresh n] at h1; cases h1
  have hvs' : All2 (VR3 D W' h' σ2.store) vs ws := All2.vr3_mono hvs hext hwW
  have hi1 : Inv3 D W' h' σ2 := by
    refine ⟨fun y u hn hy => ?_, fun y hn hy => ?_, hsrx, hi.gset, hi.loaded.ext hext.toExt2, ?_, ?_, ?_, ?_⟩
    rotate_right
    · intro e n l hW ok
      rcases hW with hW | ⟨rfl, _, _⟩
      · obtain ⟨v, _, g1, _⟩ := hi.vars e n l hW
        exact hi.wact e n l hW (hext.okBack e n v g1 ok)
      · exact hnok ok
    · rw [hglob]; exact (hi.bound y u hn hy).mono hext hwW
    · rw [hglob]; exact hi.unbound y hn hy
    · intro e n l l' h1 h2
      rcases h1 with h1 | ⟨rfl, _, rfl⟩ <;> rcases h2 with h2 | ⟨h2e, _, h2l⟩
      · exact hi.wfun e n l l' h1 h2
      · exact absurd h2e (oldNe _ _ _ h1)
      · exact absurd rfl (oldNe _ _ _ h2)
      · exact h2l.symm
    · intro e n e' n' l h1 h2
      rcases h1 with h1 | ⟨rfl, hn1, rfl⟩ <;> rcases h2 with h2 | ⟨h2e, hn2, h2l⟩
      · exact hi.winj e n e' n' l h1 h2
      · have := hbnd _ _ _ h1; have := hloc_ge _ hn2; omega
      · have := hbnd _ _ _ h2; have := hloc_ge _ hn1; omega
      · exact ⟨h2e.symm, hloc_inj _ _ hn1 hn2 h2l⟩
    · intro e n l hW
      rcases hW with hW | ⟨rfl, hn, rfl⟩
      · obtain ⟨v, u, g1, g2, g3, g4⟩ := hi.vars e n l hW
        exact ⟨v, u, by rw [hframe e n (oldNe _ _ _ hW)]; exact g1, g2, g3, fun hv => (g4 hv).mono hext hwW⟩
      · by_cases hnf : n < fs.length
        · have hlt : n < vs.length := by omega
          have hv : vs[n]? = some vs[n] := List.getElem?_eq_getElem hlt
          obtain ⟨u, hu, hr⟩ := All2.get hvs' n _ hv
          exact ⟨vs[n], u, argSlot n _ hv, VR3.not_envptr L hr, hfsv n u hu, fun _ => hr⟩
        · have hlt : n - fs.length < ints.length := by omega
          obtain ⟨u, hu⟩ := hiv _ hlt
          have e0 : fs.length + (n - fs.length) = n := by omega
          rw [e0] at hu
          refine ⟨.undefined, u, ?_, rfl, hu, fun hv => absurd rfl hv⟩
          have := intSlot _ hlt
          rwa [e0] at this
  have her1 : EnvRep3 ops W' h' p.ctx a ρ2 (fun x => x ∈ ints) := by
    intro x j hj
    rw [a14] at hj
    rcases slot3_cases a5 hj with ⟨hlt, hx⟩ | ⟨hge, hlt, hx⟩ | ⟨hge, hxn, src, hent, hmem⟩
    · have hltv : j < vs.length := by omega
      have hv : vs[j]? = some vs[j] := List.getElem?_eq_getElem hltv
      obtain ⟨u, _, hr⟩ := All2.get hvs' j _ hv
      exact ⟨a, j, loc j, .inr ⟨rfl, rfl, vs[j], argSlot j _ hv, VR3.not_envptr L hr⟩, hfsl j x hx,
        .inr ⟨rfl, by omega, rfl⟩, fun _ => ⟨vs[j], argSlot j _ hv, VR3.not_envptr L hr, VR3.ne_undefined L hr⟩⟩
    · have hlt' : j - fs.length < ints.length := by omega
      have e0 : fs.length + (j - fs.length) = j := by omega
      have hs := intSlot _ hlt'
      rw [e0] at hs
      have hl := hil _ x hx
      rw [e0] at hl
      exact ⟨a, j, loc j, .inr ⟨rfl, rfl, .undefined, hs, rfl⟩, hl, .inr ⟨rfl, hlt, rfl⟩,
        fun hu => absurd (List.mem_of_getElem? hx) hu⟩
    · have hsrc := a15 _ hmem
      simp only at hsrc
      subst hsrc
      rw [← a14] at hent
      obtain ⟨e, n', l, g1, g2, g3, g4⟩ := a17 j x (by simp only [List.length_append]; omega) hent
      have : (p.ctx.envmap.map (rsrc co.envmap))[j]? = some (.iofEnv ((slotIdx co.envmap x).getD 0)) := by
        rw [List.getElem?_map, hent]; rfl
      have hslot := hcap j _ this
      rw [g1] at hslot
      exact ⟨e, n', l, .inl hslot, by rw [hother x hxn]; exact g2, .inl g3, fun _ => hext.init _ _ g4⟩
  have hcx : CtxOK p.ctx := ctxOK_of_em3 a3 a14
  have hfrE : FrameAt stE B ⟨vs.length, epc, lc, oc, s.bp, st0⟩ := by
    refine ⟨?_, ?_, ?_, ?_, by show vs.length ≤ st0.sp + vs.length; omega, by show B + 4 ≤ stE.sp; omega,
      by show st0.sp = st0.sp + vs.length - vs.length; omega, fun i hi' => ?_, hw0⟩
    · show stE.cells[B + 1]? = _
      rw [cellE _ (by omega), cell _ (by show st0.sp + vs.length + 1 ≤ _; omega)]; exact k2
    · show stE.cells[B + 2]? = _
      rw [cellE _ (by omega), cell _ (by show st0.sp + vs.length + 2 ≤ _; omega)]; exact k3
    · show stE.cells[B + 3]? = _
      rw [cellE _ (by omega), cell _ (by show st0.sp + vs.length + 3 ≤ _; omega)]; exact k4
    · show stE.cells[B + 4]? = _
      have := push_top s.stack (.basePtr s.bp)
      rw [hsp] at this
      exact this
    · show st0.cells[i]? = stE.cells[i]?
      have hi'' : i ≤ st0.sp := hi'
      rw [cellE _ (by omega), cell _ (by omega), k0 i hi'']
  exact ⟨h', a, W', stE, hsE, hwW, hi1, her1, hcx, hwE, hfrE, hext⟩

end Marwood.Lemmas.CompileCorrect3
