import Marwood.Lemmas.EvalExtraMain
/-!
# The CONVERSE simulation for `Spec.Eval` under extra cells: framework

`Lemmas/EvalExtra*.lean` prove: if the run in the SMALLER store (the native meaning, guarded) is
definite, the run in the larger store (the expansion) has the related outcome. Here the other
direction: `SimR f R m m'` — from related states, if `m'` (the run in the LARGER store) ends
definitely then `m` ends with the same kind of outcome, related results and related states. Same
relations `VRel f`, `CellRel f`, `StRel f` as in the forward direction.

The guard sits on the right: the helpers that take their fuel from the store size get MORE fuel in
the larger store, so the run there must stay `k` short of its bound (`sguardN k`, `k` = number of
extra cells: `f l ≤ l + k`) for the run in the smaller store to stay within its own.
-/
namespace Marwood.Spec.Eval.Conv
open Marwood Marwood.Spec.Eval Marwood.Spec.Eval.Extra

/-- outcomes correspond; nothing is claimed when the SECOND computation ran out of fuel -/
def ResRelR {α α' : Type} (f : LMap) (R : α → α' → Prop) : Res α → Res α' → Prop
  | .ok a s, .ok a' s' => R a a' ∧ StRel f s s'
  | .err e s, .err e' s' => e = e' ∧ StRel f s s'
  | _, .timeout => True
  | _, _ => False

def SimR {α α' : Type} (f : LMap) (R : α → α' → Prop) (m : M α) (m' : M α') : Prop :=
  ∀ st st', StRel f st st' → ResRelR f R (m st) (m' st')

variable {f : LMap} {α α' β β' : Type}

theorem ResRelR.ok_inv {R : α → α' → Prop} {a' : α'} {s' : St} {res : Res α} (h : ResRelR f R res (.ok a' s')) :
    ∃ a s, res = .ok a s ∧ R a a' ∧ StRel f s s' := by
  cases res with
  | ok a s => exact ⟨a, s, rfl, h.1, h.2⟩
  | err e s => exact h.elim
  | timeout => exact h.elim

theorem ResRelR.err_inv {R : α → α' → Prop} {e : ErrClass} {s' : St} {res : Res α} (h : ResRelR f R res (.err e s')) :
    ∃ s, res = .err e s ∧ StRel f s s' := by
  cases res with
  | ok a s => exact h.elim
  | err e' s => obtain ⟨rfl, h2⟩ := h; exact ⟨s, rfl, h2⟩
  | timeout => exact h.elim

theorem ResRelR.timeout_right {R : α → α' → Prop} (res : Res α) : ResRelR f R res (.timeout : Res α') := by
  cases res <;> trivial

theorem ResRelR.mono {R Q : α → α' → Prop} {res : Res α} {res' : Res α'} (h : ResRelR f R res res')
    (hq : ∀ a a', R a a' → Q a a') : ResRelR f Q res res' := by
  cases res' with
  | ok a' s' => obtain ⟨a, s, rfl, h1, h2⟩ := h.ok_inv; exact ⟨hq _ _ h1, h2⟩
  | err e s' => obtain ⟨s, rfl, h2⟩ := h.err_inv; exact ⟨rfl, h2⟩
  | timeout => exact ResRelR.timeout_right _

/-- the first computation is definite when the second is -/
theorem ResRelR.definite {R : α → α' → Prop} {res : Res α} {res' : Res α'} (h : ResRelR f R res res')
    (hd : res' ≠ .timeout) : res ≠ .timeout := by
  cases res' with
  | ok a' s' => obtain ⟨a, s, rfl, _⟩ := h.ok_inv; simp
  | err e s' => obtain ⟨s, rfl, _⟩ := h.err_inv; simp
  | timeout => exact absurd rfl hd

/-- where both are definite the two relations coincide -/
theorem ResRelR.of_fwd {R : α → α' → Prop} {res : Res α} {res' : Res α'} (h : ResRel f R res res')
    (hd : res ≠ .timeout) : ResRelR f R res res' := by
  cases res with
  | ok a s => obtain ⟨a', s', rfl, h1, h2⟩ := h.ok_inv; exact ⟨h1, h2⟩
  | err e s => obtain ⟨s', rfl, h2⟩ := h.err_inv; exact ⟨rfl, h2⟩
  | timeout => exact absurd rfl hd

theorem ResRelR.to_fwd {R : α → α' → Prop} {res : Res α} {res' : Res α'} (h : ResRelR f R res res')
    (hd : res' ≠ .timeout) : ResRel f R res res' := by
  cases res' with
  | ok a' s' => obtain ⟨a, s, rfl, h1, h2⟩ := h.ok_inv; exact ⟨h1, h2⟩
  | err e s' => obtain ⟨s, rfl, h2⟩ := h.err_inv; exact ⟨rfl, h2⟩
  | timeout => exact absurd rfl hd

/-- sequencing, from one pair of states -/
theorem ResRelR.bind {R : α → α' → Prop} {Q : β → β' → Prop} {m : M α} {m' : M α'} {k : α → M β} {k' : α' → M β'}
    {st st' : St} (hm : ResRelR f R (m st) (m' st'))
    (hk : ∀ a a' s s', m st = .ok a s → R a a' → StRel f s s' → ResRelR f Q (k a s) (k' a' s')) :
    ResRelR f Q ((m >>= k) st) ((m' >>= k') st') := by
  show ResRelR f Q (M.bind' m k st) (M.bind' m' k' st')
  unfold M.bind'
  cases h1 : m' st' with
  | ok a' s' =>
    rw [h1] at hm
    obtain ⟨a, s, h2, ra, rs⟩ := hm.ok_inv
    simp only [h2]
    exact hk a a' s s' h2 ra rs
  | err e s' =>
    rw [h1] at hm
    obtain ⟨s, h2, rs⟩ := hm.err_inv
    simp only [h2]
    exact ⟨rfl, rs⟩
  | timeout => exact ResRelR.timeout_right _

theorem SimR.bind {R : α → α' → Prop} {Q : β → β' → Prop} {m : M α} {m' : M α'} {k : α → M β} {k' : α' → M β'}
    (hm : SimR f R m m') (hk : ∀ a a', R a a' → SimR f Q (k a) (k' a')) : SimR f Q (m >>= k) (m' >>= k') := by
  intro st st' r
  exact ResRelR.bind (hm st st' r) (fun a a' s s' _ ra rs => hk a a' ra s s' rs)

theorem SimR.pure {R : α → α' → Prop} (a : α) (a' : α') (h : R a a') : SimR f R (pure a : M α) (pure a' : M α') := by
  intro st st' r; exact ⟨h, r⟩

theorem SimR.throw {R : α → α' → Prop} (e : ErrClass) : SimR f R (throw e : M α) (throw e : M α') := by
  intro st st' r; exact ⟨rfl, r⟩

theorem SimR.timeout {R : α → α' → Prop} (m : M α) : SimR f R m (timeoutM : M α') := by
  intro st st' _; exact ResRelR.timeout_right _

theorem SimR.mono {R Q : α → α' → Prop} {m : M α} {m' : M α'} (hm : SimR f R m m')
    (hq : ∀ a a', R a a' → Q a a') : SimR f Q m m' := fun st st' r => (hm st st' r).mono hq

/-- a forward simulation whose first computation never runs out of fuel is a converse simulation -/
theorem SimR.of_fwd {R : α → α' → Prop} {m : M α} {m' : M α'} (h : Extra.Sim f R m m')
    (hnt : ∀ st, m st ≠ .timeout) : SimR f R m m' :=
  fun st st' r => ResRelR.of_fwd (h st st' r) (hnt st)

/-! ## the state operations -/

theorem simR_allocCell {c c' : Cell} (hc : CellRel f c c') :
    SimR f (fun l l' => f l = l') (allocCell c) (allocCell c') := by
  intro st st' r
  have h0 : f st.store.size = st'.store.size := by simpa using r.front 0
  refine ⟨h0, ?_, ?_, ?_, r.out, r.globals⟩
  · intro l d hl
    simp only [Array.getElem?_push] at hl
    split at hl
    · rename_i hsz
      cases hl
      subst hsz
      refine ⟨c', ?_, hc⟩
      rw [h0]; simp
    · obtain ⟨d', h1, h2⟩ := r.cells l d hl
      refine ⟨d', ?_, h2⟩
      have hlt : f l < st'.store.size := by
        rcases Nat.lt_or_ge (f l) st'.store.size with h | h
        · exact h
        · rw [Array.getElem?_eq_none h] at h1; cases h1
      have hne : ¬ f l = st'.store.size := by omega
      simp only [Array.getElem?_push, if_neg hne]
      exact h1
  · intro i
    simp only [Array.size_push]
    have := r.front (i + 1)
    rw [Nat.add_assoc, Nat.add_comm 1 i, this]
    omega
  · simp only [Array.size_push]; have := r.size_le; omega

theorem simR_readCell {l l' : Loc} (hl : f l = l') : SimR f (CellRel f) (readCell l) (readCell l') := by
  intro st st' r
  subst hl
  simp only [readCell]
  cases h : st.store[l]? with
  | some c =>
    obtain ⟨c', h1, h2⟩ := r.cells l c h
    simp only [h1]
    exact ⟨h2, r⟩
  | none =>
    have hge : st.store.size ≤ l := by
      rcases Nat.lt_or_ge l st.store.size with h' | h'
      · rw [Array.getElem?_eq_getElem h'] at h; cases h
      · exact h'
    obtain ⟨i, rfl⟩ := Nat.exists_eq_add_of_le hge
    rw [r.front i, Array.getElem?_eq_none (Nat.le_add_right _ _)]
    exact ⟨rfl, r⟩

theorem simR_writeCell (hf : Inj f) {l l' : Loc} {c c' : Cell} (hl : f l = l') (hc : CellRel f c c') :
    SimR f (fun _ _ => True) (writeCell l c) (writeCell l' c') := by
  intro st st' r
  subst hl
  simp only [writeCell]
  by_cases h : l < st.store.size
  · obtain ⟨d', h1, _⟩ := r.cells l _ (Array.getElem?_eq_getElem h)
    have hlt : f l < st'.store.size := by
      rcases Nat.lt_or_ge (f l) st'.store.size with h' | h'
      · exact h'
      · rw [Array.getElem?_eq_none h'] at h1; cases h1
    rw [if_pos h, if_pos hlt]
    refine ⟨trivial, ?_, ?_, ?_, r.out, r.globals⟩
    · intro l2 d hl2
      simp only [Array.getElem?_setIfInBounds] at hl2 ⊢
      by_cases e : l = l2
      · subst e
        simp only [if_true, h] at hl2
        cases hl2
        exact ⟨c', by simp [hlt], hc⟩
      · rw [if_neg e] at hl2
        obtain ⟨d2, h3, h4⟩ := r.cells l2 d hl2
        have : f l ≠ f l2 := fun e' => e (hf _ _ e')
        exact ⟨d2, by rw [if_neg this]; exact h3, h4⟩
    · intro i; simpa using r.front i
    · simpa using r.size_le
  · have hge : st.store.size ≤ l := Nat.le_of_not_lt h
    obtain ⟨i, rfl⟩ := Nat.exists_eq_add_of_le hge
    have h2 : ¬ st'.store.size + i < st'.store.size := by omega
    rw [if_neg h, r.front i, if_neg h2]
    exact ⟨rfl, r⟩

theorem simR_getGlobal (s : Text) : SimR f (VRel f) (getGlobal s) (getGlobal s) := by
  intro st st' r
  simp only [getGlobal]
  have := r.globals s
  revert this
  generalize st.globals.lookup s = o
  generalize st'.globals.lookup s = o'
  intro h
  cases h with
  | none => exact ⟨rfl, r⟩
  | some hv => exact ⟨hv, r⟩

theorem simR_putGlobal (s : Text) {v v' : Val} (hv : VRel f v v') :
    SimR f (fun _ _ => True) (putGlobal s v) (putGlobal s v') := by
  intro st st' r
  exact ⟨trivial, r.cells, r.front, r.size_le, r.out, gRel_insertG r s hv⟩

theorem simR_setGlobal (s : Text) {v v' : Val} (hv : VRel f v v') :
    SimR f (fun _ _ => True) (setGlobal s v) (setGlobal s v') := by
  intro st st' r
  simp only [setGlobal]
  have := r.globals s
  revert this
  generalize st.globals.lookup s = o
  generalize st'.globals.lookup s = o'
  intro h
  cases h with
  | none => exact ⟨rfl, r⟩
  | some _ => exact ⟨trivial, r.cells, r.front, r.size_le, r.out, gRel_insertG r s hv⟩

theorem simR_emit (w : Bool) (d : Datum) : SimR f (fun _ _ => True) (emit w d) (emit w d) := by
  intro st st' r
  exact ⟨trivial, r.cells, r.front, r.size_le, by simp [r.out], r.globals⟩

end Marwood.Spec.Eval.Conv
