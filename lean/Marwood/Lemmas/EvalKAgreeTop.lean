import Marwood.Lemmas.EvalKAgreeMain
/-!
# `Spec.EvalK` agrees with `Spec.Eval` — statements about expressions, top-level forms and the machine with `call/cc`
-/
namespace Marwood.Lemmas.EvalKAgree
open Marwood Marwood.Spec.Eval Marwood.Spec.EvalK

/-- reaching a final state within `n` steps is what the fuelled runner reports -/
theorem runNext_of_iter (n : Nat) : ∀ (x : Next) (o : Outcome) (σ : St) (ks : Array Kont),
    iter n x = .halt o σ ks → runNext false n x = some (o, σ, ks) := by
  induction n with
  | zero =>
    intro x o σ ks h
    simp only [iter] at h
    subst h; rfl
  | succ n ih =>
    intro x o σ ks h
    cases x with
    | run s => simp only [iter] at h; simp only [runNext]; exact ih _ o σ ks h
    | halt o' σ' ks' => simp only [iter] at h; cases h; rfl
    | stuck => simp [iter] at h

theorem runNext_of_reach {x : Next} {o : Outcome} {σ : St} {ks : Array Kont}
    (h : Reach x (.halt o σ ks)) : ∃ n, runNext false n x = some (o, σ, ks) := by
  obtain ⟨n, hn⟩ := h
  exact ⟨n, runNext_of_iter n x o σ ks hn⟩

/-- **expressions**: whatever `Spec.Eval` (at any fuel `n`) returns for `e` in environment `ρ` and store `σ`, the
    machine without `call/cc`, started on `e` in ANY continuation `κ` (and any table), reaches: the value returned to
    `κ` in the same final store, resp. the same error class in the same final store. Every form of `Spec.Eval`'s
    language is covered (core forms, all derived forms incl. quasiquote and delay/force, apply, eval, map, for-each,
    every primitive) — there is no fragment restriction. -/
theorem eval_agrees (n : Nat) (e : Datum) (ρ : Env) (σ : St) (κ : Kont) (ks : Array Kont) :
    (∀ v σ', (evalN n).eval e ρ σ = .ok v σ' → Reach (evalIn e ρ κ σ ks) (retTo v κ σ' ks)) ∧
    (∀ c σ', (evalN n).eval e ρ σ = .err c σ' → Reach (evalIn e ρ κ σ ks) (.halt (.err c) σ' ks)) := by
  have h := (simRec_evalN n).eval e ρ σ κ ks
  refine ⟨fun v σ' hv => ?_, fun c σ' hc => ?_⟩
  · rw [hv] at h; exact h
  · rw [hc] at h; exact h

theorem apply_agrees (n : Nat) (f : Val) (args : List Val) (σ : St) (κ : Kont) (ks : Array Kont) :
    (∀ v σ', (evalN n).apply f args σ = .ok v σ' → Reach (appTo f args κ σ ks) (retTo v κ σ' ks)) ∧
    (∀ c σ', (evalN n).apply f args σ = .err c σ' → Reach (appTo f args κ σ ks) (.halt (.err c) σ' ks)) := by
  have h := (simRec_evalN n).apply f args σ κ ks
  refine ⟨fun v σ' hv => ?_, fun c σ' hc => ?_⟩
  · rw [hv] at h; exact h
  · rw [hc] at h; exact h

/-- **top-level forms**: a definite result of `Spec.Eval` for a top-level form is the outcome of the machine (with
    enough steps), value, error class and final store alike -/
theorem top_agrees (n : Nat) (d : Datum) (σ : St) (ks : Array Kont) :
    (∀ v σ', evalTop (evalN n) d σ = .ok v σ' → ∃ m, runNext false m (topGo d [] σ ks) = some (.value v, σ', ks)) ∧
    (∀ c σ', evalTop (evalN n) d σ = .err c σ' → ∃ m, runNext false m (topGo d [] σ ks) = some (.err c, σ', ks)) := by
  have h := sim_top (simRec_evalN n) d σ [] ks
  refine ⟨fun v σ' hv => ?_, fun c σ' hc => ?_⟩
  · rw [hv] at h
    have h2 : Reach (retTo v [] σ' ks) (.halt (.value v) σ' ks) := ⟨1, rfl⟩
    exact runNext_of_reach (h.trans h2)
  · rw [hc] at h
    exact runNext_of_reach h

/-- the result `Spec.Eval` reports for a top-level form (`runForm`) — the machine reports the same value datum
    (`valToDatum` of the same value in the same store) -/
theorem runForm_agrees (n : Nat) (d : Datum) (σ σ' : St) (ks : Array Kont) (dv : Datum)
    (h : runForm n d σ = (.ok dv, some σ')) :
    ∃ m v, runNext false m (topGo d [] σ ks) = some (.value v, σ', ks)
      ∧ dv = valToDatum (σ'.store.size + 1) σ'.store v := by
  unfold runForm at h
  cases hv : evalTop (evalN n) d σ with
  | ok v σ1 =>
    rw [hv] at h
    simp only [Prod.mk.injEq, FormRes.ok.injEq, Option.some.injEq] at h
    obtain ⟨h1, h2⟩ := h
    subst h2
    obtain ⟨m, hm⟩ := (top_agrees n d σ ks).1 v σ1 hv
    exact ⟨m, v, hm, h1.symm⟩
  | err c σ1 => rw [hv] at h; simp at h
  | timeout => rw [hv] at h; simp at h

/-! ## The machine with `call/cc` on runs that apply no `call/cc` / continuation value -/

/-- the first `n` states of the run apply neither `call/cc` nor a continuation value -/
def Quiet : Nat → Next → Prop
  | 0, _ => True
  | n+1, .run s => (∀ f args, s.c = .app f args → special f = none) ∧ Quiet n (step false s)
  | _+1, _ => True

theorem step_eq_of_not_special (s : State)
    (h : ∀ f args, s.c = .app f args → special f = none) : step true s = step false s := by
  cases s with
  | mk c κ σ ks =>
    cases c with
    | ev e ρ => rfl
    | ret v => rfl
    | app f args =>
      have := h f args rfl
      simp [step, appGo, this]

/-- on such a run the machine with `call/cc` IS the machine without -/
theorem runNext_quiet (n : Nat) : ∀ (x : Next), Quiet n x → runNext true n x = runNext false n x := by
  induction n with
  | zero => intro x _; cases x <;> rfl
  | succ n ih =>
    intro x h
    cases x with
    | run s =>
      obtain ⟨h1, h2⟩ := h
      simp only [runNext]
      rw [step_eq_of_not_special s h1]
      exact ih _ h2
    | halt o σ ks => rfl
    | stuck => rfl

/-- **`Spec.EvalK` agrees with `Spec.Eval`**: for a top-level form on whose (machine) run no `call/cc` / continuation
    value is applied, a definite result of `Spec.Eval` — value or error class, and the final store — is the outcome of
    the K machine run with the same number of steps -/
theorem evalK_agrees_with_eval (n m : Nat) (d : Datum) (σ : St) (ks : Array Kont)
    (hq : Quiet m (topGo d [] σ ks)) :
    (∀ v σ', evalTop (evalN n) d σ = .ok v σ' → runNext false m (topGo d [] σ ks) = some (.value v, σ', ks) →
        runNext true m (topGo d [] σ ks) = some (.value v, σ', ks)) ∧
    (∀ c σ', evalTop (evalN n) d σ = .err c σ' → runNext false m (topGo d [] σ ks) = some (.err c, σ', ks) →
        runNext true m (topGo d [] σ ks) = some (.err c, σ', ks)) := by
  refine ⟨fun v σ' _ h => ?_, fun c σ' _ h => ?_⟩ <;> rw [runNext_quiet m _ hq] <;> exact h

end Marwood.Lemmas.EvalKAgree
