import Marwood.Lemmas.EvalDerivedRec
/-!
# T01.2, second half (part 5): `cond`, `case`, and the expansions that bind an identifier of their own
(`or` with two or more operands, `cond` with `=>` / test-only clauses: `var1`, `temp`)

The rules of `cond` that introduce no binding (`else`, `(t r1 r2 …)`) are exact equivalences. The
rules that expand to `(let ((x t)) (if x A B))` allocate a variable the native meaning does not
have and evaluate `A`, `B` under the extra binding `x`: `letIf_eval` gives what the expansion
computes; `or_exp_eval` / `cond_test_exp_eval` instantiate it next to the native meaning
(`or_native_eval`, `cond_test_native_eval`). The two coincide up to that one cell and the binding when the first
test is true (`or_exp_truthy`); closing the remaining case needs invariance of `Spec.Eval` under
an unused binding and an unreachable cell — NOT proved, and false as `Spec.Eval` stands for
programs that print cyclic data (the externalisation depth is the store size).
-/
namespace Marwood.Spec.Eval.Derived
open Marwood Marwood.Spec.Eval Marwood.Spec.Eval.Prelude

variable (r : Rec) (ρ : Env)

/-! ## cond: native meaning of the clause shapes -/

theorem native_cond (c : Datum) (cs : List Datum) : evalStep r (condUse (c :: cs)) ρ = evalCond r ρ (c :: cs) := by
  have hl : properList (Datum.pair c (Datum.ofList cs)) = some (c :: cs) := properList_ofList (c :: cs)
  simp only [condUse, L, s, Datum.ofList, evalStep, kwOf_cond, evalKw, hl]

theorem evalCond_else (r1 : Datum) (rs : List Datum) :
    evalCond r ρ [L (s k_else_ :: r1 :: rs)] = evalExprs r ρ (r1 :: rs) := by
  have hl : properList (L (Datum.sym k_else_ :: r1 :: rs)) = some (Datum.sym k_else_ :: r1 :: rs) :=
    properList_ofList _
  simp [evalCond, hl, s]

theorem evalCond_body (t r1 : Datum) (rs cs : List Datum) (ht : t ≠ s k_else_)
    (hr : ¬ (r1 = s k_arrow ∧ rs.length = 1)) :
    evalCond r ρ (L (t :: r1 :: rs) :: cs) = (do
      let v ← r.eval t ρ
      if truthy v then evalExprs r ρ (r1 :: rs) else evalCond r ρ cs) := by
  have hl : properList (L (t :: r1 :: rs)) = some (t :: r1 :: rs) := properList_ofList _
  have ht' : (t == Datum.sym k_else_) = false := by simpa [s] using ht
  simp only [evalCond, hl, ht']
  congr 1; funext v
  match rs, hr with
  | [], _ => rfl
  | [f], hr =>
    have : (r1 == Datum.sym k_arrow) = false := by
      simpa [s] using hr
    simp [this]
  | _ :: _ :: _, _ => rfl

theorem evalCond_test (t : Datum) (cs : List Datum) (ht : t ≠ s k_else_) :
    evalCond r ρ (L [t] :: cs) = (do
      let v ← r.eval t ρ
      if truthy v then pure v else evalCond r ρ cs) := by
  have hl : properList (L [t]) = some [t] := properList_ofList _
  have ht' : (t == Datum.sym k_else_) = false := by simpa [s] using ht
  simp only [evalCond, hl, ht']
  rfl

/-! ## cond: the rules without a binding -/

/-- **cond**, rule 1: `(cond (else r1 r2 …))` and `(begin r1 r2 …)` -/
theorem cond_else_same (r1 : Datum) (rs : List Datum) :
    Same 1 (condUse [L (s k_else_ :: r1 :: rs)]) (condElseExp r1 rs) ρ := by
  intro n
  cases n with
  | zero => exact ⟨Le.timeout _, Le.timeout _⟩
  | succ n =>
    have e : evalStep (evalN n) (condUse [L (s k_else_ :: r1 :: rs)]) ρ = evalStep (evalN n) (condElseExp r1 rs) ρ := by
      rw [native_cond, evalCond_else, condElseExp, native_begin]
    exact ⟨(Le.of_eq (by rw [evalN_succ_eval, evalN_succ_eval, e])).trans (eval_le_add (n+1) 1 _ ρ),
           (Le.of_eq (by rw [evalN_succ_eval, evalN_succ_eval, e])).trans (eval_le_add (n+1) 1 _ ρ)⟩

theorem native_condBodyExp (t r1 : Datum) (rs cs : List Datum) :
    evalStep r (condBodyExp t r1 rs cs) ρ = (do
      let v ← r.eval t ρ
      if truthy v then r.eval (L (s k_begin_ :: r1 :: rs)) ρ
      else (match cs with | [] => pure .void | c :: cs' => r.eval (condUse (c :: cs')) ρ)) := by
  cases cs with
  | nil => exact native_if2 r ρ _ _
  | cons c cs' => exact native_if3 r ρ _ _ _

/-- **cond**, rules 6 and 7: `(cond (t r1 r2 …) clause …)` and `(if t (begin r1 r2 …) [(cond clause …)])`;
    `t` is not `else` and the clause is not of the `(t => f)` shape -/
theorem cond_body_same (t r1 : Datum) (rs cs : List Datum) (ht : t ≠ s k_else_)
    (hr : ¬ (r1 = s k_arrow ∧ rs.length = 1)) :
    Same 1 (condUse (L (t :: r1 :: rs) :: cs)) (condBodyExp t r1 rs cs) ρ := by
  intro n
  cases n with
  | zero => exact ⟨Le.timeout _, Le.timeout _⟩
  | succ n =>
    constructor
    · rw [evalN_succ_eval, evalN_succ_eval, native_cond, evalCond_body _ _ t r1 rs cs ht hr, native_condBodyExp]
      refine Le.bind ((recLe_evalN_succ n).eval t ρ) (fun v => ?_)
      split
      · rw [evalN_succ_eval, native_begin]; exact Le.refl _
      · cases cs with
        | nil => exact Le.refl _
        | cons c cs' =>
          show Le _ ((evalN (n+1)).eval (condUse (c :: cs')) ρ)
          rw [evalN_succ_eval, native_cond]; exact Le.refl _
    · refine Le.trans ?_ (eval_le_add (n+1) 1 _ ρ)
      rw [evalN_succ_eval, evalN_succ_eval, native_cond, evalCond_body _ _ t r1 rs cs ht hr, native_condBodyExp]
      refine Le.bind (Le.refl _) (fun v => ?_)
      split
      · have := eval_le_step n (L (s k_begin_ :: r1 :: rs)) ρ
        rwa [native_begin] at this
      · cases cs with
        | nil => exact Le.refl _
        | cons c cs' =>
          show Le ((evalN n).eval (condUse (c :: cs')) ρ) _
          have := eval_le_step n (condUse (c :: cs')) ρ
          rwa [native_cond] at this

/-- **cond**, rule 4, `(cond (t))` against its expansion `t`: the native meaning yields `t`'s value
    when it is true and `#<void>` otherwise, the expansion yields `t`'s value always — they differ
    exactly when `t` yields `#f` (`#<void>` vs `#f`; R7RS leaves the value unspecified there). -/
theorem cond_test_final_eval (t : Datum) (ht : t ≠ s k_else_) (n : Nat) :
    (evalN (n+1)).eval (condUse [L [t]]) ρ = (do
      let v ← (evalN n).eval t ρ
      if truthy v then pure v else pure .void) ∧
    condTestExp t [] = t := by
  refine ⟨?_, rfl⟩
  rw [evalN_succ_eval, native_cond, evalCond_test _ _ t [] ht]
  rfl

/-! ## the expansions that bind an identifier: `(let ((x t)) (if x A B))` -/

/-- allocating a variable and reading it back -/
theorem alloc_read {β : Type} (v : Val) (K : Loc → Val → M β) :
    (allocCell (.var v) >>= fun l => readVar l >>= K l) = (allocCell (.var v) >>= fun l => K l v) := by
  funext st
  show M.bind' (allocCell (.var v)) (fun l => M.bind' (readVar l) (K l)) st = M.bind' (allocCell (.var v)) (fun l => K l v) st
  unfold M.bind' allocCell
  have : readVar st.store.size { st with store := st.store.push (.var v) } =
      .ok v { st with store := st.store.push (.var v) } := by
    show M.bind' (readCell _) _ _ = _
    simp [M.bind', readCell, Pure.pure, M.pure']
  simp only [this]

theorem isDefine_if (rest : List Datum) : isDefine (L (s k_if_ :: rest)) = false := by
  have : (k_if_ == k_define) = false := by decide
  simp [L, s, Datum.ofList, isDefine, this]

/-- what `(let ((x t)) (if x A B))` computes: `t`, a fresh variable `x` holding its value, then `A` or
    `B` under that binding -/
theorem letIf_eval (n : Nat) (x : Text) (t A B : Datum) (hx : reserved x = false) :
    (evalN (n+3)).eval (L [s k_let_, L [L [s x, t]], L [s k_if_, s x, A, B]]) ρ = (do
      let v ← (evalN (n+2)).eval t ρ
      let l ← allocCell (.var v)
      if truthy v then (evalN (n+1)).eval A ((x, l) :: ρ) else (evalN (n+1)).eval B ((x, l) :: ρ)) := by
  rw [evalN_succ_eval, let1_eval _ _ x t _ hx (isDefine_if _)]
  congr 1; funext v
  simp only [evalN_succ_eval (n := n + 1), native_if3, evalN_succ_eval (n := n), native_sym]
  have hv : ∀ l, evalVar x ((x, l) :: ρ) = readVar l := by
    intro l; simp [evalVar, hx, List.lookup]
  simp only [hv]
  exact alloc_read v _

/-- … and the one-armed `(let ((x t)) (if x A))` -/
theorem letIf2_eval (n : Nat) (x : Text) (t A : Datum) (hx : reserved x = false) :
    (evalN (n+3)).eval (L [s k_let_, L [L [s x, t]], L [s k_if_, s x, A]]) ρ = (do
      let v ← (evalN (n+2)).eval t ρ
      let l ← allocCell (.var v)
      if truthy v then (evalN (n+1)).eval A ((x, l) :: ρ) else pure .void) := by
  rw [evalN_succ_eval, let1_eval _ _ x t _ hx (isDefine_if _)]
  congr 1; funext v
  simp only [evalN_succ_eval (n := n + 1), native_if2, evalN_succ_eval (n := n), native_sym]
  have hv : ∀ l, evalVar x ((x, l) :: ρ) = readVar l := by
    intro l; simp [evalVar, hx, List.lookup]
  simp only [hv]
  exact alloc_read v _

/-! ## or with two or more operands -/

theorem or_native_eval (n : Nat) (e e2 : Datum) (es : List Datum) :
    (evalN (n+1)).eval (orUse (e :: e2 :: es)) ρ = (do
      let v ← (evalN n).eval e ρ
      if truthy v then pure v else evalOr (evalN n) ρ (e2 :: es)) := by
  rw [evalN_succ_eval, native_or]; rfl

/-- **or**, third rule, what the expansion `(let ((var1 e)) (if var1 var1 (or e2 …)))` computes: as the
    native meaning (`or_native_eval`) except that a variable `var1` holding `e`'s value is allocated
    and the remaining operands are evaluated under that binding -/
theorem or_exp_eval (n : Nat) (e e2 : Datum) (es : List Datum) :
    (evalN (n+4)).eval (orExp (e :: e2 :: es)) ρ = (do
      let v ← (evalN (n+3)).eval e ρ
      let l ← allocCell (.var v)
      if truthy v then pure v else evalOr (evalN (n+1)) ((k_var1, l) :: ρ) (e2 :: es)) := by
  have hx : reserved k_var1 = false := by decide
  rw [orExp, letIf_eval ρ (n+1) k_var1 e _ _ hx]
  congr 1; funext v
  simp only [evalN_succ_eval (n := n + 1), native_sym]
  have hv : ∀ l, evalVar k_var1 ((k_var1, l) :: ρ) = readVar l := by
    intro l; simp [evalVar, hx, List.lookup]
  simp only [hv]
  funext st
  show M.bind' (allocCell (.var v)) _ st = M.bind' (allocCell (.var v)) _ st
  unfold M.bind' allocCell
  simp only
  split
  · show M.bind' (readCell _) _ _ = _
    simp [M.bind', readCell, Pure.pure, M.pure']
  · exact congrFun (native_or (evalN (n+1)) _ (e2 :: es)) _

/-- … when the first operand is true both yield its value, the same globals and output; the store
    of the expansion is the native store plus the one variable cell -/
theorem or_exp_truthy (n : Nat) (e e2 : Datum) (es : List Datum) (st st1 : St) (v : Val)
    (he : (evalN n).eval e ρ st = .ok v st1) (hv : truthy v = true) :
    (evalN (n+1)).eval (orUse (e :: e2 :: es)) ρ st = .ok v st1 ∧
    (evalN (n+4)).eval (orExp (e :: e2 :: es)) ρ st = .ok v { st1 with store := st1.store.push (.var v) } := by
  constructor
  · rw [or_native_eval]
    show M.bind' _ _ st = _
    simp [M.bind', he, hv, Pure.pure, M.pure']
  · have he' : (evalN (n+3)).eval e ρ st = .ok v st1 := by
      rw [evalN_mono (Nat.le_add_right n 3) e ρ st (by simp [he]), he]
    rw [or_exp_eval]
    show M.bind' _ _ st = _
    simp only [M.bind', he', hv, if_true]
    rfl

/-! ## cond with a test-only clause followed by more clauses -/

theorem cond_test_native_eval (n : Nat) (t c : Datum) (cs : List Datum) (ht : t ≠ s k_else_) :
    (evalN (n+1)).eval (condUse (L [t] :: c :: cs)) ρ = (do
      let v ← (evalN n).eval t ρ
      if truthy v then pure v else evalCond (evalN n) ρ (c :: cs)) := by
  rw [evalN_succ_eval, native_cond, evalCond_test _ _ t _ ht]

/-- **cond**, rule 5, what `(let ((temp t)) (if temp temp (cond c cs …)))` computes: as the native
    meaning (`cond_test_native_eval`) except for the variable `temp` and its binding -/
theorem cond_test_exp_eval (n : Nat) (t c : Datum) (cs : List Datum) :
    (evalN (n+4)).eval (condTestExp t (c :: cs)) ρ = (do
      let v ← (evalN (n+3)).eval t ρ
      let l ← allocCell (.var v)
      if truthy v then pure v else evalCond (evalN (n+1)) ((k_temp, l) :: ρ) (c :: cs)) := by
  have hx : reserved k_temp = false := by decide
  rw [condTestExp, letIf_eval ρ (n+1) k_temp t _ _ hx]
  congr 1; funext v
  simp only [evalN_succ_eval (n := n + 1), native_sym]
  have hc : evalStep (evalN (n+1)) (L (s k_cond :: c :: cs)) = evalStep (evalN (n+1)) (condUse (c :: cs)) := rfl
  simp only [hc, native_cond]
  have hv : ∀ l, evalVar k_temp ((k_temp, l) :: ρ) = readVar l := by
    intro l; simp [evalVar, hx, List.lookup]
  simp only [hv]
  funext st
  show M.bind' (allocCell (.var v)) _ st = M.bind' (allocCell (.var v)) _ st
  unfold M.bind' allocCell
  simp only
  split
  · show M.bind' (readCell _) _ _ = _
    simp [M.bind', readCell, Pure.pure, M.pure']
  · rfl

/-- **cond**, rules 2 and 3, what `(let ((temp t)) (if temp (f temp) [(cond c cs …)]))` computes -/
theorem cond_arrow_exp_eval (n : Nat) (t f : Datum) (cs : List Datum) :
    (evalN (n+3)).eval (condArrowExp t f cs) ρ = (do
      let v ← (evalN (n+2)).eval t ρ
      let l ← allocCell (.var v)
      if truthy v then (evalN (n+1)).eval (L [f, s k_temp]) ((k_temp, l) :: ρ)
      else (match cs with
        | [] => pure .void
        | c :: cs' => (evalN (n+1)).eval (condUse (c :: cs')) ((k_temp, l) :: ρ))) := by
  have hx : reserved k_temp = false := by decide
  cases cs with
  | nil => exact letIf2_eval ρ n k_temp t _ hx
  | cons c cs' => exact letIf_eval ρ n k_temp t _ _ hx

/-! ## case -/

/-- **case**, rule 2: `(case k (else => f))` and `(f k)`, `f` not a syntactic keyword -/
theorem case_else_arrow_same (k f : Datum) (hf : ∀ x, f = .sym x → kwOf x = none) :
    Same 1 (caseUse k [L [s k_else_, s k_arrow, f]]) (caseElseArrowExp k f) ρ := by
  intro n
  cases n with
  | zero => exact ⟨Le.timeout _, Le.timeout _⟩
  | succ n =>
    have e : evalStep (evalN n) (caseUse k [L [s k_else_, s k_arrow, f]]) ρ =
        evalStep (evalN n) (caseElseArrowExp k f) ρ := by
      rw [caseElseArrowExp, native_app _ _ f [k] hf, evalArgs_one, bind_assoc]
      simp only [pure_bind]
      have hl : properList (Datum.ofList [L [s k_else_, s k_arrow, f]]) = some [L [s k_else_, s k_arrow, f]] :=
        properList_ofList _
      simp only [caseUse, L, s, Datum.ofList, evalStep, kwOf_case, evalKw] at hl ⊢
      simp [properList, evalCase]
    exact ⟨(Le.of_eq (by rw [evalN_succ_eval, evalN_succ_eval, e])).trans (eval_le_add (n+1) 1 _ ρ),
           (Le.of_eq (by rw [evalN_succ_eval, evalN_succ_eval, e])).trans (eval_le_add (n+1) 1 _ ρ)⟩

/-- **case**, rule 3, `(case k (else r1 r2 …))` against `(begin r1 r2 …)`: the native meaning evaluates
    the key first, the expansion does not mention it; they agree when evaluating `k` succeeds without
    effect (a constant, a bound variable). -/
theorem case_else_native_eval (k r1 : Datum) (rs : List Datum) (hr : ¬ (r1 = s k_arrow ∧ rs.length = 1)) (n : Nat) :
    (evalN (n+1)).eval (caseUse k [L (s k_else_ :: r1 :: rs)]) ρ =
      ((evalN n).eval k ρ >>= fun _ => evalExprs (evalN n) ρ (r1 :: rs)) ∧
    (evalN (n+1)).eval (caseElseExp r1 rs) ρ = evalExprs (evalN n) ρ (r1 :: rs) := by
  constructor
  · rw [evalN_succ_eval]
    have hl : properList (Datum.ofList (r1 :: rs)) = some (r1 :: rs) := properList_ofList _
    simp only [caseUse, L, s, Datum.ofList, evalStep, kwOf_case, evalKw, properList, Option.map] at hl ⊢
    simp only [evalCase, properList, hl, Option.map]
    congr 1; funext key
    match rs, hr with
    | [], _ => simp
    | [f], hr =>
      have : (r1 == Datum.sym k_arrow) = false := by simpa [s] using hr
      simp [this]
    | _ :: _ :: _, _ => simp
  · rw [evalN_succ_eval, caseElseExp, native_begin]

end Marwood.Spec.Eval.Derived
