import Marwood.Lemmas.Symbol
/-!
# Printed atoms decode to themselves (C10): string escapes, character spellings

* `unescapeGo_escapeStr`: `parse_string` inverts the escaping of `Display for Cell::String`, for
  every scalar value;
* `stringTail_escapeStr`, `stringInner_writeString`: the scanner finds the closing quote of a written
  string, and the parser cuts exactly the escaped body out of the token;
* `parseCharSpan_writeEscapedChar`: `parse_char` inverts `write_escaped_char`, for every scalar value.
-/
namespace Marwood

theorem char_eq_of_toNat {c : Char} {n : Nat} (h : c.toNat = n) : c = Char.ofNat n := by
  rw [← h, Char.ofNat_toNat]

/-! ## strings -/

theorem unescapeGo_esc1 (l : Char) (hl : l ≠ 'x') (rest : Text) :
    unescapeGo .norm ('\\' :: l :: rest) = consRes (escapeChar l) (unescapeGo .norm rest) := by
  rw [unescapeGo]
  simp only [if_true]
  rw [unescapeGo]
  simp only [hl, if_false]
  cases unescapeGo .norm rest <;> rfl

theorem escapeStrChar_decodes (c : Char) (rest : Text) :
    unescapeGo .norm (escapeStrChar c ++ rest) = consRes c (unescapeGo .norm rest) := by
  unfold escapeStrChar
  split
  · rename_i h
    rcases h with h | h <;> subst h <;> exact unescapeGo_esc1 _ (by decide) rest
  split
  · rename_i h; subst h; exact unescapeGo_esc1 't' (by decide) rest
  split
  · rename_i h; subst h; exact unescapeGo_esc1 'n' (by decide) rest
  split
  · rename_i h; subst h; exact unescapeGo_esc1 'r' (by decide) rest
  split
  · rename_i h; rw [char_eq_of_toNat h]; exact unescapeGo_esc1 'e' (by decide) rest
  split
  · rename_i h; rw [char_eq_of_toNat h]; exact unescapeGo_esc1 'a' (by decide) rest
  split
  · rename_i h; rw [char_eq_of_toNat h]; exact unescapeGo_esc1 'b' (by decide) rest
  split
  · rename_i h; rw [char_eq_of_toNat h]; exact unescapeGo_esc1 'v' (by decide) rest
  split
  · rename_i h; rw [char_eq_of_toNat h]; exact unescapeGo_esc1 'f' (by decide) rest
  split
  · have : '\\' :: 'x' :: (hexOf c ++ [';']) ++ rest = '\\' :: 'x' :: (hexOf c ++ (';' :: rest)) := by simp
    rw [this]
    exact unescapeGo_hexEscape c rest
  · rename_i h _ _ _ _ _ _ _ _ _
    have hc : c ≠ '\\' := fun e => h (Or.inr e)
    exact unescapeGo_norm_plain hc rest

/-- **string escape/unescape inverse**, for every text -/
theorem unescapeGo_escapeStr (s : Text) : unescapeGo .norm (escapeStr s) = .ok s := by
  induction s with
  | nil => rfl
  | cons c cs ih =>
    simp only [escapeStr]
    rw [escapeStrChar_decodes, ih]
    rfl

theorem parseString_escapeStr (s : Text) : parseString (escapeStr s) = .ok (.str s) := by
  unfold parseString
  rw [unescapeGo_escapeStr]

/-- a text in which the scanner of `scan_string` sees no closing quote and ends outside an escape -/
def QuoteFree : Bool → Text → Prop
  | esc, [] => esc = false
  | esc, c :: cs => ¬ (c = '"' ∧ esc = false) ∧ QuoteFree (c == '\\' && !esc) cs

theorem quoteFree_append : ∀ (a b : Text) (esc : Bool), QuoteFree esc a → QuoteFree false b →
    QuoteFree esc (a ++ b) := by
  intro a
  induction a with
  | nil => intro b esc ha hb; simp only [QuoteFree] at ha; subst ha; exact hb
  | cons c cs ih =>
    intro b esc ha hb
    simp only [List.cons_append, QuoteFree] at ha ⊢
    exact ⟨ha.1, ih b _ ha.2 hb⟩

theorem hexDigits_quoteFree : ∀ (ds : Text), (∀ x ∈ ds, x ≠ '"' ∧ x ≠ '\\') → QuoteFree false ds := by
  intro ds
  induction ds with
  | nil => intro _; rfl
  | cons c cs ih =>
    intro h
    have hc := h c (by simp)
    simp only [QuoteFree]
    refine ⟨fun x => hc.1 x.1, ?_⟩
    have : (c == '\\' && !false) = false := by simp [hc.2]
    rw [this]
    exact ih fun x hx => h x (by simp [hx])

theorem digitChar_not_quote : ∀ d, d < 16 → digitChar d ≠ '"' ∧ digitChar d ≠ '\\' := by decide

theorem hexOf_plainChars (c : Char) : ∀ x ∈ hexOf c, x ≠ '"' ∧ x ≠ '\\' := by
  intro x hx
  obtain ⟨d, hd, rfl⟩ := natDigits_chars (r := 16) (by omega) _ x hx
  exact digitChar_not_quote d hd

theorem escapeStrChar_quoteFree (c : Char) : QuoteFree false (escapeStrChar c) := by
  unfold escapeStrChar
  split
  · rename_i h
    rcases h with h | h <;> subst h <;> simp [QuoteFree]
  repeat' split
  all_goals first
    | (simp [QuoteFree]; done)
    | skip
  · -- `\x<hex>;`
    have h1 : QuoteFree false (hexOf c ++ [';']) :=
      quoteFree_append _ _ _ (hexDigits_quoteFree _ (hexOf_plainChars c)) (by simp [QuoteFree])
    simp only [QuoteFree]
    refine ⟨by simp, by simp, ?_⟩
    simpa using h1
  · rename_i h _ _ _ _ _ _ _ _ _
    have h1 : c ≠ '"' := fun e => h (Or.inl e)
    have h2 : c ≠ '\\' := fun e => h (Or.inr e)
    simp [QuoteFree, h1, h2]

theorem escapeStr_quoteFree (s : Text) : QuoteFree false (escapeStr s) := by
  induction s with
  | nil => rfl
  | cons c cs ih =>
    simp only [escapeStr]
    exact quoteFree_append _ _ _ (escapeStrChar_quoteFree c) ih

theorem stringTail_quoteFree : ∀ (body : Text) (esc : Bool) (rest : Text), QuoteFree esc body →
    stringTail esc (body ++ '"' :: rest) = some (body ++ ['"'], rest) := by
  intro body
  induction body with
  | nil =>
    intro esc rest h
    simp only [QuoteFree] at h
    subst h
    simp [stringTail]
  | cons c cs ih =>
    intro esc rest h
    simp only [QuoteFree] at h
    simp only [List.cons_append, stringTail]
    have : ¬ ((c == '"' && !esc) = true) := by
      intro x
      simp only [Bool.and_eq_true, beq_iff_eq, Bool.not_eq_eq_eq_not, Bool.not_true] at x
      exact h.1 x
    simp only [this, if_false]
    rw [ih _ rest h.2]
    simp

/-- the scanner finds the closing quote of a written string -/
theorem stringTail_escapeStr (s rest : Text) :
    stringTail false (escapeStr s ++ '"' :: rest) = some (escapeStr s ++ ['"'], rest) :=
  stringTail_quoteFree _ _ _ (escapeStr_quoteFree s)

theorem byteLen_quote : byteLen ['"'] = 1 := by decide

/-- `parse` cuts exactly the escaped body out of a written string token -/
theorem stringInner_writeString (s : Text) : stringInner (writeString s) = .ok (escapeStr s) := by
  unfold stringInner writeString
  by_cases hb : escapeStr s = []
  · simp [hb]
  · have hne : ('"' :: (escapeStr s ++ ['"'])) ≠ ['"', '"'] := by
      intro e
      have : escapeStr s ++ ['"'] = ['"'] := by simpa using e
      cases h : escapeStr s with
      | nil => exact hb h
      | cons x xs => rw [h] at this; simp at this
    simp only [hne, if_false]
    have hlen : byteLen ('"' :: (escapeStr s ++ ['"'])) = 1 + byteLen (escapeStr s) + 1 := by
      simp [byteLen_append, byteLen_quote]
      have : ('"' : Char).utf8Size = 1 := by decide
      omega
    have hpos : ¬ byteLen ('"' :: (escapeStr s ++ ['"'])) = 0 := by omega
    simp only [hpos, if_false]
    have e : ('"' :: (escapeStr s ++ ['"'])) = ['"'] ++ escapeStr s ++ ['"'] := by simp
    have hs := sliceBytes_append ['"'] (escapeStr s) ['"']
    rw [byteLen_quote] at hs
    rw [hlen, e]
    have : 1 + byteLen (escapeStr s) + 1 - 1 = 1 + byteLen (escapeStr s) := by omega
    rw [this, hs]

/-! ## characters -/

theorem isControl_iff (c : Char) : isControl c = true ↔ c.toNat ≤ 0x1F ∨ (0x7F ≤ c.toNat ∧ c.toNat ≤ 0x9F) := by
  simp [isControl]

theorem dropBytes_two (a b : Char) (ha : a.utf8Size = 1) (hb : b.utf8Size = 1) (s : Text) :
    dropBytes 2 (a :: b :: s) = some s := by
  simp [dropBytes, ha, hb]

theorem hexOf_all_hex (c : Char) : (hexOf c).all isAsciiHex = true := by
  rw [List.all_eq_true]
  intro x hx
  obtain ⟨d, hd, rfl⟩ := natDigits_chars (r := 16) (by omega) _ x hx
  exact (digitChar_hex d hd).1

theorem hexOf_ne_nil (c : Char) : hexOf c ≠ [] := natDigits_ne_nil _ _

/-- **character spelling inverse**: `parse_char` reads what `write_escaped_char` wrote, for every
scalar value -/
theorem parseCharSpan_writeEscapedChar (c : Char) : parseCharSpan (writeEscapedChar c) = .ok (.char c) := by
  unfold writeEscapedChar
  split
  · rename_i h; subst h; decide
  split
  · rename_i h; subst h; decide
  split
  · -- `#\x<hex>`
    unfold parseCharSpan
    rw [dropBytes_two _ _ (by decide) (by decide)]
    simp only
    cases hh : hexOf c with
    | nil => exact absurd hh (hexOf_ne_nil c)
    | cons d ds =>
      have hall := hexOf_all_hex c
      rw [hh] at hall
      simp only [hall, if_true]
      have hp : parseNat 16 (d :: ds) = some c.toNat := by
        rw [← hh]; exact parseNat_natDigits (by omega) (by omega) _
      simp only [hp, char_toNat_le_u32Max c, if_true, charOfNat?_toNat]
  · -- not a control character: the named arms are unreachable, the literal arm is taken
    rename_i hsp hnl hctl
    have hn : ¬ (c.toNat ≤ 0x1F ∨ (0x7F ≤ c.toNat ∧ c.toNat ≤ 0x9F)) := by
      rw [← isControl_iff]; simpa using hctl
    have h7 : c.toNat ≠ 0x7 := by omega
    have h8 : c.toNat ≠ 0x8 := by omega
    have h7f : c.toNat ≠ 0x7f := by omega
    have h1b : c.toNat ≠ 0x1b := by omega
    have h0 : c.toNat ≠ 0x0 := by omega
    have hd : c.toNat ≠ 0xd := by omega
    have h9 : c.toNat ≠ 0x9 := by omega
    simp only [h7, h8, h7f, h1b, h0, hd, h9, if_false]
    unfold parseCharSpan
    rw [dropBytes_two _ _ (by decide) (by decide)]

end Marwood
