import Marwood.Gen.Prelude
import Marwood.Spec.Match
import Marwood.Spec.Eval
/-!
# The prelude's derived-form macros, as `prelude.scm` defines them NOW, read by the R7RS matcher

`Gen/Prelude.lean` is regenerated from `/repo/marwood/prelude.scm` on every check. The statements
below pin the expansion the specification matcher (`Spec.Match.specExpand`, C17) produces from the
regenerated rules on schematic uses (distinct symbols stand for the sub-forms; `syntax-rules`
matching is parametric in them): the first half of T01.2. They break when a rule of the prelude
changes shape or order (e.g. the `case … =>` rule order repaired in c92a4af).
The general statements (all uses, not instances) are in `Lemmas/EvalDerivedExpand.lean`; the second
half — evaluating these expansions agrees with evaluating the form natively in `Spec.Eval` — in
`Lemmas/EvalDerived*.lean` (on top of fuel monotonicity, `Lemmas/EvalMono*.lean`).
-/
namespace Marwood.Spec.Eval.Prelude
open Marwood Marwood.Spec.Match Marwood.Spec.Eval

/-- the transformer the VM ends up with for a keyword: the last `define-syntax` of that name -/
def rulesOf (name : Text) : Option Rules :=
  ((Marwood.Gen.Prelude.macros.filter (·.1 == name)).getLast?).bind fun m => parseDef m.2

/-- the specification matcher expands `use` with the prelude's rules for `name` to `expected` -/
def expandsTo (name : Text) (use expected : Datum) : Bool :=
  match rulesOf name with
  | some rs =>
    match specExpand rs.ctx rs.rules use with
    | .ok d => d == expected
    | _ => false
  | none => false

def s (t : Text) : Datum := .sym t
def L (xs : List Datum) : Datum := Datum.ofList xs

theorem every_macro_is_readable :
    Marwood.Gen.Prelude.macros.all (fun m => (parseDef m.2).isSome) = true := by decide +kernel

theorem when_expansion :
    expandsTo k_when_ (L [s k_when_, s ['t'], s ['a'], s ['b']])
      (L [s k_if_, s ['t'], L [s k_begin_, s ['a'], s ['b']]]) = true := by decide +kernel

theorem unless_expansion :
    expandsTo k_unless_ (L [s k_unless_, s ['t'], s ['a'], s ['b']])
      (L [s k_if_, L [s ['n','o','t'], s ['t']], L [s k_begin_, s ['a'], s ['b']]]) = true := by decide +kernel

theorem begin_expansion :
    expandsTo k_begin_ (L [s k_begin_, s ['a'], s ['b']])
      (L [L [s k_lambda, .nil, s ['a'], s ['b']]]) = true := by decide +kernel

theorem and_expansions :
    expandsTo k_and_ (L [s k_and_]) (.bool true) = true ∧
    expandsTo k_and_ (L [s k_and_, s ['a']]) (s ['a']) = true ∧
    expandsTo k_and_ (L [s k_and_, s ['a'], s ['b'], s ['c']])
      (L [s k_if_, s ['a'], L [s k_and_, s ['b'], s ['c']], .bool false]) = true := by decide +kernel

theorem or_expansions :
    expandsTo k_or_ (L [s k_or_]) (.bool false) = true ∧
    expandsTo k_or_ (L [s k_or_, s ['a']]) (s ['a']) = true ∧
    expandsTo k_or_ (L [s k_or_, s ['a'], s ['b']])
      (L [s k_let_, L [L [s ['v','a','r','1'], s ['a']]],
          L [s k_if_, s ['v','a','r','1'], s ['v','a','r','1'], L [s k_or_, s ['b']]]]) = true := by
  decide +kernel

theorem let_expansion :
    expandsTo k_let_ (L [s k_let_, L [L [s ['x'], s ['a']], L [s ['y'], s ['b']]], s ['e'], s ['f']])
      (L [L [s k_lambda, L [s ['x'], s ['y']], s ['e'], s ['f']], s ['a'], s ['b']]) = true := by
  decide +kernel

/-- the rule order repaired in c92a4af: a final `=>` clause of `case` calls the procedure -/
theorem case_final_arrow_expansion :
    expandsTo k_case_ (L [s k_case_, s ['k'], L [L [.num (.fix 1), .num (.fix 2)], s k_arrow, s ['f']]])
      (L [s k_if_, L [s ['m','e','m','v'], s ['k'], L [s k_quote, L [.num (.fix 1), .num (.fix 2)]]],
          L [s ['f'], s ['k']]]) = true := by decide +kernel

end Marwood.Spec.Eval.Prelude
